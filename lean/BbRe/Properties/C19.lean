import BbRe.Model.Replay41
import BbRe.Lemmas.Replay41
import BbRe.Model.Replay40
import BbRe.Lemmas.Replay40
/-!
# C19 — NFSv4: retransmitted requests execute once and get the same reply

Theorems about `Model/Replay41.lean` (transcription of `opSequence`,
`opCreateSession` … of `nfs41_program.go`) and `Model/Replay40.lean`
(`startTransaction` / `transactionShouldComplete` / response caching of
`nfs40_program.go`).  The operations of a compound are abstract: their outcome
is an arbitrary input `x` of the `finish` step, so every statement holds for
every executor, every number of sessions / slots / owners and every
interleaving of arrivals and completions (`Reachable` quantifies over all op
lists: duplication, reordering and loss of requests are just different lists;
loss of a reply is not a server event at all).

Sequence ids are `uint32`; "at most once" is therefore stated for windows of
fewer than `M = 2^32` executions on one slot.
-/
namespace BbRe.Properties.C19
section V41
open BbRe.Replay41 BbRe.Lemmas.Replay41

/-! ## NFSv4.1 -/

/-- `arrive` starts an execution only on an idle slot of a live session and only
for the successor of the slot's last sequence id. -/
theorem arrive_started_41 (s : State) (c : Nat) (r : Req) (h : (arrive s c r).2 = .started) :
    ∃ se, s.sess r.sess = some se ∧ se.alive = true ∧ r.slot < se.nslots ∧
      (se.slot r.slot).busy = none ∧ r.seq = ((se.slot r.slot).lastSeq + 1) % M ∧
      (arrive s c r).1.execs = s.execs ++ [(c, r)] := by
  rcases arrive_cases s c r with ⟨rep, h1, _⟩ | ⟨se, h1, h2, h3, h4, h5, h6⟩ | ⟨h1, _⟩
  · rw [h1] at h; cases h
  · rcases h6 with ⟨h6, _⟩ | ⟨_, h7⟩
    · rw [h6] at h; cases h
    · exact ⟨se, h1, h2, h3, h4, h5, h7⟩
  · rw [h1] at h; cases h

/-- A request that is not started leaves the execution log untouched. -/
theorem arrive_not_started_41 (s : State) (c : Nat) (r : Req) (h : (arrive s c r).2 ≠ .started) :
    (arrive s c r).1.execs = s.execs := by
  rcases arrive_cases s c r with ⟨rep, h1, _⟩ | ⟨se, _, _, _, _, _, h6⟩ | ⟨_, h2⟩
  · rw [h1]
  · rcases h6 with ⟨_, h7⟩ | ⟨h6, _⟩
    · exact h7
    · exact absurd h6 h
  · exact h2

/-- **exec_seqs**: on every slot the sequence ids of the executions that were
started are exactly `1, 2, …, n` (mod 2^32), in this order — whatever was sent,
duplicated, reordered or lost. -/
theorem exec_seqs_41 {a b : Nat} {l lj : Bool} {s : State} (h : Reachable (init a b l lj) s) (sid slot : Nat) :
    (execsOn s.execs sid slot).map (·.seq) = seqsTo (execsOn s.execs sid slot).length := by
  have hinv := inv_reachable (inv_init a b l lj) h
  cases hse : s.sess sid with
  | none => rw [hinv.noexec sid slot hse]; rfl
  | some se =>
    have hs := (hinv.slots sid se slot hse).seqs
    have hl : (execsOn s.execs sid slot).length = (se.slot slot).nExec := by
      have := congrArg List.length hs
      simpa [seqsTo_length] using this
    rw [hl]; exact hs

/-- **at_most_once** (4.1): a request carrying the (session, slot, sequence id)
of an execution that was already started on that slot — fewer than 2^32
executions ago — is never executed: the step does not start an execution and
the execution log is unchanged.  A retransmission is the special case `r = r'`. -/
theorem at_most_once_41 {a b : Nat} {l lj : Bool} {s : State} (h : Reachable (init a b l lj) s)
    (c : Nat) (r : Req) (i : Nat) (hi : i < (execsOn s.execs r.sess r.slot).length)
    (hseq : ((execsOn s.execs r.sess r.slot)[i]).seq = r.seq)
    (hwin : (execsOn s.execs r.sess r.slot).length - i < M) :
    (arrive s c r).2 ≠ .started ∧ (arrive s c r).1.execs = s.execs := by
  have hne : (arrive s c r).2 ≠ .started := by
    intro hst
    obtain ⟨se, hse, _, _, hb, hnext, _⟩ := arrive_started_41 s c r hst
    have hinv := inv_reachable (inv_init a b l lj) h
    have hs := hinv.slots r.sess se r.slot hse
    have hidle := hs.idle hb
    have hlen : (execsOn s.execs r.sess r.slot).length = (se.slot r.slot).nExec := by
      have := congrArg List.length hs.seqs
      simpa [seqsTo_length] using this
    have hget : ((execsOn s.execs r.sess r.slot)[i]).seq = (i + 1) % M := by
      have h1 : ((execsOn s.execs r.sess r.slot).map (·.seq))[i]'(by simpa using hi) = (i + 1) % M := by
        have := seqsTo_get (se.slot r.slot).nExec i (by rw [seqsTo_length]; omega)
        simp only [hs.seqs]; exact this
      simpa using h1
    rw [hseq, hnext, hidle, mod_succ_eq] at hget
    rw [hlen] at hwin hi
    simp only [M] at hget hwin
    omega
  exact ⟨hne, arrive_not_started_41 s c r hne⟩

/-- Well-formedness of an executor result w.r.t. the request it executed: the
loop of `opSequence` appends one result per operation (same op number, or
`OP_ILLEGAL`), stops at the first failure. -/
def WF (r : Req) (x : XRes) : Prop :=
  x.resops.length ≤ r.ops.length ∧ (x.status = 0 → x.resops.length = r.ops.length) ∧
    matchOps x.resops r.ops = true

theorem matchOps_take (rs os : List Nat) (n : Nat) (h : matchOps rs os = true) : matchOps (rs.take n) os = true := by
  induction rs generalizing os n with
  | nil => simp [matchOps]
  | cons a rs ih =>
    cases n with
    | zero => simp [matchOps]
    | succ n =>
      cases os with
      | nil => simp [matchOps] at h
      | cons o os =>
        simp only [List.take_succ_cons, matchOps, Bool.and_eq_true] at h ⊢
        exact ⟨h.1, ih os n h.2⟩

/-- The cached form of a well-formed result passes the shape check of a request
with the same operations. -/
theorem shapeOK_cachedRes (r : Req) (x : XRes) (hwf : WF r x) : shapeOK (cachedRes r.cache x) r.ops = true := by
  obtain ⟨h1, h2, h3⟩ := hwf
  unfold cachedRes
  split
  · unfold shapeOK fullRes
    simp only [h3, Bool.and_true, Bool.not_eq_true', Bool.or_eq_false_iff, decide_eq_false_iff_not,
      Bool.and_eq_false_iff]
    refine ⟨by omega, ?_⟩
    by_cases hs : x.status = 0
    · right; simp [h2 hs]
    · left; exact hs
  · unfold shapeOK
    simp only [matchOps_take _ _ _ h3, Bool.and_true, Bool.not_eq_true', Bool.or_eq_false_iff,
      decide_eq_false_iff_not, Bool.and_eq_false_iff, List.length_take]
    refine ⟨?_, Or.inl (by simp [errRetryUncachedRep])⟩
    rename_i hc
    simp only [Bool.or_eq_true, decide_eq_true_eq, Bool.and_eq_true, not_or, not_and] at hc
    omega

/-- **same_reply** (4.1, cached arm): while request `r0` is the last one that
finished on its slot (ghost `lastDone`; it is set by `finish` and cleared only
when the slot accepts the successor sequence id, see `lastDone_set_41` /
`lastDone_stable_41`), every request with its session, slot, sequence id and
operations is answered, without any state change, with the cached form of the
original's result: the original's reply itself, or — exactly when the original
did not ask for caching and produced more than `len(resArray) < 2 ∨ (= 2 ∧
failed)` allows — `[SEQUENCE, first op with NFS4ERR_RETRY_UNCACHED_REP]`
(`uncached_rule_41`). -/
theorem same_reply_41 {a b : Nat} {l lj : Bool} {s : State} (h : Reachable (init a b l lj) s)
    (c : Nat) (r r0 : Req) (x0 : XRes) (se : Session)
    (hse : s.sess r.sess = some se) (halive : se.alive = true) (hslot : r.slot < se.nslots)
    (hdone : (se.slot r.slot).lastDone = some (r0, x0))
    (hseq : r.seq = r0.seq) (hops : r.ops = r0.ops) (hwf : WF r0 x0) :
    arrive s c r = (s, .reply (cachedRes r0.cache x0)) := by
  have hinv := inv_reachable (inv_init a b l lj) h
  obtain ⟨h1, h2, _⟩ := (hinv.slots r.sess se r.slot hse).done r0 x0 hdone
  rw [arrive_eq_replay s c r se hse halive hslot (by rw [h2, hseq]), h1, hops, shapeOK_cachedRes r0 x0 hwf]
  simp

/-- The caching rule of `opSequence`: the full result is kept iff the client
asked for it or the result has at most one operation result after SEQUENCE
(one only if it failed); otherwise the retry gets RETRY_UNCACHED_REP. -/
theorem uncached_rule_41 (cache : Bool) (x : XRes) :
    (cachedRes cache x = fullRes x ↔
      (cache = true ∨ x.resops.length = 0 ∨ (x.resops.length = 1 ∧ x.status ≠ 0))) ∧
    (cachedRes cache x ≠ fullRes x →
      (cachedRes cache x).status = errRetryUncachedRep ∧ (cachedRes cache x).resops = x.resops.take 1 ∧
        (cachedRes cache x).body = .uncached x.b) := by
  unfold cachedRes
  split
  · rename_i hc
    simp only [Bool.or_eq_true, decide_eq_true_eq, Bool.and_eq_true] at hc
    refine ⟨⟨fun _ => ?_, fun _ => rfl⟩, fun h => absurd rfl h⟩
    rcases hc with (hc | hc) | hc
    · exact Or.inl hc
    · exact Or.inr (Or.inl (by omega))
    · exact Or.inr (Or.inr hc)
  · rename_i hc
    simp only [Bool.or_eq_true, decide_eq_true_eq, Bool.and_eq_true, not_or, not_and] at hc
    refine ⟨⟨fun h => ?_, fun h => ?_⟩, fun _ => ⟨rfl, rfl, rfl⟩⟩
    · simp [fullRes] at h
    · rcases h with h | h | h
      · exact absurd h hc.1.1
      · omega
      · exact absurd h.2 (hc.2 h.1)

/-- `finish` records the finished execution as the slot's `lastDone`. -/
theorem lastDone_set_41 (s : State) (sid slot : Nat) (x : XRes) (se : Session) (b : Busy)
    (hse : s.sess sid = some se) (hb : (se.slot slot).busy = some b) :
    ∃ se', (finish s sid slot x).1.sess sid = some se' ∧ (se'.slot slot).lastDone = some (b.req, x) ∧
      (se'.slot slot).busy = none ∧ se'.alive = se.alive ∧ se'.nslots = se.nslots := by
  unfold finish getSlot
  simp only [hse, Option.map_some, hb]
  refine ⟨_, setSlot_sess_same s sid slot _ se hse, ?_, ?_, rfl, rfl⟩ <;> simp

/-- A retransmission sent right after the original finished (no other event in
between) gets the cached form of the original's result. -/
theorem same_reply_immediate_41 {a b : Nat} {l lj : Bool} {s : State} (h : Reachable (init a b l lj) s)
    (sid slot : Nat) (x : XRes) (se : Session) (bz : Busy) (c : Nat)
    (hse : s.sess sid = some se) (hb : (se.slot slot).busy = some bz) (halive : se.alive = true)
    (hslot : slot < se.nslots) (hsid : bz.req.sess = sid) (hsl : bz.req.slot = slot) (hwf : WF bz.req x) :
    (arrive (finish s sid slot x).1 c bz.req).2 = .reply (cachedRes bz.req.cache x) := by
  obtain ⟨se', h1, h2, _, h4, h5⟩ := lastDone_set_41 s sid slot x se bz hse hb
  have hr : Reachable (init a b l lj) (finish s sid slot x).1 := Reachable.step (.finish sid slot x) h
  have := same_reply_41 hr c bz.req bz.req x se' (by rw [hsid]; exact h1) (by rw [h4]; exact halive)
    (by rw [h5, hsl]; exact hslot) (by rw [hsl]; exact h2) rfl rfl hwf
  rw [this]

/-- **inflight_duplicate_completes** (4.1, no lost wake-up): in every reachable
state of the current code, every call parked behind an executing original is
registered in the slot's waiter list, hence as soon as the original finishes
(with whatever result `x`) the completion step hands it a reply, and the call
is no longer parked.  The reply is the original's full result whenever the
call's operations have the shape of that result, `SEQ_FALSE_RETRY` otherwise
(`waiter_reply_41`). -/
theorem inflight_duplicate_completes_41 {a b : Nat} {lj : Bool} {s : State}
    (h : Reachable (init a b false lj) s) (c sid slot : Nat) (hp : (c, sid, slot) ∈ s.parked) :
    ∃ se bz, s.sess sid = some se ∧ (se.slot slot).busy = some bz ∧
      ∀ x, (∃ rep, (c, rep) ∈ (finish s sid slot x).2) ∧ (c, sid, slot) ∉ (finish s sid slot x).1.parked := by
  have hinv := inv_reachable (inv_init a b false lj) h
  have hleg : s.legacy = false := reachable_legacy h
  obtain ⟨se, bz, hse, hb, hc⟩ := hinv.parked hleg c sid slot hp
  refine ⟨se, bz, hse, hb, fun x => ?_⟩
  unfold finish getSlot
  simp only [hse, Option.map_some, hb]
  constructor
  · simp only [List.mem_map] at hc
    obtain ⟨w, hw, hw1⟩ := hc
    refine ⟨waiterReply s.legacyJoin x w.2, ?_⟩
    simp only [List.mem_cons, List.mem_map, Prod.mk.injEq]
    right
    exact ⟨w, hw, hw1, rfl⟩
  · intro hmem
    simp only [List.mem_filter, Bool.not_eq_true', List.contains_eq_mem, decide_eq_false_iff_not] at hmem
    exact hmem.2 hc

/-- What `finish` hands out: the original gets its result, every registered
waiter gets the same full result if its own operations have that shape and
`SEQ_FALSE_RETRY` otherwise (commit 5fcf292). -/
theorem waiter_reply_41 (s : State) (sid slot : Nat) (x : XRes) (c : Nat) (rep : CRes)
    (hl : s.legacyJoin = false) (h : (c, rep) ∈ (finish s sid slot x).2) :
    rep = fullRes x ∨ rep = seqErr errSeqFalseRetry := by
  unfold finish at h
  split at h
  · simp at h
  · split at h
    · simp at h
    · simp only [List.mem_cons, Prod.mk.injEq, List.mem_map] at h
      rcases h with ⟨_, h⟩ | ⟨w, _, _, h⟩
      · exact Or.inl h
      · rw [← h, hl]; unfold waiterReply; split
        · exact Or.inl rfl
        · exact Or.inr rfl

/-- Before commit 90324f7 (`legacy = true`) the wake-up was lost: the duplicate
of a request that is executing is parked, the original finishes, and the
duplicate is neither answered nor unparked. -/
theorem legacy_drop_waiter_counterexample :
    let r : Req := ⟨0, 0, 1, [22, 38], true, 7⟩
    let s := (run (init 12 3 true) [.exchangeId 0 1 99, .createSession 0 100, .arrive 0 r, .arrive 1 r]).1
    (1, 0, 0) ∈ s.parked ∧
    (finish s 0 0 ⟨0, [22, 38], 0⟩).2 = [(0, fullRes ⟨0, [22, 38], 0⟩)] ∧
    (1, 0, 0) ∈ (finish s 0 0 ⟨0, [22, 38], 0⟩).1.parked := by
  decide

/-- The same run on the current code: the duplicate is answered with the
original's result. -/
theorem inflight_duplicate_example :
    let r : Req := ⟨0, 0, 1, [22, 38], true, 7⟩
    let s := (run (init 12 3 false) [.exchangeId 0 1 99, .createSession 0 100, .arrive 0 r, .arrive 1 r]).1
    (finish s 0 0 ⟨0, [22, 38], 0⟩).2 = [(0, fullRes ⟨0, [22, 38], 0⟩), (1, fullRes ⟨0, [22, 38], 0⟩)] ∧
    (finish s 0 0 ⟨0, [22, 38], 0⟩).1.parked = [] := by
  decide

/-- **misordered_no_effect** (4.1): on a live session and valid slot, a sequence
id that is neither the slot's last one nor its successor is answered with
`NFS4ERR_SEQ_MISORDERED` and the state (ghost fields included) is unchanged. -/
theorem misordered_no_effect_41 (s : State) (c : Nat) (r : Req) (se : Session)
    (hse : s.sess r.sess = some se) (halive : se.alive = true) (hslot : r.slot < se.nslots)
    (h1 : r.seq ≠ (se.slot r.slot).lastSeq) (h2 : r.seq ≠ ((se.slot r.slot).lastSeq + 1) % M) :
    arrive s c r = (s, .reply (seqErr errSeqMisordered)) :=
  arrive_eq_misordered s c r se hse halive hslot h1 h2

/-- Unknown or destroyed sessions and invalid slots: error, no effect. -/
theorem bad_session_no_effect_41 (s : State) (c : Nat) (r : Req)
    (h : s.sess r.sess = none ∨ ∃ se, s.sess r.sess = some se ∧ se.alive = false) :
    arrive s c r = (s, .reply (seqErr errBadSession)) := by
  rcases h with h | ⟨se, h, h'⟩
  · exact arrive_eq_nosession s c r h
  · exact arrive_eq_dead s c r se h h'

/-- Meaning of the shape check. -/
theorem shapeOK_sound (cr : CRes) (ops : List Nat) (h : shapeOK cr ops = true) :
    cr.resops.length ≤ ops.length ∧ (cr.status = 0 → cr.resops.length = ops.length) ∧
    ∀ i (h1 : i < cr.resops.length) (h2 : i < ops.length), cr.resops[i] = ops[i] ∨ cr.resops[i] = opIllegal := by
  simp only [shapeOK, Bool.and_eq_true, Bool.not_eq_true', Bool.or_eq_false_iff, decide_eq_false_iff_not,
    Bool.and_eq_false_iff] at h
  obtain ⟨⟨h1, h2⟩, h3⟩ := h
  refine ⟨by omega, fun hs => ?_, ?_⟩
  · rcases h2 with h2 | h2
    · exact absurd hs h2
    · simpa using h2
  · have : ∀ (rs os : List Nat), matchOps rs os = true →
        ∀ i (h1 : i < rs.length) (h2 : i < os.length), rs[i] = os[i] ∨ rs[i] = opIllegal := by
      intro rs
      induction rs with
      | nil => intro os _ i h1; simp at h1
      | cons a rs ih =>
        intro os hm i h1 h2
        cases os with
        | nil => simp at h2
        | cons o os =>
          simp only [matchOps, Bool.and_eq_true, Bool.or_eq_true, beq_iff_eq] at hm
          cases i with
          | zero => simpa using hm.1
          | succ i => simpa using ih os hm.2 i (by simpa using h1) (by simpa using h2)
    exact this _ _ h3

/-- **false_retry** (4.1, cached arm): whenever `arrive` answers at once with
anything but a bare SEQUENCE error, the reply has the shape of the request: it
answers the request's operations one by one (same op number or `OP_ILLEGAL`),
completely if its status is OK.  A request whose op-number sequence differs
from the cached reply's in an executed position or, for a successful reply, in
length, is therefore answered with an error, never with the cached reply. -/
theorem false_retry_41 (s : State) (c : Nat) (r : Req) (rep : CRes)
    (h : (arrive s c r).2 = .reply rep) (hbody : ∀ code, rep.body ≠ .seqErr code) :
    shapeOK rep r.ops = true := by
  rcases arrive_cases s c r with ⟨rep', h1, h2⟩ | ⟨se, _, _, _, _, _, h6⟩ | ⟨h1, _⟩
  · rw [h1] at h
    simp only [ArriveOut.reply.injEq] at h
    subst h
    rcases h2 with ⟨code, h2⟩ | ⟨se, _, _, _, _, hok, h2⟩
    · subst h2; exact absurd rfl (hbody code)
    · subst h2; exact hok
  · rcases h6 with ⟨h6, _⟩ | ⟨h6, _⟩
    · rw [h6] at h
      simp only [ArriveOut.reply.injEq] at h
      subst h; exact absurd rfl (hbody _)
    · rw [h6] at h; cases h
  · rw [h1] at h; cases h

/-- **false_retry** (4.1, in-flight arm, commit 5fcf292): a request that joined
an executing original and is handed anything but `SEQ_FALSE_RETRY` has the
shape of the result it is handed. -/
theorem false_retry_inflight_41 (s : State) (sid slot : Nat) (x : XRes) (se : Session) (bz : Busy)
    (hl : s.legacyJoin = false) (hse : s.sess sid = some se) (hb : (se.slot slot).busy = some bz)
    (w : Nat × List Nat) (hw : w ∈ bz.waiters) :
    (w.1, waiterReply false x w.2) ∈ (finish s sid slot x).2 ∧
    (waiterReply false x w.2 = fullRes x → shapeOK (fullRes x) w.2 = true) ∧
    (shapeOK (fullRes x) w.2 = false → waiterReply false x w.2 = seqErr errSeqFalseRetry) := by
  refine ⟨?_, ?_, ?_⟩
  · unfold finish getSlot
    simp only [hse, Option.map_some, hb, hl, List.mem_cons, List.mem_map]
    right; exact ⟨w, hw, rfl⟩
  · unfold waiterReply
    cases hs : shapeOK (fullRes x) w.2
    · simp [fullRes, seqErr]
    · simp
  · intro hs; simp [waiterReply, hs]

/-- A different op-number sequence is never answered with a successful cached
reply: if the original succeeded without `OP_ILLEGAL` results and was cached
in full, any request with the same ids whose operations differ gets
`NFS4ERR_SEQ_FALSE_RETRY`. -/
theorem false_retry_full_41 (cr : CRes) (ops0 ops : List Nat)
    (hst : cr.status = 0) (hlen : cr.resops.length = ops0.length)
    (hm : cr.resops = ops0) (hne : ops ≠ ops0) (hnill : ∀ o ∈ ops0, o ≠ opIllegal) :
    shapeOK cr ops = false := by
  cases hs : shapeOK cr ops with
  | false => rfl
  | true =>
    obtain ⟨h1, h2, h3⟩ := shapeOK_sound cr ops hs
    have hl := h2 hst
    exfalso; apply hne
    apply List.ext_getElem
    · rw [← hl, hlen]
    · intro i hi1 hi2
      have := h3 i (by rw [hlen]; exact hi2) hi1
      subst hm
      rcases this with h | h
      · exact h.symm
      · exact absurd h (hnill _ (List.getElem_mem _))

/-- Before commit 5fcf292 (`legacyJoin = true`): a request with other operations
(PUTFH, WRITE, GETFH) that arrives while (PUTFH, WRITE) with the same ids is
executing is handed that request's reply. -/
theorem finding_inflight_join_ignores_content :
    let r : Req := ⟨0, 0, 1, [22, 38], true, 7⟩
    let r' : Req := ⟨0, 0, 1, [22, 38, 10], true, 8⟩
    let s := (run (init 12 3 false true) [.exchangeId 0 1 99, .createSession 0 100, .arrive 0 r, .arrive 1 r']).1
    (finish s 0 0 ⟨0, [22, 38], 0⟩).2 = [(0, fullRes ⟨0, [22, 38], 0⟩), (1, fullRes ⟨0, [22, 38], 0⟩)] ∧
    shapeOK (fullRes ⟨0, [22, 38], 0⟩) r'.ops = false := by
  decide

/-- The same run on the current code: the false retry gets SEQ_FALSE_RETRY. -/
theorem inflight_false_retry_example :
    let r : Req := ⟨0, 0, 1, [22, 38], true, 7⟩
    let r' : Req := ⟨0, 0, 1, [22, 38, 10], true, 8⟩
    let s := (run (init 12 3 false false) [.exchangeId 0 1 99, .createSession 0 100, .arrive 0 r, .arrive 1 r']).1
    (finish s 0 0 ⟨0, [22, 38], 0⟩).2 = [(0, fullRes ⟨0, [22, 38], 0⟩), (1, seqErr errSeqFalseRetry)] := by
  decide

/-! ### CREATE_SESSION -/

/-- **create_session_replay**: CREATE_SESSION with the incarnation's last
sequence id returns the cached response and changes nothing; a sequence id
that is neither the last nor its successor is refused without effect. -/
theorem create_session_replay (s : State) (k q : Nat) (hk : k < s.ninc) (halive : (s.inc k).alive = true) :
    (q = (s.inc k).csLast → createSession s k q = (s, .cached (s.inc k).csResp)) ∧
    (q ≠ (s.inc k).csLast → q ≠ ((s.inc k).csLast + 1) % M → createSession s k q = (s, .misordered)) := by
  constructor
  · intro h; unfold createSession; simp [Nat.not_le.2 hk, halive, h]
  · intro h1 h2; unfold createSession; simp [Nat.not_le.2 hk, halive, h1, h2]

/-- After a CREATE_SESSION that created session `sid`, its retransmission gets
the cached response naming `sid` and creates nothing. -/
theorem create_session_same_reply (s : State) (k q sid : Nat) (s' : State)
    (h : createSession s k q = (s', .created sid)) :
    createSession s' k q = (s', .cached (some sid)) := by
  have key : ∀ (s0 : State) (cl : Nat), k < s0.ninc → (s0.inc k).alive = true →
      newSession s0 k cl q = (s', .created sid) → createSession s' k q = (s', .cached (some sid)) := by
    intro s0 cl hk hal hn
    unfold newSession at hn
    simp only [Prod.mk.injEq, CsOut.created.injEq] at hn
    obtain ⟨hs, hsid⟩ := hn
    subst hs; subst hsid
    unfold createSession
    simp [Nat.not_le.2 hk, hal]
  unfold createSession at h
  split at h
  · simp at h
  · rename_i hv
    simp only [Bool.or_eq_true, decide_eq_true_eq, Bool.not_eq_true', not_or, Nat.not_le, Bool.not_eq_false] at hv
    split at h
    · simp at h
    · split at h
      · split at h
        · split at h
          · exact key s _ hv.1 hv.2 h
          · split at h
            · simp at h
            · rename_i old _ hne _
              refine key (removeInc s old) _ hv.1 ?_ h
              simp [removeInc, Ne.symm hne, hv.2]
        · exact key s _ hv.1 hv.2 h
      · simp at h

/-! ### non-vacuity -/

/-- A reachable state in which slot 0 of session 0 has finished request
`⟨0,0,1,[22,38]⟩`: the hypotheses of `same_reply_41` and `at_most_once_41` hold. -/
example :
    let r : Req := ⟨0, 0, 1, [22, 38], false, 7⟩
    let s := (run (init 12 3 false) [.exchangeId 0 1 99, .createSession 0 100, .arrive 0 r,
      .finish 0 0 ⟨0, [22, 38], 0⟩]).1
    (execsOn s.execs 0 0).length = 1 ∧ ((execsOn s.execs 0 0)[0]!).seq = r.seq ∧
    (arrive s 5 r).2 = .reply ⟨errRetryUncachedRep, [22], .uncached 0⟩ ∧
    (arrive s 5 { r with cache := true }).2 = .reply ⟨errRetryUncachedRep, [22], .uncached 0⟩ ∧
    (arrive s 6 { r with seq := 3 }).2 = .reply (seqErr errSeqMisordered) ∧
    (arrive s 7 { r with ops := [22, 9] }).2 = .reply ⟨errRetryUncachedRep, [22], .uncached 0⟩ ∧
    (arrive s 8 { r with ops := [24, 38] }).2 = .reply (seqErr errSeqFalseRetry) := by
  decide

example : WF ⟨0, 0, 1, [22, 38], false, 7⟩ ⟨0, [22, 38], 0⟩ := by unfold WF; decide
example : WF ⟨0, 0, 1, [22, 15, 38], false, 7⟩ ⟨20, [22, 15], 0⟩ := by unfold WF; decide

end V41

/-! ## NFSv4.0 -/
section V40
open BbRe.Replay40 BbRe.Lemmas.Replay40

/-- The eight status codes of `transactionShouldComplete` (RFC 7530 9.1.7):
STALE_CLIENTID, STALE_STATEID, BAD_STATEID, BAD_SEQID, BADXDR, RESOURCE,
NOFILEHANDLE, MOVED.  The table is compared with the Go source on every run by
the harness (`fact check: transactionShouldComplete`). -/
theorem should_complete_table_40 (st : Nat) :
    shouldComplete st = false ↔
      st = 10022 ∨ st = 10023 ∨ st = 10025 ∨ st = 10026 ∨ st = 10036 ∨ st = 10018 ∨ st = 10020 ∨ st = 10019 := by
  simp only [shouldComplete, Bool.and_eq_false_iff, bne_eq_false_iff_eq, or_assoc]

/-- **seq_advance_rule** (4.0): when the transaction of an open-owner completes,
the owner's cached seqid becomes the transaction's seqid and its response is
cached iff `transactionShouldComplete` of the status of the response it completes with
(`effResp`: the operation's response, or for LOCK with `open_to_lock_owner4`
the outcome of the nested lock-owner transaction); otherwise the seqid is
unchanged and nothing is cached (the previous response was dropped when the
transaction started). -/
theorem seq_advance_rule_40 {s : State} (h : Reachable s) (o : Nat) (x : Fin) (call : Nat) (r : Req)
    (hb : (s.oo o).busy = some (call, r)) :
    (shouldComplete (effResp s r x).status = true →
      ((finish s o x).1.oo o).lastSeq = r.seq ∧ ((finish s o x).1.oo o).lastResp = some (effResp s r x)) ∧
    (shouldComplete (effResp s r x).status = false →
      ((finish s o x).1.oo o).lastSeq = (s.oo o).lastSeq ∧ ((finish s o x).1.oo o).lastResp = none) ∧
    ((finish s o x).1.oo o).busy = none ∧ (finish s o x).2.1 = some (call, effReply s r x) ∧
    (r.kind ≠ .lock → effResp s r x = x.resp ∧ effReply s r x = .cached x.resp) := by
  have hinv := inv_reachable h
  rw [finish_oo_same s o x call r hb]
  refine ⟨fun ha => by simp [ha], fun ha => ?_, rfl, (finish_waiting s o x call r hb).2.2,
    fun hk => ⟨effResp_not_lock s r x hk, effReply_not_lock s r x hk⟩⟩
  simp [ha, (hinv.busy o _ hb).1]

/-- Same rule for lock-owners (`lockOwnerTransaction.complete`). -/
theorem lock_seq_advance_rule_40 (s : State) (r : LReq) (x : Resp) (lk f : Nat)
    (hl : lockLookup s r.other = some (lk, f)) (hex : (lockTx s r x).2.2 = true) :
    (shouldComplete x.status = true →
      ((lockTx s r x).1.lo lk).lastSeq = r.seq ∧ ((lockTx s r x).1.lo lk).lastResp = some x) ∧
    (shouldComplete x.status = false →
      ((lockTx s r x).1.lo lk).lastSeq = (s.lo lk).lastSeq ∧ ((lockTx s r x).1.lo lk).lastResp = none) := by
  unfold lockTx at hex ⊢
  rw [hl] at hex ⊢
  dsimp only at hex ⊢
  split at hex
  · simp at hex
  · split at hex
    · simp at hex
    · rename_i h1 h2
      simp only [h1, h2, if_false, Bool.false_eq_true]
      constructor
      · intro ha; simp [ha]
      · intro ha; simp [ha]

/-- Executor well-formedness for 4.0: a response has the type of its request,
and an OK response of OPEN_CONFIRM / OPEN_DOWNGRADE / CLOSE carries the
successor of the presented state ID (`txOpenConfirm`, `txOpenDowngrade`,
`txClose` bump `stateID.seqID` of the file they resolved). -/
def WF40 (r : Req) (resp : Resp) : Prop :=
  resp.kind = r.kind ∧
  (r.kind ≠ .open_ → r.kind ≠ .lock → resp.status = 0 → isNext resp.sid r.other r.argSeq = true)

/-- **at_most_once / same_reply** (4.0): while `(r0, x0)` is the owner's last
completed-and-advanced transaction (ghost `lastDone`, set by `finish` iff the
status advances, cleared when the next transaction starts), EVERY request that
resolves to this owner with `r0`'s seqid is answered without starting a
transaction and without any state change; an identical retransmission gets the
cached response `x0`. -/
theorem same_reply_40 {s : State} (h : Reachable s) (c : Nat) (r r0 : Req) (x0 : Resp) (o : Nat)
    (hres : resolve s r = some o) (hdone : (s.oo o).lastDone = some (r0, x0)) (hseq : r.seq = r0.seq) :
    arrive s c r = (s, .reply (replayReply r x0)) ∧
    (r.kind = r0.kind → r.other = r0.other → r.argSeq = r0.argSeq → WF40 r0 x0 → replayReply r x0 = .cached x0) := by
  have hinv := inv_reachable h
  obtain ⟨h1, h2⟩ := hinv.done o r0 x0 hdone
  have hb : (s.oo o).busy = none := by
    cases hb : (s.oo o).busy with
    | none => rfl
    | some b => rw [(hinv.busy o b hb).1] at h1; cases h1
  refine ⟨arrive_eq_replay s c r o x0 hres hb h1 (by rw [h2, hseq]), fun hk ho ha hwf => ?_⟩
  obtain ⟨w1, w2⟩ := hwf
  unfold replayReply
  rw [if_neg (by rw [w1, hk]; exact fun h => h rfl)]
  cases hkk : r.kind <;> simp only []
  all_goals
    by_cases hst : x0.status = 0
    · have := w2 (by rw [← hk, hkk]; decide) (by rw [← hk, hkk]; decide) hst
      rw [ho, ha, this]; simp
    · simp [hst]

/-- **false_retry** (4.0): whenever `arrive` answers with a cached response, that
response has the type of the request, and for OPEN_CONFIRM / OPEN_DOWNGRADE /
CLOSE an OK response is only returned if its state ID is the successor of the
presented one.  A request that reuses the last seqid with another operation
type (or another state ID) therefore gets NFS4ERR_BAD_SEQID. -/
theorem false_retry_40 (r : Req) (resp resp' : Resp) (h : replayReply r resp = .cached resp') :
    resp' = resp ∧ resp.kind = r.kind ∧
    (r.kind ≠ .open_ → r.kind ≠ .lock → resp.status = 0 → isNext resp.sid r.other r.argSeq = true) := by
  unfold replayReply at h
  split at h
  · cases h
  · rename_i hk
    simp only [ne_eq, Decidable.not_not] at hk
    cases hkk : r.kind <;> rw [hkk] at h <;> simp only [] at h
    · cases h; exact ⟨rfl, hk.trans hkk, fun h1 => absurd rfl h1⟩
    all_goals first
      | (cases h; exact ⟨rfl, hk.trans hkk, fun _ h2 => absurd rfl h2⟩)
      | (split at h
         · rename_i hc
           cases h
           refine ⟨rfl, hk.trans hkk, fun _ _ hst => ?_⟩
           simpa [hst] using hc
         · cases h)

/-- Every cached response `arrive` hands out comes from the replay arm and has
the request's type. -/
theorem arrive_cached_kind_40 (s : State) (c : Nat) (r : Req) (resp : Resp)
    (h : (arrive s c r).2 = .reply (.cached resp)) : resp.kind = r.kind := by
  cases hres : resolve s r with
  | none => rw [arrive_eq_unresolved s c r hres] at h; cases h
  | some o =>
    cases hb : (s.oo o).busy with
    | some b => rw [arrive_eq_wait s c r o hres (by simp [hb])] at h; cases h
    | none =>
      by_cases hrep : ∃ resp0, (s.oo o).lastResp = some resp0 ∧ r.seq = (s.oo o).lastSeq
      · obtain ⟨resp0, h1, h2⟩ := hrep
        rw [arrive_eq_replay s c r o resp0 hres hb h1 h2] at h
        simp only [Out.reply.injEq] at h
        obtain ⟨e, hk, _⟩ := false_retry_40 r resp0 resp h
        rw [e]; exact hk
      · have hn : NoReplay (s.oo o) r.seq := by
          cases h1 : (s.oo o).lastResp with
          | none => exact Or.inl h1
          | some resp0 => exact Or.inr (fun h2 => hrep ⟨resp0, h1, h2⟩)
        cases hc : (s.oo o).confirmed with
        | true =>
          by_cases hq : r.seq = nextSeq (s.oo o).lastSeq
          · rw [arrive_eq_start_confirmed s c r o hres hb hn hc hq] at h; cases h
          · rw [arrive_eq_badseq_confirmed s c r o hres hb hn hc hq] at h; cases h
        | false =>
          by_cases hk : r.kind = .open_
          · rw [arrive_eq_unconfirmed_open s c r o hres hb hn hc hk] at h; cases h
          · by_cases hk2 : r.kind = .openConfirm
            · rw [arrive_eq_unconfirmed_confirm s c r o hres hb hn hc hk2] at h
              split at h <;> cases h
            · rw [arrive_eq_unconfirmed_deny s c r o hres hb hn hc hk2 hk] at h; cases h

/-- **misordered_no_effect** (4.0): on a confirmed open-owner with no transaction
in progress, a seqid that is neither the cached one nor its successor is
answered NFS4ERR_BAD_SEQID and nothing changes; an unknown state ID is answered
NFS4ERR_BAD_STATEID and nothing changes; on an unconfirmed owner everything
but OPEN / OPEN_CONFIRM is refused. -/
theorem misordered_no_effect_40 (s : State) (c : Nat) (r : Req) :
    (resolve s r = none → arrive s c r = (s, .reply (.err errBadStateid))) ∧
    (∀ o, resolve s r = some o → (s.oo o).busy = none → (s.oo o).confirmed = true →
      r.seq ≠ (s.oo o).lastSeq → r.seq ≠ nextSeq (s.oo o).lastSeq →
      arrive s c r = (s, .reply (.err errBadSeqid))) ∧
    (∀ o, resolve s r = some o → (s.oo o).busy = none → (s.oo o).confirmed = false →
      NoReplay (s.oo o) r.seq → r.kind ≠ .open_ → r.kind ≠ .openConfirm →
      arrive s c r = (s, .reply (.err errBadSeqid))) := by
  refine ⟨arrive_eq_unresolved s c r, fun o hres hb hc h1 h2 => ?_, fun o hres hb hc hn hk hk2 => ?_⟩
  · exact arrive_eq_badseq_confirmed s c r o hres hb (Or.inr h1) hc h2
  · exact arrive_eq_unconfirmed_deny s c r o hres hb hn hc hk2 hk

/-- RFC 7530 16.18.5: OPEN on an unconfirmed open-owner with a seqid that is not
a replay reinitialises the owner (forgets the response, drops its files) and
starts a new transaction, whatever the seqid. -/
theorem unconfirmed_open_reinitialises_40 (s : State) (c : Nat) (r : Req) (o : Nat)
    (hres : resolve s r = some o) (hb : (s.oo o).busy = none) (hc : (s.oo o).confirmed = false)
    (hn : NoReplay (s.oo o) r.seq) (hk : r.kind = .open_) :
    arrive s c r = (begin (reinit s o) o c r, .started) :=
  arrive_eq_unconfirmed_open s c r o hres hb hn hc hk

/-- **inflight_duplicate_completes** (4.0, no lost wake-up): every call waiting
for an owner's transaction waits for a transaction that IS in progress, and
its completion wakes the call (it is handed back for retry and no longer
waits). -/
theorem inflight_duplicate_completes_40 {s : State} (h : Reachable s) (c o : Nat) (hw : (c, o) ∈ s.waiting) :
    ∃ call r, (s.oo o).busy = some (call, r) ∧
      ∀ x, c ∈ (finish s o x).2.2 ∧ (c, o) ∉ (finish s o x).1.waiting := by
  have hinv := inv_reachable h
  have hb := hinv.waiting c o hw
  cases hbz : (s.oo o).busy with
  | none => rw [hbz] at hb; simp at hb
  | some b =>
    obtain ⟨call, r⟩ := b
    refine ⟨call, r, rfl, fun x => ?_⟩
    obtain ⟨h1, h2, _⟩ := finish_waiting s o x call r hbz
    rw [h1, h2]
    constructor
    · simp only [List.mem_map, List.mem_filter, beq_iff_eq]
      exact ⟨(c, o), ⟨hw, rfl⟩, rfl⟩
    · simp

/-- … and when the woken duplicate of an OPEN retries, it is answered with the
response the original just produced (if that response advances the seqid). -/
theorem inflight_open_gets_original_reply_40 {s : State} (h : Reachable s) (o call c : Nat) (r : Req) (x : Fin)
    (hb : (s.oo o).busy = some (call, r)) (hk : r.kind = .open_) (ho : r.owner = o)
    (hadv : shouldComplete x.resp.status = true) (hwf : x.resp.kind = .open_) :
    (arrive (finish s o x).1 c r).2 = .reply (.cached x.resp) := by
  have hr : Reachable (finish s o x).1 := Reachable.step (.finish o x) h
  have hres : resolve (finish s o x).1 r = some o := by simp [resolve, hk, ho]
  have he : effResp s r x = x.resp := effResp_not_lock s r x (by rw [hk]; decide)
  have hdone : ((finish s o x).1.oo o).lastDone = some (r, x.resp) := by
    rw [finish_oo_same s o x call r hb, he]; simp [hadv]
  obtain ⟨h1, h2⟩ := same_reply_40 hr c r r x.resp o hres hdone rfl
  rw [h1]
  have : replayReply r x.resp = .cached x.resp := by
    unfold replayReply; simp [hwf, hk]
  rw [this]

/-- **Two-phase CLOSE**: after a successful CLOSE the closed state ID still
resolves to its open-owner (it is only removed when the owner's next
transaction starts), so a retransmitted CLOSE reaches the replay cache instead
of failing with BAD_STATEID. -/
theorem close_replay_resolvable_40 {s : State} (h : Reachable s) (o call : Nat) (r : Req) (x : Fin) (c : Nat)
    (hb : (s.oo o).busy = some (call, r)) (hk : r.kind = .close) (hres : s.openOther r.other = some o)
    (hst : x.resp.status = 0) (hwf : WF40 r x.resp) :
    resolve (finish s o x).1 r = some o ∧
    (arrive (finish s o x).1 c r).2 = .reply (.cached x.resp) := by
  have hadv : shouldComplete x.resp.status = true := by rw [hst]; decide
  have he : effResp s r x = x.resp := effResp_not_lock s r x (by rw [hk]; decide)
  have hres' : resolve (finish s o x).1 r = some o := by
    unfold resolve finish
    rw [hb]
    simp only [hk, reduceCtorEq, if_false, he]
    cases hs : x.resp.sid with
    | none => simpa using hres
    | some p => obtain ⟨f', q⟩ := p; simp [hres]
  have hr : Reachable (finish s o x).1 := Reachable.step (.finish o x) h
  have hdone : ((finish s o x).1.oo o).lastDone = some (r, x.resp) := by
    rw [finish_oo_same s o x call r hb, he]; simp [hadv]
  obtain ⟨h1, h2⟩ := same_reply_40 hr c r r x.resp o hres' hdone rfl
  exact ⟨hres', by rw [h1, h2 rfl rfl rfl hwf]⟩

/-- **Nested lock-owner transaction, misordered** (LOCK with `open_to_lock_owner4`
on an EXISTING lock-owner): if the lock-owner is already associated with the
file, or the lock seqid is neither its cached one nor the successor, the
request is answered NFS4ERR_BAD_SEQID and has no effect on either owner: the
open-owner's seqid does not advance, nothing is cached, the lock-owner and its
files are untouched.  (RFC 7530 9.1.7: BAD_SEQID never advances a seqid.) -/
theorem nested_lock_misordered_no_effect_40 {s : State} (h : Reachable s) (o call : Nat) (r : Req) (x : Fin)
    (hb : (s.oo o).busy = some (call, r)) (hk : r.kind = .lock) (hreach : x.reached = true)
    (hn : nested s x.lockOwner r.other x.lockSeq = .fail) :
    (finish s o x).2.1 = some (call, .err errBadSeqid) ∧
    ((finish s o x).1.oo o).lastSeq = (s.oo o).lastSeq ∧ ((finish s o x).1.oo o).lastResp = none ∧
    (finish s o x).1.lo = s.lo ∧ (finish s o x).1.lockFiles = s.lockFiles := by
  have hinv := inv_reachable h
  have he : effResp s r x = ⟨.lock, errBadSeqid, none, x.resp.body⟩ := by
    unfold effResp; simp [hk, hreach, hn]
  have hr : effReply s r x = .err errBadSeqid := by
    unfold effReply; simp [hk, hreach, hn]
  have hns : nestedStarted s r x = none := by
    unfold nestedStarted; simp [hk, hreach, hn]
  have hsc : shouldComplete errBadSeqid = false := by decide
  refine ⟨by rw [(finish_waiting s o x call r hb).2.2, hr], ?_, ?_, ?_, ?_⟩
  · rw [finish_oo_same s o x call r hb, he]; simp [hsc]
  · rw [finish_oo_same s o x call r hb, he]; simp [hsc, (hinv.busy o _ hb).1]
  · unfold finish; rw [hb]; simp only [hns]
  · unfold finish; rw [hb]
    simp only [hns, he, hk]
    simp [errBadSeqid]

/-- **Nested lock-owner transaction, replay**: a LOCK with `open_to_lock_owner4`
that carries the existing lock-owner's cached lock seqid is answered with the
lock-owner's cached LOCK response (only a LOCK response), without attempting
the lock: the lock-owner and its files are untouched. -/
theorem nested_lock_replay_40 (s : State) (o call : Nat) (r : Req) (x : Fin) (c : Resp)
    (hb : (s.oo o).busy = some (call, r)) (hk : r.kind = .lock) (hreach : x.reached = true)
    (hn : nested s x.lockOwner r.other x.lockSeq = .cached c) :
    (finish s o x).2.1 = some (call, .cached c) ∧ c.kind = .lock ∧
    (s.lo x.lockOwner).lastResp = some c ∧ x.lockSeq = (s.lo x.lockOwner).lastSeq ∧
    (finish s o x).1.lo = s.lo := by
  have hr : effReply s r x = .cached c := by
    unfold effReply; simp [hk, hreach, hn]
  have hns : nestedStarted s r x = none := by
    unfold nestedStarted; simp [hk, hreach, hn]
  have hshape : c.kind = .lock ∧ (s.lo x.lockOwner).lastResp = some c ∧ x.lockSeq = (s.lo x.lockOwner).lastSeq := by
    unfold nested at hn
    split at hn
    · cases hn
    · split at hn
      · cases hn
      · split at hn
        · rename_i resp hresp
          split at hn
          · rename_i hq
            split at hn
            · rename_i hkind
              cases hn
              exact ⟨hkind, hresp, by simpa using hq⟩
            · cases hn
          · split at hn <;> cases hn
        · split at hn <;> cases hn
  refine ⟨by rw [(finish_waiting s o x call r hb).2.2, hr], hshape.1, hshape.2.1, hshape.2.2, ?_⟩
  unfold finish; rw [hb]; simp only [hns]

/-- Lock-owner replay (LOCK with an existing lock-owner, LOCKU): a request with
the lock-owner's cached seqid never executes; it gets the cached response only
if that has the request's type (and, if OK, the successor state ID), else
BAD_SEQID; any other seqid but the successor is refused; nothing changes. -/
theorem lock_replay_40 (s : State) (r : LReq) (x : Resp) (lk f : Nat) (resp : Resp)
    (hl : lockLookup s r.other = some (lk, f)) (hr : (s.lo lk).lastResp = some resp) (hq : r.seq = (s.lo lk).lastSeq) :
    (lockTx s r x).1 = s ∧ (lockTx s r x).2.2 = false ∧
    ((lockTx s r x).2.1 = .cached resp ∨ (lockTx s r x).2.1 = .err errBadSeqid) ∧
    ((lockTx s r x).2.1 = .cached resp → resp.kind = r.kind) := by
  unfold lockTx
  rw [hl]
  simp only [hr, Option.isSome_some, hq, beq_self_eq_true, Bool.and_self, if_true]
  refine ⟨trivial, trivial, ?_, ?_⟩
  · split
    · exact Or.inr rfl
    · split
      · exact Or.inl rfl
      · exact Or.inr rfl
  · split
    · intro h; cases h
    · rename_i hk; intro _; simpa using hk

theorem lock_misordered_no_effect_40 (s : State) (r : LReq) (x : Resp) (lk f : Nat)
    (hl : lockLookup s r.other = some (lk, f))
    (h1 : (s.lo lk).lastResp = none ∨ r.seq ≠ (s.lo lk).lastSeq) (h2 : r.seq ≠ nextSeq (s.lo lk).lastSeq) :
    lockTx s r x = (s, .err errBadSeqid, false) := by
  unfold lockTx
  rw [hl]
  have : ((s.lo lk).lastResp.isSome && r.seq == (s.lo lk).lastSeq) = false := by
    rcases h1 with h | h <;> simp [h]
  simp [this, h2]

/-! ### non-vacuity (4.0) -/

/-- A run: OPEN seq 5 on a new owner (executes, response cached), its
retransmission (cached), OPEN_CONFIRM seq 6, a CLOSE with the OPEN's seqid
(BAD_SEQID), a misordered CLOSE (BAD_SEQID), CLOSE seq 7 and its retransmission. -/
example :
    let open0 : Req := ⟨.open_, 7, 0, 0, 5, 1⟩
    let s1 := (arrive {} 0 open0).1
    let s2 := (finish s1 7 ⟨⟨.open_, 0, some (3, 1), 0⟩, 0, 0, false⟩).1
    let conf : Req := ⟨.openConfirm, 0, 3, 1, 6, 2⟩
    let s3 := (finish (arrive s2 2 conf).1 7 ⟨⟨.openConfirm, 0, some (3, 2), 2⟩, 0, 0, false⟩).1
    let close : Req := ⟨.close, 0, 3, 2, 7, 3⟩
    let s4 := (finish (arrive s3 5 close).1 7 ⟨⟨.close, 0, some (3, 3), 5⟩, 0, 0, false⟩).1
    (arrive {} 0 open0).2 = .started ∧
    (arrive s2 1 open0).2 = .reply (.cached ⟨.open_, 0, some (3, 1), 0⟩) ∧
    (arrive s3 3 { close with seq := 6 }).2 = .reply (.err errBadSeqid) ∧
    (arrive s3 4 { close with seq := 9 }).2 = .reply (.err errBadSeqid) ∧
    (arrive s4 6 close).2 = .reply (.cached ⟨.close, 0, some (3, 3), 5⟩) ∧
    (arrive s4 7 { close with argSeq := 1 }).2 = .reply (.err errBadSeqid) := by
  decide

/-- **same_reply at the COMPOUND level** (4.0, commit 2dc060f): while `(r0, x0)` is
the owner's last advanced transaction and it was a successful OPEN of the file
with state ID other `f`, a retransmitted OPEN is answered with the cached
response AND leaves the current filehandle at `f`, exactly as the original did
(`finishFH`): GETFH / GETATTR behind OPEN in the retransmitted compound see the
same file.  "The file cannot have been closed in the meantime" is the
invariant `openInv_reachable`: any later transaction of the owner would have
dropped the cached response.  (`ReachableWF`: successful OPENs return a state
ID other that is new or the owner's own.) -/
theorem same_reply_compound_40 {s : State} (h : ReachableWF s) (c : Nat) (r r0 : Req) (x0 : Resp) (o f q : Nat)
    (hres : resolve s r = some o) (hdone : (s.oo o).lastDone = some (r0, x0)) (hseq : r.seq = r0.seq)
    (hk : r.kind = .open_) (hk0 : r0.kind = .open_) (hx : x0.kind = .open_) (hst : x0.status = 0)
    (hsid : x0.sid = some (f, q)) :
    arrive s c r = (s, .reply (.cached x0)) ∧ arriveFH s c r = some f ∧ finishFH r0 x0 = some f := by
  have hi := openInv_reachable h
  obtain ⟨h1, _⟩ := same_reply_40 h.reachable c r r0 x0 o hres hdone hseq
  have hrep : replayReply r x0 = .cached x0 := by unfold replayReply; simp [hx, hk]
  rw [hrep] at h1
  have hopen := hi.opened o r0 x0 f q hdone hk0 hst hsid
  refine ⟨h1, ?_, ?_⟩
  · unfold arriveFH; rw [h1]
    simp [replayFH, hi.legacy, hk, hst, hsid, hopen]
  · simp [finishFH, hk0, hst, hsid]

/-- Before commit 2dc060f (`legacyOpenFH = true`): OPEN seqid 5 of a new owner
succeeds on the file with state ID other 3 (current filehandle: that file);
its retransmission gets the cached response but the current filehandle is
left alone (the directory): GETFH behind it differs. -/
theorem legacy_open_fh_counterexample :
    let open0 : Req := ⟨.open_, 7, 0, 0, 5, 1⟩
    let x0 : Resp := ⟨.open_, 0, some (3, 1), 0⟩
    let run (legacy : Bool) : State := (finish (arrive { legacyOpenFH := legacy } 0 open0).1 7 ⟨x0, 0, 0, false⟩).1
    finishFH open0 x0 = some 3 ∧
    (arrive (run true) 1 open0).2 = .reply (.cached x0) ∧ arriveFH (run true) 1 open0 = none ∧
    (arrive (run false) 1 open0).2 = .reply (.cached x0) ∧ arriveFH (run false) 1 open0 = some 3 := by
  decide

/-! ### `nextSeqID` -/

/-- `nextSeqID` over all 32-bit values, as written in the source: the successor
of `n` is `n + 1`, except that `2^32 - 1` is followed by 1 (never 0); it is a
32-bit value again, never 0 and never `n` itself (so "retransmission" =
equality with the last seqid and "next" = `nextSeq` never coincide). -/
theorem next_seq_spec_40 (n : Nat) (h : n < 2 ^ 32) :
    nextSeq n < 2 ^ 32 ∧ nextSeq n ≠ 0 ∧ nextSeq n ≠ n ∧
    (n ≠ 2 ^ 32 - 1 → nextSeq n = n + 1) ∧ (n = 2 ^ 32 - 1 → nextSeq n = 1) := by
  unfold nextSeq M32
  split <;> omega

/-- The same on machine words (`nfsv4.Seqid4` is a `uint32`). -/
theorem next_seq_bitvec_40 (n : BitVec 32) :
    nextSeq n.toNat = (if n = 0xffffffff#32 then 1#32 else n + 1#32).toNat := by
  have hlt := n.isLt
  unfold nextSeq M32
  by_cases hn : n = 0xffffffff#32
  · subst hn; decide
  · have hne : n.toNat ≠ 4294967296 - 1 := by
      intro h; apply hn; apply BitVec.eq_of_toNat_eq; simpa using h
    rw [if_neg hne, if_neg hn, BitVec.toNat_add]
    simp only [BitVec.toNat_ofNat]
    omega

/-- **The accepted seqid** (4.0): on a confirmed open-owner with no transaction in
progress, a request starts a transaction iff its seqid is exactly `nextSeqID`
of the owner's last one (and is not recognised as a retransmission, i.e. not
equal to the last one while a response is cached); it is recognised as a
retransmission exactly by equality with the last seqid. -/
theorem accepted_seq_is_successor_40 (s : State) (c : Nat) (r : Req) (o : Nat)
    (hres : resolve s r = some o) (hb : (s.oo o).busy = none) (hc : (s.oo o).confirmed = true) :
    ((arrive s c r).2 = .started ↔ (NoReplay (s.oo o) r.seq ∧ r.seq = nextSeq (s.oo o).lastSeq)) ∧
    ((∃ rep, (arrive s c r).2 = .reply rep ∧ arrive s c r = (s, .reply rep) ∧ ¬ NoReplay (s.oo o) r.seq) ↔
      ((s.oo o).lastResp.isSome = true ∧ r.seq = (s.oo o).lastSeq)) := by
  by_cases hrep : ∃ resp, (s.oo o).lastResp = some resp ∧ r.seq = (s.oo o).lastSeq
  · obtain ⟨resp, h1, h2⟩ := hrep
    have hnn : ¬ NoReplay (s.oo o) r.seq := by
      intro hn; rcases hn with hn | hn
      · rw [h1] at hn; cases hn
      · exact hn h2
    rw [arrive_eq_replay s c r o resp hres hb h1 h2]
    refine ⟨⟨(fun h => by cases h), fun h => absurd h.1 hnn⟩, ⟨fun _ => ⟨by simp [h1], h2⟩, fun _ => ⟨_, rfl, rfl, hnn⟩⟩⟩
  · have hn : NoReplay (s.oo o) r.seq := by
      cases h1 : (s.oo o).lastResp with
      | none => exact Or.inl h1
      | some resp => exact Or.inr (fun h2 => hrep ⟨resp, h1, h2⟩)
    have hnot : ¬ ((s.oo o).lastResp.isSome = true ∧ r.seq = (s.oo o).lastSeq) := by
      intro ⟨h1, h2⟩
      cases h3 : (s.oo o).lastResp with
      | none => rw [h3] at h1; simp at h1
      | some resp => exact hrep ⟨resp, h3, h2⟩
    by_cases hq : r.seq = nextSeq (s.oo o).lastSeq
    · rw [arrive_eq_start_confirmed s c r o hres hb hn hc hq]
      exact ⟨⟨fun _ => ⟨hn, hq⟩, fun _ => rfl⟩, ⟨fun ⟨_, _, _, h⟩ => absurd hn h, fun h => absurd h hnot⟩⟩
    · rw [arrive_eq_badseq_confirmed s c r o hres hb hn hc hq]
      exact ⟨⟨(fun h => by cases h), fun h => absurd h.2 hq⟩, ⟨fun ⟨_, _, _, h⟩ => absurd hn h, fun h => absurd h hnot⟩⟩

/-- Same for lock-owners: a LOCK (existing lock-owner) / LOCKU executes iff its
seqid is `nextSeqID` of the lock-owner's last one and it is not a replay. -/
theorem lock_accepted_seq_is_successor_40 (s : State) (r : LReq) (x : Resp) (lk f : Nat)
    (hl : lockLookup s r.other = some (lk, f)) :
    (lockTx s r x).2.2 = true ↔
      (((s.lo lk).lastResp = none ∨ r.seq ≠ (s.lo lk).lastSeq) ∧ r.seq = nextSeq (s.lo lk).lastSeq) := by
  unfold lockTx
  rw [hl]
  dsimp only
  by_cases h1 : ((s.lo lk).lastResp.isSome && r.seq == (s.lo lk).lastSeq) = true
  · rw [if_pos h1]
    simp only [Bool.and_eq_true, beq_iff_eq] at h1
    constructor
    · intro h; cases h
    · intro ⟨h2, _⟩
      rcases h2 with h2 | h2
      · rw [h2] at h1; simp at h1
      · exact absurd h1.2 h2
  · rw [if_neg h1]
    have hno : (s.lo lk).lastResp = none ∨ r.seq ≠ (s.lo lk).lastSeq := by
      simp only [Bool.and_eq_true, beq_iff_eq, not_and] at h1
      cases h3 : (s.lo lk).lastResp with
      | none => exact Or.inl rfl
      | some resp => exact Or.inr (h1 (by simp [h3]))
    by_cases h2 : r.seq = nextSeq (s.lo lk).lastSeq
    · simp [h2]
      rw [h2] at hno; exact hno
    · simp [h2]

/-- The nested case: owner 7 has files 3 and 4 open, lock-owner 9 holds file 3
(lock seqid 100).  LOCK(new) of lock-owner 9 on file 4 with open seqid 14 and
lock seqid 105 is refused without consuming seqid 14; with lock seqid 101 it
then runs; with lock seqid 100 it would get the cached LOCK response. -/
example :
    let s0 : State :=
      { oo := fun k => if k = 7 then { confirmed := true, lastSeq := 13, busy := some (1, ⟨.lock, 0, 4, 1, 14, 1⟩) } else {}
        openOther := fun f => if f = 3 ∨ f = 4 then some 7 else none
        lo := fun k => if k = 9 then ⟨100, some ⟨.lock, 0, some (20, 1), 0⟩⟩ else {}
        lockFiles := [(20, 9, 3)] }
    nested s0 9 4 105 = .fail ∧ nested s0 9 4 101 = .start false ∧
    nested s0 9 4 100 = .cached ⟨.lock, 0, some (20, 1), 0⟩ ∧ nested s0 9 3 101 = .fail ∧ nested s0 8 4 1 = .start true ∧
    (finish s0 7 ⟨⟨.lock, 10026, none, 1⟩, 9, 105, true⟩).2.1 = some (1, .err errBadSeqid) ∧
    ((finish s0 7 ⟨⟨.lock, 10026, none, 1⟩, 9, 105, true⟩).1.oo 7).lastSeq = 13 ∧
    ((finish s0 7 ⟨⟨.lock, 0, some (21, 1), 1⟩, 9, 101, true⟩).1.oo 7).lastSeq = 14 ∧
    (finish s0 7 ⟨⟨.lock, 0, some (21, 1), 1⟩, 9, 101, true⟩).1.lockFiles = [(20, 9, 3), (21, 9, 4)] := by
  decide

end V40
end BbRe.Properties.C19
