import BbRe.Lemmas.GoHeapOps
import BbRe.Lemmas.FairWalk
import BbRe.Lemmas.FairHandoff
import BbRe.Lemmas.FairExamples
import BbRe.Lemmas.FairReal
import BbRe.Lemmas.FairDynCache
import BbRe.Lemmas.FairDynParked
import BbRe.Lemmas.FairDynKids
/-!
# C04 — the scheduler hands work out in the documented fair order

Two models carry this property (helper lemmas in `Lemmas/GoHeap*.lean`, `Lemmas/Fair*.lean`):

* `Model/GoHeap.lean` — Go's `container/heap` (`up`, `down`, `Push`, `Pop`, `Remove`, `Fix` and the
  scheduler's `heapPushOrFix`/`heapRemoveOrFix`/`heapMaybeFix`) over `Array α` with the `Less`
  method as a parameter.  Theorems `heap_*`: every operation permutes the elements (± the pushed /
  removed one), preserves the heap property for every strict weak order, the root of a heap is
  minimal, and `Fix` restores the heap property after the key of one element changed (and without
  `Fix` it need not hold).
* `Model/Fair.lean` — the *choices* of `worker.assignNextQueuedTask` (`pickFromQueue`, a walk over
  heap roots exactly as in the code) and `task.schedule` (`handoffTargets`) on a snapshot of the
  invocation tree, and the documented rule by full scan (`specPick`).  The score order is the exact
  one, `scoreLt (e₁,p₁) (e₂,p₂) ⟺ (e₁+1)^100·2^(p₁-m) < (e₂+1)^100·2^(p₂-m)`, `m = min p₁ p₂`
  (the code computes `(e+1)·(2^0.01)^p` in float64; the harness sweeps the real function against
  `scoreLt`, they agree except at exact ties with a priority difference that is a non-zero
  multiple of 100, which the generators avoid).

All statements hold for trees of any depth and width, any number of operations, any priorities,
durations, time stamps, stickiness limit lists and worker states.  The bookkeeping that produces
the snapshots (and keeps the heaps heaps, using the `heap_*` theorems at every mutation site) is
the `Sched` model's business; here the heap property is a hypothesis (`HeapTree`), which the verif
hook evaluates on the real heaps after every segment.
-/
namespace BbRe.Properties.C04
open BbRe.GoHeap BbRe.Fair BbRe.Lemmas.GoHeap BbRe.Lemmas.Fair

/-! ## `container/heap` -/

section Heap
variable {α : Type} (less : α → α → Bool)

/-- `Push` adds exactly the pushed element. -/
theorem heap_push_perm (a : Array α) (x : α) : (push less a x).Perm (a.push x) := push_perm less a x

/-- `Fix` only reorders. -/
theorem heap_fix_perm (a : Array α) (i : Nat) : (fix less a i).Perm a := fix_perm less a i

/-- `Remove(h, i)` returns `h[i]` and leaves a heap holding exactly the other elements. -/
theorem heap_remove (sw : StrictWeak less) (a : Array α) (i : Nat) (hi : i < a.size) (h : IsHeap less a) :
    (remove less a i).2 = a[i]? ∧ ((remove less a i).1.push a[i]).Perm a ∧ IsHeap less (remove less a i).1 :=
  remove_spec less sw a i hi h

/-- `Pop` returns the root and leaves a heap holding exactly the other elements. -/
theorem heap_pop (sw : StrictWeak less) (a : Array α) (h0 : 0 < a.size) (h : IsHeap less a) :
    (pop less a).2 = a[0]? ∧ ((pop less a).1.push a[0]).Perm a ∧ IsHeap less (pop less a).1 :=
  pop_spec less sw a h0 h

/-- `Push` preserves the heap property. -/
theorem heap_push_isHeap (sw : StrictWeak less) (a : Array α) (x : α) (h : IsHeap less a) :
    IsHeap less (push less a x) := push_heap less sw a x h

/-- The root of a heap is minimal: nothing is `less` than `h[0]`. -/
theorem heap_root_minimal (sw : StrictWeak less) (a : Array α) (h : IsHeap less a) (h0 : 0 < a.size) :
    ∀ x ∈ a, less x a[0] = false := by
  intro x hx
  obtain ⟨k, hk, rfl⟩ := Array.getElem_of_mem hx
  have := lessAt_root_false less sw a a.size (Nat.le_refl _) h k hk
  rwa [lessAt_eq less a k 0 hk h0] at this

/-- The obligation behind every `heapMaybeFix`/`heapPushOrFix`/`heapRemoveOrFix` call site: after
the key of the element at position `i` changed (here: the element is replaced by `x`), `Fix(h, i)`
restores the heap property. -/
theorem heap_fix_restores (sw : StrictWeak less) (a : Array α) (i : Nat) (x : α) (hi : i < a.size)
    (h : IsHeap less a) : IsHeap less (fix less (a.setIfInBounds i x) i) :=
  fix_heap_of_set less sw a i x hi h

/-- `heapMaybeFix(h, i)` after a key change of an element that is in the heap (`i ≥ 0`); for an
element that is not in the heap (`i = -1`) nothing changes. -/
theorem heap_maybeFix (sw : StrictWeak less) (a : Array α) (i : Nat) (x : α) (hi : i < a.size)
    (h : IsHeap less a) :
    IsHeap less (maybeFix less (a.setIfInBounds i x) (some i)) ∧ maybeFix less a none = a :=
  ⟨fix_heap_of_set less sw a i x hi h, rfl⟩

/-- `heapPushOrFix(h, i, v)`: pushes an element that is not yet in the heap, fixes one that is
(after its key changed). -/
theorem heap_pushOrFix (sw : StrictWeak less) (a : Array α) (v : α) (h : IsHeap less a) :
    IsHeap less (pushOrFix less a none v) ∧
    ∀ i, i < a.size → IsHeap less (pushOrFix less (a.setIfInBounds i v) (some i) v) :=
  ⟨push_heap less sw a v h, fun i hi => fix_heap_of_set less sw a i v hi h⟩

/-- `heapRemoveOrFix(h, i, count)`: removes the element when its counter dropped to zero, fixes
it otherwise (after its key changed). -/
theorem heap_removeOrFix (sw : StrictWeak less) (a : Array α) (i : Nat) (x : α) (hi : i < a.size)
    (h : IsHeap less a) (count : Nat) :
    (0 < count → IsHeap less (removeOrFix less (a.setIfInBounds i x) i count)) ∧
    IsHeap less (removeOrFix less a i 0) := by
  constructor
  · intro hc
    unfold removeOrFix
    rw [if_pos hc]
    exact fix_heap_of_set less sw a i x hi h
  · unfold removeOrFix
    rw [if_neg (by omega)]
    exact (remove_spec less sw a i hi h).2.2

end Heap

/-- Without the `Fix`, the heap property need not hold after a key change: `#[1,2,3]` is a heap,
raising the key of the root to 5 gives `#[5,2,3]`, which is not; `Fix(h, 0)` repairs it. -/
theorem heap_without_fix_counterexample :
    IsHeap natLess #[1, 2, 3] ∧ ¬ IsHeap natLess ((#[1, 2, 3] : Array Nat).setIfInBounds 0 5) ∧
    IsHeap natLess (fix natLess ((#[1, 2, 3] : Array Nat).setIfInBounds 0 5) 0) := by
  refine ⟨(isHeapB_iff _ _).mp (by decide), ?_, (isHeapB_iff _ _).mp (by decide)⟩
  intro h
  have := (isHeapB_iff _ _).mpr h
  revert this
  decide

-- non-vacuity of the heap theorems: a heap with a true tie and all operations on it
example : IsHeap natLess #[1, 4, 1, 7, 5] := (isHeapB_iff _ _).mp (by decide)
example : push natLess #[1, 4, 1, 7, 5] 0 = #[0, 4, 1, 7, 5, 1] := by decide
example : remove natLess #[1, 4, 1, 7, 5] 1 = (#[1, 5, 1, 7], some 4) := by decide
example : pop natLess #[1, 4, 1, 7, 5] = (#[1, 4, 5, 7], some 1) := by decide

/-! ## The orders of the scheduler's heaps -/

/-- The exact score order `(executing+1)^100 · 2^priority` is a strict weak order. -/
theorem scoreLt_strictWeak : StrictWeak (fun (a b : Nat × Int) => scoreLt a.1 a.2 b.1 b.2) :=
  BbRe.Lemmas.Fair.scoreLt_strictWeak

/-- The exact integer order is the documented real-valued one: `scoreLt` holds iff
`(executing₁ + 1) · 2^(priority₁/100) < (executing₂ + 1) · 2^(priority₂/100)` over the reals
(`S = (executingWorkersCount + 1) · b^priority`, `b = 2^0.01`, comment of `isPreferred`). -/
theorem scoreLt_iff_real (e₁ : Nat) (p₁ : Int) (e₂ : Nat) (p₂ : Int) :
    scoreLt e₁ p₁ e₂ p₂ = true ↔
      ((e₁ : ℝ) + 1) * (2 : ℝ) ^ ((p₁ : ℝ) / 100) < ((e₂ : ℝ) + 1) * (2 : ℝ) ^ ((p₂ : ℝ) / 100) :=
  scoreLt_iff_realScore e₁ p₁ e₂ p₂

/-- `queuedChildrenHeap.Less` (score, then least recently started) is a strict weak order. -/
theorem childLess_strictWeak : StrictWeak childLess := BbRe.Lemmas.Fair.childLess_strictWeak

/-- `queuedOperationsHeap.Less` (priority ↑, expected duration ↓, queued timestamp ↑) is a strict
weak order. -/
theorem opLess_strictWeak : StrictWeak opLess := BbRe.Lemmas.Fair.opLess_strictWeak

/-- Hence the `heap_*` theorems apply to both heaps, e.g. an `enqueue` keeps `queuedOperations`
a heap and a `heapMaybeFix` after an executing-count change keeps `queuedChildren` one. -/
theorem queuedOperations_push (ops : Array Op) (o : Op) (h : IsHeap opLess ops) :
    IsHeap opLess (push opLess ops o) := push_heap opLess opLess_strictWeak ops o h

theorem queuedChildren_fix (kids : Array Inv) (i : Nat) (c : Inv) (hi : i < kids.size)
    (h : IsHeap childLess kids) : IsHeap childLess (fix childLess (kids.setIfInBounds i c) i) :=
  fix_heap_of_set childLess childLess_strictWeak kids i c hi h

/-- `idleSynchronizingWorkersChildrenHeap.Less` is *not* a strict weak order: an invocation that
is in that heap only because of parked workers further down (`len(idleSynchronizingWorkers) = 0`)
and executes nothing ties, by cross-multiplication, with every other invocation, so the
"utilisation" comparison is not transitive (cycle `b < a < c < b` below).  For that reason
`direct_handoff_prefers_related` claims the distance part of the documented hand-off order only. -/
theorem idleLess_not_strictWeak : ¬ StrictWeak idleLess := by
  intro sw
  let a : Inv := .mk 1 [] [] 0 0 0 [] [9] 2 []
  let b : Inv := .mk 2 [] [] 0 1 0 [7] [] 1 []
  let c : Inv := .mk 3 [] [] 0 1 0 [5, 6] [] 3 []
  have hba : idleLess b a = true := by decide
  have hac : idleLess a c = true := by decide
  have hcb : idleLess c b = true := by decide
  have h1 : idleLess a b = false := sw.asymm b a hba
  have h2 : idleLess b c = false := sw.asymm c b hcb
  have := sw.negTrans a b c h1 h2
  rw [hac] at this
  cases this

/-! ## `worker.assignNextQueuedTask` -/

/-- Directly queued operations go first and in order: when the walk is at an invocation with
directly queued operations, the operation handed out belongs to that invocation and none of the
invocation's queued operations is strictly before it in (priority ↑, expected duration ↓, queued
timestamp ↑); stickiness bookkeeping is untouched. -/
theorem direct_first_and_ordered (win : Nat → Bool) (nlim fuel : Nat) (i : Inv) (keys : List Nat) (lvl : Nat)
    (hw : i.wf = true) (hne : i.ops ≠ []) :
    ∃ o, pickAux win nlim (fuel + 1) i keys lvl = some (o, lvl) ∧ o ∈ i.ops ∧
      ∀ o' ∈ i.ops, opLess o' o = false :=
  direct_first win nlim fuel i keys lvl hw hne

example : (Fair.Inv.mk 7 [⟨1, 0, 20, 9⟩, ⟨2, 0, 10, 3⟩, ⟨3, 5, 30, 1⟩] [] 0 0 0 [] [] 0 []).wf = true := by decide

/-- Otherwise the child the walk descends into has queued work, no child with queued work has a
strictly better score, and among the children of minimal score it is a least recently started
one — unless it is the worker's sticky child at a level whose stickiness window is open. -/
theorem child_is_score_minimal (win : Nat → Bool) (nlim : Nat) (i : Inv) (hw : i.wf = true)
    (keys : List Nat) (lvl : Nat) (ck : Nat) (keys' : List Nat) (lvl' : Nat)
    (h : chooseChild win nlim i keys lvl = some (ck, keys', lvl')) :
    ∃ c, i.child ck = some c ∧ c ∈ cands i ∧ (∀ c' ∈ cands i, c'.scoreLt c = false) ∧
      ((∀ c' ∈ cands i, c.scoreLt c' = false → ¬ c'.started < c.started) ∨
        ∃ k ks, keys = k :: ks ∧ lvl < nlim ∧ ck = k ∧ win lvl = true) := by
  have hw' := (wf_iff i).mp hw
  obtain ⟨c, hchild, hmem⟩ := chooseChild_mem_specChildren win nlim i hw' keys lvl ck keys' lvl' h
  obtain ⟨hmin, hsel, _⟩ := mem_specChildren win nlim i keys lvl c keys' lvl' hmem
  obtain ⟨hcand, hbest⟩ := (mem_minScore _ _).mp hmin
  refine ⟨c, hchild, hcand, hbest, ?_⟩
  rcases hsel with hlru | ⟨k, ks, hk, hl, hck, hwin⟩
  · left
    intro c' hc' htie
    have hc'min : c' ∈ minScore (cands i) := by
      rw [mem_minScore]
      refine ⟨hc', fun c'' hc'' => ?_⟩
      exact invScoreLt_strictWeak.negTrans c'' c c' (hbest c'' hc'') htie
    exact ((mem_lru _ _).mp hlru).2 c' hc'min
  · right
    exact ⟨k, ks, hk, hl, by rw [← hck]; exact (mem_of_child i ck c hchild).2.symm, hwin⟩

/-- Stickiness only breaks ties.  (1) If the walk descends into a child other than the root of
`queuedChildren`, that child is the worker's sticky child, fewer than `len(limits)` levels have
been consumed, the window of this level is open, and its score equals the root's (neither is
strictly better).  (2) Stickiness is tracked further only below the sticky child; after any other
choice it is off for the rest of the walk (`keys' = []`), and beyond `len(limits)` levels or
without a last invocation it has no effect.  (3) Inside the window a sticky child with queued work
whose score is not worse than the best one's is taken. -/
theorem stickiness_only_breaks_ties (win : Nat → Bool) (nlim : Nat) (i : Inv) (hw : i.wf = true)
    (keys : List Nat) (lvl : Nat) (b : Nat) (qs : List Nat) (hq : i.queued = b :: qs) :
    (∀ ck keys' lvl', chooseChild win nlim i keys lvl = some (ck, keys', lvl') → ck ≠ b →
      ∃ k ks s bb, keys = k :: ks ∧ lvl < nlim ∧ ck = k ∧ i.child k = some s ∧ i.child b = some bb ∧
        win lvl = true ∧ s.scoreLt bb = false ∧ bb.scoreLt s = false) ∧
    (∀ ck keys' lvl', chooseChild win nlim i keys lvl = some (ck, keys', lvl') →
      (∃ ks, keys = ck :: ks ∧ lvl < nlim ∧ keys' = ks ∧ lvl' = lvl + 1) ∨
      (lvl' = lvl ∧ (keys' = [] ∨ (keys' = keys ∧ ¬ ∃ k ks, keys = k :: ks ∧ lvl < nlim)))) ∧
    (∀ k ks s bb, keys = k :: ks → lvl < nlim → i.child k = some s → i.child b = some bb →
      s.isQueued = true → bb.scoreLt s = false → win lvl = true →
      chooseChild win nlim i keys lvl = some (k, ks, lvl + 1)) := by
  have hw' := (wf_iff i).mp hw
  refine ⟨?_, ?_, ?_⟩
  · intro ck keys' lvl' h hne
    exact chooseChild_ne_root win nlim i hw' keys lvl ck keys' lvl' b qs hq h hne
  · intro ck keys' lvl' h
    obtain ⟨c, hchild, hmem⟩ := chooseChild_mem_specChildren win nlim i hw' keys lvl ck keys' lvl' h
    obtain ⟨_, _, htrack⟩ := mem_specChildren win nlim i keys lvl c keys' lvl' hmem
    have hck : c.key = ck := (mem_of_child i ck c hchild).2
    rcases htrack with ⟨k, ks, hk, hl, hkk, hks, hlv⟩ | hoff
    · left; exact ⟨ks, by rw [hk, ← hck, hkk], hl, hks, hlv⟩
    · right; exact hoff
  · intro k ks s bb hk hl hs hb hsq htie hwin
    subst hk
    exact chooseChild_sticky_tie win nlim i k ks lvl b qs s bb hq hl hs hb hsq htie hwin

/-- The code's heap-root walk returns an element of the documented admissible set: for every
snapshot whose heaps satisfy the heap property (any depth, any size), every worker state and both
window computations (`legacyLevel0Window`), the operation handed out by `assignNextQueuedTask`
(together with the number of stickiness levels retained) is one that the documented rule
(directly queued operations first and in order; else a least recently started child of minimal
score, a tie going to the sticky child inside its window) admits. -/
theorem pick_refines_spec_window (t : Inv) (w : WView) (legacy : Bool) (h : HeapTree t) (r : Op × Nat)
    (hp : pickFromQueue t w legacy = some r) : r ∈ specPickWith (w.window legacy) t w :=
  pickAux_mem_specAux (w.window legacy) w.limits.length t.depth t w.lastKeys 0 r h.wf hp

/-- … in particular for the code as it is (per-level stickiness windows) and the documented
admissible set `specPick`. -/
theorem pick_refines_spec (t : Inv) (w : WView) (h : HeapTree t) (r : Op × Nat)
    (hp : pickFromQueue t w = some r) : r ∈ specPick t w :=
  pick_refines_spec_window t w false h r hp

/-- The same with the executable well-formedness check the driver evaluates on every snapshot. -/
theorem pick_refines_spec_wf (t : Inv) (w : WView) (h : t.wf = true) (r : Op × Nat)
    (hp : pickFromQueue t w = some r) : r ∈ specPick t w :=
  pickAux_mem_specAux w.docWindow w.limits.length t.depth t w.lastKeys 0 r h hp

/-- A worker that asks gets a task whenever one is queued in its size class queue: if any
operation is queued anywhere in the tree, and the worker's last invocation still exists (the
scheduler keeps it alive through `idleWorkersCount`), `assignNextQueuedTask` hands out an
operation (which by `pick_refines_spec` is an admissible one). -/
theorem pick_some_of_queued (t : Inv) (w : WView) (legacy : Bool) (h : HeapTree t) (hq : t.hasQueued = true)
    (hlast : ∃ n, nodeAt t w.lastKeys = some n) : ∃ r, pickFromQueue t w legacy = some r :=
  pickAux_some_of_queued (w.window legacy) w.limits.length t.depth t w.lastKeys 0 (Nat.le_refl _) h.wf hq
    (fun _ => hlast)

example : exTree.hasQueued = true ∧ (nodeAt exTree exW.lastKeys).isSome = true := by decide

/-- The bound on the number of loop iterations used by `pickFromQueue` (the depth of the tree) is
never the reason the walk stops: every larger bound gives the same result. -/
theorem pick_bound_irrelevant (win : Nat → Bool) (nlim : Nat) (f : Nat) (t : Inv) (keys : List Nat) (lvl : Nat)
    (hf : t.depth ≤ f) : pickAux win nlim f t keys lvl = pickAux win nlim t.depth t keys lvl :=
  pickAux_fuel win nlim f t keys lvl hf

example : HeapTree exTree := exTree_heapTree
-- non-vacuity: on `exTree` the hypotheses hold, the level-1 tie goes to the sticky child `3`
-- (window open: 500 < 480 + 50), and that is the only admissible choice
example : exTree.wf = true := by decide
example : pickFromQueue exTree exW = some (⟨3, 0, 10, 6⟩, 2) := by decide
example : specPick exTree exW = [(⟨3, 0, 10, 6⟩, 2)] := by decide
-- a worker without stickiness gets the least recently started child `2`
example : pickFromQueue exTree ⟨[], [], [], 500⟩ = some (⟨2, 0, 10, 5⟩, 0) := by decide
example : chooseChild exW.docWindow 2 (.mk 1 [] [2, 3] 0 0 20 [] [] 0
      [.mk 2 [⟨2, 0, 10, 5⟩] [] 0 0 10 [] [] 0 [], .mk 3 [⟨3, 0, 10, 6⟩] [] 0 0 20 [] [] 0 []]) [3] 1 =
    some (3, [], 2) := by decide

/-- The behaviour before fix 5bea868 (`w.stickinessStartingTimes[0]` at every level): on `exTree`
the worker switched to `[1,3]` 20 s ago, well inside the 50 s window of level 1, but has been on
`1` for 400 s; the old code measures the level-1 window from the level-0 starting time, finds it
closed and hands out the operation of the least recently started child `2`, which the documented
rule does not admit.  The repaired code picks the operation of the sticky child `3`. -/
theorem legacy_level0_window_counterexample :
    pickFromQueue exTree exW true = some (⟨2, 0, 10, 5⟩, 1) ∧
    (⟨2, 0, 10, 5⟩, 1) ∉ specPick exTree exW ∧
    pickFromQueue exTree exW false = some (⟨3, 0, 10, 6⟩, 2) := by decide

/-! ## `task.schedule` -/

/-- A task arriving while workers are parked is handed to a worker that last served a most
closely related invocation: for every worker `w` that `task.schedule` may choose (over all
iteration orders of the task's invocations) there is an invocation `p` of the task such that no
parked worker `w'` is closer to any invocation `p'` of the task — distance = number of steps up
from the task's invocation to an ancestor-or-self of the invocation the worker is parked at. -/
theorem direct_handoff_prefers_related (t : Inv) (invs : List (List Nat)) (hl : ParkedListed t)
    (hv : ∀ p ∈ invs, ∃ n, nodeAt t p = some n) (w : Nat) (hw : w ∈ handoffTargets t invs) :
    ∃ p q, p ∈ invs ∧ Parked t q w ∧
      ∀ p' q' w', p' ∈ invs → Parked t q' w' → dist p q ≤ dist p' q' := by
  obtain ⟨p, q, r₀, hp, hq, hd, hmin⟩ :=
    handoffAux_spec t invs t.depth hl hv (maxLen invs + 1) 0 w (fun r' hr' => by omega) hw
  exact ⟨p, q, hp, hq, fun p' q' w' hp' hq' => Nat.le_trans hd (hmin p' q' w' hp' hq')⟩

/-- A task arriving while some worker is parked is handed straight to a parked worker: when
`idleSynchronizingWorkersChildren` lists exactly the children with parked workers at or below them,
`task.schedule` never queues a task of a non-empty set of invocations while a worker is parked
(together with `direct_handoff_prefers_related`: it goes to a most closely related one). -/
theorem handoff_some_of_parked (t : Inv) (invs : List (List Nat)) (hl : ParkedListed t) (hs : ParkedSound t)
    (hne : invs ≠ []) (q : List Nat) (w : Nat) (hp : Parked t q w) : handoffTargets t invs ≠ [] := by
  unfold handoffTargets
  cases invs with
  | nil => exact absurd rfl hne
  | cons p0 ps =>
    apply handoffAux_ne_nil t (p0 :: ps) hl hs q w hp (maxLen (p0 :: ps) + 1) 0 (fun p _ => Nat.zero_le _)
    exact ⟨p0, List.mem_cons_self, by have := length_le_maxLen (p0 :: ps) p0 List.mem_cons_self; omega⟩

example : ParkedSound exParked := parkedSound_of_checkB _ (by decide)
example : Parked exParked [1, 2] 11 := ⟨_, rfl, by decide⟩
-- non-vacuity: a task of invocation [1,3] goes to worker 12, one of [1,5] (a new sibling) to a
-- worker below 1, one of [6] to any parked worker's subtree root (heap root of the top level)
example : ParkedListed exParked := parkedListed_of_checkB _ (by decide)
example : handoffTargets exParked [[1, 3]] = [12] := by decide
example : handoffTargets (.mk 0 [] [] 0 0 0 [] [1, 4] 0
    [.mk 1 [] [] 0 1 0 [] [3, 2] 5
      [.mk 2 [] [] 0 1 0 [11] [] 5 [], .mk 3 [] [] 0 0 0 [12] [] 4 [], .mk 5 [] [] 0 0 0 [] [] 0 []],
     .mk 4 [] [] 0 0 0 [13] [] 3 []]) [[1, 5]] = [12] := by decide
example : dist [1, 5] [1, 3] = 1 ∧ dist [1, 5] [4] = 2 := by decide

/-! ## The heaps stay ordered (`Model/FairDyn.lean`)

The functions of the scheduler that change the heaps — `operation.enqueue`,
`operation.removeQueuedFromInvocation`, `invocation.increment/decrementExecutingWorkersCount`,
parking in `worker.getNextTask` and `worker.dequeue` — transcribed on the tree with Go's
`container/heap` at exactly the call sites of the code (`heap.Push`/`heap.Remove` on
`queuedOperations`; `heapPushOrFix`, `heapRemoveOrFix`, `heapMaybeFix` on the parent's
`queuedChildren` and `idleSynchronizingWorkersChildren` after the child's key changed, level by
level up to the root). -/

/-- `heaps_stay_ordered`: every update maps a tree of any shape whose `queuedOperations` and
`queuedChildren` heaps satisfy the heap property (and list exactly the children with queued
work) to such a tree: the hypothesis of `pick_refines_spec` is an invariant. -/
theorem heaps_stay_ordered (u : Update) (t : Inv) (h : HeapTree t) (he : u.enabled t) : HeapTree (u.apply t) := by
  cases u with
  | enqueue path o => exact (enqueue_spec o path t h he).1
  | removeQueued path idx =>
    obtain ⟨n, hn, hidx⟩ := he
    exact (removeQueued_spec idx path t n h hn hidx).1
  | increment path now fresh => exact (rekey_spec false _ (keyOnly_incr now fresh) path t h).1
  | decrement path now last => exact (rekey_spec false _ (keyOnly_decr now last) path t h).1
  | park path w => exact (frame_spec _ _ (frame_park w) path t h).1
  | unpark path idx => exact (frame_spec _ _ (frame_unpark idx) path t h).1
  | create path k now => exact (heap_store_walk _ (heap_createLeaf k now) path t h).1
  | removeIfEmpty path k => exact (heap_store_walk _ (heap_removeLeaf k) path t h).1

/-- The same for *any* change of the keys `executingWorkers`, `lastOperationStarted`,
`lastOperationCompletion` along a path that is followed, level by level, by the two
`heapMaybeFix` calls of the code (with or without the cache refresh of fix ca91fdf). -/
theorem heaps_stay_ordered_rekey (legacyNoRefresh : Bool) (g : Inv → Inv) (hg : KeyOnly g) (path : List Nat) (t : Inv)
    (h : HeapTree t) : HeapTree (rekey legacyNoRefresh g path t) := (rekey_spec legacyNoRefresh g hg path t h).1

/-- The third heap: `idleSynchronizingWorkersChildrenHeap.Less` is not a strict weak order
(`idleLess_not_strictWeak`), so no heap property is claimed for it.  What every update preserves,
whatever the comparison does: `idleSynchronizingWorkersChildren` is duplicate-free and lists
exactly the children with parked workers at or below them, at every invocation (`ParkedTree`). -/
theorem parked_children_stay_listed (u : Update) (t : Inv) (h : ParkedTree t) (he : u.enabled t) :
    ParkedTree (u.apply t) := by
  cases u with
  | enqueue path o => exact parked_enqueue o path t h
  | removeQueued path idx => exact parked_removeQueued idx path t h
  | increment path now fresh => exact (rekey_parked false _ (keyOnly_incr now fresh) path t h).1
  | decrement path now last => exact (rekey_parked false _ (keyOnly_decr now last) path t h).1
  | park path w => exact (park_spec w path t h he).1
  | unpark path idx =>
    obtain ⟨n, hn, hidx⟩ := he
    exact (unpark_spec idx path t n h hn (by intro h0; rw [h0] at hidx; simp at hidx)).1
  | create path k now => exact (parked_store_walk _ (parked_createLeaf k now) path t h).1
  | removeIfEmpty path k => exact (parked_store_walk _ (parked_removeLeaf k) path t h).1

/-- … which is what the hand-off theorems assume. -/
theorem parkedTree_handoff_hypotheses (t : Inv) (h : ParkedTree t) : ParkedListed t ∧ ParkedSound t :=
  ⟨parkedListed_of_tree t h, parkedSound_of_tree t h⟩

/-- `cached_priority`: with exact caches before, exact after, for *every* update function —
`firstQueuedOperationPriority` of every invocation below the root is exactly what
`updateFirstOperationPriority` would store now: the priority of `queuedOperations[0]`, else the
cached priority of `queuedChildren[0]`.  (`enqueue` / `removeQueuedFromInvocation` refresh every
invocation they pass; since fix ca91fdf `increment/decrementExecutingWorkersCount` refresh the
parent right after re-sorting its `queuedChildren`; the other updates change neither the heads
of the heaps nor the caches.) -/
theorem cached_priority (u : Update) (t : Inv) (h : HeapTree t) (hc : ExactTree t) : ExactTree (u.apply t) := by
  cases u with
  | enqueue path o => exact exact_enqueue o path t hc
  | removeQueued path idx => exact exact_removeQueued idx path t hc
  | increment path now fresh => exact (exact_rekey _ (keyOnly_incr now fresh) path t hc).1
  | decrement path now last => exact (exact_rekey _ (keyOnly_decr now last) path t hc).1
  | park path w => exact exact_park w path t h hc
  | unpark path idx => exact exact_unpark idx path t h hc
  | create path k now => exact exact_create k now path t h hc
  | removeIfEmpty path k => exact exact_removeInvocation k path t h hc

/-- … and with exact caches the cached priority of an invocation *is* the priority of the
operation the walk (of a worker without stickiness) selects below it: the priority by which the
parent orders it among its siblings is that of the operation it would hand out. -/
theorem cached_priority_predicts_walk (win : Nat → Bool) (nlim fuel : Nat) (c : Inv) (lvl : Nat) (o : Op) (r : Nat)
    (h : ExactTree c) (hp : pickAux win nlim fuel c [] lvl = some (o, r)) : o.prio = firstPrio c :=
  exact_walk win nlim fuel c lvl o r h hp

/-- Exact caches give the two cases of DESIGN.md literally: priority of `queuedOperations[0]` when
there are directly queued operations, else the cached priority of a queued child (the only one,
when there is one). -/
theorem cached_priority_exact_cases (c : Inv) (h : cacheNode c) :
    (∀ o rest, c.ops = o :: rest → c.prio = o.prio) ∧
    (c.ops = [] → ∀ k, c.queued = [k] → ∃ g ∈ c.kids, g.key = k ∧ g.prio = c.prio) := by
  unfold cacheNode at h
  constructor
  · intro o rest ho; rw [ho] at h; exact h
  · intro ho k hk
    rw [ho, hk] at h
    rcases h with h | ⟨g, hg, hgk, hgp⟩
    · cases h
    · exact ⟨g, hg, by simpa using hgk, hgp⟩

theorem cached_priority_weak_of_exact (t : Inv) (h : HeapTree t) (hc : ExactTree t) : CacheTree t :=
  cacheTree_of_exact t h hc

/-- The code before fix ca91fdf did not refresh the parent after an executing-count change: only
the weaker invariant `CacheTree` (the cache is the cached priority of *some* queued child) is
preserved … -/
theorem cached_priority_legacy_weak (g : Inv → Inv) (hg : KeyOnly g) (path : List Nat) (t : Inv) (h : HeapTree t)
    (hc : CacheTree t) : CacheTree (rekey true g path t) := cache_rekey_legacy g hg path t h hc

/-- … and exactness is lost: in invocation `1`, child `2` (priority 50, nothing executing) is
ahead of child `3` (priority 0, one worker); when the worker of `3` finishes, `3` moves to the
front of `queuedChildren`, but the old code leaves the cached priority of `1` at 50, so `1`
competes with its siblings as a priority-50 invocation although the operation it will hand out has
priority 0.  The fixed code stores 0. -/
theorem legacy_no_refresh_counterexample :
    let t : Inv := .mk 0 [] [1] 0 1 0 [] [] 0
      [.mk 1 [] [2, 3] 50 1 5 [] [] 0
        [.mk 2 [⟨2, 50, 10, 5⟩] [] 50 0 1 [] [] 0 [], .mk 3 [⟨3, 0, 10, 6⟩] [] 0 1 5 [] [] 0 []]]
    t.wf = true ∧
    ((nodeAt (decrementExecutingWorkersCount true 9 (fun _ => true) [1, 3] t) [1]).map
      fun c => (c.queued, c.prio, firstPrio c)) = some ([3, 2], 50, 0) ∧
    ((nodeAt (decrementExecutingWorkersCount false 9 (fun _ => true) [1, 3] t) [1]).map
      fun c => (c.queued, c.prio, firstPrio c)) = some ([3, 2], 0, 0) := by decide

/-- The invariants along any sequence of enabled updates. -/
theorem heaps_stay_ordered_all (us : List Update) : ∀ (t : Inv), HeapTree t → enabledAll us t →
    HeapTree (applyAll us t) := by
  induction us with
  | nil => intro t h _; exact h
  | cons u us ih => intro t h he; exact ih (u.apply t) (heaps_stay_ordered u t h he.1) he.2

theorem parked_children_stay_listed_all (us : List Update) : ∀ (t : Inv), ParkedTree t → enabledAll us t →
    ParkedTree (applyAll us t) := by
  induction us with
  | nil => intro t h _; exact h
  | cons u us ih => intro t h he; exact ih (u.apply t) (parked_children_stay_listed u t h he.1) he.2

/-- Closing the loop: in every state reached from a well-formed tree by any sequence of enabled
updates, the operation `assignNextQueuedTask` hands out is one the documented policy admits. -/
theorem pick_refines_spec_reachable (us : List Update) (t : Inv) (w : WView) (h : HeapTree t)
    (he : enabledAll us t) (r : Op × Nat) (hp : pickFromQueue (applyAll us t) w = some r) :
    r ∈ specPick (applyAll us t) w :=
  pick_refines_spec _ w (heaps_stay_ordered_all us t h he) r hp

/-- … and a task scheduled there while a worker is parked goes to a most closely related parked
worker. -/
theorem handoff_reachable (us : List Update) (t : Inv) (h : ParkedTree t) (he : enabledAll us t)
    (invs : List (List Nat)) (hv : ∀ p ∈ invs, ∃ n, nodeAt (applyAll us t) p = some n) (w : Nat)
    (hw : w ∈ handoffTargets (applyAll us t) invs) :
    ∃ p q, p ∈ invs ∧ Parked (applyAll us t) q w ∧
      ∀ p' q' w', p' ∈ invs → Parked (applyAll us t) q' w' → dist p q ≤ dist p' q' :=
  direct_handoff_prefers_related _ invs (parkedListed_of_tree _ (parked_children_stay_listed_all us t h he)) hv w hw

/-- The root invocation of a size class queue that has just been created. -/
def emptyRoot : Inv := emptyInv 0 0

/-- From the empty queue: whatever sequence of `getOrCreateInvocation`, `enqueue`,
`removeQueuedFromInvocation`, executing-count changes, parking, `dequeue` and `removeIfEmpty` steps
built the tree, the operation `assignNextQueuedTask` hands out is admissible, … -/
theorem pick_refines_spec_from_empty (us : List Update) (w : WView) (he : enabledAll us emptyRoot) (r : Op × Nat)
    (hp : pickFromQueue (applyAll us emptyRoot) w = some r) : r ∈ specPick (applyAll us emptyRoot) w :=
  pick_refines_spec_reachable us emptyRoot w (heapTree_emptyInv 0 0) he r hp

/-- … every cache is exact, and `idleSynchronizingWorkersChildren`
lists exactly the children with parked workers below them. -/
theorem invariants_from_empty (us : List Update) (he : enabledAll us emptyRoot) :
    HeapTree (applyAll us emptyRoot) ∧ ExactTree (applyAll us emptyRoot) ∧ ParkedTree (applyAll us emptyRoot) := by
  have key : ∀ (us : List Update) (t : Inv), HeapTree t → ExactTree t → ParkedTree t → enabledAll us t →
      HeapTree (applyAll us t) ∧ ExactTree (applyAll us t) ∧ ParkedTree (applyAll us t) := by
    intro us
    induction us with
    | nil => intro t h1 h2 h3 _; exact ⟨h1, h2, h3⟩
    | cons u us ih =>
      intro t h1 h2 h3 he
      exact ih (u.apply t) (heaps_stay_ordered u t h1 he.1) (cached_priority u t h1 h2)
        (parked_children_stay_listed u t h3 he.1) he.2
  exact key us emptyRoot (heapTree_emptyInv 0 0) (exactTree_emptyInv 0 0) (parkedTree_emptyInv 0 0) he

-- non-vacuity: a tree built from the empty root
example : (applyAll [.create [] 1 5, .create [1] 3 5, .create [1] 2 6, .enqueue [1, 3] ⟨1, 0, 10, 5⟩,
      .enqueue [1, 2] ⟨2, -7, 10, 6⟩, .increment [1, 2] 9 (fun _ => true), .removeQueued [1, 2] 0,
      .removeIfEmpty [1] 2, .park [1, 3] 41] emptyRoot).wf = true := by decide
example : pickFromQueue (applyAll [.create [] 1 5, .create [1] 3 5, .create [1] 2 6, .enqueue [1, 3] ⟨1, 0, 10, 5⟩,
      .enqueue [1, 2] ⟨2, -7, 10, 6⟩] emptyRoot) ⟨[], [], [], 20⟩ = some (⟨2, -7, 10, 6⟩, 0) := by decide

-- non-vacuity: the updates on a concrete tree (two queued children under `1`; enqueue a high
-- priority operation into `[1,3]`, start it, park a worker)
example : (Update.enqueue [1, 3] ⟨9, -5, 10, 7⟩).enabled exTree := by
  show (nodeAt exTree [1, 3]).isSome = true; decide
example : pickFromQueue ((Update.enqueue [1, 3] ⟨9, -5, 10, 7⟩).apply exTree) ⟨[], [], [], 500⟩ =
    some (⟨9, -5, 10, 7⟩, 0) := by decide
example : ((Update.enqueue [1, 3] ⟨9, -5, 10, 7⟩).apply exTree).wf = true := by decide
example : (applyAll [.enqueue [1, 3] ⟨9, -5, 10, 7⟩, .removeQueued [1, 3] 0,
      .increment [1, 3] 600 (fun _ => true), .park [1, 2] 41] exTree).wf = true := by decide
example : (nodeAt ((Update.enqueue [1, 3] ⟨9, -5, 10, 7⟩).apply exTree) [1]).map Inv.prio = some (-5) := by decide

end BbRe.Properties.C04
