import BbRe.Properties.C14Generated
import BbRe.Lemmas.LockSkelConc
import BbRe.Lemmas.LockSkelConcInst
import BbRe.Lemmas.LockSkelConcPile
/-!
# C14 (b), concurrent part — from traces of single functions to the run-time wait-for graph

`C14Generated.lock_order_gives_H` / `no_deadlock_by_lock_order` have the premise `hsrc`:
"in the current system state every (held lock, awaited lock) pair of a blocked thread is an
extracted class edge". This file discharges it for an interleaving semantics
(`Lemmas/LockSkelConc.lean`): any number of threads, each executing one call of an exported
function of the translated files, over one global lock table `instance → owner`, any schedule.

* A thread runs the instance-level trace `tr.map (evMap ρ)` of some `Exec prog f tr`,
  `f ∈ entries` (`IsCall`); `ρ` maps the lock *names* of the skeleton (canonical texts of lock
  expressions) to the run-time locks they denote in this call.
* `acq` blocks while the instance is owned (by anybody, the thread itself included); `rel`/`prel`
  never block; `pacq` follows the back-off protocol of `LockPile.Lock` at table level (rules
  `pFast/pTake/pBack/pWake/pFail`): it blocks only on the first wanted lock while it holds no
  lock of the pile; ownership tokens (`isOwn`) never block and are not table entries.

Proved for every reachable state: `held_is_prefix_replay` (what a thread owns = what the
replay of the completed prefix of its trace holds), `finished_thread_holds_nothing`,
`blocked_pairs_are_edges` (= `hsrc`), `no_wait_cycle`, `system_progress`.

**What remains assumed** (hypothesis of `IsCall`, and modelling):
1. `ρ` is a function, injective, class preserving: within one call each lock name denotes ONE
   run-time lock, different names denote different locks, and a run-time lock belongs to the
   class of every name denoting it (`lc (ρ l) = clsOf edgeClass l`, one `lc` for all threads).
   Not covered: two names for one lock in one call (`iOld == iNew` in a rename inside one
   directory — at pile level that is the recursion count, modelled by `pFast`, but only for
   equal names here), and a name re-bound to different objects in successive loop iterations.
2. (No longer an assumption.) All locks a call takes through one `LockPile` have one class.
   This is needed because a backed-off `LockPile.Lock` may block on ANY lock of the pile (not
   only the newly added one) while holding the locks outside the pile, but `edgesS` records the
   pairs (outside class, class of the lock being added) only. It is proved for every `Exec`
   trace (`call_piles_one_class`, by induction over the path semantics in
   `Lemmas/LockSkelConcPile.lean`) from the static obligation `pile_statements_static`,
   re-decided on the current source on every run.
3. Instance-level vs class-level order. Two locks of the SAME class are never nested outside a
   pile (`classEdges` has no self-loop: `edges_irreflexive`), so the class order suffices for
   everything except same-class locks taken through a pile (parent/child directories, the two
   directories of a rename). For those no instance order is used or needed: the pile never
   blocks while holding a pile lock (first disjunct of `H`; proved for the transcription of
   lock_pile.go in `C14.pile_no_hold_and_wait`; here a modelling rule: `waits` is `none` while
   a pile lock is held). Livelock of the back-off (fairness) is not covered.
4. One call per thread (a thread issuing calls one after the other behaves like several
   threads, because every call starts and ends holding nothing); calls that never return,
   panics, callbacks and goroutines started under a lock are outside `Exec`; the back-off
   releases its locks in one atomic step.
-/
namespace BbRe.Properties.C14Conc
open BbRe.LockSkel BbRe.Generated.LockSkel BbRe.Lemmas.LockSkelEdges BbRe.Lemmas.LockSkelConc
open BbRe.Properties.C14Generated
open BbRe.Lemmas.LockPile (Chain Edge H)

/-- Permitted (held class, awaited class) pairs: the edges extracted from the source. -/
def okEdge (a b : Nat) : Prop := (a, b) ∈ classEdges

/-- All locks the trace takes through one pile have one class (proved for every `Exec` trace
of the current program: `call_piles_one_class`). -/
def PileOneClass (tr : List Ev) : Prop :=
  ∀ p l l', Ev.pacq p l ∈ tr → Ev.pacq p l' ∈ tr → clsOf edgeClass l = clsOf edgeClass l'

/-- `itr` is what one call of an exported function of the translated files does to run-time
locks: a returning run `tr` of the function's skeleton, its lock names instantiated by `ρ`. -/
def IsCall (lc : Nat → Nat) (own : Nat → Bool) (itr : List Ev) : Prop :=
  ∃ f ∈ entries, ∃ tr, Exec prog f tr ∧
    ∃ ρ : Nat → Nat, Function.Injective ρ ∧ (∀ l, lc (ρ l) = clsOf edgeClass l) ∧
      (∀ l, own (ρ l) = isOwn l) ∧ itr = tr.map (evMap ρ)

/-- A thread is idle (empty trace) or executes one call. -/
def ThreadOK (lc : Nat → Nat) (own : Nat → Bool) (itr : List Ev) : Prop :=
  itr = [] ∨ IsCall lc own itr

/-- Systems considered: initial state (nothing executed, all locks free) with every thread
idle or executing a call, and everything reachable from it by any schedule. -/
structure Start (lc : Nat → Nat) (own : Nat → Bool) (s0 : Sys) : Prop where
  init : s0.Init
  calls : ∀ t, ThreadOK lc own (s0.thr t).tr

/-- The extracted relation has no self-loop: same-class locks are never nested outside a pile. -/
theorem edges_irreflexive (a : Nat) : ¬ okEdge a a := by
  intro h
  have hr := class_graph_ok.2
  unfold ranksOk at hr
  have := List.all_eq_true.mp hr _ h
  simp at this

/-- … and is ranked (acyclic). -/
theorem edges_ranked (a b : Nat) (h : okEdge a b) : rankOf classRanks a < rankOf classRanks b := by
  have hr := class_graph_ok.2
  unfold ranksOk at hr
  have := List.all_eq_true.mp hr _ h
  simpa using this

/-- All `pileLock` statements of the current source lock names of one class (syntactic). -/
theorem pile_locks_one_class_syntactic : pileClassesOk edgeClass prog = true := by decide +kernel

/-- The class of the locks taken through a `LockPile` (class of the first `pileLock` statement
of the translated program; the directory lock). -/
def pileClass : Nat :=
  (((prog.flatMap (fun fb => stmtPileLocks fb.2)).head?).map (fun a => clsOf edgeClass a.2)).getD 0

/-- Static obligation on the current source: every `pileLock` statement locks a name of class
`pileClass`, every call renaming keeps the class of every lock name (`renOk`), and no
function body contains an untranslatable (`unsupported`) statement. -/
theorem pile_statements_static : pileStaticOk edgeClass pileClass prog = true := by decide +kernel

/-- **From statements to events**: in every returning run of every translated function (callee
bodies to any depth) all locks taken through a `LockPile` have one class. -/
theorem call_piles_one_class (f : Nat) (tr : List Ev) (he : Exec prog f tr) : PileOneClass tr :=
  pile_events_one_class pile_statements_static f tr he

/-- **Every call trace meets the static hypotheses of the interleaving semantics**: ranked
pairs (`runs_respect_lock_order`), releases only what is held and ends holding nothing
(`no_entry_point_leaves_a_lock_behind`). -/
theorem call_traces_good {lc : Nat → Nat} {own : Nat → Bool} {itr : List Ev}
    (h : ThreadOK lc own itr) : Good lc own okEdge itr := by
  rcases h with rfl | ⟨f, hf, tr, hex, ρ, hρ, hc, ho, rfl⟩
  · exact good_nil edges_irreflexive
  · have hb := entry_points_balanced
    unfold entriesBalanced at hb
    have hs : sigma.get f = some ([], []) := by
      simpa using List.all_eq_true.mp hb f hf
    exact good_of_run hρ hc ho (no_entry_point_leaves_a_lock_behind f hf tr hex)
      (fun e he => (runs_respect_lock_order f tr hex [] [] hs e he).1) edges_irreflexive (call_piles_one_class f tr hex)

section
variable {lc : Nat → Nat} {own : Nat → Bool} {s0 s : Sys}

/-- The invariant of `Lemmas/LockSkelConc.lean` in every reachable state. -/
theorem reachable_inv (h0 : Start lc own s0) (hr : Reach own s0 s) : Inv lc own okEdge s :=
  inv_reach h0.init (fun t => call_traces_good (h0.calls t)) hr

/-- **What a thread owns is what its trace prefix says.** In every reachable state, for every
thread `t` and run-time lock `j`: the table says `t` owns `j` iff `j` is a real lock (not an
ownership token) in `tgt` — the multiset held after replaying the completed prefix of `t`'s
trace (plus, while `t` is inside a backed-off `LockPile.Lock`, the lock being added) — and
`j` is not one of the pile locks `t` has temporarily released (`want`). -/
theorem held_is_prefix_replay (h0 : Start lc own s0) (hr : Reach own s0 s) (t j : Nat) :
    s.T j = some t ↔ (j ∈ tgt (s.thr t) ∧ own j = false ∧ j ∉ (s.thr t).want) :=
  ((reachable_inv h0 hr t).2).holds j

/-- The same outside a back-off: exactly the locks acquired and not released in the prefix. -/
theorem held_is_prefix_replay_plain (h0 : Start lc own s0) (hr : Reach own s0 s) (t j : Nat)
    (hw : (s.thr t).want = []) :
    s.T j = some t ↔ (j ∈ (s.thr t).st.held ∧ own j = false) :=
  ((reachable_inv h0 hr t).2).holds_nil hw j

/-- **No call leaves a lock behind, at run time**: a thread whose call has returned owns no
entry of the lock table. -/
theorem finished_thread_holds_nothing (h0 : Start lc own s0) (hr : Reach own s0 s) (t : Nat)
    (hd : (s.thr t).done) (j : Nat) : s.T j ≠ some t :=
  done_owns_nothing (reachable_inv h0 hr) hd j

/-- **Premise `hsrc` of `lock_order_gives_H`, proved**: in every reachable state, for every
blocked thread, every (class of a lock it holds, class of the lock it waits for) pair is an
extracted edge. -/
theorem blocked_pairs_are_edges (h0 : Start lc own s0) (hr : Reach own s0 s) (t l l' : Nat)
    (hw : s.waits own t = some l) (hh : s.holds t l') : (lc l', lc l) ∈ classEdges :=
  blocked_pair_ok (reachable_inv h0 hr t).1 (reachable_inv h0 hr t).2 hw hh

/-- Hypothesis `H` of `C14.no_deadlock` holds in every reachable state. -/
theorem reachable_H (h0 : Start lc own s0) (hr : Reach own s0 s) :
    H s.holds (s.waits own) (fun l => rankOf classRanks (lc l)) :=
  lock_order_gives_H s.holds (s.waits own) lc (blocked_pairs_are_edges h0 hr)

/-- **No cycle in the run-time wait-for graph** of any reachable state: any number of
threads, any calls, any schedule. -/
theorem no_wait_cycle (h0 : Start lc own s0) (hr : Reach own s0 s) (t0 : Nat) (rest : List Nat) :
    ¬ Chain (Edge s.holds (s.waits own)) t0 (rest ++ [t0]) :=
  no_deadlock_by_lock_order s.holds (s.waits own) lc (blocked_pairs_are_edges h0 hr) t0 rest

/-- **Progress**: with `ts` the (finitely many) threads that execute a call, in every
reachable state all calls have returned or some unfinished thread can take a step. -/
theorem system_progress (h0 : Start lc own s0) (hr : Reach own s0 s) (ts : List Nat)
    (hts : ∀ t, t ∉ ts → (s0.thr t).tr = []) :
    (∀ t, (s.thr t).done) ∨
      ∃ t ∈ ts, ¬ (s.thr t).done ∧ ∃ x' T', TStep own t (s.thr t) s.T x' T' :=
  inv_progress (reachable_inv h0 hr) edges_ranked ts (fun t ht => by
    unfold Thr.done
    rw [reach_tr hr t, hts t ht]
    exact Nat.zero_le _)

end
end BbRe.Properties.C14Conc

/-! Non-vacuity. The hypotheses of the generic development are met by a real instantiated
`Exec` trace with a pile and a call (program `LockSkelEdges.Ex`): two threads run the same
function on disjoint run-time locks (`ρ k l = 2 l + k`), plus idle threads. For the generated
program `Start` is met by the all-idle system; an `IsCall` witness needs an `Exec` derivation
of a generated function, which cannot be written in a file that is not regenerated. -/
namespace BbRe.Examples.C14Conc
open BbRe.LockSkel BbRe.Lemmas.LockSkelEdges BbRe.Lemmas.LockSkelConc

def okE (a b : Nat) : Prop := (a, b) ∈ [(1, 3), (2, 3), (1, 2)]
def lcE (i : Nat) : Nat := clsOf Ex.cls (i / 2)
def ownE (i : Nat) : Bool := isOwn (i / 2)
def rho (k : Nat) (l : Nat) : Nat := 2 * l + k

theorem goodE (k : Nat) (hk : k < 2) : Good lcE ownE okE (Ex.tr.map (evMap (rho k))) := by
  refine good_of_run (cls := Ex.cls) (fun a b h => by unfold rho at h; omega)
    (fun l => by unfold lcE rho; congr 1; omega) (fun l => by unfold ownE rho; congr 1; omega)
    (by decide) (by unfold okE; decide) (fun a h => by unfold okE at h; simp at h; omega) ?_
  have : ∀ p l, Ev.pacq p l ∈ Ex.tr → clsOf Ex.cls l = 2 := by
    intro p l h
    simp [Ex.tr] at h
    rcases h with ⟨_, rfl⟩ | ⟨_, rfl⟩ <;> decide
  intro p l l' h1 h2
  rw [this p l h1, this p l' h2]

def s0 : Sys := ⟨fun t => if t < 2 then ⟨Ex.tr.map (evMap (rho t)), 0, []⟩ else ⟨[], 0, []⟩, fun _ => none⟩

theorem s0_good (t : Nat) : Good lcE ownE okE (s0.thr t).tr := by
  unfold s0
  by_cases h : t < 2
  · simp only [h, if_true]; exact goodE t h
  · simp only [h, if_false]
    exact good_nil (fun a h => by unfold okE at h; simp at h; omega)

theorem s0_init : s0.Init := by
  refine ⟨fun t => ?_, fun _ => rfl⟩
  show (if t < 2 then (⟨Ex.tr.map (evMap (rho t)), 0, []⟩ : Thr) else ⟨[], 0, []⟩).pos = 0 ∧
    (if t < 2 then (⟨Ex.tr.map (evMap (rho t)), 0, []⟩ : Thr) else ⟨[], 0, []⟩).want = []
  split <;> exact ⟨rfl, rfl⟩

/-- every state reachable from `s0` satisfies the invariant, has no wait cycle, … -/
example (s : Sys) (hr : Reach ownE s0 s) : Inv lcE ownE okE s := inv_reach s0_init s0_good hr
/-- … and the first step exists (thread 0 is not finished and can take its first lock). -/
example : ∃ x' T', TStep ownE 0 (s0.thr 0) s0.T x' T' :=
  ⟨_, _, .acq (i := 2000) rfl rfl rfl⟩
/-- the all-idle system meets `Start` for the generated program -/
example : BbRe.Properties.C14Conc.Start (fun _ => 0) (fun _ => false) ⟨fun _ => ⟨[], 0, []⟩, fun _ => none⟩ :=
  ⟨⟨fun _ => ⟨rfl, rfl⟩, fun _ => rfl⟩, fun _ => Or.inl rfl⟩
end BbRe.Examples.C14Conc
