import BbRe.Lemmas.SchedTreeRead
import BbRe.Lemmas.SchedLiveQuiesce6
import BbRe.Lemmas.SchedTreeCross
import BbRe.Lemmas.SchedTreeLock
/-!
# C06 (tree layer) — nothing is retained in the invocation trees

The quiescence theorems of `Properties/C06.lean` are about `Model/Sched.lean`, which has no invocation
trees.  `Model/SchedTree.lean` adds them; here: an invocation is retained only as long as something needs it
(`getOrCreateInvocation` / `removeIfEmpty` discipline, for every reachable state of the tree layer), and in
the quiescent states of C06 — no workers; the only tasks are queued background-learning tasks — the trees
consist of the root invocations and the invocations of those queued background operations, with all worker
counters at zero.
-/
namespace BbRe.Properties.C06Tree
open BbRe.Sched BbRe.SchedTree BbRe.Lemmas.SchedTree

/-- Every non-root invocation that exists is needed: an operation is executing or queued, or a worker has
its last invocation, at or below it. -/
theorem invocation_needed (ts : TState) (h : TReachable ts) (n : Node) (hn : n ∈ ts.nodes) (hp : n.path ≠ []) :
    (∃ p w o, ExecAt ts n.scq p w o ∧ n.path <+: p) ∨ (∃ p w, LastAt ts n.scq p w ∧ n.path <+: p) ∨
    (∃ p o, QueuedAt ts n.scq p o ∧ n.path <+: p) :=
  ((tinv_reachable h).treeInv.exists_iff n.scq n.path hp).mp (node?_isSome_iff.mpr ⟨n, hn, rfl, rfl⟩)

/-- **no_invocations_retained.**  Once every worker is gone (each removed by its cleanup entry, C06), no
invocation is retained on behalf of workers or executing operations: every remaining non-root invocation
has a queued operation at or below it, and in every invocation `executingWorkers`,
`idleSynchronizingWorkers`, `idleSynchronizingWorkersChildren` are empty and `idleWorkersCount` is zero. -/
theorem no_invocations_retained (ts : TState) (h : TReachable ts) (hw : ts.s.workers = []) :
    (∀ n ∈ ts.nodes, n.path ≠ [] → ∃ p o, QueuedAt ts n.scq p o ∧ n.path <+: p) ∧
    (∀ n ∈ ts.nodes, n.exec = [] ∧ n.idle = 0 ∧ n.parked = [] ∧ n.ikids = []) := by
  have hI := tinv_reachable h
  have hT := hI.treeInv
  have hnoW : ∀ q w, ts.s.worker? q w = none := by
    intro q w; rw [BbRe.Lemmas.SchedInv.worker?_def, hw]; rfl
  have hnoE : ∀ q p w o, ¬ ExecAt ts q p w o := by
    rintro q p w o ⟨k, t, q0, hk, hwk, _⟩
    rw [BbRe.Lemmas.SchedInv.task?_def] at hk
    obtain ⟨wk, hf, _⟩ := hI.inv.core.p2 k t q0 w hk hwk
    rw [hw] at hf; cases hf
  have hnoL : ∀ q p w, ¬ LastAt ts q p w := by
    rintro q p w ⟨⟨wk, hwk⟩, _⟩; rw [hnoW] at hwk; cases hwk
  have hnoP : ∀ q p w, ¬ ParkedAt ts q p w := by
    rintro q p w ⟨⟨wk, hwk, _⟩, _⟩; rw [hnoW] at hwk; cases hwk
  constructor
  · intro n hn hp
    rcases invocation_needed ts h n hn hp with ⟨p, w, o, he, _⟩ | ⟨p, w, hl, _⟩ | hq
    · exact absurd he (hnoE _ _ _ _)
    · exact absurd hl (hnoL _ _ _)
    · exact hq
  · intro n hn
    refine ⟨?_, ?_, ?_, ?_⟩
    · obtain ⟨hnd, hpos, hnone, hcnt⟩ := hT.executingWorkers n hn
      cases hx : n.exec with
      | nil => rfl
      | cons a r =>
        exfalso
        obtain ⟨ka, c⟩ := a
        have hc : 0 < c := hpos (ka, c) (by rw [hx]; exact List.mem_cons_self)
        have hm : mget ka n.exec = c := by rw [hx]; simp [mget]
        cases ka with
        | none => rw [hnone] at hm; omega
        | some w =>
          rw [hcnt w] at hm
          obtain ⟨e, he, e1, e2, e3⟩ := (cntE_pos_iff _ _ _ _).mp (by rw [hm]; exact hc)
          obtain ⟨o, ho⟩ := (mem_bagE_iff hI.inv.core.tnd e.1 e.2.1 w).mp (by rw [← e3]; exact he)
          exact hnoE _ _ _ _ ho
    · rw [hT.idleWorkersCount n hn]
      cases hc : cntI n.scq n.path (bagI ts) with
      | zero => rfl
      | succ m =>
        exfalso
        obtain ⟨e, he, _, _⟩ := (cntI_pos_iff _ _ _).mp (by rw [hc]; omega : 0 < cntI n.scq n.path (bagI ts))
        obtain ⟨w, hl⟩ := (mem_bagI_iff hI.side e).mp he
        exact hnoL _ _ _ hl
    · cases hx : n.parked with
      | nil => rfl
      | cons w r =>
        exact absurd (((hT.idleSynchronizingWorkers n hn).2 w).mp (by rw [hx]; exact List.mem_cons_self)) (hnoP _ _ _)
    · cases hx : n.ikids with
      | nil => rfl
      | cons k r =>
        obtain ⟨p, w, hp, _⟩ := ((hT.idleSynchronizingWorkersChildren n hn).2 k).mp (by rw [hx]; exact List.mem_cons_self)
        exact absurd hp (hnoP _ _ _)

/-- In a quiescent state of C06 (`Lemmas/SchedLiveQuiesce6.lean`, `Quiescent`: what `Properties/C06.lean`,
`quiescence`, reaches from every run with fresh client ids) the only invocations left besides the roots are
those of queued background-learning operations. -/
theorem quiescent_tree (ts : TState) (h : TReachable ts) (hq : BbRe.Lemmas.SchedLive.Quiescent ts.s) :
    (∀ n ∈ ts.nodes, n.path ≠ [] → ∃ k t o, ts.s.task? k = some t ∧ t.background = true ∧ t.queued = true ∧
        t.scq = n.scq ∧ o ∈ t.ops ∧ n.path <+: ts.invOf o) ∧
    (∀ n ∈ ts.nodes, n.exec = [] ∧ n.idle = 0 ∧ n.parked = [] ∧ n.ikids = []) := by
  obtain ⟨a, b⟩ := no_invocations_retained ts h hq.workers
  refine ⟨fun n hn hp => ?_, b⟩
  obtain ⟨p, o, ⟨k, t, hk, hqd, hs, ho, hi⟩, hpp⟩ := a n hn hp
  exact ⟨k, t, o, hk, (hq.tasks k t hk).1, hqd, hs, ho, by rw [hi]; exact hpp⟩

/-- … and when no task is left either, only the root invocations remain, one per size-class queue, all empty. -/
theorem only_roots (ts : TState) (h : TReachable ts) (hw : ts.s.workers = []) (ht : ts.s.tasks = []) :
    (∀ n ∈ ts.nodes, n.path = [] ∧ n.qops = [] ∧ n.qkids = [] ∧ n.exec = [] ∧ n.idle = 0 ∧ n.parked = [] ∧ n.ikids = []) ∧
    (∀ n ∈ ts.nodes, ∃ sq ∈ ts.s.scqs, sq.id = n.scq) ∧ (ts.nodes.map (fun n => (n.scq, n.path))).Nodup := by
  have hT := (tinv_reachable h).treeInv
  obtain ⟨a, b⟩ := no_invocations_retained ts h hw
  have hnoQ : ∀ q p o, ¬ QueuedAt ts q p o := by
    rintro q p o ⟨k, t, hk, _⟩
    rw [BbRe.Lemmas.SchedInv.task?_def, ht] at hk; cases hk
  refine ⟨fun n hn => ?_, hT.owned, hT.unique⟩
  obtain ⟨b1, b2, b3, b4⟩ := b n hn
  refine ⟨?_, ?_, ?_, b1, b2, b3, b4⟩
  · cases hp : n.path with
    | nil => rfl
    | cons k r =>
      obtain ⟨p, o, hq, _⟩ := a n hn (by rw [hp]; simp)
      exact absurd hq (hnoQ _ _ _)
  · cases hx : n.qops with
    | nil => rfl
    | cons o r =>
      exact absurd (((hT.queuedOperations n hn).2 o).mp (by rw [hx]; exact List.mem_cons_self)) (hnoQ _ _ _)
  · cases hx : n.qkids with
    | nil => rfl
    | cons k r =>
      obtain ⟨p, o, hq, _⟩ := ((hT.queuedChildren n hn).2 k).mp (by rw [hx]; exact List.mem_cons_self)
      exact absurd hq (hnoQ _ _ _)

/-- **The cross-checks of the tree layer never fire.**  `Model/SchedTree.lean` rejects two things that
`Model/Sched.lean` accepts: the removal of a size-class queue that still has workers and the removal of a
worker that is parked inside `Synchronize` (its cleanup callbacks could not keep the invocation trees right
there).  By the cleanup accounting of C06 the cleanup queue never schedules either: in every reachable state
of the tree layer `bq.enter` — the only caller of the callbacks, run at the start of every segment on the
state the previous segment left — returns exactly what its copy without the two checks returns
(`Lemmas/SchedTreeCross.lean`, `tEnterNG`), results and errors alike. -/
theorem crosschecks_never_fire (ts : TState) (h : TReachable ts) (hints : Hints) (x : Extras) (now : Nat) :
    tEnter hints x ts now = tEnterNG hints x ts now := by
  have hr : Reachable ts.s := by
    induction h with
    | init cfg => exact Reachable.init cfg
    | step g _ hs ih => exact Reachable.step g.seg ih (tstep_ref _ _ g hs)
  exact tEnter_ng (BbRe.Lemmas.SchedInv.inv_reachable hr) (BbRe.Lemmas.SchedLive.kwc_reachable hr)

end BbRe.Properties.C06Tree
