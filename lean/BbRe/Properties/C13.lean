import BbRe.Lemmas.DirRead
import BbRe.Lemmas.DirMisc
import BbRe.Lemmas.DirPosixBulk
import BbRe.Lemmas.DirFuel
/-!
# C13 — the virtual directory tree behaves like a POSIX file hierarchy

Property theorems about `Model/Dir.lean`, the transcription of
`pkg/filesystem/virtual/in_memory_prepopulated_directory.go`.  All theorems are
about *every* operation list (`run P init ops`, any length, any number of
directories / names / leaves), every normaliser `P.normalize` (not even
idempotence is needed: the code normalises each name exactly once) and every
hidden-file predicate `P.hidden`.  Helper lemmas: `BbRe/Lemmas/Dir*.lean`.
-/
namespace BbRe.Properties.C13
open BbRe.Dir BbRe.Lemmas.Dir

/-! ## contents_inv -/

theorem inv_init (P : Params) : Inv P init := BbRe.Lemmas.Dir.inv_init P

/-- Every operation (valid or not, succeeding or not) preserves the invariant. -/
theorem inv_step (P : Params) (s : Store) (op : Op) (h : Inv P s) : Inv P (step P s op).1 := (step_ok h op).inv

theorem inv_reachable (P : Params) (ops : List Op) : Inv P (run P init ops) := (run_ok ops (inv_init P)).inv

/-- `contents_inv`, spelled out for every reachable store: per directory the
normalised names are the normal forms of the names and pairwise different, the
cookies strictly increase along the list and stay below the change counter, a
deleted directory has no entries and no pending fetcher; every directory has at
most one parent entry; the ghost link count of every leaf (maintained by the
`Link()`/`Unlink()` calls) is the number of entries that refer to it; every
child that is referred to exists. -/
theorem contents_inv (P : Params) (ops : List Op) :
    let s := run P init ops
    (∀ d, (∀ e ∈ (s.dir d).entries, e.norm = P.normalize e.name) ∧
          (s.dir d).entries.Pairwise (fun a b => a.norm ≠ b.norm) ∧
          (s.dir d).entries.Pairwise (fun a b => a.cookie < b.cookie) ∧
          (∀ e ∈ (s.dir d).entries, e.cookie < (s.dir d).changeID) ∧
          ((s.dir d).deleted = true → (s.dir d).entries = [] ∧ (s.dir d).lazy = none)) ∧
    (∀ d, (refs s).count (Child.dir d) ≤ 1) ∧
    (∀ l, (s.leaf l).links = (refs s).count (Child.leaf l)) ∧
    (∀ d, Child.dir d ∈ refs s → d < s.dirs.length) ∧
    (∀ l, Child.leaf l ∈ refs s → l < s.leaves.length) := by
  intro s
  have h : Inv P s := inv_reachable P ops
  refine ⟨?_, ?_, ?_, ?_, ?_⟩
  · intro d
    have hd := h.dirOK d
    exact ⟨hd.norm, hd.nodup, hd.sorted, hd.bound, hd.del⟩
  · intro d; simpa using h.oneParent d
  · intro l; simpa using h.links l
  · intro d hd; exact h.dirRef d (by simpa using hd)
  · intro l hl; exact h.leafRef l (by simpa using hl)

theorem run_append (P : Params) (s : Store) (a b : List Op) : run P s (a ++ b) = run P (run P s a) b := by
  induction a generalizing s with
  | nil => rfl
  | cons op rest ih => simp [run, ih]

/-- `deleted → entries = []` forever: once a directory carries the tombstone, it
carries it after any further operations and never gets an entry again. -/
theorem deleted_forever (P : Params) (ops more : List Op) (d : Nat)
    (hdel : ((run P init ops).dir d).deleted = true) :
    ((run P init (ops ++ more)).dir d).deleted = true ∧ ((run P init (ops ++ more)).dir d).entries = [] := by
  rw [run_append]
  have h1 := inv_reachable P ops
  have h2 := run_ok more h1
  have hd := h2.le.del d hdel
  exact ⟨hd, ((h2.inv.dirOK d).del hd).1⟩

/-! ## change_counter -/

/-- The change counter of no directory ever goes back. -/
theorem change_counter_monotone (P : Params) (ops : List Op) (op : Op) (d : Nat) :
    ((run P init ops).dir d).changeID ≤ ((step P (run P init ops) op).1.dir d).changeID :=
  (step_ok (inv_reachable P ops) op).le.cid d

/-- An operation that changes the entry list of a directory (attaches, detaches or
replaces anything) strictly increases that directory's change counter … -/
theorem change_counter_strict (P : Params) (ops : List Op) (op : Op) (d : Nat)
    (hd : d < (run P init ops).dirs.length)
    (hmod : ((step P (run P init ops) op).1.dir d).entries ≠ ((run P init ops).dir d).entries) :
    ((run P init ops).dir d).changeID < ((step P (run P init ops) op).1.dir d).changeID := by
  have hle := (step_ok (inv_reachable P ops) op).le
  have h1 := hle.cid d
  by_cases he : ((step P (run P init ops) op).1.dir d).changeID = ((run P init ops).dir d).changeID
  · exact absurd (hle.same d hd he) hmod
  · omega

/-- … and not otherwise: an operation that does not return OK leaves every
(materialised) directory exactly as it was — entries, cookies, change counter,
tombstone.  (A directory that is still defined by its `InitialContentsFetcher`
may get materialised by the failing call; that is the only effect.) -/
theorem change_counter_failed_op (P : Params) (s : Store) (op : Op) (d : Nat)
    (hfail : (step P s op).2.status ≠ .ok) (hd : d < s.dirs.length) (hmat : (s.dir d).lazy = none) :
    (step P s op).1.dir d = s.dir d := by
  rcases step_fail P s op with h | h
  · exact absurd h hfail
  · exact h.2 d hd hmat

/-- Operations that only read (lookup, listings, attributes, FilterChildren's
traversal, InstallHooks) leave every materialised directory exactly as it was. -/
theorem change_counter_read_only (P : Params) (s : Store) (op : Op) (d : Nat) (hro : readOnly op = true)
    (hd : d < s.dirs.length) (hmat : (s.dir d).lazy = none) :
    (step P s op).1.dir d = s.dir d := by
  unfold step
  split
  · exact (exec_readOnly P s op hro).2 d hd hmat
  · rfl

/-- `ChangeInfo` of a successful create (mkdir / mknod / open-create / link) on a
materialised directory: `Before` is the counter before the call, `After` the
counter after it, and `After = Before + 1`. -/
theorem change_info_create (P : Params) (s : Store) (op : Op) (d : Nat)
    (hop : (∃ n, op = .mkdir d n) ∨ (∃ n k, op = .mknod d n k) ∨ (∃ n, op = .openc d n true false) ∨ (∃ n l, op = .link d n l))
    (hmat : (s.dir d).lazy = none) (hok : (step P s op).2.status = .ok) :
    (step P s op).2.ci = [((s.dir d).changeID, ((step P s op).1.dir d).changeID)] ∧
    ((step P s op).1.dir d).changeID = (s.dir d).changeID + 1 :=
  ci_create P s op d hop hmat hok

/-! ## deleted_rejects -/

/-- After removal, every create / link / mkdir / mknod / rename-into / CreateChildren /
CreateAndEnterPrepopulatedDirectory on that directory yields NOENT and changes
nothing in it. -/
theorem deleted_rejects (P : Params) (ops : List Op) (d : Nat) (op : Op)
    (hd : d < (run P init ops).dirs.length)
    (hdel : ((run P init ops).dir d).deleted = true)
    (hop : creatingIn (run P init ops) d op = true) (hv : validOp (run P init ops) op = true) :
    (step P (run P init ops) op).2.status = .noent ∧
    (step P (run P init ops) op).1.dir d = (run P init ops).dir d :=
  deleted_rejects_step P (run P init ops) d op (inv_reachable P ops) hd hdel hop hv

/-! ## readdir_exactly_once -/

/-- For any interleaving of arbitrary operation lists with the pages of a listing
of directory `d` (each page resumed from the cookie returned with the last entry
of the previous page, any page sizes): the reported cookies strictly increase
over the whole listing, hence no entry is reported twice; every report is an
entry that is in the directory at the time of its page, with its name and child,
and never a hidden leaf. -/
theorem readdir_no_duplicates (P : Params) (ops : List Op) (d : Nat) (segs : List (List Op × Nat))
    (hd : d < (run P init ops).dirs.length) :
    let pages := listing P d (run P init ops) 0 segs
    (allReports pages).Pairwise (fun a b => a.cookie < b.cookie) ∧
    (allReports pages).Nodup ∧
    (∀ p ∈ pages, ∀ r ∈ p.2.reports, ∃ e ∈ (p.1.dir d).entries,
        r = ⟨e.cookie + 1, e.name, e.child⟩ ∧ (e.child.isDir = true ∨ P.hidden e.name = false)) := by
  intro pages
  have h := inv_reachable P ops
  have hc := listing_cookies (P := P) d segs _ 0 h hd
  refine ⟨hc.1, ?_, ?_⟩
  · exact hc.1.imp (by intro a b hab heq; subst heq; omega)
  · intro p hp r hr
    obtain ⟨e, he, hre, hv⟩ := listing_sound (P := P) d segs _ 0 h hd p hp r hr
    refine ⟨e, he, hre, ?_⟩
    unfold visible at hv
    cases hdir : e.child.isDir <;> simp_all

/-- … and when the listing ran to its end (every page asked for at least one
entry, the last page came back OK and short), every entry — the same entry
record: name, cookie, child — that is in the directory at every page of the
listing and is not a hidden leaf is reported exactly once. -/
theorem readdir_exactly_once (P : Params) (ops : List Op) (d : Nat) (segs : List (List Op × Nat)) (e : Entry)
    (hd : d < (run P init ops).dirs.length)
    (hk : ∀ seg ∈ segs, 1 ≤ seg.2)
    (hfin : finished segs (listing P d (run P init ops) 0 segs))
    (hvis : e.child.isDir = true ∨ P.hidden e.name = false)
    (hpres : ∀ p ∈ listing P d (run P init ops) 0 segs, e ∈ (p.1.dir d).entries) :
    (allReports (listing P d (run P init ops) 0 segs)).count ⟨e.cookie + 1, e.name, e.child⟩ = 1 := by
  have h := inv_reachable P ops
  have hv : visible P e = true := by
    unfold visible; rcases hvis with h1 | h1 <;> simp [h1]
  have hmem := listing_complete (P := P) d e hv segs _ 0 h hd hk (Nat.zero_le _) hpres hfin
  have hnd := (readdir_no_duplicates P ops d segs hd).2.1
  rw [hnd.count]
  simp [entryReportOf] at hmem
  simp [hmem]

/-- Resuming from an arbitrary cookie `c` (any cookie returned earlier, by this or
another listing): a page reports, in cookie order, exactly the first `k` entries
with cookie ≥ `c` that are not hidden leaves — nothing before `c`, nothing
skipped. -/
theorem readdir_resume_any_cookie (P : Params) (ops : List Op) (d c k : Nat)
    (hd : d < (run P init ops).dirs.length)
    (hok : (vreaddir P (run P init ops) d c k).2.status = .ok) :
    (vreaddir P (run P init ops) d c k).2.reports =
      (((((vreaddir P (run P init ops) d c k).1.dir d).entries.filter (fun e => c ≤ e.cookie)).filter
          (fun e => e.child.isDir || !P.hidden e.name)).take k).map (fun e => ⟨e.cookie + 1, e.name, e.child⟩) := by
  have pf := pageFacts (inv_reachable P ops) d c k hd
  rcases pf.cases with ⟨hne, _⟩ | ⟨_, hr⟩
  · exact absurd hok hne
  · rw [hr]; rfl

/-- `LookupAllChildren` and `ReadDir` list exactly the entries of the directory that
are not hidden leaves — each of them, once, with its own name and child. -/
theorem listings_exact (P : Params) (s : Store) (d : Nat) (op : Op)
    (hop : op = .lookupAll d ∨ op = .readDirB d) (hok : (exec P s op).2.status = .ok) :
    (∀ r, r ∈ (exec P s op).2.reports ↔
        ∃ e ∈ ((exec P s op).1.dir d).entries, (e.child.isDir || !P.hidden e.name) = true ∧ r = ⟨0, e.name, e.child⟩) ∧
    (exec P s op).2.reports.length =
      (((exec P s op).1.dir d).entries.filter (fun e => e.child.isDir || !P.hidden e.name)).length :=
  listing_calls_exact P s d op hop hok

/-- The recursive bulk removals (`RemoveAll`, `RemoveAllChildren`, the overwritten
entries of `CreateChildren`) always run to completion: the fuel of the work-list
form `removeTree` is sufficient, more fuel changes nothing. -/
theorem bulk_removal_complete (s : Store) (stack : List Nat) (extra : Nat) :
    removeTree (removeFuel s stack) s stack = removeTree (removeFuel s stack + extra) s stack :=
  removeFuel_sufficient s stack extra

/-! ## refines_posix -/

/-- `refines_posix`: the abstraction `abs : Store → FS` (forget the order of the
entries, cookies, change counters and ghost link counts; a directory becomes a
finite map from normalised names to (name, child)) commutes with *every*
operation, executed in any reachable store: the reference hierarchy
`Spec/Posix.lean` (textbook rules plus the documented deviations D1–D8) answers
with the same status code and the same child and ends in the abstraction of the
resulting store.  This covers the kernel-facing calls (mkdir, mknod, open/create,
link, lookup, remove, rename), LookupChild / Remove, the lazy expansion of
directories with all its failure cases, and the bulk calls:
CreateAndEnterPrepopulatedDirectory, CreateChildren (with and without overwrite,
including the panic outcome), RemoveAll and RemoveAllChildren — whose recursive
removal is specified declaratively (`destroy`: every directory reachable from the
removed one becomes a tombstone), also for hierarchies made cyclic by D1.
Listings, attribute reads, FilterChildren's traversal and InstallHooks are
`access` / `nop` steps of the reference (they at most expand a directory); what
they report is the subject of `listings_refine` and `filter_refines`. -/
theorem refines_posix (P : Params) (ops : List Op) (op : Op) (hv : validOp (run P init ops) op = true) :
    BbRe.Spec.Posix.step P.normalize P.hidden (abs (run P init ops)) (absOpAll op) =
      (abs (step P (run P init ops) op).1, (step P (run P init ops) op).2.status,
        (step P (run P init ops) op).2.child) :=
  refines_step_all P (run P init ops) op (inv_reachable P ops) hv

/-- `FilterChildren` changes nothing, makes at most `limit` callbacks, and every
callback gets either a leaf entry `(owner, name, leaf)` of a directory at or below
`d` or a still pending directory at or below `d` of the reference hierarchy (the
removers handed to the callback are `Remove(name)` on the owner and
`RemoveAllChildren(false)` on the pending directory — ordinary operations, covered
by `refines_posix` whether they run inside the callback or later). -/
theorem filter_refines (P : Params) (ops : List Op) (d limit : Nat) :
    (filterChildren (run P init ops) d limit).1 = run P init ops ∧
    (filterChildren (run P init ops) d limit).2.status = .ok ∧
    (filterChildren (run P init ops) d limit).2.reports.length ≤ limit ∧
    ∀ r ∈ (filterChildren (run P init ops) d limit).2.reports,
      BbRe.Spec.Posix.filterItem (abs (run P init ops)) d r.cookie r.name r.child :=
  BbRe.Lemmas.Dir.filter_refines P (run P init ops) d limit (inv_reachable P ops)

/-- What `LookupAllChildren` / `ReadDir` list, in terms of the reference hierarchy:
exactly the (name, child) pairs of the abstract directory that are not hidden leaves. -/
theorem listings_refine (P : Params) (ops : List Op) (d : Nat) (op : Op)
    (hop : op = .lookupAll d ∨ op = .readDirB d) (hd : d < (run P init ops).dirs.length)
    (hok : (exec P (run P init ops) op).2.status = .ok) (name : Nat) (c : Child) :
    (⟨0, name, c⟩ : Report) ∈ (exec P (run P init ops) op).2.reports ↔
      ((∃ n, ((abs (exec P (run P init ops) op).1).dir d).entries n = some (name, c)) ∧
        (c.isDir || !P.hidden name) = true) := by
  have hv : validOp (run P init ops) op = true := by rcases hop with rfl | rfl <;> simpa [validOp] using hd
  have hinv : Inv P (exec P (run P init ops) op).1 := by
    have := step_ok (inv_reachable P ops) op
    unfold step at this; rw [if_pos hv] at this; exact this.inv
  have hx := (listing_calls_exact P (run P init ops) d op hop hok).1 ⟨0, name, c⟩
  rw [hx, abs_dir]
  constructor
  · rintro ⟨e, he, hvis, heq⟩
    have hn : name = e.name := by injection heq
    have hc : c = e.child := by injection heq
    subst hn hc
    exact ⟨(listing_entries_abs (hinv.dirOK d) e.name e.child).mp ⟨e, he, rfl, rfl⟩, hvis⟩
  · rintro ⟨hent, hvis⟩
    obtain ⟨e, he, rfl, rfl⟩ := (listing_entries_abs (hinv.dirOK d) name c).mpr hent
    exact ⟨e, he, hvis, rfl⟩

/-! ## non-vacuity -/

/-- Names 0..9, name 9 is hidden, names 5..8 normalise to 1..4 ("case folding"). -/
def exP : Params := { normalize := fun n => if 5 ≤ n ∧ n ≤ 8 then n - 4 else n, hidden := fun n => n == 9 }

/-- root; mkdir 1,2; create 3, hidden 9; rmdir 2 … -/
def exOps : List Op :=
  [.newRoot 0, .mkdir 0 1, .mkdir 0 2, .openc 0 3 true false, .openc 0 9 true false, .link 0 4 0,
   .mkdir 1 1, .rename 0 3 1 2, .vremove 0 2 true false]

-- a reachable store with directories, hard links, a hidden file and a tombstone
example : ((run exP init exOps).dir 0).entries.length = 3 ∧ ((run exP init exOps).dir 2).deleted = true ∧
    ((run exP init exOps).leaf 0).links = 2 := by decide

-- `deleted_rejects` has instances: directory 2 is deleted and `mkdir 2 1` is a valid creating operation
example : 2 < (run exP init exOps).dirs.length ∧ ((run exP init exOps).dir 2).deleted = true ∧
    creatingIn (run exP init exOps) 2 (.mkdir 2 1) = true ∧ validOp (run exP init exOps) (.mkdir 2 1) = true := by decide

-- `change_counter_strict` has instances: `mkdir 0 5`… is EEXIST (folds to 1), `mkdir 0 6`… too; `mkdir 1 3` modifies
example : ((step exP (run exP init exOps) (.mkdir 1 3)).1.dir 1).entries ≠ ((run exP init exOps).dir 1).entries := by decide
example : (step exP (run exP init exOps) (.mkdir 0 5)).2.status = .exist := by decide

/-- A listing of directory 0 in three pages of size 2, with a removal and a creation in between. -/
def exSegs : List (List Op × Nat) := [([], 2), ([.vremove 0 4 false true, .mkdir 0 2], 2), ([], 2)]

-- the hypotheses of `readdir_exactly_once` hold for the entry of name 1 (cookie 0): the listing
-- finishes, the entry is there at every page (entry 4 is removed after page 1, entry 2 appears
-- after page 1, the hidden file 9 is there all the time), and three entries are reported in total
example : finished exSegs (listing exP 0 (run exP init exOps) 0 exSegs) := by
  simp only [exSegs, listing_cons, listing, finished]
  decide
example : ∀ p ∈ listing exP 0 (run exP init exOps) 0 exSegs, (⟨1, 1, 0, .dir 1⟩ : Entry) ∈ (p.1.dir 0).entries := by
  decide
example : (allReports (listing exP 0 (run exP init exOps) 0 exSegs)).map (fun r => r.name) = [1, 4, 2] := by decide

-- `refines_posix` has instances, e.g. a rename over an existing entry and a recursive removal in the example store
example : validOp (run exP init exOps) (.rename 0 4 1 2) = true ∧
    (step exP (run exP init exOps) (.rename 0 4 1 2)).2.status = .ok := by decide
example : validOp (run exP init exOps) (.removeAll 0 1) = true ∧
    (step exP (run exP init exOps) (.removeAll 0 1)).2.status = .ok ∧
    ((step exP (run exP init exOps) (.removeAll 0 1)).1.dir 3).deleted = true := by decide

end BbRe.Properties.C13
