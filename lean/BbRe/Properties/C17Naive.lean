import BbRe.Model.NaiveDir
import BbRe.Lemmas.NaiveDir
import BbRe.Lemmas.NaiveDirLazy
import BbRe.Lemmas.NaiveDirReach
import BbRe.Lemmas.NaiveDirComplete
import BbRe.Lemmas.NaiveDirHardLink
import BbRe.Lemmas.InputRootExamples
/-!
# C17, eager half: `naiveBuildDirectory.MergeDirectoryContents` (non-virtual workers)

Model: `Model/NaiveDir.lean` (transcription of `pkg/builder/naive_build_directory.go` and
`pkg/cas/blob_access_file_fetcher.go` over an abstract file system and a fault oracle at
every storage / file system call). All theorems hold for every store (any Directory
DAG, malformed or not, any fuel), every oracle (any set of failing calls, any choice of
where the walker notices the cancelled context) — no size bounds.

"Shows": `(rawAt t q).map kindOf` is what a tree shows under the path `q`: nothing, a
directory, a file with its digest and executable bit, or a symlink with its target. Two
trees that show the same under every path have the same names, kinds, executable bits,
symlink targets and file digests, recursively (the order of directory entries, which a file
system does not have, is the only thing not compared: the eager walk creates files,
directories, symlinks; the lazy fetcher lists directories, files, symlinks).

Tie to the code: `harness/cmd/inputroot/naive_model.go` runs the real
`MergeDirectoryContents` on a temporary directory with the same store and the same
injected failing calls and compares ok / error class / canonical tree listing with
`drv_naivedir` (`Drivers/NaiveDir.lean`).
-/
namespace BbRe.Properties.C17Naive
open BbRe.InputRoot BbRe.NaiveDir BbRe.Lemmas.NaiveDir BbRe.Lemmas.InputRoot BbRe.Lemmas.InputRoot.Ex

/-- **naive_exact.** If the merge into an empty build directory returns OK, the tree it
leaves shows under every path exactly what the decoded tree of the root digest (`expand`,
the eager tree of `Model/InputRoot.lean`, same fuel) shows. -/
theorem naive_exact (c : CAS) (O : Oracle) (fuel : Nat) (d : Dig) (ch : Children)
    (h : NaiveDir.merge c O fuel d [] = (ch, .ok)) (q : Path) :
    (rawAt (.dir ch) q).map kindOf = (rawAt (expand c fuel (.lazy d none)) q).map kindOf :=
  shows_of_clean c O fuel d [] ch (merge_ok_clean c O fuel d [] ch h) q

/-- … and that decoded tree is complete: every Directory referenced below the root, directly
or indirectly, is in the store, is a Directory message, is well-formed in the sense of the lazy
fetcher (valid names, no name twice within or across the three lists, well-formed digests,
usable symlink targets) and its `GetDirectory` call did not fail. Contrapositive
(**naive_error**, storage part): a missing, garbage or malformed Directory blob anywhere below
the root, or a failing `GetDirectory`, makes the merge return an error — never OK with a
different tree. -/
theorem naive_error_directories (c : CAS) (O : Oracle) (fuel : Nat) (d : Dig) (ch : Children)
    (h : NaiveDir.merge c O fuel d [] = (ch, .ok)) (d' : Dig) (hr : Reach c d d') :
    ∃ m, assoc c.dirs d' = some (some m) ∧ WellFormed c.hashLen m ∧ O.cas.contains d' = false :=
  clean_reach c O fuel d [] ch (merge_ok_clean c O fuel d [] ch h) d' hr

/-- The same as an implication towards "error". -/
theorem naive_error (c : CAS) (O : Oracle) (fuel : Nat) (d d' : Dig) (hr : Reach c d d')
    (hbad : assoc c.dirs d' = none ∨ assoc c.dirs d' = some none ∨
      (∃ m, assoc c.dirs d' = some (some m) ∧ ¬ WellFormed c.hashLen m) ∨ O.cas.contains d' = true) :
    ∃ e, (NaiveDir.merge c O fuel d []).2 = .error e := by
  cases ho : (NaiveDir.merge c O fuel d []).2 with
  | error e => exact ⟨e, rfl⟩
  | ok =>
    have h : NaiveDir.merge c O fuel d [] = ((NaiveDir.merge c O fuel d []).1, .ok) := by rw [← ho]
    obtain ⟨m, hm, hw, hf⟩ := naive_error_directories c O fuel d _ h d' hr
    rcases hbad with h1 | h1 | ⟨m', h1, h2⟩ | h1
    · rw [hm] at h1; cases h1
    · rw [hm] at h1; cases h1
    · rw [hm] at h1; simp only [Option.some.injEq] at h1; subst h1; exact absurd hw h2
    · rw [hf] at h1; cases h1

/-- **naive_error, call part.** In a directory whose walk ended clean (at any depth: the
contents of every sub-directory of a clean walk are a clean walk, `mkDirN`) every call that was
issued succeeded: the Directory was fetched, every file was created, read from the storage
(blob present, no fault) and time-stamped, every `Mkdir`/`EnterDirectory`/`Symlink` worked.
Contrapositive: if any issued call fails the merge returns an error. The contents are
exactly one entry per entry of the message. -/
theorem naive_issued_calls_succeeded (c : CAS) (O : Oracle) (f : Nat) (d : Dig) (p : Path)
    (ch : Children) (h : mergeDirIn c O (f + 1) d p [] false = ⟨ch, false, none⟩) :
    ∃ m, getDirectory c O.cas d = .ok m ∧ ch = naiveChildren c O f p m ∧
      (∀ e ∈ m.files, FileCalls c O p e) ∧ (∀ e ∈ m.dirs, DirCalls O p e) ∧
      (∀ e ∈ m.syms, SymCalls O p e) := by
  obtain ⟨m, hg, _, _, _, hch, h1, h2, h3⟩ := level_ok c O f d p ch h
  exact ⟨m, hg, hch, h1, h2, h3⟩

/-- OK is returned only by a clean walk: the walking goroutine returned nil and no download
failed (`group.Wait()`); wherever the walker may have noticed a cancellation (`O.stop`). -/
theorem naive_ok_iff_clean (c : CAS) (O : Oracle) (fuel : Nat) (d : Dig) (ch0 : Children) :
    (NaiveDir.merge c O fuel d ch0).2 = .ok ↔
      (mergeDirIn c O fuel d [] ch0 false).failed = false ∧ (mergeDirIn c O fuel d [] ch0 false).err = none := by
  constructor
  · intro ho
    have h : NaiveDir.merge c O fuel d ch0 = ((NaiveDir.merge c O fuel d ch0).1, .ok) := by rw [← ho]
    rw [merge_ok_clean c O fuel d ch0 _ h]
    exact ⟨rfl, rfl⟩
  · intro ⟨h1, h2⟩
    simp [NaiveDir.merge, outcomeOf, h1, h2]

/-- **Agreement with the lazy input root.** If the eager merge returns OK then the lazy
`virtualBuildDirectory.MergeDirectoryContents` of the same digest into a fresh root succeeds,
and the eager tree shows under every path what the fully explored lazy root shows
(`C17.lazy_equals_eager_root`: which is what every exploration of the lazy root observes). -/
theorem naive_agrees_lazy (c : CAS) (O : Oracle) (fuel : Nat) (d : Dig) (ch : Children)
    (h : NaiveDir.merge c O fuel d [] = (ch, .ok)) :
    (InputRoot.merge (init c) [] d false).2 = .ok ∧
    ∀ q : Path, (rawAt (.dir ch) q).map kindOf =
      (rawAt (expand c fuel (InputRoot.merge (init c) [] d false).1.root) q).map kindOf := by
  have hc := merge_ok_clean c O fuel d [] ch h
  cases fuel with
  | zero => simp [mergeDirIn] at hc
  | succ f =>
    obtain ⟨m, _, _, _, hfetch⟩ := fetch_of_clean c O f d [] ch hc
    have hroot : (InputRoot.merge (init c) [] d false).1.root = .dir (specChildren c.hashLen m) := by
      simp [InputRoot.merge, init, hfetch, contents, actMerge, hasName, lookup]
    refine ⟨by simp [InputRoot.merge, init, hfetch, contents, actMerge, hasName, lookup], fun q => ?_⟩
    rw [hroot]
    have hx : expand c (f + 1) (.dir (specChildren c.hashLen m)) = expand c (f + 1) (.lazy d none) := by
      simp [expand, hfetch]
    rw [hx]
    exact shows_of_clean c O (f + 1) d [] ch hc q

/-- **Nothing outside the build directory changes**: whatever the merge does (OK or error,
any oracle), a path of the surrounding file system that parts ways with the path of the
build directory denotes the same node before and after. -/
theorem naive_outside_unchanged (c : CAS) (O : Oracle) (fuel : Nat) (d : Dig) (tp q : Path)
    (fs : Node) (hq : Diverge tp q) : rawAt (mergeAt c O fuel d tp fs).1 q = rawAt fs q := by
  unfold mergeAt
  split
  · exact updAt_frame _ tp q hq fs
  · rfl

/-- **Completeness (sufficient fuel).** On an acyclic store (`Acyclic`: sub-directory digests
have smaller rank — the depth of the tree a digest names), with fuel above the rank of the
root, when every Directory reachable from the root is present and well-formed and every file
blob it lists is present (`Complete`), and no call fails, the merge returns OK — in
particular fuel never runs out. So `naive_exact`/`naive_agrees_lazy` speak about every
well-formed input, and "error" in `naive_error` is never an artefact of the fuel. -/
theorem naive_succeeds_when_clean (c : CAS) (O : Oracle) (hcas : O.cas = []) (hfs : O.fs = [])
    (rank : Dig → Nat) (hr : Acyclic c rank) (fuel : Nat) (d : Dig) (hf : rank d < fuel)
    (hc : Complete c d) : ∃ ch, NaiveDir.merge c O fuel d [] = (ch, .ok) := by
  obtain ⟨ch, h⟩ := clean_of_complete c O hcas hfs rank hr fuel d [] hf hc
  exact ⟨ch, by simp [NaiveDir.merge, outcomeOf, h]⟩

/-- … and then the tree is the requested one (`naive_exact` applies to the witness). -/
theorem naive_succeeds_with_the_requested_tree (c : CAS) (O : Oracle) (hcas : O.cas = [])
    (hfs : O.fs = []) (rank : Dig → Nat) (hr : Acyclic c rank) (fuel : Nat) (d : Dig)
    (hf : rank d < fuel) (hc : Complete c d) :
    (NaiveDir.merge c O fuel d []).2 = .ok ∧ ∀ q : Path,
      (rawAt (.dir (NaiveDir.merge c O fuel d []).1) q).map kindOf =
        (rawAt (expand c fuel (.lazy d none)) q).map kindOf := by
  obtain ⟨ch, h⟩ := naive_succeeds_when_clean c O hcas hfs rank hr fuel d hf hc
  rw [h]
  exact ⟨rfl, naive_exact c O fuel d ch h⟩

/-! ### through the hard-linking file fetcher (`mergeHL`)

Full statement aimed at (NOT proved yet): `naive_exact_hardlink` — if
`mergeHL c O K fuel d [] s = (s', ch, .ok)` and `CacheInv s` then `CacheInv s'` and `ch` shows under
every path what `expand c fuel (.lazy d none)` shows. Proved below: the per-call part (every
`GetFile` of the walk keeps the cache invariant and a step that goes on clean has appended exactly
the requested file — the hypothesis `loop_ok` needs of the file step). Missing: threading the
cache state through `loop_ok`/`level_ok` (the `conv`-based description of the directory loop
assumes entries are handled independently of each other). -/

open BbRe.InputRoot.HardLink in
/-- Per-call part of `naive_exact_hardlink`: under the cache invariant (`CacheClean` + limits)
one file step of the walk through the hard-linking fetcher keeps the invariant, and if it goes
on without a failed download it has created exactly the requested file (digest, executable
bit) under a valid name that was free. -/
theorem naive_exact_hardlink_step_partial (c : CAS) (O : Oracle) (K : HLParams)
    (hK : ∀ d x, K.unkey (K.key d x) = (d, x)) (p : Path) (e : FileNode) (s : HardLink.State)
    (ch : Children) (bad : Bool) (h : CacheInv s) :
    CacheInv (fileStepHL c O K p e s ch bad).1 ∧
    ∀ ch', (fileStepHL c O K p e s ch bad).2 = .next ch' false →
      bad = false ∧ validName e.name = true ∧ hasName ch e.name = false ∧
      ∃ d, parseDigest c.hashLen e.digest = some d ∧ ch' = ch ++ [(e.name, .file d e.exec none)] :=
  fileStepHL_next c O K hK p e s ch bad h

open BbRe.InputRoot.HardLink in
/-- A cache entry deleted or replaced by a directory behind the worker's back before a
`GetFile` of the walk leads to a re-download, a link or an error — never to another file in the
build directory; the cache invariant survives. -/
theorem naive_hardlink_cache_faults_are_errors (c : CAS) (O : Oracle) (K : HLParams)
    (hK : ∀ d x, K.unkey (K.key d x) = (d, x)) (s : HardLink.State) (fl : Fault) (q : Path) (d : Dig)
    (exec : Bool) (name : Name) (ch : Children) (h : CacheInv s) :
    CacheInv (getFileHL c O K (fault s fl) q d exec name ch).1 ∧
    ∀ ch', (getFileHL c O K (fault s fl) q d exec name ch).2 = some ch' →
      ch' = ch ++ [(name, .file d exec none)] :=
  getFileHL_after_fault c O K hK s fl q d exec name ch h

/-- Non-vacuity: the empty cache satisfies the invariant; `b0` merges OK through it (keys: size +
executable bit are enough to tell the two files of `exCAS` apart) and leaves one cache entry. -/
example : CacheInv ⟨2, 100, [], []⟩ := ⟨by intro k c h; simp at h, by simp [BbRe.Lemmas.InputRoot.HardLink.Lim], Or.inl (by simp [HardLink.total])⟩
example :
    let K : HLParams := ⟨fun d x => 2 * d.size + (if x then 1 else 0), fun k => (if k / 2 = 0 then f2 else f1, k % 2 = 1)⟩
    let r := mergeHL exCAS ⟨[], [], []⟩ K 3 dB [] ⟨2, 100, [], []⟩
    (r.2.2, r.1.disk) = (.ok, [(0, .file 0)]) := by decide

/-! ### non-vacuity (store `exCAS` of `Lemmas/InputRootExamples.lean`) -/

/-- `b0` = { again/ → c0 (empty), y (file f2) } merges OK without faults … -/
example : (NaiveDir.merge exCAS ⟨[], [], []⟩ 3 dB []).2 = .ok := by decide
/-- … `c0` (referenced by `b0`) is reachable … -/
example : Reach exCAS dB dC :=
  .step (m := ⟨[⟨[97], raw dC⟩], [⟨[121], raw f2, false⟩], []⟩) (e := ⟨[97], raw dC⟩) (by decide) (by simp)
    (by decide) (.refl dC)
/-- … a failing `Mkdir` of `again/`, a failing storage read of `c0` or of the file make it an error … -/
example : (NaiveDir.merge exCAS ⟨[], [(.mkdir, [[97]])], []⟩ 3 dB []).2 = .error (some .fs) := by decide
example : (NaiveDir.merge exCAS ⟨[dC], [], []⟩ 3 dB []).2 = .error (some (.decode .unavailable)) := by decide
example : (NaiveDir.merge exCAS ⟨[f2], [], []⟩ 3 dB []).2 = .error none := by decide
/-- … and the root `a0`, which references the malformed `dd` (file and symlink both called "y"), fails. -/
example : (NaiveDir.merge exCAS ⟨[], [], []⟩ 3 dA []).2 = .error none := by decide
/-- `c0` (the empty directory) is complete in `exCAS`, which is acyclic (`exCAS_acyclic`). -/
example : Complete exCAS dC := by
  intro d' hr
  cases hr with
  | refl => exact ⟨⟨[], [], []⟩, by decide, ⟨by simp [entryNames], by simp [entryNames], by simp, by simp, by simp⟩, by simp⟩
  | step hm he _ _ =>
    have : assoc exCAS.dirs dC = some (some ⟨[], [], []⟩) := by decide
    rw [this] at hm
    simp only [Option.some.injEq] at hm
    subst hm
    simp at he
/-- Paths that part ways. -/
example : Diverge [[98], [117]] [[98], [111], [120]] := .tail _ (.head _ _ (by decide))

end BbRe.Properties.C17Naive
