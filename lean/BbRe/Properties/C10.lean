import BbRe.Model.Outputs
import BbRe.Lemmas.OutputsPath
/-!
# C10 — reported outputs are exactly what the action produced

Property theorems about `Model/Outputs.lean`, the transcription of
`pkg/builder/output_hierarchy.go`.  Reference notions used in the statements
(defined in `BbRe/Lemmas/Outputs*.lean`):

* `splitSlash p` — the byte string `p` split at every `/`;
* `evalComps loc comps` — apply components to a location inside the input root:
  `""` and `.` stay, `..` removes the last name and is undefined at the root,
  anything else is appended;
-/
namespace BbRe.Properties.C10
open BbRe.Outputs BbRe.Lemmas.Outputs

/-- Acceptable syntax of a working directory / output path: NUL free and not absolute. -/
def Relative (p : Str) : Prop := 0 ∉ p ∧ p.head? ≠ some 47

/-! ## normalise -/

/-- `path.Resolve` over `outputNodePath` succeeds with `cs` iff the path is relative, NUL free, its
component-wise evaluation from `start` never goes above the root, and `cs` is that evaluation. -/
theorem normalise (start : List Name) (p : Str) (cs : List Name) :
    resolveRel start p = .ok cs ↔ Relative p ∧ evalComps start (splitSlash p) = some cs := by
  unfold resolveRel Relative
  rw [walkSteps_parseRel]
  by_cases h0 : 0 ∈ p
  · simp [h0]
  · by_cases ha : p.head? = some 47
    · simp [h0, ha]
    · simp only [h0, ha, ↓reduceIte, not_false_eq_true, true_and, ne_eq]
      cases evalComps start (splitSlash p) <;> simp

/-- …otherwise it is an error (INVALID_ARGUMENT in the Go code). -/
theorem normalise_error (start : List Name) (p : Str) :
    (∃ e, resolveRel start p = .error e) ↔ ¬ Relative p ∨ evalComps start (splitSlash p) = none := by
  unfold resolveRel Relative
  rw [walkSteps_parseRel]
  by_cases h0 : 0 ∈ p
  · simp [h0]
  · by_cases ha : p.head? = some 47
    · simp [h0, ha]
    · cases evalComps start (splitSlash p) <;> simp [h0, ha]

/-- `lookup(workingDirectory, p)`: resolving `p` from the resolved working directory is the
component-wise evaluation of the string `wd ++ "/" ++ p` from the root. -/
theorem normalise_join (w p : Str) (wd cs : List Name) (hw : resolveRel [] w = .ok wd) :
    resolveRel wd p = .ok cs ↔ Relative p ∧ evalComps [] (splitSlash (w ++ 47 :: p)) = some cs := by
  rw [normalise, splitSlash_join, evalComps_append]
  rw [normalise] at hw
  simp [hw.2]

example : resolveRel [[97]] [46, 46, 47, 98, 47, 47, 46, 47, 99, 47] = .ok [[98], [99]] := by rfl
example : resolveRel [[97]] [46, 46, 47, 46, 46] = .error .escapes := by rfl
example : resolveRel [] [47, 97] = .error .absolute := by rfl
example : resolveRel [] [97, 0] = .error .nul := by rfl

theorem registerAll_ok_iff (wd : List Name) (h : Hierarchy) (ps : List Str) :
    (∃ h', registerAll wd h ps = .ok h') ↔ ∀ p ∈ ps, ∃ cs, resolveRel wd p = .ok cs := by
  induction ps generalizing h with
  | nil => simp [registerAll]
  | cons p ps ih =>
    simp only [registerAll, Hierarchy.register, List.mem_cons, forall_eq_or_imp]
    cases hr : resolveRel wd p with
    | error e => simp
    | ok cs =>
      simp only [Except.ok.injEq, exists_eq', true_and]
      cases splitLast cs with
      | none => exact ih _
      | some il => exact ih _

/-- `NewOutputHierarchy` returns a hierarchy iff the working directory and every output path stay
inside the input root; otherwise it returns an error and no hierarchy (no output node) at all. -/
theorem rejected_or_all_inside (w : Str) (ps : List Str) (up : Bool) :
    (∃ h, newHierarchy w ps up = .ok h) ↔
      ∃ wd, resolveRel [] w = .ok wd ∧ ∀ p ∈ ps, ∃ cs, resolveRel wd p = .ok cs := by
  unfold newHierarchy
  cases hw : resolveRel [] w with
  | error e => simp
  | ok wd => simp [registerAll_ok_iff]

end BbRe.Properties.C10
