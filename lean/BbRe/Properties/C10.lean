import BbRe.Model.Outputs
import BbRe.Lemmas.OutputsPath
import BbRe.Lemmas.OutputsListing
import BbRe.Lemmas.OutputsTree
import BbRe.Lemmas.OutputsErrors
import BbRe.Lemmas.OutputsParents
import BbRe.Lemmas.OutputsDecode
/-!
# C10 — reported outputs are exactly what the action produced

Property theorems about `Model/Outputs.lean`, the transcription of
`pkg/builder/output_hierarchy.go`.  Reference notions used in the statements
(defined in `BbRe/Lemmas/Outputs*.lean`):

* `splitSlash p` — the byte string `p` split at every `/`;
* `evalComps loc comps` — apply components to a location inside the input root:
  `""` and `.` stay, `..` removes the last name and is undefined at the root,
  anything else is appended;
* `walkN loc root` — what `lstat` finds at location `loc` below `root` (symlinks are not
  followed; `none` = missing or a parent is not a directory); `locate wd root s` — the same
  for the declared string `s` resolved against the working directory `wd`;
* `atLoc env up s found` — the entries one declared string `s` must contribute, given what
  was found at its location (a regular file: one `OutputFile` with the file's content id and
  executable bit, unless the CAS write fails; a symlink: one `OutputSymlink` with the
  normalised target; a directory: one `OutputDirectory` with the Tree of that directory,
  unless a CAS write fails; a special file: an error; nothing: nothing);
* `parentBlocked wd root s` — a parent location of `s` exists but is not a directory;
* `encodeDir env d` — the `Directory` message of directory `d` as a pure function (children are
  referenced by their own message = their digest); `m.kids` — the digests a message references;
  `fileOf` / `dirOf` / `symlinkOf` — the `FileNode` / `DirectoryNode` / `SymlinkNode` of one
  directory entry; `cleanDir env d` — no unreadable directory and no file whose CAS write fails
  anywhere below `d`;
* `DirAt q root` — location `q` below `root` is a directory; `SameShape x x'` — a directory stayed
  a directory, anything else stayed exactly what it was; `q <+: l` — `q` is a prefix of `l`;
* `decodeMsg m` — the directory a `Directory` message describes (following the references);
  `canonNode d` — what REv2 can express about `d`: regular files, then subdirectories
  (recursively), then symlinks with normalised targets, special files left out.
-/
namespace BbRe.Properties.C10
open BbRe.Outputs BbRe.Lemmas.Outputs

/-- Acceptable syntax of a working directory / output path: NUL free and not absolute. -/
def Relative (p : Str) : Prop := 0 ∉ p ∧ p.head? ≠ some 47

/-! ## normalise -/

/-- `path.Resolve` over `outputNodePath` succeeds with `cs` iff the path is relative, NUL free, its
component-wise evaluation from `start` never goes above the root, and `cs` is that evaluation. -/
theorem normalise (start : List Name) (p : Str) (cs : List Name) :
    resolveRel start p = .ok cs ↔ Relative p ∧ evalComps start (splitSlash p) = some cs := by
  unfold resolveRel Relative
  rw [walkSteps_parseRel]
  by_cases h0 : 0 ∈ p
  · simp [h0]
  · by_cases ha : p.head? = some 47
    · simp [h0, ha]
    · simp only [h0, ha, ↓reduceIte, not_false_eq_true, true_and, ne_eq]
      cases evalComps start (splitSlash p) <;> simp

/-- …otherwise it is an error (INVALID_ARGUMENT in the Go code). -/
theorem normalise_error (start : List Name) (p : Str) :
    (∃ e, resolveRel start p = .error e) ↔ ¬ Relative p ∨ evalComps start (splitSlash p) = none := by
  unfold resolveRel Relative
  rw [walkSteps_parseRel]
  by_cases h0 : 0 ∈ p
  · simp [h0]
  · by_cases ha : p.head? = some 47
    · simp [h0, ha]
    · cases evalComps start (splitSlash p) <;> simp [h0, ha]

/-- `lookup(workingDirectory, p)`: resolving `p` from the resolved working directory is the
component-wise evaluation of the string `wd ++ "/" ++ p` from the root. -/
theorem normalise_join (w p : Str) (wd cs : List Name) (hw : resolveRel [] w = .ok wd) :
    resolveRel wd p = .ok cs ↔ Relative p ∧ evalComps [] (splitSlash (w ++ 47 :: p)) = some cs := by
  rw [normalise, splitSlash_join, evalComps_append]
  rw [normalise] at hw
  simp [hw.2]

example : resolveRel [[97]] [46, 46, 47, 98, 47, 47, 46, 47, 99, 47] = .ok [[98], [99]] := by rfl
example : resolveRel [[97]] [46, 46, 47, 46, 46] = .error .escapes := by rfl
example : resolveRel [] [47, 97] = .error .absolute := by rfl
example : resolveRel [] [97, 0] = .error .nul := by rfl

/-- `NewOutputHierarchy` returns a hierarchy iff the working directory and every output path stay
inside the input root; otherwise it returns an error and no hierarchy (no output node) at all. -/
theorem rejected_or_all_inside (w : Str) (ps : List Str) (up : Bool) :
    (∃ h, newHierarchy w ps up = .ok h) ↔
      ∃ wd, resolveRel [] w = .ok wd ∧ ∀ p ∈ ps, ∃ cs, resolveRel wd p = .ok cs := by
  unfold newHierarchy
  cases hw : resolveRel [] w with
  | error e => simp
  | ok wd => simp [registerAll_ok_iff]

/-! ## parents_created -/

/-- **Parent directories.**  Let the input root have no non-directory at a location that must
become a parent directory of a declared output (then every `Mkdir` succeeds or reports EEXIST on a
directory).  After `CreateParentDirectories`, for every declared output path, every proper prefix
of its normalised location is a directory; everything that existed is unchanged (directories
stay directories, files/symlinks/special files are identical); and nothing else was created: every
new location is a proper, non-empty prefix of a declared location. -/
theorem parents_created (w : Str) (ps : List Str) (up : Bool) (hy : Hierarchy) (r : Bool) (es : Entries)
    (hh : newHierarchy w ps up = .ok hy)
    (hnc : ∀ wd, resolveRel [] w = .ok wd → ∀ s ∈ ps, ∀ loc, resolveRel wd s = .ok loc →
      ∀ q, q ≠ [] → q <+: loc.dropLast → ∀ x, walkN q (.dir r es) = some x → isDir x = true) :
    ∃ wd es', resolveRel [] w = .ok wd ∧
      hy.createParentDirectories (.dir r es) = .ok (.dir r es') ∧
      (∀ s ∈ ps, ∀ loc, resolveRel wd s = .ok loc → ∀ q, q <+: loc.dropLast → DirAt q (.dir r es')) ∧
      (∀ q x, walkN q (.dir r es) = some x → ∃ x', walkN q (.dir r es') = some x' ∧ SameShape x x') ∧
      (∀ q, walkN q (.dir r es') ≠ none → walkN q (.dir r es) ≠ none ∨
        ∃ s ∈ ps, ∃ loc, resolveRel wd s = .ok loc ∧ q ≠ [] ∧ q <+: loc.dropLast) := by
  unfold newHierarchy at hh
  cases hw : resolveRel [] w with
  | error e => simp [hw] at hh
  | ok wd =>
    simp only [hw] at hh
    have hpre := prefixes_registerAll wd _ hy ps hh
    simp only [prefixesN_empty, List.not_mem_nil, false_or] at hpre
    have hconf : NoConflict (prefixesN hy.root) es := by
      intro q hq x r' hwalk
      obtain ⟨s, hs, loc, hloc, hne, hpfx⟩ := (hpre q).1 hq
      have : walkN q (.dir r es) = some x := by
        cases q with
        | nil => exact absurd rfl hne
        | cons c q' => rw [walkN_cons] at hwalk ⊢; exact hwalk
      exact hnc wd hw s hs loc hloc q hne hpfx x this
    obtain ⟨es', hmk, hgood⟩ := cn_all hy.root es hconf
    refine ⟨wd, es', rfl, ?_, ?_, ?_, ?_⟩
    · simp [Hierarchy.createParentDirectories, hmk]
    · intro s hs loc hloc q hpfx
      cases q with
      | nil => exact ⟨r, es', rfl⟩
      | cons c q' => exact hgood.made _ ((hpre _).2 ⟨s, hs, loc, hloc, by simp, hpfx⟩) r
    · intro q x hwalk
      exact hgood.kept q x r hwalk
    · intro q hwalk
      rcases hgood.only q r hwalk with h | h
      · exact Or.inl h
      · exact Or.inr ((hpre q).1 h)

/-- The hypothesis of `parents_created` is satisfiable and the conclusion non-trivial: with output
`a/b/c` declared from working directory `.` and an input root that only holds a file `x`, the
directories `a` and `a/b` are created and `x` is kept. -/
example :
    (newHierarchy [] [[97, 47, 98, 47, 99]] false).toOption.bind
      (fun hy => (hy.createParentDirectories (.dir true [([120], .file false 1)])).toOption.map
        (fun n => (walkN [[97], [98]] n).isSome && (walkN [[97], [98], [99]] n).isNone &&
          (walkN [[120]] n).isSome)) = some true := by
  rfl

/-! ## exact_listing -/

/-- **Exact listing** (for every CAS fault predicate `env`, hence in particular fault free).
For a hierarchy built from working directory `w` and output paths `ps`, the `ActionResult`
produced by `UploadOutputs` on any directory tree is, up to order, the concatenation over the
*declared strings* of what each string alone must contribute (`atLoc` of what lstat finds at
its normalised location): duplicates and aliases each get their own entry under their own
string, missing locations contribute nothing; and no error is saved iff no declared location
is special / fails to upload and no parent location is a non-directory. -/
theorem exact_listing (env : Env) (force : Bool) (w : Str) (ps : List Str) (up : Bool) (hy : Hierarchy)
    (r : Bool) (es : Entries) (hh : newHierarchy w ps up = .ok hy) :
    ∃ wd, resolveRel [] w = .ok wd ∧
      (hy.uploadOutputs env force (.dir r es)).files.Perm
        (ps.flatMap fun s => (atLoc env (up || force) s (locate wd (.dir r es) s)).files) ∧
      (hy.uploadOutputs env force (.dir r es)).dirs.Perm
        (ps.flatMap fun s => (atLoc env (up || force) s (locate wd (.dir r es) s)).dirs) ∧
      (hy.uploadOutputs env force (.dir r es)).symlinks.Perm
        (ps.flatMap fun s => (atLoc env (up || force) s (locate wd (.dir r es) s)).symlinks) ∧
      ((hy.uploadOutputs env force (.dir r es)).errs = [] ↔
        ∀ s ∈ ps, parentBlocked wd (.dir r es) s = false ∧
          (atLoc env (up || force) s (locate wd (.dir r es) s)).errs = []) := by
  unfold newHierarchy at hh
  cases hw : resolveRel [] w with
  | error e => simp [hw] at hh
  | ok wd =>
    simp only [hw] at hh
    refine ⟨wd, rfl, ?_⟩
    obtain ⟨_, ha⟩ := uploadOutputs_registerAll env force wd _ hy ps r es hh
    rw [emptyHierarchy_upload] at ha
    have hf := ha.files
    have hd := ha.dirs
    have hs := ha.symlinks
    have he := ha.errs
    simp only [List.nil_append,
      true_and, sumRes_files, sumRes_dirs, sumRes_symlinks, sumRes_errs_nil, List.flatMap_map,
      List.mem_map, forall_exists_index, and_imp, forall_apply_eq_imp_iff₂] at hf hd hs he
    refine ⟨?_, ?_, ?_, ?_⟩
    · refine hf.trans (List.Perm.of_eq ?_)
      exact flatMap_congr' _ _ _ (fun s _ => (specOne_lists env _ wd r es s).1)
    · refine hd.trans (List.Perm.of_eq ?_)
      exact flatMap_congr' _ _ _ (fun s _ => (specOne_lists env _ wd r es s).2.1)
    · refine hs.trans (List.Perm.of_eq ?_)
      exact flatMap_congr' _ _ _ (fun s _ => (specOne_lists env _ wd r es s).2.2.1)
    · rw [he]
      exact forall_congr' fun s => imp_congr_right fun _ => (specOne_lists env _ wd r es s).2.2.2

/-- An `OutputFile` with path string `s` is listed iff `s` is a declared path whose normalised
location is a regular file with that content id and executable bit (and the CAS accepted it). -/
theorem listed_file_iff (env : Env) (force : Bool) (w : Str) (ps : List Str) (up : Bool) (hy : Hierarchy)
    (r : Bool) (es : Entries) (hh : newHierarchy w ps up = .ok hy) (s : Str) (c : Nat) (x : Bool) :
    ∃ wd, resolveRel [] w = .ok wd ∧
      ((s, c, x) ∈ (hy.uploadOutputs env force (.dir r es)).files ↔
        s ∈ ps ∧ locate wd (.dir r es) s = some (.file x c) ∧ env.putFails (.file c) = false) := by
  obtain ⟨wd, hw, hf, -, -, -⟩ := exact_listing env force w ps up hy r es hh
  refine ⟨wd, hw, ?_⟩
  rw [hf.mem_iff, List.mem_flatMap]
  constructor
  · rintro ⟨s', hs', hm⟩
    rw [atLoc_files] at hm
    split at hm
    · rename_i x' c' hloc
      split at hm
      · simp at hm
      · rename_i hput
        simp only [List.mem_singleton, Prod.mk.injEq] at hm
        obtain ⟨rfl, rfl, rfl⟩ := hm
        exact ⟨hs', hloc, by simpa using hput⟩
    · simp at hm
  · rintro ⟨hs, hloc, hput⟩
    exact ⟨s, hs, by rw [atLoc_files, hloc]; simp [hput]⟩

/-- Duplicates: a declared string whose location is an (uploadable) regular file is listed exactly
as many times as it was declared. -/
theorem listed_file_count (env : Env) (force : Bool) (w : Str) (ps : List Str) (up : Bool) (hy : Hierarchy)
    (r : Bool) (es : Entries) (hh : newHierarchy w ps up = .ok hy) (s : Str) (c : Nat) (x : Bool) :
    ∃ wd, resolveRel [] w = .ok wd ∧
      (locate wd (.dir r es) s = some (.file x c) → env.putFails (.file c) = false →
        (hy.uploadOutputs env force (.dir r es)).files.count (s, c, x) = ps.count s) := by
  obtain ⟨wd, hw, hf, -, -, -⟩ := exact_listing env force w ps up hy r es hh
  refine ⟨wd, hw, fun hloc hput => ?_⟩
  rw [hf.count_eq]
  refine count_flatMap_single ps
    (fun s => (atLoc env (up || force) s (locate wd (.dir r es) s)).files) s (s, c, x)
    (by simp only [atLoc_files, hloc]; simp [hput]) ?_
  intro s' _ hne hm
  rw [atLoc_files] at hm
  split at hm
  · split at hm
    · simp at hm
    · simp only [List.mem_singleton, Prod.mk.injEq] at hm
      exact hne hm.1.symm
  · simp at hm

/-- An `OutputSymlink` with path string `s` is listed iff `s` is a declared path whose normalised
location is a symlink (that could be read); the reported target is the link's (normalised) target. -/
theorem listed_symlink_iff (env : Env) (force : Bool) (w : Str) (ps : List Str) (up : Bool) (hy : Hierarchy)
    (r : Bool) (es : Entries) (hh : newHierarchy w ps up = .ok hy) (s t' : Str) :
    ∃ wd, resolveRel [] w = .ok wd ∧
      ((s, t') ∈ (hy.uploadOutputs env force (.dir r es)).symlinks ↔
        s ∈ ps ∧ ∃ t, locate wd (.dir r es) s = some (.symlink t) ∧ t' = normTarget t ∧
          env.readlinkFails t = false) := by
  obtain ⟨wd, hw, -, -, hs, -⟩ := exact_listing env force w ps up hy r es hh
  refine ⟨wd, hw, ?_⟩
  rw [hs.mem_iff, List.mem_flatMap]
  constructor
  · rintro ⟨s', hs', hm⟩
    rw [atLoc_symlinks] at hm
    split at hm
    · rename_i t hloc
      split at hm
      · simp at hm
      · rename_i hrl
        simp only [List.mem_singleton, Prod.mk.injEq] at hm
        obtain ⟨rfl, rfl⟩ := hm
        exact ⟨hs', t, hloc, rfl, by simpa using hrl⟩
    · simp at hm
  · rintro ⟨hs, t, hloc, rfl, hrl⟩
    exact ⟨s, hs, by rw [atLoc_symlinks, hloc]; simp [hrl]⟩

/-- An `OutputDirectory` with path string `s` is listed iff `s` is a declared path whose normalised
location is a directory `d`, and the entry is the one `uploadOutputDirectoryEntered` produces for
`d` (its Tree is described by `tree_wellformed` below). -/
theorem listed_dir_iff (env : Env) (force : Bool) (w : Str) (ps : List Str) (up : Bool) (hy : Hierarchy)
    (r : Bool) (es : Entries) (hh : newHierarchy w ps up = .ok hy)
    (e : Str × List DirMsg × Option DirMsg) :
    ∃ wd, resolveRel [] w = .ok wd ∧
      (e ∈ (hy.uploadOutputs env force (.dir r es)).dirs ↔
        e.1 ∈ ps ∧ ∃ r' es', locate wd (.dir r es) e.1 = some (.dir r' es') ∧
          e ∈ (uploadOutputDirectoryEntered env (up || force) (.dir r' es') [e.1]).dirs) := by
  obtain ⟨wd, hw, -, hd, -, -⟩ := exact_listing env force w ps up hy r es hh
  refine ⟨wd, hw, ?_⟩
  rw [hd.mem_iff, List.mem_flatMap]
  constructor
  · rintro ⟨s', hs', hm⟩
    rw [atLoc_dirs] at hm
    split at hm
    · rename_i r' es' hloc
      have := uode_dirs_path env _ _ _ e hm
      simp only [List.mem_singleton] at this
      subst this
      exact ⟨hs', r', es', hloc, hm⟩
    · simp at hm
  · rintro ⟨hs, r', es', hloc, hm⟩
    exact ⟨e.1, hs, by rw [atLoc_dirs, hloc]; exact hm⟩

/-- A declared path whose location is missing (or lies below a non-directory) is listed nowhere. -/
theorem missing_lists_nothing (env : Env) (force : Bool) (w : Str) (ps : List Str) (up : Bool) (hy : Hierarchy)
    (r : Bool) (es : Entries) (hh : newHierarchy w ps up = .ok hy) (s : Str) :
    ∃ wd, resolveRel [] w = .ok wd ∧
      (locate wd (.dir r es) s = none →
        (∀ e ∈ (hy.uploadOutputs env force (.dir r es)).files, e.1 ≠ s) ∧
        (∀ e ∈ (hy.uploadOutputs env force (.dir r es)).symlinks, e.1 ≠ s) ∧
        (∀ e ∈ (hy.uploadOutputs env force (.dir r es)).dirs, e.1 ≠ s)) := by
  obtain ⟨wd, hw⟩ := (rejected_or_all_inside w ps up).1 ⟨hy, hh⟩
  refine ⟨wd, hw.1, fun hnone => ⟨?_, ?_, ?_⟩⟩
  · rintro ⟨s', c, x⟩ he rfl
    obtain ⟨wd', hw', h⟩ := listed_file_iff env force w ps up hy r es hh s' c x
    have : wd' = wd := by rw [hw.1] at hw'; exact (Except.ok.inj hw').symm
    subst this
    simp [hnone] at h
    exact h he
  · rintro ⟨s', t⟩ he rfl
    obtain ⟨wd', hw', h⟩ := listed_symlink_iff env force w ps up hy r es hh s' t
    have : wd' = wd := by rw [hw.1] at hw'; exact (Except.ok.inj hw').symm
    subst this
    simp [hnone] at h
    exact h he
  · rintro e he rfl
    obtain ⟨wd', hw', h⟩ := listed_dir_iff env force w ps up hy r es hh e
    have : wd' = wd := by rw [hw.1] at hw'; exact (Except.ok.inj hw').symm
    subst this
    simp [hnone] at h
    exact h he

/-- A special file (FIFO, socket, device) at a declared location is an error, never an entry. -/
theorem special_is_error (env : Env) (force : Bool) (w : Str) (ps : List Str) (up : Bool) (hy : Hierarchy)
    (r : Bool) (es : Entries) (hh : newHierarchy w ps up = .ok hy) (s : Str) (hs : s ∈ ps) :
    ∃ wd, resolveRel [] w = .ok wd ∧
      (locate wd (.dir r es) s = some .special →
        (hy.uploadOutputs env force (.dir r es)).errs ≠ []) := by
  obtain ⟨wd, hw, -, -, -, he⟩ := exact_listing env force w ps up hy r es hh
  refine ⟨wd, hw, fun hloc hnil => ?_⟩
  have := (he.1 hnil s hs).2
  rw [hloc] at this
  simp [atLoc] at this

/-! ## tree_wellformed -/

/-- **Well-formed Tree.**  Every `OutputDirectory` entry produced for a directory `d` (any tree:
any depth, width, repeated identical subdirectories; any CAS fault predicate) carries a Tree
`root :: children` such that: `root` is the message of `d`; no directory occurs twice
(identical subdirectories appear once); every digest referenced by a listed directory occurs
in the list - exactly once - and strictly *after* the directory referencing it (parents before
children, as `is_topologically_sorted` announces); the root digest is reported iff Directory
messages were requested; and the Tree (and, if requested, every Directory) was stored. -/
theorem tree_wellformed (env : Env) (up : Bool) (d : Node) (ps : List Str)
    (e : Str × List DirMsg × Option DirMsg)
    (h : e ∈ (uploadOutputDirectoryEntered env up d ps).dirs) :
    ∃ root children, e.2.1 = root :: children ∧ encodeDir env d = some root ∧
      e.2.1.Nodup ∧
      (∀ a m b, e.2.1 = a ++ m :: b → ∀ k ∈ m.kids, k ∈ b) ∧
      (∀ m ∈ e.2.1, ∀ k ∈ m.kids, e.2.1.count k = 1) ∧
      e.2.2 = (if up then some root else none) ∧
      env.putFails (.tree e.2.1) = false ∧
      (up = true → ∀ m ∈ e.2.1, env.putFails (.dirmsg m) = false) := by
  unfold uploadOutputDirectoryEntered at h
  cases hu : d.uploadDirectory env {} with
  | mk ro st =>
    rw [hu] at h
    cases ro with
    | none => simp at h
    | some root =>
      obtain ⟨henc, ⟨rest, hrev⟩, hnd, htopo, -⟩ := fresh_upload env d root st hu
      simp only at h
      split at h
      · rename_i hok
        simp only [List.mem_map] at h
        obtain ⟨p, -, rfl⟩ := h
        simp only [Bool.and_eq_true, Bool.not_eq_eq_eq_not, Bool.not_true, Bool.or_eq_true,
          List.all_eq_true] at hok
        have hnd' : st.dirs.reverse.Nodup := nodup_reverse' hnd
        have hafter : ∀ a m b, st.dirs.reverse = a ++ m :: b → ∀ k ∈ m.kids, k ∈ b := by
          intro a m b hsplit k hk
          have : st.dirs = b.reverse ++ m :: a.reverse := by
            have := congrArg List.reverse hsplit
            simpa using this
          have := htopo _ m _ this k hk
          simpa using this
        refine ⟨root, rest, hrev, henc, hnd', hafter, ?_, rfl, hok.1, ?_⟩
        · intro m hm k hk
          have hm' : m ∈ st.dirs.reverse := hm
          obtain ⟨a, b, hsplit⟩ := List.append_of_mem hm'
          have hkb := hafter a m b hsplit k hk
          have hkin : k ∈ st.dirs.reverse := by rw [hsplit]; simp [hkb]
          show st.dirs.reverse.count k = 1
          rw [hnd'.count]
          simp [hkin]
        · intro hup m hm
          rcases hok.2 with h1 | h2
          · simp [hup] at h1
          · exact h2 m (by simpa using hm)
      · simp at h

/-- **The root (and, recursively, every child) describes the directory exactly**: its `files`,
`directories` and `symlinks` are the directory's regular files (content id, executable bit),
subdirectories (referenced by the digest of *their* message) and symlinks (normalised target), in
`ReadDir` order; special files are left out (REv2 cannot express them).  Fault free
(`fileOf noFaults`, `symlinkOf noFaults`, all directories listable) nothing is missing; under faults
only entries whose upload / `Readlink` / listing failed are - and then an error is saved
(`errors_do_not_lie`, which covers entries at any depth below a declared output directory). -/
theorem tree_root_exact (env : Env) (es : Entries) (m : DirMsg)
    (h : encodeDir env (.dir true es) = some m) :
    m.files = es.filterMap (fileOf env) ∧ m.dirs = es.filterMap (dirOf env) ∧
      m.symlinks = es.filterMap (symlinkOf env) := by
  rw [encodeDir] at h
  simp only [↓reduceIte, Option.some.injEq] at h
  subst h
  simpa [DirMsg.files, DirMsg.dirs, DirMsg.symlinks] using encodeEntries_lists env es (.mk [] [] [])

/-- **Decoding reproduces the tree**: for every directory tree (all directories readable, CAS
fault-free) the root message exists and decoding it - following the child references, which by
`tree_wellformed` are all present in the Tree - yields the directory itself (in the canonical
form `canonNode`). -/
theorem tree_decodes (d : Node) (h : cleanDir noFaults d = true) :
    ∃ m, encodeDir noFaults d = some m ∧ decodeMsg m = canonNode d :=
  pdecode_all d h

example : cleanDir noFaults (.dir true [([97], .dir true [([98], .file true 3)]), ([99], .special)]) = true := rfl

example : fileOf noFaults ([97], .file true 5) = some ([97], 5, true) := rfl
example : dirOf noFaults ([97], .dir true [([98], .special)]) = some ([97], .mk [] [] []) := rfl

/-- An output directory is listed (once per declared string) whenever its Tree could be stored. -/
theorem directory_listed (env : Env) (up : Bool) (r : Bool) (es : Entries) (s : Str) (root : DirMsg)
    (st : UpState) (hu : (Node.dir r es).uploadDirectory env {} = (some root, st))
    (htree : env.putFails (.tree st.dirs.reverse) = false)
    (hdirs : up = true → ∀ m ∈ st.dirs, env.putFails (.dirmsg m) = false) :
    (uploadOutputDirectoryEntered env up (.dir r es) [s]).dirs =
      [(s, st.dirs.reverse, if up then some root else none)] := by
  unfold uploadOutputDirectoryEntered
  rw [hu]
  simp only [htree, Bool.not_false, Bool.true_and, List.map_cons, List.map_nil]
  split
  · rfl
  · rename_i hno
    exfalso
    apply hno
    cases up with
    | false => simp
    | true => simpa using hdirs rfl

/-! ## errors_do_not_lie -/

/-- **Errors do not lie.**  For every CAS fault predicate and every set of unreadable directories:
if `UploadOutputs` saves no error (`firstError == nil`), then its `ActionResult` entries are, up to
order, exactly the entries of the fault-free run (`noFaults`) on the same tree - nothing was
dropped silently - and the fault-free run has no error either.  Contrapositive: whenever a fault
(failed CAS write of a file, Directory or Tree; failed `ReadDir`) makes an entry or part of a Tree
disappear, the error is set. -/
theorem errors_do_not_lie (env : Env) (force : Bool) (w : Str) (ps : List Str) (up : Bool) (hy : Hierarchy)
    (r : Bool) (es : Entries) (hh : newHierarchy w ps up = .ok hy)
    (hnil : (hy.uploadOutputs env force (.dir r es)).errs = []) :
    (hy.uploadOutputs env force (.dir r es)).files.Perm (hy.uploadOutputs noFaults force (.dir r es)).files ∧
    (hy.uploadOutputs env force (.dir r es)).dirs.Perm (hy.uploadOutputs noFaults force (.dir r es)).dirs ∧
    (hy.uploadOutputs env force (.dir r es)).symlinks.Perm
      (hy.uploadOutputs noFaults force (.dir r es)).symlinks ∧
    (hy.uploadOutputs noFaults force (.dir r es)).errs = [] := by
  obtain ⟨wd, hw, hf, hd, hs, he⟩ := exact_listing env force w ps up hy r es hh
  obtain ⟨wd0, hw0, hf0, hd0, hs0, he0⟩ := exact_listing noFaults force w ps up hy r es hh
  have : wd0 = wd := by rw [hw] at hw0; exact (Except.ok.inj hw0).symm
  subst this
  have hall := he.1 hnil
  have heq : ∀ s ∈ ps, atLoc env (up || force) s (locate wd0 (.dir r es) s) =
      atLoc noFaults (up || force) s (locate wd0 (.dir r es) s) :=
    fun s hs' => atLoc_clean_eq env _ s _ (hall s hs').2
  refine ⟨?_, ?_, ?_, ?_⟩
  · refine hf.trans (List.Perm.trans (List.Perm.of_eq ?_) hf0.symm)
    exact flatMap_congr' _ _ _ (fun s hs' => by rw [heq s hs'])
  · refine hd.trans (List.Perm.trans (List.Perm.of_eq ?_) hd0.symm)
    exact flatMap_congr' _ _ _ (fun s hs' => by rw [heq s hs'])
  · refine hs.trans (List.Perm.trans (List.Perm.of_eq ?_) hs0.symm)
    exact flatMap_congr' _ _ _ (fun s hs' => by rw [heq s hs'])
  · rw [he0]
    intro s hs'
    exact ⟨(hall s hs').1, by rw [← heq s hs']; exact (hall s hs').2⟩

/-- Under faults every listed file and symlink entry is still an entry of the fault-free run
(listed entries are correct; faults only remove entries - and then `errors_do_not_lie` applies). -/
theorem faulty_entries_sound (env : Env) (force : Bool) (w : Str) (ps : List Str) (up : Bool) (hy : Hierarchy)
    (r : Bool) (es : Entries) (hh : newHierarchy w ps up = .ok hy) :
    (∀ e ∈ (hy.uploadOutputs env force (.dir r es)).files,
      e ∈ (hy.uploadOutputs noFaults force (.dir r es)).files) ∧
    (∀ e ∈ (hy.uploadOutputs env force (.dir r es)).symlinks,
      e ∈ (hy.uploadOutputs noFaults force (.dir r es)).symlinks) := by
  constructor
  · rintro ⟨s, c, x⟩ he
    obtain ⟨wd, hw, h1⟩ := listed_file_iff env force w ps up hy r es hh s c x
    obtain ⟨wd0, hw0, h0⟩ := listed_file_iff noFaults force w ps up hy r es hh s c x
    have : wd0 = wd := by rw [hw] at hw0; exact (Except.ok.inj hw0).symm
    subst this
    have := h1.1 he
    exact h0.2 ⟨this.1, this.2.1, rfl⟩
  · rintro ⟨s, t⟩ he
    obtain ⟨wd, hw, h1⟩ := listed_symlink_iff env force w ps up hy r es hh s t
    obtain ⟨wd0, hw0, h0⟩ := listed_symlink_iff noFaults force w ps up hy r es hh s t
    have : wd0 = wd := by rw [hw] at hw0; exact (Except.ok.inj hw0).symm
    subst this
    obtain ⟨h2, t', h3, h4, -⟩ := h1.1 he
    exact h0.2 ⟨h2, t', h3, h4, rfl⟩

/-- The fault-free run saves an error only for a reason visible in the tree: a special file at a
declared location, a non-directory where a parent directory has to be, or (not a fault of the CAS)
nothing else. -/
theorem fault_free_error_iff (force : Bool) (w : Str) (ps : List Str) (up : Bool) (hy : Hierarchy)
    (es : Entries) (hh : newHierarchy w ps up = .ok hy)
    (hread : ∀ s ∈ ps, ∀ wd, resolveRel [] w = .ok wd → ∀ r' es', locate wd (.dir true es) s = some (.dir r' es') →
      cleanDir noFaults (.dir r' es') = true) :
    ∃ wd, resolveRel [] w = .ok wd ∧
      ((hy.uploadOutputs noFaults force (.dir true es)).errs = [] ↔
        ∀ s ∈ ps, parentBlocked wd (.dir true es) s = false ∧ locate wd (.dir true es) s ≠ some .special) := by
  obtain ⟨wd, hw, -, -, -, he⟩ := exact_listing noFaults force w ps up hy true es hh
  refine ⟨wd, hw, ?_⟩
  rw [he]
  refine forall_congr' fun s => imp_congr_right fun hs => and_congr_right fun _ => ?_
  cases hloc : locate wd (.dir true es) s with
  | none => simp [atLoc]
  | some n =>
    cases n with
    | dir r' es' =>
      have hc := hread s hs wd hw r' es' hloc
      simp only [atLoc, ne_eq, reduceCtorEq, not_false_eq_true, iff_true]
      have hu := (uploadDirectory_errs noFaults (.dir r' es')).2 hc
      unfold uploadOutputDirectoryEntered
      cases hres : Node.uploadDirectory noFaults (.dir r' es') {} with
      | mk ro st =>
        rw [hres] at hu
        cases ro with
        | none => simpa using hu
        | some root => simp at hu; simp [hu, noFaults]
    | file x c => simp [atLoc, noFaults]
    | symlink t => simp [atLoc]
    | special => simp [atLoc]

/-! ## non-vacuity: one concrete run that meets the hypotheses of the theorems above

Working directory `a`; declared `b`, `./b`, `c/../b` (three aliases of `a/b`), `b` again (a
duplicate), `../a/d/` (a directory with two identical subdirectories), `..` (the input root
itself), `x` (missing), `s` (a FIFO), `l` (a symlink with a non-normalised target). -/

def exWd : Str := [97]
def exPaths : List Str :=
  [[98], [46, 47, 98], [99, 47, 46, 46, 47, 98], [98], [46, 46, 47, 97, 47, 100, 47], [46, 46], [120], [115],
    [108]]
def exRoot : Node :=
  .dir true [([97], .dir true
    [([98], .file true 5),
     ([100], .dir true [([112], .dir true [([122], .dir true [])]), ([113], .dir true [([122], .dir true [])]),
       ([102], .file false 19)]),
     ([108], .symlink [120, 47, 47, 121, 47]),
     ([115], .special)])]

/-- CAS that rejects content id 19. -/
def exEnv : Env := { putFails := fun b => match b with | .file c => c == 19 | _ => false }

example : (newHierarchy exWd exPaths true).toOption.isSome = true := by rfl

/-- four `OutputFile`s (three aliases + one duplicate), one symlink with normalised target `x/y/`,
two output directories; the special file makes the result an error. -/
example :
    (newHierarchy exWd exPaths true).toOption.map (fun hy =>
      let res := hy.uploadOutputs noFaults false exRoot
      (res.files.map (·.1), res.symlinks, res.dirs.map (fun e => (e.1, e.2.1.length)), res.errs)) =
    some ([[98], [46, 47, 98], [99, 47, 46, 46, 47, 98], [98]], [([108], [120, 47, 121, 47])],
      [([46, 46], 5), ([46, 46, 47, 97, 47, 100, 47], 3)], [.invalidArgument]) := by rfl

/-- the Tree of `a/d` has 3 directories for 5 directories on disk: `p` and `q` (and their `z`) are
identical and appear once. -/
example :
    (uploadOutputDirectoryEntered noFaults true
      (.dir true [([112], .dir true [([122], .dir true [])]), ([113], .dir true [([122], .dir true [])])])
      [[100]]).dirs.map (fun e => (e.2.1.length, e.2.2.isSome)) = [(3, true)] := by rfl

/-- with the faulty CAS the file `a/d/f` is dropped from the Tree of `a/d` - and the error is set -/
example :
    (newHierarchy exWd [[100]] false).toOption.map (fun hy =>
      ((hy.uploadOutputs exEnv false exRoot).errs, (hy.uploadOutputs noFaults false exRoot).errs)) =
    some ([.put], []) := by rfl

end BbRe.Properties.C10
