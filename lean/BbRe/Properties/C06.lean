import BbRe.Lemmas.SchedLiveFuel
import BbRe.Lemmas.SchedLiveQuiesce6
import BbRe.Lemmas.SchedLiveDrain
/-!
# C06 — failures time out, wake everyone, and leak nothing

Theorems about `Model/Sched.lean` (transcription of
`pkg/scheduler/in_memory_build_queue.go`; tied to the code by the `sched`
differential harness) for every `Reachable` state: all points at which a
worker, client or operator call can be cancelled or abandoned, all clock
advances, all interleavings with normal traffic.

The cleanup heap is the bag `State.cleanup` of `(deadline, kind)` entries;
`enter` runs `runCleanup` (pop the earliest due entry, run its callback, repeat)
whenever time advanced.
-/
namespace BbRe.Properties.C06
open BbRe.Sched BbRe.Lemmas.SchedLive

/-! ## demo -/

def cfg : Cfg := ⟨10, 10, 30, 100, 5, 50, 3, 1000⟩
def h0 : Hints := ⟨[], 0, none, false⟩
def q : ScqId := ⟨1, 0⟩
def w : WId := ⟨1, 1⟩
/-- a worker creates queue `1/0` and goes idle (not blocking); a client's action is queued, then picked up by
the worker's next `Synchronize`; the client cancels; the worker never returns. -/
def demo : List Seg :=
  [.sync h0 1 q [] 7 w .idle true,
   .exec h0 2 1 55 55 false [] 7 [9] 0,
   .sync ⟨[(q, w, 1)], 0, none, false⟩ 3 q [] 7 w .idle false,
   .streamWake h0 4 1 2]
def sDemo : State := run (State.init cfg) demo
theorem demo_reachable : Reachable sDemo := reachable_run (Reachable.init cfg) demo

/-! ## (a) cleanup accounting -/

/-- **cleanup_accounting (workers).**  In every reachable state a worker is inside a `Synchronize` call and
has no cleanup entry, or is outside and has one armed; an armed worker entry belongs to an existing worker. -/
theorem cleanup_accounting_workers (s : State) (hs : Reachable s) :
    (∀ wk ∈ s.workers, (wk.inSync = true → ¬ hasK s (.worker wk.scq wk.id)) ∧
                        (wk.inSync = false → hasK s (.worker wk.scq wk.id))) ∧
    (∀ qq ww, hasK s (.worker qq ww) → ∃ wk ∈ s.workers, wk.scq = qq ∧ wk.id = ww ∧ wk.inSync = false) := by
  have hc := cinv_reachable hs
  refine ⟨fun wk hm => ⟨hc.wIn wk hm, fun hi => hc.wOut wk hm hi (by simp [noEx])⟩, ?_⟩
  intro qq ww hh
  obtain ⟨wk, hm, e1, e2⟩ := hc.eW qq ww hh
  refine ⟨wk, hm, e1, e2, ?_⟩
  cases hi : wk.inSync with
  | false => rfl
  | true => exact absurd (e1 ▸ e2 ▸ hh) (hc.wIn wk hm hi)

/-- **cleanup_accounting (operations).**  Every operation has waiters, or an armed cleanup entry, or may
exist without waiters and then its task is uncompleted; an armed entry belongs to an existing operation
without waiters; every operation belongs to an existing task that lists it. -/
theorem cleanup_accounting_ops (s : State) (hs : Reachable s) (o : Nat) (op : Op) (hop : s.op? o = some op) :
    (0 < op.waiters ∨ hasK s (.op o) ∨
      (op.mayExistWithoutWaiters = true ∧ ∃ t, s.task? op.task = some t ∧ t.response = none)) ∧
    (hasK s (.op o) → op.waiters = 0 ∧ op.mayExistWithoutWaiters = false) ∧
    (∃ t, s.task? op.task = some t ∧ o ∈ t.ops) := by
  have hc := cinv_reachable hs
  refine ⟨?_, ?_, hc.opT o op hop⟩
  · cases hb : op.mayExistWithoutWaiters with
    | true => exact .inr (.inr ⟨rfl, hc.opBg o op hop hb⟩)
    | false =>
      rcases hc.opFg o op hop hb (by simp [noEx]) with h | h
      · exact .inl h
      · exact .inr (.inl h)
  · intro hh
    obtain ⟨op', e, a, b⟩ := hc.eO o hh
    rw [hop] at e; injection e with e; subst e; exact ⟨a, b⟩

/-- **cleanup_accounting (queues).**  Every worker-created (removable) size-class queue has a worker or an
armed cleanup entry — never both; an armed entry belongs to an existing removable queue; every worker's
queue exists. -/
theorem cleanup_accounting_queues (s : State) (hs : Reachable s) :
    (∀ qq sq, s.scq? qq = some sq → sq.mayBeRemoved = true →
        (∃ wk ∈ s.workers, wk.scq = qq) ∨ hasK s (.scq qq)) ∧
    (∀ qq, hasK s (.scq qq) → (∃ sq, s.scq? qq = some sq ∧ sq.mayBeRemoved = true) ∧ ∀ wk ∈ s.workers, wk.scq ≠ qq) ∧
    (∀ wk ∈ s.workers, ∃ sq, s.scq? wk.scq = some sq) := by
  have hc := cinv_reachable hs
  exact ⟨fun qq sq e hb => hc.scqW qq sq e hb (by simp [noEx]), hc.eS, hc.wScq⟩

/-- **at most one entry per object.** -/
theorem one_entry_per_object (s : State) (hs : Reachable s) : (s.cleanup.map (·.kind)).Nodup :=
  (cinv_reachable hs).uniq

/-- non-vacuity: in the demo the worker (outside `Synchronize`, holding task 1) has an armed entry with
deadline 53, the abandoned operation one with deadline 34. -/
example : sDemo.cleanup.map (fun e => e.deadline) = [34, 53] := by decide
example : sDemo.workers.map (fun wk => (wk.inSync, wk.task)) = [(false, some 1)] := by decide

/-! ## (b) the timed failures -/

/-- **not_earlier.**  While no entry is due `enter` only advances the clock: no callback runs, nothing is
removed or failed. -/
theorem not_earlier (h : Hints) (s : State) (now : Nat) (hn : ∀ e ∈ s.cleanup, now < e.deadline) :
    enter h s now = .ok (if now > s.now then setNow s now else s) :=
  enter_nothing_due hn

/-- A callback runs only for an entry whose deadline has passed, earliest deadline first. -/
theorem callbacks_in_deadline_order (s : State) (e : CleanupEntry) (rest : List CleanupEntry)
    (hp : popDue s.now s.cleanup = some (e, rest)) :
    e ∈ s.cleanup ∧ e.deadline ≤ s.now ∧ ∀ x ∈ s.cleanup, x.deadline ≤ s.now → e.deadline ≤ x.deadline :=
  callback_only_when_due hp

/-- **worker_timeout.**  The callback of a due worker entry removes the worker and completes the task it
held — if still uncompleted — with `UNAVAILABLE`, cause `workerDisappeared`. -/
theorem worker_timeout (h : Hints) (s s' : State) (hs : KeysOK s) (qq : ScqId) (ww : WId) (rt : Nat)
    (hh : removeStaleWorker h s qq ww rt = .ok s') :
    s'.worker? qq ww = none ∧
    ∀ wk tid t, s.worker? qq ww = some wk → wk.task = some tid → s.task? tid = some t → t.response = none →
      ∃ t', s'.task? tid = some t' ∧ t'.response = some ⟨cUnavailable, 0, 0, .workerDisappeared⟩ :=
  stale_worker_callback hs hh

/-- **no_waiter_timeout.**  The callback of a due operation entry removes the operation; when it was the
only operation of an uncompleted task, the task is completed with `CANCELED`, cause `noWaiters` (detaching
the worker that runs it), and dropped. -/
theorem no_waiter_timeout (h : Hints) (s s' : State) (hs : KeysOK s) (o : Nat) (hh : removeOp h s o = .ok s') :
    s'.op? o = none ∧
    ∀ op t, s.op? o = some op → s.task? op.task = some t →
      (t.ops = [o] → t.response = none →
        (∃ s1 t1, complete h (eraseOp s o) op.task ⟨cCanceled, 0, 0, .noWaiters⟩ false = .ok s1 ∧
          s1.task? op.task = some t1 ∧ t1.response = some ⟨cCanceled, 0, 0, .noWaiters⟩ ∧ t1.worker = none) ∧
        s'.task? op.task = none) :=
  op_callback hs hh

/-- **retry_limit.**  A worker that asks again for the task it already holds gets it re-issued (counter
incremented) below the limit, and otherwise has it failed with `INTERNAL`, cause `retryLimit`. -/
theorem retry_limit (h : Hints) (s s' : State) (qq : ScqId) (ww : WId) (pi block : Bool) (wk : Worker) (tid : Nat)
    (t : Task) (hwk : s.worker? qq ww = some wk) (htk : wk.task = some tid) (h0' : s.task? tid = some t)
    (hh : getCurrentOrNext h s qq ww pi block = .ok s') :
    (t.retry < s.cfg.retryCount →
      s' = syncReturn (emit (s.setTask { t with retry := t.retry + 1 })
            (.syncExecute qq ww t.digest (s.now + s.cfg.busyInterval))) qq ww) ∧
    (¬ t.retry < s.cfg.retryCount →
      ∃ s1, complete h s tid ⟨cInternal, 0, 0, .retryLimit⟩ false = .ok s1 ∧ getNextTask h s1 qq ww pi block = .ok s') :=
  retry_limit_step hwk htk h0' hh

/-- **queue_timeout.**  The callback of a due queue entry removes the worker-created size-class queue;
before that it completes every task still queued there with `UNAVAILABLE`, cause `queueRemoved`
(`cancelAllQueued`). -/
theorem queue_timeout (h : Hints) (s s' : State) (qq : ScqId) (hh : removeScq h s qq = .ok s') :
    s'.scq? qq = none ∧
    ∃ s1, cancelAllQueued h s qq ⟨cUnavailable, 0, 0, .queueRemoved⟩ = .ok s1 ∧ s' = dropScq s1 qq := by
  refine ⟨scq_callback_removed hh, ?_⟩
  obtain ⟨s1, h1, e⟩ := removeScq_ok hh; exact ⟨s1, h1, e⟩

/-- A scheduler-made completion stores exactly the status it was given. -/
theorem scheduler_completion_status (h : Hints) (s s' : State) (hs : KeysOK s) (tid : Nat) (r : Resp) (t : Task)
    (h0' : s.task? tid = some t) (hr : t.response = none) (hns : ¬ (r.code = cOK ∧ r.exit = 0))
    (hh : complete h s tid r false = .ok s') :
    ∃ t', s'.task? tid = some t' ∧ t'.response = some r ∧ t'.worker = none ∧
      (∀ k, k ≠ tid → s'.task? k = s.task? k) :=
  complete_fail_final hs h0' hr hns hh

/-- non-vacuity: advancing the demo clock past the worker deadline (53) fails task 1 with `UNAVAILABLE`
after the abandoned operation (deadline 34) cancelled it — the earlier deadline wins — and removes the worker. -/
example : (run sDemo [.touch h0 60]).workers.length = 0 ∧ (run sDemo [.touch h0 60]).ops.length = 0 ∧
    (run sDemo [.touch h0 60]).tasks.length = 0 := by decide

/-! ## (c) quiescence: the cleanup loop is exhaustive and every callback removes its object -/

/-- **Every callback removes its object and creates none**: the number of workers + operations +
size-class queues strictly decreases with every cleanup callback (the clock is untouched). -/
theorem callback_removes_object (h : Hints) (s s' : State) (hs : Reachable s) (e : CleanupEntry)
    (rest : List CleanupEntry) (hp : popDue s.now s.cleanup = some (e, rest))
    (hh : callback h (setCleanup s rest) e = .ok s') :
    s'.workers.length + s'.ops.length + s'.scqs.length < s.workers.length + s.ops.length + s.scqs.length ∧
    s'.now = s.now :=
  callback_decreases (kwc_reachable hs) hp hh

/-- **`cleanupFuel` suffices** (termination measure argument): from a reachable state, `enter(now)` with a
later `now` ends with the clock at `now` and *no* due entry left — every timed failure whose deadline has
passed has happened, including those armed by earlier callbacks of the same run. -/
theorem enter_runs_everything_due (h : Hints) (s s' : State) (hs : Reachable s) (now : Nat) (hnow : s.now < now)
    (hh : enter h s now = .ok s') : s'.now = now ∧ ∀ e ∈ s'.cleanup, now < e.deadline :=
  enter_exhaustive (kwc_reachable hs) hnow hh

/-- **quiescence, static part.**  In a reachable state whose cleanup queue has run empty, no worker is
outside `Synchronize`, every worker-created queue still has a worker, and every operation has a waiter or is a
background-learning operation of an uncompleted task (the full dynamic statement is `quiescence` below). -/
theorem quiescence_partial (s : State) (hs : Reachable s) (hempty : s.cleanup = []) :
    (∀ wk ∈ s.workers, wk.inSync = true) ∧
    (∀ qq sq, s.scq? qq = some sq → sq.mayBeRemoved = true → ∃ wk ∈ s.workers, wk.scq = qq) ∧
    (∀ o op, s.op? o = some op → 0 < op.waiters ∨
      (op.mayExistWithoutWaiters = true ∧ ∃ t, s.task? op.task = some t ∧ t.response = none)) := by
  have hc := cinv_reachable hs
  have hno : ∀ k, ¬ hasK s k := by intro k ⟨e, he, _⟩; rw [hempty] at he; cases he
  refine ⟨?_, ?_, ?_⟩
  · intro wk hm
    cases hi : wk.inSync with
    | true => rfl
    | false => exact absurd (hc.wOut wk hm hi (by simp [noEx])) (hno _)
  · intro qq sq e hb
    rcases hc.scqW qq sq e hb (by simp [noEx]) with h | h
    · exact h
    · exact absurd h (hno _)
  · intro o op e
    cases hb : op.mayExistWithoutWaiters with
    | true => exact .inr ⟨rfl, hc.opBg o op e hb⟩
    | false =>
      rcases hc.opFg o op e hb (by simp [noEx]) with h | h
      · exact .inl h
      · exact absurd h (hno _)

/-- **No waiter leaks.**  Along a run in which no two `Execute` / `WaitExecution` segments use the same
client id (`FreshClients`: each id names one call, which the harness and the gRPC server guarantee), every
operation's waiter count equals the number of streams parked on it and every client has at most one parked
stream. -/
theorem waiters_exact (cfg : Cfg) (gs : List Seg) (hf : FreshClients gs) :
    (∀ o op, (run (State.init cfg) gs).op? o = some op →
      op.waiters = ((run (State.init cfg) gs).streams.filter (fun st => st.op = o)).length) ∧
    ((run (State.init cfg) gs).streams.map (·.client)).Nodup :=
  weq_of_fresh cfg gs hf

/-- **quiescence.**  `quiesce` (executable: every parked stream is cancelled, every blocked `Synchronize`
and `TerminateWorkers` call returns, then the clock is advanced beyond every armed deadline, repeatedly,
`workers + operations + queues + 1` times at most) takes every state reached by a run with fresh client ids
to a reachable state that retains nothing created on behalf of clients or workers: no workers, no parked
streams or blocked operator calls, an empty cleanup queue, an empty deduplication map, no worker-created
(removable) size-class queue; every remaining operation may exist without waiters, has none, and belongs to
an existing task that lists it; every remaining task is an uncompleted, unassigned, QUEUED
background-learning task. -/
theorem quiescence (cfg : Cfg) (gs : List Seg) (hf : FreshClients gs) :
    let s := quiesce (run (State.init cfg) gs)
    Reachable s ∧ s.workers = [] ∧ s.streams = [] ∧ s.terms = [] ∧ s.cleanup = [] ∧ s.dedup = [] ∧
    (∀ qq sq, s.scq? qq = some sq → sq.mayBeRemoved = false) ∧
    (∀ o op, s.op? o = some op → op.mayExistWithoutWaiters = true ∧ op.waiters = 0 ∧
      ∃ t, s.task? op.task = some t ∧ o ∈ t.ops) ∧
    (∀ k t, s.task? k = some t → t.background = true ∧ t.response = none ∧ t.worker = none ∧ t.queued = true) := by
  obtain ⟨hr, hq⟩ := quiesce_of_fresh cfg gs hf
  exact ⟨hr, hq.workers, hq.streams, hq.terms, hq.cleanup, hq.dedup, hq.queues,
    fun o op e => ⟨(hq.ops o op e).1, (hq.ops o op e).2, hq.opTask o op e⟩, hq.tasks⟩

/-- The same from any reachable state whose waiter counts are exact. -/
theorem quiescence_from (s : State) (hs : Reachable s)
    (hw : ∀ o op, s.op? o = some op → op.waiters = (s.streams.filter (fun st => st.op = o)).length)
    (hn : (s.streams.map (·.client)).Nodup) :
    Reachable (quiesce s) ∧ Quiescent (quiesce s) :=
  quiesce_spec ⟨hs, hw, hn⟩

/-- non-vacuity: the demo run has fresh client ids and `quiesce` empties it. -/
example : FreshClients demo := by unfold FreshClients; decide
example : (quiesce sDemo).workers.length = 0 ∧ (quiesce sDemo).ops.length = 0 ∧ (quiesce sDemo).tasks.length = 0 ∧
    (quiesce sDemo).scqs.length = 0 ∧ (quiesce sDemo).cleanup.length = 0 := by decide

/-- non-vacuity: after the clock passes every deadline of the demo nothing is left at all. -/
example : (run sDemo [.touch h0 60, .touch h0 200]).cleanup.length = 0 ∧
    (run sDemo [.touch h0 60, .touch h0 200]).scqs.length = 0 := by decide

/-! ## (d) every sleeper wakes -/

/-- **every_sleeper_wakes (workers, wake-up channel).**  In every reachable state a worker whose wakeup
channel is closed is inside `Synchronize` and no longer queued as idle; its wake segment passes all guards
and continues with the hand-off (`execute`) or re-evaluates the queue. -/
theorem woken_worker_wakes (h : Hints) (s : State) (hs : Reachable s) (qq : ScqId) (ww : WId) (wk : Worker)
    (hwk : s.worker? qq ww = some wk) (hwo : wk.woken = true) :
    wk.inSync = true ∧ wk.parked = false ∧
    syncWake h s s.now qq ww 0 =
      if wk.task.isSome then (do let s2 ← execResponse (s.setWorker { wk with woken := false }) wk; pure (syncReturn s2 qq ww))
      else getNextTask h (s.setWorker { wk with woken := false }) qq ww false true := by
  obtain ⟨a, b, _⟩ := ((winv_reachable hs).ok wk (worker?_mem hwk).1).woken hwo
  exact ⟨a, b, syncWake_woken h s qq ww wk hwk a hwo⟩

/-- **undrain snapshot invariant.**  In every reachable state the generation captured by a worker blocked
on `undrainWakeup` is not ahead of its queue's current generation: the captured channel is the current one
or an already closed one.  (Uses both the worker and the cleanup invariants: a queue is only removed —
and possibly re-created with generation 0 — when it has no workers.) -/
theorem undrain_snapshot (s : State) (hs : Reachable s) (wk : Worker) (hm : wk ∈ s.workers) (g : Nat)
    (hdw : wk.drainWait = some g) (sq : Scq) (hsq : s.scq? wk.scq = some sq) : g ≤ sq.undrainGen :=
  dinv_reachable hs wk hm g hdw sq hsq

/-- **every_sleeper_wakes (workers, stale snapshot).**  A worker blocked on `undrainWakeup` whose snapshot is
stale passes the guards of its wake segment and re-evaluates the drains. -/
theorem stale_snapshot_wakes (h : Hints) (s : State) (hs : Reachable s) (qq : ScqId) (ww : WId) (wk : Worker)
    (sq : Scq) (g : Nat) (hwk : s.worker? qq ww = some wk) (hsq : s.scq? qq = some sq)
    (hdw : wk.drainWait = some g) (hg : g ≠ sq.undrainGen) :
    wk.inSync = true ∧ wk.task = none ∧
    syncWake h s s.now qq ww 3 = getNextTask h (s.setWorker { wk with drainWait := none }) qq ww false true := by
  obtain ⟨a, b⟩ := ((winv_reachable hs).ok wk (worker?_mem hwk).1).dwait (by simp [hdw])
  exact ⟨a, b, syncWake_undrained h s qq ww wk sq g hwk a hsq hdw hg⟩

/-- **every_sleeper_wakes (workers, undrain).**  After every successful `RemoveDrain` segment on a queue, each
worker of that queue that is blocked on `undrainWakeup` — whenever it started waiting — has a stale snapshot:
its wake segment passes the guards and it re-evaluates the drains.  No hypothesis on the snapshot is needed
(it follows from `undrain_snapshot`). -/
theorem undrained_worker_wakes (h h' : Hints) (s s' : State) (hs : Reachable s) (now : Nat) (qq : ScqId) (p : Pattern)
    (hstep : step s (.removeDrain h now qq p) = .ok s') (ww : WId) (wk : Worker) (g : Nat)
    (hwk : s'.worker? qq ww = some wk) (hdw : wk.drainWait = some g) :
    wk.inSync = true ∧ wk.task = none ∧
    syncWake h' s' s'.now qq ww 3 = getNextTask h' (s'.setWorker { wk with drainWait := none }) qq ww false true := by
  obtain ⟨sq', hsq', hlt⟩ := removeDrain_stale hs hstep hwk hdw
  exact stale_snapshot_wakes h' s' (Reachable.step _ hs hstep) qq ww wk sq' g hwk hsq' hdw (Nat.ne_of_lt hlt)

/-- non-vacuity: a worker of a drained queue blocks with snapshot 0; after `RemoveDrain` (generation 1) its
wake segment succeeds and the worker parks as an idle, undrained worker. -/
def drainDemo : List Seg :=
  [.register 1 [] 7 [0] 0 0, .addDrain h0 1 q ⟨some 1, none⟩, .sync h0 2 q [] 7 w .idle false]
def sDrain : State := run (State.init cfg) drainDemo
example : sDrain.workers.map (fun wk => wk.drainWait) = [some 0] := by decide
example : ∃ s', step sDrain (.removeDrain h0 3 q ⟨some 1, none⟩) = .ok s' ∧
    s'.workers.map (fun wk => wk.drainWait) = [some 0] ∧ s'.scqs.map (·.undrainGen) = [1] := ⟨_, rfl, by decide⟩
example : (run sDrain [.removeDrain h0 3 q ⟨some 1, none⟩, .syncWake h0 3 q w 3]).workers.map
    (fun wk => (wk.drainWait, wk.parked)) = [(none, true)] := by decide

/-- **every_sleeper_wakes (workers, timeout).**  The timeout of a blocked `Synchronize` returns `idle`. -/
theorem blocked_worker_times_out (h : Hints) (s : State) (qq : ScqId) (ww : WId) (wk : Worker)
    (hwk : s.worker? qq ww = some wk) (hin : wk.inSync = true) (hnt : wk.task = none) :
    syncWake h s s.now qq ww 1 =
      .ok (syncReturn (emit (s.setWorker { wk with parked := false, woken := false, drainWait := none })
            (.syncIdle qq ww s.now)) qq ww) :=
  syncWake_timeout h s qq ww wk hwk hin hnt

/-- **every_sleeper_wakes (streams).**  A parked stream whose task changed generation continues with the
next message; its update timer and its cancellation need no condition. -/
theorem stream_wakes (h : Hints) (s : State) (c : Nat) (st : Stream)
    (hst : s.streams.find? (fun x => x.client = c) = some st) :
    (∀ op t, s.op? st.op = some op → s.task? op.task = some t → t.gen ≠ st.snap →
        streamWake h s s.now c 0 = streamSend s c st.op) ∧
    streamWake h s s.now c 1 = streamSend s c st.op ∧ streamWake h s s.now c 2 = streamLeave s c cCanceled :=
  ⟨fun op t hop ht hg => streamWake_changed h s c st op t hst hop ht hg, (streamWake_timer h s c st hst).1,
   (streamWake_timer h s c st hst).2⟩

/-- **every_sleeper_wakes (`TerminateWorkers`).**  A blocked call all of whose captured tasks have moved on
(or vanished) returns OK. -/
theorem terminate_wakes (s : State) (id : Nat) (tc : TermCall)
    (htc : s.terms.find? (fun t => t.id = id) = some tc)
    (hst : ∀ tg ∈ tc.waits, ∀ tk, s.task? tg.1 = some tk → tk.gen > tg.2) :
    termWake s id 0 = .ok (emit (dropTerm s id) (.termRet id cOK)) :=
  termWake_stale s id tc htc hst

end BbRe.Properties.C06
