import BbRe.Lemmas.ExecFlow
/-!
# C12, the executor's part: every action gets a build directory of its own

Property C12: "Every action gets a build directory of its own …, concurrent actions
on one worker never share a directory".  `Properties/C12.lean` shows for the
decorator stack that directories owned at the same time have different names
(because `Mkdir` is exclusive: an action asking for a taken name *fails*).  What
is shown here is that no action fails that way: `localBuildExecutor.Execute`
passes its action digest to `GetBuildDirectory` only for actions the scheduler
never runs twice at the same time (`do_not_cache` unset), and nil otherwise, in
which case `sharedBuildDirectoryCreator` numbers the directory
(`Model/ExecFlow.lean`: `request`, `Dirs.get`).  Tied to the real executor stack
by `harness/cmd/localexec`.
-/
namespace BbRe.Properties.C12Flow
open BbRe.ExecFlow BbRe.Lemmas.ExecFlow

/-- In every history of a worker (actions starting and ending in any order, identical
`do_not_cache` actions overlapping at will, cacheable actions never in flight twice)
an action that starts is given a directory whose name no running action has, as long
as fewer than 10^15 numbered directories were handed out. -/
theorem every_action_gets_a_directory_of_its_own {s : Dirs} (h : Reachable s) (r : Req)
    (hl : r.digestName.length = 16) (ha : s.admits r) (hb : s.next + 1 < 10 ^ 15) :
    ∃ n, (s.get r).2 = some n ∧ n ∉ s.names ∧ (r, n) ∈ (s.get r).1.running := by
  have hf := fresh_name (dinv_reachable h) r hl ha hb
  unfold Dirs.get
  cases hq : request r with
  | none =>
    simp only [hq] at hf ⊢
    exact ⟨_, by rw [if_neg hf], hf, by rw [if_neg hf]; exact List.mem_cons_self⟩
  | some d =>
    simp only [hq] at hf ⊢
    exact ⟨_, by rw [if_neg hf], hf, by rw [if_neg hf]; exact List.mem_cons_self⟩

/-- Actions running at the same time hold directories with different names. -/
theorem running_actions_have_distinct_directories {s : Dirs} (h : Reachable s) : s.names.Nodup :=
  (dinv_reachable h).nodup

/-- What the name is: a `do_not_cache` action gets the next number, any other action
the first 16 characters of its digest. -/
theorem directory_name {s : Dirs} (r : Req) (n : String) (h : (s.get r).2 = some n) :
    n = if r.doNotCache then Nat.repr (s.next + 1) else r.digestName := by
  unfold Dirs.get request at h
  cases hd : r.doNotCache with
  | true =>
    simp only [hd, if_true] at h ⊢
    by_cases hn : Nat.repr (s.next + 1) ∈ s.names
    · rw [if_pos hn] at h; cases h
    · rw [if_neg hn] at h; exact (Option.some.inj h).symm
  | false =>
    simp only [hd, Bool.false_eq_true, if_false] at h ⊢
    by_cases hn : r.digestName ∈ s.names
    · rw [if_pos hn] at h; cases h
    · rw [if_neg hn] at h; exact (Option.some.inj h).symm

def exReq : Req := ⟨true, "8b1a9953c4611296"⟩

/-- The demonstration of the seeded change: two identical do_not_cache actions on two
threads are given the directories "1" and "2". -/
example : ((Dirs.init.get exReq).1.get exReq).2 = some "2" ∧
    ((Dirs.init.get exReq).1.get exReq).1.names = ["2", "1"] := by decide

/-- … whereas an identical *cacheable* action in flight (which the scheduler excludes:
`admits`) would be refused. -/
example : ((Dirs.init.get ⟨false, "8b1a9953c4611296"⟩).1.get ⟨false, "8b1a9953c4611296"⟩).2 = none := by decide

example : Reachable ((Dirs.init.get exReq).1.get exReq).1 :=
  .exec exReq (.exec exReq .init (by decide) (by intro h; cases h)) (by decide) (by intro h; cases h)

end BbRe.Properties.C12Flow
