import BbRe.Properties.C02
import BbRe.Lemmas.SchedQExistsSync
/-!
# C02 (continued) — the residual case of `eventually_done` names the task's own queue

`C02.eventually_done` says that after the settling schedule every parked stream either gets `done` or its
task is queued without a worker "on one of the remaining, never-removed queues".  With the task → queue
existence invariant `QExists` (`BbRe/Lemmas/SchedQExists*.lean`, `C01Queues`) the residual case is made
precise: the task's *own* size-class queue `t.scq` is still registered after `settle` (and is not
removable), its platform queue is registered and lists the size class, and the task is one of the queued
tasks of that queue — the set `assignNextQueuedTask` picks from when a worker of that queue synchronizes.
-/
namespace BbRe.Properties.C02Queues
open BbRe.Sched BbRe.Lemmas.SchedLive BbRe.Lemmas.SchedQ BbRe.Properties.C02

/-- **eventually_done with the task's own queue.**  Strengthening of `C02.eventually_done`: in the residual
case (task queued, no worker, no response) the task's own size-class queue exists after `settle`, can never
be removed (`mayBeRemoved = false`), its platform queue exists and lists the size class, and the task is a
member of `queuedTasks (settle s) t.scq`, from which a synchronizing worker of that queue is served. -/
theorem eventually_done_own_queue {s : State} (hs : Reachable s) {c : Nat} {st : Stream}
    (hst : s.streams.find? (fun x => x.client = c) = some st) :
    Reachable (settle s) ∧ (settle s).workers = [] ∧ (settle s).cleanup = [] ∧
    (settle s).streams = s.streams ∧
    ∃ op t, (settle s).op? st.op = some op ∧ (settle s).task? op.task = some t ∧
      ((∃ r, t.response = some r ∧
          (run (settle s) [.streamWake qh (settle s).now c 0]).events =
            .ret c cOK :: .msg c st.op 4 true r.code r.tok :: (settle s).events) ∨
       (t.response = none ∧ t.worker = none ∧ t.queued = true ∧
          (∃ sq, (settle s).scq? t.scq = some sq ∧ sq.mayBeRemoved = false) ∧
          (∃ pq, (settle s).pq? t.scq.pq = some pq) ∧ t.scq.sc ∈ (settle s).sizes t.scq.pq ∧
          t ∈ queuedTasks (settle s) t.scq)) := by
  obtain ⟨hr, hw, hc, hnr, hstr, op, t, hop, ht, hcase⟩ := eventually_done hs hst
  refine ⟨hr, hw, hc, hstr, op, t, hop, ht, ?_⟩
  rcases hcase with h1 | ⟨h1, h2, h3⟩
  · exact Or.inl h1
  · refine Or.inr ⟨h1, h2, h3, ?_⟩
    have hq := BbRe.Lemmas.SchedQ.qexists_reachable hr
    have hs1 : HasScq (settle s) t.scq := (taskOK_of_lookup hq ht h1).1
    obtain ⟨sq, hsq⟩ := (hasScq_iff _ _).mp hs1
    refine ⟨⟨sq, hsq, hnr _ sq hsq⟩, (hasPq_iff _ _).mp (hq.qp _ hs1), (mem_sizes _ _ _).mpr hs1, ?_⟩
    unfold queuedTasks
    refine List.mem_map.mpr ⟨(op.task, t), List.mem_filter.mpr ⟨BbRe.Lemmas.SchedInv.mem_of_alookup ht, ?_⟩, rfl⟩
    simp [h1, h2, h3]

/-- non-vacuity of the residual case: a task queued on a predeclared queue without workers — client 1 stays
parked, and after `settle` its task is still queued on its own, still registered queue `⟨1, 0⟩`. -/
def sQueued : State := run (State.init cfg) [.register 1 [] 7 [0] 0 0, .exec h0 2 1 55 55 false [] 7 [9] 0]
example : (sQueued.streams.find? (fun x => x.client = 1)).isSome = true ∧
    ((settle sQueued).task? 1).map (fun t => (t.response.isNone, t.queued, t.scq)) = some (true, true, q) ∧
    ((settle sQueued).scq? q).map (·.mayBeRemoved) = some false := by decide

end BbRe.Properties.C02Queues
