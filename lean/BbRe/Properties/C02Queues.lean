import BbRe.Properties.C02
import BbRe.Lemmas.SchedQExistsJoin
/-!
# C02 (continued) — the residual case of `eventually_done` names the task's own queue

`C02.eventually_done` says that after the settling schedule every parked stream either gets `done` or its
task is queued without a worker "on one of the remaining, never-removed queues".  With the task → queue
existence invariant `QExists` (`BbRe/Lemmas/SchedQExists*.lean`, `C01Queues`) the residual case is made
precise: the task's *own* size-class queue `t.scq` is still registered after `settle` (and is not
removable), its platform queue is registered and lists the size class, and the task is one of the queued
tasks of that queue — the set `assignNextQueuedTask` picks from when a worker of that queue synchronizes.
-/
namespace BbRe.Properties.C02Queues
open BbRe.Sched BbRe.Lemmas.SchedLive BbRe.Lemmas.SchedQ BbRe.Properties.C02

/-- **eventually_done with the task's own queue.**  Strengthening of `C02.eventually_done`: in the residual
case (task queued, no worker, no response) the task's own size-class queue exists after `settle`, can never
be removed (`mayBeRemoved = false`), its platform queue exists and lists the size class, and the task is a
member of `queuedTasks (settle s) t.scq`, from which a synchronizing worker of that queue is served. -/
theorem eventually_done_own_queue {s : State} (hs : Reachable s) {c : Nat} {st : Stream}
    (hst : s.streams.find? (fun x => x.client = c) = some st) :
    Reachable (settle s) ∧ (settle s).workers = [] ∧ (settle s).cleanup = [] ∧
    (settle s).streams = s.streams ∧
    ∃ op t, (settle s).op? st.op = some op ∧ (settle s).task? op.task = some t ∧
      ((∃ r, t.response = some r ∧
          (run (settle s) [.streamWake qh (settle s).now c 0]).events =
            .ret c cOK :: .msg c st.op 4 true r.code r.tok :: (settle s).events) ∨
       (t.response = none ∧ t.worker = none ∧ t.queued = true ∧
          (∃ sq, (settle s).scq? t.scq = some sq ∧ sq.mayBeRemoved = false) ∧
          (∃ pq, (settle s).pq? t.scq.pq = some pq) ∧ t.scq.sc ∈ (settle s).sizes t.scq.pq ∧
          t ∈ queuedTasks (settle s) t.scq)) := by
  obtain ⟨hr, hw, hc, hnr, hstr, op, t, hop, ht, hcase⟩ := eventually_done hs hst
  refine ⟨hr, hw, hc, hstr, op, t, hop, ht, ?_⟩
  rcases hcase with h1 | ⟨h1, h2, h3⟩
  · exact Or.inl h1
  · refine Or.inr ⟨h1, h2, h3, ?_⟩
    have hq := BbRe.Lemmas.SchedQ.qexists_reachable hr
    have hs1 : HasScq (settle s) t.scq := (taskOK_of_lookup hq ht h1).1
    obtain ⟨sq, hsq⟩ := (hasScq_iff _ _).mp hs1
    refine ⟨⟨sq, hsq, hnr _ sq hsq⟩, (hasPq_iff _ _).mp (hq.qp _ hs1), (mem_sizes _ _ _).mpr hs1, ?_⟩
    unfold queuedTasks
    refine List.mem_map.mpr ⟨(op.task, t), List.mem_filter.mpr ⟨BbRe.Lemmas.SchedInv.mem_of_alookup ht, ?_⟩, rfl⟩
    simp [h1, h2, h3]

/-- non-vacuity of the residual case: a task queued on a predeclared queue without workers — client 1 stays
parked, and after `settle` its task is still queued on its own, still registered queue `⟨1, 0⟩`. -/
def sQueued : State := run (State.init cfg) [.register 1 [] 7 [0] 0 0, .exec h0 2 1 55 55 false [] 7 [9] 0]
example : (sQueued.streams.find? (fun x => x.client = 1)).isSome = true ∧
    ((settle sQueued).task? 1).map (fun t => (t.response.isNone, t.queued, t.scq)) = some (true, true, q) ∧
    ((settle sQueued).scq? q).map (·.mayBeRemoved) = some false := by decide

/-- **A joining worker is served.**  Let `t` be queued (no response, no worker, `queued`) in a reachable
state `s`.  Then `t ∈ queuedTasks s t.scq`, its queue is registered, and for every worker id `w` that is not
registered on `t.scq` and matches no drain of `t.scq` (a new worker is never terminating), the
`Synchronize` arrival segment of `w` on `t.scq` (idle report, not prefer-being-idle, `now ≤ s.now`) with
*any* oracle hint `h` that names a queued task of `t.scq` (`hfa`, `hft`: the hint's entry for `(t.scq, w)`
is the lowest operation name of `t'`)
* returns `.ok`, emits exactly `syncExecute t.scq w t'.digest …`,
* the chosen `t'` is a queued task of `t.scq` — `t` itself when `t` is the only one, and `t` itself
  whenever the hint names `t`'s lowest operation (operation names belong to one task), and
* afterwards `t'` is EXECUTING on `(t.scq, w)` and the worker holds it.
The hint naming `t` is always admissible (last conjunct), so the residual case of `eventually_done` is
left as soon as a worker appears. -/
theorem joining_worker_served {s : State} (hs : Reachable s) {k : Nat} {t : Task} (ht : s.task? k = some t)
    (hr : t.response = none) (hw : t.worker = none) (hq : t.queued = true) {w : WId}
    (hfresh : s.worker? t.scq w = none)
    (hnd : ∀ sq, s.scq? t.scq = some sq → sq.drains.any (fun p => p.matches w) = false)
    {now : Nat} (hnow : now ≤ s.now) (comps : List Nat) (platform : Nat) :
    t ∈ queuedTasks s t.scq ∧ (∃ sq, s.scq? t.scq = some sq) ∧
    (∀ (h : Hints) (a : ScqId × WId × Nat) (t' : Task),
      h.assign.find? (fun a => a.1 = t.scq ∧ a.2.1 = w) = some a →
      (queuedTasks s t.scq).find? (fun x => lowestOp x = a.2.2) = some t' →
      t' ∈ queuedTasks s t.scq ∧ (queuedTasks s t.scq = [t] → t' = t) ∧ (a.2.2 = lowestOp t → t' = t) ∧
      ∃ s', step s (.sync h now t.scq comps platform w .idle false) = .ok s' ∧
        s'.events = .syncExecute t.scq w t'.digest (s.now + s.cfg.busyInterval) :: s.events ∧
        (∃ T, s'.task? t'.id = some T ∧ T.worker = some (t.scq, w) ∧ T.response = none ∧ T.stage = 3 ∧
          T.digest = t'.digest ∧ T.ops = t'.ops) ∧
        ∃ W, s'.worker? t.scq w = some W ∧ W.task = some t'.id ∧ W.inSync = false) ∧
    (∃ a, (⟨[(t.scq, w, lowestOp t)], 0, none, false⟩ : Hints).assign.find? (fun a => a.1 = t.scq ∧ a.2.1 = w) = some a ∧
      a.2.2 = lowestOp t ∧ (queuedTasks s t.scq).find? (fun x => lowestOp x = a.2.2) = some t) := by
  have hI := BbRe.Lemmas.SchedInv.inv_reachable hs
  have hqx := BbRe.Lemmas.SchedQ.qexists_reachable hs
  have hmem : t ∈ queuedTasks s t.scq := by
    unfold queuedTasks
    refine List.mem_map.mpr ⟨(k, t), List.mem_filter.mpr ⟨BbRe.Lemmas.SchedInv.mem_of_alookup ht, ?_⟩, rfl⟩
    simp [hr, hw, hq]
  obtain ⟨sq, hsq⟩ := (hasScq_iff _ _).mp (taskOK_of_lookup hqx ht hr).1
  refine ⟨hmem, ⟨sq, hsq⟩, ?_, ?_⟩
  · intro h a t' hfa hft
    have hadm : Admissible h s t.scq w t' := ⟨a, hfa, hft⟩
    have hm' := hadm.mem
    refine ⟨hm', ?_, ?_, ?_⟩
    · intro h1; rw [h1] at hm'; simpa using hm'
    · intro ha
      have hp := List.find?_some hft
      simp only [decide_eq_true_eq, ha] at hp
      obtain ⟨k', hk', _⟩ := BbRe.Lemmas.SchedInv.mem_queuedTasks hI.core.tnd hm'
      exact lowestOp_inj hI hk' ht hp
    · obtain ⟨s', he, hsv⟩ := sync_join_served (comps := comps) (platform := platform) hnow hsq hfresh (hnd sq hsq) hadm
      exact ⟨s', he, hsv.ev, hsv.tk, hsv.wk⟩
  · obtain ⟨a, h1, h2⟩ := admissible_self hI w hmem
    have ha : a = (t.scq, w, lowestOp t) := by simpa using h1.symm
    exact ⟨a, h1, by rw [ha], h2⟩

/-- non-vacuity: in `sQueued` task 1 is queued on `⟨1, 0⟩`, worker `⟨1, 1⟩` is not registered, nothing is
drained; the hint naming operation 1 is admissible and the segment hands task 1 (digest 55) to the worker. -/
example : (sQueued.task? 1).map (fun t => (t.response.isNone, t.worker.isNone, t.queued, t.scq)) =
      some (true, true, true, q) ∧
    (sQueued.worker? q w).isNone = true ∧ ((sQueued.scq? q).map (·.drains)) = some [] ∧
    (match step sQueued (.sync ⟨[(q, w, 1)], 0, none, false⟩ sQueued.now q [] 7 w .idle false) with
      | .ok s' => (s'.task? 1).map (fun t => (t.worker, t.stage)) == some (some (q, w), 3) &&
          (match s'.events.head? with | some (.syncExecute _ _ 55 _) => true | _ => false)
      | .error _ => false) = true := by decide

/-- **eventually_done, once a worker joins.**  After the settling schedule every parked stream either gets
`done` on its stage-change wake-up, or its task `t` is queued on its own, still registered queue, and then
for every worker id `w` matching no drain of that queue (no worker is registered after `settle`), the
`Synchronize` arrival of `w` on `t.scq` with the hint naming `t` succeeds, tells `w` to execute `t`, and
`t` is EXECUTING on `(t.scq, w)` afterwards — from where `C02.eventually_done_executing` applies. -/
theorem eventually_done_when_worker_joins {s : State} (hs : Reachable s) {c : Nat} {st : Stream}
    (hst : s.streams.find? (fun x => x.client = c) = some st) :
    ∃ op t, (settle s).op? st.op = some op ∧ (settle s).task? op.task = some t ∧
      ((∃ r, t.response = some r ∧
          (run (settle s) [.streamWake qh (settle s).now c 0]).events =
            .ret c cOK :: .msg c st.op 4 true r.code r.tok :: (settle s).events) ∨
       (t.response = none ∧ t.worker = none ∧ t.queued = true ∧
        ∀ (w : WId) (comps : List Nat) (platform : Nat),
          (∀ sq, (settle s).scq? t.scq = some sq → sq.drains.any (fun p => p.matches w) = false) →
          ∃ s', step (settle s) (.sync ⟨[(t.scq, w, lowestOp t)], 0, none, false⟩ (settle s).now t.scq comps
              platform w .idle false) = .ok s' ∧ Reachable s' ∧
            s'.events = .syncExecute t.scq w t.digest ((settle s).now + (settle s).cfg.busyInterval) ::
              (settle s).events ∧
            (∃ T, s'.task? t.id = some T ∧ T.worker = some (t.scq, w) ∧ T.response = none ∧ T.stage = 3) ∧
            ∃ W, s'.worker? t.scq w = some W ∧ W.task = some t.id ∧ W.inSync = false)) := by
  obtain ⟨hr, hw, _, _, op, t, hop, ht, hcase⟩ := eventually_done_own_queue hs hst
  refine ⟨op, t, hop, ht, ?_⟩
  rcases hcase with h1 | ⟨h1, h2, h3, _⟩
  · exact Or.inl h1
  · refine Or.inr ⟨h1, h2, h3, ?_⟩
    intro w comps platform hnd
    have hfresh : (settle s).worker? t.scq w = none := by
      show BbRe.Lemmas.SchedInv.wfind (settle s).workers t.scq w = none
      rw [hw]; rfl
    obtain ⟨_, _, hall, a, hfa, ha, hft⟩ :=
      joining_worker_served hr ht h1 h2 h3 hfresh hnd (Nat.le_refl _) comps platform
    obtain ⟨_, _, _, s', he, hev, ⟨T, hT1, hT2, hT3, hT4, _⟩, hW⟩ := hall _ a t hfa hft
    exact ⟨s', he, Reachable.step _ hr he, hev, ⟨T, hT1, hT2, hT3, hT4⟩, hW⟩

end BbRe.Properties.C02Queues
