import BbRe.Model.Pipeline
import BbRe.Lemmas.Pipeline
/-!
# C09 — only complete, successful results reach the Action Cache

Theorems about `Model/Pipeline.lean` (batched store, flushing executor, caching
executor, composed in the order of `cmd/bb_worker/main.go`).  Every theorem is
for *every* initial store state (not only reachable ones), every batch size,
every list of inner Puts (duplicates included), every response of the inner
executor and every oracle (= every position at which FindMissing, an underlying
Put, the flush or the AC Put fails or is cancelled).

Assumptions of the model (see the header of `Model/Pipeline.lean`): FindMissing
is truthful and the CAS does not lose blobs; digests are injective tokens.
-/
namespace BbRe.Properties.C09
open BbRe.Pipeline BbRe.Lemmas.Pipeline

/-! ## Batched store -/

/-- `flushError` is sticky: `Put` never clears it … -/
theorem sticky_error_put (s : Store) (d : Digest) (b : Buf) (o : FlushOracle)
    (h : s.flushError ≠ none) : (put s d b o).1.flushError ≠ none :=
  put_err_sticky s d b o h

/-- … a `Put` that returns an error has that error recorded … -/
theorem put_error_is_recorded (s : Store) (d : Digest) (b : Buf) (o : FlushOracle) (c : Code)
    (h : (put s d b o).2 = some c) : (put s d b o).1.flushError = some c :=
  put_error_recorded s d b o c h

/-- … and only the flusher clears it, returning it (whatever the flush itself does). -/
theorem sticky_error_flusher (s : Store) (o : FlushOracle) :
    (flusher s o).1.flushError = none ∧ (s.flushError ≠ none → (flusher s o).2 ≠ none) :=
  ⟨rfl, flusher_err_sticky s o⟩

/-- **batched_ack_sound.**  From any store state, after any sequence of `Put`s
(any batch size, duplicates, any faults in the flushes they trigger): for every
`Put(d)` of the sequence that returned nil, the next flusher call either
returns an error or `d` is in the CAS when it returns. -/
theorem batched_ack_sound (s0 : Store) (calls : List PutCall) (o : FlushOracle)
    (e : Digest × Option Code) (he : e ∈ (runPuts s0 calls).2) (hack : e.2 = none) :
    (flusher (runPuts s0 calls).1 o).2 ≠ none ∨ e.1 ∈ (flusher (runPuts s0 calls).1 o).1.cas := by
  cases hr : (flusher (runPuts s0 calls).1 o).2 with
  | some c => left; simp
  | none =>
    right
    have hA : Acked s0 [] := by intro _ d hd; simp at hd
    have h1 := runPuts_acked s0 calls [] hA
    exact flusher_acked _ o _ h1 hr e.1 (List.mem_append_left _ (mem_ackedOf he hack))

/-- **A failed wait for an upload slot is reported.**  If, in any flush (of a
`Put` or of the flusher), FindMissing succeeded and the scheduling goroutine's
`AcquireSemaphore` failed at any point — the context was cancelled while it
waited for a slot of the shared put semaphore, or between two uploads, even if
none of this flush's own Puts failed — then the flush records an error (so, by
`sticky_error_*`, the flusher returns one and, by `failure_prunes`, the response
is not OK, nothing is cached and the outputs are pruned), and nothing stays
pending. -/
theorem acquire_failure_recorded (s : Store) (o : FlushOracle) (pre : List (Digest × Option Code))
    (c : Code) (post : List IssueEv) (hfm : o.fm = none)
    (hp : o.puts = pre.map (fun e => IssueEv.put e.1 e.2) ++ .acquireFailed c :: post) :
    (flushLocked s o).flushError ≠ none ∧ s.errorsRecorded < (flushLocked s o).errorsRecorded ∧
    (flushLocked s o).pending = [] ∧ (flusher s o).2 ≠ none := by
  have herrs := issuePuts_acquireFailed_after s.cas ⟨s.pending, s.cas, s.consumed, []⟩ pre c post
  have key : (flushLocked s o).flushError ≠ none ∧ s.errorsRecorded < (flushLocked s o).errorsRecorded := by
    unfold flushLocked
    rw [hfm, hp]
    simp only
    split
    · exact ⟨by simp, Nat.lt_succ_self _⟩
    · rename_i hnone
      exfalso
      refine chooseErr_ne_none o.winner ?_ hnone
      split
      · simp
      · exact herrs
  exact ⟨key.1, key.2, flushLocked_pending s o, key.1⟩

/-- **batched_ack_sound, history form.**  For *every* history of Puts and
flusher calls on the batched store (from any initial state): whenever the next
flusher call returns nil, every digest whose `Put` returned nil since the
previous flusher call is in the CAS. -/
theorem batched_ack_sound_history (s0 : Store) (ops : List StoreOp) (o : FlushOracle)
    (hr : (flusher (runOps ⟨s0, [], []⟩ ops).store o).2 = none) :
    ∀ d ∈ (runOps ⟨s0, [], []⟩ ops).acked, d ∈ (flusher (runOps ⟨s0, [], []⟩ ops).store o).1.cas := by
  have inv : ∀ (ops : List StoreOp) (h : Hist), Acked h.store h.acked →
      Acked (runOps h ops).store (runOps h ops).acked := by
    intro ops
    induction ops with
    | nil => intro h hh; exact hh
    | cons op rest ih =>
      intro h hh
      apply ih
      cases op with
      | put c => exact put_acked h.store c.digest c.buf c.oracle h.acked hh
      | flush o' => intro _ d hd; simp [stepOp] at hd
  exact flusher_acked _ o _ (inv ops ⟨s0, [], []⟩ (by intro _ d hd; simp at hd)) hr

/-- **Buffers, history form.**  In every history every buffer handed to `Put`
is, at every point, either still pending or consumed — exactly once in total;
right after a flusher call nothing is pending. -/
theorem buffers_history (s0 : Store) (ops : List StoreOp) :
    ((runOps ⟨s0, [], []⟩ ops).store.pending.map (·.2) ++ (runOps ⟨s0, [], []⟩ ops).store.consumed).Perm
      ((runOps ⟨s0, [], []⟩ ops).handed ++ (s0.pending.map (·.2) ++ s0.consumed)) := by
  have inv : ∀ (ops : List StoreOp) (h : Hist),
      (h.store.pending.map (·.2) ++ h.store.consumed).Perm (h.handed ++ (s0.pending.map (·.2) ++ s0.consumed)) →
      ((runOps h ops).store.pending.map (·.2) ++ (runOps h ops).store.consumed).Perm
        ((runOps h ops).handed ++ (s0.pending.map (·.2) ++ s0.consumed)) := by
    intro ops
    induction ops with
    | nil => intro h hh; exact hh
    | cons op rest ih =>
      intro h hh
      apply ih
      cases op with
      | put c =>
        exact (put_consumed h.store c.digest c.buf c.oracle).trans (List.Perm.cons _ hh)
      | flush o' =>
        show ((flusher h.store o').1.pending.map (·.2) ++ (flusher h.store o').1.consumed).Perm _
        rw [flusher_pending]
        exact (flusher_consumed h.store o').trans hh
  exact inv ops ⟨s0, [], []⟩ (List.Perm.refl _)

/-- A flusher call that returns nil means that *no* Put since the previous
flusher call failed and no flush recorded an error (nothing is swallowed). -/
theorem flusher_ok_means_no_failure (s0 : Store) (calls : List PutCall) (o : FlushOracle)
    (hr : (flusher (runPuts s0 calls).1 o).2 = none) :
    s0.flushError = none ∧ (∀ e ∈ (runPuts s0 calls).2, e.2 = none) ∧
    (flusher (runPuts s0 calls).1 o).1.errorsRecorded = s0.errorsRecorded := by
  refine ⟨?_, ?_, ?_⟩
  · apply Classical.byContradiction; intro hn
    exact flusher_err_sticky _ o (runPuts_err_sticky s0 calls hn) hr
  · intro e he
    apply Classical.byContradiction; intro hn
    exact flusher_err_sticky _ o (runPuts_failed s0 calls ⟨e, he, hn⟩) hr
  · apply Nat.le_antisymm
    · apply Nat.not_lt.1; intro hlt
      by_cases h1 : (runPuts s0 calls).1.errorsRecorded < (flusher (runPuts s0 calls).1 o).1.errorsRecorded
      · exact flusher_errorsRecorded _ o h1 hr
      · have h2 : s0.errorsRecorded < (runPuts s0 calls).1.errorsRecorded :=
          Nat.lt_of_lt_of_le hlt (Nat.not_lt.1 h1)
        exact flusher_err_sticky _ o (runPuts_errorsRecorded s0 calls h2) hr
    · exact Nat.le_trans (runPuts_errorsRecorded_le s0 calls) (flushLocked_errorsRecorded_le _ o)

/-- **Every buffer is consumed exactly once.**  After the flusher call nothing
is pending, and the multiset of consumed buffers (handed to the underlying Put
or Discarded) is exactly: the buffers consumed before, those that were pending
and those handed to `Put` since — each once. -/
theorem buffers_consumed_once (s0 : Store) (calls : List PutCall) (o : FlushOracle) :
    (flusher (runPuts s0 calls).1 o).1.pending = [] ∧
    (flusher (runPuts s0 calls).1 o).1.consumed.Perm
      (calls.map (·.buf) ++ (s0.pending.map (·.2) ++ s0.consumed)) :=
  ⟨flusher_pending _ o, (flusher_consumed _ o).trans (runPuts_consumed s0 calls)⟩

/-- Counting form for a fresh store: buffer `b` has been consumed exactly as
often as it was handed to `Put` (once, if buffers are distinct). -/
theorem buffers_consumed_once_count (bs : Nat) (cas : List Digest) (calls : List PutCall) (o : FlushOracle)
    (b : Buf) :
    (flusher (runPuts (Store.init bs cas) calls).1 o).1.consumed.count b = (calls.map (·.buf)).count b := by
  have := (buffers_consumed_once (Store.init bs cas) calls o).2.count_eq b
  simpa [Store.init] using this

/-- Between flusher calls no buffer is lost or consumed twice either: at every
point each buffer handed in is pending or consumed, exactly once in total. -/
theorem buffers_accounted (s0 : Store) (calls : List PutCall) :
    ((runPuts s0 calls).1.pending.map (·.2) ++ (runPuts s0 calls).1.consumed).Perm
      (calls.map (·.buf) ++ (s0.pending.map (·.2) ++ s0.consumed)) :=
  runPuts_consumed s0 calls

/-! ## Composed pipeline -/

/-- **ac_write_condition.**  An Action Cache `Put` is issued iff the action
digest is valid, the action is present, `do_not_cache` is off and the response
reaching the caching layer has status OK and exit code 0 — i.e. iff the inner
executor reported success *and the flush returned nil*; and at most once per
execution. -/
theorem ac_write_condition (w : World) (req : Request) (i : Inner) (o : ExecOracle) :
    let r := execute w req i o
    (r.world.acCalls = w.acCalls + 1 ↔ cacheable req r.flushed) ∧
    (r.world.acCalls = w.acCalls ∨ r.world.acCalls = w.acCalls + 1) ∧
    (cacheable req r.flushed ↔
      (req.digestValid = true ∧ req.actionPresent = true ∧ req.doNotCache = false ∧
        i.resp.status.err = none ∧ i.resp.exitCode = 0 ∧ r.flushErr = none)) := by
  intro r
  have hc := cachingPost_acCalls
    { w with store := (flushingPost (runPuts w.store i.puts).1 i.resp o.flush).1 } req
    (flushingPost (runPuts w.store i.puts).1 i.resp o.flush).2.1 o.ac o.hist
  refine ⟨hc.1, hc.2, ?_⟩
  show cacheable req (flushingPost (runPuts w.store i.puts).1 i.resp o.flush).2.1 ↔
    (_ ∧ _ ∧ _ ∧ _ ∧ _ ∧ (flushingPost (runPuts w.store i.puts).1 i.resp o.flush).2.2 = none)
  cases hf : (flusher (runPuts w.store i.puts).1 o.flush).2 with
  | none =>
    rw [flushingPost_none _ _ _ hf]
    simp [cacheable]
  | some c =>
    rw [flushingPost_some _ _ _ c hf]
    cases hs : i.resp.status.err <;> simp [cacheable, attachError, hs]

/-- The Action Cache changes only by that one write, and only if it succeeds. -/
theorem ac_log (w : World) (req : Request) (i : Inner) (o : ExecOracle) :
    let r := execute w req i o
    (r.world.ac = entryOf req r.flushed :: w.ac ∧ cacheable req r.flushed ∧ o.ac = none ∧ r.final.status.err = none) ∨
    (r.world.ac = w.ac ∧ (¬ cacheable req r.flushed ∨ o.ac ≠ none)) := by
  intro r
  show ((cachingPost { w with store := (flushingPost (runPuts w.store i.puts).1 i.resp o.flush).1 } req
      (flushingPost (runPuts w.store i.puts).1 i.resp o.flush).2.1 o.ac o.hist).1.ac = _ ∧ _ ∧ _ ∧
      (cachingPost { w with store := (flushingPost (runPuts w.store i.puts).1 i.resp o.flush).1 } req
      (flushingPost (runPuts w.store i.puts).1 i.resp o.flush).2.1 o.ac o.hist).2.status.err = none) ∨
    ((cachingPost { w with store := (flushingPost (runPuts w.store i.puts).1 i.resp o.flush).1 } req
      (flushingPost (runPuts w.store i.puts).1 i.resp o.flush).2.1 o.ac o.hist).1.ac = _ ∧ _)
  show (_ = entryOf req (flushingPost (runPuts w.store i.puts).1 i.resp o.flush).2.1 :: w.ac ∧
      cacheable req (flushingPost (runPuts w.store i.puts).1 i.resp o.flush).2.1 ∧ _ ∧ _) ∨
    (_ ∧ (¬ cacheable req (flushingPost (runPuts w.store i.puts).1 i.resp o.flush).2.1 ∨ _))
  generalize (flushingPost (runPuts w.store i.puts).1 i.resp o.flush).2.1 = fr
  generalize (flushingPost (runPuts w.store i.puts).1 i.resp o.flush).1 = st
  unfold cachingPost cacheable isSuccessful attachError
  cases hdv : req.digestValid <;> cases hap : req.actionPresent <;> cases hdc : req.doNotCache <;>
    cases hs : fr.status.err <;> cases hac : o.ac <;> cases hh : o.hist <;>
    by_cases he : fr.exitCode = 0 <;> simp [he, hs]

/-- **ac_complete.**  If the Action Cache write is issued, then the result that
is written is the inner executor's result, unpruned, and every digest it
references (output files, output directories/trees, stdout, stderr) that the
inner executor handed to the batched store — acknowledged or not — is in the
CAS at that moment.  (Digests the inner executor never Put are the stated
exception: blobs the client had uploaded already.) -/
theorem ac_complete (w : World) (req : Request) (i : Inner) (o : ExecOracle)
    (hac : (execute w req i o).world.acCalls = w.acCalls + 1) :
    let r := execute w req i o
    entryOf req r.flushed = entryOf req i.resp ∧
    ∀ d ∈ (entryOf req r.flushed).refs, d ∈ i.puts.map (·.digest) → d ∈ r.world.store.cas := by
  intro r
  have hcond := ((ac_write_condition w req i o).1).1 hac
  have hprim := ((ac_write_condition w req i o).2.2).1 hcond
  obtain ⟨_, _, _, _, _, hfe⟩ := hprim
  -- the flush returned nil
  have hfl : (flusher (runPuts w.store i.puts).1 o.flush).2 = none := by
    rw [← flushingPost_err _ i.resp]; exact hfe
  have hflushed : r.flushed = i.resp := by
    show (flushingPost (runPuts w.store i.puts).1 i.resp o.flush).2.1 = i.resp
    rw [flushingPost_none _ _ _ hfl]
  have hstore : r.world.store = (flusher (runPuts w.store i.puts).1 o.flush).1 := by
    show (cachingPost _ req (flushingPost (runPuts w.store i.puts).1 i.resp o.flush).2.1 o.ac o.hist).1.store = _
    rw [cachingPost_store]
    exact flushingPost_store _ _ _
  refine ⟨by rw [hflushed], ?_⟩
  intro d _ hput
  rw [hstore]
  rw [← runPuts_log_digests w.store i.puts] at hput
  obtain ⟨e, he, hed⟩ := List.mem_map.1 hput
  have hall := (flusher_ok_means_no_failure w.store i.puts o.flush hfl).2.1 e he
  rcases batched_ack_sound w.store i.puts o.flush e he hall with h1 | h1
  · exact absurd hfl h1
  · rw [← hed]; exact h1

/-- **first_error_wins.**  The status of the final response is the first error
in pipeline order: the inner executor's, else the flush error, else the error
of the caching layer (invalid request, failed AC Put, failed Put of the
historical response). -/
theorem first_error_wins (w : World) (req : Request) (i : Inner) (o : ExecOracle) :
    let r := execute w req i o
    r.flushed.status.err = firstErr i.resp.status.err r.flushErr ∧
    r.final.status.err = firstErr i.resp.status.err (firstErr r.flushErr (cachingError req r.flushed o)) := by
  intro r
  have h1 : r.flushed.status.err = firstErr i.resp.status.err r.flushErr := by
    show (flushingPost (runPuts w.store i.puts).1 i.resp o.flush).2.1.status.err =
      firstErr i.resp.status.err (flushingPost (runPuts w.store i.puts).1 i.resp o.flush).2.2
    cases hf : (flusher (runPuts w.store i.puts).1 o.flush).2 with
    | none =>
      rw [flushingPost_none _ _ _ hf]
      cases hs : i.resp.status.err <;> simp [firstErr]
    | some c =>
      rw [flushingPost_some _ _ _ c hf]
      cases hs : i.resp.status.err <;> simp [firstErr, attachError, hs]
  refine ⟨h1, ?_⟩
  have h2 : r.final.status.err = firstErr r.flushed.status.err (cachingError req r.flushed o) := by
    show (cachingPost _ req (flushingPost (runPuts w.store i.puts).1 i.resp o.flush).2.1 o.ac o.hist).2.status.err =
      firstErr (flushingPost (runPuts w.store i.puts).1 i.resp o.flush).2.1.status.err
        (cachingError req (flushingPost (runPuts w.store i.puts).1 i.resp o.flush).2.1 o)
    generalize (flushingPost (runPuts w.store i.puts).1 i.resp o.flush).2.1 = fr
    unfold cachingPost cachingError attachError firstErr
    cases hdv : req.digestValid <;> cases hap : req.actionPresent <;> cases hdc : req.doNotCache <;>
      cases hs : fr.status.err <;> cases hac : o.ac <;> cases hh : o.hist <;>
      cases hsucc : isSuccessful fr <;> simp [hs]
  rw [h2, h1]
  cases i.resp.status.err <;> cases r.flushErr <;> simp [firstErr]

/-- **failure_prunes.**  If anything went wrong on the storage path of the
execution — a Put of the inner executor returned an error, any `flushLocked`
(triggered by a Put or by the flusher) recorded a FindMissing/Put/cancellation
error, an error was already pending, or the flusher returned an error — then
the flusher returns an error, the final response is not OK, no Action Cache
write was even attempted and the Action Cache is unchanged.  If the flusher
returned an error, the response advertises no output files, directories,
stdout/stderr digests or server logs. -/
theorem failure_prunes (w : World) (req : Request) (i : Inner) (o : ExecOracle) :
    let r := execute w req i o
    (((∃ e ∈ r.putLog, e.2 ≠ none) ∨ w.store.errorsRecorded < r.world.store.errorsRecorded ∨
        w.store.flushError ≠ none ∨ r.flushErr ≠ none) →
      r.flushErr ≠ none ∧ r.final.status.err ≠ none ∧ r.world.acCalls = w.acCalls ∧ r.world.ac = w.ac) ∧
    (r.flushErr ≠ none →
      r.final.files = [] ∧ r.final.dirs = [] ∧ r.final.stdout = none ∧ r.final.stderr = none ∧
      r.final.logs = []) := by
  intro r
  have hfe : r.flushErr = (flusher (runPuts w.store i.puts).1 o.flush).2 := flushingPost_err _ _ _
  have hstore : r.world.store = (flusher (runPuts w.store i.puts).1 o.flush).1 := by
    show (cachingPost _ req (flushingPost (runPuts w.store i.puts).1 i.resp o.flush).2.1 o.ac o.hist).1.store = _
    rw [cachingPost_store]
    exact flushingPost_store _ _ _
  have hfail : r.flushErr ≠ none →
      r.final.status.err ≠ none ∧ r.world.acCalls = w.acCalls ∧ r.world.ac = w.ac := by
    intro hne
    have hst : r.flushed.status.err ≠ none := by
      rw [(first_error_wins w req i o).1]
      cases hs : i.resp.status.err with
      | some c => simp [firstErr]
      | none =>
        cases hf : (execute w req i o).flushErr with
        | none => exact absurd hf hne
        | some c => simp [firstErr]
    have hfinal : r.final.status.err ≠ none := by
      rw [(first_error_wins w req i o).2]
      cases hs : i.resp.status.err with
      | some c => simp [firstErr]
      | none =>
        cases hf : r.flushErr with
        | none => exact absurd hf hne
        | some c => simp [firstErr]
    have hnc : ¬ cacheable req r.flushed := fun hc => hst hc.2.2.2.1
    refine ⟨hfinal, ?_, ?_⟩
    · rcases (ac_write_condition w req i o).2.1 with h | h
      · exact h
      · exact absurd ((ac_write_condition w req i o).1.1 h) hnc
    · rcases ac_log w req i o with h | h
      · exact absurd h.2.1 hnc
      · exact h.1
  refine ⟨?_, ?_⟩
  · intro h
    have hne : r.flushErr ≠ none := by
      rw [hfe]
      intro hnone
      have hok := flusher_ok_means_no_failure w.store i.puts o.flush hnone
      rcases h with ⟨e, he, hen⟩ | h | h | h
      · exact hen (hok.2.1 e he)
      · rw [hstore, hok.2.2] at h; exact Nat.lt_irrefl _ h
      · exact h hok.1
      · rw [hfe] at h; exact h hnone
    exact ⟨hne, hfail hne⟩
  · intro hne
    rw [hfe] at hne
    have hout := cachingPost_outputs { w with store := (flushingPost (runPuts w.store i.puts).1 i.resp o.flush).1 }
      req (flushingPost (runPuts w.store i.puts).1 i.resp o.flush).2.1 o.ac o.hist
    have hfin : r.final = (cachingPost { w with store := (flushingPost (runPuts w.store i.puts).1 i.resp o.flush).1 }
      req (flushingPost (runPuts w.store i.puts).1 i.resp o.flush).2.1 o.ac o.hist).2 := rfl
    rw [hfin, hout.1, hout.2.1, hout.2.2.1, hout.2.2.2.1, hout.2.2.2.2.1]
    cases hf : (flusher (runPuts w.store i.puts).1 o.flush).2 with
    | none => exact absurd hf hne
    | some c =>
      rw [flushingPost_some _ _ _ c hf]
      exact ⟨rfl, rfl, rfl, rfl, rfl⟩

/-- A failing Action Cache Put or a failing Put of the historical response is
reported too, and a failed AC Put leaves the Action Cache unchanged. -/
theorem caching_failure_reported (w : World) (req : Request) (i : Inner) (o : ExecOracle)
    (h : cachingError req (execute w req i o).flushed o ≠ none) :
    (execute w req i o).final.status.err ≠ none ∧ (execute w req i o).world.ac = w.ac := by
  refine ⟨?_, ?_⟩
  · rw [(first_error_wins w req i o).2]
    cases i.resp.status.err <;> cases (execute w req i o).flushErr <;> simp [firstErr, h]
  · rcases ac_log w req i o with h1 | h1
    · obtain ⟨_, hc, hac, _⟩ := h1
      exfalso; apply h
      unfold cachingError isSuccessful
      obtain ⟨a, b, c, d, e⟩ := hc
      simp [a, b, c, d, e, hac]
    · exact h1.1

/-! ## Non-vacuity: concrete executions that meet the hypotheses -/

private def okResp : Response := ⟨.unset, 0, [1, 2], [3], some 4, none, [], 0⟩
private def okReq : Request := ⟨true, true, false, 7⟩
private def w0 : World := World.init 2 [3]
private def puts4 : List PutCall :=
  [⟨1, 10, .ok⟩, ⟨2, 11, .ok⟩, ⟨1, 12, .ok⟩, ⟨4, 13, { fm := none, puts := [.put 1 none, .put 2 none] }⟩, ⟨3, 14, .ok⟩]
private def oOK : ExecOracle := ⟨{ fm := none, puts := [.put 4 none] }, none, none⟩
/-- the second underlying Put of the batch fails with Unavailable (14) -/
private def putsFail : List PutCall :=
  [⟨1, 10, .ok⟩, ⟨2, 11, .ok⟩, ⟨4, 13, { fm := none, puts := [.put 1 none, .put 2 (some 14)] }⟩]

-- a successful run writes the AC entry, all referenced digests are stored, every buffer consumed once
example : (execute w0 okReq ⟨puts4, okResp⟩ oOK).world.acCalls = w0.acCalls + 1 := by decide
example : (execute w0 okReq ⟨puts4, okResp⟩ oOK).world.store.cas = [4, 2, 1, 3] := by decide
example : (execute w0 okReq ⟨puts4, okResp⟩ oOK).world.store.consumed.length = 5 := by decide
example : (execute w0 okReq ⟨puts4, okResp⟩ oOK).final.message = 1 := by decide
-- acknowledged Puts exist (hypothesis of batched_ack_sound)
example : (4, none) ∈ (runPuts w0.store puts4).2 := by decide
-- a failing underlying Put: third Put returns the error, the flush reports it, nothing is cached, outputs pruned
example : (execute w0 okReq ⟨putsFail, okResp⟩ oOK).putLog = [(1, none), (2, none), (4, some 14)] := by decide
example : (execute w0 okReq ⟨putsFail, okResp⟩ oOK).flushErr = some 14 := by decide
example : (execute w0 okReq ⟨putsFail, okResp⟩ oOK).final.status.err = some 14 := by decide
example : (execute w0 okReq ⟨putsFail, okResp⟩ oOK).world.ac = [] := by decide
example : (execute w0 okReq ⟨putsFail, okResp⟩ oOK).final.files = [] := by decide
-- a history with a flusher call in the middle: only the Puts after it count as "acknowledged since"
example : (runOps ⟨w0.store, [], []⟩ [.put ⟨1, 10, .ok⟩, .flush { fm := none, puts := [.put 1 none] }, .put ⟨2, 11, .ok⟩]).acked = [2] := by decide
example : (flusher (runOps ⟨w0.store, [], []⟩ [.put ⟨1, 10, .ok⟩, .flush { fm := none, puts := [.put 1 none] }, .put ⟨2, 11, .ok⟩]).store
    { fm := none, puts := [.put 2 none] }).2 = none := by decide
-- the context is cancelled while the flusher waits for an upload slot held by another thread:
-- no Put of this flush fails, yet the flush reports Canceled and nothing is cached
example : (execute w0 okReq ⟨[⟨1, 10, .ok⟩, ⟨2, 11, .ok⟩], okResp⟩
    ⟨{ fm := none, puts := [.acquireFailed canceled] }, none, none⟩).flushErr = some canceled := by decide
example : (execute w0 okReq ⟨[⟨1, 10, .ok⟩, ⟨2, 11, .ok⟩], okResp⟩
    ⟨{ fm := none, puts := [.acquireFailed canceled] }, none, none⟩).world.acCalls = 0 := by decide
example : (execute w0 okReq ⟨[⟨1, 10, .ok⟩, ⟨2, 11, .ok⟩], okResp⟩
    ⟨{ fm := none, puts := [.put 1 none, .acquireFailed canceled] }, none, none⟩).world.store.consumed.length = 2 := by decide
-- success reported as an explicit `Status{code: OK}` (with a message): a failing final flush is still attached
example : (execute w0 okReq ⟨[⟨1, 10, .ok⟩], { okResp with status := .ok true }⟩
    ⟨{ fm := some 14, puts := [] }, none, none⟩).final.status.err = some 14 := by decide
example : (execute w0 okReq ⟨[⟨1, 10, .ok⟩], { okResp with status := .ok true }⟩
    ⟨{ fm := some 14, puts := [] }, none, none⟩).world.acCalls = 0 := by decide
example : (execute w0 okReq ⟨[⟨1, 10, .ok⟩], { okResp with status := .ok false }⟩
    ⟨{ fm := none, puts := [.put 1 none] }, none, none⟩).world.acCalls = 1 := by decide
-- a failing AC Put is a caching-layer error
example : cachingError okReq (execute w0 okReq ⟨puts4, okResp⟩ ⟨{ fm := none, puts := [.put 4 none] }, some 14, none⟩).flushed
    ⟨{ fm := none, puts := [.put 4 none] }, some 14, none⟩ = some 14 := by decide

end BbRe.Properties.C09
