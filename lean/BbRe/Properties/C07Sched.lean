import BbRe.Lemmas.SchedInvProps
/-!
# C07 (a) — size-class selection: the linear selector / learner protocol in the scheduler

`Model/Sched.lean` logs every call the scheduler makes on the initial-size-class analyzer as a
ghost event (`selSelect l` = `Selector.Select` returning learner `l`, `selAbandoned`,
`learnerSucceeded l bg`, `learnerFailed l timedOut next`, `learnerAbandoned l`; learner tokens are
issued from `State.nextLearner`).  `step` only appends to `State.events` (the driver clears the
buffer between segments, `step` and `run` do not), so a statement about `s.events` of a
`Reachable` state is a statement about the complete call history of an arbitrary run.
-/
namespace BbRe.Properties.C07Sched
open BbRe.Sched BbRe.Lemmas.SchedInv

/-! ### sample runs for the non-vacuity examples -/
def cfg0 : Cfg := ⟨60, 60, 60, 900, 10, 60, 2, 0⟩
def h0 : Hints := { assign := [], sel := 0, bg := none, retry := false }
def q0 : ScqId := ⟨1, 0⟩
def w0 : WId := ⟨1, 1⟩
def sQueued : State := run (State.init cfg0) [ .register 1 [] 7 [0] 3 0, .exec h0 0 100 55 55 false [] 7 [1] 0 ]
def sAssigned : State := run sQueued [ .sync { h0 with assign := [(q0, w0, 1)] } 0 q0 [] 7 w0 .idle false ]
/-- the worker reports success; the analyzer asks for a background run on size class 0, which the
same worker picks up at once -/
def sDone : State := run sAssigned
  [ .sync { h0 with bg := some 0, assign := [(q0, w0, 2)] } 5 q0 [] 7 w0 (.completed 55 ⟨cOK, 0, 9, .worker⟩) false ]
/-- the worker reports a failure; the analyzer asks for a retry on the largest size class, which
the same worker picks up at once -/
def sRetried : State := run sAssigned
  [ .sync { h0 with retry := true, assign := [(q0, w0, 1)] } 5 q0 [] 7 w0 (.completed 55 ⟨cOK, 1, 9, .worker⟩) false ]
theorem sQueued_reachable : Reachable sQueued := reachable_run (Reachable.init cfg0) _
theorem sAssigned_reachable : Reachable sAssigned := reachable_run sQueued_reachable _
theorem sDone_reachable : Reachable sDone := reachable_run sAssigned_reachable _

/-- **`Inv.learner`.**  A task holds a learner iff it is not completed. -/
theorem learner_iff_not_completed {s : State} (hr : Reachable s) {tid : Nat} {t : Task}
    (ht : s.task? tid = some t) : t.learner.isSome = true ↔ t.response = none :=
  (inv_reachable hr).core.l1 tid t ht

example : (sAssigned.task? 1).map (·.learner) = some (some 1) ∧
    (sDone.task? 1).map (fun t => (t.learner, t.response.isSome)) = some (none, true) := by decide

/-- learner tokens are fresh and not shared between tasks -/
theorem learner_tokens_distinct {s : State} (hr : Reachable s) {k k' : Nat} {t t' : Task} {l : Nat}
    (h1 : s.task? k = some t) (h2 : s.task? k' = some t') (hl : t.learner = some l) (hl' : t'.learner = some l) :
    k = k' ∧ l < s.nextLearner :=
  ⟨(inv_reachable hr).core.l3 k k' t t' l h1 h2 hl hl', (inv_reachable hr).core.l2 k t l h1 hl⟩

/-- **Learner linearity.**  Along any run, every learner token `l`
* receives at most one terminal call (`Succeeded` / `Failed` / `Abandoned`),
* only after it was issued, and is issued at most once (by `Select`, or as the learner returned
  by `Succeeded` / `Failed`),
* has received none while a task still holds it (and has then been issued exactly once),
* and tokens not yet allocated occur nowhere. -/
theorem learner_linear {s : State} (hr : Reachable s) (l : Nat) :
    termCount l s.events ≤ 1 ∧ termCount l s.events ≤ issueCount l s.events ∧ issueCount l s.events ≤ 1 ∧
      (Held s.tasks l → termCount l s.events = 0 ∧ issueCount l s.events = 1) ∧
      (s.nextLearner ≤ l → issueCount l s.events = 0 ∧ termCount l s.events = 0) := by
  have hl := (inv_reachable hr).linv
  have h1 := hl.g1 l
  have h2 := hl.g2 l
  refine ⟨by omega, h1, h2, fun hh => ⟨hl.g3 l hh, hl.g5 l hh⟩, fun hn => ?_⟩
  have := hl.g4 l hn
  exact ⟨this, by omega⟩

/-- the same for the event log of an arbitrary run from the initial state -/
theorem learner_linear_run (cfg : Cfg) (gs : List Seg) (l : Nat) :
    termCount l (run (State.init cfg) gs).events ≤ 1 :=
  (learner_linear (reachable_run (Reachable.init cfg) gs) l).1

/-- in the sample: learner 1 (from `Select`) got its one terminal call (`Succeeded`), which issued
the background learner 2, now held by the background task -/
example : termCount 1 sDone.events = 1 ∧ issueCount 2 sDone.events = 1 ∧ termCount 2 sDone.events = 0 ∧
    (sDone.task? 2).map (fun t => (t.learner, t.background, t.doNotCache)) = some (some 2, true, true) := by
  decide

/-- **Selector linearity.**  Every `Execute` segment that the model accepts makes exactly one
selector call (`Select` or `Abandoned`) — on the dedup hit, on the missing platform queue and on
the normal path alike — and no other segment makes any. -/
theorem selector_linear {s s' : State} (hr : Reachable s) (g : Seg) (h : step s g = .ok s') :
    selCount s'.events = selCount s.events + (match g with | .exec .. => 1 | _ => 0) :=
  step_selCount g (inv_reachable hr) h

example : selCount sQueued.events = 1 ∧ selCount sDone.events = 1 := by decide

/-- **The three-way split of `task.complete`** (no invariant needed: by unfolding the code).
For an uncompleted task holding learner `l`, a call `complete(response r, completedByWorker bw)`
appends
* `Succeeded(l)` iff `r` is OK with exit code 0 — returning the background learner
  `nextLearner` iff the analyzer asks for one (`h.bg`), which is then either kept by the new
  background task or `Abandoned` at once (background learning off / backlog full);
* otherwise `Failed(l, timedOut := code = DEADLINE_EXCEEDED)` iff the response was supplied by
  the worker — returning a new learner iff the analyzer asks for a retry (`h.retry`);
* otherwise (worker lost, no waiters, retry limit, queue removed, operator kill) `Abandoned(l)`;
and nothing else. -/
theorem learner_split {h : Hints} {s s' : State} {tid : Nat} {t : Task} {r : Resp} {bw : Bool} {l : Nat}
    (hh : complete h s tid r bw = .ok s') (ht : s.task? tid = some t) (hr : t.response = none)
    (hl : t.learner = some l) :
    (r.code = cOK ∧ r.exit = 0 →
      s'.events = .learnerSucceeded l (if h.bg.isSome then some s.nextLearner else none) :: s.events ∨
      s'.events = .learnerAbandoned s.nextLearner ::
        .learnerSucceeded l (if h.bg.isSome then some s.nextLearner else none) :: s.events) ∧
    (¬ (r.code = cOK ∧ r.exit = 0) → bw = true →
      s'.events = .learnerFailed l (r.code = cDeadlineExceeded) (if h.retry then some s.nextLearner else none)
        :: s.events) ∧
    (¬ (r.code = cOK ∧ r.exit = 0) → bw = false → s'.events = .learnerAbandoned l :: s.events) :=
  complete_events hh ht hr hl

/-- a completed task is left alone: no learner call at all -/
theorem complete_completed_noop {h : Hints} {s : State} {tid : Nat} {t : Task} {r : Resp} {bw : Bool}
    (ht : s.task? tid = some t) (hr : t.response.isSome = true) : complete h s tid r bw = .ok s := by
  unfold complete
  simp only [ht, hr, if_true]
  rfl

example : sDone.events.any (fun e => match e with | .learnerSucceeded 1 (some 2) => true | _ => false) = true ∧
    sRetried.events.any (fun e => match e with | .learnerFailed 1 false (some 2) => true | _ => false) = true := by
  decide

/-- **Retry once on the largest size class.**  When a worker-supplied failure makes the analyzer
return a learner (`h.retry`), the task stays uncompleted, now holds that fresh learner, has been
moved to the largest size-class queue of its platform queue, and is held again (queued or handed to
a parked worker) at the end of the call. -/
theorem retry_once {h : Hints} {s s' : State} (hreach : Reachable s) {tid : Nat} {t : Task} {r : Resp}
    (ht : s.task? tid = some t) (hr : t.response = none) (hnok : ¬ (r.code = cOK ∧ r.exit = 0))
    (hretry : h.retry = true) (hh : complete h s tid r true = .ok s') :
    ∃ t', s'.task? tid = some t' ∧ t'.response = none ∧ t'.learner = some s.nextLearner ∧
      t'.scq = largestScq s t.scq ∧ (t'.queued = true ∨ t'.worker.isSome = true) := by
  have hI := inv_reachable hreach
  obtain ⟨hI', _, _, _, hre⟩ := wp_of_ok (complete_spec' (h := h) (r := r) (bw := true) hI (by
    have : alookup tid s.tasks = some t := ht
    rw [this]; rfl)) hh
  obtain ⟨t', a1, a2, a3, a4⟩ := hre rfl hretry hnok t ht hr
  refine ⟨t', a1, a4, a2, a3, ?_⟩
  rcases hI'.core.q2 tid t' a1 a4 with h | h | h
  · exact Or.inl h
  · exact Or.inr h
  · exact absurd h id

example : (sRetried.task? 1).map (fun t => (t.response.isSome, t.learner, t.worker.isSome)) =
    some (false, some 2, true) := by decide

/-- **Background learning tasks** are uncacheable and never in the deduplication map. -/
theorem background_uncacheable {s : State} (hr : Reachable s) {tid : Nat} {t : Task}
    (ht : s.task? tid = some t) (hb : t.background = true) :
    t.doNotCache = true ∧ ∀ k, alookup k s.dedup ≠ some tid := by
  have hI := inv_reachable hr
  refine ⟨hI.core.bg tid t ht hb, ?_⟩
  intro k hk
  obtain ⟨t', h1, _, _, _, h5⟩ := hI.core.d1 k tid hk
  have : alookup tid s.tasks = some t := ht
  rw [this] at h1; cases h1
  rw [hb] at h5; cases h5

/-- **Bounded at creation.**  The success branch of `complete` runs `bgPart` (`completeOk_eq`,
`complete_eq`); it creates a task only while fewer than `maximumQueuedBackgroundLearningOperations`
(`bgMax`) background tasks are queued in the chosen size-class queue, and what it creates is a
background, uncacheable task of that queue carrying the key of the completed task.  It is created
in the same segment in which the foreground task became COMPLETED, so no client waits for it. -/
theorem background_bounded_at_creation {h : Hints} {Y s' : State} {t : Task} {i : Nat}
    (hh : bgPart h Y t i = .ok s') (hn : s'.nextTask ≠ Y.nextTask) :
    ∃ pq bsc, Y.pq? t.scq.pq = some pq ∧ countQueuedBackground Y ⟨t.scq.pq, bsc⟩ < pq.bgMax ∧
      s'.nextTask = Y.nextTask + 1 ∧
      ∃ t', s'.task? Y.nextTask = some t' ∧ t'.background = true ∧ t'.doNotCache = true ∧
        t'.scq = ⟨t.scq.pq, bsc⟩ ∧ t'.dkey = t.dkey :=
  bgPart_creates' hh hn

/-- only a successful completion creates a task -/
theorem only_success_creates {h : Hints} {s s' : State} (hreach : Reachable s) {tid : Nat} {r : Resp} {bw : Bool}
    (hex : (s.task? tid).isSome = true) (hh : complete h s tid r bw = .ok s')
    (hn : s'.nextTask ≠ s.nextTask) : r.code = cOK ∧ r.exit = 0 := by
  have hI := inv_reachable hreach
  obtain ⟨_, _, _, hnn, _⟩ := wp_of_ok (complete_spec' (h := h) (r := r) (bw := bw) hI hex) hh
  apply Classical.byContradiction
  intro hc
  exact hn (hnn hc).1

example : sDone.nextTask = sAssigned.nextTask + 1 := by decide

end BbRe.Properties.C07Sched
