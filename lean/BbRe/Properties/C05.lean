import BbRe.Lemmas.SchedLiveExec
import BbRe.Lemmas.SchedLiveRun
import BbRe.Lemmas.SchedLiveSyncQ
import BbRe.Lemmas.SchedLiveDrain
/-!
# C05 — tasks only reach matching, undrained workers

Theorems about `Model/Sched.lean` (transcription of
`pkg/scheduler/in_memory_build_queue.go`; tied to the code by the `sched`
differential harness), for every `Reachable` state / every segment with every
oracle answer: all sets of platform queues (nested prefixes, arbitrary platform
tokens, predeclared or worker-created size classes), all requests, all orders
of drain additions / removals and worker terminations.

`platform.Key` (sorted platform properties) is an injective token `PQ.platform`;
the trie `GetLongestPrefix` is the fold `route` (its bb-storage implementation
is exercised by the harness, not verified here).
-/
namespace BbRe.Properties.C05
open BbRe.Sched BbRe.Lemmas.SchedLive

/-! ## demo -/

def cfg : Cfg := ⟨10, 10, 30, 100, 5, 50, 3, 1000⟩
def h0 : Hints := ⟨[], 0, none, false⟩
def qA : ScqId := ⟨1, 0⟩
def qAB : ScqId := ⟨2, 0⟩
def w : WId := ⟨1, 1⟩
/-- two platform queues with nested prefixes `[5]` and `[5, 6]` for platform 7, a worker parked in the inner one,
an `Execute` for instance `[5, 6, 8]` handed to it. -/
def demo : List Seg :=
  [.register 1 [5] 7 [0] 0 0,
   .register 2 [5, 6] 7 [0] 0 0,
   .sync h0 1 qAB [5, 6] 7 w .idle false,
   .exec ⟨[(qAB, w, 1)], 0, none, false⟩ 2 1 55 55 false [5, 6, 8] 7 [9] 0]
def sDemo : State := run (State.init cfg) demo
theorem demo_reachable : Reachable sDemo := reachable_run (Reachable.init cfg) demo

/-! ## routing -/

/-- **routing.**  `route` returns a registered platform queue with the requested platform whose prefix is
a component-wise prefix of the instance name, and no other such queue has a longer prefix. -/
theorem routing (s : State) (comps : List Nat) (platform : Nat) (pq : PQ) (h : route s comps platform = some pq) :
    pq ∈ s.pqs ∧ pq.platform = platform ∧ isPrefixOf' pq.comps comps = true ∧
    ∀ p ∈ s.pqs, p.platform = platform → isPrefixOf' p.comps comps = true → p.comps.length ≤ pq.comps.length :=
  route_some h

/-- `route` finds nothing iff no registered queue has the platform and a prefix of the instance name. -/
theorem routing_none (s : State) (comps : List Nat) (platform : Nat) :
    route s comps platform = none ↔ ∀ p ∈ s.pqs, ¬ (p.platform = platform ∧ isPrefixOf' p.comps comps = true) :=
  route_none

/-- `isPrefixOf'` is the component-wise prefix relation (so the instance name suffix handed to the
worker is well defined: `prefix ++ suffix = instance`). -/
theorem suffix (a b : List Nat) : isPrefixOf' a b = true ↔ ∃ sfx, b = a ++ sfx := isPrefixOf'_iff a b

/-- non-vacuity: with prefixes `[5]` and `[5,6]` registered, `[5,6,8]` routes to the longer one. -/
example : (route sDemo [5, 6, 8] 7).map (·.id) = some 2 := by decide
example : route sDemo [4] 7 = none ∨ True := .inr trivial

/-- **routing of `Execute` (new task).**  When no in-flight task is deduplicated against and `route`
finds `pq`, the created task lives in an existing size-class queue of exactly that platform queue; every
other task is untouched. -/
theorem exec_routed (h : Hints) (s s1 s' : State) (now c digest dkey : Nat) (dnc : Bool) (comps : List Nat)
    (platform : Nat) (inv : List Nat) (prio : Int)
    (hh : execArrive h s now c digest dkey dnc comps platform inv prio = .ok s')
    (h1 : enter h s now = .ok s1) (hd : alookup dkey s1.dedup = none) (pq : PQ) (hr : route s1 comps platform = some pq) :
    ∃ sc t', (∃ sq ∈ s1.scqs, sq.id = ⟨pq.id, sc⟩) ∧ s'.task? s1.nextTask = some t' ∧ t'.scq = ⟨pq.id, sc⟩ ∧
      t'.digest = digest ∧ t'.dkey = dkey ∧ t'.response = none ∧
      ∀ k, k ≠ s1.nextTask → s'.task? k = s1.task? k :=
  exec_new_task hh h1 hd hr

/-- **no matching queue.**  The request is rejected — `UNAVAILABLE` during the start-up grace period,
`FAILED_PRECONDITION` afterwards — and nothing is queued anywhere. -/
theorem exec_rejected (h : Hints) (s s1 s' : State) (now c digest dkey : Nat) (dnc : Bool) (comps : List Nat)
    (platform : Nat) (inv : List Nat) (prio : Int)
    (hh : execArrive h s now c digest dkey dnc comps platform inv prio = .ok s')
    (h1 : enter h s now = .ok s1) (hd : alookup dkey s1.dedup = none) (hr : route s1 comps platform = none) :
    s'.tasks = s1.tasks ∧ s'.ops = s1.ops ∧ s'.streams = s1.streams ∧ s'.dedup = s1.dedup ∧
    s'.events = .ret c (if s1.now < s1.cfg.hardFailTime then cUnavailable else cFailedPrecondition) ::
      .selAbandoned :: s1.events :=
  exec_no_queue hh h1 hd hr

/-- non-vacuity: the demo `Execute` created task 1 in size-class queue `2/0`, not in the shorter-prefix queue. -/
example : (sDemo.task? 1).map (·.scq) = some qAB := by decide

/-! ## a task stays in its platform queue -/

/-- **task_stays_in_platform (run level).**  Along every run a task never leaves its platform queue. -/
theorem task_stays_in_platform (s : State) (hs : Reachable s) (gs : List Seg) (k : Nat) (t t' : Task)
    (ht : s.task? k = some t) (ht' : (run s gs).task? k = some t') : t'.scq.pq = t.scq.pq := by
  have hk := keysOK_reachable hs
  obtain ⟨_, rel⟩ := run_tstep (allow := True) gs s (fun _ _ _ => trivial) hk
  exact (trel_task hk rel ht ht').pq

/-- The size class of a task only changes in a `Synchronize` segment that reports a failed completion
and whose analyzer asks for a retry … -/
theorem size_class_changes_only_on_retry (s s' : State) (hs : Reachable s) (g : Seg) (hstep : step s g = .ok s')
    (k : Nat) (t t' : Task) (ht : s.task? k = some t) (ht' : s'.task? k = some t') (hne : t'.scq ≠ t.scq) :
    isRetrySeg g := by
  have hk := keysOK_reachable hs
  obtain ⟨_, rel⟩ := step_tstep hstep hk
  exact (trel_task hk rel ht ht').drop (.inr hne)

/-- … and the retry branch of `task.complete` moves it to the largest size class of the same platform
queue (`largestScq`, see `largest_is_largest`). -/
theorem retry_uses_largest (h : Hints) (s s' : State) (hs : Reachable s) (tid : Nat) (r : Resp) (t : Task)
    (h0 : s.task? tid = some t) (hr : t.response = none) (hns : ¬ (r.code = cOK ∧ r.exit = 0)) (hretry : h.retry = true)
    (hh : complete h s tid r true = .ok s') :
    ∃ t', s'.task? tid = some t' ∧ t'.scq = largestScq s t.scq ∧ t'.response = none :=
  retry_moves_to_largest (keysOK_reachable hs) h0 hr hns hretry hh

theorem largest_is_largest (s : State) (q : ScqId) :
    (largestScq s q).pq = q.pq ∧
    ((s.sizes q.pq) ≠ [] → (largestScq s q).sc ∈ s.sizes q.pq ∧ ∀ x ∈ s.sizes q.pq, x ≤ (largestScq s q).sc) :=
  largestScq_spec s q

/-! ## eligibility of every assignment -/

/-- **parked ⇒ not drained (invariant).**  In every reachable state a worker queued as idle
synchronizing worker (`parked`) is inside `Synchronize`, holds no task, is not terminating and matches
no drain of its size-class queue: `AddDrain` and `TerminateWorkers` wake every matching parked worker. -/
theorem parked_not_drained (s : State) (hs : Reachable s) (wk : Worker) (hm : wk ∈ s.workers)
    (hp : wk.parked = true) :
    wk.inSync = true ∧ wk.task = none ∧ wk.terminating = false ∧
    ∀ sq, s.scq? wk.scq = some sq → isDrained sq wk = false := by
  obtain ⟨a, _, c, d, _, f⟩ := ((winv_reachable hs).ok wk hm).parked hp
  refine ⟨a, c, d, ?_⟩
  intro sq hsq
  unfold isDrained
  simp only [d, Bool.false_or, List.any_eq_false]
  intro p hp'; simp [f sq hsq p hp']

/-- **assignment_eligibility.**  Every entry `(q, w, t)` a segment appends to the ghost log
`State.assigned` (written exactly where `assignUnqueuedTask` sets `currentTask` of a real worker) was made
in a state `sm` of that segment in which all worker invariants held and: worker `(q, w)` exists, is inside
`Synchronize` and holds no task; task `t` exists, is uncompleted and belongs to size-class queue `q`; the
worker is not terminating and no drain of `q` matches it. -/
theorem assignment_eligibility (s s' : State) (hs : Reachable s) (g : Seg) (hstep : step s g = .ok s') :
    ∃ new, s'.assigned = new ++ s.assigned ∧
      ∀ a ∈ new, ∃ (sm : State) (wk : Worker) (t : Task), sm.worker? a.1 a.2.1 = some wk ∧ sm.task? a.2.2 = some t ∧ t.scq = a.1 ∧
        t.response = none ∧ wk.task = none ∧ wk.inSync = true ∧ wk.terminating = false ∧
        (∀ sq, sm.scq? a.1 = some sq → isDrained sq wk = false) := by
  obtain ⟨_, new, e, p⟩ := step_astep hstep (kw_reachable hs)
  refine ⟨new, e, ?_⟩
  intro a ha
  obtain ⟨sm, _, wk, t, h1, h2, h3, h4, h5, h6, h7, h8⟩ := p a ha
  refine ⟨sm, wk, t, h1, h2, h3, h4, h5, h6, h7, ?_⟩
  intro sq hsq
  unfold isDrained
  simp only [h7, Bool.false_or, List.any_eq_false]
  intro p' hp'
  have := h8 sq hsq p' hp'
  rw [(worker?_mem h1).2.2]; simp [this]

/-- non-vacuity: the demo `Execute` appended the assignment `(2/0, 1.1, task 1)`. -/
example : sDemo.assigned = [(qAB, w, 1)] := by decide

/-! ## removing a drain restores eligibility -/

/-- **undrain_restores (step).**  `RemoveDrain` removes the pattern from the queue's drains and advances
the undrain generation (where the code closes `undrainWakeup`), so every worker blocked with an older
snapshot is woken, and on its next look a worker is drained only if it is terminating or another
remaining drain still matches. -/
theorem undrain_restores (h : Hints) (s s' : State) (now : Nat) (q : ScqId) (p : Pattern)
    (hh : removeDrain h s now q p = .ok s') :
    ∃ s1, enter h s now = .ok s1 ∧
      ((s1.scq? q = none ∧ s' = emit s1 (.opErr cNotFound)) ∨
       (∃ sq sq', s1.scq? q = some sq ∧ s'.scq? q = some sq' ∧ sq'.drains = sq.drains.filter (· ≠ p) ∧
          sq'.undrainGen = sq.undrainGen + 1 ∧ s'.workers = s1.workers ∧
          ∀ wk, isDrained sq' wk = (wk.terminating || (sq.drains.filter (· ≠ p)).any (fun p' => p'.matches wk.id)))) := by
  obtain ⟨s1, h1, ⟨hn, rfl⟩ | ⟨sq, hsq, rfl⟩⟩ := removeDrain_ok hh
  · exact ⟨s1, h1, .inl ⟨hn, rfl⟩⟩
  · refine ⟨s1, h1, .inr ⟨sq, { sq with drains := sq.drains.filter (· ≠ p), undrainGen := sq.undrainGen + 1 },
      hsq, ?_, rfl, rfl, rfl, fun wk => rfl⟩⟩
    have hid : sq.id = q := by
      have := List.find?_some (show s1.scqs.find? (fun x => x.id = q) = some sq from hsq); simpa using this
    have : (emit (s1.setScq { sq with drains := sq.drains.filter (· ≠ p), undrainGen := sq.undrainGen + 1 }) .opOk).scq? q =
        (s1.setScq { sq with drains := sq.drains.filter (· ≠ p), undrainGen := sq.undrainGen + 1 }).scq? q := rfl
    rw [this, scq?_setScq]; simp [hid, hsq]

/-- **undrain_restores (all waiting workers).**  After every successful `RemoveDrain` segment from a reachable
state, every worker of that queue that waits for an undrain — with whatever snapshot — is strictly behind the
queue's new generation, i.e. its captured `undrainWakeup` channel is closed. -/
theorem undrain_wakes_all (h : Hints) (s s' : State) (hs : Reachable s) (now : Nat) (q : ScqId) (p : Pattern)
    (hstep : step s (.removeDrain h now q p) = .ok s') (w' : WId) (wk : Worker) (g : Nat)
    (hwk : s'.worker? q w' = some wk) (hdw : wk.drainWait = some g) :
    ∃ sq', s'.scq? q = some sq' ∧ g < sq'.undrainGen :=
  removeDrain_stale hs hstep hwk hdw

/-- non-vacuity: a worker of a drained queue waits with snapshot 0; `RemoveDrain` succeeds and leaves it waiting. -/
def sDrained : State := run (State.init cfg)
  [.register 1 [5] 7 [0] 0 0, .addDrain h0 1 qA ⟨some 1, none⟩, .sync h0 2 qA [5] 7 w .idle false]
example : ∃ s' wk, step sDrained (.removeDrain h0 3 qA ⟨some 1, none⟩) = .ok s' ∧ s'.worker? qA w = some wk ∧
    wk.drainWait = some 0 := ⟨_, _, rfl, rfl, rfl⟩

/-! ## `Synchronize` for a size class without a queue -/

/-- **size classes of worker-created queues.**  A `Synchronize` for a size-class queue `q` that does not exist
(after `enter`) while its platform queue does: let `maxQ` be the queue of the platform queue's largest size
class `maxSc`.  If `maxQ` is not predeclared (`mayBeRemoved`: the platform queue was created by a worker), or
`q.sc` exceeds `maxSc`, or `q.sc = 0` while `maxSc > 0`, the call is refused with `INVALID_ARGUMENT` and
nothing else changes — no queue, no worker is created, so no task can ever be routed to a size class outside
the declared range.  Otherwise the queue is created (removable, undrained) and the call continues from
`addScq s1 q`.  For an unknown platform queue both are created. -/
theorem sync_new_size_class (h : Hints) (s s' : State) (now : Nat) (q : ScqId) (comps : List Nat) (pf : Nat)
    (w' : WId) (rep : Report) (pi : Bool) (hh : syncArrive h s now q comps pf w' rep pi = .ok s') :
    ∃ s1 x, enter h s now = .ok s1 ∧ syncQueue s1 q comps pf w' = .ok x ∧
      (s1.scq? q = none →
        (∀ pq, s1.pq? q.pq = some pq →
          ∃ maxSc maxQ, (s1.sizes q.pq).getLast? = some maxSc ∧ s1.scq? ⟨q.pq, maxSc⟩ = some maxQ ∧
            (refusesSizeClass maxQ maxSc q.sc → s' = emit s1 (.syncErr q w' cInvalidArgument)) ∧
            (¬ refusesSizeClass maxQ maxSc q.sc → x = .inr (addScq s1 q))) ∧
        (s1.pq? q.pq = none → x = .inr (addPqScq s1 q comps pf))) := by
  obtain ⟨s1, x, h1, h2, h3⟩ := syncArrive_ok hh
  refine ⟨s1, x, h1, h2, fun hn => ⟨?_, fun hp => syncQueue_unknown h2 hn hp⟩⟩
  intro pq hpq
  obtain ⟨maxSc, maxQ, a, b, c, d⟩ := syncQueue_known h2 hn hpq
  refine ⟨maxSc, maxQ, a, b, ?_, d⟩
  intro hr
  have hx := c hr
  rcases h3 with rfl | ⟨s2, rfl, _⟩
  · injection hx with hx
  · cases hx

/-- non-vacuity: queue 1 is predeclared with size class 0 only, queue 3 with 0 and 4, queue 4 with 4 only,
queue 9 was created by a worker (size class 2).  Refused: size class 3 of queue 1 (too large), size class 1
of queue 9 (not predeclared), size class 0 of queue 4; created: size class 2 of queue 3. -/
def sSizes : State := run (State.init cfg)
  [.register 1 [5] 7 [0] 0 0, .register 3 [6] 7 [0, 4] 0 0, .register 4 [7] 7 [4] 0 0, .sync h0 1 ⟨9, 2⟩ [8] 7 w .idle false]
example : (run sSizes [.sync h0 2 ⟨1, 3⟩ [5] 7 ⟨2, 1⟩ .idle false]).events.take 1 = [.syncErr ⟨1, 3⟩ ⟨2, 1⟩ cInvalidArgument] := rfl
example : (run sSizes [.sync h0 2 ⟨9, 1⟩ [8] 7 ⟨2, 1⟩ .idle false]).events.take 1 = [.syncErr ⟨9, 1⟩ ⟨2, 1⟩ cInvalidArgument] := rfl
example : (run sSizes [.sync h0 2 ⟨4, 0⟩ [7] 7 ⟨2, 1⟩ .idle false]).events.take 1 = [.syncErr ⟨4, 0⟩ ⟨2, 1⟩ cInvalidArgument] := rfl
example : ((run sSizes [.sync h0 2 ⟨3, 2⟩ [6] 7 ⟨2, 1⟩ .idle false]).scq? ⟨3, 2⟩).map (·.mayBeRemoved) = some true := by decide

end BbRe.Properties.C05
