import BbRe.Model.ISC
import BbRe.Lemmas.ISCPath
import BbRe.Lemmas.ISCRange
import BbRe.Lemmas.ISCFaster
import BbRe.Lemmas.ISCStoch
import BbRe.Lemmas.ISCSelect
import BbRe.Lemmas.ISCPanic
import BbRe.Lemmas.ISCSym
/-!
# C07 (b) — the size-class analyzers' own state machine and value ranges

Property theorems about `Model/ISC.lean`, the transcription of
`pkg/scheduler/initialsizeclass/{fallback_analyzer, feedback_driven_analyzer, outcomes,
page_rank_strategy_calculator, smallest_size_class_strategy_calculator,
action_timeout_extractor}.go`.  Helper lemmas live in `BbRe/Lemmas/ISC*.lean`.

All statements are universally quantified: over every statistics message, size-class
list, random draw, clock reading, outcome sequence (`List Ev`), interference by other
requests holding a handle of the same message (`interfere`), and — for the range
theorems — over every interpretation of the float→duration conversions (`FloatOps`).
Probabilities are exact rationals; IEEE rounding of the Go code is modelled, not verified.
-/
namespace BbRe.Properties.C07ISC
open BbRe.ISC BbRe.Lemmas.ISC

/-! ## Concrete objects for the non-vacuity examples -/

/-- PageRank calculator: 10 s minimum timeout, exponent 1, multiplier 3/2, convergence error 1/500. -/
def exCfg : PageRankCfg := { F := exactOps 1 3 2, minTO := 10, eps := 1 / 500, fuel := 1000 }
def exEnv : Env := { calculator := .pageRank exCfg, historySize := 4, failureCacheDuration := 100 }
def exEnvSmallest : Env := { calculator := .smallest, historySize := 4, failureCacheDuration := 100 }

/-- Size class 1 always failed, 8 (the largest) succeeded twice. -/
def exStats : Stats :=
  { classes := [(1, { execs := [.failed, .failed, .failed] }), (8, { execs := [.succeeded 40, .succeeded 60] })] }

/-! ## The ISCC handle is released exactly once -/

/-- **handle_released_once.**  Take any request against the feedback-driven analyzer:
`Select` on any message / size-class list / draw, followed by any sequence of terminal calls
(`Succeeded`, `Failed`, `Abandoned`, delivered for as long as a learner is outstanding), with
arbitrary changes of the shared message by other requests between the calls.  Unless a call
panicked, the handle has received no `Release` while a learner is outstanding, and exactly
one `Release` once the path has ended (`cur = none`); its dirty flag is `true` exactly when
one of the calls of this request mutated the message (`addPreviousExecution` /
`updateLastSeenFailure`).  Every learner on the way holds the handle. -/
theorem handle_released_once (env : Env) (interfere : Nat → Stats → Stats) (stats : Stats) (origTO : Int)
    (classes : List Nat) (now : Int) (r : Rat) (evs : List Ev) (t : Trace)
    (h : selectorRun env interfere stats origTO classes now r evs = some t) (hp : t.panicked = false) :
    (t.cur = none → t.releases = [t.mutated]) ∧
    (∀ l, t.cur = some l → t.releases = [] ∧ l.holdsHandle = true) := by
  unfold selectorRun at h
  split at h
  · simp at h
  · rename_i so hso
    simp only [Option.some.injEq] at h
    obtain ⟨hrel, hmut, l, hl, hh, hd, _⟩ := selectFD_next env stats origTO classes now r so hso
    have hg : Good (Trace.ofSelect so.out classes.length) := by
      simp [Good, Trace.ofSelect, hl, hrel, hmut, hh, hd]
    have := runPath_good env interfere evs _ so.out.stats hg
    rw [h] at this
    constructor
    · intro hc
      simp only [Good, hc] at this
      rcases this with this | this
      · rw [hp] at this; exact absurd this (by simp)
      · exact this
    · intro l' hc
      simp only [Good, hc] at this
      exact ⟨this.2.1, this.1⟩

-- a failure on the smaller class, retried on the largest, then success: one dirty release
example : (selectorRun exEnvSmallest (fun _ s => s) exStats 100 [1, 8] 0 0
    [.failed false 5, .succeeded 70 [1, 8]]).map (fun t => (t.releases, t.mutated, t.cur, t.calls)) =
    some ([true], true, none, 2) := by decide +kernel

-- abandoned right after Select: one clean release
example : (selectorRun exEnvSmallest (fun _ s => s) exStats 100 [1, 8] 0 0
    [.abandoned]).map (fun t => (t.releases, t.mutated, t.cur)) = some ([false], false, none) := by decide +kernel

/-- `Selector.Abandoned` releases the handle once, clean, without touching the message. -/
theorem selector_abandoned_releases_clean (stats : Stats) :
    (selectorAbandoned stats).release = some false ∧ (selectorAbandoned stats).mutated = false ∧
    (selectorAbandoned stats).stats = stats ∧ (selectorAbandoned stats).next = none := by
  simp [selectorAbandoned]

/-- A release is clean only if the message is exactly what `Select` left behind: along a path
on which no call reported a mutation (and nobody else interfered), the final message equals
the message after `Select`.  Together with `handle_released_once` (dirty = some call mutated):
a change of the statistics is never released clean. -/
theorem clean_release_means_unchanged (env : Env) (t0 : Trace) (stats : Stats) (evs : List Ev)
    (hm : (runPath env (fun _ s => s) t0 stats evs).1.mutated = false)
    (hp : (runPath env (fun _ s => s) t0 stats evs).1.panicked = false) :
    (runPath env (fun _ s => s) t0 stats evs).2 = stats :=
  (runPath_unmutated env evs t0 stats hm hp).2

/-- Learners of the fallback analyzer never touch a handle or the message. -/
theorem fallback_never_touches_handle (stats : Stats) (timeout : Int) (classes : List Nat)
    (evs : List Ev) :
    (fallbackRun stats timeout classes evs).releases = [] ∧
    (fallbackRun stats timeout classes evs).mutated = false := by
  unfold fallbackRun
  have h0 : NoHandle (Trace.ofSelect (selectFallback stats timeout classes) classes.length) := by
    unfold selectFallback
    split <;> simp [NoHandle, Trace.ofSelect, Learner.holdsHandle]
  have := runPath_noHandle fallbackEnv (fun _ s => s) evs _ (selectFallback stats timeout classes).stats h0
  exact ⟨this.1, this.2.1⟩

/-- **at most two terminal calls.**  A request consists of at most two learners: the one
returned by `Select` and at most one successor (the retry on the largest size class after a
failure on a smaller one, or the background run on the smaller size class after a success on
the largest).  A successor never yields a third learner: while a learner is outstanding at
most one call has been made, and no path has more than two. -/
theorem at_most_two_terminal_calls (env : Env) (interfere : Nat → Stats → Stats) (stats : Stats) (origTO : Int)
    (classes : List Nat) (now : Int) (r : Rat) (evs : List Ev) (t : Trace)
    (h : selectorRun env interfere stats origTO classes now r evs = some t) :
    t.calls ≤ 2 ∧ (t.cur.isSome = true → t.calls ≤ 1) := by
  unfold selectorRun at h
  split at h
  · simp at h
  · rename_i so hso
    simp only [Option.some.injEq] at h
    obtain ⟨_, _, l, hl, _, _, hrem⟩ := selectFD_next env stats origTO classes now r so hso
    have hb : Bounded (Trace.ofSelect so.out classes.length) := by
      simp [Bounded, Trace.ofSelect, hl]; exact hrem
    have := runPath_bounded env interfere evs _ so.out.stats hb
    rw [h] at this
    cases hc : t.cur with
    | none => simp only [Bounded, hc] at this; simp; exact this
    | some l' =>
      simp only [Bounded, hc] at this
      have : 1 ≤ remaining l' := by cases l' <;> simp [remaining]
      simp; omega

/-- The same bound for the fallback analyzer (retry once on the largest size class). -/
theorem fallback_at_most_two_terminal_calls (stats : Stats) (timeout : Int) (classes : List Nat)
    (evs : List Ev) : (fallbackRun stats timeout classes evs).calls ≤ 2 := by
  unfold fallbackRun
  have h0 : Bounded (Trace.ofSelect (selectFallback stats timeout classes) classes.length) := by
    unfold selectFallback
    split <;> simp [Bounded, Trace.ofSelect, remaining]
  have := runPath_bounded fallbackEnv (fun _ s => s) evs _ (selectFallback stats timeout classes).stats h0
  revert this
  generalize (runPath fallbackEnv (fun _ s => s) _ _ evs).1 = t
  intro this
  cases hc : t.cur with
  | none => simpa [Bounded, hc] using this
  | some l' => simp only [Bounded, hc] at this; omega

example : (fallbackRun exStats 100 [1, 8] [.failed true 0, .failed false 0, .failed false 0]).calls = 2 := by
  decide +kernel

/-! ## Every choice is well formed -/

/-- `Select` does not panic on a non-empty size-class list (for every message, draw and
calculator): the strategy list is never longer than the size-class list. -/
theorem select_no_panic (env : Env) (stats : Stats) (origTO : Int) (classes : List Nat) (now : Int) (r : Rat)
    (hne : classes ≠ []) : (selectFD env stats origTO classes now r).isSome = true := by
  unfold selectFD
  cases hl : classes.getLast? with
  | none => simp [List.getLast?_eq_none_iff] at hl; exact absurd hl hne
  | some largest =>
    simp only
    have := chooseFD_isSome { stats with classes := (strategiesFD env stats origTO classes now).1 }
      (strategiesFD env stats origTO classes now).2.1 origTO classes largest r
      (strategiesFD_length env stats origTO classes now)
    cases hc : chooseFD { stats with classes := (strategiesFD env stats origTO classes now).1 }
      (strategiesFD env stats origTO classes now).2.1 origTO classes largest r with
    | none => rw [hc] at this; simp at this
    | some o => simp

/-- **no panic inside the scheduler's envelope.**  If `history_size ≥ 1` and every size-class
list passed to `Succeeded` ends in the same largest size class as the list passed to `Select`
(the scheduler never changes the largest size class of a platform queue with several size
classes), no call of the request panics — for every message, draw, outcome sequence and
interference.  So `handle_released_once` applies to every such path.  (Outside the envelope
`largestBackgroundLearner.Succeeded` dereferences a nil median; see
`largestBg_panics_outside_envelope`.) -/
theorem no_panic_in_envelope (env : Env) (interfere : Nat → Stats → Stats) (stats : Stats) (origTO : Int)
    (classes : List Nat) (now : Int) (r : Rat) (evs : List Ev) (t : Trace)
    (hh : 1 ≤ env.historySize)
    (hev : ∀ d cs, Ev.succeeded d cs ∈ evs → cs.getLast? = classes.getLast?)
    (h : selectorRun env interfere stats origTO classes now r evs = some t) : t.panicked = false := by
  unfold selectorRun at h
  split at h
  · simp at h
  · rename_i so hso
    simp only [Option.some.injEq] at h
    obtain ⟨largest, hlast, _, hc⟩ := selectFD_eq env stats origTO classes now r so hso
    have h0 : Calm env classes (Trace.ofSelect so.out classes.length) := by
      refine ⟨rfl, ?_⟩
      intro L to sm hcur
      have hn : so.out.next = some (.largestBg L to sm) := by simpa [Trace.ofSelect] using hcur
      obtain ⟨hL, s, hs, hb⟩ := chooseFD_largestBg _ _ _ _ _ _ _ hc L to sm hn
      exact ⟨strategiesFD_background env stats origTO classes now s hs hb, by rw [hL]; exact hlast⟩
    have := runPath_calm env classes interfere hh evs hev _ so.out.stats h0
    rw [h] at this
    exact this.1

example : (selectorRun exEnv (fun _ s => s) exStats 100 [1, 8] 0 0
    [.succeeded 50 [1, 8], .failed true 7]).map (fun t => (t.panicked, t.releases, t.calls)) =
    some (false, [true], 2) := by decide +kernel

/-- The envelope is needed: the list passed to `Succeeded` ends in a size class the message
has never seen, and the call panics (nil dereference in `GetBackgroundExecutionTimeout`). -/
theorem largestBg_panics_outside_envelope :
    (selectorRun exEnv (fun _ s => s) exStats 100 [1, 8] 0 0 [.succeeded 50 [1, 16]]).map (·.panicked) =
      some true := by
  decide +kernel

/-- **index_valid.**  Every size-class index handed to the scheduler together with a learner —
by `Select` and by every `Succeeded` along every path — is an index into the size-class list
that was passed to that very call; in particular when the list passed to `Succeeded` differs
from the one passed to `Select` (a smaller size class disappeared: no learner is returned). -/
theorem index_valid (env : Env) (interfere : Nat → Stats → Stats) (stats : Stats) (origTO : Int)
    (classes : List Nat) (now : Int) (r : Rat) (evs : List Ev) (t : Trace)
    (h : selectorRun env interfere stats origTO classes now r evs = some t) :
    ∀ p ∈ t.indices, p.1 < p.2 := by
  unfold selectorRun at h
  split at h
  · simp at h
  · rename_i so hso
    simp only [Option.some.injEq] at h
    obtain ⟨largest, hlast, _, hc⟩ := selectFD_eq env stats origTO classes now r so hso
    have hne := getLast?_some_ne_nil classes largest hlast
    have hr := chooseFD_range _ _ origTO classes largest r so.out hne hc
    have h0 : InRange env origTO (Trace.ofSelect so.out classes.length) := by
      refine ⟨?_, ?_, ?_⟩
      · intro p hp
        simp only [Trace.ofSelect] at hp
        split at hp
        · simp at hp; subst hp; exact hr.1
        · simp at hp
      · intro hmin horig x hx
        simp only [Trace.ofSelect] at hx
        split at hx
        · simp at hx; subst hx
          exact hr.2.1 (strategiesFD_ok env stats origTO classes now hmin horig) horig
        · simp at hx
      · intro l hl
        exact hr.2.2 l (by simpa [Trace.ofSelect] using hl)
    have := runPath_inRange env origTO interfere evs _ so.out.stats h0
    rw [h] at this
    exact this.1

/-- Index validity for the fallback analyzer: always index 0 of a non-empty list. -/
theorem fallback_index_valid (stats : Stats) (timeout : Int) (classes : List Nat) (hne : classes ≠ []) :
    (selectFallback stats timeout classes).idx < classes.length := by
  have : 0 < classes.length := List.length_pos_iff.mpr hne
  unfold selectFallback
  split <;> simpa using this

/-- **timeout_range.**  If the configured minimum execution timeout and the action's own
timeout are not negative, every timeout handed to the scheduler together with a learner — by
`Select`, by `Failed` (retry on the largest size class) and by `Succeeded` (background run) —
lies between zero and the action's own timeout, whatever the float conversions compute
(`FloatOps` is arbitrary inside `env`). -/
theorem timeout_range (env : Env) (interfere : Nat → Stats → Stats) (stats : Stats) (origTO : Int)
    (classes : List Nat) (now : Int) (r : Rat) (evs : List Ev) (t : Trace)
    (hmin : minNonneg env) (horig : 0 ≤ origTO)
    (h : selectorRun env interfere stats origTO classes now r evs = some t) :
    ∀ x ∈ t.timeouts, 0 ≤ x ∧ x ≤ origTO := by
  unfold selectorRun at h
  split at h
  · simp at h
  · rename_i so hso
    simp only [Option.some.injEq] at h
    obtain ⟨largest, hlast, _, hc⟩ := selectFD_eq env stats origTO classes now r so hso
    have hne := getLast?_some_ne_nil classes largest hlast
    have hr := chooseFD_range _ _ origTO classes largest r so.out hne hc
    have h0 : InRange env origTO (Trace.ofSelect so.out classes.length) := by
      refine ⟨?_, ?_, ?_⟩
      · intro p hp
        simp only [Trace.ofSelect] at hp
        split at hp
        · simp at hp; subst hp; exact hr.1
        · simp at hp
      · intro hmin horig x hx
        simp only [Trace.ofSelect] at hx
        split at hx
        · simp at hx; subst hx
          exact hr.2.1 (strategiesFD_ok env stats origTO classes now hmin horig) horig
        · simp at hx
      · intro l hl
        exact hr.2.2 l (by simpa [Trace.ofSelect] using hl)
    have := runPath_inRange env origTO interfere evs _ so.out.stats h0
    rw [h] at this
    exact this.2.1 hmin horig

-- background learner: Select on the largest class with the full timeout, then a background
-- run on class 1 with the clamped timeout max(10, 40·8·3/2 …) ≤ 100
example : (selectorRun exEnv (fun _ s => s) exStats 100 [1, 8] 0 0
    [.succeeded 50 [1, 8]]).map (fun t => (t.timeouts, t.indices)) = some ([100, 100], [(1, 2), (0, 2)]) := by
  decide +kernel

/-- Every strategy's foreground timeout is in range as well (not only the chosen one). -/
theorem strategy_timeouts_range (env : Env) (stats : Stats) (origTO : Int) (classes : List Nat) (now : Int)
    (hmin : minNonneg env) (horig : 0 ≤ origTO) :
    ∀ s ∈ (strategiesFD env stats origTO classes now).2.1, 0 ≤ s.fgTimeout ∧ s.fgTimeout ≤ origTO :=
  strategiesFD_ok env stats origTO classes now hmin horig

/-- The timeouts and indices of the fallback analyzer: the action's own timeout, index 0. -/
theorem fallback_timeout_range (stats : Stats) (timeout : Int) (classes : List Nat) (evs : List Ev)
    (h0 : 0 ≤ timeout) (hne : classes ≠ []) :
    (∀ x ∈ (fallbackRun stats timeout classes evs).timeouts, 0 ≤ x ∧ x ≤ timeout) ∧
    (∀ p ∈ (fallbackRun stats timeout classes evs).indices, p.1 < p.2) := by
  have hlen : 0 < classes.length := List.length_pos_iff.mpr hne
  unfold fallbackRun
  have hi : InRange fallbackEnv timeout (Trace.ofSelect (selectFallback stats timeout classes) classes.length) := by
    unfold selectFallback
    split
    · refine ⟨?_, ?_, by simp [Trace.ofSelect, TOk]⟩
      · intro p hp; simp [Trace.ofSelect] at hp; subst hp; exact hlen
      · intro _ _ x hx; simp [Trace.ofSelect] at hx; subst hx; omega
    · refine ⟨?_, ?_, by simp [Trace.ofSelect, TOk]⟩
      · intro p hp; simp [Trace.ofSelect] at hp; subst hp; exact hlen
      · intro _ _ x hx; simp [Trace.ofSelect] at hx; subst hx; omega
  have := runPath_inRange fallbackEnv timeout (fun _ s => s) evs _ (selectFallback stats timeout classes).stats hi
  exact ⟨this.2.1 (by simp [minNonneg, fallbackEnv]) h0, this.1⟩

/-- **ExtractTimeout** rejects anything outside `[0, maximum]`: an accepted timeout that was
supplied by the action lies in that interval; an absent timeout yields the default. -/
theorem extract_timeout_range (defaultTO maxTO : Int) (a : ActionTimeout) (t : Int)
    (h : extractTimeout defaultTO maxTO a = some t) :
    (a = .unset ∧ t = defaultTO) ∨ (∃ s n, a = .set s n ∧ 0 ≤ t ∧ t ≤ maxTO) := by
  cases a with
  | unset => left; simp [extractTimeout] at h; exact ⟨rfl, h.symm⟩
  | set s n =>
    right
    refine ⟨s, n, rfl, ?_⟩
    unfold extractTimeout at h
    simp only at h
    split at h
    · simp at h
    · split at h
      · simp at h
      · rename_i hr
        simp only [Option.some.injEq] at h
        subst h
        simp only [Bool.or_eq_true, decide_eq_true_eq, not_or] at hr
        omega

example : extractTimeout 1800 3600 (.set 0 0) = some 0 := by decide
example : extractTimeout 1800 3600000000000 (.set 3600 0) = some 3600000000000 := by decide
example : extractTimeout 1800 3600000000000 (.set 3600 1) = none := by decide
example : extractTimeout 1800 3600000000000 (.set 5 (-1)) = none := by decide
example : extractTimeout 1800 3600000000000 (.set 315576000000 0) = none := by decide

/-! ## `Outcomes.IsFaster` -/

/-- **isFaster_open_interval.**  For all outcome sets the integer score of `IsFaster` lies
strictly between 0 and the denominator `2 + cA + cB + 2·cA·cB`, hence the probability lies
strictly between 0 and 1 (needed for the matrix to be stochastic with a positive diagonal).
Holds without assuming the success lists are sorted. -/
theorem isFaster_open_interval (a b : Outcomes) :
    0 < isFasterScore a b ∧ isFasterScore a b < isFasterDenom a b ∧
    0 < isFaster a b ∧ isFaster a b < 1 :=
  ⟨isFasterScore_pos a b, isFasterScore_lt_denom a b, isFaster_pos a b, isFaster_lt_one a b⟩

/-- **isFaster antisymmetry.**  For outcome sets built by `NewOutcomes` (which sorts the
successes) `x.IsFaster(y) + y.IsFaster(x) = 1`, and for any sorted success lists the two integer
scores add up to the common denominator: the merge loop computes exactly the Mann-Whitney pair
score (2 per pair won, 1 per tie, failures slower than every success and tied among themselves)
plus the `1 + count` smoothing. -/
theorem isFaster_antisymmetric (sa sb : List Int) (fa fb : Nat) :
    isFaster (newOutcomes sa fa) (newOutcomes sb fb) + isFaster (newOutcomes sb fb) (newOutcomes sa fa) = 1 ∧
    isFasterScore (newOutcomes sa fa) (newOutcomes sb fb) + isFasterScore (newOutcomes sb fb) (newOutcomes sa fa) =
      isFasterDenom (newOutcomes sa fa) (newOutcomes sb fb) :=
  ⟨isFaster_sym _ _ (sortInts_sorted sa) (sortInts_sorted sb),
   isFasterScore_sym _ _ (sortInts_sorted sa) (sortInts_sorted sb)⟩

example : isFasterScore { successes := [1, 2, 2, 5], failures := 1 } { successes := [2, 3], failures := 2 } = 33 ∧
    isFasterDenom { successes := [1, 2, 2, 5], failures := 1 } { successes := [2, 3], failures := 2 } = 51 := by
  simp [isFasterScore, isFasterDenom, Outcomes.count, mergeScore, takeEq]

/-! ## The PageRank matrix and the power iteration -/

/-- **stochastic_step.**  For any outcome sets and `n ≥ 2` size classes, the matrix built by
`GetStrategies` has `n` rows of `n` non-negative entries each summing to one (left stochastic
in the code's orientation), and one power-iteration step maps any vector of length `n` to a
vector of length `n` with the same sum, preserving non-negativity: probability vectors are
mapped to probability vectors. -/
theorem stochastic_step (outs : List Outcomes) (n : Nat) (hn : 2 ≤ n) :
    ((matrix outs n).length = n ∧
      ∀ row ∈ matrix outs n, row.length = n ∧ sumRat row = 1 ∧ ∀ x ∈ row, 0 ≤ x) ∧
    ∀ p : List Rat, p.length = n →
      (stepVec (matrix outs n) p).length = n ∧
      sumRat (stepVec (matrix outs n) p) = sumRat p ∧
      ((∀ x ∈ p, 0 ≤ x) → ∀ x ∈ stepVec (matrix outs n) p, 0 ≤ x) :=
  ⟨matrix_facts outs n hn, fun p hp => stepVec_facts outs n hn p hp⟩

/-- The vector the iteration starts from sums to one, and so does every iterate, whatever
probabilities were restored from the message (exact arithmetic). -/
theorem power_iteration_sum_one (outs : List Outcomes) (pcs : List PerClass) (hn : 2 ≤ pcs.length)
    (eps : Rat) (fuel : Nat) :
    sumRat (iterate (matrix outs pcs.length) eps fuel (startVec pcs)).1 = 1 := by
  have hs := startVec_facts pcs (by omega)
  have := iterate_facts outs pcs.length hn eps fuel (startVec pcs) hs.1
  rw [this.2.1, hs.2.1]

/-- The strategies returned by `GetStrategies` are all but the last entry of the iterated
vector, and that vector sums to one (`power_iteration_sum_one`): the returned probabilities sum
to `1 - p(largest)`.  So "the returned probabilities sum to more than one" is exactly "the entry
of the largest size class is negative" — one phenomenon, not two (the monitor judges both alike). -/
theorem returned_sum_is_one_minus_largest (l : List Rat) (x : Rat) (h : sumRat (l ++ [x]) = 1) :
    sumRat ((l ++ [x]).take ((l ++ [x]).length - 1)) = 1 - x ∧
    (sumRat ((l ++ [x]).take ((l ++ [x]).length - 1)) ≤ 1 ↔ 0 ≤ x) := by
  have ht : (l ++ [x]).take ((l ++ [x]).length - 1) = l := by simp
  rw [ht]
  rw [sumRat_append] at h
  simp only [sumRat] at h
  constructor
  · grind
  · constructor <;> intro _ <;> grind

example : sumRat (([1 / 4, 1 / 4] : List Rat) ++ [1 / 2]) = 1 := by decide +kernel

/-- **restored_start_in_open_interval.**  For EVERY value of `initial_page_rank_probability`
that can be read back from the Initial Size Class Cache — NaN, +Inf, -Inf, negative, zero,
denormal, one, larger than one (non-finite values are explicit constructors of `StoredProb`,
not real numbers) — the restore guard of `GetStrategies`
(`probability := 0.5; if restored > 0 && restored < 1 { probability = restored }`) yields a
starting probability strictly between 0 and 1: no stored value can poison the power iteration.
Hence every restored entry of the starting vector of every message is in (0,1). -/
theorem restored_start_in_open_interval :
    (∀ v : StoredProb, 0 < restoredOf v ∧ restoredOf v < 1) ∧
    (∀ pcs : List PerClass, ∀ x ∈ restored pcs, 0 < x ∧ x < 1) := by
  refine ⟨restoredOf_range, ?_⟩
  intro pcs x hx
  simp only [restored, List.mem_map] at hx
  obtain ⟨pc, _, rfl⟩ := hx
  exact restoredOf_range pc.prob

example : restoredOf .nan = 1 / 2 ∧ restoredOf .posInf = 1 / 2 ∧ restoredOf .negInf = 1 / 2 ∧
    restoredOf (.fin 0) = 1 / 2 ∧ restoredOf (.fin 1) = 1 / 2 ∧ restoredOf (.fin (-1 / 4)) = 1 / 2 ∧
    restoredOf (.fin (3 / 2)) = 1 / 2 ∧ restoredOf (.fin (1 / 1024)) = 1 / 1024 := by decide +kernel

/-- **probabilities_range.**  Whenever the starting vector is non-negative — the restored
probabilities (those strictly between 0 and 1, otherwise 1/2) of all size classes but the
first sum to at most one; this is always so for at most three size classes without restored
values — the strategies used by `Select` have non-negative probabilities, every prefix sum
lies in `[0,1]`, and the probabilities sum to at most one, for every calculator, message,
size-class list and after any number of power iterations (whatever the convergence error). -/
theorem probabilities_range (env : Env) (stats : Stats) (origTO : Int) (classes : List Nat) (now : Int)
    (hstart : sumRat (restored ((classList (ensureClasses stats.classes classes) classes).drop 1)) ≤ 1) :
    (∀ x ∈ probs (strategiesFD env stats origTO classes now).2.1, 0 ≤ x ∧ x ≤ 1) ∧
    (∀ k, 0 ≤ prefixSum (strategiesFD env stats origTO classes now).2.1 k ∧
          prefixSum (strategiesFD env stats origTO classes now).2.1 k ≤ 1) ∧
    sumRat (probs (strategiesFD env stats origTO classes now).2.1) ≤ 1 := by
  have h := strategiesFD_probs env stats origTO classes now hstart
  refine ⟨?_, fun k => prefix_range _ h.1 h.2 k, h.2⟩
  intro x hx
  refine ⟨h.1 x hx, ?_⟩
  -- a single entry is at most the total
  have hmem : ∀ (l : List Rat), (∀ y ∈ l, 0 ≤ y) → ∀ y ∈ l, y ≤ sumRat l := by
    intro l
    induction l with
    | nil => intro _ y hy; simp at hy
    | cons a l ih =>
      intro hnn y hy
      simp only [sumRat]
      have ha := hnn a (by simp)
      have hl := sumRat_nonneg l (fun z hz => hnn z (by simp [hz]))
      simp only [List.mem_cons] at hy
      rcases hy with hy | hy
      · subst hy; grind
      · have := ih (fun z hz => hnn z (by simp [hz])) y hy
        grind
  have := hmem _ h.1 x hx
  grind

-- the hypothesis holds for the example message (one restored/default entry: 1/2)
example : sumRat (restored ((classList (ensureClasses exStats.classes [1, 8]) [1, 8]).drop 1)) ≤ 1 := by
  decide +kernel

/-- The hypothesis of `probabilities_range` cannot be dropped: with five size classes and no
restored probabilities (every message the first time the power iteration runs) the starting
vector is `(-1, 1/2, 1/2, 1/2, 1/2)` and after one exact iteration step the first entry is
still negative.  Non-negativity of the returned probabilities then rests on convergence of
the floating-point iteration (modelled, not verified; the harness finds negative
probabilities for maximum_convergence_error ≥ 0.1, none at the recommended 0.002). -/
theorem start_vector_can_be_negative :
    startVec (List.replicate 5 {}) = [-1, 1 / 2, 1 / 2, 1 / 2, 1 / 2] ∧
    (stepVec (matrix [] 5) (startVec (List.replicate 5 {}))).head? = some (-1 / 4) := by
  decide +kernel

/-! ## `Select` takes exactly one branch -/

/-- **select_total.**  For non-negative probabilities and every draw `r ≥ 0` the selection
loop of `Select` either returns the strategy `i` whose half-open interval
`[p₀+…+p_{i-1}, p₀+…+p_i)` contains `r` — and there is exactly one such index — or returns
nothing (largest size class) exactly when `r` is at least the total probability.  Hence for a
uniform draw from `[0,1)` strategy `i` is chosen with probability `pᵢ` and the largest size
class with the remaining probability. -/
theorem select_total (ss : List Strategy) (r : Rat) (hnn : ∀ s ∈ ss, 0 ≤ s.prob) (h0 : 0 ≤ r) :
    (∃ i s, pick ss 0 r = some (i, s) ∧ ss[i]? = some s ∧
        prefixSum ss i ≤ r ∧ r < prefixSum ss (i + 1) ∧
        ∀ j, prefixSum ss j ≤ r ∧ r < prefixSum ss (j + 1) → j = i) ∨
    (pick ss 0 r = none ∧ prefixSum ss ss.length ≤ r ∧
        ∀ j, j < ss.length → ¬ (prefixSum ss j ≤ r ∧ r < prefixSum ss (j + 1))) := by
  have hp := pick_interval ss 0 r h0
  cases hpk : pick ss 0 r with
  | some js =>
    obtain ⟨j, s⟩ := js
    left
    obtain ⟨i, hj, hs, h1, h2⟩ := hp.1 j s hpk
    have hji : j = i := by omega
    subst hji
    exact ⟨j, s, rfl, hs, h1, h2, fun j' hj' => interval_unique ss hnn r j' j hj' ⟨h1, h2⟩⟩
  | none =>
    right
    refine ⟨rfl, hp.2 hpk, ?_⟩
    intro j hj hcon
    have := prefixSum_mono ss hnn (j + 1) ss.length (by omega)
    have := hp.2 hpk
    grind

example : pick [{ prob := 1 / 4 }, { prob := 1 / 4, background := true }] 0 (1 / 3) =
    some (1, { prob := 1 / 4, background := true }) := by decide +kernel
example : pick [{ prob := 1 / 4 }, { prob := 1 / 4 }] 0 (1 / 2) = none := by decide +kernel

/-- The three kinds of learner `Select` can return correspond to the branches of the loop. -/
theorem select_branches (stats1 : Stats) (ss : List Strategy) (origTO : Int) (classes : List Nat)
    (largest : Nat) (r : Rat) (o : StepOut) (h : chooseFD stats1 ss origTO classes largest r = some o) :
    (pick ss 0 r = none ∧ o.next = some (.onlyLargest largest) ∧ o.idx = classes.length - 1 ∧ o.timeout = origTO) ∨
    (∃ i s smaller, pick ss 0 r = some (i, s) ∧ classes[i]? = some smaller ∧
      ((s.background = true ∧ o.next = some (.largestBg largest origTO smaller) ∧
          o.idx = classes.length - 1 ∧ o.timeout = origTO) ∨
       (s.background = false ∧ o.next = some (.smallerFg smaller s.fgTimeout largest origTO) ∧
          o.idx = i ∧ o.timeout = s.fgTimeout))) := by
  unfold chooseFD at h
  split at h
  · rename_i i s hp
    right
    split at h
    · simp at h
    · rename_i smaller hs
      refine ⟨i, s, smaller, hp, hs, ?_⟩
      split at h
      · rename_i hb
        simp only [Option.some.injEq] at h; subst h
        left; exact ⟨hb, rfl, rfl, rfl⟩
      · rename_i hb
        simp only [Option.some.injEq] at h; subst h
        right; exact ⟨by simpa using hb, rfl, rfl, rfl⟩
  · rename_i hp
    left
    simp only [Option.some.injEq] at h; subst h
    exact ⟨hp, rfl, rfl, rfl⟩

end BbRe.Properties.C07ISC
