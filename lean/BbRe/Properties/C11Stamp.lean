import BbRe.Lemmas.ExecStamp
/-!
# C11 — the rest of the timeout path: stamping, and every way a run stage ends

Property theorems about `Model/ExecStamp.lean`:

* (a) `timestampedBuildExecutor.Execute` (`stamp`): for **every** sequence of state updates (any types, any
  order, any number), every sequence of clock readings and every metadata the inner executor returns;
* (b), (c) the run stage of `localBuildExecutor.Execute` (`execRunX`) for **every** timeline of
  `Suspend`/`Resume` calls, every timeout, cap and positive threshold, and every *ender* (command exit,
  runner error with any gRPC code, the context handed to `Execute` done with `Canceled` or
  `DeadlineExceeded`, I/O error with any code), at any instant `≥ t0`, winning or losing a tie against a
  timer expiry.  gRPC codes are numbers: 0 `OK`, 1 `CANCELLED`, 4 `DEADLINE_EXCEEDED`.

Helper lemmas: `BbRe/Lemmas/ExecStamp.lean`; the clock itself: `Properties/C11.lean`.
-/
namespace BbRe.Properties.C11Stamp
open BbRe.SusClock BbRe.ExecStamp BbRe.Lemmas.ExecStamp BbRe.Lemmas.SusClock

/-! ## (a) stamping -/

/-- **virt_passed_through.** A virtual execution duration reported by the inner executor is returned
unchanged, whatever the updates, the readings of the clock and the stamps are: the wall-time
fallback never overrides it. -/
theorem virt_passed_through (q : Option Ts) (t0 : Ts) (ups : List (Stage × Ts)) (tEnd : Ts) (base : Meta)
    (v : Int) (h : base.virt = some v) : (stamp q t0 ups tEnd base).virt = some v := by
  have hsrc : (((W.start q t0).run ups).complete tEnd).virt = none := by
    rw [complete_virt, run_virt]; rfl
  unfold stamp W.finish
  generalize hmm : merge base _ = mm
  have hmv : mm.virt = some v := by
    rw [← hmm]; unfold merge; simp only [hsrc, h]
  unfold fallback
  rw [hmv]
  exact hmv

/-- **fallback_only_without_report.** When the inner executor reported no virtual duration, the one
returned is exactly `execution_completed − execution_start` of the *returned* stamps when both are set,
and absent otherwise (for every inner executor, also one that stamps by itself). -/
theorem fallback_only_without_report (q : Option Ts) (t0 : Ts) (ups : List (Stage × Ts)) (tEnd : Ts) (base : Meta)
    (h : base.virt = none) :
    (stamp q t0 ups tEnd base).virt =
      (match (stamp q t0 ups tEnd base).execStart, (stamp q t0 ups tEnd base).execDone with
        | some s, some c => some ((c.ns : Int) - (s.ns : Int))
        | _, _ => none) := by
  have hsrc : (((W.start q t0).run ups).complete tEnd).virt = none := by
    rw [complete_virt, run_virt]; rfl
  unfold stamp W.finish
  generalize hmm : merge base _ = mm
  have hmv : mm.virt = none := by
    rw [← hmm]; unfold merge; simp only [hsrc, h]
  unfold fallback
  rw [hmv]
  cases hs : mm.execStart <;> cases hc : mm.execDone <;> simp [hmv, hs, hc]

/-- **stamps_ordered.** With a monotone clock and an inner executor that sets no stamps of its own
(`localBuildExecutor`), for every sequence of updates: worker start/completed are the readings at entry
and at the end; whenever an execution start stamp is reported an execution completed stamp is too and
`worker_start ≤ execution_start ≤ execution_completed ≤ worker_completed`; and the wall-time fallback
is never negative and never exceeds the duration of the call. -/
theorem stamps_ordered (q : Option Ts) (t0 : Ts) (ups : List (Stage × Ts)) (tEnd : Ts) (base : Meta)
    (hb : base.noStamps) (hr : readingsFrom t0.ns ups tEnd.ns = true) :
    (stamp q t0 ups tEnd base).workerStart = some t0 ∧ (stamp q t0 ups tEnd base).workerDone = some tEnd ∧
    t0.ns ≤ tEnd.ns ∧
    (∀ s, (stamp q t0 ups tEnd base).execStart = some s →
      ∃ c, (stamp q t0 ups tEnd base).execDone = some c ∧ t0.ns ≤ s.ns ∧ s.ns ≤ c.ns ∧ c.ns ≤ tEnd.ns) ∧
    (base.virt = none → ∀ v, (stamp q t0 ups tEnd base).virt = some v → 0 ≤ v ∧ v ≤ (tEnd.ns : Int) - (t0.ns : Int)) := by
  obtain ⟨last, hinv, hle⟩ := inv_run ups (inv_start q t0) hr
  have ff := finish_fields ((W.start q t0).run ups) tEnd base hb hinv.virt
  have ce := complete_exec ((W.start q t0).run ups) tEnd
  simp only at ff
  obtain ⟨f1, f2, f3, f4, f5⟩ := ff
  have hlo := hinv.lo
  have key : ∀ s, (stamp q t0 ups tEnd base).execStart = some s →
      ∃ c, (stamp q t0 ups tEnd base).execDone = some c ∧ t0.ns ≤ s.ns ∧ s.ns ≤ c.ns ∧ c.ns ≤ tEnd.ns := by
    intro s hs
    unfold stamp at hs ⊢
    rw [f3, ce.1] at hs
    rw [f4, ce.2]
    obtain ⟨a, b, c⟩ := hinv.exec s hs
    by_cases hcur : ((W.start q t0).run ups).cur = some .exec
    · rw [if_pos hcur]
      exact ⟨tEnd, rfl, a, by omega, Nat.le_refl _⟩
    · rw [if_neg hcur]
      rcases c with c | ⟨c, hc, h1, h2⟩
      · exact absurd c hcur
      · exact ⟨c, hc, a, h1, by omega⟩
  refine ⟨?_, ?_, by omega, key, ?_⟩
  · unfold stamp; rw [f1]; exact hinv.ws
  · unfold stamp; exact f2
  · intro hbv v hv
    have hf := fallback_only_without_report q t0 ups tEnd base hbv
    rw [hv] at hf
    cases hs : (stamp q t0 ups tEnd base).execStart with
    | none => rw [hs] at hf; cases hf
    | some s =>
      obtain ⟨c, hc, h1, h2, h3⟩ := key s hs
      rw [hs, hc] at hf
      simp only [Option.some.injEq] at hf
      omega

/-- **fallback_applies_when_ran.** Same hypotheses: if a Running update was received and the inner
executor reported no virtual duration, a (wall-time) virtual duration is returned. -/
theorem fallback_applies_when_ran (q : Option Ts) (t0 : Ts) (ups : List (Stage × Ts)) (tEnd : Ts) (base : Meta)
    (hb : base.noStamps) (hr : readingsFrom t0.ns ups tEnd.ns = true) (hbv : base.virt = none)
    (hran : ∃ u ∈ ups, u.1 = Stage.running) : (stamp q t0 ups tEnd base).virt.isSome = true := by
  have hsome := run_execStart_isSome ups (W.start q t0) (Or.inr hran)
  have ff := finish_fields ((W.start q t0).run ups) tEnd base hb (by rw [run_virt]; rfl)
  have ce := complete_exec ((W.start q t0).run ups) tEnd
  simp only at ff
  have hes : (stamp q t0 ups tEnd base).execStart.isSome = true := by
    unfold stamp; rw [ff.2.2.1, ce.1]; exact hsome
  obtain ⟨s, hs⟩ := Option.isSome_iff_exists.mp hes
  obtain ⟨c, hc, _⟩ := (stamps_ordered q t0 ups tEnd base hb hr).2.2.2.1 s hs
  rw [fallback_only_without_report q t0 ups tEnd base hbv, hs, hc]
  rfl

/-! ## (b), (c) the run stage -/

/-! ## (b), (c) the run stage -/

/-- **deadline_exceeded_iff (decision logic).** The action is reported with `DEADLINE_EXCEEDED` exactly
when the timeout or the cap ended the run stage (`killed`), or when what ended it carries that code itself
(a runner error or I/O error with code 4, or the context of `Execute` ending with
`context.DeadlineExceeded`); a killed run has no exit code; a run that was not killed carries the status
and exit code of its ender: the exit code with `OK`, the runner's own code, the context's error
(`CANCELLED` for a cancellation — never `DEADLINE_EXCEEDED`), or the I/O error's code (which is
attached before, hence instead of, the `CANCELLED` the runner returns). No hypotheses. -/
theorem deadline_exceeded_iff {P : Params} {tl : List Ev} {t0 d : Nat} {en : Option End} {o : XResult}
    (h : execRunX P tl t0 d en = some o) :
    (o.status = 4 ↔ (o.killed = true ∨ ∃ e, en = some e ∧ enderCode e.what = 4)) ∧
    (o.killed = true → o.status = 4 ∧ o.exitCode = none) ∧
    (o.killed = false → ∃ e, en = some e ∧ o.status = enderCode e.what ∧ o.exitCode = enderExit e.what) := by
  obtain ⟨r, _, ho⟩ := execRunX_done h
  subst ho
  unfold xOf
  cases r.reason <;> cases en <;> simp

/-- **ended_run.** For every timeline, timeout and ender (none, or any kind at any instant `≥ t0`): the
run stage ends, no later than the ender and no later than the wall bound; the reported virtual duration is
the unsuspended time between the start of the command and the end of the run stage — hence at most the
wall time elapsed and at most the timeout — also when the run is cancelled from outside or by an I/O
error, with or without suspensions; and the timeout kills only when the budget is used up (within one
threshold) or the cap is reached. -/
theorem ended_run {P : Params} {tl : List Ev} {t0 d : Nat} {en : Option End}
    (hs : Sorted tl) (hb : Balanced tl) (hthr : 1 ≤ P.thr) (hen : ∀ e, en = some e → t0 ≤ e.t) :
    ∃ o, execRunX P tl t0 d en = some o ∧ o.virt = unsuspended tl t0 o.instant ∧
      t0 ≤ o.instant ∧ o.instant ≤ t0 + d + P.maxSusp ∧ o.virt ≤ d ∧ o.virt ≤ o.instant - t0 ∧
      (∀ e, en = some e → o.instant ≤ e.t) ∧
      (o.killed = false → ∃ e, en = some e ∧ o.instant = e.t) ∧
      (o.killed = true → d < o.virt + P.thr ∨ o.instant = t0 + d + P.maxSusp) := by
  obtain ⟨r, h⟩ := fire_done P tl (en.map fun e => ⟨e.t, e.pre⟩) t0 d hthr
  have hcn := cancel_of_end hen
  have hd := C11.reported_duration hs hb hcn h
  have hw := C11.wall_bound hs hb hcn h
  have hbud := C11.budget_never_exceeded hs hb hcn h
  have ok := (fire_prompt hs hb hcn h).1
  have hle := unsuspended_le tl t0 r.instant
  have hv : (xOf r en).virt = r.dur := by unfold xOf; split <;> rfl
  have hi : (xOf r en).instant = r.instant := by unfold xOf; split <;> rfl
  refine ⟨xOf r en, execRunX_eq h, ?_, ?_, ?_, ?_, ?_, ?_, ?_, ?_⟩
  · rw [hv, hi]; exact hd
  · rw [hi]; exact hw.1
  · rw [hi]; exact hw.2
  · rw [hv, hd]; exact hbud
  · rw [hv, hi, hd]; exact hle
  · intro e he
    subst he
    rw [hi]
    exact ok.prompt ⟨e.t, e.pre⟩ rfl
  · intro hk
    cases hr : r.reason with
    | cancelled =>
      obtain ⟨c, hc, ht⟩ := ok.cancelled hr
      cases en with
      | none => cases hc
      | some e => cases hc; exact ⟨e, rfl, by rw [hi]; exact ht.symm⟩
    | timeout => unfold xOf at hk; rw [hr] at hk; cases en <;> cases hk
    | capped => unfold xOf at hk; rw [hr] at hk; cases en <;> cases hk
  · intro hk
    rw [hv, hi]
    cases hr : r.reason with
    | cancelled =>
      obtain ⟨c, hc, ht⟩ := ok.cancelled hr
      cases en with
      | none => cases hc
      | some e => unfold xOf at hk; rw [hr] at hk; cases hk
    | timeout =>
      have := (C11.fires_after_budget hs hb hcn h hr).1
      left; omega
    | capped => right; exact ok.capped hr

/-- **ender_in_budget.** Whatever ends the run stage at `e.t` — the command exiting, a runner error, the
context of `Execute` being cancelled (by the client or the worker) or reaching its deadline, an I/O error
— before the wall bound and with at most `d − thr` of unsuspended time used, is reported with its own
status at its own instant, never as a timeout, and the virtual duration is the unsuspended time up to then. -/
theorem ender_in_budget {P : Params} {tl : List Ev} {t0 d : Nat} {e : End}
    (hs : Sorted tl) (hb : Balanced tl) (hthr : 1 ≤ P.thr)
    (h01 : t0 ≤ e.t) (hwall : e.t < t0 + d + P.maxSusp) (hbud : unsuspended tl t0 e.t + P.thr ≤ d) :
    execRunX P tl t0 d (some e) =
      some ⟨enderCode e.what, enderExit e.what, unsuspended tl t0 e.t, e.t, false⟩ := by
  obtain ⟨r, h, hi, hr, hd⟩ := C11.finishes_in_budget (pre := e.pre) hs hb hthr h01 hwall hbud
  rw [execRunX_eq (en := some e) h]
  unfold xOf
  rw [hr, hd, hi]

/-- **outer_cancel_not_deadline.** The client or the worker cancels the context of `Execute` at `tc` while
the action runs within its budget: the action is reported `CANCELLED` (code 1), not `DEADLINE_EXCEEDED`,
at `tc`, with the unsuspended time it ran. -/
theorem outer_cancel_not_deadline {P : Params} {tl : List Ev} {t0 d tc : Nat} {pre : Bool}
    (hs : Sorted tl) (hb : Balanced tl) (hthr : 1 ≤ P.thr)
    (h01 : t0 ≤ tc) (hwall : tc < t0 + d + P.maxSusp) (hbud : unsuspended tl t0 tc + P.thr ≤ d) :
    execRunX P tl t0 d (some ⟨tc, pre, .outer .canceled⟩) = some ⟨1, none, unsuspended tl t0 tc, tc, false⟩ :=
  ender_in_budget (e := ⟨tc, pre, .outer .canceled⟩) hs hb hthr h01 hwall hbud

/-- **stamped_virtual_within_stamps.** The two layers together, stages taken by the consumer as they
come: the wrapper's `execution_start` is read no later than the command starts (`a2 ≤ t0`) and
`execution_completed` no earlier than the run stage ends (`instant ≤ a3`), both on the base clock of the
suspendable clock. Then the virtual duration returned is the one `localBuildExecutor` reported (no
fallback), equals the unsuspended run time, and never exceeds `execution_completed − execution_start`. -/
theorem stamped_virtual_within_stamps {P : Params} {tl : List Ev} {t0 d : Nat} {en : Option End}
    {q : Option Ts} {a0 a1 a2 a3 a4 : Nat} {o : XResult} {m : Meta}
    (hs : Sorted tl) (hb : Balanced tl) (hthr : 1 ≤ P.thr) (hen : ∀ e, en = some e → t0 ≤ e.t)
    (h : stampedRun P tl t0 d en q a0 a1 a2 a3 a4 = some (o, m)) (h2 : a2 ≤ t0) (h3 : o.instant ≤ a3) :
    m.virt = some (o.virt : Int) ∧ o.virt = unsuspended tl t0 o.instant ∧
    m.execStart = some (Ts.ofNs a2) ∧ m.execDone = some (Ts.ofNs a3) ∧
    (o.virt : Int) ≤ ((Ts.ofNs a3).ns : Int) - ((Ts.ofNs a2).ns : Int) ∧
    m.workerStart = some (Ts.ofNs a0) ∧ m.workerDone = some (Ts.ofNs a4) := by
  obtain ⟨o', ho', hv, _, _, _, hle, _⟩ := ended_run (d := d) hs hb hthr hen
  unfold stampedRun at h
  rw [ho'] at h
  simp only [Option.map_some, Option.some.injEq, Prod.mk.injEq] at h
  obtain ⟨rfl, rfl⟩ := h
  refine ⟨rfl, hv, rfl, rfl, ?_, rfl, rfl⟩
  rw [ns_ofNs, ns_ofNs]
  omega

/-- **extends_execRun.** On the endings the existing model knows (command exit, runner error) `execRunX`
is `execRun` of `Model/SusClock.lean`. -/
theorem extends_execRun (P : Params) (tl : List Ev) (t0 d : Nat) (fin : Option RunFinish) (c : Nat) :
    execRun P tl t0 d fin =
      (execRunX P tl t0 d (fin.map fun f => ⟨f.t, f.pre, match f.how with | .exit x => .exit x | .failed => .failed c⟩)).map
        fun o => ⟨if o.killed then .deadlineExceeded else if o.exitCode.isSome then .ok else .runnerError,
          o.exitCode, o.virt, o.instant⟩ := by
  unfold execRun execRunX
  rw [Option.map_map]
  have : ((fun e : End => (⟨e.t, e.pre⟩ : Cancel)) ∘ fun f : RunFinish =>
      (⟨f.t, f.pre, match f.how with | .exit x => .exit x | .failed => .failed c⟩ : End)) = fun f => ⟨f.t, f.pre⟩ := rfl
  rw [this]
  cases fire P tl (fin.map fun f => ⟨f.t, f.pre⟩) t0 d with
  | badOracle => rfl
  | outOfFuel => rfl
  | done r =>
    obtain ⟨i, reason, du, st, ps, pa⟩ := r
    cases reason <;> cases fin with
    | none => rfl
    | some f =>
      obtain ⟨ft, fp, fh⟩ := f
      cases fh <;> rfl

/-! ## Non-vacuity: concrete cases meeting the hypotheses -/

private def tlX : List Ev := [.suspend 5, .resume 35]

example : Sorted tlX ∧ Balanced tlX := ⟨rfl, rfl⟩
/-- 5 ticks of work, a stall of 30, timeout 10: the context of `Execute` is cancelled at 20, during the
stall: `CANCELLED` at 20 with a virtual duration of 5; cancelled only at 45 the timeout has fired at 40. -/
example : execRunX ⟨100, 1⟩ tlX 0 10 (some ⟨20, false, .outer .canceled⟩) = some ⟨1, none, 5, 20, false⟩ ∧
    execRunX ⟨100, 1⟩ tlX 0 10 (some ⟨45, false, .outer .canceled⟩) = some ⟨4, none, 10, 40, true⟩ := by decide
/-- hypotheses of `ender_in_budget`: an I/O error with code 13 at 38 (8 unsuspended ticks, 8 + 1 ≤ 10). -/
example : unsuspended tlX 0 38 + 1 ≤ 10 ∧
    execRunX ⟨100, 1⟩ tlX 0 10 (some ⟨38, false, .ioError 13⟩) = some ⟨13, none, 8, 38, false⟩ := by decide
/-- the context of `Execute` reaching a deadline of its own is `DEADLINE_EXCEEDED` without a timeout kill;
a tie at the kill instant 40 is decided by the flag. -/
example : execRunX ⟨100, 1⟩ tlX 0 10 (some ⟨20, false, .outer .deadlineExceeded⟩) = some ⟨4, none, 5, 20, false⟩ ∧
    execRunX ⟨100, 1⟩ tlX 0 10 (some ⟨40, true, .exit 3⟩) = some ⟨0, some 3, 10, 40, false⟩ ∧
    execRunX ⟨100, 1⟩ tlX 0 10 (some ⟨40, false, .exit 3⟩) = some ⟨4, none, 10, 40, true⟩ := by decide
/-- hypotheses of `stamps_ordered`: readings 5 ns, 7 ns, 2 s + 9 ns, 2 s + 30 ns; no inner stamps. -/
example : readingsFrom (Ts.ofNs 5).ns [(.fetching, Ts.ofNs 7), (.running, Ts.ofNs 2000000009)] (Ts.ofNs 2000000030).ns = true ∧
    (stamp none (Ts.ofNs 5) [(.fetching, Ts.ofNs 7), (.running, Ts.ofNs 2000000009)] (Ts.ofNs 2000000030) {}).virt = some 21 := by
  decide
example : ({} : Meta).noStamps := ⟨rfl, rfl, rfl, rfl, rfl, rfl, rfl, rfl⟩
/-- Why `stamps_ordered` needs a monotone clock: `timestamppb.New` drops the monotonic reading, and after a
step backwards of the wall clock the fallback is negative. -/
example : (stamp none (Ts.ofNs 100) [(.running, Ts.ofNs 90)] (Ts.ofNs 50) {}).virt = some (-40) := by decide
/-- Why `stamps_ordered` needs an inner executor without stamps: `proto.Merge` merges the scalar fields of a
Timestamp one by one; a reading of exactly 10 s (nanos = 0, not populated) keeps the inner executor's nanos. -/
example : mergeTs (some ⟨5, 7⟩) (some (Ts.ofNs 10000000000)) = some ⟨10, 7⟩ := by decide
/-- `stampedRun`: the command of the first example left alone: `DEADLINE_EXCEEDED`, virtual duration 10
inside stamps 0 and 40. -/
example : (stampedRun ⟨100, 1⟩ tlX 0 10 none none 0 0 0 40 41).map (fun p => (p.1.status, p.2.virt, p.2.execStart, p.2.execDone)) =
    some (4, some 10, some ⟨0, 0⟩, some ⟨0, 40⟩) := by decide

end BbRe.Properties.C11Stamp
