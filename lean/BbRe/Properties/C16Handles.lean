import BbRe.Lemmas.Handles
/-!
C16, handle allocator part: the hard-link count that the stateful NFS / FUSE handle allocators keep
in front of every pool-backed file (`Model/Handles.lean`, transcription of the stateful paths of
`nfs_handle_allocator.go` and `fuse_handle_allocator.go`).

All theorems with a `Reach s` hypothesis hold after ANY sequence of newLeaf / link / unlink /
getattr / setattr / open / resolve / newDir / dirAttr / notify / release / register operations on any
number of leaves and directories, in any order, provided every step respects `legalOp`
(`Lemmas/Handles.lean`): Unlink only for a directory entry that exists, fewer than 2^32 - 1 links,
a wrapped leaf is wrapped once, and the random number generator never returns the same number twice
(the code relies on that; `collision_misresolves` shows what happens otherwise).

What the code does NOT do, contrary to what one might assume: `Link` is never forwarded to the wrapped
leaf, and of all `Unlink` calls only the last one is (`link_never_forwarded`,
`unlink_forwarded_iff_last`): the wrapped file keeps the single link reference it was created with
until the counter in front of it reaches zero.
-/
namespace BbRe.Properties.C16Handles
open BbRe.Handles BbRe.Lemmas.Handles

/-- The link count (and inode number) that `VirtualGetAttributes` reports is the number of directory
entries: 1 + accepted Links - Unlinks (ghost `entries`, see `entries_link`). -/
theorem link_count_exact {s : State} (r : Reach s) {i : Nat} {l : Leaf} (hi : s.leaves i = some l)
    (m c : Nat) (hm : has m 4 = true) :
    ∃ a, (step s (.getattr i m c)).2 = .attrs a ∧ a.lc = some (s.entries i) ∧
      (has m 2 = true → a.ino = some l.ino) := by
  have hc := ((reach_inv r).count i l hi).1
  simp only [step, getattr, hi]
  split <;> (cases hk : l.kind <;> simp [inject, hk, hm, hc] <;> intro h2 <;> simp [h2])

/-- Meaning of the ghost counter `entries`: `newLeaf` sets it to 1 (by definition), an accepted `Link`
adds one entry to that leaf and to no other, a refused `Link` changes nothing at all; `Unlink`
subtracts one (`Model/Handles.lean`, `unlink`, all four branches: `updN s.entries i (s.entries i - 1)`). -/
theorem entries_link (s : State) (i j : Nat) :
    ((step s (.link i)).2 = .st .ok →
      (step s (.link i)).1.entries j = s.entries j + (if j = i then 1 else 0)) ∧
    ((step s (.link i)).2 ≠ .st .ok → (step s (.link i)).1 = s) := by
  cases hi : s.leaves i with
  | none => simp [step, link, hi]
  | some l =>
    by_cases hz : l.linkCount = 0
    · simp [step, link, hi, hz]
    · cases hk : l.kind <;> by_cases e : j = i <;> simp [step, link, hi, hz, hk, updN, e]

/-- `Link` of the wrapper never reaches the wrapped leaf (nor anything else in the log). -/
theorem link_never_forwarded (s : State) (i : Nat) : (step s (.link i)).1.log = s.log := by
  simp only [step, link]
  cases s.leaves i with
  | none => rfl
  | some l =>
    simp only
    split
    · rfl
    · cases l.kind <;> rfl

/-- The `Unlink` that removes the last directory entry, and only that one, is forwarded to the
wrapped leaf, exactly once, after the counter update and (NFS) the removal from the handle map. -/
theorem unlink_forwarded_iff_last {s : State} (r : Reach s) {i : Nat} {l : Leaf}
    (hi : s.leaves i = some l) (hl : 0 < s.entries i) :
    (step s (.unlink i)).2 = .unlinked (decide (s.entries i = 1)) ∧
    (step s (.unlink i)).1.log = s.log ++
      (if s.entries i = 1 then
        (match l.kind with
         | .nfs => [.mapDelete l.ino, .fwdUnlink l.under]
         | .fuse => [.fwdUnlink l.under])
       else []) := by
  have hc := (reach_inv r).count i l hi
  have hfuse : (l.linkCount + (u32 - 1)) % u32 = l.linkCount - 1 := by
    have : l.linkCount < u32 := by omega
    unfold u32 at *; omega
  have h1 : (l.linkCount - 1 = 0) ↔ s.entries i = 1 := by omega
  simp only [step, unlink, hi]
  cases hk : l.kind <;> simp only
  · have : ¬ l.linkCount = 0 := by omega
    rw [if_neg this]
    by_cases e : s.entries i = 1
    · simp [h1.mpr e, e]
    · have : ¬ l.linkCount - 1 = 0 := fun h => e (h1.mp h)
      simp [this, e]
  · rw [hfuse]
    by_cases e : s.entries i = 1
    · simp [h1.mpr e, e]
    · have : ¬ l.linkCount - 1 = 0 := fun h => e (h1.mp h)
      simp [this, e]

/-- An NFS handle resolves to its leaf exactly while the leaf has a directory entry; afterwards it
is stale (never a directory, never another leaf). -/
theorem resolve_exact {s : State} (r : Reach s) {i : Nat} {l : Leaf} (hi : s.leaves i = some l)
    (hk : l.kind = .nfs) :
    (step s (.resolve l.ino)).2 = if 0 < s.entries i then .leaf i else .st .stale := by
  have inv := reach_inv r
  have hc := inv.count i l hi
  have hd : s.directories l.ino = none := by
    cases hdd : s.directories l.ino with
    | none => rfl
    | some d =>
      obtain ⟨x, h1, h2⟩ := inv.dirTo _ _ hdd
      exact absurd h2.symm (inv.dirLeaf i l d x hi h1)
  simp only [step, resolve, hd]
  by_cases hp : 0 < s.entries i
  · rw [inv.mapFrom i l hi hk (by omega)]; simp [hp]
  · cases hm : s.statefulLeaves l.ino with
    | none => simp [hp]
    | some j =>
      obtain ⟨l2, h1, h2, _, h4⟩ := inv.mapTo _ _ hm
      have : j = i := inv.inj j i l2 l h1 hi (Or.inl h2)
      subst this; rw [hi] at h1; cases h1; omega

/-- Whatever `ResolveHandle` returns as a leaf is the live leaf that owns the handle. -/
theorem resolve_sound {s : State} (r : Reach s) {n i : Nat}
    (h : (step s (.resolve n)).2 = .leaf i) :
    ∃ l, s.leaves i = some l ∧ l.ino = n ∧ l.kind = .nfs ∧ 0 < s.entries i := by
  have inv := reach_inv r
  simp only [step, resolve] at h
  cases hd : s.directories n with
  | some d => simp [hd] at h
  | none =>
    simp only [hd] at h
    cases hm : s.statefulLeaves n with
    | none => simp [hm] at h
    | some j =>
      simp [hm] at h; subst h
      obtain ⟨l, h1, h2, h3, h4⟩ := inv.mapTo _ _ hm
      exact ⟨l, h1, h2, h3, by have := (inv.count j l h1).1; omega⟩

/-- Handles / inode numbers are not shared between leaf objects (given the random number assumption). -/
theorem live_handles_distinct {s : State} (r : Reach s) {i j : Nat} {li lj : Leaf}
    (hi : s.leaves i = some li) (hj : s.leaves j = some lj) (hne : i ≠ j) : li.ino ≠ lj.ino :=
  fun e => hne ((reach_inv r).inj i j li lj hi hj (Or.inl e))

/-- After the last entry is gone `Link` returns ESTALE and changes nothing at all: the counter stays
zero, the handle stays out of the map, nothing is forwarded (the file is not resurrected). -/
theorem dead_link_fails_cleanly {s : State} (r : Reach s) {i : Nat} {l : Leaf}
    (hi : s.leaves i = some l) (hz : s.entries i = 0) :
    step s (.link i) = (s, .st .stale) := by
  have hc := ((reach_inv r).count i l hi).1
  simp [step, link, hi, hc, hz]

/-- FUSE: `NotifyRemoval` calls every registered notifier once, in registration order, with the
directory's inode number; NFS: nobody is called. -/
theorem notify_calls_each_notifier_once (s : State) {d : Nat} {dir : Dir} (hd : s.dirs d = some dir)
    (name : Nat) :
    (step s (.notify d name)).2 =
      .notes (match dir.kind with
              | .fuse => (List.range s.notifiers).map (fun j => (j, dir.ino, name))
              | .nfs => []) := by
  simp only [step, notify, hd]
  cases dir.kind <;> rfl

/-- The freshness assumption on the random numbers is needed: a second NFS leaf that is given the
number of a live one takes over its map entry, and when the first leaf loses its last entry the
handle of the second, still linked, leaf becomes stale. -/
theorem collision_misresolves :
    let s := run init [.newLeaf 0 .nfs 0 5, .newLeaf 1 .nfs 1 5]
    (step s (.resolve 5)).2 = .leaf 1 ∧
    (step (run s [.unlink 0]) (.resolve 5)).2 = .st .stale ∧
    (run s [.unlink 0]).entries 1 = 1 := by
  decide

/-- Outside the caller contract the two allocators differ: an NFS `Unlink` at zero panics, a FUSE
`Unlink` at zero wraps the `uint32` around to 2^32 - 1 without forwarding anything, after which
`Link` is accepted again. -/
theorem unlink_below_zero :
    (step (run init [.newLeaf 0 .nfs 0 5, .unlink 0]) (.unlink 0)).2 = .panic ∧
    (step (run init [.newLeaf 0 .fuse 0 5, .unlink 0]) (.unlink 0)).2 = .unlinked false ∧
    (step (run init [.newLeaf 0 .fuse 0 5, .unlink 0, .unlink 0]) (.getattr 0 4 0)).2 =
      .attrs ⟨none, none, some 5, some 4294967295, none⟩ ∧
    (step (run init [.newLeaf 0 .fuse 0 5, .unlink 0, .unlink 0]) (.link 0)).2 = .st .ok := by
  decide

/-- Non-vacuity of the `Reach` hypotheses: a reachable state with a live leaf with two entries. -/
example : ∃ s l, Reach s ∧ s.leaves 0 = some l ∧ s.entries 0 = 2 ∧ l.kind = .nfs := by
  have r1 : Reach (step init (.newLeaf 0 .nfs 0 5)).1 :=
    Reach.step _ Reach.init ⟨rfl, by simp [init], by simp [init]⟩
  have r2 : Reach (step (step init (.newLeaf 0 .nfs 0 5)).1 (.link 0)).1 :=
    Reach.step _ r1 (by show _ + 1 < u32; decide)
  exact ⟨_, _, r2, rfl, by decide, rfl⟩

end BbRe.Properties.C16Handles
