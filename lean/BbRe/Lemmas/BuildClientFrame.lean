import BbRe.Lemmas.BuildClientInv
/-!
Frame facts about `Model/BuildClient.lean`: the shutdown flag is monotone and
the worker thread only ends under shutdown.
-/
namespace BbRe.Lemmas.BuildClient
open BbRe.BuildClient

@[simp] theorem retRun_cancelled (s : State) (a b : Bool) : (retRun s a b).cancelled = s.cancelled := rfl
@[simp] theorem sendReq_cancelled (s : State) (rc : Bool) : (sendReq s rc).cancelled = s.cancelled := rfl
@[simp] theorem touch_cancelled (s : State) : (touch s).cancelled = s.cancelled := rfl
@[simp] theorem afterReady_cancelled (s : State) (rc : Bool) : (afterReady s rc).cancelled = s.cancelled := by
  unfold afterReady; split <;> rfl
@[simp] theorem finishStop_cancelled (s : State) (k : DrainFor) : (finishStop s k).cancelled = s.cancelled := by
  cases k <;> rfl
@[simp] theorem stopThen_cancelled (s : State) (k : DrainFor) : (stopThen s k).cancelled = s.cancelled := by
  unfold stopThen; split
  · rfl
  · simp

macro "frame_tac" : tactic =>
  `(tactic| (intro hs
             (repeat' (split at hs))
             all_goals (try (simp at hs))
             all_goals (try (obtain ⟨_, hs⟩ := hs))
             all_goals (try (subst hs))
             all_goals (try simp)
             all_goals (try (split <;> simp))))

theorem step?_cancelled {s s' : State} (ev : Ev) :
    step? s ev = some s' → s.cancelled = true → s'.cancelled = true := by
  cases ev with
  | runBegin => simp only [step?, runBegin]; frame_tac
  | readyResult ok => simp only [step?, readyResult]; frame_tac
  | wakeTimer => simp only [step?, wakeTimer]; frame_tac
  | wakeUpdate c =>
    intro hs
    obtain ⟨rc, e, hpc, hc, rfl⟩ := wakeUpdate_eq (by simpa [step?] using hs)
    simp only [sendReq_cancelled]
    unfold consumed
    simp only
    split <;> split <;> simp
  | reply r => simp only [step?, reply]; frame_tac
  | drainRecv => simp only [step?, drainRecv]; frame_tac
  | drainDone => simp only [step?, drainDone]; frame_tac
  | cancel => simp only [step?]; frame_tac
  | tick n => simp only [step?]; frame_tac
  | emit u => simp only [step?, emit]; frame_tac
  | finish r => simp only [step?, finish]; frame_tac
  | close => simp only [step?, close]; frame_tac

@[simp] theorem retRun_pc_term (s : State) (a b : Bool) :
    (retRun s a b).pc = .terminated ↔ (a = true ∧ s.cancelled = true) := by
  simp [retRun]
@[simp] theorem afterReady_term (s : State) (rc : Bool) : (afterReady s rc).pc = .terminated ↔ False := by
  unfold afterReady; split <;> simp [sendReq]
theorem finishStop_term (s : State) (k : DrainFor) :
    (finishStop s k).pc = .terminated → s.cancelled = true := by
  cases k <;> simp [finishStop, touch]
theorem stopThen_term (s : State) (k : DrainFor) :
    (stopThen s k).pc = .terminated → s.cancelled = true := by
  unfold stopThen; split
  · simp
  · exact finishStop_term s k

macro "term_tac" : tactic =>
  `(tactic| (intro hs
             (repeat' (split at hs))
             all_goals (try (simp at hs))
             all_goals (try (obtain ⟨_, hs⟩ := hs))
             all_goals (try (subst hs))
             all_goals (try (intro _ ht))
             all_goals (try (first
               | (simp [sendReq, touch] at ht; done)
               | (simp [sendReq, touch] at ht; simp_all; done)
               | (simpa using finishStop_term _ _ ht)
               | (simpa using stopThen_term _ _ ht)
               | (have := stopThen_term _ _ ht; revert this; split <;> simp; done)
               | (split at ht <;> simp [touch] at ht <;> simp_all; done)
               | simp_all))))

theorem step?_term {s s' : State} (ev : Ev) :
    step? s ev = some s' → (s.pc = .terminated → s.cancelled = true) →
      s'.pc = .terminated → s'.cancelled = true := by
  cases ev with
  | runBegin => simp only [step?, runBegin]; term_tac
  | readyResult ok => simp only [step?, readyResult]; term_tac
  | wakeTimer => simp only [step?, wakeTimer]; term_tac
  | wakeUpdate c =>
    intro hs
    obtain ⟨rc, e, hpc, hc, rfl⟩ := wakeUpdate_eq (by simpa [step?] using hs)
    simp [sendReq]
  | reply r => simp only [step?, reply]; term_tac
  | drainRecv => simp only [step?, drainRecv]; term_tac
  | drainDone => simp only [step?, drainDone]; term_tac
  | cancel => simp only [step?]; term_tac
  | tick n => simp only [step?]; term_tac
  | emit u => simp only [step?, emit]; term_tac
  | finish r => simp only [step?, finish]; term_tac
  | close => simp only [step?, close]; term_tac

theorem step_cancelled {s : State} (ev : Ev) (h : s.cancelled = true) :
    (step s ev).cancelled = true := by
  unfold step
  cases hs : step? s ev with
  | none => simpa using h
  | some s' => simpa using step?_cancelled ev hs h

theorem run_cancelled {s : State} (evs : List Ev) (h : s.cancelled = true) :
    (run s evs).cancelled = true := by
  induction evs generalizing s with
  | nil => exact h
  | cons ev t ih => exact ih (step_cancelled ev h)

theorem step_term {s : State} (ev : Ev) (h : s.pc = .terminated → s.cancelled = true) :
    (step s ev).pc = .terminated → (step s ev).cancelled = true := by
  unfold step
  cases hs : step? s ev with
  | none => simpa using h
  | some s' => simpa using step?_term ev hs h

theorem run_term {s : State} (evs : List Ev) (h : s.pc = .terminated → s.cancelled = true) :
    (run s evs).pc = .terminated → (run s evs).cancelled = true := by
  induction evs generalizing s with
  | nil => exact h
  | cons ev t ih => exact ih (step_term ev h)

theorem run_append (s : State) (a b : List Ev) : run s (a ++ b) = run (run s a) b := by
  simp [run, List.foldl_append]

end BbRe.Lemmas.BuildClient
