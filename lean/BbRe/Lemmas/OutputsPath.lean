import BbRe.Model.Outputs
/-!
Helper lemmas for C10 (`normalise`): the walker calls made by the bb-storage UNIX
parser (`parseRel`) evaluate a path exactly like "split at `/`, treat the empty
component and `.` as stay, `..` as up".
-/
namespace BbRe.Lemmas.Outputs
open BbRe.Outputs

/-- Reference semantics: split a byte string at every `/`. -/
def splitSlash : Str → List Str
  | [] => [[]]
  | c :: cs =>
    if c = 47 then [] :: splitSlash cs
    else
      match splitSlash cs with
      | [] => [[c]]
      | h :: t => (c :: h) :: t

/-- Reference semantics of one component applied to a location inside the input root. -/
def evalComp (stack : List Name) (c : Str) : Option (List Name) :=
  if c = [] ∨ c = [46] then some stack
  else if c = [46, 46] then (if stack = [] then none else some stack.dropLast)
  else some (stack ++ [c])

def evalComps : List Name → List Str → Option (List Name)
  | st, [] => some st
  | st, c :: cs =>
    match evalComp st c with
    | none => none
    | some st' => evalComps st' cs

theorem splitSlash_ne_nil (p : Str) : splitSlash p ≠ [] := by
  cases p with
  | nil => simp [splitSlash]
  | cons c cs =>
    unfold splitSlash
    split
    · simp
    · split <;> simp

theorem walk1_classify (st : List Name) (c : Str) (last : Bool) :
    walk1 st (classify c last) = evalComp st c := by
  unfold classify evalComp
  split
  · rfl
  · split
    · rfl
    · cases last <;> rfl

theorem evalComps_append (st : List Name) (a b : List Str) :
    evalComps st (a ++ b) = (evalComps st a).bind (fun st' => evalComps st' b) := by
  induction a generalizing st with
  | nil => simp [evalComps]
  | cons c cs ih =>
    simp only [List.cons_append, evalComps]
    cases evalComp st c with
    | none => simp
    | some st' => simpa using ih st'

theorem evalComps_nil_cons (st : List Name) (cs : List Str) :
    evalComps st ([] :: cs) = evalComps st cs := by
  simp [evalComps, evalComp]

/-- Leading slashes only produce empty components, which do nothing. -/
theorem evalComps_dropSlashes (st : List Name) (r : Str) :
    evalComps st (splitSlash (r.dropWhile (· == 47))) = evalComps st (splitSlash r) := by
  induction r with
  | nil => rfl
  | cons c cs ih =>
    by_cases h : c = 47
    · subst h
      simp only [List.dropWhile_cons, beq_self_eq_true, ↓reduceIte, splitSlash, evalComps_nil_cons]
      exact ih
    · have : (c == 47) = false := by simp [h]
      simp [this]

theorem splitSlash_noSlash (p : Str) (h : p.dropWhile (· != 47) = []) : splitSlash p = [p] := by
  induction p with
  | nil => rfl
  | cons c cs ih =>
    by_cases hc : c = 47
    · subst hc; simp at h
    · have hne : (c != 47) = true := by simp [hc]
      rw [List.dropWhile_cons, hne] at h
      simp only [↓reduceIte] at h
      simp [splitSlash, hc, ih h]

theorem splitSlash_atSlash (p : Str) (s : Nat) (r : Str) (h : p.dropWhile (· != 47) = s :: r) :
    s = 47 ∧ splitSlash p = p.takeWhile (· != 47) :: splitSlash r := by
  induction p with
  | nil => simp at h
  | cons c cs ih =>
    by_cases hc : c = 47
    · subst hc
      simp at h
      obtain ⟨h1, h2⟩ := h
      subst h1; subst h2
      simp [splitSlash]
    · have hne : (c != 47) = true := by simp [hc]
      rw [List.dropWhile_cons, hne] at h
      simp only [↓reduceIte] at h
      obtain ⟨h1, h2⟩ := ih h
      refine ⟨h1, ?_⟩
      simp [splitSlash, hc, h2, hne]

theorem dropWhile_length_le {α : Type} (f : α → Bool) (l : List α) : (l.dropWhile f).length ≤ l.length := by
  induction l with
  | nil => simp
  | cons a as ih =>
    rw [List.dropWhile_cons]
    split
    · simp; omega
    · simp

/-- The parser's walker calls evaluate like the reference semantics. -/
theorem walkSteps_parseRelF (f : Nat) (p : Str) (st : List Name) (hf : p.length < f) :
    walkSteps st (parseRelF f p) = evalComps st (splitSlash p) := by
  induction f generalizing p st with
  | zero => omega
  | succ f ih =>
    unfold parseRelF
    split
    · rename_i h
      rw [splitSlash_noSlash p h]
      simp only [walkSteps, evalComps, walk1_classify]
      cases evalComp st p <;> rfl
    · rename_i s r h
      obtain ⟨hs, hsplit⟩ := splitSlash_atSlash p s r h
      rw [hsplit]
      simp only [walkSteps, evalComps, walk1_classify]
      cases evalComp st (p.takeWhile (· != 47)) with
      | none => rfl
      | some st' =>
        simp only [stripSeps]
        rw [ih, evalComps_dropSlashes]
        have h1 := dropWhile_length_le (· == 47) r
        have h2 := dropWhile_length_le (· != 47) p
        rw [h] at h2
        simp at h2
        omega

theorem walkSteps_parseRel (p : Str) (st : List Name) :
    walkSteps st (parseRel p) = evalComps st (splitSlash p) :=
  walkSteps_parseRelF _ p st (by omega)

theorem splitSlash_join (w p : Str) : splitSlash (w ++ 47 :: p) = splitSlash w ++ splitSlash p := by
  induction w with
  | nil => simp [splitSlash]
  | cons c cs ih =>
    by_cases hc : c = 47
    · simp [splitSlash, hc, ih]
    · simp only [List.cons_append, splitSlash, hc, ↓reduceIte, ih]
      cases hsp : splitSlash cs with
      | nil => exact absurd hsp (splitSlash_ne_nil cs)
      | cons h t => simp

theorem registerAll_ok_iff (wd : List Name) (h : Hierarchy) (ps : List Str) :
    (∃ h', registerAll wd h ps = .ok h') ↔ ∀ p ∈ ps, ∃ cs, resolveRel wd p = .ok cs := by
  induction ps generalizing h with
  | nil => simp [registerAll]
  | cons p ps ih =>
    simp only [registerAll, Hierarchy.register, List.mem_cons, forall_eq_or_imp]
    cases hr : resolveRel wd p with
    | error e => simp
    | ok cs =>
      simp only [Except.ok.injEq, exists_eq', true_and]
      cases splitLast cs with
      | none => exact ih _
      | some il => exact ih _

end BbRe.Lemmas.Outputs
