import BbRe.Lemmas.FileRefProps
/-!
`checked` (which version of the code the model mirrors: with or without fix 17054c0) is a
configuration constant: no step changes it.
-/
namespace BbRe.Lemmas.FileRef
open BbRe.FileRef

theorem release_checked (s : State) (n : Nat) : (release s n).checked = s.checked := by
  unfold release State.panic
  split
  · rfl
  · split
    · split <;> rfl
    · rfl

theorem frozenClose_checked (s : State) : (frozenClose s).checked = s.checked := by
  unfold frozenClose State.panic
  split
  · rfl
  · rw [release_checked]

theorem openFrozenFor_checked (s : State) (t : Nat) (v : PC) : (openFrozenFor s t v).1.checked = s.checked := by
  unfold openFrozenFor; split <;> rfl

theorem truncate_checked (s : State) (n : Nat) : (truncate s n).1.checked = s.checked := by
  unfold truncate State.panic
  split
  · rfl
  · split <;> rfl

theorem digestStep_checked (s : State) (fn : Nat) : (digestStep s fn).1.checked = s.checked := by
  unfold digestStep
  split
  · split
    · rfl
    · split <;> rfl
  · split <;> rfl

theorem perform_checked (s : State) (op : MutOp) : (perform s op).1.checked = s.checked := by
  cases op with
  | write off data =>
    simp only [perform]
    repeat' split
    all_goals rfl
  | alloc off len =>
    simp only [perform]
    split
    · rfl
    · split
      · exact truncate_checked _ _
      · rfl
  | setattr n x =>
    simp only [perform]
    split
    · rfl
    · split
      · exact truncate_checked _ _
      · split
        · cases x
          · exact truncate_checked _ _
          · exact truncate_checked _ _
        · exact truncate_checked _ _
  | openTrunc m =>
    simp only [perform]
    split
    · rfl
    · split
      · exact truncate_checked _ _
      · split
        · exact truncate_checked _ _
        · exact truncate_checked _ _

theorem mutBody_checked (s : State) (t : Nat) (op : MutOp) : (mutBody s t op).1.checked = s.checked := by
  unfold mutBody
  split
  · rfl
  · exact perform_checked s op

/-- No step changes which version of the code is modelled. -/
theorem step_checked {s s' : State} {o : Out} (op : Op) (hs : step s op = some (s', o)) :
    s'.checked = s.checked := by
  unfold step at hs
  split at hs
  · cases hs
  · cases op <;> simp only at hs
    case link => repeat' split at hs
                 all_goals (cases hs; rfl)
    case unlink =>
      split at hs
      · split at hs
        · cases hs; rfl
        · split at hs
          · cases hs; rw [release_checked]
          · cases hs; rfl
      · rw [← some_pair_eq hs, release_checked]
    case open_ m => split at hs <;> (cases hs; rfl)
    case close m =>
      split at hs
      · cases hs; rfl
      · rw [← some_pair_eq hs, release_checked]
        split <;> rfl
    case read off len => repeat' split at hs
                         all_goals (cases hs; rfl)
    case seek off => repeat' split at hs
                     all_goals (cases hs; rfl)
    case getattr => cases hs; rfl
    case setperm x => cases hs; rfl
    case chown => cases hs; rfl
    case persist => cases hs; rfl
    case mbegin t mop =>
      split at hs
      · rw [← some_pair_eq hs, mutBody_checked]
      · cases hs
    case mwake t =>
      split at hs
      · rw [← some_pair_eq hs, mutBody_checked]
      · cases hs
    case ubegin t u k fn =>
      split at hs
      · split at hs
        · cases hs; rfl
        · rw [← some_pair_eq hs, openFrozenFor_checked]
      · cases hs
    case uwake t v =>
      split at hs
      · split at hs
        · split at hs
          · split at hs
            · rw [← some_pair_eq hs, openFrozenFor_checked]
            · cases hs
          · cases hs
        · split at hs
          · split at hs
            · cases hs; rfl
            · rw [← some_pair_eq hs, openFrozenFor_checked]
          · cases hs
      · cases hs
    case udigest t =>
      split at hs
      · rename_i fn _
        split at hs
        · cases hs; exact digestStep_checked s fn
        · cases hs; rw [frozenClose_checked]; exact digestStep_checked s fn
      · cases hs
    case putDone t ok =>
      split at hs
      · repeat' split at hs
        all_goals (cases hs; rw [frozenClose_checked]; rfl)
      · cases hs
    case fread t off len =>
      split at hs
      · repeat' split at hs
        all_goals (cases hs; rfl)
      · cases hs
    case fclose t =>
      split at hs
      · cases hs; rw [frozenClose_checked]; rfl
      · cases hs
    case statOpen t fn =>
      split at hs
      · split at hs
        · rw [← some_pair_eq hs, openFrozenFor_checked]
        · cases hs; rfl
      · cases hs
    case statFinish t =>
      split at hs
      · rename_i fn _
        cases hs; rw [frozenClose_checked]; exact digestStep_checked s fn
      · cases hs
    case fire k => cases hs; rfl
    case fault k v => repeat' split at hs
                      all_goals (cases hs; rfl)

end BbRe.Lemmas.FileRef
