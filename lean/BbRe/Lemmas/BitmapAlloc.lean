import BbRe.Lemmas.BitmapArr
/-! `AllocateContiguous` / `allocateAt`: what they return and how they change the bit view. -/
namespace BbRe.Lemmas.Bitmap
open BbRe.Bitmap

/-- The `for maximum >= 64 && freeBitmap[index] == allBits` loop clears `k` whole words. -/
theorem fullWords_spec (bm : Array Word) (index maximum allocated : Nat) :
    ∃ k, (fullWords bm index maximum allocated).2.1 = index + k ∧
      (fullWords bm index maximum allocated).2.2.1 + 64 * k = maximum ∧
      (fullWords bm index maximum allocated).2.2.2 = allocated + 64 * k ∧
      (fullWords bm index maximum allocated).1.size = bm.size ∧
      (∀ j, getW (fullWords bm index maximum allocated).1 j =
        if index ≤ j ∧ j < index + k then 0 else getW bm j) ∧
      (∀ j, index ≤ j → j < index + k → getW bm j = allBits) := by
  fun_induction fullWords bm index maximum allocated with
  | case1 bm index maximum allocated hc ih =>
    obtain ⟨k, h1, h2, h3, h4, h5, h6⟩ := ih
    have hlt : index < bm.size := lt_size_of_getW_ne_zero (by rw [hc.2]; exact allBits_ne_zero)
    refine ⟨k + 1, by omega, by omega, by omega, by rw [h4, size_setW], ?_, ?_⟩
    · intro j
      rw [h5 j, getW_setW]
      by_cases hj : index = j
      · subst hj; simp [hlt]
      · by_cases hj2 : index + 1 ≤ j ∧ j < index + 1 + k
        · have : index ≤ j ∧ j < index + (k + 1) := by omega
          simp [hj2, this]
        · have : ¬ (index ≤ j ∧ j < index + (k + 1)) := by omega
          simp [hj2, this, hj]
    · intro j hj1 hj2
      by_cases hj : index = j
      · subst hj; exact hc.2
      · have := h6 j (by omega) (by omega)
        rw [getW_setW] at this
        simpa [hj] using this
  | case2 bm index maximum allocated hc =>
    exact ⟨0, by simp, by simp, by simp, rfl, by intro j; simp; omega, by intro j h1 h2; omega⟩

theorem findNz_some {bm : Array Word} {i fuel j : Nat} (h : findNz bm i fuel = some j) :
    i ≤ j ∧ j < i + fuel ∧ getW bm j ≠ 0 := by
  induction fuel generalizing i with
  | zero => simp [findNz] at h
  | succ f ih =>
    unfold findNz at h
    split at h
    · rename_i hne; simp at h; subst h; exact ⟨by omega, by omega, hne⟩
    · obtain ⟨a, b, c⟩ := ih h; exact ⟨by omega, by omega, c⟩

theorem findNz_none {bm : Array Word} {i fuel : Nat} (h : findNz bm i fuel = none) :
    ∀ j, i ≤ j → j < i + fuel → getW bm j = 0 := by
  induction fuel generalizing i with
  | zero => intro j h1 h2; omega
  | succ f ih =>
    unfold findNz at h
    split at h
    · simp at h
    · rename_i hz
      intro j h1 h2
      by_cases hj : j = i
      · subst hj; simpa using hz
      · exact ih h j (by omega) (by omega)

theorem dec_and_congr {a b c d : Prop} [Decidable a] [Decidable b] [Decidable c] [Decidable d]
    (h : a ∧ b ↔ c ∧ d) : (decide a && decide b) = (decide c && decide d) := by
  rw [Bool.eq_iff_iff]; simpa using h

/-- Facts about the first word of `allocateAt`: shift `s`, run length `t`. -/
theorem firstWord_facts (mask : Word) (hm0 : mask ≠ 0) :
    tz mask < 64 ∧ 1 ≤ tz (~~~(mask >>> tz mask)) ∧ tz mask + tz (~~~(mask >>> tz mask)) ≤ 64 ∧
    (∀ j, j < tz (~~~(mask >>> tz mask)) → mask.getLsbD (tz mask + j) = true) := by
  have hs : tz mask < 64 := tz_lt_of_ne_zero mask hm0
  have hrun : ∀ j, j < tz (~~~(mask >>> tz mask)) → mask.getLsbD (tz mask + j) = true := by
    intro j hj
    have h1 := tz_below _ j hj
    have hj64 : j < 64 := by have := tz_le (~~~(mask >>> tz mask)); omega
    rw [BitVec.getLsbD_not, getLsbD_shr] at h1
    simpa [hj64] using h1
  refine ⟨hs, ?_, ?_, hrun⟩
  · by_cases h0 : tz (~~~(mask >>> tz mask)) = 0
    · exfalso
      have hb := tz_bit (~~~(mask >>> tz mask)) (by omega)
      rw [h0, BitVec.getLsbD_not, getLsbD_shr] at hb
      have := tz_bit mask hs
      simp [this] at hb
    · omega
  · by_cases h0 : tz (~~~(mask >>> tz mask)) = 0
    · omega
    · have := lt_of_getLsbD (hrun (tz (~~~(mask >>> tz mask)) - 1) (by omega)); omega


/-- Clearing the run `[s, s+a)` of word `index` clears exactly those bits. -/
theorem bit_clearRun (bm : Array Word) (index s a : Nat) (hsa : s + a ≤ 64) (i : Nat) :
    bit (setW bm index (getW bm index &&& ~~~(~~~(allBits <<< a) <<< s))) i =
      (bit bm i && !(decide (index * 64 + s ≤ i) && decide (i < index * 64 + s + a))) := by
  rw [bit_def, getW_setW_and]
  by_cases hi : index = i / 64
  · rw [if_pos hi, getLsbD_clear, bit_def, ← hi]
    congr 2
    apply dec_and_congr; omega
  · rw [if_neg hi, ← bit_def]
    have : (decide (index * 64 + s ≤ i) && decide (i < index * 64 + s + a)) = false := by
      simp; omega
    rw [this]; simp

/-- `freeBitmap[index] &= allBits << available` clears the bits `[0, available)` of word `index`. -/
theorem bit_keepFrom (bm : Array Word) (index available : Nat) (hav : available ≤ 64) (i : Nat) :
    bit (setW bm index (getW bm index &&& (allBits <<< available))) i =
      (bit bm i && !(decide (index * 64 ≤ i) && decide (i < index * 64 + available))) := by
  rw [bit_def, getW_setW_and]
  by_cases hi : index = i / 64
  · rw [if_pos hi, getLsbD_keepFrom, bit_def, ← hi]
    congr 1
    rw [Bool.eq_iff_iff]; simp; omega
  · rw [if_neg hi, ← bit_def]
    have : (decide (index * 64 ≤ i) && decide (i < index * 64 + available)) = false := by
      simp; omega
    rw [this]; simp


/-- Bit view after the `fullWords` loop. -/
theorem bit_fullWords {bm bm' : Array Word} {index k : Nat}
    (h : ∀ j, getW bm' j = if index ≤ j ∧ j < index + k then 0 else getW bm j) (i : Nat) :
    bit bm' i = (bit bm i && !(decide (index * 64 ≤ i) && decide (i < (index + k) * 64))) := by
  rw [bit_def, h]
  by_cases hi : index ≤ i / 64 ∧ i / 64 < index + k
  · rw [if_pos hi]
    have : (decide (index * 64 ≤ i) && decide (i < (index + k) * 64)) = true := by simp; omega
    rw [this]; simp
  · rw [if_neg hi, ← bit_def]
    have : (decide (index * 64 ≤ i) && decide (i < (index + k) * 64)) = false := by simp; omega
    rw [this]; simp

/-- What `allocateAt` returns and does, for a mask that agrees with the word from its lowest
one bit upwards (both call sites of `AllocateContiguous`). -/
theorem allocateAt_spec (st : State) (index : Nat) (mask : Word) (maximum : Nat)
    (hm0 : mask ≠ 0) (hmax : 1 ≤ maximum)
    (hmask : ∀ j, tz mask ≤ j → mask.getLsbD j = (getW st.bm index).getLsbD j) :
    (allocateAt st index mask maximum).2.1 = index * 64 + tz mask + 1 ∧
    1 ≤ (allocateAt st index mask maximum).2.2 ∧
    (allocateAt st index mask maximum).2.2 ≤ maximum ∧
    (allocateAt st index mask maximum).1.next = index * 64 + tz mask + (allocateAt st index mask maximum).2.2 ∧
    (allocateAt st index mask maximum).1.bm.size = st.bm.size ∧
    (∀ i, index * 64 + tz mask ≤ i → i < index * 64 + tz mask + (allocateAt st index mask maximum).2.2 →
      bit st.bm i = true) ∧
    (∀ i, bit (allocateAt st index mask maximum).1.bm i =
      (bit st.bm i && !(decide (index * 64 + tz mask ≤ i) &&
        decide (i < index * 64 + tz mask + (allocateAt st index mask maximum).2.2)))) := by
  obtain ⟨hs, ht1, hst, hrun⟩ := firstWord_facts mask hm0
  generalize hsd : tz mask = s at *
  generalize htd : tz (~~~(mask >>> s)) = t at *
  -- run bits of the real word
  have hrunw : ∀ j, j < t → (getW st.bm index).getLsbD (s + j) = true := by
    intro j hj; rw [← hmask (s + j) (by omega)]; exact hrun j hj
  simp only [allocateAt, hsd, htd]
  have ha1 : 1 ≤ min t maximum := by omega
  have ha2 : min t maximum ≤ maximum := by omega
  have ha3 : min t maximum ≤ t := by omega
  generalize min t maximum = a at *
  have hfirst : ∀ i, index * 64 + s ≤ i → i < index * 64 + s + a → bit st.bm i = true := by
    intro i h1 h2
    have h3 : i / 64 = index := by omega
    have := hrunw (i % 64 - s) (by omega)
    rw [bit_def, h3]
    have h4 : s + (i % 64 - s) = i % 64 := by omega
    rwa [h4] at this
  by_cases hc : s + a = 64
  · -- the run reaches the end of the word: continue in the following words
    simp only [hc, if_true]
    generalize hbm1 : setW st.bm index (getW st.bm index &&& ~~~(~~~(allBits <<< a) <<< s)) = bm1
    have hb1 : ∀ i, bit bm1 i = (bit st.bm i && !(decide (index * 64 + s ≤ i) &&
        decide (i < index * 64 + s + a))) := by
      intro i; rw [← hbm1]; exact bit_clearRun st.bm index s (a) (by omega) i
    have hw1 : ∀ j, j ≠ index → getW bm1 j = getW st.bm j := by
      intro j hj; rw [← hbm1, getW_setW_and, if_neg (by omega)]
    have hsz1 : bm1.size = st.bm.size := by rw [← hbm1, size_setW]
    obtain ⟨k, h1, h2, h3, h4, h5, h6⟩ := fullWords_spec bm1 (index + 1) (maximum - a) (a)
    generalize fullWords bm1 (index + 1) (maximum - a) (a) = r at *
    obtain ⟨bm2, idx', max', alloc'⟩ := r
    simp only at h1 h2 h3 h4 h5 h6 ⊢
    subst h1 h3
    have hb2 := bit_fullWords h5
    generalize hav : min (tz (~~~getW bm2 (index + 1 + k))) max' = av
    have hav64 : av ≤ 64 := by have := tz_le (~~~getW bm2 (index + 1 + k)); omega
    have hb3 := bit_keepFrom bm2 (index + 1 + k) av hav64
    have hw2 : getW bm2 (index + 1 + k) = getW st.bm (index + 1 + k) := by
      rw [h5, if_neg (by omega), hw1 _ (by omega)]
    have hlast : ∀ i, (index + 1 + k) * 64 ≤ i → i < (index + 1 + k) * 64 + av → bit st.bm i = true := by
      intro i i1 i2
      have i3 : i / 64 = index + 1 + k := by omega
      have := tz_below (~~~getW bm2 (index + 1 + k)) (i % 64) (by omega)
      rw [BitVec.getLsbD_not, hw2] at this
      rw [bit_def, i3]
      have i4 : i % 64 < 64 := by omega
      simpa [i4] using this
    have hmid : ∀ i, (index + 1) * 64 ≤ i → i < (index + 1 + k) * 64 → bit st.bm i = true := by
      intro i i1 i2
      have := h6 (i / 64) (by omega) (by omega)
      rw [hw1 _ (by omega)] at this
      rw [bit_def, this, getLsbD_allBits]; simp; omega
    have h2' : max' + 64 * k + a = maximum := by omega
    have hav' : av ≤ max' := by omega
    refine ⟨trivial, by omega, by omega, trivial, by rw [size_setW, h4, hsz1], ?_, ?_⟩
    · intro i i1 i2
      by_cases c1 : i < (index + 1) * 64
      · exact hfirst i i1 (by omega)
      · by_cases c2 : i < (index + 1 + k) * 64
        · exact hmid i (by omega) c2
        · exact hlast i (by omega) (by omega)
    · intro i
      rw [hb3, hb2, hb1]
      cases bit st.bm i
      · simp
      · simp only [Bool.true_and, ← Bool.not_or]
        congr 1
        rw [Bool.eq_iff_iff]; simp; omega
  · simp only [hc, if_false]
    refine ⟨trivial, by omega, by omega, trivial, size_setW _ _ _, hfirst, ?_⟩
    intro i
    exact bit_clearRun st.bm index s (a) (by omega) i

/-- `allocateAt` on a state satisfying the invariant: the answer is a run of free bits inside
the device, exactly these bits are cleared, and the invariant is kept. -/
theorem allocateAt_inv {n : Nat} {st : State} (hinv : Inv n st) (index : Nat) (mask : Word) (maximum : Nat)
    (hm0 : mask ≠ 0) (hmax : 1 ≤ maximum)
    (hmask : ∀ j, tz mask ≤ j → mask.getLsbD j = (getW st.bm index).getLsbD j)
    {first count : Nat} (h : (allocateAt st index mask maximum).2 = (first, count)) :
    1 ≤ count ∧ count ≤ maximum ∧ 1 ≤ first ∧ first + count ≤ n + 1 ∧
    (∀ i, first - 1 ≤ i → i < first - 1 + count → bit st.bm i = true) ∧
    (∀ i, bit (allocateAt st index mask maximum).1.bm i =
      (bit st.bm i && !(decide (first - 1 ≤ i) && decide (i < first - 1 + count)))) ∧
    Inv n (allocateAt st index mask maximum).1 := by
  obtain ⟨h1, h2, h3, h4, h5, h6, h7⟩ := allocateAt_spec st index mask maximum hm0 hmax hmask
  have hf : (allocateAt st index mask maximum).2.1 = first := by rw [h]
  have hcnt : (allocateAt st index mask maximum).2.2 = count := by rw [h]
  rw [hcnt] at h2 h3 h4 h6 h7
  rw [hf] at h1
  have hp : index * 64 + tz mask = first - 1 := by omega
  rw [hp] at h4 h6 h7
  have hend : first - 1 + count ≤ n := by
    by_cases hle : first - 1 + count ≤ n
    · exact hle
    · have := h6 (first - 1 + count - 1) (by omega) (by omega)
      rw [hinv.tail _ (by omega)] at this; cases this
  refine ⟨h2, h3, by omega, by omega, h6, h7, ⟨by rw [h5]; exact hinv.size, ?_, by rw [h4]; exact hend⟩⟩
  intro i hi
  rw [h7, hinv.tail i hi]; rfl

/-- The three scans of `AllocateContiguous`: either `allocateAt` is called on a non-empty
mask that agrees with its word from the lowest one bit upwards, or every word is zero. -/
theorem alloc_cases (st : State) (maximum : Nat) :
    (∃ index mask, mask ≠ 0 ∧ (∀ j, tz mask ≤ j → mask.getLsbD j = (getW st.bm index).getLsbD j) ∧
      alloc st maximum = ((allocateAt st index mask maximum).1, some (allocateAt st index mask maximum).2)) ∨
    (alloc st maximum = (st, none) ∧ ∀ i, bit st.bm i = false) := by
  unfold alloc
  simp only
  by_cases hm : getW st.bm (st.next / 64) &&& allBits <<< (st.next % 64) ≠ 0
  · left
    refine ⟨_, _, hm, ?_, by rw [if_pos hm]⟩
    intro j hj
    rw [getLsbD_keepFrom]
    have hb := tz_bit _ (tz_lt_of_ne_zero _ hm)
    rw [getLsbD_keepFrom] at hb
    have : st.next % 64 ≤ j := by
      simp at hb; omega
    simp [this]
  · rw [if_neg hm]
    cases hn1 : findNz st.bm (st.next / 64 + 1) (st.bm.size - (st.next / 64 + 1)) with
    | some i =>
      left
      exact ⟨i, _, (findNz_some hn1).2.2, fun _ _ => rfl, rfl⟩
    | none =>
      simp only
      cases hn2 : findNz st.bm 0 (st.next / 64 + 1) with
      | some i =>
        left
        exact ⟨i, _, (findNz_some hn2).2.2, fun _ _ => rfl, rfl⟩
      | none =>
        right
        refine ⟨rfl, ?_⟩
        intro i
        apply bits_of_getW_eq_zero
        by_cases c1 : st.bm.size ≤ i / 64
        · exact getW_of_size_le _ _ c1
        · by_cases c2 : i / 64 < st.next / 64 + 1
          · exact findNz_none hn2 _ (by omega) (by omega)
          · exact findNz_none hn1 _ (by omega) (by omega)

theorem alloc_some {n : Nat} {st : State} (hinv : Inv n st) {maximum : Nat} (hmax : 1 ≤ maximum)
    {first count : Nat} (h : (alloc st maximum).2 = some (first, count)) :
    1 ≤ count ∧ count ≤ maximum ∧ 1 ≤ first ∧ first + count ≤ n + 1 ∧
    (∀ i, first - 1 ≤ i → i < first - 1 + count → bit st.bm i = true) ∧
    (∀ i, bit (alloc st maximum).1.bm i =
      (bit st.bm i && !(decide (first - 1 ≤ i) && decide (i < first - 1 + count)))) ∧
    Inv n (alloc st maximum).1 := by
  rcases alloc_cases st maximum with ⟨index, mask, hm0, hmask, he⟩ | ⟨he, _⟩
  · rw [he] at h ⊢
    simp only [Option.some.injEq] at h
    exact allocateAt_inv hinv index mask maximum hm0 hmax hmask h
  · rw [he] at h; simp at h

theorem alloc_none {st : State} {maximum : Nat} (h : (alloc st maximum).2 = none) :
    (alloc st maximum).1 = st ∧ ∀ i, bit st.bm i = false := by
  rcases alloc_cases st maximum with ⟨index, mask, hm0, hmask, he⟩ | ⟨he, hall⟩
  · rw [he] at h; simp at h
  · rw [he]; exact ⟨rfl, hall⟩

end BbRe.Lemmas.Bitmap
