import Mathlib.Analysis.SpecialFunctions.Pow.Real
import BbRe.Model.Fair
/-!
The exact integer score order `scoreLt` of `Model/Fair.lean` is the documented real-valued one:
`S = (executingWorkersCount + 1) · b^priority` with `b = 2^0.01` (comment of
`invocation.isPreferred`, `in_memory_build_queue.go:2014-2028`).
Proof file only: imported by `Properties/C04.lean`, never by a model or a driver.
-/
namespace BbRe.Lemmas.Fair
open BbRe.Fair

/-- The documented score `(executing + 1) · 2^(priority/100)`. -/
noncomputable def realScore (e : ℕ) (p : ℤ) : ℝ := ((e : ℝ) + 1) * (2 : ℝ) ^ ((p : ℝ) / 100)

theorem realScore_nonneg (e : ℕ) (p : ℤ) : 0 ≤ realScore e p := by
  unfold realScore; positivity

theorem realScore_pow (e : ℕ) (p : ℤ) : realScore e p ^ 100 = ((e : ℝ) + 1) ^ 100 * (2 : ℝ) ^ p := by
  unfold realScore
  rw [mul_pow]
  congr 1
  rw [← Real.rpow_natCast, ← Real.rpow_mul (by norm_num)]
  have : (p : ℝ) / 100 * ((100 : ℕ) : ℝ) = (p : ℝ) := by push_cast; ring
  rw [this, Real.rpow_intCast]

theorem scoreLt_iff_realScore (e₁ : ℕ) (p₁ : ℤ) (e₂ : ℕ) (p₂ : ℤ) :
    scoreLt e₁ p₁ e₂ p₂ = true ↔ realScore e₁ p₁ < realScore e₂ p₂ := by
  rw [← pow_lt_pow_iff_left₀ (realScore_nonneg e₁ p₁) (realScore_nonneg e₂ p₂) (n := 100) (by norm_num),
    realScore_pow, realScore_pow]
  unfold scoreLt
  rw [decide_eq_true_iff]
  have hk : ∀ p : ℤ, min p₁ p₂ ≤ p → (2 : ℝ) ^ p = (2 : ℝ) ^ (p - min p₁ p₂).toNat * (2 : ℝ) ^ (min p₁ p₂) := by
    intro p hp
    rw [← zpow_natCast, ← zpow_add₀ (by norm_num : (2 : ℝ) ≠ 0)]
    congr 1
    omega
  rw [hk p₁ (min_le_left _ _), hk p₂ (min_le_right _ _)]
  have hpos : (0 : ℝ) < (2 : ℝ) ^ (min p₁ p₂) := by positivity
  rw [← mul_assoc, ← mul_assoc, mul_lt_mul_iff_left₀ hpos]
  rw [← Nat.cast_lt (α := ℝ)]
  push_cast
  rfl

end BbRe.Lemmas.Fair
