import BbRe.Lemmas.OutputsListing
import BbRe.Lemmas.OutputsTree
/-!
Helper lemmas for C10 (`errors_do_not_lie`): when no error is saved, the run with a
faulty CAS / unreadable directories produced exactly what a fault-free run produces.
-/
namespace BbRe.Lemmas.Outputs
open BbRe.Outputs

/-- The CAS never fails. -/
def noFaults : Env := { putFails := fun _ => false }

def LClean (env : Env) (n : Node) : Prop :=
  cleanDir env n = true → ∀ st, n.uploadDirectory env st = n.uploadDirectory noFaults st

theorem uploadEntries_clean (env : Env) (es : Entries) (h : ∀ p ∈ es, LClean env p.2)
    (hc : cleanEntries env es = true) (acc : DirMsg) (st : UpState) :
    uploadEntries env es acc st = uploadEntries noFaults es acc st := by
  induction es generalizing acc st with
  | nil => simp [uploadEntries]
  | cons p rest ih =>
    have ihr := ih (fun q hq => h q (List.mem_cons_of_mem _ hq))
    obtain ⟨name, n⟩ := p
    cases acc with
    | mk fs ds ss =>
    cases n with
    | file x c =>
      simp only [cleanEntries, Bool.and_eq_true, Bool.not_eq_eq_eq_not, Bool.not_true] at hc
      simp only [uploadEntries, hc.1, noFaults, Bool.false_eq_true, ↓reduceIte]
      exact ihr hc.2 _ _
    | symlink t =>
      simp only [cleanEntries, Bool.and_eq_true, Bool.not_eq_eq_eq_not, Bool.not_true] at hc
      simp only [uploadEntries, hc.1, noFaults, Bool.false_eq_true, ↓reduceIte]
      exact ihr hc.2 _ _
    | special =>
      simp only [cleanEntries] at hc
      simp only [uploadEntries]
      exact ihr hc _ _
    | dir r ces =>
      simp only [cleanEntries, Bool.and_eq_true] at hc
      have hd := h (name, .dir r ces) (by simp) hc.1 st
      simp only [uploadEntries]
      rw [hd]
      cases Node.uploadDirectory noFaults (.dir r ces) st with
      | mk ro st1 =>
        cases ro with
        | none => exact ihr hc.2 _ _
        | some cm => exact ihr hc.2 _ _

theorem lclean_all (env : Env) : ∀ n, LClean env n := by
  apply Node.induct
  · intro r es ih hc st
    simp only [cleanDir, Bool.and_eq_true] at hc
    obtain ⟨hr, hce⟩ := hc
    subst hr
    rw [Node.uploadDirectory, Node.uploadDirectory]
    simp only [↓reduceIte]
    rw [uploadEntries_clean env es ih hce]
  · intro x c hc; simp [cleanDir] at hc
  · intro t hc; simp [cleanDir] at hc
  · intro hc; simp [cleanDir] at hc

theorem uploadDirectory_errs (env : Env) (n : Node) :
    (n.uploadDirectory env {}).2.errs = [] ↔ cleanDir env n = true := by
  obtain ⟨more, hm, hc⟩ := (pdir_all env n {}).errs
  rw [hm]
  simpa using hc

theorem noFaults_clean_of_clean (env : Env) : ∀ n, cleanDir env n = true → cleanDir noFaults n = true := by
  apply Node.induct
  · intro r es ih hc
    simp only [cleanDir, Bool.and_eq_true] at hc ⊢
    refine ⟨hc.1, ?_⟩
    have hce := hc.2
    clear hc
    induction es with
    | nil => simp [cleanEntries]
    | cons p rest ihl =>
      obtain ⟨name, n⟩ := p
      have ihr := ihl (fun q hq => ih q (List.mem_cons_of_mem _ hq))
      cases n with
      | file x c =>
        simp only [cleanEntries, Bool.and_eq_true] at hce ⊢
        exact ⟨by simp [noFaults], ihr hce.2⟩
      | symlink t =>
        simp only [cleanEntries, Bool.and_eq_true] at hce ⊢
        exact ⟨by simp [noFaults], ihr hce.2⟩
      | special => simp only [cleanEntries] at hce ⊢; exact ihr hce
      | dir r' ces =>
        simp only [cleanEntries, Bool.and_eq_true] at hce ⊢
        exact ⟨ih (name, .dir r' ces) (by simp) hce.1, ihr hce.2⟩
  · intro x c hc; simp [cleanDir] at hc
  · intro t hc; simp [cleanDir] at hc
  · intro hc; simp [cleanDir] at hc

/-- No saved error for an output directory: the entry is the fault-free one. -/
theorem uode_clean_eq (env : Env) (up : Bool) (n : Node) (ps : List Str)
    (h : (uploadOutputDirectoryEntered env up n ps).errs = []) :
    uploadOutputDirectoryEntered env up n ps = uploadOutputDirectoryEntered noFaults up n ps := by
  have hclean : cleanDir env n = true := by
    rw [← uploadDirectory_errs]
    unfold uploadOutputDirectoryEntered at h
    cases hu : n.uploadDirectory env {} with
    | mk ro st =>
      rw [hu] at h
      cases ro with
      | none => simpa using h
      | some root =>
        simp only [List.append_eq_nil_iff] at h
        exact h.1.1
  have heq := lclean_all env n hclean {}
  unfold uploadOutputDirectoryEntered at h ⊢
  rw [heq] at h ⊢
  cases hu : n.uploadDirectory noFaults {} with
  | mk ro st =>
    rw [hu] at h
    cases ro with
    | none => rfl
    | some root =>
      simp only [List.append_eq_nil_iff] at h
      obtain ⟨⟨h1, h2⟩, h3⟩ := h
      have ht : (!env.putFails (.tree st.dirs.reverse)) = true := by
        cases hb : (!env.putFails (.tree st.dirs.reverse)) with
        | true => rfl
        | false => simp [hb] at h2
      have hd : (!up || st.dirs.all fun m => !env.putFails (.dirmsg m)) = true := by
        cases hb : (!up || st.dirs.all fun m => !env.putFails (.dirmsg m)) with
        | true => rfl
        | false => simp [hb] at h3
      simp only [ht, hd, noFaults, Bool.not_false, Bool.and_self, ↓reduceIte, List.all_eq_true,
        implies_true, Bool.or_true, h1]
      simp

theorem atLoc_clean_eq (env : Env) (up : Bool) (s : Str) (found : Option Node)
    (h : (atLoc env up s found).errs = []) :
    atLoc env up s found = atLoc noFaults up s found := by
  cases found with
  | none => rfl
  | some n =>
    cases n with
    | dir r es => exact uode_clean_eq env up _ _ h
    | file x c =>
      simp only [atLoc] at h ⊢
      split at h
      · simp at h
      · rename_i hput
        simp [hput, noFaults]
    | symlink t =>
      simp only [atLoc] at h ⊢
      split at h
      · simp at h
      · rename_i hrl
        simp [hrl, noFaults]
    | special => rfl

end BbRe.Lemmas.Outputs
