import BbRe.Lemmas.FilePoolTrunc2
/-!
`Truncate`: refinement of the byte-array truncate on success, `FileOK` and the
frame for other files on every path.
-/
namespace BbRe.Lemmas.FilePool
open BbRe.FilePool

theorem content_hole_of_zero (ss : Nat) (dev : Array Byte) (f : File) (i : Nat)
    (h : f.sectors.getD (i / ss) 0 = 0) : content ss dev f i = f.hole.read i := by
  unfold content; rw [if_pos h]

/-- file and environment after dropping sectors. -/
abbrev truncFe (c : Cfg) (f : File) (e : Env) (sz : Nat) : File × Env :=
  truncateSectors f (truncZr c f e sz).1 (truncK c sz)

theorem truncate_some {c : Cfg} {f : File} {e : Env} {sz n : Nat} (h : (truncZr c f e sz).2 = some n) :
    truncate c f e (sz : Int) = (f, (truncZr c f e sz).1, some .io) := by
  rw [truncate_eq, h]

theorem truncate_shrink_fault {c : Cfg} {f : File} {e : Env} {sz : Nat} (h : (truncZr c f e sz).2 = none)
    (hlt : sz < f.size) (hht : (truncFe c f e sz).2.faults.ht = true) :
    truncate c f e (sz : Int) =
      ((truncFe c f e sz).1,
        { (truncFe c f e sz).2 with faults := { (truncFe c f e sz).2.faults with ht := false } }, some .hole) := by
  rw [truncate_eq, h]; dsimp only; rw [if_pos hlt, if_pos hht]

theorem truncate_shrink_ok {c : Cfg} {f : File} {e : Env} {sz : Nat} (h : (truncZr c f e sz).2 = none)
    (hlt : sz < f.size) (hht : ¬ (truncFe c f e sz).2.faults.ht = true) :
    truncate c f e (sz : Int) =
      ({ (truncFe c f e sz).1 with size := sz, hole := f.hole.truncate sz }, (truncFe c f e sz).2, none) := by
  rw [truncate_eq, h]; dsimp only; rw [if_pos hlt, if_neg hht]

theorem truncate_grow {c : Cfg} {f : File} {e : Env} {sz : Nat} (h : (truncZr c f e sz).2 = none)
    (hge : ¬ sz < f.size) :
    truncate c f e (sz : Int) = ({ (truncFe c f e sz).1 with size := sz }, (truncFe c f e sz).2, none) := by
  rw [truncate_eq, h]; dsimp only; rw [if_neg hge]

/-- the device after `Truncate` (any path) is the device after the zeroing write. -/
theorem truncate_dev (c : Cfg) (f : File) (e : Env) (sz : Nat) :
    (truncate c f e (sz : Int)).2.1.dev = (truncZr c f e sz).1.dev := by
  cases hz : (truncZr c f e sz).2 with
  | some n => rw [truncate_some hz]
  | none =>
    by_cases hlt : sz < f.size
    · by_cases hht : (truncFe c f e sz).2.faults.ht = true
      · rw [truncate_shrink_fault hz hlt hht]; exact (truncateSectors_env _ _ _).1
      · rw [truncate_shrink_ok hz hlt hht]; exact (truncateSectors_env _ _ _).1
    · rw [truncate_grow hz hlt]; exact (truncateSectors_env _ _ _).1

/-- **`Truncate` refines the byte-array truncate**: when it succeeds the
contents below the new size are kept and everything from the new size on reads
as zero (also when the file grows again later: the tail of the last kept sector
was zeroed, the dropped sectors became holes, and the hole source was
truncated). -/
theorem truncate_content_ok {O : Nat → Prop} {c : Cfg} {f : File} {e : Env} (sz : Nat) (hss : 0 < c.ss)
    (hP : Part c.nsec O e.allocd (nz f.sectors)) (hok : FileOK c.ss e.dev f)
    (hres : (truncate c f e (sz : Int)).2.2 = none) :
    (∀ i, content c.ss (truncate c f e (sz : Int)).2.1.dev (truncate c f e (sz : Int)).1 i =
        if i < sz then content c.ss e.dev f i else 0) ∧
      (truncate c f e (sz : Int)).1.size = sz ∧
      (truncate c f e (sz : Int)).1.hole.limit ≤ sz := by
  obtain ⟨m, hm, hmz, hcz, _, _⟩ := truncZr_content (O := O) (c := c) (f := f) (e := e) sz hss hP
  have hdev := truncate_dev c f e sz
  obtain ⟨e1, e2, e3⟩ := truncateSectors_env f (truncZr c f e sz).1 (truncK c sz)
  cases hz : (truncZr c f e sz).2 with
  | some n => rw [truncate_some hz] at hres; simp at hres
  | none =>
    by_cases hlt : sz < f.size
    · by_cases hht : (truncFe c f e sz).2.faults.ht = true
      · rw [truncate_shrink_fault hz hlt hht] at hres; simp at hres
      · rw [truncate_shrink_ok hz hlt hht] at hdev ⊢
        dsimp only at hdev ⊢
        refine ⟨fun i => ?_, rfl, by unfold Hole.truncate; dsimp only; omega⟩
        rw [hdev, trunc_keep_content c f (truncZr c f e sz).1 (truncK c sz) (f.hole.truncate sz) sz _ i]
        exact trunc_core c f sz m hss (content c.ss e.dev f) (content c.ss (truncZr c f e sz).1.dev f)
          (f.hole.truncate sz) hcz (fun i h0 => content_hole_of_zero _ _ _ _ h0) hok.2 (hmz hz)
          (fun i hi => by rw [hole_truncate_read, if_pos hi])
          (fun i hi => by rw [hole_truncate_read, if_neg (by omega)]) i
    · rw [truncate_grow hz hlt] at hdev ⊢
      dsimp only at hdev ⊢
      refine ⟨fun i => ?_, rfl, ?_⟩
      · rw [hdev, e2, trunc_keep_content c f (truncZr c f e sz).1 (truncK c sz) f.hole sz _ i]
        exact trunc_core c f sz m hss (content c.ss e.dev f) (content c.ss (truncZr c f e sz).1.dev f)
          f.hole hcz (fun i h0 => content_hole_of_zero _ _ _ _ h0) hok.2 (hmz hz)
          (fun i _ => rfl) (fun i hi => hole_read_beyond _ _ (by have := hok.1; omega)) i
      · rw [e2]; have := hok.1; omega

/-- no byte of a sector owned by another file changes (any path). -/
theorem truncate_frame {O : Nat → Prop} {c : Cfg} {f : File} {e : Env} (size : Int) (hss : 0 < c.ss)
    (hP : Part c.nsec O e.allocd (nz f.sectors)) (t k : Nat) (hk : k < c.ss) (ho : O (t + 1)) :
    rd (truncate c f e size).2.1.dev (t * c.ss + k) = rd e.dev (t * c.ss + k) := by
  by_cases hneg : size < 0
  · rw [truncate_neg _ _ _ _ hneg]
  · obtain ⟨sz, rfl⟩ : ∃ sz : Nat, size = (sz : Int) := ⟨size.toNat, by omega⟩
    obtain ⟨m, _, _, _, hfr, _⟩ := truncZr_content (O := O) (c := c) (f := f) (e := e) sz hss hP
    rw [truncate_dev]
    exact hfr t k hk ho

/-- `Truncate` keeps the per-file invariant on every path (also when the zeroing
write or the hole source's `Truncate` fails). -/
theorem truncate_fileOK {O : Nat → Prop} {c : Cfg} {f : File} {e : Env} (size : Int) (hss : 0 < c.ss)
    (hP : Part c.nsec O e.allocd (nz f.sectors)) (hok : FileOK c.ss e.dev f) :
    FileOK c.ss (truncate c f e size).2.1.dev (truncate c f e size).1 := by
  by_cases hneg : size < 0
  · rw [truncate_neg _ _ _ _ hneg]; exact hok
  · obtain ⟨sz, rfl⟩ : ∃ sz : Nat, size = (sz : Int) := ⟨size.toNat, by omega⟩
    by_cases hres : (truncate c f e (sz : Int)).2.2 = none
    · obtain ⟨h1, h2, h3⟩ := truncate_content_ok (O := O) sz hss hP hok hres
      refine ⟨by rw [h2]; exact h3, fun i hi => ?_⟩
      rw [h1 i, if_neg (by rw [h2] at hi; omega)]
    · obtain ⟨m, hm, hmz, hcz, _, _⟩ := truncZr_content (O := O) (c := c) (f := f) (e := e) sz hss hP
      have hczs : ∀ i, f.size ≤ i → content c.ss (truncZr c f e sz).1.dev f i = 0 := by
        intro i hi
        rw [hcz i]; split
        · rfl
        · exact hok.2 i hi
      obtain ⟨e1, e2, e3⟩ := truncateSectors_env f (truncZr c f e sz).1 (truncK c sz)
      cases hz : (truncZr c f e sz).2 with
      | some n => rw [truncate_some hz]; exact ⟨hok.1, hczs⟩
      | none =>
        by_cases hlt : sz < f.size
        · by_cases hht : (truncFe c f e sz).2.faults.ht = true
          · -- the hole source's Truncate failed: sectors dropped, size and hole source unchanged
            rw [truncate_shrink_fault hz hlt hht]
            dsimp only
            refine ⟨by rw [e2, e3]; exact hok.1, fun i hi => ?_⟩
            rw [e3] at hi
            have : (truncFe c f e sz).1 =
                { sectors := (truncateSectors f (truncZr c f e sz).1 (truncK c sz)).1.sectors, size := f.size,
                  hole := f.hole, closed := (truncFe c f e sz).1.closed } := by
              rw [← e2, ← e3]
            rw [this, e1, trunc_keep_content]
            have hzr : f.hole.read i = 0 := hole_read_beyond _ _ (by have := hok.1; omega)
            split
            · split
              · exact hzr
              · exact hczs i hi
            · exact hzr
          · rw [truncate_shrink_ok hz hlt hht] at hres; simp at hres
        · rw [truncate_grow hz hlt] at hres; simp at hres

end BbRe.Lemmas.FilePool
