import BbRe.Lemmas.SchedLiveWorker6
/-!
Worker invariant through the operator calls (`AddDrain` / `TerminateWorkers`
wake every matching parked worker) and for every reachable state.
-/
namespace BbRe.Lemmas.SchedLive
open BbRe.Sched

/-- A fold of per-worker updates over (a sublist of) the worker list is a `map`. -/
theorem foldl_workers_map (step : State → Worker → State) (G : Worker → Worker) (hG : ∀ x, wkey (G x) = wkey x)
    (hstep : ∀ acc w, (acc.workers.map wkey).Nodup → w ∈ acc.workers →
      (step acc w).workers = acc.workers.map (fun x => if wkey x = wkey w then G w else x)) :
    ∀ (l : List Worker) (acc : State), (acc.workers.map wkey).Nodup → (l.map wkey).Nodup →
      (∀ w ∈ l, w ∈ acc.workers) →
      (l.foldl step acc).workers = acc.workers.map (fun x => if wkey x ∈ l.map wkey then G x else x) := by
  intro l
  induction l with
  | nil => intro acc _ _ _; simp
  | cons w r ih =>
    intro acc hn hl hm
    simp only [List.foldl_cons]
    have hw := hm w (List.mem_cons_self ..)
    have e1 := hstep acc w hn hw
    simp only [List.map_cons, List.nodup_cons] at hl
    have hn1 : ((step acc w).workers.map wkey).Nodup := by
      rw [e1, List.map_map]
      have : (wkey ∘ fun x => if wkey x = wkey w then G w else x) = wkey := by
        funext x; simp only [Function.comp]; split
        · rename_i h; rw [hG, h]
        · rfl
      rw [this]; exact hn
    have hm1 : ∀ w' ∈ r, w' ∈ (step acc w).workers := by
      intro w' hw'
      rw [e1, List.mem_map]
      refine ⟨w', hm w' (List.mem_cons_of_mem _ hw'), ?_⟩
      have : ¬ wkey w' = wkey w := fun e => hl.1 (e ▸ List.mem_map.2 ⟨w', hw', rfl⟩)
      simp [this]
    rw [ih (step acc w) hn1 hl.2 hm1, e1, List.map_map]
    apply List.map_congr_left
    intro x hx
    simp only [Function.comp, List.map_cons, List.mem_cons]
    by_cases hk : wkey x = wkey w
    · have : x = w := eq_of_wkey hn hx hw hk
      subst this
      simp only [if_true, hG, hl.1, if_false, true_or]
    · simp only [hk, if_false, false_or]

theorem winv_of_map {s s' : State} (hw : WInv s) (G : Worker → Worker) (hG : ∀ x, wkey (G x) = wkey x)
    (hws : s'.workers = s.workers.map G) (hok : ∀ x ∈ s.workers, WOk s' (G x)) : WInv s' := by
  refine ⟨?_, ?_⟩
  · rw [hws, List.map_map]
    have : (wkey ∘ G) = wkey := by funext x; exact hG x
    rw [this]; exact hw.uniq
  · intro y hy
    rw [hws, List.mem_map] at hy
    obtain ⟨x, hx, rfl⟩ := hy
    exact hok x hx

theorem foldl_fields {α} (f : State → α → State) (hf : ∀ s a, (f s a).tasks = s.tasks ∧ (f s a).ops = s.ops ∧
    (f s a).nextTask = s.nextTask ∧ (f s a).nextOp = s.nextOp ∧ (f s a).scqs = s.scqs) (l : List α) (s : State) :
    (l.foldl f s).tasks = s.tasks ∧ (l.foldl f s).ops = s.ops ∧ (l.foldl f s).nextTask = s.nextTask ∧
    (l.foldl f s).nextOp = s.nextOp ∧ (l.foldl f s).scqs = s.scqs := by
  induction l generalizing s with
  | nil => exact ⟨rfl, rfl, rfl, rfl, rfl⟩
  | cons a r ih =>
    obtain ⟨a1, a2, a3, a4, a5⟩ := hf s a
    obtain ⟨b1, b2, b3, b4, b5⟩ := ih (f s a)
    exact ⟨b1.trans a1, b2.trans a2, b3.trans a3, b4.trans a4, b5.trans a5⟩

/-! ### `AddDrain` -/

def drainG (q : ScqId) (p : Pattern) (w : Worker) : Worker :=
  if w.scq = q ∧ w.parked = true ∧ p.matches w.id = true then { w with parked := false, woken := true } else w

theorem wkey_drainG (q : ScqId) (p : Pattern) (x : Worker) : wkey (drainG q p x) = wkey x := by
  unfold drainG; split <;> rfl

theorem map_if_self {l : List Worker} (hn : (l.map wkey).Nodup) {w : Worker} (hw : w ∈ l) :
    l.map (fun x => if wkey x = wkey w then w else x) = l := by
  conv => rhs; rw [← List.map_id l]
  apply List.map_congr_left
  intro x hx
  split
  · rename_i hk; exact (eq_of_wkey hn hx hw hk).symm
  · rfl

theorem drainWake_workers (q : ScqId) (p : Pattern) (acc : State) (w : Worker)
    (hn : (acc.workers.map wkey).Nodup) (hw : w ∈ acc.workers) :
    (drainWake q p acc w).workers = acc.workers.map (fun x => if wkey x = wkey w then drainG q p w else x) := by
  by_cases hc : w.scq = q ∧ w.parked = true ∧ p.matches w.id = true
  · have e1 : drainWake q p acc w = acc.setWorker { w with parked := false, woken := true } := by
      unfold drainWake wakeWorker; rw [if_pos hc]
    have e2 : drainG q p w = { w with parked := false, woken := true } := by
      unfold drainG; rw [if_pos hc]
    rw [e1, e2, setWorker_workers]; rfl
  · have e1 : drainWake q p acc w = acc := by unfold drainWake; rw [if_neg hc]
    have e2 : drainG q p w = w := by unfold drainG; rw [if_neg hc]
    rw [e1, e2, map_if_self hn hw]

theorem addDrain_winv {s : State} {q : ScqId} {p : Pattern} {sq : Scq} (hw : WInv s) (hsq : s.scq? q = some sq)
    (s0 : State) (hs0 : s0 = s.setScq { sq with drains := if sq.drains.contains p then sq.drains else sq.drains ++ [p] }) :
    WInv (s.workers.foldl (drainWake q p) s0) := by
  have hws0 : s0.workers = s.workers := by rw [hs0]; rfl
  have hmap := foldl_workers_map (drainWake q p) (drainG q p) (wkey_drainG q p) (drainWake_workers q p)
    s.workers s0 (hws0 ▸ hw.uniq) hw.uniq (fun _ h => hws0 ▸ h)
  obtain ⟨f1, _, f3, _, f5⟩ := foldl_fields (drainWake q p)
    (by intro a b; unfold drainWake; split <;> exact ⟨rfl, rfl, rfl, rfl, rfl⟩) s.workers s0
  have hid : sq.id = q := by
    have := List.find?_some (show s.scqs.find? (fun x => x.id = q) = some sq from hsq); simpa using this
  have g1 : s0.tasks = s.tasks := by rw [hs0]; rfl
  have g3 : s0.nextTask = s.nextTask := by rw [hs0]; rfl
  rw [hws0] at hmap
  refine winv_of_map hw (fun x => if wkey x ∈ s.workers.map wkey then drainG q p x else x)
    (by intro x; by_cases h : wkey x ∈ s.workers.map wkey <;> simp [h, wkey_drainG]) hmap ?_
  intro x hx
  have hin : wkey x ∈ s.workers.map wkey := List.mem_map.2 ⟨x, hx, rfl⟩
  simp only [hin, if_true]
  have hok := hw.ok x hx
  have ptr' : ∀ (y : Worker), y.scq = x.scq → y.id = x.id → y.task = x.task →
      ∀ tid, y.task = some tid → tid < (s.workers.foldl (drainWake q p) s0).nextTask ∧
        ∀ t, (s.workers.foldl (drainWake q p) s0).task? tid = some t → t.worker = some (y.scq, y.id) ∧ t.response = none := by
    intro y e1 e2 e3 tid ht
    rw [e3] at ht; rw [e1, e2, f3, g3]
    simp only [State.task?, f1, g1]
    exact hok.ptr tid ht
  by_cases hc : x.scq = q ∧ x.parked = true ∧ p.matches x.id = true
  · have e2 : drainG q p x = { x with parked := false, woken := true } := by unfold drainG; rw [if_pos hc]
    rw [e2]
    obtain ⟨a, _, _, _, e, _⟩ := hok.parked hc.2.1
    exact ⟨by simp, by simp [a, e], by simp [e], ptr' _ rfl rfl rfl⟩
  · have e2 : drainG q p x = x := by unfold drainG; rw [if_neg hc]
    rw [e2]
    refine ⟨?_, hok.woken, hok.dwait, ptr' x rfl rfl rfl⟩
    intro hp
    obtain ⟨a, b, c, d, e, g⟩ := hok.parked hp
    refine ⟨a, b, c, d, e, ?_⟩
    intro sq' hsq' p' hp'
    simp only [State.scq?, f5] at hsq'
    have hsq'' : s0.scq? x.scq = some sq' := hsq'
    rw [hs0, scq?_setScq] at hsq''
    simp only [hid] at hsq''
    by_cases hxq : q = x.scq
    · simp only [hxq, if_true] at hsq''
      rw [← hxq, hsq] at hsq''
      simp only [Option.map_some, Option.some.injEq] at hsq''
      subst hsq''
      simp only at hp'
      have hold := g sq (by rw [← hxq]; exact hsq)
      split at hp'
      · exact hold p' hp'
      · rcases List.mem_append.1 hp' with hp' | hp'
        · exact hold p' hp'
        · simp only [List.mem_singleton] at hp'; subst hp'
          cases hm : p'.matches x.id with
          | false => rfl
          | true => exact absurd ⟨hxq.symm, hp, hm⟩ hc
    · simp only [hxq, if_false] at hsq''
      exact g sq' hsq'' p' hp'

/-! ### `TerminateWorkers` -/

def termG (w : Worker) : Worker :=
  if w.task.isNone ∧ w.parked then { w with terminating := true, parked := false, woken := true }
  else { w with terminating := true }

theorem wkey_termG (x : Worker) : wkey (termG x) = wkey x := by
  unfold termG; split <;> rfl

theorem termMark_workers (acc : State) (w : Worker) (hn : (acc.workers.map wkey).Nodup) (hw : w ∈ acc.workers) :
    (termMark acc w).workers = acc.workers.map (fun x => if wkey x = wkey w then termG w else x) := by
  have hlk := worker?_of_mem hn hw
  unfold termMark termG
  simp only [hlk]
  split
  · have : (acc.setWorker { w with terminating := true }).worker? w.scq w.id = some { w with terminating := true } := by
      rw [worker?_setWorker]; simp [hlk]
    simp only [this, wakeWorker]
    rw [setWorker_twice _ _ _ (show wkey ({ w with terminating := true } : Worker) =
      wkey ({ w with terminating := true, parked := false, woken := true } : Worker) from rfl), setWorker_workers]; rfl
  · rw [setWorker_workers]; rfl

theorem terminate_winv {s : State} (p : Pattern) (hw : WInv s) :
    WInv ((s.workers.filter (fun w => p.matches w.id)).foldl termMark s) := by
  have hsub : ((s.workers.filter (fun w => p.matches w.id)).map wkey).Nodup :=
    List.Nodup.sublist (List.Sublist.map _ List.filter_sublist) hw.uniq
  have hmap := foldl_workers_map termMark termG wkey_termG termMark_workers
    (s.workers.filter (fun w => p.matches w.id)) s hw.uniq hsub (fun _ h => (List.mem_filter.1 h).1)
  obtain ⟨f1, _, f3, _, f5⟩ := foldl_fields termMark
    (by intro a b; unfold termMark; (repeat' split) <;> exact ⟨rfl, rfl, rfl, rfl, rfl⟩)
    (s.workers.filter (fun w => p.matches w.id)) s
  refine winv_of_map hw (fun x => if wkey x ∈ (s.workers.filter (fun w => p.matches w.id)).map wkey then termG x else x)
    (by intro x; by_cases h : wkey x ∈ (s.workers.filter (fun w => p.matches w.id)).map wkey <;> simp [h, wkey_termG]) hmap ?_
  intro x hx
  have hok := hw.ok x hx
  have fr : WFrame noX s ((s.workers.filter (fun w => p.matches w.id)).foldl termMark s) := WFrame.of_eq f3 f5 f1
  split
  · have ptr' := (hok.frame fr (fun _ _ h => h)).ptr
    unfold termG
    split
    · rename_i hc
      obtain ⟨a, _, _, _, e, _⟩ := hok.parked hc.2
      exact ⟨by simp, by simp [a, e], by simp [e], ptr'⟩
    · rename_i hc
      refine ⟨?_, hok.woken, hok.dwait, ptr'⟩
      intro hp
      have hp' : x.parked = true := hp
      obtain ⟨_, _, c, _⟩ := hok.parked hp'
      exact absurd ⟨by simp [c], hp'⟩ hc
  · exact hok.frame fr (fun _ _ h => h)

/-! ### all segments -/

theorem killOp_kw {h : Hints} {s s' : State} {now name code : Nat} (hh : killOp h s now name code = .ok s') :
    KWStep s s' := by
  obtain ⟨s1, h1, ⟨_, rfl⟩ | ⟨op, s2, _, h2, rfl⟩⟩ := killOp_ok hh
  · exact (enter_kw h1).trans (KWStep.of_same rfl rfl rfl rfl rfl rfl)
  · exact ((enter_kw h1).trans (complete_kw h2)).trans (KWStep.of_same rfl rfl rfl rfl rfl rfl)

theorem killQueue_kw {h : Hints} {s s' : State} {now : Nat} {q : ScqId} {code : Nat}
    (hh : killQueue h s now q code = .ok s') : KWStep s s' := by
  obtain ⟨s1, h1, ⟨ev, _, rfl⟩ | ⟨s2, h2, rfl⟩⟩ := killQueue_ok hh
  · exact (enter_kw h1).trans (KWStep.of_same rfl rfl rfl rfl rfl rfl)
  · exact ((enter_kw h1).trans (cancelAllQueued_kw h2)).trans (KWStep.of_same rfl rfl rfl rfl rfl rfl)

theorem addDrain_kw {h : Hints} {s s' : State} {now : Nat} {q : ScqId} {p : Pattern}
    (hh : addDrain h s now q p = .ok s') : KWStep s s' := by
  have ht := addDrain_tstep (allow := True) hh
  obtain ⟨s1, h1, ⟨_, rfl⟩ | ⟨sq, hsq, rfl⟩⟩ := addDrain_ok hh
  · exact (enter_kw h1).trans (KWStep.of_same rfl rfl rfl rfl rfl rfl)
  · intro hkw
    have hkw1 := enter_kw h1 hkw
    exact ⟨(ht hkw.1).1, winv_same (addDrain_winv hkw1.2 hsq _ rfl) rfl rfl rfl rfl⟩

theorem removeDrain_kw {h : Hints} {s s' : State} {now : Nat} {q : ScqId} {p : Pattern}
    (hh : removeDrain h s now q p = .ok s') : KWStep s s' := by
  obtain ⟨s1, h1, ⟨_, rfl⟩ | ⟨sq, hsq, rfl⟩⟩ := removeDrain_ok hh
  · exact (enter_kw h1).trans (KWStep.of_same rfl rfl rfl rfl rfl rfl)
  · refine (enter_kw h1).trans (KWStep.of (TStep.of_same (allow := True) rfl rfl rfl rfl) (fun _ hw => ?_))
    refine hw.of_frame (X := noX) rfl ⟨Nat.le_refl _, ?_, ?_⟩ (NoPtr.noX _)
    · intro q' sq' hq' p' hp'
      have hq'' : (s1.setScq { sq with drains := sq.drains.filter (· ≠ p), undrainGen := sq.undrainGen + 1 }).scq? q' = some sq' := hq'
      rw [scq?_setScq] at hq''
      have hid : sq.id = q := by
        have := List.find?_some (show s1.scqs.find? (fun x => x.id = q) = some sq from hsq); simpa using this
      simp only [hid] at hq''
      by_cases hqq : q = q'
      · subst hqq
        simp only [if_true, hsq, Option.map_some, Option.some.injEq] at hq''
        subst hq''
        exact ⟨sq, hsq, (List.mem_filter.1 hp').1⟩
      · simp only [hqq, if_false] at hq''; exact ⟨sq', hq'', hp'⟩
    · intro tid t' _ _ ht'; exact ⟨t', ht', rfl, rfl⟩

theorem terminate_kw {h : Hints} {s s' : State} {now id : Nat} {p : Pattern}
    (hh : terminate h s now id p = .ok s') : KWStep s s' := by
  have ht := terminate_tstep (allow := True) hh
  obtain ⟨s1, h1, h2⟩ := terminate_ok hh
  simp only at h2
  intro hkw
  have hkw1 := enter_kw h1 hkw
  have := terminate_winv p hkw1.2
  rcases h2 with ⟨_, rfl⟩ | ⟨_, rfl⟩ <;> exact ⟨(ht hkw.1).1, winv_same this rfl rfl rfl rfl⟩

theorem termWake_kw {s s' : State} {id reason : Nat} (hh : termWake s id reason = .ok s') : KWStep s s' := by
  obtain ⟨tc, _, ⟨_, rfl⟩ | ⟨_, _, rfl⟩⟩ := termWake_ok hh <;> exact KWStep.of_same rfl rfl rfl rfl rfl rfl

theorem find?_append_nodrains {l n : List Scq} {q : ScqId} {x : Scq} (hn : ∀ y ∈ n, y.drains = [])
    (h : (l ++ n).find? (fun y => y.id = q) = some x) : l.find? (fun y => y.id = q) = some x ∨ x.drains = [] := by
  rw [List.find?_append] at h
  cases hl : l.find? (fun y => y.id = q) with
  | some y => rw [hl] at h; simp at h; exact .inl (by rw [h])
  | none =>
    rw [hl] at h; simp only [Option.none_or] at h
    exact .inr (hn x (List.mem_of_find?_eq_some h))

theorem registerPQ_kw (s : State) (id : Nat) (comps : List Nat) (pf : Nat) (sizes : List Nat) (bm : Nat) (bp : Int) :
    KWStep s (registerPQ s id comps pf sizes bm bp) := by
  refine KWStep.of (TStep.of_same (allow := True) rfl rfl rfl rfl) (fun _ hw => ?_)
  refine hw.of_frame (X := noX) rfl ⟨Nat.le_refl _, ?_, ?_⟩ (NoPtr.noX _)
  · intro q sq' hq p hp
    have hq' : (s.scqs ++ sizes.map (fun sc => ({ id := ⟨id, sc⟩, mayBeRemoved := false, drains := [], undrainGen := 0 } : Scq))).find?
        (fun y => y.id = q) = some sq' := hq
    rcases find?_append_nodrains (by intro y hy; obtain ⟨_, _, rfl⟩ := List.mem_map.1 hy; rfl) hq' with h | h
    · exact ⟨sq', h, hp⟩
    · rw [h] at hp; cases hp
  · intro tid t' _ _ ht'; exact ⟨t', ht', rfl, rfl⟩

/-- **Every segment** preserves key discipline and worker invariant. -/
theorem step_kw {s s' : State} {g : Seg} (hstep : step s g = .ok s') : KWStep s s' := by
  cases g with
  | register id comps pf sizes bm bp =>
    simp only [step, pure_ok] at hstep; subst hstep; exact registerPQ_kw s id comps pf sizes bm bp
  | exec h now c0 d dk dnc comps pf inv prio => exact execArrive_kw hstep
  | wait h now c0 name => exact waitArrive_kw hstep
  | streamWake h now c0 reason => exact streamWake_kw hstep
  | sync h now q comps pf w rep pi => exact syncArrive_kw hstep
  | syncWake h now q w reason => exact syncWake_kw hstep
  | killOp h now name code => exact killOp_kw hstep
  | killQueue h now q code => exact killQueue_kw hstep
  | addDrain h now q p => exact addDrain_kw hstep
  | removeDrain h now q p => exact removeDrain_kw hstep
  | terminate h now id p => exact terminate_kw hstep
  | termWake id reason => exact termWake_kw hstep
  | touch h now => exact enter_kw hstep

theorem winv_init (cfg : Cfg) : WInv (State.init cfg) :=
  ⟨by simp [State.init], by intro wk h; simp [State.init] at h⟩

theorem kw_reachable {s : State} (hs : Reachable s) : KW s := by
  induction hs with
  | init cfg => exact ⟨keysOK_init cfg, winv_init cfg⟩
  | step g _ hstep ih => exact step_kw hstep ih

theorem winv_reachable {s : State} (hs : Reachable s) : WInv s := (kw_reachable hs).2

end BbRe.Lemmas.SchedLive
