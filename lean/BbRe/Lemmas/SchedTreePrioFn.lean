import BbRe.Lemmas.SchedTreePrioUpd
import BbRe.Lemmas.SchedTreeRead
import BbRe.Lemmas.SchedTreeLock
/-!
`PrioOK` at the level of the tree layer's functions.  Only `setOX` / `dropOX` need something from the tree
invariant: the operation whose table entry changes is in no `queuedOperations` (a fresh name is not, because
queued operations are operations of tasks, hence below `nextOp`; a removed operation is not, because it is no
operation of a task any more).
-/
namespace BbRe.Lemmas.SchedTree
open BbRe.Sched BbRe.SchedTree BbRe.Lemmas.SchedInv

/-! ### what the tree invariant says about `queuedOperations` -/

theorem queued_of_mem_qops {ex exo X} {ts : TState} (hT : TInvX ex exo X ts) {n : Node} (hn : n ∈ ts.nodes) {o : Nat}
    (ho : o ∈ n.qops) : ∃ k t, alookup k ts.s.tasks = some t ∧ t.queued = true ∧ o ∈ t.ops := by
  have h1 := ((hT.tree.qo n hn).2 o).mp ho
  obtain ⟨k, t, hk, hq, _, hm, _⟩ := (mem_bagQ_iff hT.inv.core.tnd _).mp h1
  exact ⟨k, t, hk, hq, hm⟩

/-- queued operations are operations of tasks: their names were issued already -/
theorem qb_of_tinvx {ex exo X} {ts : TState} (hT : TInvX ex exo X ts) : QB ts.s.nextOp ts := by
  intro n hn o ho
  obtain ⟨k, t, hk, _, hm⟩ := queued_of_mem_qops hT hn ho
  exact hT.inv.oinv.bound k t o hk hm

theorem qb_of_tinv {ts : TState} (hI : TInv ts) : QB ts.s.nextOp ts := qb_of_tinvx hI.x

/-- an operation that is not in the operation table is not queued -/
theorem notin_of_noop {ts : TState} (hI : TInv ts) {o : Nat} (hno : ts.s.op? o = none) : ∀ n ∈ ts.nodes, o ∉ n.qops := by
  intro n hn ho
  obtain ⟨k, t, hk, _, hm⟩ := queued_of_mem_qops hI.x hn ho
  rcases (hI.inv.oinv.o2 k t o hk hm).2 with a | ⟨op, a, _⟩
  · exact a
  · rw [op?_def] at hno; rw [hno] at a; cases a

/-! ### `nextOp` -/

@[simp] theorem emit_nextOp (s : State) (e : Event) : (emit s e).nextOp = s.nextOp := rfl
@[simp] theorem setTask_nextOp (s : State) (t : Task) : (s.setTask t).nextOp = s.nextOp := rfl
@[simp] theorem setOp_nextOp (s : State) (o : Op) : (s.setOp o).nextOp = s.nextOp := rfl
@[simp] theorem setWorker_nextOp (s : State) (w : Worker) : (s.setWorker w).nextOp = s.nextOp := rfl
@[simp] theorem addCleanup_nextOp (s : State) (d : Nat) (k : CleanupKind) : (s.addCleanup d k).nextOp = s.nextOp := rfl

@[simp] theorem maybeStartCleanup_nextOp (s : State) (o : Nat) : (maybeStartCleanup s o).nextOp = s.nextOp := by
  unfold maybeStartCleanup; split
  · split <;> rfl
  · rfl

@[simp] theorem detachW_nextOp (s : State) (t : Task) : (BbRe.SchedTree.detachW s t).nextOp = s.nextOp := by
  unfold BbRe.SchedTree.detachW; split
  · split <;> rfl
  · rfl

theorem finishOps_nextOp (ops : List Nat) : ∀ s : State, (complete.finishOps s ops).nextOp = s.nextOp := by
  induction ops with
  | nil => intro s; rfl
  | cons o l ih =>
    intro s
    show (complete.finishOps _ l).nextOp = _
    rw [ih]
    show (match s.op? o with
      | some op => if op.mayExistWithoutWaiters = true then
          maybeStartCleanup (s.setOp { op with mayExistWithoutWaiters := false }) o else s
      | none => s).nextOp = s.nextOp
    split
    · split
      · simp
      · rfl
    · rfl

theorem finalize_nextOp {s s' : State} {t : Task} {r : Resp} (h : complete.finalize s t r = .ok s') :
    s'.nextOp = s.nextOp := by
  unfold complete.finalize at h
  simp only [pure, Except.pure] at h
  cases h
  rw [finishOps_nextOp]
  simp only [setTask_nextOp]
  split <;> rfl

/-! ### `assignUnqueuedTask`, `schedule`, `complete` -/

theorem tAssignTo_prio {ts ts' : TState} {w : Worker} {t : Task} {r : Nat} (h : PrioOK ts)
    (hh : tAssignTo ts w t r = .ok ts') : PrioOK ts' := by
  unfold tAssignTo at hh
  tpaths hh
  cases hh
  prio

theorem tSchedule_prio {h : Hints} {ts ts' : TState} {tid : Nat} (hp : PrioOK ts)
    (hh : tSchedule h ts tid = .ok ts') : PrioOK ts' := by
  unfold tSchedule at hh
  tpaths hh
  · exact tAssignTo_prio (by prio) hh
  · cases hh; prio

theorem tCompleteSucc_prio {h : Hints} {x : Extras} {ts ts' : TState} {t : Task} {l : Nat} {r : Resp}
    (hp : PrioOK ts) (hq : QB ts.s.nextOp ts) (hh : tCompleteSucc h x ts t l r = .ok ts') : PrioOK ts' := by
  unfold tCompleteSucc at hh
  tpaths hh
  · cases hh; prio
  · cases hh; prio
  · cases hh; prio
  · have e := finalize_nextOp (by assumption)
    simp only [emit_nextOp] at e
    refine tSchedule_prio ?_ hh
    refine PrioOK.setS _ (PrioOK.setTX _ _ (PrioOK.setOX _ (by prio) ?_))
    show ∀ n ∈ (ts.create _ _).nodes, _ ∉ n.qops
    rw [e]
    exact (hq.create _ _).notin

theorem tCompleteRetry_prio {h : Hints} {x : Extras} {ts ts' : TState} {t : Task} {l : Nat} {r : Resp}
    (hp : PrioOK ts) (hh : tCompleteRetry h x ts t l r = .ok ts') : PrioOK ts' := by
  unfold tCompleteRetry at hh
  tpaths hh
  rename_i v hs _ t1 ht1
  cases hh
  have h1 := tSchedule_prio (by prio) hs
  prio

theorem tComplete_prio {h : Hints} {x : Extras} {ts ts' : TState} {tid : Nat} {r : Resp} {bw : Bool}
    (hp : PrioOK ts) (hq : QB ts.s.nextOp ts) (hh : tComplete h x ts tid r bw = .ok ts') : PrioOK ts' := by
  unfold tComplete at hh
  tpaths hh
  · cases hh; exact hp
  · refine tCompleteSucc_prio (by prio) ?_ hh
    show QB (BbRe.SchedTree.detachW ts.s _).nextOp _
    rw [detachW_nextOp]
    exact (hq.detachTree _ _).setS _
  · exact tCompleteRetry_prio (by prio) hh
  · cases hh; prio
  · cases hh; prio

/-! ### `operation.remove` -/

theorem tRemoveOpRest_prio {exo} {h : Hints} {x : Extras} {ts0 ts' : TState} {op : Op} {o : Nat}
    (hT0 : TInvX (fun _ => False) exo [] ts0) (hoid : OID ts0.s) (hno : ts0.s.op? o = none) (hI' : TInv ts')
    (hp : PrioOK ts0) (hh : tRemoveOpRest h x ts0 op o = .ok ts') : PrioOK ts' := by
  unfold tRemoveOpRest at hh
  tpaths hh
  · rename_i v hc _ _ _ _
    have hpv := tComplete_prio hp (qb_of_tinvx hT0) hc
    have hnv : v.s.op? o = none :=
      ((tComplete_tinv hT0 hoid hc).2.2 (by simp [cCanceled, cOK]) (Or.inl rfl)).ops o hno
    cases hh
    exact PrioOK.setS _ (PrioOK.dropTX _ (PrioOK.dropOX hpv (notin_of_noop hI' hnv)))
  · rename_i v hc _ _ _ _
    have hpv := tComplete_prio hp (qb_of_tinvx hT0) hc
    have hnv : v.s.op? o = none :=
      ((tComplete_tinv hT0 hoid hc).2.2 (by simp [cCanceled, cOK]) (Or.inl rfl)).ops o hno
    cases hh
    exact PrioOK.setS _ (PrioOK.dropOX hpv (notin_of_noop hI' hnv))
  · cases hh
    exact PrioOK.setS _ (PrioOK.dropTX _ (PrioOK.dropOX (by prio) (notin_of_noop hI' (by simpa using hno))))
  · cases hh
    exact PrioOK.setS _ (PrioOK.dropOX (by prio) (notin_of_noop hI' (by simpa using hno)))

theorem tRemoveOp_prio {h : Hints} {x : Extras} {ts ts' : TState} {o : Nat} (hI : TInv ts) (hI' : TInv ts')
    (hp : PrioOK ts) (hh : tRemoveOp h x ts o = .ok ts') : PrioOK ts' := by
  rw [tRemoveOp_eq] at hh
  split at hh
  · rename_i op hop
    rw [op?_def] at hop
    have hnd := hI.inv.oinv.ond
    refine tRemoveOpRest_prio (exo := fun _ => False)
      (hI.x.frame (eraseOp_sframe ts.s o hnd) rfl rfl) ?_ ?_ hI' (by prio) hh
    · intro k op' hk
      have hk' : alookup k (aerase o ts.s.ops) = some op' := hk
      rw [alookup_aerase _ _ _ hnd] at hk'
      split at hk'
      · cases hk'
      · exact (hI.inv.oinv.oid k op' hk').1
    · show alookup o (aerase o ts.s.ops) = none
      exact alookup_aerase_self o ts.s.ops hnd
  · cases hh; exact hp

/-! ### `cancelAllQueuedOperations`, `sizeClassQueue.remove`, `removeStaleWorker` -/

theorem foldl_complete_prio {exo} {h : Hints} {x : Extras} {r : Resp} (ids : List Nat) :
    ∀ {ts ts' : TState}, TInvX (fun _ => False) exo [] ts → OID ts.s → PrioOK ts →
      ids.foldlM (fun ts t => tComplete h x ts t r false) ts = .ok ts' → PrioOK ts' := by
  induction ids with
  | nil => intro ts ts' _ _ hp hh; cases hh; exact hp
  | cons a rest ih =>
    intro ts ts' hT ho hp hh
    rw [List.foldlM_cons] at hh
    simp only [bind, Except.bind] at hh
    split at hh
    · cases hh
    rename_i ts1 h1
    obtain ⟨hT1, ho1, _⟩ := tComplete_tinv hT ho h1
    exact ih hT1 ho1 (tComplete_prio hp (qb_of_tinvx hT) h1) hh

theorem tCancelAllQueued_prio {h : Hints} {x : Extras} {ts ts' : TState} {q : ScqId} {r : Resp} (hI : TInv ts)
    (hp : PrioOK ts) (hh : tCancelAllQueued h x ts q r = .ok ts') : PrioOK ts' := by
  unfold tCancelAllQueued at hh
  exact foldl_complete_prio _ hI.x (OID.of_inv hI.inv) hp hh

theorem tRemoveScq_prio {h : Hints} {x : Extras} {ts ts' : TState} {q : ScqId} (hI : TInv ts) (hp : PrioOK ts)
    (hh : tRemoveScq h x ts q = .ok ts') : PrioOK ts' := by
  unfold tRemoveScq at hh
  tpaths hh
  all_goals (
    have h1 := tCancelAllQueued_prio hI hp (by assumption)
    cases hh
    prio)

theorem tRemoveStaleWorker_prio {h : Hints} {x : Extras} {ts ts' : TState} {q : ScqId} {w : WId} {rt : Nat}
    (hI : TInv ts) (hp : PrioOK ts) (hh : tRemoveStaleWorker h x ts q w rt = .ok ts') : PrioOK ts' := by
  unfold tRemoveStaleWorker at hh
  tpaths hh
  all_goals first
    | (have h1 := tComplete_prio hp (qb_of_tinv hI) (by assumption); cases hh; prio)
    | (cases hh; prio)

/-! ### `cleanupQueue.run`, `bq.enter` -/

theorem tRunCleanup_prio {h : Hints} {x : Extras} : ∀ (fuel : Nat) {ts ts' : TState}, TInv ts → PrioOK ts →
    tRunCleanup h x fuel ts = .ok ts' → PrioOK ts' := by
  intro fuel
  induction fuel with
  | zero => intro ts ts' _ hp hh; cases hh; exact hp
  | succ n ih =>
    intro ts ts' hI hp hh
    unfold tRunCleanup at hh
    split at hh
    · cases hh; exact hp
    rename_i e rest hpd
    obtain ⟨hmem, hsub⟩ := popDue_some hpd
    have hI0 : Inv { ts.s with cleanup := rest } :=
      ⟨hI.inv.core, hI.inv.oinv, hI.inv.sinv.cleanup_sub hsub, hI.inv.linv⟩
    have hT0 : TInv (ts.setS { ts.s with cleanup := rest }) :=
      TInv.mk' hI0 (hI.ts.sframe (setCleanup_sframe _ _))
    have hp0 : PrioOK (ts.setS { ts.s with cleanup := rest }) := hp
    simp only [bind, Except.bind] at hh
    split at hh
    · rename_i q w hk
      split at hh
      · cases hh
      rename_i ts1 hcb
      exact ih (TInv.mk' (inv_of_ref (tRemoveStaleWorker_ref h x _ q w _) (removeStaleWorker_spec hI0) hcb).1
        (tRemoveStaleWorker_ts hT0 hcb)) (tRemoveStaleWorker_prio hT0 hp0 hcb) hh
    · rename_i o hk
      split at hh
      · cases hh
      rename_i ts1 hcb
      have hI1 : TInv ts1 := by
        refine TInv.mk' (inv_of_ref (tRemoveOp_ref h x _ o) (removeOp_spec hI0 ?_) hcb).1 (tRemoveOp_ts hT0 hcb)
        intro op hop; exact hI.inv.sinv.s2 o op e hop hmem hk
      exact ih hI1 (tRemoveOp_prio hT0 hI1 hp0 hcb) hh
    · rename_i q hk
      split at hh
      · cases hh
      rename_i ts1 hcb
      exact ih (TInv.mk' (inv_of_ref (tRemoveScq_ref h x _ q) (removeScq_spec hI0) hcb).1 (tRemoveScq_ts hT0 hcb))
        (tRemoveScq_prio hT0 hp0 hcb) hh

theorem tEnter_prio {h : Hints} {x : Extras} {ts ts' : TState} {now : Nat} (hI : TInv ts) (hp : PrioOK ts)
    (hh : tEnter h x ts now = .ok ts') : PrioOK ts' := by
  unfold tEnter at hh
  split at hh
  · refine tRunCleanup_prio _ (TInv.mk' ?_ ?_) (PrioOK.setS _ hp) hh
    · exact hI.inv.of_same rfl rfl rfl rfl rfl rfl rfl rfl rfl rfl
    · exact TS.of_scqids hI.ts rfl rfl rfl rfl
  · cases hh; exact hp

end BbRe.Lemmas.SchedTree
