import BbRe.Model.Outputs
/-!
Helper lemmas for C10 (`tree_wellformed`): invariants of `uploadDirectory` /
`uploadEntries` (the post-order, digest-de-duplicated `directories` list).
-/
namespace BbRe.Lemmas.Outputs
open BbRe.Outputs

/-- Induction principle for the nested inductive `Node`. -/
theorem Node.induct {P : Node → Prop}
    (hdir : ∀ r es, (∀ p ∈ es, P p.2) → P (.dir r es))
    (hfile : ∀ x c, P (.file x c)) (hsym : ∀ t, P (.symlink t)) (hsp : P .special) : ∀ n, P n := by
  intro n
  refine Node.rec (motive_1 := P) (motive_2 := fun es => ∀ p ∈ es, P p.2) (motive_3 := fun p => P p.2)
    ?_ ?_ ?_ ?_ ?_ ?_ ?_ n
  · intro r es ih; exact hdir r es ih
  · exact hfile
  · exact hsym
  · exact hsp
  · intro p hp; cases hp
  · intro hd tl ih1 ih2 p hp
    cases hp with
    | head => exact ih1
    | tail _ h => exact ih2 p h
  · intro a b ih; exact ih

/-! ### size of a Directory message (well-foundedness of "is referenced by") -/

mutual
def msgSize : DirMsg → Nat
  | .mk _ ds _ => 1 + msgSizeList ds
def msgSizeList : List (Name × DirMsg) → Nat
  | [] => 0
  | (_, m) :: r => msgSize m + msgSizeList r
end

theorem msgSizeList_append (a b : List (Name × DirMsg)) :
    msgSizeList (a ++ b) = msgSizeList a + msgSizeList b := by
  induction a with
  | nil => simp [msgSizeList]
  | cons p r ih =>
    obtain ⟨n, m⟩ := p
    simp only [List.cons_append, msgSizeList, ih]
    omega

theorem msgSize_mem_list (l : List (Name × DirMsg)) (p : Name × DirMsg) (h : p ∈ l) :
    msgSize p.2 ≤ msgSizeList l := by
  induction l with
  | nil => cases h
  | cons q r ih =>
    obtain ⟨n, m⟩ := q
    simp only [msgSizeList]
    cases h with
    | head => simp
    | tail _ h' => have := ih h'; omega

theorem kid_size_lt (m k : DirMsg) (h : k ∈ m.kids) : msgSize k < msgSize m := by
  cases m with
  | mk fs ds ss =>
    simp only [DirMsg.kids, DirMsg.dirs, List.mem_map] at h
    obtain ⟨p, hp, rfl⟩ := h
    have := msgSize_mem_list ds p hp
    simp only [msgSize]
    omega

/-! ### the pure encoding of a directory (what `uploadDirectory` returns as digest) -/

mutual
/-- The `Directory` message of a directory; `none` if `ReadDir` fails. -/
def encodeDir (env : Env) : Node → Option DirMsg
  | .dir readable es => if readable then some (encodeEntries env es (.mk [] [] [])) else none
  | _ => none
def encodeEntries (env : Env) : Entries → DirMsg → DirMsg
  | [], m => m
  | (name, .file x c) :: rest, .mk fs ds ss =>
    if env.putFails (.file c) then encodeEntries env rest (.mk fs ds ss)
    else encodeEntries env rest (.mk (fs ++ [(name, c, x)]) ds ss)
  | (name, .dir r ces) :: rest, .mk fs ds ss =>
    match encodeDir env (.dir r ces) with
    | some cm => encodeEntries env rest (.mk fs (ds ++ [(name, cm)]) ss)
    | none => encodeEntries env rest (.mk fs ds ss)
  | (name, .symlink t) :: rest, .mk fs ds ss =>
    if env.readlinkFails t then encodeEntries env rest (.mk fs ds ss)
    else encodeEntries env rest (.mk fs ds (ss ++ [(name, normTarget t)]))
  | (_, .special) :: rest, m => encodeEntries env rest m
end

mutual
/-- Nothing below this directory makes the upload save an error. -/
def cleanDir (env : Env) : Node → Bool
  | .dir r es => r && cleanEntries env es
  | _ => false
def cleanEntries (env : Env) : Entries → Bool
  | [] => true
  | (_, .file _ c) :: rest => !env.putFails (.file c) && cleanEntries env rest
  | (_, .dir r ces) :: rest => cleanDir env (.dir r ces) && cleanEntries env rest
  | (_, .symlink t) :: rest => !env.readlinkFails t && cleanEntries env rest
  | (_, .special) :: rest => cleanEntries env rest
end

/-- Post-order: everything a message references occurs earlier in the list. -/
def Topo (l : List DirMsg) : Prop :=
  ∀ a m b, l = a ++ m :: b → ∀ k ∈ m.kids, k ∈ a

theorem Topo.nil : Topo [] := by
  intro a m b h; simp at h

theorem Topo.snoc {l : List DirMsg} {m : DirMsg} (h : Topo l) (hk : ∀ k ∈ m.kids, k ∈ l) :
    Topo (l ++ [m]) := by
  intro a x b hsplit k hkx
  cases b with
  | nil =>
    have h2 : l ++ [m] = a ++ [x] := by simpa using hsplit
    have := List.append_inj' h2 rfl
    obtain ⟨rfl, hx⟩ := this
    simp only [List.cons.injEq, and_true] at hx
    subst hx
    exact hk k hkx
  | cons y ys =>
    -- x lies inside l
    have hlen : (a ++ x :: (y :: ys).dropLast).length = l.length := by
      have := congrArg List.length hsplit
      simp at this ⊢
      omega
    have hl : l = a ++ x :: (y :: ys).dropLast := by
      have h3 : l ++ [m] = (a ++ x :: (y :: ys).dropLast) ++ [(y :: ys).getLast (by simp)] := by
        rw [hsplit]
        simp only [List.append_assoc, List.cons_append]
        congr 2
        exact (List.dropLast_concat_getLast (by simp)).symm
      exact (List.append_inj' h3 rfl).1
    exact h a x _ hl k hkx

structure DirOK (env : Env) (n : Node) (st : UpState) (r : Option DirMsg) (st' : UpState) : Prop where
  enc : r = encodeDir env n
  ext : ∃ ext, st'.dirs = st.dirs ++ ext ∧ ∀ x ∈ ext, ∀ m, r = some m → msgSize x ≤ msgSize m
  mem : ∀ m, r = some m → m ∈ st'.dirs
  topo : Topo st.dirs → Topo st'.dirs
  nodup : st.dirs.Nodup → st'.dirs.Nodup
  errs : ∃ more, st'.errs = st.errs ++ more ∧ (more = [] ↔ cleanDir env n = true)

structure EntriesOK (env : Env) (es : Entries) (acc : DirMsg) (st : UpState) (m : DirMsg)
    (st' : UpState) : Prop where
  enc : m = encodeEntries env es acc
  ext : ∃ ext newKids, st'.dirs = st.dirs ++ ext ∧ m.kids = acc.kids ++ newKids ∧
    (∀ k ∈ newKids, k ∈ st'.dirs) ∧ (∀ x ∈ ext, ∃ k ∈ newKids, msgSize x ≤ msgSize k)
  topo : Topo st.dirs → Topo st'.dirs
  nodup : st.dirs.Nodup → st'.dirs.Nodup
  errs : ∃ more, st'.errs = st.errs ++ more ∧ (more = [] ↔ cleanEntries env es = true)

def PDir (env : Env) (n : Node) : Prop :=
  ∀ st, DirOK env n st (n.uploadDirectory env st).1 (n.uploadDirectory env st).2

def PEntries (env : Env) (es : Entries) : Prop :=
  ∀ acc st, EntriesOK env es acc st (uploadEntries env es acc st).1 (uploadEntries env es acc st).2

theorem kids_mk (fs : List (Name × Nat × Bool)) (ds : List (Name × DirMsg)) (ss : List (Name × Str)) :
    (DirMsg.mk fs ds ss).kids = ds.map (·.2) := rfl

/-- A step of the entry loop that neither touches the state nor the referenced directories. -/
theorem EntriesOK.skip {env : Env} {es : Entries} {acc acc' : DirMsg} {st : UpState} {m : DirMsg}
    {st' : UpState} {head : Name × Node}
    (h : EntriesOK env es acc' st m st') (hk : acc'.kids = acc.kids)
    (henc : encodeEntries env (head :: es) acc = encodeEntries env es acc')
    (hclean : cleanEntries env (head :: es) = cleanEntries env es) :
    EntriesOK env (head :: es) acc st m st' where
  enc := by rw [henc]; exact h.enc
  ext := by rw [← hk]; exact h.ext
  topo := h.topo
  nodup := h.nodup
  errs := by rw [hclean]; exact h.errs

theorem pentries_of_pdir (env : Env) (es : Entries) (h : ∀ p ∈ es, PDir env p.2) : PEntries env es := by
  induction es with
  | nil =>
    intro acc st
    simp only [uploadEntries]
    exact ⟨by simp [encodeEntries], ⟨[], [], by simp, by simp, by simp, by simp⟩, id, id,
      ⟨[], by simp, by simp [cleanEntries]⟩⟩
  | cons p rest ih =>
    have ihr := ih (fun q hq => h q (List.mem_cons_of_mem _ hq))
    obtain ⟨name, n⟩ := p
    intro acc st
    cases acc with
    | mk fs ds ss =>
    cases n with
    | file x c =>
      simp only [uploadEntries]
      split
      · rename_i hput
        have := ihr (.mk fs ds ss) (st.err .put)
        refine ⟨by rw [encodeEntries]; simp only [hput, ↓reduceIte]; exact this.enc, this.ext,
          this.topo, this.nodup, ?_⟩
        obtain ⟨more, hm, _⟩ := this.errs
        refine ⟨.put :: more, by simp [UpState.err] at hm; simpa [UpState.err] using hm, ?_⟩
        simp [cleanEntries, hput]
      · rename_i hput
        have := ihr (.mk (fs ++ [(name, c, x)]) ds ss) st
        refine EntriesOK.skip this rfl ?_ ?_
        · rw [encodeEntries]; simp only [hput]; rfl
        · simp [cleanEntries, hput]
    | symlink t =>
      simp only [uploadEntries]
      split
      · rename_i hrl
        have := ihr (.mk fs ds ss) (st.err .fs)
        refine ⟨by rw [encodeEntries]; simp only [hrl, ↓reduceIte]; exact this.enc, this.ext,
          this.topo, this.nodup, ?_⟩
        obtain ⟨more, hm, _⟩ := this.errs
        refine ⟨.fs :: more, by simp [UpState.err] at hm; simpa [UpState.err] using hm, ?_⟩
        simp [cleanEntries, hrl]
      · rename_i hrl
        have := ihr (.mk fs ds (ss ++ [(name, normTarget t)])) st
        refine EntriesOK.skip this rfl ?_ ?_
        · rw [encodeEntries]; simp only [hrl]; rfl
        · simp [cleanEntries, hrl]
    | special =>
      simp only [uploadEntries]
      have := ihr (.mk fs ds ss) st
      exact EntriesOK.skip this rfl (by rw [encodeEntries]) (by simp [cleanEntries])
    | dir r ces =>
      have hd := h (name, .dir r ces) (by simp) st
      simp only [uploadEntries]
      cases hres : Node.uploadDirectory env (.dir r ces) st with
      | mk ro st1 =>
        rw [hres] at hd
        simp only at hd
        cases ro with
        | none =>
          simp only
          have := ihr (.mk fs ds ss) st1
          obtain ⟨ext1, he1, _⟩ := hd.ext
          obtain ⟨ext2, nk, he2, hk2, hin2, hsz2⟩ := this.ext
          refine ⟨?_, ⟨ext1 ++ ext2, nk, by rw [he2, he1]; simp, hk2, hin2, ?_⟩,
            fun ht => this.topo (hd.topo ht), fun hn => this.nodup (hd.nodup hn), ?_⟩
          · rw [encodeEntries, ← hd.enc]; exact this.enc
          · -- ext1 is empty: a failed ReadDir appends nothing
            intro x hx
            have hnone := hd.enc
            have : ext1 = [] := by
              have hu := hres
              rw [Node.uploadDirectory] at hu
              split at hu
              · simp at hu
              · simp only [Prod.mk.injEq, true_and] at hu
                rw [← hu] at he1
                simpa [UpState.err] using he1
            subst this
            exact hsz2 x (by simpa using hx)
          · obtain ⟨m1, hm1, hc1⟩ := hd.errs
            obtain ⟨m2, hm2, hc2⟩ := this.errs
            refine ⟨m1 ++ m2, by rw [hm2, hm1]; simp, ?_⟩
            simp only [List.append_eq_nil_iff, hc1, hc2, cleanEntries, Bool.and_eq_true]
        | some cm =>
          simp only
          have := ihr (.mk fs (ds ++ [(name, cm)]) ss) st1
          obtain ⟨ext1, he1, hsz1⟩ := hd.ext
          obtain ⟨ext2, nk, he2, hk2, hin2, hsz2⟩ := this.ext
          refine ⟨?_, ⟨ext1 ++ ext2, cm :: nk, by rw [he2, he1]; simp, ?_, ?_, ?_⟩,
            fun ht => this.topo (hd.topo ht), fun hn => this.nodup (hd.nodup hn), ?_⟩
          · rw [encodeEntries, ← hd.enc]; exact this.enc
          · rw [hk2]; simp [kids_mk]
          · intro k hk
            cases hk with
            | head =>
              have := hd.mem cm rfl
              rw [he2]; exact List.mem_append_left _ this
            | tail _ hk' => exact hin2 k hk'
          · intro x hx
            rcases List.mem_append.1 hx with hx | hx
            · exact ⟨cm, by simp, hsz1 x hx cm rfl⟩
            · obtain ⟨k, hk, hle⟩ := hsz2 x hx
              exact ⟨k, List.mem_cons_of_mem _ hk, hle⟩
          · obtain ⟨m1, hm1, hc1⟩ := hd.errs
            obtain ⟨m2, hm2, hc2⟩ := this.errs
            refine ⟨m1 ++ m2, by rw [hm2, hm1]; simp, ?_⟩
            simp only [List.append_eq_nil_iff, hc1, hc2, cleanEntries, Bool.and_eq_true]

theorem pdir_all (env : Env) : ∀ n, PDir env n := by
  apply Node.induct
  · intro r es ih st
    have hq := pentries_of_pdir env es ih (.mk [] [] []) st
    rw [Node.uploadDirectory]
    cases r with
    | false =>
      simp only [Bool.false_eq_true, ↓reduceIte]
      exact ⟨by simp [encodeDir], ⟨[], by simp [UpState.err], by simp⟩, by simp,
        by simp [UpState.err], by simp [UpState.err], ⟨[.fs], by simp [UpState.err], by simp [cleanDir]⟩⟩
    | true =>
      simp only [↓reduceIte]
      cases hres : uploadEntries env es (.mk [] [] []) st with
      | mk m st1 =>
        rw [hres] at hq
        simp only at hq ⊢
        obtain ⟨ext, nk, he, hk, hin, hsz⟩ := hq.ext
        have hkids : m.kids = nk := by simpa [kids_mk] using hk
        have hlt : ∀ x ∈ ext, msgSize x < msgSize m := by
          intro x hx
          obtain ⟨k, hk', hle⟩ := hsz x hx
          have := kid_size_lt m k (by rw [hkids]; exact hk')
          omega
        obtain ⟨more, hm, hc⟩ := hq.errs
        by_cases hmem : m ∈ st1.dirs
        · have hsee : st1.see m = st1 := by simp [UpState.see, hmem]
          rw [hsee]
          refine ⟨by simp [encodeDir, hq.enc], ⟨ext, he, ?_⟩, ?_, hq.topo, hq.nodup, ⟨more, hm, ?_⟩⟩
          · intro x hx m' hm'
            cases hm'
            exact Nat.le_of_lt (hlt x hx)
          · intro m' hm'; cases hm'; exact hmem
          · simp [cleanDir, hc]
        · have hsee : (st1.see m).dirs = st1.dirs ++ [m] := by simp [UpState.see, hmem]
          have hsee2 : (st1.see m).errs = st1.errs := by simp [UpState.see, hmem]
          refine ⟨by simp [encodeDir, hq.enc], ⟨ext ++ [m], by rw [hsee, he]; simp, ?_⟩, ?_, ?_, ?_,
            ⟨more, by rw [hsee2, hm], by simp [cleanDir, hc]⟩⟩
          · intro x hx m' hm'
            cases hm'
            rcases List.mem_append.1 hx with hx | hx
            · exact Nat.le_of_lt (hlt x hx)
            · simp at hx; subst hx; exact Nat.le_refl _
          · intro m' hm'; cases hm'; rw [hsee]; simp
          · intro ht
            rw [hsee]
            exact (hq.topo ht).snoc (fun k hk' => hin k (by rw [← hkids]; exact hk'))
          · intro hn
            rw [hsee]
            exact List.nodup_append.2 ⟨hq.nodup hn, by simp, by
              intro a ha b hb
              simp at hb; subst hb
              intro hab; subst hab; exact hmem ha⟩
  · intro x c st
    have hu : Node.uploadDirectory env (.file x c) st = (none, st.err .fs) := by
      simp [Node.uploadDirectory]
    rw [hu]
    exact ⟨by simp [encodeDir], ⟨[], by simp [UpState.err], by simp⟩, by simp,
      by simp [UpState.err], by simp [UpState.err], ⟨[.fs], by simp [UpState.err], by simp [cleanDir]⟩⟩
  · intro t st
    have hu : Node.uploadDirectory env (.symlink t) st = (none, st.err .fs) := by
      simp [Node.uploadDirectory]
    rw [hu]
    exact ⟨by simp [encodeDir], ⟨[], by simp [UpState.err], by simp⟩, by simp,
      by simp [UpState.err], by simp [UpState.err], ⟨[.fs], by simp [UpState.err], by simp [cleanDir]⟩⟩
  · intro st
    have hu : Node.uploadDirectory env .special st = (none, st.err .fs) := by
      simp [Node.uploadDirectory]
    rw [hu]
    exact ⟨by simp [encodeDir], ⟨[], by simp [UpState.err], by simp⟩, by simp,
      by simp [UpState.err], by simp [UpState.err], ⟨[.fs], by simp [UpState.err], by simp [cleanDir]⟩⟩

/-- Facts about a fresh `uploadDirectory` run (the state `uploadOutputDirectoryEntered` starts with). -/
theorem fresh_upload (env : Env) (n : Node) (root : DirMsg) (st : UpState)
    (h : n.uploadDirectory env {} = (some root, st)) :
    encodeDir env n = some root ∧
    (∃ rest, st.dirs.reverse = root :: rest) ∧
    st.dirs.Nodup ∧ Topo st.dirs ∧
    (st.errs = [] ↔ cleanDir env n = true) := by
  have hp := pdir_all env n {}
  rw [h] at hp
  simp only at hp
  obtain ⟨ext, he, hsz⟩ := hp.ext
  simp only [List.nil_append] at he
  have hmem := hp.mem root rfl
  refine ⟨hp.enc.symm, ?_, hp.nodup List.nodup_nil, hp.topo Topo.nil, ?_⟩
  · -- root is the last element appended
    -- unfold one step to see how the state was produced
    cases n with
    | dir r es =>
      rw [Node.uploadDirectory] at h
      cases r with
      | false => simp at h
      | true =>
        simp only [↓reduceIte] at h
        cases hres : uploadEntries env es (.mk [] [] []) {} with
        | mk m st1 =>
          rw [hres] at h
          simp only [Prod.mk.injEq, Option.some.injEq] at h
          obtain ⟨rfl, rfl⟩ := h
          have hq := pentries_of_pdir env es (fun p _ => pdir_all env p.2) (.mk [] [] []) {}
          rw [hres] at hq
          simp only at hq
          obtain ⟨ext1, nk, he1, hk, hin, hsz1⟩ := hq.ext
          simp only [List.nil_append] at he1
          have hkids : m.kids = nk := by simpa [kids_mk] using hk
          have hnot : m ∉ st1.dirs := by
            intro hm
            rw [he1] at hm
            obtain ⟨k, hk', hle⟩ := hsz1 m hm
            have := kid_size_lt m k (by rw [hkids]; exact hk')
            omega
          exact ⟨st1.dirs.reverse, by simp [UpState.see, hnot]⟩
    | file x c => simp [Node.uploadDirectory] at h
    | symlink t => simp [Node.uploadDirectory] at h
    | special => simp [Node.uploadDirectory] at h
  · obtain ⟨more, hm, hc⟩ := hp.errs
    simp only [List.nil_append] at hm
    rw [hm, hc]

theorem nodup_reverse' {α : Type} {l : List α} (h : l.Nodup) : l.reverse.Nodup := by
  unfold List.Nodup at *
  rw [List.pairwise_reverse]
  exact h.imp (fun hab => fun hba => hab hba.symm)

/-! ### what the encoding contains -/

def fileOf (env : Env) : Name × Node → Option (Name × Nat × Bool)
  | (name, .file x c) => if env.putFails (.file c) then none else some (name, c, x)
  | _ => none

def symlinkOf (env : Env) : Name × Node → Option (Name × Str)
  | (name, .symlink t) => if env.readlinkFails t then none else some (name, normTarget t)
  | _ => none

def dirOf (env : Env) : Name × Node → Option (Name × DirMsg)
  | (name, .dir r ces) => (encodeDir env (.dir r ces)).map (fun m => (name, m))
  | _ => none

theorem encodeEntries_lists (env : Env) (es : Entries) (acc : DirMsg) :
    (encodeEntries env es acc).files = acc.files ++ es.filterMap (fileOf env) ∧
    (encodeEntries env es acc).dirs = acc.dirs ++ es.filterMap (dirOf env) ∧
    (encodeEntries env es acc).symlinks = acc.symlinks ++ es.filterMap (symlinkOf env) := by
  induction es generalizing acc with
  | nil => simp [encodeEntries]
  | cons p rest ih =>
    obtain ⟨name, n⟩ := p
    cases acc with
    | mk fs ds ss =>
    cases n with
    | file x c =>
      rw [encodeEntries]
      split
      · rename_i hput
        have := ih (.mk fs ds ss)
        simpa [List.filterMap_cons, fileOf, dirOf, symlinkOf, hput] using this
      · rename_i hput
        have := ih (.mk (fs ++ [(name, c, x)]) ds ss)
        simpa [List.filterMap_cons, fileOf, dirOf, symlinkOf, hput, DirMsg.files, DirMsg.dirs,
          DirMsg.symlinks] using this
    | symlink t =>
      rw [encodeEntries]
      split
      · rename_i hrl
        have := ih (.mk fs ds ss)
        simpa [List.filterMap_cons, fileOf, dirOf, symlinkOf, hrl] using this
      · rename_i hrl
        have := ih (.mk fs ds (ss ++ [(name, normTarget t)]))
        simpa [List.filterMap_cons, fileOf, dirOf, symlinkOf, hrl, DirMsg.files, DirMsg.dirs,
          DirMsg.symlinks] using this
    | special =>
      rw [encodeEntries]
      have := ih (.mk fs ds ss)
      simpa [List.filterMap_cons, fileOf, dirOf, symlinkOf] using this
    | dir r ces =>
      rw [encodeEntries]
      cases henc : encodeDir env (.dir r ces) with
      | none =>
        have := ih (.mk fs ds ss)
        simpa [List.filterMap_cons, fileOf, dirOf, symlinkOf, henc] using this
      | some cm =>
        have := ih (.mk fs (ds ++ [(name, cm)]) ss)
        simpa [List.filterMap_cons, fileOf, dirOf, symlinkOf, henc, DirMsg.files, DirMsg.dirs,
          DirMsg.symlinks] using this

end BbRe.Lemmas.Outputs
