import BbRe.Lemmas.FilePoolAlloc
import BbRe.Spec.AllocSpec
/-!
The allocator contract checked by `Env.alloc` / assumed by `Env.freeList` in
`Model/FilePool.lean` is the one of `Spec/AllocSpec.lean` (which
`Properties/C15Alloc.lean` proves the bitmap allocator to meet).
-/
namespace BbRe.Lemmas.FilePool
open BbRe.FilePool BbRe.AllocSpec

/-- the model's allocated list as an `AllocSpec` state. -/
def absAlloc (A : List Nat) : Abs := fun s => A.contains s

/-- an answer accepted by the model is an `AllocOk` step of the specification. -/
theorem alloc_ok_spec {c : Cfg} {e e' : Env} {maximum first count : Nat}
    (h : e.alloc c maximum = (e', .ok first count)) :
    AllocOk c.nsec (absAlloc e.allocd) maximum first count (absAlloc e'.allocd) := by
  obtain ⟨h1, _, _, _, h5, h6, h7, h8, h9⟩ := alloc_ok h
  refine ⟨h5, h6, h7, h8, fun s hs1 hs2 => ?_, fun s => ?_⟩
  · simp only [absAlloc, List.contains_eq_mem, decide_eq_false_iff_not]
    exact h9 s hs1 hs2
  · simp only [absAlloc, h1, inRun, List.contains_eq_mem, List.mem_append, List.mem_range'_1]
    by_cases ha : s ∈ e.allocd <;> by_cases hb : first ≤ s ∧ s < first + count <;> simp [ha, hb] <;> omega

/-- conversely, every answer the specification allows is accepted by the model. -/
theorem alloc_accepts_spec {c : Cfg} {e : Env} {maximum first count : Nat} (rest : List AllocAns)
    (ha : e.answers = .range first count :: rest)
    (hok : allocAnswerOk c.nsec (absAlloc e.allocd) maximum first count = true) :
    (e.alloc c maximum).2 = .ok first count := by
  unfold allocAnswerOk at hok
  simp only [Bool.and_eq_true, decide_eq_true_eq, List.all_eq_true, List.mem_range, absAlloc,
    Bool.not_eq_eq_eq_not, Bool.not_true, List.contains_eq_mem, decide_eq_false_iff_not] at hok
  obtain ⟨⟨⟨⟨h1, h2⟩, h3⟩, h4⟩, h5⟩ := hok
  unfold Env.alloc
  rw [ha]
  dsimp only
  rw [if_pos]
  refine ⟨h1, h2, h3, h4, (rangeFree_iff _ _ _).mpr ?_⟩
  intro s hs1 hs2
  have := h5 (s - first) (by omega)
  rwa [show first + (s - first) = s by omega] at this

/-- `FreeList` under the specification's precondition has the specification's effect and never double-frees. -/
theorem freeList_spec_post (e : Env) (l : List Nat) (hA : e.allocd.Nodup)
    (hpre : FreeListPre (absAlloc e.allocd) l) :
    FreeListPost (absAlloc e.allocd) l (absAlloc (e.freeList l).allocd) ∧ (e.freeList l).dfree = e.dfree := by
  have hsub : ∀ s ∈ l, s ≠ 0 → s ∈ e.allocd := by
    intro s hs h0
    have := hpre.1 s hs h0
    simpa [absAlloc] using this
  obtain ⟨h1, _, h3⟩ := freeList_spec e l hA hsub hpre.2
  refine ⟨fun s => ?_, h1⟩
  simp only [absAlloc, List.contains_eq_mem]
  by_cases ha : s ∈ e.allocd <;> by_cases hb : s ∈ l <;> by_cases h0 : s = 0 <;>
    simp [h3, ha, hb, h0]

end BbRe.Lemmas.FilePool
