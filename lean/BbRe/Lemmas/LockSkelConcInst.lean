/-
Instantiating name-level traces of the lock skeletons (`Exec`) to run-time lock instances
(C14 part b). A call executes its trace with every lock *name* `l` (canonical text of a lock
expression) replaced by the run-time lock `ρ l` it denotes in that call. For an injective,
class-preserving `ρ` the instantiated trace satisfies the static hypotheses `Good` of
`Lemmas/LockSkelConc.lean`, given the facts proved about `Exec` traces (lock balance
`run [] tr = some []`, the extracted acquired-while-holding pairs are ranked).
Core Lean only.
-/
import BbRe.Lemmas.LockSkelConc

namespace BbRe.Lemmas.LockSkelConc
open BbRe.LockSkel BbRe.Lemmas.LockSkel BbRe.Lemmas.LockSkelEdges

def mapRS (ρ : Nat → Nat) (s : RS) : RS := ⟨s.held.map ρ, fun p => (s.piles p).map ρ⟩

theorem map_erase_inj {ρ : Nat → Nat} (hρ : Function.Injective ρ) :
    ∀ (l : List Nat) (a : Nat), (l.erase a).map ρ = (l.map ρ).erase (ρ a)
  | [], _ => rfl
  | x :: l, a => by
    by_cases h : x = a
    · subst h; simp
    · have h' : ρ x ≠ ρ a := fun e => h (hρ e)
      simp [h, h', map_erase_inj hρ l a]

theorem mdiff_map {ρ : Nat → Nat} (hρ : Function.Injective ρ) :
    ∀ (xs h : List Nat), mdiff (h.map ρ) (xs.map ρ) = (mdiff h xs).map ρ
  | [], _ => rfl
  | x :: xs, h => by
    simp only [List.map_cons, mdiff]
    rw [← map_erase_inj hρ, mdiff_map hρ xs]

theorem stepR_map {ρ : Nat → Nat} (hρ : Function.Injective ρ) (s : RS) (e : Ev) :
    stepR (mapRS ρ s) (evMap ρ e) = mapRS ρ (stepR s e) := by
  cases e with
  | acq l => rfl
  | need cs => rfl
  | rel l => simp only [evMap, stepR, mapRS, map_erase_inj hρ]
  | pacq p l =>
    simp only [evMap, stepR, mapRS, List.map_cons, RS.mk.injEq, true_and]
    funext q
    simp only [upd]
    split <;> simp_all
  | prel p l =>
    simp only [evMap, stepR, mapRS, map_erase_inj hρ, RS.mk.injEq, true_and]
    funext q
    simp only [upd]
    split
    · rename_i h; subst h; exact (map_erase_inj hρ _ _).symm
    · rfl

theorem stRun_map {ρ : Nat → Nat} (hρ : Function.Injective ρ) :
    ∀ (tr : List Ev) (s : RS), stRun (mapRS ρ s) (tr.map (evMap ρ)) = mapRS ρ (stRun s tr)
  | [], _ => rfl
  | e :: t, s => by
    simp only [List.map_cons, stRun, stepR_map hρ, stRun_map hρ t]

theorem mapRS_init (ρ : Nat → Nat) : mapRS ρ RS.init = RS.init := rfl

theorem stepPairs_map {ρ : Nat → Nat} (hρ : Function.Injective ρ) {cls : List Nat}
    {c : Nat → Nat} {own : Nat → Bool} (hc : ∀ l, c (ρ l) = clsOf cls l)
    (ho : ∀ l, own (ρ l) = isOwn l) (s : RS) (e : Ev) :
    stepPairsG c own (mapRS ρ s) (evMap ρ e) = stepPairs cls s e := by
  cases e with
  | acq l =>
    simp only [evMap, stepPairsG, stepPairs, ho, mapRS, List.map_map]
    split
    · rfl
    · congr 1; funext x; simp [hc]
  | pacq p l =>
    simp only [evMap, stepPairsG, stepPairs, mapRS, mdiff_map hρ, List.map_map]
    congr 1; funext x; simp [hc]
  | rel l => rfl
  | prel p l => rfl
  | need cs => rfl

theorem pairsFrom_map {ρ : Nat → Nat} (hρ : Function.Injective ρ) {cls : List Nat}
    {c : Nat → Nat} {own : Nat → Bool} (hc : ∀ l, c (ρ l) = clsOf cls l)
    (ho : ∀ l, own (ρ l) = isOwn l) :
    ∀ (tr : List Ev) (s : RS),
      pairsFromG c own (mapRS ρ s) (tr.map (evMap ρ)) = pairsFrom cls s tr
  | [], _ => rfl
  | e :: t, s => by
    simp only [List.map_cons, pairsFromG, pairsFrom, stepPairs_map hρ hc ho, stepR_map hρ,
      pairsFrom_map hρ hc ho t]

/-- The (pile, lock name) pairs of the `pileLock` statements of a skeleton. -/
def stmtPileLocks : Stmt → List (Nat × Nat)
  | .pileLock p l => [(p, l)]
  | .seq a b => stmtPileLocks a ++ stmtPileLocks b
  | .choice _ a b => stmtPileLocks a ++ stmtPileLocks b
  | .loop _ b => stmtPileLocks b
  | .fin a b => stmtPileLocks a ++ stmtPileLocks b
  | .scope a => stmtPileLocks a
  | .block a => stmtPileLocks a
  | .ifFlag _ a b => stmtPileLocks a ++ stmtPileLocks b
  | _ => []

/-- Syntactic check: all lock names that any function of the program takes through a
`LockPile` have one edge class (renamings at calls keep the class, `renOk`). -/
def pileClassesOk (cls : List Nat) (prog : Prog) : Bool :=
  let all := prog.flatMap (fun fb => stmtPileLocks fb.2)
  all.all (fun a => all.all (fun b => clsOf cls a.2 == clsOf cls b.2))

/-- A replay that does not fail ends with the held multiset of `stRun`. -/
theorem run_held : ∀ (tr : List Ev) (h h' : List Nat) (P : Nat → List Nat),
    run h tr = some h' → (stRun ⟨h, P⟩ tr).held = h'
  | [], h, h', P, e => by simp only [run, Option.some.injEq] at e; exact e
  | ev :: t, h, h', P, e => by
    simp only [run] at e
    cases hs : stepH h ev with
    | none => rw [hs] at e; cases e
    | some h1 =>
      rw [hs] at e
      have : (stepR ⟨h, P⟩ ev).held = h1 := by
        cases ev with
        | acq l => simpa [stepH, stepR] using hs
        | pacq p l => simpa [stepH, stepR] using hs
        | rel l =>
          simp only [stepH] at hs
          split at hs
          · simpa [stepR] using hs
          · cases hs
        | prel p l =>
          simp only [stepH] at hs
          split at hs
          · simpa [stepR] using hs
          · cases hs
        | need cs =>
          simp only [stepH] at hs
          split at hs
          · simpa [stepR] using hs
          · cases hs
      have h2 := run_held t h1 h' (stepR ⟨h, P⟩ ev).piles e
      simp only [stRun]
      rw [← this] at h2
      exact h2

/-- A replay that does not fail releases only what is held. -/
theorem run_noUnderflow : ∀ (tr : List Ev) (h h' : List Nat) (P : Nat → List Nat) (k i : Nat),
    run h tr = some h' → (tr[k]? = some (.rel i) ∨ ∃ p, tr[k]? = some (.prel p i)) →
    i ∈ (stRun ⟨h, P⟩ (tr.take k)).held
  | [], _, _, _, _, _, _, hk => by simp at hk
  | ev :: t, h, h', P, 0, i, e, hk => by
    simp only [List.getElem?_cons_zero, Option.some.injEq] at hk
    simp only [List.take_zero, stRun]
    simp only [run] at e
    cases hs : stepH h ev with
    | none => rw [hs] at e; cases e
    | some h1 =>
      rcases hk with rfl | ⟨p, rfl⟩
      · simp only [stepH] at hs
        split at hs
        · rename_i hc; simpa using hc
        · cases hs
      · simp only [stepH] at hs
        split at hs
        · rename_i hc; simpa using hc
        · cases hs
  | ev :: t, h, h', P, k + 1, i, e, hk => by
    simp only [List.getElem?_cons_succ] at hk
    simp only [List.take_succ_cons, stRun]
    simp only [run] at e
    cases hs : stepH h ev with
    | none => rw [hs] at e; cases e
    | some h1 =>
      rw [hs] at e
      have hh : (stRun ⟨h, P⟩ [ev]).held = h1 := run_held [ev] h h1 P (by simp [run, hs])
      simp only [stRun] at hh
      have := run_noUnderflow t h1 h' (stepR ⟨h, P⟩ ev).piles k i e hk
      rw [← hh] at this
      exact this

/-- **Instantiated traces are good.** `tr` a name-level trace that replays from nothing held
to nothing held and whose class pairs (under `clsOf cls`) are `ok`, all locks taken
through one pile being of one class; `ρ` injective with `c (ρ l) = clsOf cls l` and
`own (ρ l) = isOwn l`. Then `tr.map (evMap ρ)` satisfies `Good c own ok`. -/
theorem good_of_run {cls : List Nat} {c : Nat → Nat} {own : Nat → Bool} {ok : Nat → Nat → Prop}
    {ρ : Nat → Nat} (hρ : Function.Injective ρ) (hc : ∀ l, c (ρ l) = clsOf cls l)
    (ho : ∀ l, own (ρ l) = isOwn l) {tr : List Ev}
    (hrun : run [] tr = some [])
    (hord : ∀ e ∈ pairsRun cls [] (fun _ => []) tr, ok e.1 e.2) (hirr : ∀ a, ¬ ok a a)
    (hpile : ∀ p l l', Ev.pacq p l ∈ tr → Ev.pacq p l' ∈ tr → clsOf cls l = clsOf cls l') :
    Good c own ok (tr.map (evMap ρ)) where
  irrefl := hirr
  ordered := by
    intro e he
    rw [← mapRS_init ρ, pairsFrom_map hρ hc ho] at he
    exact hord e he
  noUnderflow := by
    intro k i hk
    rw [← List.map_take, ← mapRS_init ρ, stRun_map hρ]
    simp only [List.getElem?_map] at hk
    have hex : ∃ l, ρ l = i ∧ (tr[k]? = some (.rel l) ∨ ∃ p, tr[k]? = some (.prel p l)) := by
      rcases hk with hk | ⟨p, hk⟩
      · cases hx : tr[k]? with
        | none => rw [hx] at hk; cases hk
        | some ev =>
          rw [hx] at hk
          cases ev <;> simp [evMap] at hk
          exact ⟨_, hk, Or.inl rfl⟩
      · cases hx : tr[k]? with
        | none => rw [hx] at hk; cases hk
        | some ev =>
          rw [hx] at hk
          cases ev <;> simp [evMap] at hk
          exact ⟨_, hk.2, Or.inr ⟨_, by rw [hk.1]⟩⟩
    obtain ⟨l, rfl, hl⟩ := hex
    exact List.mem_map_of_mem (run_noUnderflow tr [] [] (fun _ => []) k l hrun hl)
  balanced := by
    intro j hj
    rw [← mapRS_init ρ, stRun_map hρ] at hj
    have := run_held tr [] [] (fun _ => []) hrun
    simp only [mapRS, RS.init, this, List.map_nil] at hj
    cases hj
  pileUniform := by
    intro p i j hi hj
    rw [List.mem_map] at hi hj
    obtain ⟨e1, h1, he1⟩ := hi
    obtain ⟨e2, h2, he2⟩ := hj
    cases e1 <;> simp [evMap] at he1
    cases e2 <;> simp [evMap] at he2
    obtain ⟨rfl, rfl⟩ := he1
    obtain ⟨rfl, rfl⟩ := he2
    rw [hc, hc]
    exact hpile _ _ _ h1 h2

end BbRe.Lemmas.LockSkelConc
