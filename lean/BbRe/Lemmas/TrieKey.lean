/-
`platform.NewKey` (Model/Trie.lean `newKey`, `propsOK`, `platformString`).
-/
import BbRe.Model.Trie
namespace BbRe.Lemmas.TrieKey
open BbRe.Model.Trie
open BbRe.Spec.PrefixMap (Comp Prop' Plat Key)

/-- REv2's order on platform properties: by name, then by value (strict). -/
def plt (a b : Prop') : Prop := a.1 < b.1 ∨ (a.1 = b.1 ∧ a.2 < b.2)

instance : DecidableRel plt := fun a b => by unfold plt; exact inferInstance

theorem plt_irrefl (a : Prop') : ¬ plt a a := by unfold plt; omega
theorem plt_asymm {a b : Prop'} (h : plt a b) : ¬ plt b a := by unfold plt at *; omega
theorem plt_trans {a b c : Prop'} (h1 : plt a b) (h2 : plt b c) : plt a c := by unfold plt at *; omega

/-- strictly sorted by (name, value): what REv2 demands (duplicates excluded). -/
def StrictSorted (ps : List Prop') : Prop := ps.Pairwise plt

theorem propsOK_cons2 (a b : Prop') (r : List Prop') :
    propsOK (a :: b :: r) = (!(decide (a.1 > b.1) || (decide (a.1 = b.1) && decide (a.2 ≥ b.2))) && propsOK (b :: r)) := rfl

theorem propsOK_iff (ps : List Prop') : propsOK ps = true ↔ StrictSorted ps := by
  unfold StrictSorted
  induction ps with
  | nil => simp [propsOK]
  | cons a r ih =>
    cases r with
    | nil => simp [propsOK]
    | cons b r' =>
      rw [propsOK_cons2, Bool.and_eq_true, ih]
      have hab : (!(decide (a.1 > b.1) || (decide (a.1 = b.1) && decide (a.2 ≥ b.2)))) = true ↔ plt a b := by
        unfold plt
        simp only [Bool.not_eq_true', Bool.or_eq_false_iff, decide_eq_false_iff_not, Bool.and_eq_false_imp,
          decide_eq_true_eq]
        omega
      rw [hab]
      constructor
      · rintro ⟨h1, h2⟩
        rw [List.pairwise_cons]
        refine ⟨?_, h2⟩
        intro x hx
        rcases List.mem_cons.1 hx with rfl | hx'
        · exact h1
        · exact plt_trans h1 ((List.pairwise_cons.1 h2).1 x hx')
      · intro h
        rw [List.pairwise_cons] at h
        exact ⟨h.1 b (by simp), h.2⟩

theorem newKey_eq_some_iff (inst : List Comp) (ps : List Prop') (k : Key) :
    newKey inst ps = some k ↔ StrictSorted ps ∧ k = ⟨inst, ps⟩ := by
  unfold newKey
  by_cases h : propsOK ps = true
  · simp only [h, if_true, Option.some.injEq]
    exact ⟨fun e => ⟨(propsOK_iff ps).1 h, e.symm⟩, fun e => e.2.symm⟩
  · simp only [h]
    constructor
    · intro e; cases e
    · rintro ⟨hs, _⟩; exact absurd ((propsOK_iff ps).2 hs) h

theorem newKey_eq_none_iff (inst : List Comp) (ps : List Prop') :
    newKey inst ps = none ↔ ¬ StrictSorted ps := by
  unfold newKey
  rw [← propsOK_iff]
  by_cases h : propsOK ps = true <;> simp [h]

theorem platformString_injective : ∀ (a b : Plat), platformString a = platformString b → a = b
  | [], [], _ => rfl
  | [], q :: s, h => by simp [platformString] at h
  | p :: r, [], h => by simp [platformString] at h
  | p :: r, q :: s, h => by
    simp only [platformString, List.cons_append, List.nil_append, List.cons.injEq, Tok.name.injEq,
      Tok.value.injEq, true_and] at h
    obtain ⟨h1, h2, h3⟩ := h
    have := platformString_injective r s h3
    subst this
    have : p = q := Prod.ext h1 h2
    rw [this]

/-- two strictly sorted lists with the same members are the same list: the sorted list is a
canonical form of the property *set*. -/
theorem strictSorted_ext : ∀ (a b : List Prop'), StrictSorted a → StrictSorted b →
    (∀ x, x ∈ a ↔ x ∈ b) → a = b
  | [], [], _, _, _ => rfl
  | [], q :: s, _, _, h => by have := (h q).2 (by simp); simp at this
  | p :: r, [], _, _, h => by have := (h p).1 (by simp); simp at this
  | p :: r, q :: s, ha, hb, h => by
    unfold StrictSorted at ha hb
    rw [List.pairwise_cons] at ha hb
    have hpq : p = q := by
      have h1 := (h p).1 (by simp)
      have h2 := (h q).2 (by simp)
      rcases List.mem_cons.1 h1 with e | hp
      · exact e
      · rcases List.mem_cons.1 h2 with e | hq
        · exact e.symm
        · exact absurd (ha.1 q hq) (plt_asymm (hb.1 p hp))
    subst hpq
    have : r = s := by
      apply strictSorted_ext r s ha.2 hb.2
      intro x
      constructor
      · intro hx
        rcases List.mem_cons.1 ((h x).1 (List.mem_cons_of_mem _ hx)) with e | hx'
        · subst e; exact absurd (ha.1 x hx) (plt_irrefl x)
        · exact hx'
      · intro hx
        rcases List.mem_cons.1 ((h x).2 (List.mem_cons_of_mem _ hx)) with e | hx'
        · subst e; exact absurd (hb.1 x hx) (plt_irrefl x)
        · exact hx'
    rw [this]

end BbRe.Lemmas.TrieKey
