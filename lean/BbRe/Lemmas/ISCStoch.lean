import BbRe.Model.ISC
import BbRe.Lemmas.ISCFaster
import BbRe.Lemmas.ISCRange
/-!
Helper lemmas for C07 (b): the matrix of the PageRank strategy calculator is left
stochastic, and a power-iteration step maps probability vectors to probability vectors
(over `Rat`).
-/
namespace BbRe.Lemmas.ISC
open BbRe.ISC

/-! ## Sums of lists of rationals -/

theorem sumRat_append (a b : List Rat) : sumRat (a ++ b) = sumRat a + sumRat b := by
  induction a with
  | nil => simp only [List.nil_append, sumRat]; grind
  | cons x xs ih => simp only [List.cons_append, sumRat, ih]; grind

theorem sumRat_nonneg (l : List Rat) (h : ∀ x ∈ l, 0 ≤ x) : 0 ≤ sumRat l := by
  induction l with
  | nil => simp [sumRat]
  | cons x xs ih =>
    simp only [sumRat]
    have h1 := h x (by simp)
    have h2 := ih (fun y hy => h y (by simp [hy]))
    grind

theorem sumRat_le_length_mul (l : List Rat) (c : Rat) (h : ∀ x ∈ l, x ≤ c) :
    sumRat l ≤ (l.length : Rat) * c := by
  induction l with
  | nil => simp [sumRat]
  | cons x xs ih =>
    simp only [sumRat, List.length_cons]
    have h1 := h x (by simp)
    have h2 := ih (fun y hy => h y (by simp [hy]))
    have : ((xs.length + 1 : Nat) : Rat) = (xs.length : Rat) + 1 := by simp
    rw [this]
    grind

theorem sumRat_take_le (l : List Rat) (h : ∀ x ∈ l, 0 ≤ x) : ∀ k, sumRat (l.take k) ≤ sumRat l := by
  induction l with
  | nil => intro k; simp [sumRat]
  | cons x xs ih =>
    intro k
    cases k with
    | zero =>
      simp only [List.take_zero, sumRat]
      exact sumRat_nonneg _ h
    | succ k =>
      simp only [List.take_succ_cons, sumRat]
      have := ih (fun y hy => h y (by simp [hy])) k
      grind

theorem sumRat_replicate_zero (n : Nat) : sumRat (List.replicate n 0) = 0 := by
  induction n with
  | zero => simp [sumRat]
  | succ n ih => simp only [List.replicate_succ, sumRat, ih]; grind

/-! ## The matrix -/

/-- `1/(n-1)`, the weight of one comparison. -/
def w (n : Nat) : Rat := (((n - 1 : Nat) : Rat))⁻¹

theorem w_pos (n : Nat) (hn : 2 ≤ n) : 0 < w n := by
  unfold w
  apply Rat.inv_pos.mpr
  have : (0 : Nat) < n - 1 := by omega
  exact_mod_cast this

theorem w_mul (n : Nat) (hn : 2 ≤ n) : ((n - 1 : Nat) : Rat) * w n = 1 := by
  unfold w
  apply Rat.mul_inv_cancel
  have : (n - 1 : Nat) ≠ 0 := by omega
  exact_mod_cast this

theorem offDiag_range (outs : List Outcomes) (n i j : Nat) (hn : 2 ≤ n) :
    0 ≤ offDiag outs n i j ∧ offDiag outs n i j ≤ w n := by
  have hw := w_pos n hn
  unfold offDiag
  split
  · have h1 := isFaster_pos (outs.getD i {}) (outs.getD j {})
    have h2 := isFaster_lt_one (outs.getD i {}) (outs.getD j {})
    rw [Rat.div_def]
    show 0 ≤ (1 - isFaster (outs.getD i {}) (outs.getD j {})) * w n ∧
      (1 - isFaster (outs.getD i {}) (outs.getD j {})) * w n ≤ w n
    have hx0 : 0 ≤ 1 - isFaster (outs.getD i {}) (outs.getD j {}) := by grind
    have hx1 : 1 - isFaster (outs.getD i {}) (outs.getD j {}) ≤ 1 := by grind
    constructor
    · exact Rat.mul_nonneg hx0 (by grind)
    · have := Rat.mul_le_mul_of_nonneg_right hx1 (by grind : 0 ≤ w n)
      simpa using this
  · have h1 := isFaster_pos (outs.getD j {}) (outs.getD i {})
    have h2 := isFaster_lt_one (outs.getD j {}) (outs.getD i {})
    rw [Rat.div_def]
    show 0 ≤ isFaster (outs.getD j {}) (outs.getD i {}) * w n ∧
      isFaster (outs.getD j {}) (outs.getD i {}) * w n ≤ w n
    constructor
    · exact Rat.mul_nonneg (by grind) (by grind)
    · have := Rat.mul_le_mul_of_nonneg_right (by grind : isFaster (outs.getD j {}) (outs.getD i {}) ≤ 1)
        (by grind : 0 ≤ w n)
      simpa using this

theorem rowBefore_facts (outs : List Outcomes) (n i : Nat) (hn : 2 ≤ n) :
    (rowBefore outs n i).length = i ∧ (∀ x ∈ rowBefore outs n i, 0 ≤ x) ∧
    sumRat (rowBefore outs n i) ≤ (i : Rat) * w n := by
  unfold rowBefore
  refine ⟨by simp, ?_, ?_⟩
  · intro x hx
    simp only [List.mem_map] at hx
    obtain ⟨j, _, rfl⟩ := hx
    exact (offDiag_range outs n i j hn).1
  · have := sumRat_le_length_mul ((List.range i).map (offDiag outs n i)) (w n) (by
      intro x hx
      simp only [List.mem_map] at hx
      obtain ⟨j, _, rfl⟩ := hx
      exact (offDiag_range outs n i j hn).2)
    simpa using this

theorem rowAfter_facts (outs : List Outcomes) (n i : Nat) (hn : 2 ≤ n) :
    (rowAfter outs n i).length = n - (i + 1) ∧ (∀ x ∈ rowAfter outs n i, 0 ≤ x) ∧
    sumRat (rowAfter outs n i) ≤ ((n - (i + 1) : Nat) : Rat) * w n := by
  unfold rowAfter
  refine ⟨by simp, ?_, ?_⟩
  · intro x hx
    simp only [List.mem_map] at hx
    obtain ⟨j, _, rfl⟩ := hx
    exact (offDiag_range outs n i j hn).1
  · have := sumRat_le_length_mul ((List.range' (i + 1) (n - (i + 1))).map (offDiag outs n i)) (w n) (by
      intro x hx
      simp only [List.mem_map] at hx
      obtain ⟨j, _, rfl⟩ := hx
      exact (offDiag_range outs n i j hn).2)
    simpa using this

/-- Row `i` of the matrix: `n` non-negative entries that sum to one. -/
theorem matrixRow_facts (outs : List Outcomes) (n i : Nat) (hn : 2 ≤ n) (hi : i < n) :
    (matrixRow outs n i).length = n ∧ sumRat (matrixRow outs n i) = 1 ∧
    ∀ x ∈ matrixRow outs n i, 0 ≤ x := by
  have hb := rowBefore_facts outs n i hn
  have ha := rowAfter_facts outs n i hn
  unfold matrixRow
  refine ⟨?_, ?_, ?_⟩
  · simp [hb.1, ha.1]; omega
  · rw [sumRat_append]; simp only [sumRat]; grind
  · intro x hx
    simp only [List.mem_append, List.mem_cons] at hx
    rcases hx with hx | hx | hx
    · exact hb.2.1 x hx
    · subst hx
      -- the diagonal: at most n-1 comparisons of weight at most 1/(n-1) are subtracted from 1
      have hsum : sumRat (rowBefore outs n i) + sumRat (rowAfter outs n i) ≤ 1 := by
        have h1 := hb.2.2
        have h2 := ha.2.2
        have hcount : (i : Rat) + ((n - (i + 1) : Nat) : Rat) = ((n - 1 : Nat) : Rat) := by
          have : i + (n - (i + 1)) = n - 1 := by omega
          exact_mod_cast this
        have hm := w_mul n hn
        have : (i : Rat) * w n + ((n - (i + 1) : Nat) : Rat) * w n = 1 := by
          rw [← hm, ← hcount]; grind
        grind
      grind
    · exact ha.2.1 x hx

theorem matrix_facts (outs : List Outcomes) (n : Nat) (hn : 2 ≤ n) :
    (matrix outs n).length = n ∧
    ∀ row ∈ matrix outs n, row.length = n ∧ sumRat row = 1 ∧ ∀ x ∈ row, 0 ≤ x := by
  unfold matrix
  refine ⟨by simp, ?_⟩
  intro row hrow
  simp only [List.mem_map, List.mem_range] at hrow
  obtain ⟨i, hi, rfl⟩ := hrow
  exact matrixRow_facts outs n i hn hi

/-! ## One step of the power iteration -/

theorem vadd_length (a b : List Rat) (h : a.length = b.length) : (vadd a b).length = a.length := by
  induction a generalizing b with
  | nil => cases b <;> simp [vadd]
  | cons x xs ih =>
    cases b with
    | nil => simp at h
    | cons y ys => simp [vadd, ih ys (by simpa using h)]

theorem vadd_sum (a b : List Rat) (h : a.length = b.length) : sumRat (vadd a b) = sumRat a + sumRat b := by
  induction a generalizing b with
  | nil =>
    cases b with
    | nil => simp only [vadd, sumRat]; grind
    | cons y ys => simp at h
  | cons x xs ih =>
    cases b with
    | nil => simp at h
    | cons y ys =>
      simp only [vadd, sumRat, ih ys (by simpa using h)]
      grind

theorem vadd_nonneg (a b : List Rat) (ha : ∀ x ∈ a, 0 ≤ x) (hb : ∀ x ∈ b, 0 ≤ x) :
    ∀ x ∈ vadd a b, 0 ≤ x := by
  induction a generalizing b with
  | nil => cases b <;> simp [vadd]
  | cons x xs ih =>
    cases b with
    | nil => simp [vadd]
    | cons y ys =>
      intro z hz
      simp only [vadd, List.mem_cons] at hz
      rcases hz with hz | hz
      · subst hz
        exact Rat.add_nonneg (ha x (by simp)) (hb y (by simp))
      · exact ih ys (fun u hu => ha u (by simp [hu])) (fun u hu => hb u (by simp [hu])) z hz

theorem smul_length (c : Rat) (v : List Rat) : (smul c v).length = v.length := by simp [smul]

theorem smul_sum (c : Rat) (v : List Rat) : sumRat (smul c v) = c * sumRat v := by
  induction v with
  | nil => simp [smul, sumRat]
  | cons x xs ih =>
    simp only [smul, List.map_cons, sumRat] at ih ⊢
    rw [ih]; grind

theorem smul_nonneg (c : Rat) (v : List Rat) (hc : 0 ≤ c) (hv : ∀ x ∈ v, 0 ≤ x) : ∀ x ∈ smul c v, 0 ≤ x := by
  intro x hx
  simp only [smul, List.mem_map] at hx
  obtain ⟨y, hy, rfl⟩ := hx
  exact Rat.mul_nonneg hc (hv y hy)

/-- Accumulating scaled rows: the result has length `n`; if every row sums to one the sum
is the sum of the scalars; non-negativity is preserved. -/
theorem accum_facts (n : Nat) (ps : List Rat) (rows : List (List Rat))
    (hlen : ps.length = rows.length)
    (hrows : ∀ row ∈ rows, row.length = n ∧ sumRat row = 1 ∧ ∀ x ∈ row, 0 ≤ x) :
    (accum n ps rows).length = n ∧ sumRat (accum n ps rows) = sumRat ps ∧
    ((∀ p ∈ ps, 0 ≤ p) → ∀ x ∈ accum n ps rows, 0 ≤ x) := by
  induction ps generalizing rows with
  | nil =>
    cases rows with
    | nil => simp [accum, sumRat, sumRat_replicate_zero]
    | cons r rs => simp at hlen
  | cons p ps ih =>
    cases rows with
    | nil => simp at hlen
    | cons row rows =>
      have hr := hrows row (by simp)
      have ih' := ih rows (by simpa using hlen) (fun r hr' => hrows r (by simp [hr']))
      simp only [accum]
      have hl : (smul p row).length = (accum n ps rows).length := by
        rw [smul_length, hr.1, ih'.1]
      refine ⟨?_, ?_, ?_⟩
      · rw [vadd_length _ _ hl, smul_length, hr.1]
      · rw [vadd_sum _ _ hl, smul_sum, hr.2.1, ih'.2.1]
        simp only [sumRat]; grind
      · intro hp
        apply vadd_nonneg
        · exact smul_nonneg p row (hp p (by simp)) hr.2.2
        · exact ih'.2.2 (fun q hq => hp q (by simp [hq]))

/-- One power-iteration step with the calculator's matrix. -/
theorem stepVec_facts (outs : List Outcomes) (n : Nat) (hn : 2 ≤ n) (p : List Rat) (hp : p.length = n) :
    (stepVec (matrix outs n) p).length = n ∧
    sumRat (stepVec (matrix outs n) p) = sumRat p ∧
    ((∀ x ∈ p, 0 ≤ x) → ∀ x ∈ stepVec (matrix outs n) p, 0 ≤ x) := by
  have hm := matrix_facts outs n hn
  unfold stepVec
  rw [hp]
  exact accum_facts n p (matrix outs n) (by rw [hp, hm.1]) hm.2

theorem iterate_facts (outs : List Outcomes) (n : Nat) (hn : 2 ≤ n) (eps : Rat) (fuel : Nat) :
    ∀ (p : List Rat), p.length = n →
      (iterate (matrix outs n) eps fuel p).1.length = n ∧
      sumRat (iterate (matrix outs n) eps fuel p).1 = sumRat p ∧
      ((∀ x ∈ p, 0 ≤ x) → ∀ x ∈ (iterate (matrix outs n) eps fuel p).1, 0 ≤ x) := by
  induction fuel with
  | zero => intro p hp; simp [iterate, hp]
  | succ fuel ih =>
    intro p hp
    have hs := stepVec_facts outs n hn p hp
    unfold iterate
    simp only
    split
    · exact hs
    · have := ih (stepVec (matrix outs n) p) hs.1
      simp only
      refine ⟨this.1, by rw [this.2.1, hs.2.1], ?_⟩
      intro hnn
      exact this.2.2 (hs.2.2 hnn)

/-! ## The starting vector -/

/-- Whatever `double` was stored — NaN, ±Inf, negative, zero, denormal, ≥ 1 — the value the
iteration starts from lies strictly between 0 and 1. -/
theorem restoredOf_range (v : StoredProb) : 0 < restoredOf v ∧ restoredOf v < 1 := by
  cases v with
  | fin q =>
    simp only [restoredOf]
    split
    · rename_i h; exact h
    · decide +kernel
  | nan => decide +kernel
  | posInf => decide +kernel
  | negInf => decide +kernel

theorem restored_pos (pcs : List PerClass) : ∀ x ∈ restored pcs, 0 < x := by
  intro x hx
  simp only [restored, List.mem_map] at hx
  obtain ⟨pc, _, rfl⟩ := hx
  exact (restoredOf_range pc.prob).1

theorem startVec_facts (pcs : List PerClass) (h : 0 < pcs.length) :
    (startVec pcs).length = pcs.length ∧ sumRat (startVec pcs) = 1 ∧
    (sumRat (restored (pcs.drop 1)) ≤ 1 → ∀ x ∈ startVec pcs, 0 ≤ x) := by
  unfold startVec
  simp only
  refine ⟨?_, ?_, ?_⟩
  · simp [restored]; omega
  · simp only [sumRat]; grind
  · intro hle x hx
    simp only [List.mem_cons] at hx
    rcases hx with hx | hx
    · subst hx; grind
    · have := restored_pos _ x hx
      grind

/-! ## Probability lists -/

/-- A list of non-negative numbers with sum one: every prefix sum is in `[0,1]`. -/
theorem prefix_range (v : List Rat) (hnn : ∀ x ∈ v, 0 ≤ x) (hsum : sumRat v ≤ 1) (k : Nat) :
    0 ≤ sumRat (v.take k) ∧ sumRat (v.take k) ≤ 1 := by
  constructor
  · exact sumRat_nonneg _ (fun x hx => hnn x (List.mem_of_mem_take hx))
  · have := sumRat_take_le v hnn k
    grind

def probs (ss : List Strategy) : List Rat := ss.map (·.prob)

theorem probs_setProbs (ss : List Strategy) : ∀ (ps : List Rat), ss.length = ps.length →
    probs (setProbs ss ps) = ps := by
  induction ss with
  | nil => intro ps h; cases ps <;> simp [setProbs, probs] at h ⊢
  | cons a ss ih =>
    intro ps h
    cases ps with
    | nil => simp at h
    | cons p ps =>
      simp only [setProbs, probs, List.map_cons] at ih ⊢
      rw [ih ps (by simpa using h)]

/-- What `build` returns early, and the forced strategies, are "point masses". -/
def PointMass (ss : List Strategy) : Prop := (∀ x ∈ probs ss, 0 ≤ x) ∧ sumRat (probs ss) = 1

theorem ite_strategy_prob (c : Prop) [Decidable c] (t : Int) :
    (if c then ({ background := true } : Strategy) else { fgTimeout := t }).prob = 0 := by
  split <;> rfl

theorem build_early_pointMass (F : FloatOps) (minTO : Int) (largest : Nat) (med origTO : Int)
    (l : List (Nat × PerClass)) :
    ∀ rb ss, build F minTO largest med origTO l rb = .early ss → PointMass ss := by
  induction l with
  | nil => intro rb ss h; simp [build] at h
  | cons e rest ih =>
    intro rb ss h
    obtain ⟨sc, pc⟩ := e
    unfold build at h
    simp only at h
    split at h
    · simp only [BuildRes.early.injEq] at h; subst h
      simp only [PointMass, probs, List.map_cons, List.map_nil, List.mem_singleton, sumRat]
      refine ⟨?_, by grind⟩
      intro x hx; subst hx; decide +kernel
    · split at h
      · rename_i ss' heq
        simp only [BuildRes.early.injEq] at h; subst h
        have := ih _ ss' heq
        constructor
        · intro x hx
          simp only [probs, List.map_cons, List.mem_cons] at hx
          rcases hx with hx | hx
          · subst hx; rw [ite_strategy_prob]; exact Rat.le_refl
          · exact this.1 x hx
        · simp only [probs, List.map_cons, sumRat]
          have h2 := this.2
          simp only [probs] at h2
          rw [h2, ite_strategy_prob]
          grind
      · simp at h

theorem probs_replicate_default (i : Nat) : probs (List.replicate i ({} : Strategy)) = List.replicate i 0 := by
  simp [probs]

theorem forcedStrategies_pointMass (minTO origTO : Int) (pcs : List PerClass) (n : Nat) :
    PointMass (forcedStrategies minTO origTO pcs n) := by
  unfold forcedStrategies
  split <;>
  · constructor
    · intro x hx
      simp only [probs, List.map_append, List.map_replicate, List.mem_append, List.mem_replicate,
        List.map_cons, List.map_nil, List.mem_singleton] at hx
      rcases hx with hx | hx
      · rw [hx.2]; exact Rat.le_refl
      · rw [hx]; decide +kernel
    · simp only [probs, List.map_append, List.map_replicate, List.map_cons, List.map_nil]
      rw [sumRat_append, sumRat_replicate_zero]
      simp only [sumRat]; grind

theorem probs_take (ss : List Strategy) (k : Nat) : probs (ss.take k) = (probs ss).take k := by
  simp [probs, List.map_take]

theorem classList_length (m : ClassMap) (classes : List Nat) : (classList m classes).length = classes.length := by
  simp [classList]

/-- The probabilities returned by `GetStrategies` of the PageRank calculator are
non-negative and sum to at most one, provided the starting vector is non-negative
(the restored / default probabilities of entries `1 … n-1` sum to at most one). -/
theorem pageRankStrategies_probs (c : PageRankCfg) (m : ClassMap) (classes : List Nat) (origTO : Int)
    (hstart : sumRat (restored ((classList (ensureClasses m classes) classes).drop 1)) ≤ 1) :
    (∀ x ∈ probs (pageRankStrategies c m classes origTO).2.1, 0 ≤ x) ∧
    sumRat (probs (pageRankStrategies c m classes origTO).2.1) ≤ 1 := by
  unfold pageRankStrategies
  simp only
  split
  · simp only [probs, List.map_nil, List.not_mem_nil, false_imp_iff, implies_true, sumRat, true_and]; decide +kernel
  · rename_i hn
    have hn2 : 2 ≤ classes.length := by omega
    split
    · have := forcedStrategies_pointMass c.minTO origTO (classList (ensureClasses m classes) classes) classes.length
      exact ⟨this.1, by rw [this.2]; exact Rat.le_refl⟩
    · rename_i med _
      split
      · rename_i ss heq
        have := build_early_pointMass _ _ _ _ _ _ _ ss heq
        exact ⟨this.1, by rw [this.2]; exact Rat.le_refl⟩
      · rename_i os ss heq
        simp only
        have hpcs := classList_length (ensureClasses m classes) classes
        have hlen := (build_length _ _ _ _ _ _ _).2 os ss heq
        have hss : ss.length = classes.length - 1 := by
          rw [hlen.1, List.length_take, List.length_zip, hpcs]; omega
        have hsv := startVec_facts (classList (ensureClasses m classes) classes) (by rw [hpcs]; omega)
        have hit := iterate_facts
          (os ++ [newOutcomes (successTimes ((classList (ensureClasses m classes) classes).getLastD {}).execs) 0])
          classes.length hn2 c.eps c.fuel (startVec (classList (ensureClasses m classes) classes))
          (by rw [hsv.1, hpcs])
        have hnn := hit.2.2 (hsv.2.2 hstart)
        have hsum := hit.2.1
        rw [hsv.2.1] at hsum
        rw [probs_take, probs_setProbs _ _ (by rw [List.length_append, hss, hit.1]; simp; omega)]
        constructor
        · intro x hx
          exact hnn x (List.mem_of_mem_take hx)
        · have := sumRat_take_le _ hnn (classes.length - 1)
          rw [hsum] at this
          exact this

/-- The same for whatever calculator is configured, and for `Select`'s own strategy list. -/
theorem strategiesFD_probs (env : Env) (stats : Stats) (origTO : Int) (classes : List Nat) (now : Int)
    (hstart : sumRat (restored ((classList (ensureClasses stats.classes classes) classes).drop 1)) ≤ 1) :
    (∀ x ∈ probs (strategiesFD env stats origTO classes now).2.1, 0 ≤ x) ∧
    sumRat (probs (strategiesFD env stats origTO classes now).2.1) ≤ 1 := by
  unfold strategiesFD
  split
  · unfold Calc.strategies
    split
    · exact pageRankStrategies_probs _ _ _ _ hstart
    · unfold smallestStrategies
      split
      · simp only [probs, List.map_nil, List.not_mem_nil, false_imp_iff, implies_true, sumRat, true_and]; decide +kernel
      · simp only [probs, List.map_cons, List.map_nil, List.mem_singleton, sumRat]
        refine ⟨?_, by grind⟩
        intro x hx; subst hx; decide +kernel
  · simp only [probs, List.map_nil, List.not_mem_nil, false_imp_iff, implies_true, sumRat, true_and]; decide +kernel

end BbRe.Lemmas.ISC
