import BbRe.Lemmas.SchedInvCleanup
/-! Client streams: `streamSend`, `streamAttach`, `streamLeave`. -/
namespace BbRe.Lemmas.SchedInv
open BbRe.Sched

theorem countP_filter_le {α} (l : List α) (p q : α → Bool) : (l.filter q).countP p ≤ l.countP p :=
  List.Sublist.countP_le (List.filter_sublist)

theorem countP_filter_add_one {α} {l : List α} {p q : α → Bool} {x : α} (hx : x ∈ l) (hp : p x = true)
    (hq : q x = false) : (l.filter q).countP p + 1 ≤ l.countP p := by
  induction l with
  | nil => simp at hx
  | cons a r ih =>
    rcases List.mem_cons.mp hx with h | h
    · subst h
      rw [List.filter_cons, hq, List.countP_cons, hp]
      have := countP_filter_le r p q
      simp; omega
    · have := ih h
      rw [List.filter_cons, List.countP_cons]
      split
      · rw [List.countP_cons]; split <;> simp_all <;> omega
      · split <;> omega

/-- replacing an operation by one with the same name and task -/
theorem OInv.setOp {exo ts os no} (h : OInv exo ts os no) {op op' : Op} (h0 : alookup op.name os = some op)
    (h1 : op'.name = op.name) (h2 : op'.task = op.task) : OInv exo ts (aset op'.name op' os) no := by
  have := h.oid; have := h.o1; have := h.o2
  constructor
  · exact nodup_aset _ _ _ h.ond
  · intro k o; grind
  · intro k o; grind
  · intro k t o hk ho
    obtain ⟨a, b⟩ := h.o2 k t o hk ho
    refine ⟨a, ?_⟩
    rcases b with b | ⟨opx, e1, e2⟩
    · exact Or.inl b
    · right; grind
  · exact h.o3

/-- the part of the state a stream operation may change -/
def StreamFrame (s s' : State) : Prop :=
  ∃ os sts cl evs, s' = { s with ops := os, streams := sts, cleanup := cl, events := evs }

theorem StreamFrame.fr {s s' : State} (h : StreamFrame s s') (hev : Ext Quiet s.events s'.events) : Fr s s' := by
  obtain ⟨os, sts, cl, evs, he⟩ := h
  subst he
  exact Fr.of_fields rfl (Nat.le_refl _) (Nat.le_refl _) (Nat.le_refl _) rfl hev (fun k hk => hk.2)

theorem StreamFrame.trans {a b c : State} (h1 : StreamFrame a b) (h2 : StreamFrame b c) : StreamFrame a c := by
  obtain ⟨os, sts, cl, evs, he⟩ := h1
  obtain ⟨os2, sts2, cl2, evs2, he2⟩ := h2
  subst he; subst he2
  exact ⟨_, _, _, _, rfl⟩

theorem noLearn_msg (c o st d co tk) : NoLearn (.msg c o st d co tk) := fun _ => ⟨rfl, rfl⟩
theorem noLearn_ret (c co) : NoLearn (.ret c co) := fun _ => ⟨rfl, rfl⟩

def sendLive (s : State) (c o : Nat) (t : Task) : State :=
  { s with streams := ⟨c, o, t.gen, s.now + s.cfg.updateInterval⟩ :: s.streams.filter (fun x => x.client ≠ c),
           events := .msg c o t.stage false 0 0 :: s.events }

def sendDone0 (s : State) (c o : Nat) (op : Op) (t : Task) (r : Resp) : State :=
  { s with streams := s.streams.filter (fun x => x.client ≠ c),
           events := .ret c cOK :: .msg c o t.stage true r.code r.tok :: s.events,
           ops := aset op.name { op with waiters := op.waiters - 1 } s.ops }

theorem streamSend_eq (s : State) (c o : Nat) :
    streamSend s c o =
      match s.op? o with
      | none => throw "streamSend: no operation"
      | some op =>
        match s.task? op.task with
        | none => throw "streamSend: no task"
        | some t =>
          match t.response with
          | some r => if op.waiters = 0 then throw "Invalid waiters count on operation"
                      else pure (maybeStartCleanup (sendDone0 s c o op t r) o)
          | none => pure (sendLive s c o t) := by
  unfold streamSend
  cases s.op? o with
  | none => rfl
  | some op =>
    dsimp only
    cases s.task? op.task with
    | none => rfl
    | some t =>
      dsimp only
      cases t.response with
      | none => rfl
      | some r =>
        dsimp only
        by_cases hw : op.waiters = 0
        · rw [if_pos hw, if_pos hw]; rfl
        · rw [if_neg hw, if_neg hw]; rfl

set_option maxHeartbeats 800000 in
theorem streamSend_spec {ex exo} {s : State} {c o : Nat} {op : Op} (hI : InvX ex exo s)
    (hop : alookup o s.ops = some op)
    (hpre : (s.streams.filter (fun x => x.client ≠ c)).countP (fun st => st.op = o) + 1 ≤ op.waiters) :
    wp (streamSend s c o) (fun s' => InvX ex exo s' ∧ StreamFrame s s' ∧ Ext Quiet s.events s'.events ∧
      (∀ t, alookup op.task s.tasks = some t → t.response = none →
        ∃ st, st ∈ s'.streams ∧ st.client = c ∧ st.op = o)) := by
  have ho := hI.oinv
  have hs := hI.sinv
  obtain ⟨t, ht, hmem⟩ := ho.o1 o op hop
  have hname : op.name = o := (ho.oid o op hop).1
  have hop' : alookup op.name s.ops = some op := by rw [hname]; exact hop
  rw [streamSend_eq]
  simp only [op?_def, hop, task?_def, ht]
  have hs1 : SInv s.ops (s.streams.filter (fun x => x.client ≠ c)) s.cleanup :=
    ⟨fun k op' hk => Nat.le_trans (countP_filter_le _ _ _) (hs.s1 k op' hk), hs.s2,
     fun st hst => hs.s3 st (List.mem_filter.mp hst).1⟩
  cases hr : t.response with
  | some r =>
    dsimp only
    have hw : ¬ op.waiters = 0 := by omega
    rw [if_neg hw, wp_pure, maybeStartCleanup_eq]
    have hoinv : OInv exo s.tasks (sendDone0 s c o op t r).ops s.nextOp :=
      ho.setOp (op' := { op with waiters := op.waiters - 1 }) hop' rfl rfl
    have hsinv : SInv (sendDone0 s c o op t r).ops (sendDone0 s c o op t r).streams (sendDone0 s c o op t r).cleanup := by
      simp only [sendDone0]
      constructor
      · intro k op' hk
        rw [alookup_aset, hname] at hk
        split at hk
        · rename_i hko; subst hko; cases hk; simp only []; omega
        · exact hs1.s1 k op' hk
      · intro k op' e hk he hek
        rw [alookup_aset, hname] at hk
        split at hk
        · rename_i hko; subst hko
          have := hs.s2 o op e hop he hek
          omega
        · exact hs.s2 k op' e hk he hek
      · intro st hst
        have := hs1.s3 st hst
        rw [alookup_aset]; split
        · rfl
        · exact this
    have hlinv : LogInv s.tasks s.nextLearner (sendDone0 s c o op t r).events :=
      (hI.linv.emit _ (noLearn_msg _ _ _ _ _ _)).emit _ (noLearn_ret _ _)
    refine ⟨⟨hI.core, hoinv, SInv.maybeStartCleanup (s := sendDone0 s c o op t r) hsinv o, hlinv⟩,
      ⟨_, _, _, _, rfl⟩, Ext.cons (Ext.cons (Ext.refl _ _) _ trivial) _ trivial, ?_⟩
    intro t' ht' hr'
    cases ht'; rw [hr] at hr'; cases hr'
  | none =>
    dsimp only
    rw [wp_pure]
    refine ⟨⟨hI.core, hI.oinv, ?_, (hI.linv.emit _ (noLearn_msg _ _ _ _ _ _))⟩, ⟨_, _, _, _, rfl⟩,
      Ext.cons (Ext.refl _ _) _ trivial, fun _ _ _ => ⟨_, List.mem_cons_self, rfl, rfl⟩⟩
    simp only [sendLive]
    constructor
    · intro k op' hk
      simp only [List.countP_cons, decide_eq_true_eq]
      have := hs1.s1 k op' hk
      split
      · rename_i hko; subst hko; rw [hop] at hk; cases hk; omega
      · exact this
    · exact hs1.s2
    · intro st hst
      rcases List.mem_cons.mp hst with h | h
      · subst h; simp [hop]
      · exact hs1.s3 st h

def attachSt (s : State) (o : Nat) (op : Op) : State :=
  (s.removeCleanup (.op o)).setOp { op with waiters := op.waiters + 1 }

theorem attachSt_inv {ex exo} {s : State} {o : Nat} {op : Op} (hI : InvX ex exo s)
    (hop : alookup o s.ops = some op) : InvX ex exo (attachSt s o op) := by
  have ho := hI.oinv
  have hs := hI.sinv
  have hname : op.name = o := (ho.oid o op hop).1
  have hop' : alookup op.name s.ops = some op := by rw [hname]; exact hop
  refine ⟨hI.core, ho.setOp (op' := { op with waiters := op.waiters + 1 }) hop' rfl rfl, ?_, hI.linv⟩
  simp only [attachSt, State.setOp, State.removeCleanup]
  constructor
  · intro k op' hk
    rw [alookup_aset, hname] at hk
    split at hk
    · rename_i hko; subst hko; cases hk
      have := hs.s1 o op hop
      simp only []; omega
    · exact hs.s1 k op' hk
  · intro k op' e hk he hek
    rw [alookup_aset, hname] at hk
    have he' := List.mem_filter.mp he
    split at hk
    · rename_i hko; subst hko
      exfalso
      have := he'.2
      simp [hek] at this
    · exact hs.s2 k op' e hk he'.1 hek
  · intro st hst
    have := hs.s3 st hst
    rw [alookup_aset]; split
    · rfl
    · exact this

theorem streamAttach_spec {ex exo} {s : State} {c o : Nat} {op : Op} (hI : InvX ex exo s)
    (hop : alookup o s.ops = some op) :
    wp (streamAttach s c o) (fun s' => InvX ex exo s' ∧ StreamFrame s s' ∧ Ext Quiet s.events s'.events ∧
      (∀ t, alookup op.task s.tasks = some t → t.response = none →
        ∃ st, st ∈ s'.streams ∧ st.client = c ∧ st.op = o)) := by
  have hname : op.name = o := (hI.oinv.oid o op hop).1
  unfold streamAttach
  simp only [op?_def, hop]
  have hI1 := attachSt_inv hI hop
  have hop1 : alookup o (attachSt s o op).ops = some { op with waiters := op.waiters + 1 } := by
    simp only [attachSt, State.setOp, State.removeCleanup]
    rw [alookup_aset, hname]; simp
  have hpre : ((attachSt s o op).streams.filter (fun x => x.client ≠ c)).countP (fun st => st.op = o) + 1 ≤
      ({ op with waiters := op.waiters + 1 } : Op).waiters := by
    have h1 := hI.sinv.s1 o op hop
    have h2 := countP_filter_le s.streams (fun st => decide (st.op = o)) (fun x => decide (x.client ≠ c))
    simp only [attachSt, State.setOp, State.removeCleanup]
    omega
  refine wp_mono (streamSend_spec hI1 hop1 hpre) ?_
  intro s' ⟨hI', hsf, hev, hlive⟩
  exact ⟨hI', StreamFrame.trans ⟨_, _, _, _, rfl⟩ hsf, hev, hlive⟩

def leaveSt0 (s : State) (c : Nat) (op : Op) : State :=
  { s with streams := s.streams.filter (fun x => x.client ≠ c),
           ops := aset op.name { op with waiters := op.waiters - 1 } s.ops }

theorem streamLeave_eq (s : State) (c code : Nat) :
    streamLeave s c code =
      match s.streams.find? (fun x => x.client = c) with
      | none => throw "mismatch: no such parked stream"
      | some st =>
        match s.op? st.op with
        | none => throw "streamLeave: no operation"
        | some op =>
          if op.waiters = 0 then throw "Invalid waiters count on operation"
          else pure (emit (maybeStartCleanup (leaveSt0 s c op) st.op) (.ret c code)) := by
  unfold streamLeave
  cases s.streams.find? (fun x => x.client = c) with
  | none => rfl
  | some st =>
    dsimp only
    cases s.op? st.op with
    | none => rfl
    | some op =>
      dsimp only
      by_cases hw : op.waiters = 0
      · rw [if_pos hw, if_pos hw]; rfl
      · rw [if_neg hw, if_neg hw]; rfl

theorem streamLeave_spec {ex exo} {s : State} {c code : Nat} (hI : InvX ex exo s) :
    wp (streamLeave s c code) (fun s' => InvX ex exo s' ∧ StreamFrame s s' ∧ Ext Quiet s.events s'.events) := by
  have ho := hI.oinv
  have hs := hI.sinv
  rw [streamLeave_eq]
  cases hf : s.streams.find? (fun x => x.client = c) with
  | none => okerr
  | some st =>
    dsimp only
    have hst : st ∈ s.streams := List.mem_of_find?_eq_some hf
    have hstc : st.client = c := by simpa using List.find?_some hf
    have h3 := hs.s3 st hst
    cases hop : alookup st.op s.ops with
    | none => rw [hop] at h3; cases h3
    | some op =>
      simp only [op?_def, hop]
      have hname : op.name = st.op := (ho.oid _ op hop).1
      have hop' : alookup op.name s.ops = some op := by rw [hname]; exact hop
      have hcnt := countP_filter_add_one (l := s.streams) (p := fun x => decide (x.op = st.op))
        (q := fun x => decide (x.client ≠ c)) hst (by simp) (by simp [hstc])
      have h1 := hs.s1 _ op hop
      have hw : ¬ op.waiters = 0 := by omega
      rw [if_neg hw, wp_pure, maybeStartCleanup_eq]
      have hoinv : OInv exo s.tasks (leaveSt0 s c op).ops s.nextOp :=
        ho.setOp (op' := { op with waiters := op.waiters - 1 }) hop' rfl rfl
      have hsinv : SInv (leaveSt0 s c op).ops (leaveSt0 s c op).streams (leaveSt0 s c op).cleanup := by
        simp only [leaveSt0]
        constructor
        · intro k op' hk
          rw [alookup_aset, hname] at hk
          split at hk
          · rename_i hko; subst hko; cases hk; simp only []; omega
          · exact Nat.le_trans (countP_filter_le _ _ _) (hs.s1 k op' hk)
        · intro k op' e hk he hek
          rw [alookup_aset, hname] at hk
          split at hk
          · rename_i hko; subst hko
            have := hs.s2 _ op e hop he hek
            omega
          · exact hs.s2 k op' e hk he hek
        · intro st' hst'
          have := hs.s3 st' (List.mem_filter.mp hst').1
          rw [alookup_aset]; split
          · rfl
          · exact this
      refine ⟨⟨hI.core, hoinv, SInv.maybeStartCleanup (s := leaveSt0 s c op) hsinv _,
        hI.linv.emit _ (noLearn_ret _ _)⟩, ⟨_, _, _, _, rfl⟩, Ext.cons (Ext.refl _ _) _ trivial⟩

end BbRe.Lemmas.SchedInv
