import BbRe.Model.ISC
import BbRe.Lemmas.ISCPath
/-!
Helper lemmas for C07 (b): inside the scheduler's envelope (the largest size class does not
change between `Select` and `Succeeded`, `historySize ≥ 1`) no terminal call panics.
-/
namespace BbRe.Lemmas.ISC
open BbRe.ISC

theorem getClass_setClass_same (m : ClassMap) (sc : Nat) (v : PerClass) : getClass (setClass m sc v) sc = some v := by
  induction m with
  | nil => simp [setClass, getClass]
  | cons e m ih =>
    obtain ⟨k, w⟩ := e
    unfold setClass
    split
    · rename_i h; simp [getClass, h]
    · rename_i h; simp [getClass, h, ih]

theorem insertSorted_length (x : Int) (l : List Int) : (insertSorted x l).length = l.length + 1 := by
  induction l with
  | nil => simp [insertSorted]
  | cons y ys ih => unfold insertSorted; split <;> simp [ih]

theorem sortInts_length (l : List Int) : (sortInts l).length = l.length := by
  induction l with
  | nil => simp [sortInts]
  | cons x xs ih => simp [sortInts, insertSorted_length, ih]

theorem median_isSome (l : List Int) (h : 0 < l.length) : (median l).isSome = true := by
  unfold median
  split
  · omega
  · simp only; split <;> simp

theorem successTimes_append_succ (l : List Outcome) (d : Int) :
    0 < (successTimes (l ++ [.succeeded d])).length := by
  induction l with
  | nil => simp [successTimes]
  | cons o os ih => cases o <;> simp [successTimes] <;> first | omega | exact ih

/-- A non-empty suffix of `l ++ [x]` still ends in `x`. -/
theorem drop_append_last {α : Type} (l : List α) (x : α) (k : Nat) (hk : k ≤ l.length) :
    ∃ l', (l ++ [x]).drop k = l' ++ [x] := by
  refine ⟨l.drop k, ?_⟩
  rw [List.drop_append_of_le_length hk]

/-- After `addPreviousExecution(sc, Succeeded d)` with `historySize ≥ 1` the size class has a median. -/
theorem medianOf_addExec_succ (hist : Nat) (hh : 1 ≤ hist) (m : ClassMap) (sc : Nat) (d : Int) :
    ∃ pc, getClass (addExec hist m sc (.succeeded d)) sc = some pc ∧ (medianOf pc.execs).isSome = true := by
  unfold addExec
  simp only
  refine ⟨_, getClass_setClass_same _ _ _, ?_⟩
  simp only
  unfold medianOf
  apply median_isSome
  rw [sortInts_length]
  split
  · rename_i hlen
    simp only [List.length_append, List.length_singleton] at hlen ⊢
    obtain ⟨l', hl'⟩ := drop_append_last ((getClass m sc).getD {}).execs (.succeeded d)
      (((getClass m sc).getD {}).execs.length + 1 - hist) (by omega)
    rw [hl']
    exact successTimes_append_succ l' d
  · exact successTimes_append_succ _ d

theorem pick_mem (ss : List Strategy) : ∀ (k : Nat) (r : Rat) (i : Nat) (s : Strategy),
    pick ss k r = some (i, s) → s ∈ ss := by
  induction ss with
  | nil => intro k r i s h; simp [pick] at h
  | cons a ss ih =>
    intro k r i s h
    unfold pick at h
    split at h
    · simp only [Option.some.injEq, Prod.mk.injEq] at h
      simp [h.2]
    · exact List.mem_cons_of_mem _ (ih _ _ i s h)

/-- No terminal call ever yields a `largestBackgroundLearner`; that learner only comes from `Select`. -/
theorem step_next_not_largestBg (env : Env) (l : Learner) (stats : Stats) (ev : Ev) (o : StepOut)
    (h : l.step env stats ev = some o) : ∀ a b c, o.next ≠ some (.largestBg a b c) := by
  intro a b c
  cases l <;> cases ev <;>
    simp only [Learner.step, Learner.succeeded, Learner.failed, Learner.abandoned,
      Option.some.injEq] at h <;>
    (try (subst h; simp))
  all_goals
    split at h
    · split at h
      · simp at h
      · simp only [Option.some.injEq] at h; subst h; simp
    · simp only [Option.some.injEq] at h; subst h; simp

/-- The only panic of a terminal call: `largestBackgroundLearner.Succeeded` finding no median
for the largest size class of the list it was given. -/
theorem step_isSome (env : Env) (l : Learner) (stats : Stats) (ev : Ev) (hh : 1 ≤ env.historySize)
    (hbg : ∀ L to s, l = .largestBg L to s →
      (∃ c, env.calculator = .pageRank c) ∧ ∀ d cs, ev = .succeeded d cs → cs.getLast? = some L) :
    (l.step env stats ev).isSome = true := by
  cases l <;> cases ev <;> simp only [Learner.step, Learner.succeeded, Option.isSome_some]
  -- largestBg.succeeded
  rename_i L to s d cs
  obtain ⟨⟨c, hc⟩, hlast⟩ := hbg L to s rfl
  have hl := hlast d cs rfl
  split
  · rename_i i hf
    have hm := medianOf_addExec_succ env.historySize hh stats.classes L d
    obtain ⟨pc, hpc, hmed⟩ := hm
    have hbt : (env.calculator.backgroundTimeout (addTo env stats L (.succeeded d)).classes cs i to).isSome = true := by
      rw [hc]
      simp only [Calc.backgroundTimeout, backgroundTimeout, addTo]
      have hld : cs.getLastD 0 = L := by
        cases cs with
        | nil => simp at hl
        | cons x xs =>
          rw [List.getLastD_eq_getLast?, hl]; rfl
      rw [hld, hpc]
      simp only
      cases hmm : medianOf pc.execs with
      | none => rw [hmm] at hmed; simp at hmed
      | some med => simp
    cases hb : env.calculator.backgroundTimeout (addTo env stats L (.succeeded d)).classes cs i to with
    | none => rw [hb] at hbt; simp at hbt
    | some x => simp
  · simp

/-- A background strategy only comes from the PageRank calculator. -/
theorem strategiesFD_background (env : Env) (stats : Stats) (origTO : Int) (classes : List Nat) (now : Int)
    (s : Strategy) (hs : s ∈ (strategiesFD env stats origTO classes now).2.1) (hb : s.background = true) :
    ∃ c, env.calculator = .pageRank c := by
  unfold strategiesFD at hs
  split at hs
  · unfold Calc.strategies at hs
    split at hs
    · rename_i c hc; exact ⟨c, hc⟩
    · unfold smallestStrategies at hs
      split at hs
      · simp at hs
      · simp at hs; subst hs; simp at hb
  · simp at hs

theorem chooseFD_largestBg (stats1 : Stats) (strategies : List Strategy) (origTO : Int) (classes : List Nat)
    (largest : Nat) (r : Rat) (o : StepOut) (h : chooseFD stats1 strategies origTO classes largest r = some o)
    (L : Nat) (to : Int) (sm : Nat) (hn : o.next = some (.largestBg L to sm)) :
    L = largest ∧ ∃ s ∈ strategies, s.background = true := by
  unfold chooseFD at h
  split at h
  · rename_i i s hp
    have hps := BbRe.Lemmas.ISC.pick_mem strategies 0 r i s hp
    split at h
    · simp at h
    · split at h
      · rename_i hb
        simp only [Option.some.injEq] at h; subst h
        simp at hn
        exact ⟨hn.1.symm, s, hps, hb⟩
      · simp only [Option.some.injEq] at h; subst h; simp at hn
  · simp only [Option.some.injEq] at h; subst h; simp at hn

/-- Invariant: no panic so far, and an outstanding `largestBackgroundLearner` belongs to the
PageRank calculator and to the largest size class of the list given to `Select`. -/
def Calm (env : Env) (classes : List Nat) (t : Trace) : Prop :=
  t.panicked = false ∧
  ∀ L to s, t.cur = some (.largestBg L to s) → (∃ c, env.calculator = .pageRank c) ∧ classes.getLast? = some L

theorem runPath_calm (env : Env) (classes : List Nat) (interfere : Nat → Stats → Stats) (hh : 1 ≤ env.historySize)
    (evs : List Ev) :
    (∀ d cs, Ev.succeeded d cs ∈ evs → cs.getLast? = classes.getLast?) →
    ∀ (t : Trace) (stats : Stats), Calm env classes t → Calm env classes (runPath env interfere t stats evs).1 := by
  induction evs with
  | nil => intro _ t stats h; simpa [runPath] using h
  | cons ev evs ih =>
    intro hev t stats h
    unfold runPath
    cases hc : t.cur with
    | none => simpa using h
    | some l =>
      simp only
      have hsome := step_isSome env l (interfere t.calls stats) ev hh (by
        intro L to s hl
        subst hl
        have := h.2 L to s hc
        refine ⟨this.1, ?_⟩
        intro d cs hevq
        subst hevq
        rw [hev d cs (by simp), this.2])
      cases hs : l.step env (interfere t.calls stats) ev with
      | none => rw [hs] at hsome; simp at hsome
      | some o =>
        simp only
        apply ih (fun d cs hm => hev d cs (by simp [hm]))
        refine ⟨rfl, ?_⟩
        intro L to s hcur
        exact absurd hcur (step_next_not_largestBg env l _ ev o hs L to s)

end BbRe.Lemmas.ISC
