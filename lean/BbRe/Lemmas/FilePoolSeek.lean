import BbRe.Lemmas.FilePoolRefine
/-!
`GetNextRegionOffset`: list scans, the hole source's own seeks, and the
invariant that a sector list never ends in a hole.
-/
namespace BbRe.Lemmas.FilePool
open BbRe.FilePool

/-! ## scans -/

theorem findFrom_some {p : Nat → Bool} : ∀ {fuel off j : Nat}, findFrom p off fuel = some j →
    off ≤ j ∧ j < off + fuel ∧ p j = true ∧ ∀ k, off ≤ k → k < j → p k = false := by
  intro fuel
  induction fuel with
  | zero => intro off j h; simp [findFrom] at h
  | succ fuel ih =>
    intro off j h
    unfold findFrom at h
    split at h
    · rename_i hp
      simp only [Option.some.injEq] at h; subst h
      exact ⟨Nat.le_refl _, by omega, hp, fun k h1 h2 => by omega⟩
    · rename_i hp
      obtain ⟨h1, h2, h3, h4⟩ := ih h
      refine ⟨by omega, by omega, h3, fun k hk1 hk2 => ?_⟩
      by_cases hk : k = off
      · subst hk; simpa using hp
      · exact h4 k (by omega) hk2

theorem findFrom_none {p : Nat → Bool} : ∀ {fuel off : Nat}, findFrom p off fuel = none →
    ∀ k, off ≤ k → k < off + fuel → p k = false := by
  intro fuel
  induction fuel with
  | zero => intro off _ k h1 h2; omega
  | succ fuel ih =>
    intro off h k h1 h2
    unfold findFrom at h
    split at h
    · simp at h
    · rename_i hp
      by_cases hk : k = off
      · subst hk; simpa using hp
      · exact ih h k (by omega) (by omega)

theorem isData_lt_limit {h : Hole} {i : Nat} (hd : h.isData i = true) : i < h.limit := by
  unfold Hole.isData at hd
  simp only [Bool.and_eq_true, decide_eq_true_eq] at hd
  exact hd.1

/-- the hole source's `GetNextRegionOffset(off, Data)`. -/
theorem nextData_spec (h : Hole) (off : Nat) :
    (∀ j, h.nextData off = some j → off ≤ j ∧ h.isData j = true ∧ ∀ k, off ≤ k → k < j → h.isData k = false) ∧
      (h.nextData off = none → ∀ k, off ≤ k → h.isData k = false) := by
  unfold Hole.nextData
  refine ⟨fun j hj => ?_, fun hn k hk => ?_⟩
  · obtain ⟨h1, _, h3, h4⟩ := findFrom_some hj
    exact ⟨h1, h3, h4⟩
  · by_cases hl : k < h.limit
    · exact findFrom_none hn k hk (by omega)
    · cases hd : h.isData k with
      | false => rfl
      | true => exact absurd (isData_lt_limit hd) hl

/-- the hole source's `GetNextRegionOffset(off, Hole)`; `none` (`io.EOF`) only at or beyond its end. -/
theorem nextHole_spec (h : Hole) (off : Nat) :
    (∀ j, h.nextHole off = some j → off ≤ j ∧ j ≤ max off h.limit ∧ h.isData j = false ∧
        ∀ k, off ≤ k → k < j → h.isData k = true) ∧
      (h.nextHole off = none → h.limit ≤ off) := by
  unfold Hole.nextHole
  have hbeyond : ∀ k, h.limit ≤ k → h.isData k = false := by
    intro k hk
    cases hd : h.isData k with
    | false => rfl
    | true => exact absurd (isData_lt_limit hd) (by omega)
  split
  · rename_i hge
    refine ⟨fun j hj => ?_, fun _ => hge⟩
    split at hj
    · simp at hj
    · simp only [Option.some.injEq] at hj; subst hj
      exact ⟨Nat.le_refl _, by omega, hbeyond _ hge, fun k h1 h2 => by omega⟩
  · rename_i hlt
    refine ⟨fun j hj => ?_, fun hn => ?_⟩
    · split at hj
      · rename_i j' hf
        simp only [Option.some.injEq] at hj; subst hj
        obtain ⟨h1, h2, h3, h4⟩ := findFrom_some hf
        refine ⟨h1, by omega, by simpa using h3, fun k hk1 hk2 => ?_⟩
        have := h4 k hk1 hk2
        simpa using this
      · rename_i hf
        simp only [Option.some.injEq] at hj; subst hj
        refine ⟨by omega, by omega, hbeyond _ (Nat.le_refl _), fun k hk1 hk2 => ?_⟩
        have := findFrom_none hf k hk1 (by omega)
        simpa using this
    · split at hn <;> simp at hn

theorem nextNonZero_some : ∀ (l : List Nat) (i k : Nat), nextNonZero l i = some k →
    i ≤ k ∧ l.getD (k - i) 0 ≠ 0 ∧ ∀ q, q < k - i → l.getD q 0 = 0 := by
  intro l
  induction l with
  | nil => intro i k h; simp [nextNonZero] at h
  | cons x xs ih =>
    intro i k h
    unfold nextNonZero at h
    split at h
    · rename_i hx
      simp only [Option.some.injEq] at h; subst h
      exact ⟨Nat.le_refl _, by simpa using hx, fun q hq => by omega⟩
    · rename_i hx
      obtain ⟨h1, h2, h3⟩ := ih (i + 1) k h
      have hx0 : x = 0 := by simpa using hx
      refine ⟨by omega, ?_, fun q hq => ?_⟩
      · rw [show k - i = (k - (i + 1)) + 1 by omega, List.getD_cons_succ]; exact h2
      · cases q with
        | zero => simpa using hx0
        | succ q => rw [List.getD_cons_succ]; exact h3 q (by omega)

theorem nextNonZero_none : ∀ (l : List Nat) (i : Nat), nextNonZero l i = none → ∀ q, l.getD q 0 = 0 := by
  intro l
  induction l with
  | nil => intro i _ q; rfl
  | cons x xs ih =>
    intro i h q
    unfold nextNonZero at h
    split at h
    · simp at h
    · rename_i hx
      have hx0 : x = 0 := by simpa using hx
      cases q with
      | zero => simpa using hx0
      | succ q => rw [List.getD_cons_succ]; exact ih (i + 1) h q

theorem nextZero_spec : ∀ (l : List Nat) (i : Nat),
    i ≤ nextZero l i ∧ nextZero l i - i ≤ l.length ∧ l.getD (nextZero l i - i) 0 = 0 ∧
      ∀ q, q < nextZero l i - i → l.getD q 0 ≠ 0 := by
  intro l
  induction l with
  | nil => intro i; simp [nextZero]
  | cons x xs ih =>
    intro i
    unfold nextZero
    split
    · rename_i hx
      refine ⟨Nat.le_refl _, by omega, ?_, fun q hq => by omega⟩
      rw [Nat.sub_self]; simpa using hx
    · rename_i hx
      obtain ⟨h1, h2, h3, h4⟩ := ih (i + 1)
      refine ⟨by omega, by simp only [List.length_cons]; omega, ?_, fun q hq => ?_⟩
      · rw [show nextZero xs (i + 1) - i = (nextZero xs (i + 1) - (i + 1)) + 1 by omega, List.getD_cons_succ]
        exact h3
      · cases q with
        | zero => simpa using hx
        | succ q => rw [List.getD_cons_succ]; exact h4 q (by omega)

/-! ## a sector list never ends in a hole -/

/-- the last entry of a non-empty sector list is not a hole. -/
def NoTrail (l : List Nat) : Prop := ∀ q, q + 1 = l.length → l.getD q 0 ≠ 0

theorem noTrail_nil : NoTrail [] := by intro q h; simp at h

theorem trimZeros_noTrail (l : List Nat) : NoTrail (trimZeros l) := by
  induction l with
  | nil => exact noTrail_nil
  | cons x xs ih =>
    unfold trimZeros
    split
    · split
      · exact noTrail_nil
      · rename_i hx
        intro q hq
        simp only [List.length_cons, List.length_nil] at hq
        have : q = 0 := by omega
        subst this; simpa using hx
    · rename_i y ys heq
      intro q hq
      simp only [List.length_cons] at hq
      cases q with
      | zero => omega
      | succ q =>
        rw [List.getD_cons_succ]
        rw [heq] at ih
        exact ih q (by simp only [List.length_cons]; omega)

theorem truncateSectors_noTrail (f : File) (e : Env) (k : Nat) (h : NoTrail f.sectors) :
    NoTrail (truncateSectors f e k).1.sectors := by
  unfold truncateSectors
  split
  · exact trimZeros_noTrail _
  · exact h

theorem insert_noTrail {secs secs' : List Nat} {idx first count : Nat}
    (hins : insertSectors secs idx first count = some secs') (hf : 1 ≤ first)
    (h : NoTrail secs ∨ (1 ≤ count ∧ idx + count = secs.length)) : NoTrail secs' := by
  intro q hq
  have hlen := (insertSectors_spec hins hf).1
  rw [insertSectors_getD hins]
  split
  · omega
  · rename_i hnot
    rcases h with h | ⟨h1, h2⟩
    · exact h q (by omega)
    · omega

theorem writeToSectors_noTrail {c : Cfg} {f : File} {e : Env} (p : List Byte) (idx endIdx ow : Nat)
    (how : ow < c.ss) (h : NoTrail f.sectors) : NoTrail (writeToSectors c f e p idx endIdx ow).1.sectors := by
  unfold writeToSectors
  split
  · rename_i hidx
    split
    · exact h
    · rename_i e1 n first got heq
      have hw := wns_ok heq
      obtain ⟨secs', hs'⟩ := insert_grown_some f.sectors idx first got hidx
      dsimp only
      rw [hs']
      dsimp only
      exact insert_noTrail hs' hw.2.2.2.2.1 (Or.inr ⟨hw.2.2.1, by simp; omega⟩)
  · rename_i hidx
    have hidx' : idx < f.sectors.length := by omega
    obtain ⟨hc1, hc2, hc3, hc4, hc5⟩ := contig_spec f.sectors idx endIdx hidx'
    dsimp only
    split
    · rename_i hz
      split
      · exact h
      · rename_i e1 n first got heq
        have hw := wns_ok heq
        have hgot : got ≤ (contig f.sectors idx endIdx).2 := by
          refine Nat.le_trans hw.2.2.2.1 (want_le_cnt ow c.ss _ _ how hc2 ?_)
          simp only [List.length_take]; omega
        obtain ⟨secs', hs'⟩ := insert_hole_some f.sectors idx first got _ hc3
          (fun j hj => by rw [hc5 j hj, if_pos hz]) hgot
        rw [hs']
        dsimp only
        exact insert_noTrail hs' hw.2.2.2.2.1 (Or.inl h)
    · split <;> exact h

theorem writeLoop_noTrail {c : Cfg} : ∀ (fuel : Nat) (f : File) (e : Env) (p : List Byte) (idx endIdx ow : Nat),
    ow < c.ss → NoTrail f.sectors → NoTrail (writeLoop c fuel f e p idx endIdx ow).1.sectors := by
  intro fuel
  induction fuel with
  | zero => intro f e p idx endIdx ow _ h; exact h
  | succ fuel ih =>
    intro f e p idx endIdx ow how h
    have h1 := writeToSectors_noTrail (c := c) (f := f) (e := e) p idx endIdx ow how h
    unfold writeLoop
    dsimp only
    split
    · exact h1
    · split
      · exact h1
      · exact ih _ _ _ _ _ 0 (by omega) h1

theorem writeAt_noTrail {c : Cfg} {f : File} {e : Env} (p : List Byte) (off : Int) (hss : 0 < c.ss)
    (h : NoTrail f.sectors) : NoTrail (writeAt c f e p off).1.sectors := by
  unfold writeAt
  split
  · exact h
  · split
    · exact h
    · dsimp only
      have := writeLoop_noTrail (c := c) (p.length + 1) f e p (off.toNat / c.ss)
        (min ((off.toNat + p.length + c.ss - 1) / c.ss) f.sectors.length) (off.toNat % c.ss) (Nat.mod_lt _ hss) h
      split <;> exact this

theorem truncate_noTrail {c : Cfg} {f : File} {e : Env} (size : Int) (h : NoTrail f.sectors) :
    NoTrail (truncate c f e size).1.sectors := by
  by_cases hneg : size < 0
  · rw [truncate_neg _ _ _ _ hneg]; exact h
  · obtain ⟨sz, rfl⟩ : ∃ sz : Nat, size = (sz : Int) := ⟨size.toNat, by omega⟩
    have ht := truncateSectors_noTrail f (truncZr c f e sz).1 (truncK c sz) h
    cases hz : (truncZr c f e sz).2 with
    | some n => rw [truncate_some hz]; exact h
    | none =>
      by_cases hlt : sz < f.size
      · by_cases hht : (truncFe c f e sz).2.faults.ht = true
        · rw [truncate_shrink_fault hz hlt hht]; exact ht
        · rw [truncate_shrink_ok hz hlt hht]; exact ht
      · rw [truncate_grow hz hlt]; exact ht

end BbRe.Lemmas.FilePool
