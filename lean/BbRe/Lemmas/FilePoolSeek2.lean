import BbRe.Lemmas.FilePoolSeek
/-!
`GetNextRegionOffset` agrees with the data/hole map of the file at sector
granularity: a byte offset is *data* when its sector is allocated or the hole
source has data there.
-/
namespace BbRe.Lemmas.FilePool
open BbRe.FilePool

/-- data/hole map at sector granularity. -/
def dataAt (c : Cfg) (f : File) (i : Nat) : Prop :=
  f.sectors.getD (i / c.ss) 0 ≠ 0 ∨ f.hole.isData i = true

theorem holeSeek_nofault {e : Env} (h : e.faults.hs = none) : e.holeSeek = (e, true) := by
  unfold Env.holeSeek; rw [h]

theorem mul_div_self' (k ss : Nat) (hss : 0 < ss) : k * ss / ss = k := Nat.mul_div_cancel k hss

theorem div_ge_of_ge_mul {i k ss : Nat} (hss : 0 < ss) (h : k * ss ≤ i) : k ≤ i / ss :=
  (Nat.le_div_iff_mul_le hss).mpr h

/-- `GetNextRegionOffset(off, Data)` (no seek fault): the least data offset `≥ off`, or `io.EOF`
when there is none; the sector scan never runs off the list. -/
theorem seekData_spec {c : Cfg} {f : File} {e : Env} (off : Nat) (hss : 0 < c.ss) (hs : e.faults.hs = none)
    (hnt : NoTrail f.sectors) :
    (seekData c f e off).1 = e ∧
      ((∃ j, (seekData c f e off).2 = .ok j ∧ off ≤ j ∧ dataAt c f j ∧ ∀ k, off ≤ k → k < j → ¬ dataAt c f k) ∨
        ((seekData c f e off).2 = .error .eof ∧ ∀ k, off ≤ k → ¬ dataAt c f k)) := by
  obtain ⟨hd1, hd2⟩ := nextData_spec f.hole off
  unfold seekData
  dsimp only
  rw [holeSeek_nofault hs]
  dsimp only
  have hdm := div_mul_mod off c.ss
  have hmod := Nat.mod_lt off hss
  have hmono : ∀ k, off ≤ k → off / c.ss ≤ k / c.ss := fun k hk => Nat.div_le_div_right hk
  generalize hq0 : off / c.ss = q0 at *
  split
  · -- beyond the sector list: only the hole source can have data
    rename_i hidx
    have hzero : ∀ k, off ≤ k → f.sectors.getD (k / c.ss) 0 = 0 := by
      intro k hk
      have := hmono k hk
      simp [List.getD_eq_getElem?_getD, List.getElem?_eq_none (show f.sectors.length ≤ k / c.ss by omega)]
    refine ⟨rfl, ?_⟩
    cases hn : f.hole.nextData off with
    | some j =>
      left
      obtain ⟨h1, h2, h3⟩ := hd1 j hn
      refine ⟨j, rfl, h1, Or.inr h2, fun k hk1 hk2 hda => ?_⟩
      rcases hda with hda | hda
      · exact hda (hzero k hk1)
      · rw [h3 k hk1 hk2] at hda; cases hda
    | none =>
      right
      refine ⟨rfl, fun k hk hda => ?_⟩
      rcases hda with hda | hda
      · exact hda (hzero k hk)
      · rw [hd2 hn k hk] at hda; cases hda
  · rename_i hidx
    split
    · rename_i hne
      exact ⟨rfl, Or.inl ⟨off, rfl, Nat.le_refl _, Or.inl (by rw [hq0]; exact hne), fun k h1 h2 => by omega⟩⟩
    · rename_i hz
      have hz0 : f.sectors.getD q0 0 = 0 := by simpa using hz
      cases hnn : nextNonZero (f.sectors.drop (q0 + 1)) (q0 + 1) with
      | none =>
        exfalso
        have hall := nextNonZero_none _ _ hnn
        have hlast := hnt (f.sectors.length - 1) (by omega)
        by_cases hq : f.sectors.length - 1 = q0
        · rw [hq] at hlast; exact hlast hz0
        · have := hall (f.sectors.length - 1 - (q0 + 1))
          rw [getD_drop, show q0 + 1 + (f.sectors.length - 1 - (q0 + 1)) = f.sectors.length - 1 by omega] at this
          exact hlast this
      | some k =>
        dsimp only
        obtain ⟨hk1, hk2, hk3⟩ := nextNonZero_some _ _ _ hnn
        rw [getD_drop, show q0 + 1 + (k - (q0 + 1)) = k by omega] at hk2
        have hzeros : ∀ q, q0 ≤ q → q < k → f.sectors.getD q 0 = 0 := by
          intro q hq1 hq2
          by_cases hq : q = q0
          · rw [hq]; exact hz0
          · have := hk3 (q - (q0 + 1)) (by omega)
            rw [getD_drop, show q0 + 1 + (q - (q0 + 1)) = q by omega] at this
            exact this
        have hoff : off < k * c.ss := by
          have := Nat.mul_le_mul_right c.ss (show q0 + 1 ≤ k by omega)
          rw [Nat.add_mul, Nat.one_mul] at this
          omega
        have hsec : ∀ i, off ≤ i → i < k * c.ss → f.sectors.getD (i / c.ss) 0 = 0 := by
          intro i hi1 hi2
          exact hzeros _ (hmono i hi1) (div_lt_of_lt_mul' hi2)
        have hkdata : dataAt c f (k * c.ss) := Or.inl (by rw [mul_div_self' k c.ss hss]; exact hk2)
        refine ⟨rfl, Or.inl ?_⟩
        cases hn : f.hole.nextData off with
        | some j =>
          obtain ⟨h1, h2, h3⟩ := hd1 j hn
          refine ⟨min (k * c.ss) j, rfl, by omega, ?_, fun i hi1 hi2 hda => ?_⟩
          · by_cases hjk : j < k * c.ss
            · rw [Nat.min_eq_right (by omega)]; exact Or.inr h2
            · rw [Nat.min_eq_left (by omega)]; exact hkdata
          · rcases hda with hda | hda
            · exact hda (hsec i hi1 (by omega))
            · rw [h3 i hi1 (by omega)] at hda; cases hda
        | none =>
          refine ⟨k * c.ss, rfl, by omega, hkdata, fun i hi1 hi2 hda => ?_⟩
          rcases hda with hda | hda
          · exact hda (hsec i hi1 hi2)
          · rw [hd2 hn i hi1] at hda; cases hda

/-- first half of an iteration of the hole loop: everything skipped is data, and the sector reached is a hole. -/
theorem seekHoleAdvance_spec (c : Cfg) (f : File) (off : Nat) (hss : 0 < c.ss) :
    off ≤ (seekHoleAdvance c f off).2 ∧ (seekHoleAdvance c f off).2 / c.ss = (seekHoleAdvance c f off).1 ∧
      f.sectors.getD (seekHoleAdvance c f off).1 0 = 0 ∧
      ∀ k, off ≤ k → k < (seekHoleAdvance c f off).2 → dataAt c f k := by
  unfold seekHoleAdvance
  split
  · rename_i hc
    dsimp only
    obtain ⟨h1, h2, h3, h4⟩ := nextZero_spec (f.sectors.drop (off / c.ss + 1)) (off / c.ss + 1)
    generalize nextZero (f.sectors.drop (off / c.ss + 1)) (off / c.ss + 1) = z at *
    rw [getD_drop, show off / c.ss + 1 + (z - (off / c.ss + 1)) = z by omega] at h3
    have hoff : off < z * c.ss := by
      have := Nat.mul_le_mul_right c.ss h1
      rw [Nat.add_mul, Nat.one_mul] at this
      have := div_mul_mod off c.ss
      have := Nat.mod_lt off hss
      omega
    refine ⟨by omega, mul_div_self' z c.ss hss, h3, fun k hk1 hk2 => Or.inl ?_⟩
    have hq1 : off / c.ss ≤ k / c.ss := Nat.div_le_div_right hk1
    have hq2 : k / c.ss < z := div_lt_of_lt_mul' hk2
    by_cases hq : k / c.ss = off / c.ss
    · rw [hq]; exact hc.2
    · have := h4 (k / c.ss - (off / c.ss + 1)) (by omega)
      rw [getD_drop, show off / c.ss + 1 + (k / c.ss - (off / c.ss + 1)) = k / c.ss by omega] at this
      exact this
  · rename_i hc
    dsimp only
    refine ⟨Nat.le_refl _, rfl, ?_, fun k h1 h2 => by omega⟩
    by_cases hl : off / c.ss < f.sectors.length
    · by_cases hz : f.sectors.getD (off / c.ss) 0 = 0
      · exact hz
      · exact absurd ⟨hl, hz⟩ hc
    · simp [List.getD_eq_getElem?_getD, List.getElem?_eq_none (show f.sectors.length ≤ off / c.ss by omega)]

/-- `GetNextRegionOffset(off, Hole)` (no seek fault): the least hole offset `≥ off`, or the size
(the implicit hole at the end of the file) when everything up to the size is data. -/
theorem seekHoleLoop_spec {c : Cfg} {f : File} {e : Env} (hss : 0 < c.ss) (hs : e.faults.hs = none)
    (hlim : f.hole.limit ≤ f.size) : ∀ (fuel off : Nat), off ≤ f.size → f.size + 1 - off ≤ fuel →
    (seekHoleLoop c f fuel e off).1 = e ∧
      ∃ j, (seekHoleLoop c f fuel e off).2 = .ok j ∧ off ≤ j ∧ j ≤ f.size ∧
        (∀ k, off ≤ k → k < j → dataAt c f k) ∧ (j < f.size → ¬ dataAt c f j) := by
  intro fuel
  induction fuel with
  | zero => intro off h1 h2; omega
  | succ fuel ih =>
    intro off hoff hfuel
    obtain ⟨a1, a2, a3, a4⟩ := seekHoleAdvance_spec c f off hss
    obtain ⟨n1, n2⟩ := nextHole_spec f.hole (seekHoleAdvance c f off).2
    unfold seekHoleLoop
    dsimp only
    generalize seekHoleAdvance c f off = a at *
    split
    · rename_i hge
      exact ⟨rfl, f.size, rfl, hoff, Nat.le_refl _, fun k hk1 hk2 => a4 k hk1 (by omega), fun h => by omega⟩
    · rename_i hlt
      rw [holeSeek_nofault hs]
      dsimp only
      have hnotdata : ∀ j, a.2 ≤ j → j / c.ss = a.1 → f.hole.isData j = false → ¬ dataAt c f j := by
        intro j _ hq hd hda
        rcases hda with hda | hda
        · rw [hq] at hda; exact hda a3
        · rw [hd] at hda; cases hda
      cases hn : f.hole.nextHole a.2 with
      | none =>
        dsimp only
        have hl := n2 hn
        refine ⟨rfl, a.2, rfl, a1, by omega, a4, fun _ => hnotdata a.2 (Nat.le_refl _) a2 ?_⟩
        cases hd : f.hole.isData a.2 with
        | false => rfl
        | true => exact absurd (isData_lt_limit hd) (by omega)
      | some j =>
        dsimp only
        obtain ⟨m1, m2, m3, m4⟩ := n1 j hn
        have hjs : j ≤ f.size := by omega
        have hdata : ∀ k, off ≤ k → k < j → dataAt c f k := by
          intro k hk1 hk2
          by_cases hk : k < a.2
          · exact a4 k hk1 hk
          · exact Or.inr (m4 k (by omega) hk2)
        split
        · rename_i hin
          have hq : j / c.ss = a.1 := by
            have h1 : a.1 ≤ j / c.ss := by rw [← a2]; exact Nat.div_le_div_right m1
            have h2 : j / c.ss < a.1 + 1 := div_lt_of_lt_mul' hin
            omega
          exact ⟨rfl, j, rfl, by omega, hjs, hdata, fun _ => hnotdata j m1 hq m3⟩
        · rename_i hout
          have hgt : off < j := by
            have hdm := div_mul_mod a.2 c.ss
            have hmod := Nat.mod_lt a.2 hss
            rw [a2] at hdm
            rw [Nat.add_mul, Nat.one_mul] at hout
            omega
          obtain ⟨i1, j', i2, i3, i4, i5, i6⟩ := ih j hjs (by omega)
          refine ⟨i1, j', i2, by omega, i4, fun k hk1 hk2 => ?_, i6⟩
          by_cases hk : k < j
          · exact hdata k hk1 hk
          · exact i5 k (by omega) hk2

end BbRe.Lemmas.FilePool
