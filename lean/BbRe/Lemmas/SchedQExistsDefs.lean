import BbRe.Lemmas.SchedInvStep
/-!
`QExists`: the task → size-class-queue / worker → size-class-queue existence invariant of the
scheduler model (`Model/Sched.lean`), proved separately from `Inv` (`SchedInvDefs.lean`).

This file: the invariant, the frame relation `QFr`, a weakest-precondition calculus `wpR` whose
error clause says "the error is not one of the routing errors", and preservation lemmas for the
primitive state updates.

`ne : Prop` is a parameter ("no platform queue was ever registered with an empty list of size
classes"): for `ne = True` the invariant also says that every platform queue has a size-class
queue; for `ne = False` that clause is void.  `RegisterPredeclaredPlatformQueue` rejects an empty
list in the Go code; the model's `register` segment accepts it, which is the only way to break
the clause.
-/
namespace BbRe.Lemmas.SchedQ
open BbRe.Sched BbRe.Lemmas.SchedInv

/-! ## registry membership -/

def scqIds (s : State) : List ScqId := s.scqs.map (·.id)
def pqIds (s : State) : List Nat := s.pqs.map (·.id)

/-- size-class queue `q` is registered -/
def HasScq (s : State) (q : ScqId) : Prop := q ∈ scqIds s
/-- platform queue `p` is registered -/
def HasPq (s : State) (p : Nat) : Prop := p ∈ pqIds s

theorem hasScq_iff (s : State) (q : ScqId) : HasScq s q ↔ ∃ sq, s.scq? q = some sq := by
  unfold HasScq scqIds State.scq?
  constructor
  · intro h
    obtain ⟨sq, hm, he⟩ := List.mem_map.mp h
    cases hf : s.scqs.find? (fun x => x.id = q) with
    | some x => exact ⟨x, rfl⟩
    | none =>
      have := List.find?_eq_none.mp hf sq hm
      simp [he] at this
  · rintro ⟨sq, h⟩
    have h1 := List.mem_of_find?_eq_some h
    have h2 := List.find?_some h
    exact List.mem_map.mpr ⟨sq, h1, by simpa using h2⟩

theorem hasPq_iff (s : State) (p : Nat) : HasPq s p ↔ ∃ x, s.pq? p = some x := by
  unfold HasPq pqIds State.pq?
  constructor
  · intro h
    obtain ⟨sq, hm, he⟩ := List.mem_map.mp h
    cases hf : s.pqs.find? (fun x => x.id = p) with
    | some x => exact ⟨x, rfl⟩
    | none =>
      have := List.find?_eq_none.mp hf sq hm
      simp [he] at this
  · rintro ⟨sq, h⟩
    have h1 := List.mem_of_find?_eq_some h
    have h2 := List.find?_some h
    exact List.mem_map.mpr ⟨sq, h1, by simpa using h2⟩

/-! ## the invariant -/

/-- A task without response names a registered size-class queue, and if it is assigned, its
worker belongs to that queue. -/
def TaskOK (s : State) (t : Task) : Prop :=
  t.response = none → HasScq s t.scq ∧ ∀ q w, t.worker = some (q, w) → q = t.scq

structure QExists (ne : Prop) (s : State) : Prop where
  /-- every task without response (queued or assigned) names an existing size-class queue -/
  tq : ∀ p ∈ s.tasks, TaskOK s p.2
  /-- every registered worker's size-class queue exists -/
  wq : ∀ wk ∈ s.workers, HasScq s wk.scq
  /-- the platform queue of every size-class queue exists -/
  qp : ∀ q ∈ scqIds s, HasPq s q.pq
  /-- a pending removal of a size-class queue: the queue exists and has no workers -/
  cq : ∀ e ∈ s.cleanup, ∀ q, e.kind = .scq q → HasScq s q ∧ ∀ wk ∈ s.workers, wk.scq ≠ q
  /-- at most one pending removal per size-class queue (`scq.cleanupKey`) -/
  cu : ∀ e1 ∈ s.cleanup, ∀ e2 ∈ s.cleanup, ∀ q, e1.kind = .scq q → e2.kind = .scq q → e1 = e2
  /-- every platform queue has a size-class queue (void unless `ne`) -/
  pn : ne → ∀ p ∈ pqIds s, ∃ q ∈ scqIds s, q.pq = p

/-- what every helper guarantees about pending queue removals and the worker table -/
structure QFr (s s' : State) : Prop where
  cl : ∀ e' ∈ s'.cleanup, ∀ q, e'.kind = .scq q → e' ∈ s.cleanup
  ws : ∀ wk' ∈ s'.workers, ∃ wk ∈ s.workers, wk.scq = wk'.scq
  sq : scqIds s' = scqIds s
  pq : s'.pqs = s.pqs

theorem QFr.refl (s : State) : QFr s s := ⟨fun _ h _ _ => h, fun wk h => ⟨wk, h, rfl⟩, rfl, rfl⟩

theorem QFr.hasScq {s s' : State} (h : QFr s s') (q : ScqId) : HasScq s' q ↔ HasScq s q := by
  unfold HasScq; rw [h.sq]

theorem QFr.trans {a b c : State} (h1 : QFr a b) (h2 : QFr b c) : QFr a c := by
  refine ⟨fun e he q hq => h1.cl e (h2.cl e he q hq) q hq, ?_, h2.sq.trans h1.sq, h2.pq.trans h1.pq⟩
  intro wk hwk
  obtain ⟨w1, a1, b1⟩ := h2.ws wk hwk
  obtain ⟨w0, a0, b0⟩ := h1.ws w1 a1
  exact ⟨w0, a0, b0.trans b1⟩

/-- post-condition of the helpers -/
def QP (ne : Prop) (s s' : State) : Prop := QExists ne s' ∧ QFr s s'

theorem QP.trans {ne} {a b c : State} (h1 : QP ne a b) (h2 : QP ne b c) : QP ne a c :=
  ⟨h2.1, h1.2.trans h2.2⟩

/-- the workhorse: registry untouched, frame, every task fine -/
theorem QExists.upd {ne} {s s' : State} (h : QExists ne s) (hscq : scqIds s' = scqIds s)
    (hpq : s'.pqs = s.pqs) (hfr0 : (∀ e' ∈ s'.cleanup, ∀ q, e'.kind = .scq q → e' ∈ s.cleanup) ∧
      ∀ wk' ∈ s'.workers, ∃ wk ∈ s.workers, wk.scq = wk'.scq)
    (hts : ∀ p ∈ s'.tasks, TaskOK s p.2) : QP ne s s' := by
  have hfr : QFr s s' := ⟨hfr0.1, hfr0.2, hscq, hpq⟩
  have hS : ∀ q, HasScq s' q ↔ HasScq s q := fun q => by unfold HasScq; rw [hscq]
  have hP : ∀ p, HasPq s' p ↔ HasPq s p := fun p => by unfold HasPq pqIds; rw [hpq]
  refine ⟨⟨?_, ?_, ?_, ?_, ?_, ?_⟩, hfr⟩
  · intro p hp hr
    obtain ⟨a, b⟩ := hts p hp hr
    exact ⟨(hS _).mpr a, b⟩
  · intro wk hwk
    obtain ⟨w0, a0, b0⟩ := hfr.ws wk hwk
    rw [hS, ← b0]; exact h.wq w0 a0
  · intro q hq; rw [hscq] at hq; rw [hP]; exact h.qp q hq
  · intro e he q hq
    obtain ⟨a, b⟩ := h.cq e (hfr.cl e he q hq) q hq
    refine ⟨(hS q).mpr a, ?_⟩
    intro wk hwk
    obtain ⟨w0, a0, b0⟩ := hfr.ws wk hwk
    rw [← b0]; exact b w0 a0
  · intro e1 h1 e2 h2 q q1 q2
    exact h.cu e1 (hfr.cl e1 h1 q q1) e2 (hfr.cl e2 h2 q q2) q q1 q2
  · intro hne p hp
    unfold pqIds at hp; rw [hpq] at hp
    obtain ⟨q, a, b⟩ := h.pn hne p hp
    exact ⟨q, by rw [hscq]; exact a, b⟩

/-! ## list helpers -/

theorem mem_aset {α} {k : Nat} {v : α} {l : List (Nat × α)} {p : Nat × α} (h : p ∈ aset k v l) :
    p = (k, v) ∨ p ∈ l := by
  induction l with
  | nil => simp [aset] at h; exact Or.inl h
  | cons a r ih =>
    unfold aset at h
    split at h
    · rcases List.mem_cons.mp h with h | h
      · exact Or.inl h
      · exact Or.inr (List.mem_cons_of_mem _ h)
    · rcases List.mem_cons.mp h with h | h
      · exact Or.inr (by rw [h]; exact List.mem_cons_self)
      · rcases ih h with h | h
        · exact Or.inl h
        · exact Or.inr (List.mem_cons_of_mem _ h)

theorem mem_aerase {α} {k : Nat} {l : List (Nat × α)} {p : Nat × α} (h : p ∈ aerase k l) : p ∈ l := by
  induction l with
  | nil => simp [aerase] at h
  | cons a r ih =>
    unfold aerase at h
    split at h
    · exact List.mem_cons_of_mem _ h
    · rcases List.mem_cons.mp h with h | h
      · rw [h]; exact List.mem_cons_self
      · exact List.mem_cons_of_mem _ (ih h)

theorem mem_wset {ws : List Worker} {w x : Worker} (h : x ∈ wset ws w) : x = w ∨ x ∈ ws := by
  unfold wset at h
  obtain ⟨y, hy, he⟩ := List.mem_map.mp h
  split at he
  · exact Or.inl he.symm
  · exact Or.inr (he ▸ hy)

/-! ## primitive updates -/

section prim
variable {ne : Prop}

theorem QExists.setTask {s : State} (h : QExists ne s) (t : Task) (ht : TaskOK s t) : QP ne s (s.setTask t) := by
  refine h.upd rfl rfl ⟨fun _ h _ _ => h, fun wk h => ⟨wk, h, rfl⟩⟩ ?_
  intro p hp
  rcases mem_aset hp with e | e
  · rw [e]; exact ht
  · exact h.tq p e

theorem QExists.setWorker {s : State} (h : QExists ne s) (w : Worker) (hw : ∃ wk ∈ s.workers, wk.scq = w.scq) :
    QP ne s (s.setWorker w) := by
  refine h.upd rfl rfl ⟨fun _ h _ _ => h, ?_⟩ h.tq
  intro x hx
  rcases mem_wset hx with e | e
  · rw [e]; exact hw
  · exact ⟨x, e, rfl⟩

/-- updates that leave tasks, workers and the registry alone and add no queue-removal entry -/
theorem QExists.same {s s' : State} (h : QExists ne s) (h1 : s'.tasks = s.tasks) (h2 : s'.workers = s.workers)
    (h3 : s'.scqs = s.scqs) (h4 : s'.pqs = s.pqs)
    (h5 : ∀ e' ∈ s'.cleanup, ∀ q, e'.kind = .scq q → e' ∈ s.cleanup) : QP ne s s' := by
  refine h.upd (by unfold scqIds; rw [h3]) h4 ⟨h5, ?_⟩ (by rw [h1]; exact h.tq)
  intro wk hwk; rw [h2] at hwk; exact ⟨wk, hwk, rfl⟩

theorem QExists.emit {s : State} (h : QExists ne s) (e : Event) : QP ne s (emit s e) :=
  h.same rfl rfl rfl rfl (fun _ h _ _ => h)

theorem QExists.setOp {s : State} (h : QExists ne s) (o : Op) : QP ne s (s.setOp o) :=
  h.same rfl rfl rfl rfl (fun _ h _ _ => h)

theorem QExists.removeCleanup {s : State} (h : QExists ne s) (k : CleanupKind) : QP ne s (s.removeCleanup k) :=
  h.same rfl rfl rfl rfl (fun _ h _ _ => (List.mem_filter.mp h).1)

theorem QExists.addCleanup {s : State} (h : QExists ne s) (d : Nat) (k : CleanupKind) (hk : ∀ q, k ≠ .scq q) :
    QP ne s (s.addCleanup d k) := by
  refine h.same rfl rfl rfl rfl ?_
  intro e he q hq
  rcases List.mem_cons.mp he with e1 | e1
  · subst e1; exact absurd hq (hk q)
  · exact e1

theorem QExists.maybeStartCleanup {s : State} (h : QExists ne s) (o : Nat) : QP ne s (maybeStartCleanup s o) := by
  unfold BbRe.Sched.maybeStartCleanup
  split
  · split
    · exact h.addCleanup _ _ (by intro q; simp)
    · exact ⟨h, QFr.refl s⟩
  · exact ⟨h, QFr.refl s⟩

theorem QExists.setScq {s : State} (h : QExists ne s) (q : Scq) : QP ne s (s.setScq q) := by
  refine h.upd ?_ rfl ⟨fun _ h _ _ => h, fun wk h => ⟨wk, h, rfl⟩⟩ h.tq
  unfold scqIds State.setScq
  simp only [List.map_map]
  apply List.map_congr_left
  intro x _
  simp only [Function.comp]
  split
  · rename_i he; exact he.symm
  · rfl

theorem QExists.wakeWorker {s : State} (h : QExists ne s) (w : Worker) (hw : w ∈ s.workers) :
    QP ne s (wakeWorker s w) :=
  h.setWorker _ ⟨w, hw, rfl⟩

end prim

/-! ## the routing errors and `wpR` -/

/-- errors of `step` that say "the size-class / platform queue of a task or worker is missing" -/
def routingErrors : List String :=
  [ "complete: no platform queue", "platform queue without size class queue",
    "getNextTask: no queue", "syncWake: no queue" ]

def sizelessError : String := "platform queue without size classes"

def BadErr (ne : Prop) (e : String) : Prop := e ∈ routingErrors ∨ (ne ∧ e = sizelessError)

def wpR {α} (ne : Prop) (x : M α) (Q : α → Prop) : Prop :=
  match x with
  | .ok a => Q a
  | .error e => ¬ BadErr ne e

section wpr
variable {ne : Prop}

@[simp] theorem wpR_ok {α} (a : α) (Q : α → Prop) : wpR ne (Except.ok a) Q ↔ Q a := Iff.rfl
@[simp] theorem wpR_pure {α} (a : α) (Q : α → Prop) : wpR ne (pure a : M α) Q ↔ Q a := Iff.rfl
@[simp] theorem wpR_error {α} (e : String) (Q : α → Prop) : wpR ne (Except.error e : M α) Q ↔ ¬ BadErr ne e := Iff.rfl
@[simp] theorem wpR_throw {α} (e : String) (Q : α → Prop) : wpR ne (throw e : M α) Q ↔ ¬ BadErr ne e := Iff.rfl

theorem wpR_bind {α β} {x : M α} {f : α → M β} {Q : β → Prop} (h : wpR ne x (fun a => wpR ne (f a) Q)) :
    wpR ne (x >>= f) Q := by
  cases x with
  | ok a => exact h
  | error e => exact h

theorem wpR_mono {α} {x : M α} {Q Q' : α → Prop} (h : wpR ne x Q) (hq : ∀ a, Q a → Q' a) : wpR ne x Q' := by
  cases x with
  | ok a => exact hq a h
  | error e => exact h

/-- combine with a `wp` specification of the `Inv` development -/
theorem wpR_and {α} {x : M α} {Q Q' : α → Prop} (h : wpR ne x Q) (h' : wp x Q') : wpR ne x (fun a => Q a ∧ Q' a) := by
  cases x with
  | ok a => exact ⟨h, h'⟩
  | error e => exact h

theorem wpR_of_ok {α} {x : M α} {Q : α → Prop} {a : α} (h : wpR ne x Q) (hx : x = .ok a) : Q a := by
  subst hx; exact h

theorem wpR_of_error {α} {x : M α} {Q : α → Prop} {e : String} (h : wpR ne x Q) (hx : x = .error e) :
    ¬ BadErr ne e := by
  subst hx; exact h

end wpr

/-- close a goal `¬ BadErr ne "literal"` for a literal that is not a routing error -/
macro "noterr" : tactic =>
  `(tactic| first
    | (simp [wpR_throw, wpR_error, throw_bind', error_bind', BadErr, routingErrors, sizelessError]; done)
    | (change wpR _ (Except.error _) _; simp [wpR_error, BadErr, routingErrors, sizelessError]; done))

end BbRe.Lemmas.SchedQ
