import BbRe.Lemmas.SchedTreeInvDefs
/-!
Basic facts about the flat node list of `Model/SchedTree.lean` (`node?`, `updNode`, `updPath`, the
multiset operations, `prefixes`) and structural consequences of `TreeOK`.
-/
namespace BbRe.Lemmas.SchedTree
open BbRe.Sched BbRe.SchedTree

/-! ### keys -/

def nkey (n : Node) : ScqId × List Nat := (n.scq, n.path)

theorem isAt_iff (n : Node) (q : ScqId) (p : List Nat) : n.isAt q p = true ↔ n.scq = q ∧ n.path = p := by
  simp [Node.isAt]

theorem onPath_iff (n : Node) (q : ScqId) (p : List Nat) : n.onPath q p = true ↔ n.scq = q ∧ n.path <+: p := by
  simp [Node.onPath, List.isPrefixOf_iff_prefix]

theorem node?_some {ns : List Node} {q : ScqId} {p : List Nat} {n : Node} (h : node? ns q p = some n) :
    n ∈ ns ∧ n.scq = q ∧ n.path = p := by
  unfold node? at h
  have h2 := List.find?_some h
  exact ⟨List.mem_of_find?_eq_some h, (isAt_iff n q p).mp h2⟩

theorem node?_isSome_iff {ns : List Node} {q : ScqId} {p : List Nat} :
    (node? ns q p).isSome = true ↔ ∃ n ∈ ns, n.scq = q ∧ n.path = p := by
  unfold node?
  rw [List.find?_isSome]
  constructor
  · rintro ⟨n, hn, h⟩; exact ⟨n, hn, (isAt_iff n q p).mp h⟩
  · rintro ⟨n, hn, h⟩; exact ⟨n, hn, (isAt_iff n q p).mpr h⟩

theorem node?_eq_none_iff {ns : List Node} {q : ScqId} {p : List Nat} :
    node? ns q p = none ↔ ∀ n ∈ ns, ¬ (n.scq = q ∧ n.path = p) := by
  unfold node?
  rw [List.find?_eq_none]
  constructor
  · intro h n hn hc; exact h n hn ((isAt_iff n q p).mpr hc)
  · intro h n hn hc; exact h n hn ((isAt_iff n q p).mp hc)

/-- with distinct keys, membership determines `node?` -/
theorem node?_of_mem {ns : List Node} (hnd : (ns.map nkey).Nodup) {n : Node} (hn : n ∈ ns) :
    node? ns n.scq n.path = some n := by
  induction ns with
  | nil => cases hn
  | cons a l ih =>
    simp only [List.map_cons, List.nodup_cons] at hnd
    unfold node?
    rw [List.find?_cons]
    by_cases ha : a.isAt n.scq n.path = true
    · rw [ha]
      rcases List.mem_cons.mp hn with e | hm
      · rw [e]
      · exfalso
        have := (isAt_iff a n.scq n.path).mp ha
        apply hnd.1
        rw [List.mem_map]
        exact ⟨n, hm, by simp [nkey, this.1, this.2]⟩
    · have ha' : a.isAt n.scq n.path = false := by simpa using ha
      rw [ha']
      rcases List.mem_cons.mp hn with e | hm
      · exfalso; apply ha; rw [e]; exact (isAt_iff a a.scq a.path).mpr ⟨rfl, rfl⟩
      · exact ih hnd.2 hm

/-! ### maps that keep the keys -/

/-- `f` keeps queue and path -/
def KeepsKey (f : Node → Node) : Prop := ∀ n, (f n).scq = n.scq ∧ (f n).path = n.path

theorem map_keys {ns : List Node} {g : Node → Node} (hg : KeepsKey g) : (ns.map g).map nkey = ns.map nkey := by
  rw [List.map_map]
  apply List.map_congr_left
  intro n _
  simp [nkey, (hg n).1, (hg n).2]

theorem node?_map {ns : List Node} {g : Node → Node} (hg : KeepsKey g) (q : ScqId) (p : List Nat) :
    node? (ns.map g) q p = (node? ns q p).map g := by
  induction ns with
  | nil => rfl
  | cons a l ih =>
    unfold node? at ih ⊢
    rw [List.map_cons, List.find?_cons, List.find?_cons]
    have : (g a).isAt q p = a.isAt q p := by simp [Node.isAt, (hg a).1, (hg a).2]
    rw [this]
    cases a.isAt q p with
    | true => rfl
    | false => exact ih

theorem keepsKey_ite {c : Node → Bool} {f : Node → Node} (hf : KeepsKey f) :
    KeepsKey (fun n => if c n then f n else n) := by
  intro n; by_cases h : c n = true <;> simp [h, hf n]

theorem updNode_eq_map (ns : List Node) (q : ScqId) (p : List Nat) (f : Node → Node) :
    updNode ns q p f = ns.map (fun n => if n.isAt q p then f n else n) := rfl

theorem updPath_eq_map (ns : List Node) (q : ScqId) (p : List Nat) (f : Node → Node) :
    updPath ns q p f = ns.map (fun n => if n.onPath q p then f n else n) := rfl

theorem mem_updPath {ns : List Node} {q : ScqId} {p : List Nat} {f : Node → Node} {m : Node} :
    m ∈ updPath ns q p f ↔ ∃ n ∈ ns, m = if n.onPath q p then f n else n := by
  rw [updPath_eq_map, List.mem_map]
  constructor
  · rintro ⟨n, hn, e⟩; exact ⟨n, hn, e.symm⟩
  · rintro ⟨n, hn, e⟩; exact ⟨n, hn, e.symm⟩

theorem mem_updNode {ns : List Node} {q : ScqId} {p : List Nat} {f : Node → Node} {m : Node} :
    m ∈ updNode ns q p f ↔ ∃ n ∈ ns, m = if n.isAt q p then f n else n := by
  rw [updNode_eq_map, List.mem_map]
  constructor
  · rintro ⟨n, hn, e⟩; exact ⟨n, hn, e.symm⟩
  · rintro ⟨n, hn, e⟩; exact ⟨n, hn, e.symm⟩

/-! ### the multiset operations -/

theorem mget_minc (k k' : WKey) (m : List (WKey × Nat)) :
    mget k' (minc k m) = mget k' m + (if k = k' then 1 else 0) := by
  induction m with
  | nil => by_cases h : k = k' <;> simp [minc, mget, h]
  | cons a l ih =>
    obtain ⟨ka, c⟩ := a
    simp only [minc]
    by_cases h1 : ka = k
    · subst h1
      by_cases h2 : ka = k' <;> simp [mget, h2]
    · simp only [h1, if_false, mget]
      by_cases h2 : ka = k'
      · subst h2
        have : ¬ k = ka := fun e => h1 e.symm
        simp [this]
      · simp [h2, ih]

theorem keys_minc (k : WKey) (m : List (WKey × Nat)) (h : (m.map (·.1)).Nodup) :
    ((minc k m).map (·.1)).Nodup ∧ ∀ k', k' ∈ (minc k m).map (·.1) ↔ k' = k ∨ k' ∈ m.map (·.1) := by
  induction m with
  | nil => simp [minc]
  | cons a l ih =>
    obtain ⟨ka, c⟩ := a
    simp only [List.map_cons, List.nodup_cons] at h
    obtain ⟨ih1, ih2⟩ := ih h.2
    simp only [minc]
    by_cases h1 : ka = k
    · subst h1; simp only [if_true, List.map_cons, List.nodup_cons]
      refine ⟨⟨h.1, h.2⟩, ?_⟩
      intro k'; simp only [List.mem_cons]; grind
    · simp only [h1, if_false, List.map_cons, List.nodup_cons]
      refine ⟨⟨?_, ih1⟩, ?_⟩
      · intro hm; rcases (ih2 ka).mp hm with e | e
        · exact h1 e
        · exact h.1 e
      · intro k'; simp only [List.mem_cons, ih2]; grind

theorem pos_minc (k : WKey) (m : List (WKey × Nat)) (h : ∀ e ∈ m, 0 < e.2) : ∀ e ∈ minc k m, 0 < e.2 := by
  induction m with
  | nil => intro e he; simp [minc] at he; subst he; simp
  | cons a l ih =>
    obtain ⟨ka, c⟩ := a
    simp only [minc]
    by_cases h1 : ka = k
    · simp only [h1, if_true]; intro e he
      rcases List.mem_cons.mp he with e1 | e1
      · subst e1; simp
      · exact h e (List.mem_cons_of_mem _ e1)
    · simp only [h1, if_false]; intro e he
      rcases List.mem_cons.mp he with e1 | e1
      · subst e1; exact h _ (List.mem_cons_self)
      · exact ih (fun e he => h e (List.mem_cons_of_mem _ he)) e e1

theorem mget_pos_iff (k : WKey) (m : List (WKey × Nat)) (h : ∀ e ∈ m, 0 < e.2) :
    0 < mget k m ↔ k ∈ m.map (·.1) := by
  induction m with
  | nil => simp [mget]
  | cons a l ih =>
    obtain ⟨ka, c⟩ := a
    have hc : 0 < c := h (ka, c) List.mem_cons_self
    have ih' := ih (fun e he => h e (List.mem_cons_of_mem _ he))
    simp only [mget, List.map_cons, List.mem_cons]
    by_cases h1 : ka = k
    · simp [h1, hc]
    · simp only [h1, if_false, ih']
      constructor
      · intro hh; exact Or.inr hh
      · rintro (e | e)
        · exact absurd e.symm h1
        · exact e

theorem mget_mdec (k k' : WKey) (m : List (WKey × Nat)) (hnd : (m.map (·.1)).Nodup) (hp : ∀ e ∈ m, 0 < e.2) :
    mget k' (mdec k m) = mget k' m - (if k = k' then 1 else 0) := by
  induction m with
  | nil => simp [mdec, mget]
  | cons a l ih =>
    obtain ⟨ka, c⟩ := a
    simp only [List.map_cons, List.nodup_cons] at hnd
    have ih' := ih hnd.2 (fun e he => hp e (List.mem_cons_of_mem _ he))
    have hc : 0 < c := hp (ka, c) List.mem_cons_self
    simp only [mdec]
    by_cases h1 : ka = k
    · subst h1
      simp only [if_true]
      by_cases hc1 : c ≤ 1
      · simp only [hc1, if_true]
        by_cases h2 : ka = k'
        · subst h2
          have : mget ka l = 0 := by
            cases hz : mget ka l with
            | zero => rfl
            | succ n =>
              exfalso
              have := (mget_pos_iff ka l (fun e he => hp e (List.mem_cons_of_mem _ he))).mp (by omega)
              exact hnd.1 this
          simp [mget, this]; omega
        · simp [mget, h2]
      · simp only [hc1, if_false]
        by_cases h2 : ka = k' <;> simp [mget, h2]
    · simp only [h1, if_false, mget]
      by_cases h2 : ka = k'
      · subst h2
        have : ¬ k = ka := fun e => h1 e.symm
        simp [this]
      · simp [h2, ih']

theorem keys_mdec (k : WKey) (m : List (WKey × Nat)) (h : (m.map (·.1)).Nodup) :
    ((mdec k m).map (·.1)).Nodup ∧ ∀ k', k' ∈ (mdec k m).map (·.1) → k' ∈ m.map (·.1) := by
  induction m with
  | nil => simp [mdec]
  | cons a l ih =>
    obtain ⟨ka, c⟩ := a
    simp only [List.map_cons, List.nodup_cons] at h
    obtain ⟨ih1, ih2⟩ := ih h.2
    simp only [mdec]
    by_cases h1 : ka = k
    · simp only [h1, if_true]
      by_cases hc1 : c ≤ 1
      · simp only [hc1, if_true]; exact ⟨h.2, fun k' hk => List.mem_cons_of_mem _ hk⟩
      · simp only [hc1, if_false, List.map_cons, List.nodup_cons]
        exact ⟨⟨h1 ▸ h.1, h.2⟩, fun k' hk => by simpa [h1] using hk⟩
    · simp only [h1, if_false, List.map_cons, List.nodup_cons]
      refine ⟨⟨fun hm => h.1 (ih2 ka hm), ih1⟩, ?_⟩
      intro k' hk
      rcases List.mem_cons.mp hk with e | e
      · exact e ▸ List.mem_cons_self
      · exact List.mem_cons_of_mem _ (ih2 k' e)

theorem pos_mdec (k : WKey) (m : List (WKey × Nat)) (h : ∀ e ∈ m, 0 < e.2) : ∀ e ∈ mdec k m, 0 < e.2 := by
  induction m with
  | nil => intro e he; simp [mdec] at he
  | cons a l ih =>
    obtain ⟨ka, c⟩ := a
    have ih' := ih (fun e he => h e (List.mem_cons_of_mem _ he))
    simp only [mdec]
    by_cases h1 : ka = k
    · simp only [h1, if_true]
      by_cases hc1 : c ≤ 1
      · simp only [hc1, if_true]; exact fun e he => h e (List.mem_cons_of_mem _ he)
      · simp only [hc1, if_false]; intro e he
        rcases List.mem_cons.mp he with e1 | e1
        · subst e1; simp; omega
        · exact h e (List.mem_cons_of_mem _ e1)
    · simp only [h1, if_false]; intro e he
      rcases List.mem_cons.mp he with e1 | e1
      · subst e1; exact h _ List.mem_cons_self
      · exact ih' e e1

theorem exec_nonempty_of_mget {k : WKey} {m : List (WKey × Nat)} (h : 0 < mget k m) : m.isEmpty = false := by
  cases m with
  | nil => simp [mget] at h
  | cons a l => rfl

/-! ### prefixes -/

theorem mem_prefixes {p pi : List Nat} : pi ∈ prefixes p ↔ pi <+: p ∧ pi ≠ [] := by
  induction p generalizing pi with
  | nil => simp [prefixes]
  | cons k r ih =>
    simp only [prefixes, List.mem_cons, List.mem_map]
    constructor
    · rintro (e | ⟨x, hx, e⟩)
      · subst e; exact ⟨by simp, by simp⟩
      · subst e; exact ⟨by simpa using (ih.mp hx).1, by simp⟩
    · rintro ⟨hp, hne⟩
      cases pi with
      | nil => exact absurd rfl hne
      | cons a t =>
        have := List.cons_prefix_cons.mp hp
        obtain ⟨e, ht⟩ := this
        subst e
        cases t with
        | nil => exact Or.inl rfl
        | cons b t' => exact Or.inr ⟨b :: t', ih.mpr ⟨ht, by simp⟩, rfl⟩

theorem mem_ups {p pi : List Nat} : pi ∈ ups p ↔ pi <+: p ∧ pi ≠ [] := by
  unfold ups; rw [List.mem_reverse]; exact mem_prefixes

theorem dropLast_prefix_of_prefix {a p : List Nat} (h : a <+: p) : a.dropLast <+: p :=
  List.IsPrefix.trans (List.dropLast_prefix a) h

theorem dropLast_append_lastKey {p : List Nat} (h : p ≠ []) : p.dropLast ++ [lastKey p] = p := by
  unfold lastKey
  rw [List.getLast?_eq_some_getLast h]
  simp [List.dropLast_concat_getLast]

/-! ### the counters -/

theorem countP_erase_mem {α} [BEq α] [LawfulBEq α] (f : α → Bool) (c : α) (l : List α) (hc : c ∈ l) :
    (l.erase c).countP f = l.countP f - (if f c then 1 else 0) := by
  induction l with
  | nil => cases hc
  | cons a t ih =>
    by_cases h : a = c
    · subst h
      simp only [List.erase_cons_head, List.countP_cons]
      by_cases hf : f a = true <;> simp [hf]
    · have hm : c ∈ t := by
        rcases List.mem_cons.mp hc with e | e
        · exact absurd e.symm h
        · exact e
      have hbeq : (a == c) = false := by simpa using h
      rw [List.erase_cons_tail (by simpa using h), List.countP_cons, List.countP_cons, ih hm]
      by_cases hf : f c = true
      · have : 0 < t.countP f := List.countP_pos_iff.mpr ⟨c, hm, hf⟩
        simp only [hf, if_true]; omega
      · simp [hf]

theorem cntE_cons (q : ScqId) (p : List Nat) (k : WKey) (c : EC) (E : List EC) :
    cntE q p k (c :: E) = cntE q p k E + (if c.1 = q ∧ p <+: c.2.1 ∧ c.2.2 = k then 1 else 0) := by
  unfold cntE
  rw [List.countP_cons]
  congr 1
  by_cases h1 : c.1 = q <;> by_cases h2 : p <+: c.2.1 <;> by_cases h3 : c.2.2 = k <;>
    simp [h1, h2, h3, List.isPrefixOf_iff_prefix]

theorem cntE_erase (q : ScqId) (p : List Nat) (k : WKey) (c : EC) (E : List EC) (hc : c ∈ E) :
    cntE q p k (E.erase c) = cntE q p k E - (if c.1 = q ∧ p <+: c.2.1 ∧ c.2.2 = k then 1 else 0) := by
  unfold cntE
  rw [countP_erase_mem _ _ _ hc]
  by_cases h1 : c.1 = q <;> by_cases h2 : p <+: c.2.1 <;> by_cases h3 : c.2.2 = k <;>
    simp [h1, h2, h3, List.isPrefixOf_iff_prefix]

theorem cntE_pos_iff (q : ScqId) (p : List Nat) (k : WKey) (E : List EC) :
    0 < cntE q p k E ↔ ∃ c ∈ E, c.1 = q ∧ p <+: c.2.1 ∧ c.2.2 = k := by
  unfold cntE
  rw [List.countP_pos_iff]
  constructor
  · rintro ⟨c, hc, h⟩
    simp only [Bool.and_eq_true, decide_eq_true_eq, List.isPrefixOf_iff_prefix] at h
    exact ⟨c, hc, h.1.1, h.1.2, h.2⟩
  · rintro ⟨c, hc, h1, h2, h3⟩
    exact ⟨c, hc, by simp [h1, h2, h3, List.isPrefixOf_iff_prefix]⟩

theorem cntI_cons (q : ScqId) (p : List Nat) (c : IC) (I : List IC) :
    cntI q p (c :: I) = cntI q p I + (if c.1 = q ∧ p <+: c.2 then 1 else 0) := by
  unfold cntI
  rw [List.countP_cons]
  congr 1
  by_cases h1 : c.1 = q <;> by_cases h2 : p <+: c.2 <;> simp [h1, h2, List.isPrefixOf_iff_prefix]

theorem cntI_erase (q : ScqId) (p : List Nat) (c : IC) (I : List IC) (hc : c ∈ I) :
    cntI q p (I.erase c) = cntI q p I - (if c.1 = q ∧ p <+: c.2 then 1 else 0) := by
  unfold cntI
  rw [countP_erase_mem _ _ _ hc]
  by_cases h1 : c.1 = q <;> by_cases h2 : p <+: c.2 <;> simp [h1, h2, List.isPrefixOf_iff_prefix]

theorem cntI_pos_iff (q : ScqId) (p : List Nat) (I : List IC) :
    0 < cntI q p I ↔ ∃ c ∈ I, c.1 = q ∧ p <+: c.2 := by
  unfold cntI
  rw [List.countP_pos_iff]
  constructor
  · rintro ⟨c, hc, h⟩
    simp only [Bool.and_eq_true, decide_eq_true_eq, List.isPrefixOf_iff_prefix] at h
    exact ⟨c, hc, h.1, h.2⟩
  · rintro ⟨c, hc, h1, h2⟩
    exact ⟨c, hc, by simp [h1, h2, List.isPrefixOf_iff_prefix]⟩

end BbRe.Lemmas.SchedTree
