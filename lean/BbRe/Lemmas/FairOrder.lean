import BbRe.Model.Fair
import BbRe.Model.GoHeap
/-!
The `Less` relations of the scheduler's heaps are strict weak orders (`GoHeap.StrictWeak`):
the exact score order `scoreLt`, `childLess` (= `queuedChildrenHeap.Less` with the exact score)
and `opLess` (= `queuedOperationsHeap.Less`).
-/
namespace BbRe.Lemmas.Fair
open BbRe.Fair BbRe.GoHeap

/-! ### lexicographic combination -/

/-- `lt1 a b || (!lt1 b a && lt2 a b)`: the shape of every `Less` method of the scheduler. -/
def lex {α : Type} (lt1 lt2 : α → α → Bool) (a b : α) : Bool := lt1 a b || (!lt1 b a && lt2 a b)

theorem lex_strictWeak {α : Type} {lt1 lt2 : α → α → Bool} (h1 : StrictWeak lt1) (h2 : StrictWeak lt2) :
    StrictWeak (lex lt1 lt2) := by
  constructor
  · intro x y h
    unfold lex at h ⊢
    have a1 := h1.asymm x y
    have a1' := h1.asymm y x
    have a2 := h2.asymm x y
    cases h11 : lt1 x y <;> cases h12 : lt1 y x <;> cases h21 : lt2 x y <;> cases h22 : lt2 y x <;> simp_all
  · intro x y z hxy hyz
    unfold lex at hxy hyz ⊢
    have n1 := h1.negTrans x y z
    have n2 := h1.negTrans y z x
    have n3 := h1.negTrans z x y
    have n4 := h2.negTrans x y z
    cases h11 : lt1 x y <;> cases h12 : lt1 y x <;> cases h13 : lt1 y z <;> cases h14 : lt1 z y <;>
      cases h15 : lt1 x z <;> cases h16 : lt1 z x <;> cases h21 : lt2 x y <;> cases h22 : lt2 y z <;>
      cases h23 : lt2 x z <;> simp_all

/-- Comparison of an integer key. -/
theorem key_strictWeak {α : Type} (f : α → Int) : StrictWeak (fun a b => decide (f a < f b)) := by
  constructor
  · intro x y h; simp only [decide_eq_true_eq, decide_eq_false_iff_not] at h ⊢; omega
  · intro x y z h1 h2; simp only [decide_eq_false_iff_not] at h1 h2 ⊢; omega

theorem key_strictWeak_nat {α : Type} (f : α → Nat) : StrictWeak (fun a b => decide (f a < f b)) := by
  constructor
  · intro x y h; simp only [decide_eq_true_eq, decide_eq_false_iff_not] at h ⊢; omega
  · intro x y z h1 h2; simp only [decide_eq_false_iff_not] at h1 h2 ⊢; omega

theorem key_strictWeak_nat_rev {α : Type} (f : α → Nat) : StrictWeak (fun a b => decide (f b < f a)) := by
  constructor
  · intro x y h; simp only [decide_eq_true_eq, decide_eq_false_iff_not] at h ⊢; omega
  · intro x y z h1 h2; simp only [decide_eq_false_iff_not] at h1 h2 ⊢; omega

/-! ### `opLess` -/

theorem opLess_eq_lex : opLess = lex (fun a b => decide (a.prio < b.prio))
    (lex (fun a b => decide (b.dur < a.dur)) (fun a b => decide (a.ts < b.ts))) := rfl

theorem opLess_strictWeak : StrictWeak opLess := by
  rw [opLess_eq_lex]
  exact lex_strictWeak (key_strictWeak Op.prio)
    (lex_strictWeak (key_strictWeak_nat_rev Op.dur) (key_strictWeak_nat Op.ts))

/-! ### the score order -/

/-- The score scaled by `2^(-M)`, to the 100th power. -/
def val (e : Nat) (p M : Int) : Nat := (e + 1) ^ 100 * 2 ^ (p - M).toNat

theorem val_shift (e : Nat) (p m M : Int) (h1 : M ≤ m) (h2 : m ≤ p) :
    val e p M = val e p m * 2 ^ (m - M).toNat := by
  unfold val
  have : (p - M).toNat = (p - m).toNat + (m - M).toNat := by omega
  rw [this, Nat.pow_add, Nat.mul_assoc]

/-- `scoreLt` compares one number per invocation once a common lower bound `M` of the two
priorities is fixed. -/
theorem scoreLt_iff (e₁ : Nat) (p₁ : Int) (e₂ : Nat) (p₂ M : Int) (h1 : M ≤ p₁) (h2 : M ≤ p₂) :
    scoreLt e₁ p₁ e₂ p₂ = true ↔ val e₁ p₁ M < val e₂ p₂ M := by
  unfold scoreLt
  rw [decide_eq_true_iff]
  have hm1 : min p₁ p₂ ≤ p₁ := Int.min_le_left _ _
  have hm2 : min p₁ p₂ ≤ p₂ := Int.min_le_right _ _
  have hM : M ≤ min p₁ p₂ := by omega
  rw [val_shift e₁ p₁ (min p₁ p₂) M hM hm1, val_shift e₂ p₂ (min p₁ p₂) M hM hm2]
  have hpos : 0 < 2 ^ (min p₁ p₂ - M).toNat := Nat.two_pow_pos _
  show val e₁ p₁ (min p₁ p₂) < val e₂ p₂ (min p₁ p₂) ↔ _
  exact (Nat.mul_lt_mul_right hpos).symm

theorem scoreLt_false_iff (e₁ : Nat) (p₁ : Int) (e₂ : Nat) (p₂ M : Int) (h1 : M ≤ p₁) (h2 : M ≤ p₂) :
    scoreLt e₁ p₁ e₂ p₂ = false ↔ val e₂ p₂ M ≤ val e₁ p₁ M := by
  have := scoreLt_iff e₁ p₁ e₂ p₂ M h1 h2
  cases h : scoreLt e₁ p₁ e₂ p₂
  · simp only [true_iff]
    rw [h] at this
    have : ¬ val e₁ p₁ M < val e₂ p₂ M := fun hh => by simpa using this.mpr hh
    omega
  · simp only [Bool.true_eq_false, false_iff]
    have := this.mp h
    omega

/-- The score order on (executing workers, priority) pairs is a strict weak order. -/
theorem scoreLt_strictWeak : StrictWeak (fun (a b : Nat × Int) => scoreLt a.1 a.2 b.1 b.2) := by
  constructor
  · intro x y h
    have hm1 : min x.2 y.2 ≤ x.2 := Int.min_le_left _ _
    have hm2 : min x.2 y.2 ≤ y.2 := Int.min_le_right _ _
    have h' := (scoreLt_iff x.1 x.2 y.1 y.2 (min x.2 y.2) hm1 hm2).mp h
    exact (scoreLt_false_iff y.1 y.2 x.1 x.2 (min x.2 y.2) hm2 hm1).mpr (by omega)
  · intro x y z hxy hyz
    let M := min x.2 (min y.2 z.2)
    have hx : M ≤ x.2 := Int.min_le_left _ _
    have hy : M ≤ y.2 := Int.le_trans (Int.min_le_right _ _) (Int.min_le_left _ _)
    have hz : M ≤ z.2 := Int.le_trans (Int.min_le_right _ _) (Int.min_le_right _ _)
    have h1 := (scoreLt_false_iff x.1 x.2 y.1 y.2 M hx hy).mp hxy
    have h2 := (scoreLt_false_iff y.1 y.2 z.1 z.2 M hy hz).mp hyz
    exact (scoreLt_false_iff x.1 x.2 z.1 z.2 M hx hz).mpr (by omega)

theorem invScoreLt_strictWeak : StrictWeak Inv.scoreLt := by
  have h := scoreLt_strictWeak
  constructor
  · intro x y hxy; exact h.asymm (x.exec, x.prio) (y.exec, y.prio) hxy
  · intro x y z h1 h2; exact h.negTrans (x.exec, x.prio) (y.exec, y.prio) (z.exec, z.prio) h1 h2

/-! ### `childLess` -/

theorem childLess_eq_lex : childLess = lex Inv.scoreLt (fun a b => decide (a.started < b.started)) := rfl

theorem childLess_strictWeak : StrictWeak childLess := by
  rw [childLess_eq_lex]
  exact lex_strictWeak invScoreLt_strictWeak (key_strictWeak_nat Inv.started)

end BbRe.Lemmas.Fair
