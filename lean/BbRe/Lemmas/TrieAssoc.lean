/-
Association lists standing for Go maps (`aget`/`aput`/`adel` of Model/Trie.lean).
-/
import BbRe.Model.Trie
namespace BbRe.Lemmas.TrieAssoc
open BbRe.Model.Trie

variable {κ α : Type} [DecidableEq κ]

def keys (l : List (κ × α)) : List κ := l.map Prod.fst

@[simp] theorem aget_nil (k : κ) : aget k ([] : List (κ × α)) = none := rfl

theorem aget_cons (k k' : κ) (v : α) (r : List (κ × α)) :
    aget k ((k', v) :: r) = if k' = k then some v else aget k r := rfl

theorem aget_aput (k k' : κ) (v : α) (l : List (κ × α)) :
    aget k' (aput k v l) = if k' = k then some v else aget k' l := by
  induction l with
  | nil =>
    simp only [aput, aget_cons, aget_nil]
    by_cases h : k = k'
    · simp [h]
    · have h' : ¬ k' = k := fun e => h e.symm
      simp [h, h']
  | cons e r ih =>
    obtain ⟨k0, v0⟩ := e
    simp only [aput]
    by_cases h0 : k0 = k
    · subst h0
      simp only [if_true, aget_cons]
      by_cases h : k0 = k'
      · simp [h]
      · have h' : ¬ k' = k0 := fun e => h e.symm
        simp [h, h']
    · simp only [h0, if_false, aget_cons, ih]
      by_cases h : k0 = k'
      · subst h
        simp [h0]
      · simp [h]

theorem aget_adel (k k' : κ) (l : List (κ × α)) :
    aget k' (adel k l) = if k' = k then none else aget k' l := by
  induction l with
  | nil => simp [adel]
  | cons e r ih =>
    obtain ⟨k0, v0⟩ := e
    simp only [adel]
    by_cases h0 : k0 = k
    · subst h0
      simp only [if_true, ih, aget_cons]
      by_cases h : k' = k0
      · simp [h]
      · have : ¬ k0 = k' := fun e => h e.symm
        simp [h, this]
    · simp only [h0, if_false, aget_cons, ih]
      by_cases h : k0 = k'
      · subst h
        simp [h0]
      · simp [h]

theorem mem_keys_of_aget {k : κ} {v : α} {l : List (κ × α)} (h : aget k l = some v) : k ∈ keys l := by
  induction l with
  | nil => simp at h
  | cons e r ih =>
    obtain ⟨k0, v0⟩ := e
    rw [aget_cons] at h
    by_cases h0 : k0 = k
    · simp [keys, h0]
    · simp only [h0, if_false] at h
      have := ih h
      simp only [keys, List.map_cons, List.mem_cons] at this ⊢
      exact Or.inr this

theorem aget_none_iff {k : κ} {l : List (κ × α)} : aget k l = none ↔ k ∉ keys l := by
  induction l with
  | nil => simp [keys]
  | cons e r ih =>
    obtain ⟨k0, v0⟩ := e
    rw [aget_cons]
    by_cases h0 : k0 = k
    · simp [keys, h0]
    · simp only [h0, if_false, ih, keys, List.map_cons, List.mem_cons, not_or]
      constructor
      · intro h; exact ⟨fun e => h0 e.symm, h⟩
      · intro h; exact h.2

theorem keys_aput (k : κ) (v : α) (l : List (κ × α)) :
    keys (aput k v l) = if k ∈ keys l then keys l else keys l ++ [k] := by
  induction l with
  | nil => simp [aput, keys]
  | cons e r ih =>
    obtain ⟨k0, v0⟩ := e
    simp only [aput]
    by_cases h0 : k0 = k
    · subst h0; simp [keys]
    · have ih' : List.map Prod.fst (aput k v r) = if k ∈ List.map Prod.fst r then List.map Prod.fst r else List.map Prod.fst r ++ [k] := ih
      have hne : ¬ k = k0 := fun e => h0 e.symm
      simp only [h0, if_false, keys, List.map_cons, List.mem_cons, ih', hne, false_or]
      split <;> simp

theorem nodup_keys_aput {k : κ} {v : α} {l : List (κ × α)} (h : (keys l).Nodup) :
    (keys (aput k v l)).Nodup := by
  rw [keys_aput]
  split
  · exact h
  · rename_i hk
    rw [List.nodup_append]
    refine ⟨h, by simp, ?_⟩
    intro a ha b hb
    simp only [List.mem_singleton] at hb
    subst hb
    intro e; subst e; exact hk ha

theorem keys_adel (k : κ) (l : List (κ × α)) : keys (adel k l) = (keys l).filter (fun x => x ≠ k) := by
  induction l with
  | nil => simp [adel, keys]
  | cons e r ih =>
    obtain ⟨k0, v0⟩ := e
    simp only [adel]
    have ih' : List.map Prod.fst (adel k r) = List.filter (fun x => decide (x ≠ k)) (List.map Prod.fst r) := ih
    by_cases h0 : k0 = k
    · simp [h0, keys, ih']
    · simp [h0, keys, ih']

theorem nodup_keys_adel {k : κ} {l : List (κ × α)} (h : (keys l).Nodup) : (keys (adel k l)).Nodup := by
  rw [keys_adel]; exact h.filter _

theorem aput_ne_nil (k : κ) (v : α) (l : List (κ × α)) : aput k v l ≠ [] := by
  cases l with
  | nil => simp [aput]
  | cons e r =>
    obtain ⟨k0, v0⟩ := e
    simp only [aput]; split <;> simp

/-- a map with at most one entry that contains `d` contains nothing else. -/
theorem aget_eq_none_of_length_le_one {d e : κ} {x : α} {l : List (κ × α)}
    (hl : l.length ≤ 1) (hd : aget d l = some x) (hne : e ≠ d) : aget e l = none := by
  match l, hl, hd with
  | [(k0, v0)], _, hd =>
    rw [aget_cons] at hd ⊢
    by_cases h0 : k0 = d
    · subst h0
      have : ¬ k0 = e := fun h => hne h.symm
      simp [this]
    · simp [h0] at hd

/-- deleting one key from a duplicate-free map with more than one entry leaves it non-empty. -/
theorem adel_ne_nil_of_length_gt_one {k : κ} {l : List (κ × α)} (hn : (keys l).Nodup)
    (hl : l.length > 1) : adel k l ≠ [] := by
  match l, hl, hn with
  | (k0, v0) :: (k1, v1) :: r, _, hn =>
    simp only [keys, List.map_cons, List.nodup_cons, List.mem_cons, not_or] at hn
    have h01 : k0 ≠ k1 := hn.1.1
    simp only [adel]
    by_cases h0 : k0 = k
    · subst h0
      have : ¬ k1 = k0 := fun e => h01 e.symm
      simp [this]
    · simp [h0]

theorem adel_eq_nil_of_nil {k : κ} : adel k ([] : List (κ × α)) = [] := rfl

end BbRe.Lemmas.TrieAssoc
