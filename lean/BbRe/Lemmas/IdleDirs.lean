import BbRe.Model.BuildDirs
import Std.Data.String.ToNat
/-!
Lemmas about the root-directory association list of `Model/BuildDirs.lean` and
the invariant of the build-directory decorator stack.  Used by `Properties/C12.lean`.
-/
namespace BbRe.Lemmas.IdleDirs
open BbRe.BuildDirs

/-! ### the root as an association list -/

def keys (r : Root) : List Name := r.map (·.1)

theorem hasName_iff_mem_keys (r : Root) (n : Name) : hasName r n = true ↔ n ∈ keys r := by
  induction r with
  | nil => simp [keys, hasName]
  | cons e r ih =>
    simp only [hasName, keys, List.map_cons, List.mem_cons] at ih ⊢
    by_cases h : e.1 = n
    · simp [h]
    · have h' : ¬ n = e.1 := fun e' => h e'.symm
      simp [h, h', ih]

theorem lookup_isSome_iff (r : Root) (n : Name) : (lookup r n).isSome = hasName r n := by
  induction r with
  | nil => rfl
  | cons e r ih =>
    simp only [lookup, hasName]
    by_cases h : e.1 = n <;> simp [h, ih]

theorem keys_erase (r : Root) (n : Name) : keys (eraseName r n) = (keys r).filter (fun k => !(k == n)) := by
  induction r with
  | nil => rfl
  | cons e r ih =>
    simp only [eraseName, keys, List.map_cons] at ih ⊢
    by_cases h : e.1 = n <;> simp [h, ih]

theorem hasName_erase (r : Root) (n m : Name) :
    hasName (eraseName r n) m = true ↔ (hasName r m = true ∧ m ≠ n) := by
  rw [hasName_iff_mem_keys, keys_erase, List.mem_filter, hasName_iff_mem_keys]
  simp

theorem lookup_erase (r : Root) (n m : Name) :
    lookup (eraseName r n) m = if m = n then none else lookup r m := by
  induction r with
  | nil => simp [eraseName, lookup]
  | cons e r ih =>
    obtain ⟨k, fs⟩ := e
    simp only [eraseName, lookup]
    by_cases hmn : m = n
    · subst hmn
      simp only [if_true] at ih ⊢
      by_cases h : k = m
      · subst h; simp [ih]
      · simp [h, ih, lookup]
    · simp only [if_neg hmn] at ih ⊢
      by_cases h : k = n
      · subst h
        have : ¬ k = m := fun e' => hmn e'.symm
        simp [ih, this]
      · simp [h, ih, lookup]

theorem keys_addFile (r : Root) (n : Name) (f : Nat) : keys (addFile r n f) = keys r := by
  induction r with
  | nil => rfl
  | cons e r ih =>
    simp only [addFile, keys] at ih ⊢
    by_cases h : e.1 = n <;> simp [h, ih]

theorem hasName_addFile (r : Root) (n m : Name) (f : Nat) : hasName (addFile r n f) m = hasName r m := by
  have h1 := hasName_iff_mem_keys (addFile r n f) m
  have h2 := hasName_iff_mem_keys r m
  rw [keys_addFile] at h1
  cases h : hasName (addFile r n f) m <;> cases h' : hasName r m <;> simp_all

theorem lookup_addFile_ne (r : Root) (n m : Name) (f : Nat) (h : m ≠ n) :
    lookup (addFile r n f) m = lookup r m := by
  induction r with
  | nil => rfl
  | cons e r ih =>
    obtain ⟨k, fs⟩ := e
    simp only [addFile]
    by_cases h1 : k = n
    · subst h1
      have : ¬ k = m := fun e' => h e'.symm
      simp [lookup, ih, this]
    · by_cases h2 : k = m
      · subst h2; simp [h1, lookup]
      · simp [h1, h2, ih, lookup]

/-! ### the invariant -/

structure DInv (s : State) : Prop where
  keysNodup : (keys s.root).Nodup
  ownsIn : ∀ t n, (s.pc t).owns n → hasName s.root n = true
  ownsUniq : ∀ t t' n, (s.pc t).owns n → (s.pc t').owns n → t = t'
  freshEmpty : ∀ t n, (s.pc t = .made n ∨ s.pc t = .enterFailed n) → lookup s.root n = some []
  issuedNodup : s.issued.Nodup
  issuedRange : ∀ x, x ∈ s.issued → ∃ k, 1 ≤ k ∧ k ≤ s.next ∧ x = Nat.repr k
  users : ∃ l : List Nat, l.Nodup ∧ (∀ t, t ∈ l ↔ DPC.user (s.pc t) = true) ∧ s.active = l.length

theorem dinv_init : DInv init := by
  refine ⟨?_, ?_, ?_, ?_, ?_, ?_, ⟨[], List.nodup_nil, ?_, rfl⟩⟩ <;>
    simp [init, keys, DPC.owns, DPC.user]

@[simp] theorem setPc_pc (s : State) (t : Nat) (v : DPC) (x : Nat) :
    (s.setPc t v).pc x = if x = t then v else s.pc x := rfl
@[simp] theorem setPc_root (s : State) (t : Nat) (v : DPC) : (s.setPc t v).root = s.root := rfl
@[simp] theorem setPc_next (s : State) (t : Nat) (v : DPC) : (s.setPc t v).next = s.next := rfl
@[simp] theorem setPc_active (s : State) (t : Nat) (v : DPC) : (s.setPc t v).active = s.active := rfl
@[simp] theorem setPc_issued (s : State) (t : Nat) (v : DPC) : (s.setPc t v).issued = s.issued := rfl

/-- `made n` / `enterFailed n`: created, not yet handed out. -/
def DPC.fresh : DPC → Name → Prop
  | .made m, n => m = n
  | .enterFailed m, n => m = n
  | _, _ => False

theorem fresh_iff (p : DPC) (n : Name) : DPC.fresh p n ↔ (p = .made n ∨ p = .enterFailed n) := by
  cases p <;> simp [DPC.fresh]

theorem fresh_owns {p : DPC} {n : Name} (h : DPC.fresh p n) : p.owns n := by
  cases p <;> simp_all [DPC.fresh, DPC.owns]

/-- the `users` field when the thread keeps its user status -/
theorem users_same {s : State} (h : DInv s) (t : Nat) (v : DPC) (hu : DPC.user v = DPC.user (s.pc t)) :
    ∃ l : List Nat, l.Nodup ∧ (∀ x, x ∈ l ↔ DPC.user (if x = t then v else s.pc x) = true) ∧
      s.active = l.length := by
  obtain ⟨l, h1, h2, h3⟩ := h.users
  refine ⟨l, h1, ?_, h3⟩
  intro x
  by_cases e : x = t
  · subst e; simp [h2 x, hu]
  · simp [e, h2 x]

/-- A step of thread `t` that leaves the root alone and does not make `t` own
or be fresh on anything new (`a` = new number of users). -/
theorem dinv_setPc_gen {s : State} (h : DInv s) (t : Nat) (v : DPC) (a : Nat)
    (hown : ∀ n, v.owns n → (s.pc t).owns n)
    (hfresh : ∀ n, DPC.fresh v n → DPC.fresh (s.pc t) n)
    (hu : ∃ l : List Nat, l.Nodup ∧ (∀ x, x ∈ l ↔ DPC.user (if x = t then v else s.pc x) = true) ∧
      a = l.length) : DInv { (s.setPc t v) with active := a } := by
  refine ⟨h.keysNodup, ?_, ?_, ?_, h.issuedNodup, h.issuedRange, hu⟩
  · intro x n hx
    simp only [setPc_pc] at hx
    split at hx
    · exact h.ownsIn t n (hown n hx)
    · exact h.ownsIn x n hx
  · intro x y n hx hy
    simp only [setPc_pc] at hx hy
    split at hx <;> split at hy
    · simp_all
    · rename_i e _; subst e; exact (h.ownsUniq _ _ n (hown n hx) hy)
    · rename_i _ e; subst e; exact (h.ownsUniq _ _ n hx (hown n hy))
    · exact h.ownsUniq x y n hx hy
  · intro x n hx
    rw [← fresh_iff] at hx
    simp only [setPc_pc] at hx
    split at hx
    · exact h.freshEmpty t n ((fresh_iff _ _).1 (hfresh n hx))
    · exact h.freshEmpty x n ((fresh_iff _ _).1 hx)

theorem dinv_setPc {s : State} (h : DInv s) (t : Nat) (v : DPC)
    (hown : ∀ n, v.owns n → (s.pc t).owns n)
    (hfresh : ∀ n, DPC.fresh v n → DPC.fresh (s.pc t) n)
    (hu : DPC.user v = DPC.user (s.pc t)) : DInv (s.setPc t v) :=
  dinv_setPc_gen h t v s.active hown hfresh (users_same h t v hu)

/-- A step of thread `t`, owner of `n`, that removes `n` from the root and gives it up. -/
theorem dinv_erase {s : State} (h : DInv s) (t : Nat) (n : Name) (v : DPC)
    (hold : (s.pc t).owns n) (hown : ∀ m, ¬ v.owns m)
    (hu : DPC.user v = DPC.user (s.pc t)) :
    DInv { (s.setPc t v) with root := eraseName s.root n } := by
  have hfr : ∀ m, ¬ DPC.fresh v m := fun m hm => hown m (fresh_owns hm)
  have other : ∀ x m, x ≠ t → (s.pc x).owns m → m ≠ n := by
    intro x m hx hm e
    subst e
    exact hx (h.ownsUniq x t m hm hold)
  refine ⟨?_, ?_, ?_, ?_, h.issuedNodup, h.issuedRange, users_same h t v hu⟩
  · show (keys (eraseName s.root n)).Nodup
    rw [keys_erase]
    exact h.keysNodup.sublist (List.filter_sublist ..)
  · intro x m hx
    show hasName (eraseName s.root n) m = true
    simp only [setPc_pc] at hx
    split at hx
    · exact absurd hx (hown m)
    · rename_i e
      exact (hasName_erase _ _ _).2 ⟨h.ownsIn x m hx, other x m e hx⟩
  · intro x y m hx hy
    simp only [setPc_pc] at hx hy
    split at hx
    · exact absurd hx (hown m)
    · split at hy
      · exact absurd hy (hown m)
      · exact h.ownsUniq x y m hx hy
  · intro x m hx
    show lookup (eraseName s.root n) m = some []
    rw [← fresh_iff] at hx
    simp only [setPc_pc] at hx
    split at hx
    · exact absurd hx (hfr m)
    · rename_i e
      rw [lookup_erase, if_neg (other x m e (fresh_owns hx))]
      exact h.freshEmpty x m ((fresh_iff _ _).1 hx)

theorem users_add {s : State} (h : DInv s) (t : Nat) (v : DPC)
    (hold : DPC.user (s.pc t) = false) (hv : DPC.user v = true) :
    ∃ l : List Nat, l.Nodup ∧ (∀ x, x ∈ l ↔ DPC.user (if x = t then v else s.pc x) = true) ∧
      s.active + 1 = l.length := by
  obtain ⟨l, h1, h2, h3⟩ := h.users
  have htl : t ∉ l := by
    intro hx; have := (h2 t).1 hx; rw [hold] at this; cases this
  refine ⟨t :: l, List.nodup_cons.2 ⟨htl, h1⟩, ?_, by simp [h3]⟩
  intro x
  by_cases e : x = t
  · subst e; simp [hv]
  · simp [e, h2 x]

theorem users_remove {s : State} (h : DInv s) (t : Nat) (v : DPC)
    (hold : DPC.user (s.pc t) = true) (hv : DPC.user v = false) :
    ∃ l : List Nat, l.Nodup ∧ (∀ x, x ∈ l ↔ DPC.user (if x = t then v else s.pc x) = true) ∧
      s.active - 1 = l.length := by
  obtain ⟨l, h1, h2, h3⟩ := h.users
  have htl : t ∈ l := (h2 t).2 hold
  refine ⟨l.erase t, h1.erase t, ?_, by rw [List.length_erase_of_mem htl, h3]⟩
  intro x
  rw [h1.mem_erase_iff]
  by_cases e : x = t
  · subst e; simp [hv]
  · simp [e, h2 x]

/-- Every step of `Model/BuildDirs.lean` preserves the invariant. -/
theorem dinv_step {s s' : State} (h : DInv s) (op : Op) (hs : step s op = some s') : DInv s' := by
  cases op with
  | «begin» t d =>
    simp only [step] at hs
    split at hs
    · rename_i hpc
      cases hs
      exact dinv_setPc_gen h t (.acquired d) (s.active + 1) (by simp [DPC.owns]) (by simp [DPC.fresh])
        (users_add h t _ (by rw [hpc]; rfl) rfl)
    · cases hs
  | name t =>
    simp only [step] at hs
    split at hs
    · rename_i hpc
      cases hs
      have base := dinv_setPc h t (.named (Nat.repr (s.next + 1))) (by simp [DPC.owns]) (by simp [DPC.fresh])
        (by rw [hpc]; rfl)
      refine { base with issuedNodup := ?_, issuedRange := ?_ }
      · refine List.nodup_cons.2 ⟨?_, h.issuedNodup⟩
        intro hmem
        obtain ⟨k, _, hk2, hk3⟩ := h.issuedRange _ hmem
        have := Nat.repr_injective hk3
        omega
      · intro x hx
        rcases List.mem_cons.1 hx with e | hm
        · exact ⟨s.next + 1, by omega, Nat.le_refl _, e⟩
        · obtain ⟨k, hk1, hk2, hk3⟩ := h.issuedRange x hm
          exact ⟨k, hk1, Nat.le_succ_of_le hk2, hk3⟩
    · rename_i hpc
      cases hs
      exact dinv_setPc h t _ (by simp [DPC.owns]) (by simp [DPC.fresh]) (by rw [hpc]; rfl)
    · cases hs
  | mkdir t fault =>
    simp only [step] at hs
    split at hs
    · rename_i n hpc
      split at hs
      · cases hs
        exact dinv_setPc h t _ (by simp [DPC.owns]) (by simp [DPC.fresh]) (by rw [hpc]; rfl)
      · rename_i hcond
        cases hs
        have hno : hasName s.root n = false := by
          cases hh : hasName s.root n
          · rfl
          · simp [hh] at hcond
        have hnk : n ∉ keys s.root := by
          intro hk
          rw [← hasName_iff_mem_keys, hno] at hk; cases hk
        have notOwned : ∀ x m, (s.pc x).owns m → m ≠ n := by
          intro x m hm e; subst e
          have := h.ownsIn x m hm
          rw [hno] at this; cases this
        refine ⟨?_, ?_, ?_, ?_, h.issuedNodup, h.issuedRange,
          users_same h t (.made n) (by rw [hpc]; rfl)⟩
        · show (keys ((n, []) :: s.root)).Nodup
          exact List.nodup_cons.2 ⟨hnk, h.keysNodup⟩
        · intro x m hx
          show hasName ((n, []) :: s.root) m = true
          simp only [setPc_pc] at hx
          simp only [hasName]
          split at hx
          · simp only [DPC.owns] at hx; simp [hx]
          · have := h.ownsIn x m hx
            simp [this]
        · intro x y m hx hy
          simp only [setPc_pc] at hx hy
          split at hx <;> split at hy
          · simp_all
          · simp only [DPC.owns] at hx; exact absurd hx.symm (notOwned y m hy)
          · simp only [DPC.owns] at hy; exact absurd hy.symm (notOwned x m hx)
          · exact h.ownsUniq x y m hx hy
        · intro x m hx
          show lookup ((n, []) :: s.root) m = some []
          rw [← fresh_iff] at hx
          simp only [setPc_pc] at hx
          simp only [lookup]
          split at hx
          · simp only [DPC.fresh] at hx; simp [hx]
          · have hne : m ≠ n := notOwned x m (fresh_owns hx)
            have hne' : ¬ n = m := fun e => hne e.symm
            simp only [if_neg hne']
            exact h.freshEmpty x m ((fresh_iff _ _).1 hx)
    · cases hs
  | enter t fault =>
    simp only [step] at hs
    split at hs
    · rename_i n hpc
      split at hs <;> cases hs <;>
        exact dinv_setPc h t _ (by rw [hpc]; simp [DPC.owns]) (by rw [hpc]; simp [DPC.fresh]) (by rw [hpc]; rfl)
    · cases hs
  | rmdir t fault =>
    simp only [step] at hs
    split at hs
    · rename_i n hpc
      split at hs
      · cases hs
        exact dinv_erase h t n _ (by rw [hpc]; simp [DPC.owns]) (by simp [DPC.owns]) (by rw [hpc]; rfl)
      · cases hs
        exact dinv_setPc h t _ (by simp [DPC.owns]) (by simp [DPC.fresh]) (by rw [hpc]; rfl)
    · cases hs
  | write t f =>
    simp only [step] at hs
    split at hs
    · rename_i n hpc
      cases hs
      have hold : (s.pc t).owns n := by rw [hpc]; simp [DPC.owns]
      refine ⟨?_, ?_, h.ownsUniq, ?_, h.issuedNodup, h.issuedRange, h.users⟩
      · show (keys (addFile s.root n f)).Nodup
        rw [keys_addFile]; exact h.keysNodup
      · intro x m hx
        show hasName (addFile s.root n f) m = true
        rw [hasName_addFile]; exact h.ownsIn x m hx
      · intro x m hx
        show lookup (addFile s.root n f) m = some []
        have hne : m ≠ n := by
          intro e; subst e
          have hxo : (s.pc x).owns m := fresh_owns ((fresh_iff _ _).2 hx)
          have := h.ownsUniq x t m hxo hold
          subst this
          rw [hpc] at hx; simp at hx
        rw [lookup_addFile_ne _ _ _ _ hne]
        exact h.freshEmpty x m hx
    · cases hs
  | closeChild t e1 =>
    simp only [step] at hs
    split at hs
    · rename_i n hpc
      cases hs
      exact dinv_setPc h t _ (by rw [hpc]; simp [DPC.owns]) (by simp [DPC.fresh]) (by rw [hpc]; rfl)
    · cases hs
  | removeAll t fault =>
    simp only [step] at hs
    split at hs
    · rename_i n e1 hpc
      split at hs
      · cases hs
        exact dinv_setPc h t _ (by simp [DPC.owns]) (by simp [DPC.fresh]) (by rw [hpc]; rfl)
      · cases hs
        exact dinv_erase h t n _ (by rw [hpc]; simp [DPC.owns]) (by simp [DPC.owns]) (by rw [hpc]; rfl)
    · cases hs
  | release t =>
    simp only [step] at hs
    split at hs
    · rename_i g r hpc
      cases hs
      exact dinv_setPc_gen h t (.releasing g r) (s.active - 1) (by simp [DPC.owns]) (by simp [DPC.fresh])
        (users_remove h t _ (by rw [hpc]; rfl) rfl)
    · cases hs
  | finish t relErr =>
    simp only [step] at hs
    split at hs
    · rename_i g r hpc
      cases hs
      exact dinv_setPc h t _ (by simp [DPC.owns]) (by simp [DPC.fresh]) (by rw [hpc]; rfl)
    · cases hs
  | clean ok =>
    simp only [step] at hs
    split at hs
    · rename_i hact
      split at hs
      · cases hs
        obtain ⟨l, h1, h2, h3⟩ := h.users
        have hl : l = [] := List.eq_nil_of_length_eq_zero (by omega)
        have nouser : ∀ x, DPC.user (s.pc x) = false := by
          intro x
          cases hu : DPC.user (s.pc x)
          · rfl
          · have := (h2 x).2 hu; rw [hl] at this; cases this
        have noown : ∀ x m, ¬ (s.pc x).owns m := by
          intro x m hm
          have := nouser x
          cases hp : s.pc x <;> simp_all [DPC.owns, DPC.user]
        refine ⟨by simp [keys], ?_, h.ownsUniq, ?_, h.issuedNodup, h.issuedRange, h.users⟩
        · intro x m hm; exact absurd hm (noown x m)
        · intro x m hm; exact absurd (fresh_owns ((fresh_iff _ _).2 hm)) (noown x m)
      · cases hs; exact h
    · cases hs

theorem dinv_reachable {s : State} (h : Reachable s) : DInv s := by
  induction h with
  | init => exact dinv_init
  | step op _ hs ih => exact dinv_step ih op hs

/-- run a list of steps, skipping the disabled ones (for the non-vacuity examples) -/
def drun (s : State) : List Op → State
  | [] => s
  | op :: rest => match step s op with
    | some s' => drun s' rest
    | none => drun s rest

theorem reachable_drun {s : State} (h : Reachable s) (ops : List Op) :
    Reachable (drun s ops) := by
  induction ops generalizing s with
  | nil => exact h
  | cons op rest ih =>
    unfold drun
    split
    · rename_i s' hs; exact ih (Reachable.step op h hs)
    · exact ih h


end BbRe.Lemmas.IdleDirs
