import BbRe.Lemmas.SchedTreePrimBasic
/-!
Structural consequences of `TreeOK`: ancestors exist, contributions keep invocations alive, the invariant
only depends on the bags up to permutation, exemptions can be discharged.
-/
namespace BbRe.Lemmas.SchedTree
open BbRe.Sched BbRe.SchedTree

variable {X : List (ScqId × List Nat)} {ns : List Node} {E : List EC} {I : List IC} {Q : List QC} {P : List PC}

theorem TreeOK.nd' (h : TreeOK X ns E I Q P) : (ns.map nkey).Nodup := h.nd

/-- every ancestor of an existing invocation exists -/
theorem TreeOK.prefix_exists (h : TreeOK X ns E I Q P) {q : ScqId} :
    ∀ (p : List Nat), (node? ns q p).isSome = true → ∀ pi, pi <+: p → (node? ns q pi).isSome = true := by
  intro p
  induction hl : p.length generalizing p with
  | zero =>
    intro hp pi hpi
    have : p = [] := List.length_eq_zero_iff.mp hl
    subst this
    have : pi = [] := List.prefix_nil.mp hpi
    subst this; exact hp
  | succ n ih =>
    intro hp pi hpi
    by_cases he : pi = p
    · subst he; exact hp
    · have hne : p ≠ [] := by intro e; subst e; simp at hl
      obtain ⟨m, hm, hq, hpath⟩ := node?_isSome_iff.mp hp
      have hpar := h.pc m hm (by rw [hpath]; exact hne)
      rw [hq, hpath] at hpar
      have hlen : p.dropLast.length = n := by simp [List.length_dropLast, hl]
      apply ih p.dropLast hlen hpar pi
      -- a proper prefix of `p` is a prefix of `p.dropLast`
      obtain ⟨t, ht⟩ := hpi
      have htne : t ≠ [] := by intro e; subst e; simp at ht; exact he ht
      have : p.dropLast = pi ++ t.dropLast := by
        rw [← ht, List.dropLast_append_of_ne_nil htne]
      rw [this]; exact List.prefix_append _ _

/-- an invocation with an executing operation at or below it is active -/
theorem TreeOK.active_of_E (h : TreeOK X ns E I Q P) {n : Node} (hn : n ∈ ns) {c : EC} (hc : c ∈ E)
    (hq : c.1 = n.scq) (hp : n.path <+: c.2.1) : n.exec.isEmpty = false := by
  have : 0 < cntE n.scq n.path c.2.2 E := (cntE_pos_iff _ _ _ _).mpr ⟨c, hc, hq, hp, rfl⟩
  rw [← h.ex n hn] at this
  exact exec_nonempty_of_mget this

theorem TreeOK.idle_of_I (h : TreeOK X ns E I Q P) {n : Node} (hn : n ∈ ns) {c : IC} (hc : c ∈ I)
    (hq : c.1 = n.scq) (hp : n.path <+: c.2) : 0 < n.idle := by
  rw [h.id n hn]; exact (cntI_pos_iff _ _ _).mpr ⟨c, hc, hq, hp⟩

/-- an invocation with a queued operation at or below it is queued -/
theorem TreeOK.queued_of_Q (h : TreeOK X ns E I Q P) {n : Node} (hn : n ∈ ns) {c : QC} (hc : c ∈ Q)
    (hq : c.1 = n.scq) (hp : n.path <+: c.2.1) : n.isQueued = true := by
  unfold Node.isQueued
  by_cases he : n.path = c.2.1
  · have : c.2.2 ∈ n.qops := ((h.qo n hn).2 c.2.2).mpr (by rw [he, ← hq]; exact hc)
    cases hqo : n.qops with
    | nil => rw [hqo] at this; cases this
    | cons a l => rfl
  · obtain ⟨t, ht⟩ := hp
    cases t with
    | nil => exact absurd (by simpa using ht) he
    | cons k t' =>
      have : k ∈ n.qkids := ((h.qk n hn).2 k).mpr ⟨c, hc, hq, ⟨t', by rw [← ht]; simp⟩⟩
      cases hqk : n.qkids with
      | nil => rw [hqk] at this; cases this
      | cons a l => simp

/-- what keeps an invocation alive: `isEmptyInv = false` iff something is recorded at or below it -/
theorem TreeOK.not_empty_iff (h : TreeOK X ns E I Q P) {n : Node} (hn : n ∈ ns) :
    n.isEmptyInv = false ↔
      (∃ c ∈ E, c.1 = n.scq ∧ n.path <+: c.2.1) ∨ (∃ c ∈ I, c.1 = n.scq ∧ n.path <+: c.2) ∨
      (∃ c ∈ Q, c.1 = n.scq ∧ n.path <+: c.2.1) := by
  constructor
  · intro he
    unfold Node.isEmptyInv Node.isActive Node.isQueued at he
    by_cases h1 : n.exec.isEmpty = false
    · left
      cases hx : n.exec with
      | nil => rw [hx] at h1; simp at h1
      | cons a l =>
        have hpos : 0 < mget a.1 n.exec := by
          rw [hx]; obtain ⟨ka, c⟩ := a
          have := (h.exnd n hn).2 (ka, c) (by rw [hx]; exact List.mem_cons_self)
          simp [mget]; exact this
        rw [h.ex n hn] at hpos
        obtain ⟨c, hc, h1, h2, _⟩ := (cntE_pos_iff _ _ _ _).mp hpos
        exact ⟨c, hc, h1, h2⟩
    · by_cases h2 : n.idle = 0
      · right; right
        have h1' : n.exec.isEmpty = true := by simpa using h1
        simp only [h1', h2] at he
        by_cases h3 : n.qops.isEmpty = true
        · have h4 : n.qkids.isEmpty = false := by
            cases hq : n.qkids.isEmpty with
            | false => rfl
            | true => simp [h3, hq] at he
          cases hk : n.qkids with
          | nil => rw [hk] at h4; simp at h4
          | cons k l =>
            obtain ⟨c, hc, hq, hp⟩ := ((h.qk n hn).2 k).mp (by rw [hk]; exact List.mem_cons_self)
            exact ⟨c, hc, hq, List.IsPrefix.trans (List.prefix_append _ _) hp⟩
        · cases ho : n.qops with
          | nil => rw [ho] at h3; simp at h3
          | cons o l =>
            have := ((h.qo n hn).2 o).mp (by rw [ho]; exact List.mem_cons_self)
            exact ⟨_, this, rfl, List.prefix_refl _⟩
      · right; left
        have : 0 < cntI n.scq n.path I := by rw [← h.id n hn]; omega
        exact (cntI_pos_iff _ _ _).mp this
  · rintro (⟨c, hc, hq, hp⟩ | ⟨c, hc, hq, hp⟩ | ⟨c, hc, hq, hp⟩)
    · have := h.active_of_E hn hc hq hp
      simp [Node.isEmptyInv, Node.isActive, this]
    · have := h.idle_of_I hn hc hq hp
      unfold Node.isEmptyInv
      have : (n.idle == 0) = false := by simp; omega
      simp [this]
    · have := h.queued_of_Q hn hc hq hp
      simp [Node.isEmptyInv, Node.isActive, this]

/-- the invariant depends on the bags only up to permutation / membership -/
theorem TreeOK.congr (h : TreeOK X ns E I Q P) {E' : List EC} {I' : List IC} {Q' : List QC} {P' : List PC}
    (hE : E.Perm E') (hI : I.Perm I') (hQ : ∀ c, c ∈ Q ↔ c ∈ Q') (hP : ∀ c, c ∈ P ↔ c ∈ P') :
    TreeOK X ns E' I' Q' P' := by
  have cE : ∀ q p k, cntE q p k E' = cntE q p k E := fun q p k => (hE.countP_eq _).symm
  have cI : ∀ q p, cntI q p I' = cntI q p I := fun q p => (hI.countP_eq _).symm
  refine ⟨h.nd, h.pc, ?_, h.exnd, ?_, ?_, ?_, ?_, ?_, h.ne, ?_, ?_, ?_, ?_, ?_⟩
  · intro n hn k; rw [cE]; exact h.ex n hn k
  · intro n hn; rw [cI]; exact h.id n hn
  · intro n hn; refine ⟨(h.qo n hn).1, fun o => ?_⟩; rw [← hQ]; exact (h.qo n hn).2 o
  · intro n hn; refine ⟨(h.qk n hn).1, fun k => ?_⟩
    rw [(h.qk n hn).2 k]
    constructor
    · rintro ⟨c, hc, x⟩; exact ⟨c, (hQ c).mp hc, x⟩
    · rintro ⟨c, hc, x⟩; exact ⟨c, (hQ c).mpr hc, x⟩
  · intro n hn; refine ⟨(h.pk n hn).1, fun w => ?_⟩; rw [← hP]; exact (h.pk n hn).2 w
  · intro n hn; refine ⟨(h.ik n hn).1, fun k => ?_⟩
    rw [(h.ik n hn).2 k]
    constructor
    · rintro ⟨c, hc, x⟩; exact ⟨c, (hP c).mp hc, x⟩
    · rintro ⟨c, hc, x⟩; exact ⟨c, (hP c).mpr hc, x⟩
  · intro c hc; exact h.rfE c (hE.mem_iff.mpr hc)
  · intro c hc; exact h.rfI c (hI.mem_iff.mpr hc)
  · intro c hc; exact h.rfQ c ((hQ c).mpr hc)
  · intro c hc; exact h.rfP c ((hP c).mpr hc)
  · intro c hc; exact hI.mem_iff.mp (h.pi c ((hP c).mpr hc))

/-- exemptions may be dropped for invocations that are not empty, and added freely -/
theorem TreeOK.reexempt (h : TreeOK X ns E I Q P) (X' : List (ScqId × List Nat))
    (hx : ∀ n ∈ ns, n.path ≠ [] → (n.scq, n.path) ∈ X → (n.scq, n.path) ∉ X' → n.isEmptyInv = false) :
    TreeOK X' ns E I Q P := by
  refine ⟨h.nd, h.pc, h.ex, h.exnd, h.id, h.qo, h.qk, h.pk, h.ik, ?_, h.rfE, h.rfI, h.rfQ, h.rfP, h.pi⟩
  intro n hn hp hx'
  by_cases hX : (n.scq, n.path) ∈ X
  · exact hx n hn hp hX hx'
  · exact h.ne n hn hp hX

/-- The invariant for a node list obtained by a key-preserving map: it suffices to check every clause
node by node against the new bags. -/
theorem TreeOK.of_map (h : TreeOK X ns E I Q P) (g : Node → Node) (hg : KeepsKey g)
    (X' : List (ScqId × List Nat)) (E' : List EC) (I' : List IC) (Q' : List QC) (P' : List PC)
    (hex : ∀ n ∈ ns, ∀ k, mget k (g n).exec = cntE n.scq n.path k E')
    (hexnd : ∀ n ∈ ns, ((g n).exec.map (·.1)).Nodup ∧ ∀ e ∈ (g n).exec, 0 < e.2)
    (hid : ∀ n ∈ ns, (g n).idle = cntI n.scq n.path I')
    (hqo : ∀ n ∈ ns, (g n).qops.Nodup ∧ ∀ o, o ∈ (g n).qops ↔ (n.scq, n.path, o) ∈ Q')
    (hqk : ∀ n ∈ ns, (g n).qkids.Nodup ∧ ∀ k, k ∈ (g n).qkids ↔ ∃ c ∈ Q', c.1 = n.scq ∧ (n.path ++ [k]) <+: c.2.1)
    (hpk : ∀ n ∈ ns, (g n).parked.Nodup ∧ ∀ w, w ∈ (g n).parked ↔ (n.scq, n.path, w) ∈ P')
    (hik : ∀ n ∈ ns, (g n).ikids.Nodup ∧ ∀ k, k ∈ (g n).ikids ↔ ∃ c ∈ P', c.1 = n.scq ∧ (n.path ++ [k]) <+: c.2.1)
    (hne : ∀ n ∈ ns, n.path ≠ [] → (n.scq, n.path) ∉ X' → (g n).isEmptyInv = false)
    (hrE : ∀ c ∈ E', (node? ns c.1 c.2.1).isSome = true)
    (hrI : ∀ c ∈ I', (node? ns c.1 c.2).isSome = true)
    (hrQ : ∀ c ∈ Q', (node? ns c.1 c.2.1).isSome = true)
    (hrP : ∀ c ∈ P', (node? ns c.1 c.2.1).isSome = true)
    (hpi : ∀ c ∈ P', (c.1, c.2.1) ∈ I') :
    TreeOK X' (ns.map g) E' I' Q' P' := by
  have hsome : ∀ q' p', (node? (ns.map g) q' p').isSome = (node? ns q' p').isSome := by
    intro q' p'; rw [node?_map hg]; simp
  refine ⟨?_, ?_, ?_, ?_, ?_, ?_, ?_, ?_, ?_, ?_, ?_, ?_, ?_, ?_, hpi⟩
  · show ((ns.map g).map nkey).Nodup
    rw [map_keys hg]; exact h.nd
  · intro m hm hp
    obtain ⟨n, hn', rfl⟩ := List.mem_map.mp hm
    rw [(hg n).2] at hp
    rw [(hg n).1, (hg n).2, hsome]; exact h.pc n hn' hp
  · intro m hm k'
    obtain ⟨n, hn', rfl⟩ := List.mem_map.mp hm
    rw [(hg n).1, (hg n).2]; exact hex n hn' k'
  · intro m hm
    obtain ⟨n, hn', rfl⟩ := List.mem_map.mp hm
    exact hexnd n hn'
  · intro m hm
    obtain ⟨n, hn', rfl⟩ := List.mem_map.mp hm
    rw [(hg n).1, (hg n).2]; exact hid n hn'
  · intro m hm
    obtain ⟨n, hn', rfl⟩ := List.mem_map.mp hm
    rw [(hg n).1, (hg n).2]; exact hqo n hn'
  · intro m hm
    obtain ⟨n, hn', rfl⟩ := List.mem_map.mp hm
    rw [(hg n).1, (hg n).2]; exact hqk n hn'
  · intro m hm
    obtain ⟨n, hn', rfl⟩ := List.mem_map.mp hm
    rw [(hg n).1, (hg n).2]; exact hpk n hn'
  · intro m hm
    obtain ⟨n, hn', rfl⟩ := List.mem_map.mp hm
    rw [(hg n).1, (hg n).2]; exact hik n hn'
  · intro m hm hp hx
    obtain ⟨n, hn', rfl⟩ := List.mem_map.mp hm
    rw [(hg n).2] at hp
    rw [(hg n).1, (hg n).2] at hx
    exact hne n hn' hp hx
  · intro c hc; rw [hsome]; exact hrE c hc
  · intro c hc; rw [hsome]; exact hrI c hc
  · intro c hc; rw [hsome]; exact hrQ c hc
  · intro c hc; rw [hsome]; exact hrP c hc

theorem node?_filter_of_keep {ns : List Node} {keep : Node → Bool} {q : ScqId} {p : List Nat} {n : Node}
    (h : node? ns q p = some n) (hk : keep n = true) : node? (ns.filter keep) q p = some n := by
  induction ns with
  | nil => cases h
  | cons a l ih =>
    unfold node? at h ih ⊢
    rw [List.find?_cons] at h
    rw [List.filter_cons]
    by_cases ha : a.isAt q p = true
    · rw [ha] at h; cases h
      rw [hk]; simp only [if_true]; rw [List.find?_cons, ha]
    · have ha' : a.isAt q p = false := by simpa using ha
      rw [ha'] at h
      by_cases hka : keep a = true
      · rw [hka]; simp only [if_true]; rw [List.find?_cons, ha']; exact ih h
      · have : keep a = false := by simpa using hka
        rw [this]; exact ih h

/-- The invariant after removing invocations (`removeIfEmpty`): the removed ones must be non-root and
empty, and every exempt invocation that is kept must not be empty (an empty invocation that stays
could lose its parent); afterwards nothing is exempt. -/
theorem TreeOK.of_filter (h : TreeOK X ns E I Q P) (keep : Node → Bool)
    (hrm : ∀ n ∈ ns, keep n = false → n.path ≠ [] ∧ n.isEmptyInv = true)
    (hkx : ∀ n ∈ ns, (n.scq, n.path) ∈ X → keep n = true → n.isEmptyInv = false) :
    TreeOK [] (ns.filter keep) E I Q P := by
  have hmem : ∀ n, n ∈ ns.filter keep → n ∈ ns := fun n hn => (List.mem_filter.mp hn).1
  -- a kept or removed node: what is recorded at or below a removed node is nothing
  have hkept : ∀ n ∈ ns, n.isEmptyInv = false → keep n = true := by
    intro n hn he
    cases hk : keep n with
    | true => rfl
    | false => have := (hrm n hn hk).2; rw [he] at this; cases this
  have hsome : ∀ q p, (node? ns q p).isSome = true → (∀ n, node? ns q p = some n → n.isEmptyInv = false) →
      (node? (ns.filter keep) q p).isSome = true := by
    intro q p hs hne
    cases hnq : node? ns q p with
    | none => rw [hnq] at hs; cases hs
    | some n =>
      have := node?_filter_of_keep hnq (hkept n (node?_some hnq).1 (hne n hnq))
      rw [this]; rfl
  refine ⟨?_, ?_, ?_, ?_, ?_, ?_, ?_, ?_, ?_, ?_, ?_, ?_, ?_, ?_, h.pi⟩
  · exact (List.filter_sublist.map _).nodup h.nd
  · intro m hm hp
    have hm' := hmem m hm
    have hpar := h.pc m hm' hp
    apply hsome _ _ hpar
    intro c hc
    -- the parent of a surviving non-exempt node is not empty
    obtain ⟨hc1, hc2, hc3⟩ := node?_some hc
    have hme : m.isEmptyInv = false := by
      by_cases hX : (m.scq, m.path) ∈ X
      · exact hkx m hm' hX (List.mem_filter.mp hm).2
      · exact h.ne m hm' hp hX
    rcases (h.not_empty_iff hm').mp hme with ⟨e, he, h1, h2⟩ | ⟨e, he, h1, h2⟩ | ⟨e, he, h1, h2⟩
    · exact (h.not_empty_iff hc1).mpr (Or.inl ⟨e, he, by rw [h1, hc2], by rw [hc3]; exact (List.dropLast_prefix _).trans h2⟩)
    · exact (h.not_empty_iff hc1).mpr (Or.inr (Or.inl ⟨e, he, by rw [h1, hc2], by rw [hc3]; exact (List.dropLast_prefix _).trans h2⟩))
    · exact (h.not_empty_iff hc1).mpr (Or.inr (Or.inr ⟨e, he, by rw [h1, hc2], by rw [hc3]; exact (List.dropLast_prefix _).trans h2⟩))
  · intro n hn k; exact h.ex n (hmem n hn) k
  · intro n hn; exact h.exnd n (hmem n hn)
  · intro n hn; exact h.id n (hmem n hn)
  · intro n hn; exact h.qo n (hmem n hn)
  · intro n hn; exact h.qk n (hmem n hn)
  · intro n hn; exact h.pk n (hmem n hn)
  · intro n hn; exact h.ik n (hmem n hn)
  · intro n hn hp _
    by_cases hX : (n.scq, n.path) ∈ X
    · exact hkx n (hmem n hn) hX (List.mem_filter.mp hn).2
    · exact h.ne n (hmem n hn) hp hX
  · intro c hc
    apply hsome _ _ (h.rfE c hc)
    intro n hn
    obtain ⟨h1, h2, h3⟩ := node?_some hn
    exact (h.not_empty_iff h1).mpr (Or.inl ⟨c, hc, h2.symm, by rw [h3]; exact List.prefix_refl _⟩)
  · intro c hc
    apply hsome _ _ (h.rfI c hc)
    intro n hn
    obtain ⟨h1, h2, h3⟩ := node?_some hn
    exact (h.not_empty_iff h1).mpr (Or.inr (Or.inl ⟨c, hc, h2.symm, by rw [h3]; exact List.prefix_refl _⟩))
  · intro c hc
    apply hsome _ _ (h.rfQ c hc)
    intro n hn
    obtain ⟨h1, h2, h3⟩ := node?_some hn
    exact (h.not_empty_iff h1).mpr (Or.inr (Or.inr ⟨c, hc, h2.symm, by rw [h3]; exact List.prefix_refl _⟩))
  · intro c hc
    apply hsome _ _ (h.rfP c hc)
    intro n hn
    obtain ⟨h1, h2, h3⟩ := node?_some hn
    exact (h.not_empty_iff h1).mpr (Or.inr (Or.inl ⟨(c.1, c.2.1), h.pi c hc, h2.symm, by rw [h3]; exact List.prefix_refl _⟩))

end BbRe.Lemmas.SchedTree
