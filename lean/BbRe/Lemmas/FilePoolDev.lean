import BbRe.Lemmas.FilePoolOps2
/-!
Device effects of the primitive calls and of the three write phases of
`writeToNewSectors`.
-/
namespace BbRe.Lemmas.FilePool
open BbRe.FilePool

theorem readHole_dev (e : Env) (h : Hole) (off n : Nat) : (e.readHole h off n).1.dev = e.dev := by
  unfold Env.readHole; split <;> rfl

theorem readHole_ok (e : Env) (h : Hole) (off n : Nat) (hok : (e.readHole h off n).2.2 = none) :
    (e.readHole h off n).2.1 = h.bytes off n := by
  unfold Env.readHole at hok ⊢
  split
  · rename_i nb short heq
    rw [heq] at hok
    dsimp only at hok ⊢
    split at hok
    · split at hok
      · rename_i hk; rw [hk]
      · simp at hok
    · simp at hok
  · rfl
  · rfl

theorem devRead_dev (e : Env) (off n : Nat) : (e.devRead off n).1.dev = e.dev := by
  unfold Env.devRead; split <;> rfl

theorem devRead_ok (e : Env) (off n : Nat) (hok : (e.devRead off n).2.2 = none) :
    (e.devRead off n).2.1 = readBytes e.dev off n := by
  unfold Env.devRead at hok ⊢
  split
  · rename_i nb short heq
    rw [heq] at hok
    dsimp only at hok ⊢
    split at hok
    · split at hok
      · rename_i hk; rw [hk]
      · simp at hok
    · simp at hok
  · rfl
  · rfl

theorem devWrite_ok (e : Env) (off : Nat) (p : List Byte) (hok : (e.devWrite off p).2 = none) :
    (e.devWrite off p).1.dev = writeBytes e.dev off p := by
  unfold Env.devWrite at hok ⊢
  split
  · rename_i heq; rw [heq] at hok; simp at hok
  · rfl
  · rfl

/-- a device write stores a prefix of the data; `some n` reports its length. -/
theorem devWrite_dev (e : Env) (off : Nat) (p : List Byte) :
    ∃ m, m ≤ p.length ∧ (e.devWrite off p).1.dev = writeBytes e.dev off (p.take m) ∧
      (∀ n, (e.devWrite off p).2 = some n → n = m) ∧ ((e.devWrite off p).2 = none → m = p.length) := by
  unfold Env.devWrite
  split
  · rename_i n heq
    refine ⟨min n p.length, Nat.min_le_right _ _, ?_, ?_, ?_⟩
    · dsimp only
      congr 1
      rw [List.take_eq_take_iff]
      simp
    · intro n' hn'; simp at hn'; exact hn'.symm
    · intro hn; simp at hn
  · exact ⟨p.length, Nat.le_refl _, by simp, by intro n hn; simp at hn, fun _ => rfl⟩
  · exact ⟨p.length, Nat.le_refl _, by simp, by intro n hn; simp at hn, fun _ => rfl⟩

theorem writeBytes_nil (dev : Array Byte) (off : Nat) : writeBytes dev off [] = dev := rfl

/-! ## the three phases -/

/-- first sector with leading padding, success. -/
theorem wnsPhase1_ok {c : Cfg} {h : Hole} {e e1 : Env} {p : List Byte} {sector idx ow : Nat} {cur : Cursor}
    (hr : wnsPhase1 c h e p sector idx ow = (e1, .ok cur)) (how : 0 < ow) :
    e1.dev = writeBytes e.dev ((sector - 1) * c.ss)
        (h.bytes (idx * c.ss) ow ++ p.take (min (c.ss - ow) p.length) ++
          (if ow + p.length < c.ss then h.bytes (idx * c.ss + (ow + p.length)) (c.ss - (ow + p.length)) else [])) ∧
      cur = (p.drop (min (c.ss - ow) p.length), sector + 1, idx + 1) := by
  unfold wnsPhase1 at hr
  rw [if_pos how] at hr
  dsimp only at hr
  have hd1 := readHole_dev e h (idx * c.ss) ow
  split at hr
  · simp at hr
  · rename_i hok1
    have hb1 := readHole_ok _ _ _ _ hok1
    by_cases hlt : ow + p.length < c.ss
    · simp only [hlt, ↓reduceIte] at hr ⊢
      split at hr
      · simp at hr
      · rename_i hok2
        split at hr
        · simp at hr
        · rename_i hok3
          simp only [Prod.mk.injEq, Except.ok.injEq] at hr
          obtain ⟨rfl, rfl⟩ := hr
          refine ⟨?_, rfl⟩
          rw [devWrite_ok _ _ _ hok3, hb1, readHole_dev, hd1, readHole_ok _ _ _ _ hok2]
    · simp only [hlt, ↓reduceIte] at hr ⊢
      split at hr
      · simp at hr
      · rename_i hok3
        simp only [Prod.mk.injEq, Except.ok.injEq] at hr
        obtain ⟨rfl, rfl⟩ := hr
        refine ⟨?_, rfl⟩
        rw [devWrite_ok _ _ _ hok3, hb1, hd1]

theorem wnsPhase1_ok0 {c : Cfg} {h : Hole} {e : Env} {p : List Byte} {sector idx : Nat} :
    wnsPhase1 c h e p sector idx 0 = (e, .ok (p, sector, idx)) := by
  unfold wnsPhase1; simp

/-- first sector, any outcome: at most one prefix of a one-sector buffer is stored in that sector. -/
theorem wnsPhase1_dev (c : Cfg) (h : Hole) (e : Env) (p : List Byte) (sector idx ow : Nat) (how : ow < c.ss) :
    ∃ q : List Byte, q.length ≤ c.ss ∧
      (wnsPhase1 c h e p sector idx ow).1.dev = writeBytes e.dev ((sector - 1) * c.ss) q := by
  unfold wnsPhase1
  dsimp only
  have hd1 := readHole_dev e h (idx * c.ss) ow
  split
  · split
    · exact ⟨[], Nat.zero_le _, hd1⟩
    · rename_i hok1
      have hb1 := readHole_ok _ _ _ _ hok1
      generalize hr2 : (if ow + p.length < c.ss then
          (e.readHole h (idx * c.ss) ow).1.readHole h (idx * c.ss + (ow + p.length)) (c.ss - (ow + p.length))
          else ((e.readHole h (idx * c.ss) ow).1, [], none)) = r2
      have hd2 : r2.1.dev = e.dev := by
        rw [← hr2]; split
        · rw [readHole_dev, hd1]
        · exact hd1
      split
      · exact ⟨[], Nat.zero_le _, hd2⟩
      · rename_i hok2
        have hl2 : r2.2.1.length = if ow + p.length < c.ss then c.ss - (ow + p.length) else 0 := by
          rw [← hr2] at hok2 ⊢
          split
          · rename_i hlt; rw [if_pos hlt] at hok2
            rw [readHole_ok _ _ _ _ hok2, holeBytes_length]
          · rfl
        obtain ⟨m, hm, hdev, _, _⟩ := devWrite_dev r2.1 ((sector - 1) * c.ss)
          ((e.readHole h (idx * c.ss) ow).2.1 ++ List.take (min (c.ss - ow) p.length) p ++ r2.2.1)
        have hlen : ((e.readHole h (idx * c.ss) ow).2.1 ++ List.take (min (c.ss - ow) p.length) p ++ r2.2.1).length
            ≤ c.ss := by
          rw [hb1]
          simp only [List.length_append, holeBytes_length, List.length_take, hl2]
          split <;> omega
        split
        · exact ⟨List.take m ((e.readHole h (idx * c.ss) ow).2.1 ++ List.take (min (c.ss - ow) p.length) p ++ r2.2.1),
            by rw [List.length_take]; omega, by rw [hdev, hd2]⟩
        · exact ⟨List.take m ((e.readHole h (idx * c.ss) ow).2.1 ++ List.take (min (c.ss - ow) p.length) p ++ r2.2.1),
            by rw [List.length_take]; omega, by rw [hdev, hd2]⟩
  · exact ⟨[], Nat.zero_le _, rfl⟩

theorem wnsPhase2_ok {c : Cfg} {e e2 : Env} {cur cur2 : Cursor}
    (hr : wnsPhase2 c e cur = (e2, .ok cur2)) :
    e2.dev = writeBytes e.dev ((cur.2.1 - 1) * c.ss) (cur.1.take (cur.1.length / c.ss * c.ss)) ∧
      cur2 = (cur.1.drop (cur.1.length / c.ss * c.ss), cur.2.1 + cur.1.length / c.ss,
        cur.2.2 + cur.1.length / c.ss) := by
  unfold wnsPhase2 at hr
  dsimp only at hr
  split at hr
  · split at hr
    · simp at hr
    · rename_i hok
      simp only [Prod.mk.injEq, Except.ok.injEq] at hr
      obtain ⟨rfl, rfl⟩ := hr
      exact ⟨devWrite_ok _ _ _ hok, rfl⟩
  · rename_i hfull
    simp only [Prod.mk.injEq, Except.ok.injEq] at hr
    obtain ⟨rfl, rfl⟩ := hr
    have : cur.1.length / c.ss = 0 := Nat.eq_zero_of_not_pos hfull
    rw [this]
    simp [writeBytes_nil]

theorem wnsPhase2_dev (c : Cfg) (e : Env) (cur : Cursor) :
    ∃ m, (wnsPhase2 c e cur).1.dev =
      writeBytes e.dev ((cur.2.1 - 1) * c.ss) ((cur.1.take (cur.1.length / c.ss * c.ss)).take m) := by
  unfold wnsPhase2
  dsimp only
  split
  · obtain ⟨m, _, hdev, _, _⟩ := devWrite_dev e ((cur.2.1 - 1) * c.ss) (cur.1.take (cur.1.length / c.ss * c.ss))
    split
    · exact ⟨m, hdev⟩
    · exact ⟨m, hdev⟩
  · exact ⟨0, by simp [writeBytes_nil]⟩

theorem wnsPhase3_ok {c : Cfg} {h : Hole} {e : Env} {cur : Cursor}
    (hr : (wnsPhase3 c h e cur).2 = none) :
    (wnsPhase3 c h e cur).1.dev =
      if cur.1.length > 0 then
        writeBytes e.dev ((cur.2.1 - 1) * c.ss)
          (cur.1 ++ h.bytes (cur.2.2 * c.ss + cur.1.length) (c.ss - cur.1.length))
      else e.dev := by
  unfold wnsPhase3 at hr ⊢
  dsimp only at hr ⊢
  split
  · rename_i hpos
    rw [if_pos hpos] at hr
    split
    · rename_i x hx; rw [hx] at hr; simp at hr
    · rename_i hok1
      rw [hok1] at hr
      dsimp only at hr
      split
      · rename_i n hn; rw [hn] at hr; simp at hr
      · rename_i hok2
        rw [devWrite_ok _ _ _ hok2, readHole_dev, readHole_ok _ _ _ _ hok1]
  · rfl

theorem wnsPhase3_dev (c : Cfg) (h : Hole) (e : Env) (cur : Cursor) (hl : cur.1.length < c.ss) :
    ∃ q : List Byte, q.length ≤ c.ss ∧ (cur.1.length = 0 → q = []) ∧
      (wnsPhase3 c h e cur).1.dev = writeBytes e.dev ((cur.2.1 - 1) * c.ss) q := by
  unfold wnsPhase3
  dsimp only
  split
  · rename_i hpos
    have hne : cur.1.length = 0 → False := by omega
    split
    · exact ⟨[], Nat.zero_le _, fun _ => rfl, readHole_dev _ _ _ _⟩
    · rename_i hok1
      obtain ⟨m, hm, hdev, _, _⟩ := devWrite_dev (e.readHole h (cur.2.2 * c.ss + cur.1.length) (c.ss - cur.1.length)).1
        ((cur.2.1 - 1) * c.ss) (cur.1 ++ (e.readHole h (cur.2.2 * c.ss + cur.1.length) (c.ss - cur.1.length)).2.1)
      have hlen : (cur.1 ++ (e.readHole h (cur.2.2 * c.ss + cur.1.length) (c.ss - cur.1.length)).2.1).length ≤ c.ss := by
        rw [readHole_ok _ _ _ _ hok1]; simp only [List.length_append, holeBytes_length]; omega
      split
      · exact ⟨List.take m (cur.1 ++ (e.readHole h (cur.2.2 * c.ss + cur.1.length) (c.ss - cur.1.length)).2.1),
          by rw [List.length_take]; omega, fun hz => (hne hz).elim, by rw [hdev, readHole_dev]⟩
      · exact ⟨List.take m (cur.1 ++ (e.readHole h (cur.2.2 * c.ss + cur.1.length) (c.ss - cur.1.length)).2.1),
          by rw [List.length_take]; omega, fun hz => (hne hz).elim, by rw [hdev, readHole_dev]⟩
  · exact ⟨[], Nat.zero_le _, fun _ => rfl, rfl⟩

end BbRe.Lemmas.FilePool
