import BbRe.Lemmas.ProtoStoreQInv
/-! Invariant of `Model/ProtoStore.lean` for the configuration that mirrors the tree. -/
namespace BbRe.Lemmas.ProtoStore
open BbRe.ProtoStore

/-- Invariant of the configuration that mirrors the tree (`repoConfig`); `ex` marks
handles that are in the middle of a lock-held section and may momentarily be
unreferenced. -/
structure GInvX (s : State) (ex : Nat → Prop) : Prop where
  g1 : ∀ h, s.idx h ≠ none → s.wg h = none ∧ s.written h ≠ s.current h
  g2 : ∀ h g, s.wg h = some g → s.written h ≠ s.current h ∧
          ∃ r w, lookupG s.gets g = some r ∧ w ∈ r.writes ∧ w.h = h
  g3 : ∀ g r w, lookupG s.gets g = some r → w ∈ r.writes →
          s.wg w.h = some g ∧ w.ver ≤ s.current w.h ∧ (w.ver = s.current w.h → w.msg = s.msg w.h) ∧
          w.msg ≤ s.latest (s.hdigest w.h) ∧ s.store (s.hdigest w.h) ≤ w.msg
  g3n : ∀ g r, lookupG s.gets g = some r → (r.writes.map (·.h)).Nodup
  g4 : ∀ h, s.map (s.hdigest h) ≠ some h → s.useCount h = 0 ∧ s.idx h = none ∧ s.wg h = none
  c : ∀ d h, s.map d = some h →
        s.hdigest h = d ∧ (ex h ∨ 0 < s.useCount h ∨ s.idx h ≠ none ∨ s.wg h ≠ none)
  v : ∀ h, s.written h ≤ s.current h
  d1 : ∀ d, s.store d ≤ s.latest d
  d2 : ∀ d, s.map d = none → s.store d = s.latest d
  d4 : ∀ d h, s.map d = some h → s.written h = s.current h → s.store d = s.latest d
  d5 : ∀ d h, s.map d = some h → s.written h ≠ s.current h → s.msg h = s.latest d
  d8 : ∀ d, s.latest d < s.nextUpd
  d9 : ∀ h, s.msg h < s.nextUpd
  d10 : ∀ g r, lookupG s.gets g = some r → r.readMsg < s.nextUpd
  e : ∀ g r h, lookupG s.gets g = some r → r.existing = some h → s.hdigest h = r.digest
  n : ∀ g r, lookupG s.gets g = some r → r.need ≠ 0 → ∃ h, r.existing = some h ∧ r.need ≤ s.msg h

/-- Reduce record projections and pointwise updates, then let `grind` finish. -/
macro "pst" : tactic =>
  `(tactic| ((try dsimp only at *); (try simp only [reduceCtorEq, if_true, if_false, upd_apply] at *); grind [upd]))

abbrev GInv (s : State) : Prop := GInvX s (fun _ => False)

theorem ginv_init : GInv init := by
  constructor <;> simp [init, lookupG]

theorem ginv_removeOrQueue (s : State) (h : Nat) (hg : GInvX s (· = h))
    (hm : s.map (s.hdigest h) = some h) : GInv (removeOrQueue repoConfig s h) := by
  unfold removeOrQueue
  have hcfg : repoConfig.writeGuard = true := rfl
  simp only [hcfg, true_and]
  split
  · rename_i hc
    obtain ⟨huc, hwg⟩ := hc
    have hwg : s.wg h = none := by simpa using hwg
    split
    · rename_i hcl
      have hidx : s.idx h = none := by
        apply Classical.byContradiction
        intro hi
        exact (hg.g1 h hi).2 hcl
      constructor
      · exact hg.g1
      · exact hg.g2
      · exact hg.g3
      · exact hg.g3n
      · intro x hx
        dsimp only at hx ⊢
        simp only [upd_apply] at hx
        by_cases hxh : x = h
        · subst hxh; exact ⟨huc, hidx, hwg⟩
        · split at hx
          · rename_i hd
            apply hg.g4
            rw [hd, hm]
            simpa using (fun e => hxh e.symm)
          · exact hg.g4 x hx
      · intro d x hx
        dsimp only at hx ⊢
        simp only [upd_apply] at hx
        split at hx
        · cases hx
        · rename_i hd
          have := hg.c d x hx
          refine ⟨this.1, ?_⟩
          rcases this.2 with h1 | h1
          · exfalso; subst h1; exact hd this.1.symm
          · right; exact h1
      · exact hg.v
      · exact hg.d1
      · intro d hd
        dsimp only at hd ⊢
        simp only [upd_apply] at hd
        split at hd
        · rename_i hdd; subst hdd; exact hg.d4 _ h hm hcl
        · exact hg.d2 d hd
      · intro d x hx
        dsimp only at hx ⊢
        simp only [upd_apply] at hx
        split at hx
        · cases hx
        · exact hg.d4 d x hx
      · intro d x hx
        dsimp only at hx ⊢
        simp only [upd_apply] at hx
        split at hx
        · cases hx
        · exact hg.d5 d x hx
      · exact hg.d8
      · exact hg.d9
      · exact hg.d10
      · exact hg.e
      · exact hg.n
    · rename_i hdirty
      split
      · rename_i hidx
        constructor
        · intro x hx
          dsimp only at hx ⊢
          simp only [upd_apply] at hx
          split at hx
          · rename_i hxh; subst hxh; exact ⟨hwg, hdirty⟩
          · exact hg.g1 x hx
        · exact hg.g2
        · exact hg.g3
        · exact hg.g3n
        · intro x hx
          dsimp only at hx ⊢
          have := hg.g4 x hx
          refine ⟨this.1, ?_, this.2.2⟩
          simp only [upd_apply]
          split
          · rename_i hxh; subst hxh; exact absurd hm hx
          · exact this.2.1
        · intro d x hx
          dsimp only at hx ⊢
          have := hg.c d x hx
          refine ⟨this.1, ?_⟩
          simp only [upd_apply]
          by_cases hxh : x = h
          · right; right; left; simp [hxh]
          · simp only [hxh, if_false]
            rcases this.2 with h1 | h1
            · exact absurd h1 hxh
            · right; exact h1
        · exact hg.v
        · exact hg.d1
        · exact hg.d2
        · exact hg.d4
        · exact hg.d5
        · exact hg.d8
        · exact hg.d9
        · exact hg.d10
        · exact hg.e
        · exact hg.n
      · rename_i hidx
        refine { hg with c := ?_ }
        intro d x hx
        have := hg.c d x hx
        refine ⟨this.1, ?_⟩
        rcases this.2 with h1 | h1
        · subst h1; right; right; left; exact hidx
        · right; exact h1
  · rename_i hc
    refine { hg with c := ?_ }
    intro d x hx
    have := hg.c d x hx
    refine ⟨this.1, ?_⟩
    rcases this.2 with h1 | h1
    · subst h1
      right
      by_cases hu : s.useCount x = 0
      · right; right
        intro hw
        exact hc ⟨hu, by simp [hw]⟩
      · left; omega
    · right; exact h1

theorem inMap_of_useCount_pos (s : State) (ex : Nat → Prop) (hg : GInvX s ex) (h : Nat)
    (hp : 0 < s.useCount h) : s.map (s.hdigest h) = some h := by
  apply Classical.byContradiction
  intro hn
  have := (hg.g4 h hn).1
  omega

theorem ginv_release (s : State) (h : Nat) (dirty : Bool) (hq : QInv s) (hg : GInv s) :
    GInv (release repoConfig s h dirty) := by
  unfold release
  split
  · exact hg
  · rename_i hheld
    have hpos : 0 < s.useCount h := by have := hq.acct h; omega
    have hm := inMap_of_useCount_pos s _ hg h hpos
    have hnq : s.idx h = none := by
      apply Classical.byContradiction
      intro hi
      have := hq.q2 h hi
      omega
    unfold decreaseUseCount
    dsimp only
    apply ginv_removeOrQueue
    case hm => exact hm
    have hleg : repoConfig.legacyVersioning = false := rfl
    simp only [hleg, Bool.false_eq_true, if_false]
    cases dirty
    · -- clean
      simp only [Bool.false_eq_true, if_false]
      constructor
      · exact hg.g1
      · exact hg.g2
      · exact hg.g3
      · exact hg.g3n
      · intro x hx
        have := hg.g4 x hx
        dsimp only at hx ⊢
        simp only [upd_apply]
        grind
      · intro d x hx
        have := hg.c d x hx
        dsimp only at hx ⊢
        simp only [upd_apply]
        grind
      · exact hg.v
      · exact hg.d1
      · exact hg.d2
      · exact hg.d4
      · exact hg.d5
      · exact hg.d8
      · exact hg.d9
      · exact hg.d10
      · exact hg.e
      · exact hg.n
    · simp only [if_true]
      have hv := hg.v h
      have hd8 := hg.d8
      constructor
      · intro x hx
        have := hg.g1 x hx
        dsimp only at hx ⊢
        simp only [upd_apply]
        grind
      · intro x g hx
        have := hg.g2 x g hx
        dsimp only at hx ⊢
        simp only [upd_apply]
        grind
      · intro g r w hl hw
        have := hg.g3 g r w hl hw
        have := hd8 (s.hdigest w.h)
        dsimp only at hl ⊢
        simp only [upd_apply]
        grind
      · exact hg.g3n
      · intro x hx
        have := hg.g4 x hx
        dsimp only at hx ⊢
        simp only [upd_apply]
        grind
      · intro d x hx
        have := hg.c d x hx
        dsimp only at hx ⊢
        simp only [upd_apply]
        grind
      · intro x
        have := hg.v x
        dsimp only
        simp only [upd_apply]
        grind
      · intro d
        have := hg.d1 d
        have := hd8 d
        dsimp only
        simp only [upd_apply]
        grind
      · intro d hd
        have := hg.d2 d hd
        dsimp only at hd ⊢
        simp only [upd_apply]
        grind
      · intro d x hx hcl
        have := hg.d4 d x hx
        have := hg.c d x hx
        have := hg.v x
        dsimp only at hx hcl ⊢
        simp only [upd_apply] at hcl ⊢
        grind
      · intro d x hx hcl
        have := hg.d5 d x hx
        have := hg.c d x hx
        dsimp only at hx hcl ⊢
        simp only [upd_apply] at hcl ⊢
        grind
      · intro d
        have := hd8 d
        dsimp only
        simp only [upd_apply]
        grind
      · intro x
        have := hg.d9 x
        pst
      · intro g' r hl
        have := hg.d10 g' r hl
        pst
      · exact hg.e
      · intro g' r hl hn
        obtain ⟨h0, he0, hn0⟩ := hg.n g' r hl hn
        have := hg.d9 h0
        refine ⟨h0, he0, ?_⟩
        pst
theorem ginv_readDone (s : State) (g : Nat) (ok : Bool) (hg : GInv s) : GInv (readDone s g ok) := by
  unfold readDone
  split
  · rename_i r hr
    split
    · dsimp only
      refine { hg with g2 := ?_, g3 := ?_, g3n := ?_, d10 := ?_, e := ?_, n := ?_ }
      rotate_left 3
      · intro g' r2 hl
        dsimp only at hl ⊢
        simp only [lookupG_setG] at hl
        split at hl
        · rename_i hgg; subst hgg; cases hl
          dsimp only
          have := hg.d10 g r hr
          have := hg.d1 r.digest
          have := hg.d8 r.digest
          cases ok <;> simp <;> omega
        · exact hg.d10 g' r2 hl
      · intro g' r2 h0 hl he
        dsimp only at hl ⊢
        simp only [lookupG_setG] at hl
        split at hl
        · rename_i hgg; subst hgg; cases hl
          exact hg.e g r h0 hr he
        · exact hg.e g' r2 h0 hl he
      · intro g' r2 hl hn
        dsimp only at hl ⊢
        simp only [lookupG_setG] at hl
        split at hl
        · rename_i hgg; subst hgg; cases hl
          exact hg.n g r hr hn
        · exact hg.n g' r2 hl hn
      · intro x g' hx
        obtain ⟨h1, r2, w2, h2, h3, h4⟩ := hg.g2 x g' hx
        refine ⟨h1, ?_⟩
        dsimp only
        simp only [lookupG_setG]
        by_cases hgg : g = g'
        · subst hgg
          rw [hr] at h2; cases h2
          exact ⟨_, w2, if_pos rfl, h3, h4⟩
        · exact ⟨r2, w2, by simp [hgg, h2], h3, h4⟩
      · intro g' r2 w2 hl hw
        dsimp only at hl ⊢
        simp only [lookupG_setG] at hl
        split at hl
        · rename_i hgg; subst hgg; cases hl
          exact hg.g3 g r w2 hr hw
        · exact hg.g3 g' r2 w2 hl hw
      · intro g' r2 hl
        dsimp only at hl
        simp only [lookupG_setG] at hl
        split at hl
        · rename_i hgg; subst hgg; cases hl
          exact hg.g3n g r hr
        · exact hg.g3n g' r2 hl
    · exact hg
  · exact hg

/-- Replacing the record of one in-flight Get by one with the same digest, handle,
message read and `need` leaves the record-level facts of the invariant intact. -/
theorem lookup_setG_same (gs : List (Nat × GetRec)) (g g' : Nat) (r r' r2 : GetRec)
    (hr : lookupG gs g = some r) (hl : lookupG (setG gs g r') g' = some r2)
    (h1 : r'.digest = r.digest) (h2 : r'.existing = r.existing) (h3 : r'.readMsg = r.readMsg)
    (h4 : r'.need = r.need) :
    ∃ r3, lookupG gs g' = some r3 ∧ r2.digest = r3.digest ∧ r2.existing = r3.existing ∧
      r2.readMsg = r3.readMsg ∧ r2.need = r3.need := by
  rw [lookupG_setG] at hl
  split at hl
  · rename_i hgg; subst hgg; cases hl
    exact ⟨r, hr, h1, h2, h3, h4⟩
  · exact ⟨r2, hl, rfl, rfl, rfl, rfl⟩

theorem recs_setG_same (s : State) (ex : Nat → Prop) (hg : GInvX s ex) (gs' : List (Nat × GetRec))
    (hsame : ∀ g' r2, lookupG gs' g' = some r2 → ∃ r3, lookupG s.gets g' = some r3 ∧
      r2.digest = r3.digest ∧ r2.existing = r3.existing ∧ r2.readMsg = r3.readMsg ∧ r2.need = r3.need) :
    (∀ g r, lookupG gs' g = some r → r.readMsg < s.nextUpd) ∧
    (∀ g r h, lookupG gs' g = some r → r.existing = some h → s.hdigest h = r.digest) ∧
    (∀ g r, lookupG gs' g = some r → r.need ≠ 0 → ∃ h, r.existing = some h ∧ r.need ≤ s.msg h) := by
  refine ⟨?_, ?_, ?_⟩
  · intro g r hl
    obtain ⟨r3, h0, h1, h2, h3, h4⟩ := hsame g r hl
    rw [h3]; exact hg.d10 g r3 h0
  · intro g r h hl he
    obtain ⟨r3, h0, h1, h2, h3, h4⟩ := hsame g r hl
    rw [h1]; rw [h2] at he; exact hg.e g r3 h h0 he
  · intro g r hl hn
    obtain ⟨r3, h0, h1, h2, h3, h4⟩ := hsame g r hl
    rw [h2, h4]; rw [h4] at hn; exact hg.n g r3 h0 hn

theorem nodup_map_filter (ws : List Write) (p : Write → Bool) (h : (ws.map (·.h)).Nodup) :
    ((ws.filter p).map (·.h)).Nodup :=
  List.Nodup.sublist (List.Sublist.map _ List.filter_sublist) h

theorem ginv_putDone (s : State) (g h : Nat) (o : PutOutcome) (hg : GInv s) :
    GInv (putDone repoConfig s g h o) := by
  unfold putDone
  split
  · rename_i r hr
    split
    · rename_i w hw
      obtain ⟨hmem, hwh⟩ := findWrite_some _ _ _ hw
      obtain ⟨hwg, hver, hvm, hml, hsm⟩ := hg.g3 g r w hr hmem
      rw [hwh] at hwg hver hvm hml hsm
      obtain ⟨hdirty, _⟩ := hg.g2 h g hwg
      have hm : s.map (s.hdigest h) = some h := by
        apply Classical.byContradiction
        intro hn
        have := (hg.g4 h hn).2.2
        rw [hwg] at this; cases this
      have hnq : s.idx h = none := by
        apply Classical.byContradiction
        intro hi
        have := (hg.g1 h hi).1
        rw [hwg] at this; cases this
      have hd5 := hg.d5 _ h hm hdirty
      dsimp only
      apply ginv_removeOrQueue
      case hm => exact hm
      constructor
      · intro x hx
        have := hg.g1 x hx
        cases o <;> pst
      · intro x g' hx
        dsimp only at hx ⊢
        simp only [upd_apply] at hx
        split at hx
        · cases hx
        · rename_i hxh
          obtain ⟨h1, r2, w2, h2, h3, h4⟩ := hg.g2 x g' hx
          refine ⟨by cases o <;> simp [upd_apply, hxh] <;> exact h1, ?_⟩
          simp only [lookupG_setG]
          by_cases hgg : g = g'
          · subst hgg
            rw [hr] at h2; cases h2
            refine ⟨_, w2, if_pos rfl, ?_, h4⟩
            dsimp only
            rw [List.mem_filter]
            refine ⟨h3, ?_⟩
            simp [h4, hxh]
          · exact ⟨r2, w2, by simp [hgg, h2], h3, h4⟩
      · intro g' r2 w2 hl hw2
        dsimp only at hl ⊢
        simp only [lookupG_setG] at hl
        have key : ∃ r3, lookupG s.gets g' = some r3 ∧ w2 ∈ r3.writes ∧ w2.h ≠ h := by
          split at hl
          · rename_i hgg; subst hgg; cases hl
            dsimp only at hw2
            rw [List.mem_filter] at hw2
            exact ⟨r, hr, hw2.1, by simpa using hw2.2⟩
          · rename_i hgg
            refine ⟨r2, hl, hw2, ?_⟩
            intro he
            have := (hg.g3 g' r2 w2 hl hw2).1
            rw [he, hwg] at this
            cases this
            exact hgg rfl
        obtain ⟨r3, hl3, hw3, hne⟩ := key
        obtain ⟨a1, a2, a3, a4, a5⟩ := hg.g3 g' r3 w2 hl3 hw3
        have hdne : s.hdigest w2.h ≠ s.hdigest h := by
          intro he
          have hm2 : s.map (s.hdigest w2.h) = some w2.h := by
            apply Classical.byContradiction
            intro hn
            have := (hg.g4 w2.h hn).2.2
            rw [a1] at this; cases this
          rw [he, hm] at hm2
          cases hm2
          exact hne rfl
        cases o <;> pst
      · intro g' r2 hl
        dsimp only at hl
        simp only [lookupG_setG] at hl
        split at hl
        · cases hl
          exact nodup_map_filter _ _ (hg.g3n g r hr)
        · exact hg.g3n g' r2 hl
      · intro x hx
        have := hg.g4 x hx
        dsimp only at hx ⊢
        simp only [upd_apply]
        grind
      · intro d x hx
        have := hg.c d x hx
        dsimp only at hx ⊢
        simp only [upd_apply]
        grind
      · intro x
        have := hg.v x
        cases o <;> pst
      · intro d
        have := hg.d1 d
        cases o <;> pst
      · intro d hd
        have := hg.d2 d hd
        cases o <;> pst
      · intro d x hx hcl
        have := hg.d4 d x hx
        have := hg.c d x hx
        cases o <;> pst
      · intro d x hx hcl
        have := hg.d5 d x hx
        have := hg.c d x hx
        cases o <;> pst
      · exact hg.d8
      · exact hg.d9
      all_goals
        have hrec := recs_setG_same s _ hg (setG s.gets g
          { r with writes := r.writes.filter (fun w' => w'.h != h), failed := r.failed || decide (o ≠ .ok) })
          (fun g' r2 hl => lookup_setG_same _ _ _ r _ _ hr hl rfl rfl rfl rfl)
      · exact hrec.1
      · exact hrec.2.1
      · exact hrec.2.2
    · exact hg
  · exact hg

theorem refs_pos_of_lookup (gs : List (Nat × GetRec)) (g : Nat) (r : GetRec) (h : Nat)
    (hl : lookupG gs g = some r) (he : r.existing = some h) : 0 < refs gs h := by
  have := refs_eraseG gs g h r hl
  simp [he] at this
  omega

theorem ginvx_eraseG (s : State) (ex : Nat → Prop) (g : Nat) (r : GetRec) (hg : GInvX s ex)
    (hk : KeysNodup s.gets) (hr : lookupG s.gets g = some r) (hw : r.writes = []) :
    GInvX { s with gets := eraseG s.gets g } ex := by
  have hrec := recs_setG_same s _ hg (eraseG s.gets g)
    (fun g' r2 hl => ⟨r2, (lookupG_eraseG _ _ _ _ hk hl).2, rfl, rfl, rfl, rfl⟩)
  refine { hg with g2 := ?_, g3 := ?_, g3n := ?_, d10 := hrec.1, e := hrec.2.1, n := hrec.2.2 }
  · intro x g' hx
    obtain ⟨h1, r2, w2, h2, h3, h4⟩ := hg.g2 x g' hx
    refine ⟨h1, r2, w2, ?_, h3, h4⟩
    dsimp only
    by_cases hgg : g = g'
    · subst hgg; rw [hr] at h2; cases h2; rw [hw] at h3; cases h3
    · rw [lookupG_eraseG_ne _ _ _ hgg]; exact h2
  · intro g' r2 w2 hl hw2
    exact hg.g3 g' r2 w2 (lookupG_eraseG _ _ _ _ hk hl).2 hw2
  · intro g' r2 hl
    exact hg.g3n g' r2 (lookupG_eraseG _ _ _ _ hk hl).2

theorem ginvx_of_eq (s s' : State) (ex : Nat → Prop) (hg : GInvX s ex)
    (h1 : s'.idx = s.idx) (h2 : s'.wg = s.wg) (h3 : s'.written = s.written) (h4 : s'.current = s.current)
    (h5 : s'.msg = s.msg) (h6 : s'.latest = s.latest) (h7 : s'.store = s.store)
    (h8 : s'.hdigest = s.hdigest) (h9 : s'.map = s.map) (h10 : s'.gets = s.gets)
    (h11 : s'.useCount = s.useCount) (h12 : s'.nextUpd = s.nextUpd) : GInvX s' ex := by
  constructor
  · rw [h1, h2, h3, h4]; exact hg.g1
  · rw [h2, h3, h4, h10]; exact hg.g2
  · rw [h2, h4, h5, h6, h7, h8, h10]; exact hg.g3
  · rw [h10]; exact hg.g3n
  · rw [h9, h8, h11, h1, h2]; exact hg.g4
  · rw [h9, h8, h11, h1, h2]; exact hg.c
  · rw [h3, h4]; exact hg.v
  · rw [h7, h6]; exact hg.d1
  · rw [h9, h7, h6]; exact hg.d2
  · rw [h9, h3, h4, h7, h6]; exact hg.d4
  · rw [h9, h3, h4, h5, h6]; exact hg.d5
  · rw [h6, h12]; exact hg.d8
  · rw [h5, h12]; exact hg.d9
  · rw [h10, h12]; exact hg.d10
  · rw [h10, h8]; exact hg.e
  · rw [h10, h5]; exact hg.n

/-- Effect of `increaseUseCount` on the invariant. -/
theorem ginv_increase (s : State) (e : Nat) (q' : List Nat) (idx' : Nat → Option Nat) (hg : GInv s)
    (hm : s.map (s.hdigest e) = some e) (hie : idx' e = none)
    (hix : ∀ x, x ≠ e → (idx' x ≠ none ↔ s.idx x ≠ none)) :
    GInv { s with useCount := upd s.useCount e (s.useCount e + 1), queue := q', idx := idx' } := by
  constructor
  · intro x hx
    dsimp only at hx ⊢
    have : x ≠ e := by intro he; subst he; exact hx hie
    exact hg.g1 x ((hix x this).1 hx)
  · exact hg.g2
  · exact hg.g3
  · exact hg.g3n
  · intro x hx
    dsimp only at hx ⊢
    have hne : x ≠ e := by intro he; subst he; exact hx hm
    have := hg.g4 x hx
    simp only [upd_apply, hne, if_false]
    refine ⟨this.1, ?_, this.2.2⟩
    apply Classical.byContradiction
    intro hc
    exact ((hix x hne).1 hc) this.2.1
  · intro d x hx
    dsimp only at hx ⊢
    have := hg.c d x hx
    refine ⟨this.1, ?_⟩
    simp only [upd_apply]
    by_cases hxe : x = e
    · subst hxe; right; left; simp
    · simp only [hxe, if_false]
      rcases this.2 with h1 | h1 | h1 | h1
      · exact absurd h1 id
      · right; left; exact h1
      · right; right; left; exact (hix x hxe).2 h1
      · right; right; right; exact h1
  · exact hg.v
  · exact hg.d1
  · exact hg.d2
  · exact hg.d4
  · exact hg.d5
  · exact hg.d8
  · exact hg.d9
  · exact hg.d10
  · exact hg.e
  · exact hg.n

theorem ginv_getEnd (s : State) (g : Nat) (hq : QInv s) (hg : GInv s) :
    GInv (getEnd repoConfig s g) := by
  unfold getEnd
  split
  · rename_i r hr
    split
    · exact hg
    · rename_i hpend
      have hw : r.writes = [] := by
        apply Classical.byContradiction
        intro hn
        exact hpend (Or.inr hn)
      have hg1 := ginvx_eraseG s _ g r hg hq.keys hr hw
      have hrefs := fun x => refs_eraseG s.gets g x r hr
      dsimp only
      split
      · split
        · rename_i h he
          have hpos : 0 < s.useCount h := by
            have := hrefs h; have := hq.acct h; simp [he] at *; omega
          have hm := inMap_of_useCount_pos s _ hg h hpos
          unfold decreaseUseCount
          apply ginv_removeOrQueue
          case hm => exact hm
          constructor
          · exact hg1.g1
          · exact hg1.g2
          · exact hg1.g3
          · exact hg1.g3n
          · intro x hx
            have := hg1.g4 x hx
            pst
          · intro d x hx
            have := hg1.c d x hx
            pst
          · exact hg1.v
          · exact hg1.d1
          · exact hg1.d2
          · exact hg1.d4
          · exact hg1.d5
          · exact hg1.d8
          · exact hg1.d9
          · exact hg1.d10
          · exact hg1.e
          · exact hg1.n
        · exact hg1
      · split
        · exact ginvx_of_eq _ _ _ hg1 rfl rfl rfl rfl rfl rfl rfl rfl rfl rfl rfl rfl
        · split
          · rename_i he e hm
            obtain ⟨q', idx', heq, hq1, hie, hix⟩ :=
              increaseUseCount_spec { s with gets := eraseG s.gets g } e hq.q1
            rw [heq]
            have hme : s.map (s.hdigest e) = some e := by
              have := (hg.c _ _ hm).1
              rw [this]; exact hm
            have := ginv_increase _ e q' idx' hg1 hme hie hix
            exact ginvx_of_eq _ _ _ this rfl rfl rfl rfl rfl rfl rfl rfl rfl rfl rfl rfl
          · rename_i he hm
            have hfr := hq.fresh s.nextH (Nat.le_refl _)
            have hnm : ∀ d, s.map d ≠ some s.nextH := by
              intro d hd
              have := hq.mapLt d _ hd
              omega
            have hwgn : s.wg s.nextH = none := (hg.g4 s.nextH (hnm _)).2.2
            constructor
            · intro x hx
              have := hg1.g1 x
              pst
            · intro x g' hx
              have := hg1.g2 x g'
              pst
            · intro g' r2 w2 hl hw2
              have := hg1.g3 g' r2 w2 hl hw2
              have hne : w2.h ≠ s.nextH := by
                intro he2
                rw [he2, hwgn] at this
                cases this.1
              pst
            · exact hg1.g3n
            · intro x hx
              have := hg1.g4 x
              have := hnm (s.hdigest x)
              pst
            · intro d x hx
              have := hg1.c d x
              have := hnm d
              pst
            · intro x
              have := hg1.v x
              pst
            · exact hg1.d1
            · intro d hd
              have := hg1.d2 d
              pst
            · intro d x hx hcl
              have := hg1.d4 d x
              have := hg1.d2 d
              have := hnm d
              pst
            · intro d x hx hcl
              have := hg1.d5 d x
              have := hnm d
              pst
            · exact hg1.d8
            · intro x
              have := hg1.d9 x
              have := hg.d10 g r hr
              pst
            · exact hg1.d10
            · intro g' r2 h0 hl he0
              have := hg1.e g' r2 h0 hl he0
              have hl0 := (lookupG_eraseG _ _ _ _ hq.keys hl).2
              have hne : h0 ≠ s.nextH := by
                intro hc
                have h1 := refs_pos_of_lookup s.gets g' r2 h0 hl0 he0
                have h2 := hq.acct h0
                rw [hc] at h1 h2
                omega
              pst
            · intro g' r2 hl hn
              obtain ⟨h0, he0, hn0⟩ := hg1.n g' r2 hl hn
              have hl0 := (lookupG_eraseG _ _ _ _ hq.keys hl).2
              have hne : h0 ≠ s.nextH := by
                intro hc
                have h1 := refs_pos_of_lookup s.gets g' r2 h0 hl0 he0
                have h2 := hq.acct h0
                rw [hc] at h1 h2
                omega
              refine ⟨h0, he0, ?_⟩
              pst
  · exact hg
theorem inMap_of_queued (s : State) (ex : Nat → Prop) (hg : GInvX s ex) (h : Nat)
    (hi : s.idx h ≠ none) : s.map (s.hdigest h) = some h := by
  apply Classical.byContradiction
  intro hn
  exact hi (hg.g4 h hn).2.1

theorem ginv_dequeueOne (s : State) (g : Nat) (hq : QInv s) (hg : GInv s) :
    GInv (dequeueOne s g) := by
  cases hl : s.queue.getLast? with
  | none => unfold dequeueOne; simp [hl]; exact hg
  | some h =>
    cases hr : lookupG s.gets g with
    | none => unfold dequeueOne; simp [hl, hr]; exact hg
    | some r =>
      rw [dequeueOne_eq s g h r hq.q1 hl hr]
      obtain ⟨hidx, _⟩ := q1_pop s.queue s.idx h hq.q1 hl
      have hqd : s.idx h ≠ none := by rw [hidx]; simp
      obtain ⟨hwgn, hdirty⟩ := hg.g1 h hqd
      have hm := inMap_of_queued s _ hg h hqd
      have hd5 := hg.d5 _ h hm hdirty
      have hd1 := hg.d1 (s.hdigest h)
      constructor
      · intro x hx
        have := hg.g1 x
        pst
      · intro x g' hx
        dsimp only at hx ⊢
        simp only [upd_apply] at hx
        simp only [lookupG_setG]
        by_cases hxh : x = h
        · subst hxh
          simp only [if_true, Option.some.injEq] at hx
          subst hx
          exact ⟨hdirty, _, ⟨x, s.msg x, s.current x⟩, if_pos rfl, by simp, rfl⟩
        · simp only [hxh, if_false] at hx
          obtain ⟨h1, r2, w2, h2, h3, h4⟩ := hg.g2 x g' hx
          refine ⟨h1, ?_⟩
          by_cases hgg : g = g'
          · subst hgg
            rw [hr] at h2; cases h2
            exact ⟨_, w2, if_pos rfl, by simp [h3], h4⟩
          · exact ⟨r2, w2, by simp [hgg, h2], h3, h4⟩
      · intro g' r2 w2 hl2 hw2
        dsimp only at hl2 ⊢
        simp only [lookupG_setG] at hl2
        have key : (w2 = ⟨h, s.msg h, s.current h⟩ ∧ g' = g) ∨
            (∃ r3, lookupG s.gets g' = some r3 ∧ w2 ∈ r3.writes) := by
          split at hl2
          · rename_i hgg; subst hgg; cases hl2
            dsimp only at hw2
            simp only [List.mem_append, List.mem_singleton] at hw2
            rcases hw2 with hw2 | hw2
            · exact Or.inr ⟨r, hr, hw2⟩
            · exact Or.inl ⟨hw2, rfl⟩
          · exact Or.inr ⟨r2, hl2, hw2⟩
        rcases key with ⟨hw, hgg⟩ | ⟨r3, hl3, hw3⟩
        · subst hw; subst hgg
          simp only [upd_apply, if_true]
          refine ⟨by simp, by simp, by simp, by omega, by omega⟩
        · obtain ⟨a1, a2, a3, a4, a5⟩ := hg.g3 g' r3 w2 hl3 hw3
          have hne : w2.h ≠ h := by
            intro he; rw [he, hwgn] at a1; cases a1
          simp only [upd_apply, hne, if_false]
          exact ⟨a1, a2, a3, a4, a5⟩
      · intro g' r2 hl2
        dsimp only at hl2
        simp only [lookupG_setG] at hl2
        split at hl2
        · rename_i hgg; subst hgg; cases hl2
          dsimp only
          rw [List.map_append, List.nodup_append]
          refine ⟨hg.g3n g r hr, by simp, ?_⟩
          intro a ha b hb
          simp only [List.map_cons, List.map_nil, List.mem_singleton] at hb
          subst hb
          intro hab
          subst hab
          rw [List.mem_map] at ha
          obtain ⟨w3, hw3, hw3h⟩ := ha
          have := (hg.g3 g r w3 hr hw3).1
          rw [hw3h, hwgn] at this
          cases this
        · exact hg.g3n g' r2 hl2
      · intro x hx
        have := hg.g4 x
        pst
      · intro d x hx
        have := hg.c d x
        pst
      · exact hg.v
      · exact hg.d1
      · exact hg.d2
      · exact hg.d4
      · exact hg.d5
      · exact hg.d8
      · exact hg.d9
      all_goals
        have hrec := recs_setG_same s _ hg (setG s.gets g
          { r with writes := r.writes ++ [⟨h, s.msg h, s.current h⟩] })
          (fun g' r2 hl => lookup_setG_same _ _ _ r _ _ hr hl rfl rfl rfl rfl)
      · exact hrec.1
      · exact hrec.2.1
      · exact hrec.2.2

theorem inv_dequeueN (s : State) (g n : Nat) (hq : QInv s) (hg : GInv s) :
    GInv (dequeueN s g n) := by
  induction n generalizing s with
  | zero => exact hg
  | succ n ih => exact ih _ (qinv_dequeueOne s g hq) (ginv_dequeueOne s g hq hg)

theorem ginvx_setG_new (s : State) (ex : Nat → Prop) (g : Nat) (r : GetRec) (hg : GInvX s ex)
    (hn : lookupG s.gets g = none) (hw : r.writes = [])
    (hd10 : r.readMsg < s.nextUpd) (he : ∀ h, r.existing = some h → s.hdigest h = r.digest)
    (hne : r.need ≠ 0 → ∃ h, r.existing = some h ∧ r.need ≤ s.msg h) :
    GInvX { s with gets := setG s.gets g r } ex := by
  refine { hg with g2 := ?_, g3 := ?_, g3n := ?_, d10 := ?_, e := ?_, n := ?_ }
  rotate_left 3
  · intro g' r2 hl
    dsimp only at hl ⊢
    rw [lookupG_setG] at hl
    split at hl
    · cases hl; exact hd10
    · exact hg.d10 g' r2 hl
  · intro g' r2 h0 hl he0
    dsimp only at hl ⊢
    rw [lookupG_setG] at hl
    split at hl
    · cases hl; exact he h0 he0
    · exact hg.e g' r2 h0 hl he0
  · intro g' r2 hl hn0
    dsimp only at hl ⊢
    rw [lookupG_setG] at hl
    split at hl
    · cases hl; exact hne hn0
    · exact hg.n g' r2 hl hn0
  · intro x g' hx
    obtain ⟨h1, r2, w2, h2, h3, h4⟩ := hg.g2 x g' hx
    refine ⟨h1, r2, w2, ?_, h3, h4⟩
    dsimp only
    rw [lookupG_setG]
    by_cases hgg : g = g'
    · subst hgg; rw [hn] at h2; cases h2
    · simp [hgg, h2]
  · intro g' r2 w2 hl hw2
    dsimp only at hl ⊢
    rw [lookupG_setG] at hl
    split at hl
    · cases hl; rw [hw] at hw2; cases hw2
    · exact hg.g3 g' r2 w2 hl hw2
  · intro g' r2 hl
    dsimp only at hl
    rw [lookupG_setG] at hl
    split at hl
    · cases hl; rw [hw]; simp
    · exact hg.g3n g' r2 hl

theorem ginv_getBeginMid (s : State) (g d : Nat) (hq : QInv s) (hg : GInv s)
    (hgn : lookupG s.gets g = none) : GInv (getBeginMid s g d) := by
  unfold getBeginMid
  have hpos : 0 < s.nextUpd := by have := hg.d8 0; omega
  have hneed : ∀ ex, ex = s.map d →
      (if s.store d = s.latest d then 0 else s.latest d) ≠ 0 →
      ∃ h, ex = some h ∧ (if s.store d = s.latest d then 0 else s.latest d) ≤ s.msg h := by
    intro ex hex hn
    split at hn
    · exact absurd rfl hn
    · rename_i hne
      simp only [hne, if_false]
      cases hm : s.map d with
      | none => exact absurd (hg.d2 d hm) hne
      | some h =>
        refine ⟨h, by rw [hex, hm], ?_⟩
        have := hg.d5 d h hm (fun hcl => hne (hg.d4 d h hm hcl))
        omega
  cases hm : s.map d with
  | none =>
    dsimp only
    refine ginvx_setG_new s _ g _ hg hgn rfl hpos (by intro h he; cases he) ?_
    intro hn
    obtain ⟨h, he, _⟩ := hneed none hm.symm hn
    cases he
  | some e =>
    dsimp only
    obtain ⟨q', idx', heq, hq1, hie, hix⟩ := increaseUseCount_spec s e hq.q1
    rw [heq]
    have hme : s.map (s.hdigest e) = some e := by
      have := (hg.c _ _ hm).1
      rw [this]; exact hm
    have h1 := ginv_increase s e q' idx' hg hme hie hix
    refine ginvx_setG_new _ _ g _ h1 hgn rfl hpos ?_ ?_
    · intro h he
      cases he
      exact (hg.c _ _ hm).1
    · intro hn
      exact hneed (some e) hm.symm hn

theorem ginv_getBegin (s : State) (g d : Nat) (hq : QInv s) (hg : GInv s) :
    GInv (getBegin s g d) := by
  cases hgn : lookupG s.gets g with
  | some r => unfold getBegin; simp [hgn]; exact hg
  | none =>
    rw [getBegin_eq s g d hgn]
    exact inv_dequeueN _ g _ (qinv_getBeginMid s g d hq hgn) (ginv_getBeginMid s g d hq hg hgn)

theorem ginv_step (s : State) (op : Op) (hq : QInv s) (hg : GInv s) : GInv (step repoConfig s op) := by
  cases op with
  | getBegin g d => exact ginv_getBegin s g d hq hg
  | readDone g ok => exact ginv_readDone s g ok hg
  | putDone g h o => exact ginv_putDone s g h o hg
  | getEnd g => exact ginv_getEnd s g hq hg
  | release h dirty => exact ginv_release s h dirty hq hg

theorem ginv_run (ops : List Op) : GInv (run repoConfig ops) := by
  unfold run
  suffices h : ∀ s, QInv s → GInv s → GInv (ops.foldl (step repoConfig) s) from h _ qinv_init ginv_init
  induction ops with
  | nil => intro s _ hs; exact hs
  | cons op rest ih =>
    intro s hq hs
    exact ih _ (qinv_step repoConfig s op hq) (ginv_step s op hq hs)

end BbRe.Lemmas.ProtoStore
