import BbRe.Lemmas.FilePoolSeek3
/-!
`ReadAt` under arbitrary read faults: whatever is returned is a prefix of the
file's contents from the offset (and without an error it is everything).
-/
namespace BbRe.Lemmas.FilePool
open BbRe.FilePool

theorem readHole_gen (e : Env) (h : Hole) (off n : Nat) :
    ∃ k, k ≤ n ∧ (e.readHole h off n).2.1 = h.bytes off k ∧ ((e.readHole h off n).2.2 = none → k = n) := by
  unfold Env.readHole
  split
  · rename_i nb short heq
    refine ⟨min nb n, Nat.min_le_right _ _, rfl, fun hn => ?_⟩
    dsimp only at hn
    split at hn
    · split at hn
      · rename_i hk; exact hk
      · simp at hn
    · simp at hn
  · exact ⟨n, Nat.le_refl _, rfl, fun _ => rfl⟩
  · exact ⟨n, Nat.le_refl _, rfl, fun _ => rfl⟩

theorem devRead_gen (e : Env) (off n : Nat) :
    ∃ k, k ≤ n ∧ (e.devRead off n).2.1 = readBytes e.dev off k ∧ ((e.devRead off n).2.2 = none → k = n) := by
  unfold Env.devRead
  split
  · rename_i nb short heq
    refine ⟨min nb n, Nat.min_le_right _ _, rfl, fun hn => ?_⟩
    dsimp only at hn
    split at hn
    · split at hn
      · rename_i hk; exact hk
      · simp at hn
    · simp at hn
  · exact ⟨n, Nat.le_refl _, rfl, fun _ => rfl⟩
  · exact ⟨n, Nat.le_refl _, rfl, fun _ => rfl⟩

/-- one chunk under arbitrary faults. -/
theorem readFromSectors_gen {c : Cfg} {f : File} {e : Env} (n idx endIdx ow : Nat)
    (hss : 0 < c.ss) (how : ow < c.ss) (hn : 0 < n) :
    (readFromSectors c f e n idx endIdx ow).2.1.length ≤ n ∧
      (∀ j, j < (readFromSectors c f e n idx endIdx ow).2.1.length →
        (readFromSectors c f e n idx endIdx ow).2.1.getD j 0 = content c.ss e.dev f (idx * c.ss + ow + j)) ∧
      ((readFromSectors c f e n idx endIdx ow).2.2 = none →
        0 < (readFromSectors c f e n idx endIdx ow).2.1.length ∧
        ((readFromSectors c f e n idx endIdx ow).2.1.length < n →
          (ow + (readFromSectors c f e n idx endIdx ow).2.1.length) % c.ss = 0)) := by
  unfold readFromSectors
  split
  · rename_i hidx
    obtain ⟨k, hk, hb, hnone⟩ := readHole_gen e f.hole (idx * c.ss + ow) n
    rw [hb, holeBytes_length]
    refine ⟨hk, fun j hj => ?_, fun h => ?_⟩
    · rw [holeBytes_getD _ _ _ _ hj]
      unfold content
      rw [if_pos]
      have : idx ≤ (idx * c.ss + ow + j) / c.ss := by
        rw [Nat.le_div_iff_mul_le hss]; omega
      simp [List.getD_eq_getElem?_getD, List.getElem?_eq_none (show f.sectors.length ≤ (idx * c.ss + ow + j) / c.ss by omega)]
    · have := hnone h; subst this
      exact ⟨hn, fun h => absurd h (Nat.lt_irrefl _)⟩
  · rename_i hidx
    have hidx' : idx < f.sectors.length := by omega
    obtain ⟨hc1, hc2, hc3, hc4, hc5⟩ := contig_spec f.sectors idx endIdx hidx'
    dsimp only
    have hcs : c.ss ≤ (contig f.sectors idx endIdx).2 * c.ss := Nat.le_mul_of_pos_left c.ss hc2
    have hbd : min n ((contig f.sectors idx endIdx).2 * c.ss - ow) < n →
        (ow + min n ((contig f.sectors idx endIdx).2 * c.ss - ow)) % c.ss = 0 := by
      intro hlt
      rw [Nat.min_eq_right (by omega), show ow + ((contig f.sectors idx endIdx).2 * c.ss - ow) =
        (contig f.sectors idx endIdx).2 * c.ss by omega]
      exact Nat.mul_mod_left _ _
    have hq : ∀ j, j < min n ((contig f.sectors idx endIdx).2 * c.ss - ow) →
        idx ≤ (idx * c.ss + ow + j) / c.ss ∧ (idx * c.ss + ow + j) / c.ss < idx + (contig f.sectors idx endIdx).2 := by
      intro j hj
      exact range_div (ss := c.ss) (idx := idx) (ow := ow) (i := idx * c.ss + ow + j) (m := j + 1)
        (cnt := (contig f.sectors idx endIdx).2) (by omega) (by omega) (by omega)
    split
    · rename_i hz
      obtain ⟨k, hk, hb, hnone⟩ := readHole_gen e f.hole (idx * c.ss + ow) (min n ((contig f.sectors idx endIdx).2 * c.ss - ow))
      rw [hb, holeBytes_length]
      refine ⟨by omega, fun j hj => ?_, fun h => ?_⟩
      · rw [holeBytes_getD _ _ _ _ hj]
        unfold content
        rw [if_pos]
        have := hq j (by omega)
        have h5 := hc5 ((idx * c.ss + ow + j) / c.ss - idx) (by omega)
        rw [show idx + ((idx * c.ss + ow + j) / c.ss - idx) = (idx * c.ss + ow + j) / c.ss by omega, if_pos hz] at h5
        exact h5
      · have := hnone h; subst this
        exact ⟨by omega, hbd⟩
    · rename_i hnz
      obtain ⟨k, hk, hb, hnone⟩ := devRead_gen e (((contig f.sectors idx endIdx).1 - 1) * c.ss + ow)
        (min n ((contig f.sectors idx endIdx).2 * c.ss - ow))
      rw [hb, readBytes_length]
      refine ⟨by omega, fun j hj => ?_, fun h => ?_⟩
      · rw [readBytes_getD _ _ _ _ hj]
        have := hq j (by omega)
        obtain ⟨d, hd⟩ : ∃ d, (idx * c.ss + ow + j) / c.ss = idx + d := ⟨(idx * c.ss + ow + j) / c.ss - idx, by omega⟩
        have h5 := hc5 d (by omega)
        rw [if_neg hnz] at h5
        have hi := div_mul_mod (idx * c.ss + ow + j) c.ss
        rw [hd, Nat.add_mul] at hi
        unfold content
        rw [hd, h5, if_neg (by omega)]
        congr 1
        obtain ⟨t0, ht0⟩ : ∃ t0, (contig f.sectors idx endIdx).1 = t0 + 1 :=
          ⟨(contig f.sectors idx endIdx).1 - 1, by omega⟩
        rw [ht0, show t0 + 1 + d - 1 = t0 + d by omega, Nat.add_sub_cancel, Nat.add_mul]
        omega
      · have := hnone h; subst this
        exact ⟨by omega, hbd⟩

theorem readLoop_gen {c : Cfg} {f : File} (hss : 0 < c.ss) : ∀ (fuel : Nat) (e : Env) (n idx endIdx ow : Nat),
    ow < c.ss → 0 < n → n < fuel →
    (readLoop c f fuel e n idx endIdx ow).2.1.length ≤ n ∧
      (∀ j, j < (readLoop c f fuel e n idx endIdx ow).2.1.length →
        (readLoop c f fuel e n idx endIdx ow).2.1.getD j 0 = content c.ss e.dev f (idx * c.ss + ow + j)) ∧
      (readLoop c f fuel e n idx endIdx ow).2.2 ≠ some .panic := by
  intro fuel
  induction fuel with
  | zero => intro e n idx endIdx ow _ _ h; omega
  | succ fuel ih =>
    intro e n idx endIdx ow how hn hfu
    obtain ⟨h1, h2, h3⟩ := readFromSectors_gen (c := c) (f := f) (e := e) n idx endIdx ow hss how hn
    have hdev := readFromSectors_dev c f e n idx endIdx ow
    have hnp : ∀ x, (readFromSectors c f e n idx endIdx ow).2.2 = some x → x ≠ .panic := by
      intro x hx
      unfold readFromSectors at hx
      split at hx
      · rcases readHole_err _ _ _ _ _ hx with h | h <;> simp [h]
      · dsimp only at hx
        split at hx
        · rcases readHole_err _ _ _ _ _ hx with h | h <;> simp [h]
        · unfold Env.devRead at hx
          split at hx
          · dsimp only at hx
            split at hx
            · split at hx <;> simp at hx; simp [← hx]
            · simp at hx; simp [← hx]
          · simp at hx
          · simp at hx
    unfold readLoop
    dsimp only
    generalize readFromSectors c f e n idx endIdx ow = r at h1 h2 h3 hdev hnp ⊢
    split
    · rename_i x hx
      exact ⟨h1, h2, by simpa using hnp x hx⟩
    · rename_i hnone
      obtain ⟨h4, h5⟩ := h3 hnone
      split
      · exact ⟨h1, h2, by simp⟩
      · rename_i hz
        have hlt : r.2.1.length < n := by omega
        rw [if_neg (by rw [h5 hlt]; simp)]
        have hpos : (idx + (ow + r.2.1.length) / c.ss) * c.ss + 0 = idx * c.ss + ow + r.2.1.length := by
          have := div_mul_mod (ow + r.2.1.length) c.ss
          rw [h5 hlt] at this
          rw [Nat.add_mul]; omega
        obtain ⟨i1, i2, i3⟩ := ih r.1 (n - r.2.1.length) (idx + (ow + r.2.1.length) / c.ss) endIdx 0 hss
          (by omega) (by omega)
        dsimp only
        refine ⟨by rw [List.length_append]; omega, fun j hj => ?_, i3⟩
        rw [List.length_append] at hj
        by_cases hj1 : j < r.2.1.length
        · rw [getD_append_lt _ _ _ hj1]; exact h2 j hj1
        · rw [getD_append_ge _ _ _ (by omega), i2 _ (by omega), hpos, hdev]
          congr 1; omega

theorem prefix_of_getD (a b : List Nat) (hl : a.length ≤ b.length)
    (h : ∀ j, j < a.length → a.getD j 0 = b.getD j 0) : a <+: b := by
  have : a = b.take a.length := by
    apply list_eq_of_getD
    · rw [List.length_take]; omega
    · intro j hj
      rw [h j hj]
      simp only [List.getD_eq_getElem?_getD, List.getElem?_take, hj, ↓reduceIte]
  rw [this]
  exact List.take_prefix _ _

/-- **`ReadAt` under any read faults** returns a prefix of what the byte-array read returns, and never panics. -/
theorem readAt_prefix {c : Cfg} {f : File} {e : Env} (o n : Nat) (hss : 0 < c.ss) :
    (readAt c f e o n).2.1 <+: (ByteFile.read (absFile c.ss e.dev f) o n).1 ∧
      (readAt c f e o n).2.2 ≠ some .panic := by
  rw [byteRead_fst]
  have hsz : (absFile c.ss e.dev f).size = f.size := rfl
  rw [hsz]
  by_cases htriv : n = 0 ∨ f.size ≤ o
  · rw [if_pos htriv, readAt_trivial o n htriv]
    exact ⟨List.prefix_refl _, by dsimp only; split <;> simp⟩
  · rw [if_neg htriv]
    unfold readAt
    rw [if_neg (by omega), if_neg (by omega)]
    dsimp only
    rw [Int.toNat_natCast, if_neg (by omega)]
    have hn' : 0 < (if o + n ≥ f.size then f.size - o else n) := by split <;> omega
    obtain ⟨l1, l2, l3⟩ := readLoop_gen (c := c) (f := f) hss
      ((if o + n ≥ f.size then f.size - o else n) + 1) e (if o + n ≥ f.size then f.size - o else n) (o / c.ss)
      (min ((o + (if o + n ≥ f.size then f.size - o else n) + c.ss - 1) / c.ss) f.sectors.length) (o % c.ss)
      (Nat.mod_lt _ hss) hn' (Nat.lt_succ_self _)
    rw [div_mul_mod] at l2
    have hmin : (if o + n ≥ f.size then f.size - o else n) = min n (f.size - o) := by split <;> omega
    constructor
    · dsimp only
      apply prefix_of_getD
      · simp only [List.length_map, List.length_range]; rw [← hmin]; exact l1
      · intro j hj
        rw [l2 j hj, List.getD_eq_getElem?_getD, List.getElem?_map, List.getElem?_range (by rw [← hmin]; omega)]
        rfl
    · dsimp only
      split
      · rename_i x hx; rw [hx] at l3; exact l3
      · split <;> simp

end BbRe.Lemmas.FilePool
