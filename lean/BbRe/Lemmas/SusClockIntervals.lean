import BbRe.Lemmas.SusClockLoop
/-!
Helper lemmas for C11, part 3: suspension intervals. A set of storage reads
`[s_i, r_i)` produces the calls `Suspend@s_i`, `Resume@r_i`; whatever sorted,
balanced interleaving of those calls the clock sees, the covering depth of a
unit interval is the number of reads that contain it.
-/
namespace BbRe.Lemmas.SusClock
open BbRe.SusClock

/-- The calls made by a list of reads (in no particular order). -/
def eventsOf : List (Nat × Nat) → List Ev
  | [] => []
  | iv :: rest => .suspend iv.1 :: .resume iv.2 :: eventsOf rest

/-- Does the read `iv = [s, r)` cover the unit interval `[τ, τ+1)`? -/
def covers (τ : Nat) (iv : Nat × Nat) : Bool := decide (iv.1 ≤ τ) && decide (τ < iv.2)

/-- Is `[τ, τ+1)` outside every read? -/
def freeOf (ivs : List (Nat × Nat)) (τ : Nat) : Bool := ivs.all (fun iv => !covers τ iv)

theorem cntS_cons_suspend (t τ : Nat) (rest : List Ev) :
    cntS (.suspend t :: rest) τ = cntS rest τ + if t ≤ τ then 1 else 0 := by
  by_cases h : t ≤ τ <;> simp [cntS, Ev.isSuspend, Ev.time, h]

theorem cntS_cons_resume (t τ : Nat) (rest : List Ev) : cntS (.resume t :: rest) τ = cntS rest τ := by
  simp [cntS, Ev.isSuspend]

theorem cntR_cons_suspend (t τ : Nat) (rest : List Ev) : cntR (.suspend t :: rest) τ = cntR rest τ := by
  simp [cntR, Ev.isSuspend]

theorem cntR_cons_resume (t τ : Nat) (rest : List Ev) :
    cntR (.resume t :: rest) τ = cntR rest τ + if t ≤ τ then 1 else 0 := by
  by_cases h : t ≤ τ <;> simp [cntR, Ev.isSuspend, Ev.time, h]

theorem cnt_eventsOf (τ : Nat) : ∀ (ivs : List (Nat × Nat)), (∀ iv ∈ ivs, iv.1 ≤ iv.2) →
    cntR (eventsOf ivs) τ ≤ cntS (eventsOf ivs) τ ∧
    cntS (eventsOf ivs) τ - cntR (eventsOf ivs) τ = ivs.countP (covers τ)
  | [], _ => by simp [eventsOf, cntS, cntR]
  | iv :: rest, h => by
    have ih := cnt_eventsOf τ rest (fun iv' hm => h iv' (List.mem_cons_of_mem _ hm))
    have hiv := h iv (List.mem_cons_self ..)
    simp only [eventsOf, cntS_cons_suspend, cntS_cons_resume, cntR_cons_suspend, cntR_cons_resume,
      List.countP_cons, covers, Bool.and_eq_true, decide_eq_true_eq]
    by_cases h1 : iv.1 ≤ τ <;> by_cases h2 : iv.2 ≤ τ <;> by_cases h3 : τ < iv.2 <;>
      simp only [h1, h2, h3, if_true, if_false, and_self, and_true, and_false] <;> omega

theorem depthAt_perm {tl tl' : List Ev} (hp : tl.Perm tl') (τ : Nat) : depthAt tl τ = depthAt tl' τ := by
  simp only [depthAt, depthFrom, cntS, cntR, hp.countP_eq]

theorem depthAt_eventsOf {ivs : List (Nat × Nat)} (hiv : ∀ iv ∈ ivs, iv.1 ≤ iv.2) {tl : List Ev}
    (hp : tl.Perm (eventsOf ivs)) (τ : Nat) : depthAt tl τ = ivs.countP (covers τ) := by
  rw [depthAt_perm hp]
  have := (cnt_eventsOf τ ivs hiv).2
  simpa [depthAt, depthFrom] using this

theorem depthAt_zero_iff {ivs : List (Nat × Nat)} (hiv : ∀ iv ∈ ivs, iv.1 ≤ iv.2) {tl : List Ev}
    (hp : tl.Perm (eventsOf ivs)) (τ : Nat) : depthAt tl τ = 0 ↔ freeOf ivs τ = true := by
  rw [depthAt_eventsOf hiv hp, List.countP_eq_zero]
  simp [freeOf]

theorem countFree_eq_filter (f : Nat → Nat) (g : Nat → Bool) :
    ∀ t, (∀ τ, τ < t → (f τ = 0 ↔ g τ = true)) → countFree f 0 t = ((List.range t).filter g).length
  | 0, _ => by simp [countFree]
  | t + 1, h => by
    have ih := countFree_eq_filter f g t (fun τ hτ => h τ (by omega))
    simp only [countFree, List.range_succ, List.filter_append, List.length_append, ih, Nat.zero_add]
    have := h t (by omega)
    by_cases hg : g t = true
    · simp [hg, this.2 hg]
    · have hf : f t ≠ 0 := fun hf => hg (this.1 hf)
      simp [hg, hf]

/-! ### `fireL` / `fire` -/

theorem fireL_ok {P : Params} {g : Nat} {tl : List Ev} {cn : Option Cancel} {t0 d dlLate : Nat} {dlPre : Bool}
    {dv : List Delivery} {r : Result}
    (hs : Sorted tl) (hb : Balanced tl) (hcn : ∀ c, cn = some c → t0 ≤ c.t)
    (h : fireL P g tl cn t0 d dlLate dlPre dv = .done r) :
    LoopOk P g tl cn t0 (unsuspTo tl t0 + d) (t0 + d + P.maxSusp + dlLate) t0 r := by
  unfold fireL at h
  simp only [clockAt_total hs hb] at h
  exact loop_spec P g tl cn t0 _ _ dlPre hs hb hcn _ t0 d t0 dv r (Nat.le_refl _) (by omega) (Nat.le_refl _)
    (by omega) (Nat.le_refl _) (by omega) h

theorem unsuspended_eq (tl : List Ev) {a b : Nat} (h : a ≤ b) :
    unsuspended tl a b = unsuspTo tl b - unsuspTo tl a := by
  have := unsuspTo_eq_add tl h
  omega

theorem unsuspended_self (tl : List Ev) (a : Nat) : unsuspended tl a a = 0 := by
  simp [unsuspended, countFree]

/-- A prompt run (`fire`) always completes. -/
theorem fire_done (P : Params) (tl : List Ev) (cn : Option Cancel) (t0 d : Nat) (hthr : 1 ≤ P.thr) :
    ∃ r, fire P tl cn t0 d = .done r := by
  have h1 : fire P tl cn t0 d ≠ .outOfFuel := by
    unfold fire fireL fuelFor
    exact loop_total P 0 tl cn _ _ _ _ hthr _ _ _ _ _ (by omega) (by omega)
  have h2 : fire P tl cn t0 d ≠ .badOracle := by
    unfold fire fireL
    exact loop_nil_ok P 0 tl cn _ _ _ _ _ _ _ _
  cases h : fire P tl cn t0 d with
  | done r => exact ⟨r, rfl⟩
  | badOracle => exact absurd h h2
  | outOfFuel => exact absurd h h1

/-- In a prompt run nothing is handled late: the stamp is the instant and the previous gap is empty. -/
theorem fire_prompt {P : Params} {tl : List Ev} {cn : Option Cancel} {t0 d : Nat} {r : Result}
    (hs : Sorted tl) (hb : Balanced tl) (hcn : ∀ c, cn = some c → t0 ≤ c.t)
    (h : fire P tl cn t0 d = .done r) :
    LoopOk P 0 tl cn t0 (unsuspTo tl t0 + d) (t0 + d + P.maxSusp) t0 r ∧ r.stamp = r.instant ∧
      unsuspended tl r.pStamp r.pAt = 0 := by
  have ok := fireL_ok hs hb hcn h
  have h1 : r.stamp = r.instant := by have := ok.late; have := ok.stampLe; omega
  have h2 : r.pAt = r.pStamp := by have := ok.prevLate; have := ok.prevLe; omega
  exact ⟨by simpa using ok, h1, by rw [h2]; exact unsuspended_self tl _⟩

end BbRe.Lemmas.SusClock
