import BbRe.Lemmas.SchedLiveMono3
/-!
Provenance of stored responses (C02 `faithful`): a response that appears in a
task during a segment was passed to `complete` in that segment; the scheduler's
own completions carry one of the scheduler causes, and a worker-supplied
response is stored only by the `Synchronize(Completed)` path whose digest matched
the worker's current task.
-/
namespace BbRe.Lemmas.SchedLive
open BbRe.Sched

/-- every response present after was present before under the same key, or satisfies `P key response` -/
def RespFrom (P : Nat → Resp → Prop) (s s' : State) : Prop :=
  ∀ k t' r, s'.task? k = some t' → t'.response = some r →
    (∃ t, s.task? k = some t ∧ t.response = some r) ∨ P k r

/-- `RespFrom` for key-disciplined states, carrying the key discipline along -/
def RT (P : Nat → Resp → Prop) (s s' : State) : Prop := KeysOK s → KeysOK s' ∧ RespFrom P s s'

theorem RT.refl (P : Nat → Resp → Prop) (s : State) : RT P s s :=
  fun hk => ⟨hk, fun _ t' _ h1 h2 => .inl ⟨t', h1, h2⟩⟩

theorem RT.trans {P : Nat → Resp → Prop} {a b c : State} (h1 : RT P a b) (h2 : RT P b c) : RT P a c := by
  intro hk
  obtain ⟨kb, r1⟩ := h1 hk
  obtain ⟨kc, r2⟩ := h2 kb
  refine ⟨kc, ?_⟩
  intro k t' r e1 e2
  rcases r2 k t' r e1 e2 with ⟨t, e3, e4⟩ | h
  · exact r1 k t r e3 e4
  · exact .inr h

theorem RT.mono {P Q : Nat → Resp → Prop} (hpq : ∀ k r, P k r → Q k r) {s s' : State} (h : RT P s s') : RT Q s s' := by
  intro hk
  obtain ⟨k', r1⟩ := h hk
  refine ⟨k', ?_⟩
  intro k t' r e1 e2
  rcases r1 k t' r e1 e2 with h | h
  · exact .inl h
  · exact .inr (hpq _ _ h)

/-- build `RT` from the already proved `TStep` and a `RespFrom` argument that may use the key discipline -/
theorem RT.of {P : Nat → Resp → Prop} {allow : Prop} {s s' : State} (ht : TStep allow s s')
    (hr : KeysOK s → RespFrom P s s') : RT P s s' := fun hk => ⟨(ht hk).1, hr hk⟩

theorem respFrom_of_eq {P : Nat → Resp → Prop} {s s' : State} (h : s'.tasks = s.tasks) : RespFrom P s s' := by
  intro k t' r e1 e2
  simp only [State.task?, h] at e1
  exact .inl ⟨t', e1, e2⟩

theorem RT.of_same {P : Nat → Resp → Prop} {s s' : State} (h1 : s'.tasks = s.tasks) (h2 : s'.ops = s.ops)
    (h3 : s'.nextTask = s.nextTask) (h4 : s'.nextOp = s.nextOp) : RT P s s' :=
  RT.of (TStep.of_same (allow := True) h1 h2 h3 h4) (fun _ => respFrom_of_eq h1)

/-- one task is rewritten; its response is an old one of that key or satisfies `P` -/
theorem respFrom_of_aset {P : Nat → Resp → Prop} {s s' : State} {k0 : Nat} {t2 : Task}
    (h : s'.tasks = aset k0 t2 s.tasks)
    (hr : ∀ r, t2.response = some r → (∃ t, s.task? k0 = some t ∧ t.response = some r) ∨ P k0 r) :
    RespFrom P s s' := by
  intro k t' r e1 e2
  simp only [State.task?, h, alookup_aset] at e1
  split at e1
  · rename_i hk; subst hk; injection e1 with e1; subst e1; exact hr r e2
  · exact .inl ⟨t', e1, e2⟩

theorem respFrom_trans {P : Nat → Resp → Prop} {a b c : State} (h1 : RespFrom P a b) (h2 : RespFrom P b c) :
    RespFrom P a c := by
  intro k t' r e1 e2
  rcases h2 k t' r e1 e2 with ⟨t, e3, e4⟩ | h
  · exact h1 k t r e3 e4
  · exact .inr h

/-- a freshly created uncompleted task, then `schedule` of it -/
theorem respFrom_new_then_schedule {P : Nat → Resp → Prop} {h : Hints} {s s1 s' : State} {k0 : Nat} {tn : Task}
    (hid : tn.id = k0) (hr : tn.response = none) (h1 : s1.tasks = aset k0 tn s.tasks)
    (hh : schedule h s1 k0 = .ok s') : RespFrom P s s' := by
  obtain ⟨t, t', h0, hle, e1, _⟩ := schedule_shape hh
  have ht : t = tn := by simpa [State.task?, h1] using h0.symm
  subst ht
  intro k tk r e2 e3
  simp only [State.task?, e1, h1, hid, alookup_aset] at e2
  by_cases hkk : k0 = k
  · simp only [hkk, if_true] at e2; injection e2 with e2; subst e2
    cases hle <;> (simp only [hr] at e3; cases e3)
  · simp only [hkk, if_false] at e2; exact .inl ⟨tk, e2, e3⟩

theorem schedule_rt {P : Nat → Resp → Prop} {allow : Prop} {h : Hints} {s0 s s' : State} {tid : Nat}
    (hh : schedule h s tid = .ok s') (ht : TStep allow s0 s')
    (hpre : KeysOK s0 → RespFrom P s0 s ∧ ∀ t, s.task? tid = some t → t.id = tid) : RT P s0 s' := by
  refine RT.of ht (fun hk => ?_)
  obtain ⟨pre, hid⟩ := hpre hk
  obtain ⟨t, t', h0, hle, e1, _⟩ := schedule_shape hh
  have : RespFrom P s s' := by
    refine respFrom_of_aset (k0 := t.id) e1 ?_
    intro r hr
    refine .inl ⟨t, by rw [hid t h0]; exact h0, ?_⟩
    cases hle <;> exact hr
  intro k tk r e2 e3
  rcases this k tk r e2 e3 with ⟨t1, e4, e5⟩ | h
  · exact pre k t1 r e4 e5
  · exact .inr h

/-- `complete` stores at most the response it was given, in the task it was given -/
theorem complete_rt {h : Hints} {s s' : State} {tid : Nat} {r : Resp} {bw : Bool}
    (hh : complete h s tid r bw = .ok s') : RT (fun k r' => r' = r ∧ k = tid) s s' := by
  refine RT.of (complete_tstep hh) (fun hk => ?_)
  obtain ⟨t, h0, ⟨_, rfl⟩ | ⟨hr, l, _, h1 | h1 | h1⟩⟩ := complete_ok hh
  · exact fun _ t' _ h1 h2 => .inl ⟨t', h1, h2⟩
  · have hid := (hk.tid tid t h0).1
    have base : ∀ ev, RespFrom (fun k r' => r' = r ∧ k = tid) s (succS (detachW s t) (detachT t) ev r) := by
      intro ev
      refine respFrom_of_aset (k0 := t.id) (t2 := bumpGen { detachT t with learner := none, response := some r })
        (by simp [bumpGen]) ?_
      intro r' hr'; simp [bumpGen] at hr'; exact .inr ⟨hr'.symm, hid⟩
    obtain ⟨ev, _, rfl | ⟨ev', _, rfl⟩ | ⟨bq, pq, h2, _⟩⟩ := completeSucc_ok h1.2
    · exact base ev
    · intro k t' r' e1 e2; exact base ev k t' r' e1 e2
    · -- the background task is new and uncompleted
      exact respFrom_trans (base ev)
        (respFrom_new_then_schedule (s := bumpLearner (succS (detachW s t) (detachT t) ev r))
          (tn := bgTask _ _ bq _) rfl rfl rfl h2)
  · have hid := (hk.tid tid t h0).1
    obtain ⟨_, _, _, h5⟩ := h1
    obtain ⟨s2, t2, h2, h3, rfl⟩ := completeRetry_ok h5
    obtain ⟨t1, t1', h4, hle, e1, _⟩ := schedule_shape h2
    have ht1 : t1 = retryT (detachW s t) (detachT t) l r := by
      simpa [State.task?, retryT] using h4.symm
    have ht1id : t1.id = t.id := by rw [ht1]; simp [retryT]
    have ht2 : t2 = t1' := by
      simp only [State.task?, e1, ht1id, detachT_id, alookup_aset, if_true] at h3
      injection h3 with h3; exact h3.symm
    subst ht2
    have hresp : t2.response = none := by cases hle <;> (rw [ht1]; simp [retryT, hr])
    have hid2 : t2.id = t.id := by cases hle <;> exact ht1id
    intro k tk r' e2 e3
    simp only [State.task?, setTask_tasks, e1, alookup_aset, bumpGen, hid2, ht1id, retryS_tasks, detachW_tasks] at e2
    by_cases hkk : t.id = k
    · simp only [hkk, if_true] at e2; injection e2 with e2; subst e2
      simp only [hresp] at e3; cases e3
    · simp only [hkk, if_false, retryT, detachT_id] at e2; exact .inl ⟨tk, e2, e3⟩
  · have hid := (hk.tid tid t h0).1
    obtain ⟨_, _, ev, _, rfl⟩ := h1
    refine respFrom_of_aset (k0 := t.id) (t2 := bumpGen { detachT t with learner := none, response := some r })
      (by simp [bumpGen]) ?_
    intro r' hr'; simp [bumpGen] at hr'; exact .inr ⟨hr'.symm, hid⟩

/-- responses created by the scheduler itself: never attributed to a worker, no payload -/
def SchedMade (_k : Nat) (r : Resp) : Prop := r.cause ≠ .worker ∧ r.tok = 0 ∧ r.exit = 0

theorem complete_sched {P : Nat → Resp → Prop} {h : Hints} {s s' : State} {tid : Nat} {r : Resp} {bw : Bool}
    (hh : complete h s tid r bw = .ok s') (hp : ∀ k, P k r) : RT P s s' :=
  (complete_rt hh).mono (fun k _ ⟨e, _⟩ => e ▸ hp k)

theorem removeOp_rt {h : Hints} {s s' : State} {o : Nat} (hh : removeOp h s o = .ok s') : RT SchedMade s s' := by
  rcases removeOp_ok hh with ⟨_, rfl⟩ | ⟨op, t, s1, t1, _, _, h1, h2, rfl⟩
  · exact RT.refl _ _
  · have : RT SchedMade s s1 := by
      rcases h1 with ⟨_, h1⟩ | ⟨_, rfl⟩
      · exact (RT.of (eraseOp_tstep True s o) (fun _ => respFrom_of_eq rfl)).trans
          (complete_sched h1 (fun _ => ⟨by simp, rfl, rfl⟩))
      · exact RT.of (eraseOp_tstep True s o) (fun _ => respFrom_of_eq rfl)
    refine this.trans (RT.of (dropOpT_tstep True o h2) (fun hk => ?_))
    have hid := (hk.tid _ _ h2).1
    unfold dropOpT
    split
    · intro k t' r e1 e2
      simp only [State.task?, alookup_aerase _ _ _ hk.tnodup] at e1
      split at e1
      · cases e1
      · exact .inl ⟨t', e1, e2⟩
    · refine respFrom_of_aset (k0 := t1.id) rfl ?_
      intro r hr
      exact .inl ⟨t1, by rw [hid]; exact h2, hr⟩

theorem cancelAllQueued_rt {P : Nat → Resp → Prop} {h : Hints} {s s' : State} {q : ScqId} {r : Resp}
    (hp : ∀ k, P k r) (hh : cancelAllQueued h s q r = .ok s') : RT P s s' :=
  cancelAllQueued_rel (RT P) (RT.refl P) (fun _ _ _ => RT.trans) (fun _ _ _ h1 => complete_sched h1 hp) hh

theorem removeScq_rt {h : Hints} {s s' : State} {q : ScqId} (hh : removeScq h s q = .ok s') : RT SchedMade s s' := by
  obtain ⟨s1, h1, rfl⟩ := removeScq_ok hh
  exact (cancelAllQueued_rt (fun _ => ⟨by simp, rfl, rfl⟩) h1).trans (RT.of_same (by simp) (by simp) (by simp) (by simp))

theorem removeStaleWorker_rt {h : Hints} {s s' : State} {q : ScqId} {w : WId} {rt : Nat}
    (hh : removeStaleWorker h s q w rt = .ok s') : RT SchedMade s s' := by
  rcases removeStaleWorker_ok hh with ⟨_, rfl⟩ | ⟨wk, s1, _, h1, rfl⟩
  · exact RT.refl _ _
  · have : RT SchedMade s s1 := by
      rcases h1 with ⟨t, _, h1⟩ | ⟨_, rfl⟩
      · exact complete_sched h1 (fun _ => ⟨by simp, rfl, rfl⟩)
      · exact RT.refl _ _
    exact this.trans (RT.of_same (by simp) (by simp) (by simp) (by simp))

theorem callback_rt {h : Hints} {s s' : State} {e : CleanupEntry} (hh : callback h s e = .ok s') : RT SchedMade s s' := by
  unfold callback at hh
  split at hh
  · exact removeStaleWorker_rt hh
  · exact removeOp_rt hh
  · exact removeScq_rt hh

theorem runCleanup_rt {h : Hints} {f : Nat} {s s' : State} (hh : runCleanup h f s = .ok s') : RT SchedMade s s' :=
  runCleanup_rel (RT SchedMade) (RT.refl _) (fun _ _ _ => RT.trans)
    (fun _ _ _ _ => RT.of_same rfl rfl rfl rfl) (fun _ _ _ => callback_rt) f s s' hh

theorem enter_rt {h : Hints} {s s' : State} {t : Nat} (hh : enter h s t = .ok s') : RT SchedMade s s' := by
  rcases enter_ok hh with ⟨_, rfl⟩ | ⟨_, h1⟩
  · exact RT.refl _ _
  · exact (RT.of_same (s := s) (s' := setNow s t) rfl rfl rfl rfl).trans (runCleanup_rt h1)

/-! ### RPC segments -/

/-- a helper that leaves the task map alone -/
theorem RT.of_tasks_eq {P : Nat → Resp → Prop} {allow : Prop} {s s' : State} (ht : TStep allow s s')
    (h : s'.tasks = s.tasks) : RT P s s' := RT.of ht (fun _ => respFrom_of_eq h)

theorem streamSend_rt {P : Nat → Resp → Prop} {s s' : State} {c o : Nat} (hh : streamSend s c o = .ok s') : RT P s s' := by
  refine RT.of_tasks_eq (allow := True) (streamSend_tstep hh) ?_
  obtain ⟨op, t, _, _, ⟨r, _, _, rfl⟩ | ⟨_, rfl⟩⟩ := streamSend_ok hh <;> simp

theorem streamAttach_rt {P : Nat → Resp → Prop} {s s' : State} {c o : Nat} (hh : streamAttach s c o = .ok s') : RT P s s' := by
  refine RT.of_tasks_eq (allow := True) (streamAttach_tstep hh) ?_
  obtain ⟨op, _, h1⟩ := streamAttach_ok hh
  obtain ⟨op', t, _, _, ⟨r, _, _, rfl⟩ | ⟨_, rfl⟩⟩ := streamSend_ok h1 <;> simp [attachS]

theorem streamLeave_rt {P : Nat → Resp → Prop} {s s' : State} {c code : Nat} (hh : streamLeave s c code = .ok s') : RT P s s' := by
  refine RT.of_tasks_eq (allow := True) (streamLeave_tstep hh) ?_
  obtain ⟨st, op, _, _, _, rfl⟩ := streamLeave_ok hh; simp

theorem streamWake_rt {h : Hints} {s s' : State} {now c reason : Nat}
    (hh : streamWake h s now c reason = .ok s') : RT SchedMade s s' := by
  obtain ⟨s1, st, h1, _, ⟨_, h3⟩ | ⟨_, _, h3⟩⟩ := streamWake_ok hh
  · exact (enter_rt h1).trans (streamLeave_rt h3)
  · exact (enter_rt h1).trans (streamSend_rt h3)

theorem execArrive_rt {h : Hints} {s s' : State} {now c digest dkey : Nat} {dnc : Bool}
    {comps : List Nat} {platform : Nat} {inv : List Nat} {prio : Int}
    (hh : execArrive h s now c digest dkey dnc comps platform inv prio = .ok s') : RT SchedMade s s' := by
  obtain ⟨s1, h1, h2 | h2 | h2⟩ := execArrive_ok hh
  · obtain ⟨tid, t, _, h0, ⟨o, _, h3⟩ | ⟨_, h3⟩⟩ := h2
    · exact ((enter_rt h1).trans (RT.of_same (s' := emit s1 .selAbandoned) rfl rfl rfl rfl)).trans (streamAttach_rt h3)
    · refine (((enter_rt h1).trans (RT.of_same (s' := emit s1 .selAbandoned) rfl rfl rfl rfl)).trans ?_).trans (streamAttach_rt h3)
      refine RT.of (addOpS_tstep True inv prio (s := emit s1 .selAbandoned) h0) (fun hk => ?_)
      have hid := (hk.tid tid t h0).1
      refine respFrom_of_aset (k0 := t.id) (t2 := { t with ops := t.ops ++ [s1.nextOp] }) (by simp) ?_
      intro r hr; exact .inl ⟨t, by rw [hid]; exact h0, hr⟩
  · obtain ⟨_, _, rfl⟩ := h2
    exact (enter_rt h1).trans (RT.of_same rfl rfl rfl rfl)
  · obtain ⟨_, pq, sc, s3, _, _, h3, h4⟩ := h2
    refine ((enter_rt h1).trans ?_).trans (streamAttach_rt h4)
    refine RT.of (tstep_new_then_schedule (allow := True) (s := s1) (tn := newTask s1 digest dkey dnc ⟨pq.id, sc⟩)
      (on := newOp s1 inv prio) rfl rfl rfl (by simp) (by simp) (by simp) (by simp) h3) (fun _ => ?_)
    exact respFrom_new_then_schedule (s := s1) (k0 := s1.nextTask) (tn := newTask s1 digest dkey dnc ⟨pq.id, sc⟩) rfl rfl (by simp) h3

theorem waitArrive_rt {h : Hints} {s s' : State} {now c name : Nat}
    (hh : waitArrive h s now c name = .ok s') : RT SchedMade s s' := by
  obtain ⟨s1, h1, ⟨_, rfl⟩ | ⟨op, _, h2⟩⟩ := waitArrive_ok hh
  · exact (enter_rt h1).trans (RT.of_same rfl rfl rfl rfl)
  · exact (enter_rt h1).trans (streamAttach_rt h2)

theorem assignNext_rt {P : Nat → Resp → Prop} {h : Hints} {s s1 : State} {w : Worker} {got : Bool}
    (hh : assignNext h s w = .ok (s1, got)) : RT P s s1 := by
  refine RT.of (assignNext_tstep (allow := True) hh) (fun hk => ?_)
  rcases assignNext_ok hh with ⟨_, rfl, _⟩ | ⟨_, t, t', hq, _, htw, h3, rfl⟩
  · exact fun _ t' _ h1 h2 => .inl ⟨t', h1, h2⟩
  · -- both writes go to the key of `t`, whose response is `none`
    unfold queuedTasks at hq
    simp only [List.mem_map, List.mem_filter, decide_eq_true_eq] at hq
    obtain ⟨⟨k, t0⟩, ⟨_, hc⟩, rfl⟩ := hq
    have hresp : t0.response = none := by simpa using hc.2.2.2
    have ht' : t' = { t0 with worker := some (w.scq, w.id), retry := 0, queued := false } := by
      simp only [State.task?, assignS_tasks, alookup_aset, if_true] at h3
      injection h3 with h3; exact h3.symm
    subst ht'
    intro k' tk r e2 e3
    simp only [State.task?, setTask_tasks, assignS_tasks, alookup_aset, bumpGen] at e2
    by_cases hkk : t0.id = k'
    · simp only [hkk, if_true] at e2; injection e2 with e2; subst e2
      simp only [hresp] at e3; cases e3
    · simp only [hkk, if_false] at e2; exact .inl ⟨tk, e2, e3⟩

theorem getNextTask_rt {P : Nat → Resp → Prop} {h : Hints} {s s' : State} {q : ScqId} {w : WId} {pi block : Bool}
    (hh : getNextTask h s q w pi block = .ok s') : RT P s s' := by
  obtain ⟨wk, sq, _, _, h1 | h1 | h1⟩ := getNextTask_ok hh
  · obtain ⟨_, rfl⟩ := h1
    exact RT.of_same (by simp) (by simp) (by simp) (by simp)
  · obtain ⟨_, _, s1, got, h2, h3 | h3 | h3⟩ := h1
    · obtain ⟨_, wk1, s2, _, h4, rfl⟩ := h3
      obtain ⟨tid, t, _, _, rfl⟩ := execResponse_ok h4
      exact (assignNext_rt h2).trans (RT.of_same (by simp) (by simp) (by simp) (by simp))
    · obtain ⟨_, _, rfl⟩ := h3
      exact (assignNext_rt h2).trans (RT.of_same (by simp) (by simp) (by simp) (by simp))
    · obtain ⟨_, _, wk1, _, _, rfl⟩ := h3
      exact (assignNext_rt h2).trans (RT.of_same rfl rfl rfl rfl)
  · obtain ⟨_, _, h2 | h2⟩ := h1
    · obtain ⟨_, rfl⟩ := h2
      exact RT.of_same (by simp) (by simp) (by simp) (by simp)
    · obtain ⟨_, rfl⟩ := h2
      exact RT.of_same rfl rfl rfl rfl

theorem getCurrentOrNext_rt {h : Hints} {s s' : State} {q : ScqId} {w : WId} {pi block : Bool}
    (hh : getCurrentOrNext h s q w pi block = .ok s') : RT SchedMade s s' := by
  obtain ⟨wk, _, h1 | h1⟩ := getCurrentOrNext_ok hh
  · exact getNextTask_rt h1.2
  · obtain ⟨tid, t, _, h0, h2 | h2⟩ := h1
    · refine RT.of (getCurrentOrNext_tstep (allow := True) hh) (fun hk => ?_)
      obtain ⟨_, rfl⟩ := h2
      have hid := (hk.tid tid t h0).1
      refine respFrom_of_aset (k0 := t.id) (t2 := { t with retry := t.retry + 1 }) (by simp) ?_
      intro r hr; exact .inl ⟨t, by rw [hid]; exact h0, hr⟩
    · obtain ⟨_, s1, h3, h4⟩ := h2
      exact (complete_sched h3 (fun _ => ⟨by simp, rfl, rfl⟩)).trans (getNextTask_rt h4)

/-- a response supplied by the reporting worker `(q, w)` for digest `d`, accepted because the scheduler
believed that worker to be running task `k` with that digest -/
def WorkerMade (q : ScqId) (w : WId) (rep : Report) (k : Nat) (r : Resp) : Prop :=
  ∃ d, rep = .completed d r ∧ ∃ s3 wk, s3.worker? q w = some wk ∧ wk.task = some k ∧ RunningCorrect s3 wk d

theorem syncArrive_rt {h : Hints} {s s' : State} {now : Nat} {q : ScqId} {comps : List Nat} {pf : Nat}
    {w : WId} {rep : Report} {pi : Bool} (hh : syncArrive h s now q comps pf w rep pi = .ok s') :
    RT (fun k r => SchedMade k r ∨ WorkerMade q w rep k r) s s' := by
  obtain ⟨s1, x, h1, h2, h3⟩ := syncArrive_ok hh
  have same : ∀ {a b : State}, TStep True a b → b.tasks = a.tasks →
      RT (fun k r => SchedMade k r ∨ WorkerMade q w rep k r) a b := fun ht e => RT.of_tasks_eq ht e
  refine ((enter_rt h1).mono (fun _ _ h => .inl h)).trans ?_
  have hq : RT (fun k r => SchedMade k r ∨ WorkerMade q w rep k r) s1 (unsum x) := by
    refine same (syncQueue_tstep h2) ?_
    rcases syncQueue_ok h2 with ⟨_, rfl⟩ | ⟨_, rfl⟩ | ⟨_, _, rfl⟩ | ⟨_, _, rfl⟩ <;> rfl
  rcases h3 with rfl | ⟨s2, rfl, h3⟩
  · exact hq
  · refine RT.trans (b := s2) hq ?_
    have hw : RT (fun k r => SchedMade k r ∨ WorkerMade q w rep k r) s2 (unsum (syncWorker s2 q w)) := by
      refine same (syncWorker_tstep True s2 q w) ?_
      rcases syncWorker_cases s2 q w with ⟨wk, _, _, e⟩ | ⟨wk, _, _, e⟩ | ⟨_, e⟩ <;> rw [e] <;> rfl
    rcases h3 with h3 | ⟨s3, wk, h3, hwk, h4⟩
    · rw [h3] at hw; exact hw
    · rw [h3] at hw
      refine RT.trans (b := s3) hw ?_
      rcases h4 with ⟨_, rfl⟩ | ⟨_, h4⟩ | ⟨d, _, _, rfl⟩ | ⟨d, _, _, h4⟩ | ⟨d, r, tid, s4, hrep, hrc, hwt, h4, h5⟩ | ⟨d, r, _, _, h4⟩
      · exact RT.of_same (by simp) (by simp) (by simp) (by simp)
      · exact (getCurrentOrNext_rt h4).mono (fun _ _ h => .inl h)
      · exact RT.of_same (by simp) (by simp) (by simp) (by simp)
      · exact (getCurrentOrNext_rt h4).mono (fun _ _ h => .inl h)
      · refine ((complete_rt h4).mono ?_).trans (getNextTask_rt h5)
        rintro k r' ⟨rfl, rfl⟩
        exact .inr ⟨d, hrep, s3, wk, hwk, hwt, hrc⟩
      · exact (getCurrentOrNext_rt h4).mono (fun _ _ h => .inl h)

theorem syncWake_rt {P : Nat → Resp → Prop} (hP : ∀ k r, SchedMade k r → P k r) {h : Hints} {s s' : State} {now : Nat}
    {q : ScqId} {w : WId} {reason : Nat} (hh : syncWake h s now q w reason = .ok s') : RT P s s' := by
  obtain ⟨s1, wk, h1, _, _, h2⟩ := syncWake_ok hh
  refine ((enter_rt h1).mono hP).trans ?_
  rcases h2 with ⟨_, h2 | h2⟩ | ⟨_, rfl⟩ | ⟨_, _, h2 | h2⟩ | ⟨_, sq, g, _, _, _, h2⟩
  · obtain ⟨s3, _, h3, rfl⟩ := h2
    obtain ⟨tid, t, _, _, rfl⟩ := execResponse_ok h3
    exact RT.of_same (by simp) (by simp) (by simp) (by simp)
  · obtain ⟨_, rfl⟩ := h2
    exact RT.of_same (by simp) (by simp) (by simp) (by simp)
  · exact RT.of_same (by simp) (by simp) (by simp) (by simp)
  · obtain ⟨s3, _, h3, rfl⟩ := h2
    obtain ⟨tid, t, _, _, rfl⟩ := execResponse_ok h3
    exact RT.of_same (by simp) (by simp) (by simp) (by simp)
  · exact (RT.of_same (s := s1) (s' := s1.setWorker { wk with woken := false }) rfl rfl rfl rfl).trans (getNextTask_rt h2.2)
  · exact (RT.of_same (s := s1) (s' := s1.setWorker { wk with drainWait := none }) rfl rfl rfl rfl).trans (getNextTask_rt h2)

/-- the segment's own contribution to stored responses -/
def StepMade (g : Seg) (k : Nat) (r : Resp) : Prop :=
  SchedMade k r ∨ ∃ h now q comps pf w rep pi, g = .sync h now q comps pf w rep pi ∧ WorkerMade q w rep k r

theorem foldl_same {α} (f : State → α → State) (hf : ∀ s a, (f s a).tasks = s.tasks ∧ (f s a).ops = s.ops ∧
    (f s a).nextTask = s.nextTask ∧ (f s a).nextOp = s.nextOp) (l : List α) (s : State) :
    (l.foldl f s).tasks = s.tasks ∧ (l.foldl f s).ops = s.ops ∧ (l.foldl f s).nextTask = s.nextTask ∧
    (l.foldl f s).nextOp = s.nextOp := by
  induction l generalizing s with
  | nil => exact ⟨rfl, rfl, rfl, rfl⟩
  | cons a r ih =>
    obtain ⟨a1, a2, a3, a4⟩ := hf s a
    obtain ⟨b1, b2, b3, b4⟩ := ih (f s a)
    exact ⟨b1.trans a1, b2.trans a2, b3.trans a3, b4.trans a4⟩

theorem drainWake_same (q : ScqId) (p : Pattern) (s : State) (w : Worker) :
    (drainWake q p s w).tasks = s.tasks ∧ (drainWake q p s w).ops = s.ops ∧
    (drainWake q p s w).nextTask = s.nextTask ∧ (drainWake q p s w).nextOp = s.nextOp := by
  unfold drainWake; split <;> exact ⟨rfl, rfl, rfl, rfl⟩

theorem termMark_same (s : State) (w : Worker) :
    (termMark s w).tasks = s.tasks ∧ (termMark s w).ops = s.ops ∧
    (termMark s w).nextTask = s.nextTask ∧ (termMark s w).nextOp = s.nextOp := by
  unfold termMark; (repeat' split) <;> exact ⟨rfl, rfl, rfl, rfl⟩

/-- **Provenance of responses, per segment.** -/
theorem step_rt {s s' : State} {g : Seg} (hstep : step s g = .ok s') : RT (StepMade g) s s' := by
  have lift : RT SchedMade s s' → RT (StepMade g) s s' := fun h => h.mono (fun _ _ h => .inl h)
  cases g with
  | register id comps pf sizes bm bp =>
    simp only [step, pure_ok] at hstep; subst hstep; exact RT.of_same rfl rfl rfl rfl
  | exec h now c0 d dk dnc comps pf inv prio => exact lift (execArrive_rt hstep)
  | wait h now c0 name => exact lift (waitArrive_rt hstep)
  | streamWake h now c0 reason => exact lift (streamWake_rt hstep)
  | sync h now q comps pf w rep pi =>
    refine (syncArrive_rt hstep).mono ?_
    rintro k r (h1 | h1)
    · exact .inl h1
    · exact .inr ⟨h, now, q, comps, pf, w, rep, pi, rfl, h1⟩
  | syncWake h now q w reason => exact lift (syncWake_rt (fun _ _ h => h) hstep)
  | killOp h now name code =>
    obtain ⟨s1, h1, ⟨_, rfl⟩ | ⟨op, s2, _, h2, rfl⟩⟩ := killOp_ok hstep
    · exact lift ((enter_rt h1).trans (RT.of_same rfl rfl rfl rfl))
    · exact lift (((enter_rt h1).trans (complete_sched h2 (fun _ => ⟨by simp, rfl, rfl⟩))).trans (RT.of_same rfl rfl rfl rfl))
  | killQueue h now q code =>
    obtain ⟨s1, h1, ⟨ev, _, rfl⟩ | ⟨s2, h2, rfl⟩⟩ := killQueue_ok hstep
    · exact lift ((enter_rt h1).trans (RT.of_same rfl rfl rfl rfl))
    · exact lift (((enter_rt h1).trans (cancelAllQueued_rt (fun _ => ⟨by simp, rfl, rfl⟩) h2)).trans (RT.of_same rfl rfl rfl rfl))
  | addDrain h now q p =>
    obtain ⟨s1, h1, ⟨_, rfl⟩ | ⟨sq, _, rfl⟩⟩ := addDrain_ok hstep
    · exact lift ((enter_rt h1).trans (RT.of_same rfl rfl rfl rfl))
    · refine lift ((enter_rt h1).trans ?_)
      obtain ⟨a1, a2, a3, a4⟩ := foldl_same (drainWake q p) (drainWake_same q p) s1.workers
        (s1.setScq { sq with drains := if sq.drains.contains p then sq.drains else sq.drains ++ [p] })
      exact RT.of_same a1 a2 a3 a4
  | removeDrain h now q p =>
    obtain ⟨s1, h1, ⟨_, rfl⟩ | ⟨sq, _, rfl⟩⟩ := removeDrain_ok hstep
    · exact lift ((enter_rt h1).trans (RT.of_same rfl rfl rfl rfl))
    · exact lift ((enter_rt h1).trans (RT.of_same rfl rfl rfl rfl))
  | terminate h now id p =>
    obtain ⟨s1, h1, h2⟩ := terminate_ok hstep
    simp only at h2
    obtain ⟨a1, a2, a3, a4⟩ := foldl_same termMark termMark_same (s1.workers.filter (fun w => p.matches w.id)) s1
    refine lift ((enter_rt h1).trans ?_)
    rcases h2 with ⟨_, rfl⟩ | ⟨_, rfl⟩ <;> exact RT.of_same a1 a2 a3 a4
  | termWake id reason =>
    obtain ⟨tc, _, ⟨_, rfl⟩ | ⟨_, _, rfl⟩⟩ := termWake_ok hstep <;> exact RT.of_same rfl rfl rfl rfl
  | touch h now => exact lift (enter_rt hstep)

end BbRe.Lemmas.SchedLive
