import BbRe.Lemmas.SchedLiveWaiters
/-!
`OStep` for `enter` and the worker / operator segments; the stream / waiter invariant.
-/
namespace BbRe.Lemmas.SchedLive
open BbRe.Sched

/-- the cleanup loop: every removed operation had no waiters (its entry was armed) -/
theorem runCleanup_ostep {h : Hints} {f : Nat} {s s' : State} (hi : KWC noEx s) (hh : runCleanup h f s = .ok s') :
    OStep s s' := by
  have := runCleanup_inv (fun x => KWC noEx x ∧ OStep s x) (h := h) ?_ f s s' ⟨hi, OStep.refl s⟩ hh
  · exact this.2
  · intro x e rest x' ⟨hix, hox⟩ hp hcb
    refine ⟨callback_kwc hix hp hcb, hox.trans ?_⟩
    obtain ⟨hmem, _, _, rfl⟩ := popDue_some hp
    have h0 : OStep x (setCleanup x (x.cleanup.filter (fun y => y ≠ e))) := OStep.of_same rfl rfl rfl rfl
    refine h0.trans ?_
    unfold callback at hcb
    cases hk : e.kind with
    | worker q w => simp only [hk] at hcb; exact removeStaleWorker_ostep hcb
    | op o =>
      simp only [hk] at hcb
      refine removeOp_ostep hcb ?_
      intro op hop
      obtain ⟨op', e1, e2, _⟩ := hix.2.eO o (hk ▸ ⟨e, hmem, rfl⟩)
      have : x.op? o = some op := hop
      rw [this] at e1; injection e1 with e1; subst e1; exact e2
    | scq q => simp only [hk] at hcb; exact removeScq_ostep hcb

theorem enter_ostep {h : Hints} {s s' : State} {t : Nat} (hi : KWC noEx s) (hh : enter h s t = .ok s') : OStep s s' := by
  rcases enter_ok hh with ⟨_, rfl⟩ | ⟨_, h1⟩
  · exact OStep.refl _
  · have hi0 : KWC noEx (setNow s t) :=
      ⟨KWStep.of_same (s := s) rfl rfl rfl rfl rfl rfl hi.1, hi.2.frame (CFrame.of_same rfl rfl rfl rfl rfl)⟩
    exact (OStep.of_same (s := s) (s' := setNow s t) rfl rfl rfl rfl).trans (runCleanup_ostep hi0 h1)

theorem assignNext_opw {h : Hints} {s s1 : State} {w : Worker} {got : Bool}
    (hh : assignNext h s w = .ok (s1, got)) : OpW s s1 := by
  rcases assignNext_ok hh with ⟨_, rfl, _⟩ | ⟨_, t, t', _, _, _, _, rfl⟩
  · exact OpW.of_eq rfl (Nat.le_refl _)
  · exact OpW.of_eq rfl (Nat.le_refl _)

theorem getNextTask_ostep {h : Hints} {s s' : State} {q : ScqId} {w : WId} {pi block : Bool}
    (hh : getNextTask h s q w pi block = .ok s') : OStep s s' := by
  refine OStep.of (getNextTask_tstep (allow := True) hh) (fun _ => ?_)
  obtain ⟨wk, sq, _, _, h1 | h1 | h1⟩ := getNextTask_ok hh
  · obtain ⟨_, rfl⟩ := h1; exact OpW.of_eq (by simp) (by simp)
  · obtain ⟨_, _, s1, got, h2, h3 | h3 | h3⟩ := h1
    all_goals have f := assignNext_opw h2
    · obtain ⟨_, wk1, s2, _, h4, rfl⟩ := h3
      obtain ⟨tid, t, _, _, rfl⟩ := execResponse_ok h4
      exact ⟨by simpa using f.nop, fun o op' e => f.keep o op' (by simpa [State.op?] using e),
        fun o op e e' => f.gone o op e (by simpa [State.op?] using e')⟩
    · obtain ⟨_, _, rfl⟩ := h3
      exact ⟨by simpa using f.nop, fun o op' e => f.keep o op' (by simpa [State.op?] using e),
        fun o op e e' => f.gone o op e (by simpa [State.op?] using e')⟩
    · obtain ⟨_, _, wk1, _, _, rfl⟩ := h3
      exact ⟨f.nop, f.keep, f.gone⟩
  · obtain ⟨_, _, h2 | h2⟩ := h1
    · obtain ⟨_, rfl⟩ := h2; exact OpW.of_eq (by simp) (by simp)
    · obtain ⟨_, rfl⟩ := h2; exact OpW.of_eq rfl (Nat.le_refl _)

theorem getCurrentOrNext_ostep {h : Hints} {s s' : State} {q : ScqId} {w : WId} {pi block : Bool}
    (hh : getCurrentOrNext h s q w pi block = .ok s') : OStep s s' := by
  obtain ⟨wk, _, h1 | h1⟩ := getCurrentOrNext_ok hh
  · exact getNextTask_ostep h1.2
  · obtain ⟨tid, t, _, h0, h2 | h2⟩ := h1
    · refine OStep.of (getCurrentOrNext_tstep (allow := True) hh) (fun _ => ?_)
      obtain ⟨_, rfl⟩ := h2; exact OpW.of_eq (by simp) (by simp)
    · obtain ⟨_, s1, h3, h4⟩ := h2
      exact (complete_ostep h3).trans (getNextTask_ostep h4)

theorem syncArrive_ostep {h : Hints} {s s' : State} {now : Nat} {q : ScqId} {comps : List Nat} {pf : Nat}
    {w : WId} {rep : Report} {pi : Bool} (hi : KWC noEx s)
    (hh : syncArrive h s now q comps pf w rep pi = .ok s') : OStep s s' := by
  obtain ⟨s1, x, h1, h2, h3⟩ := syncArrive_ok hh
  refine (enter_ostep hi h1).trans ?_
  have hq : OStep s1 (unsum x) := by
    refine OStep.of (syncQueue_tstep (allow := True) h2) (fun _ => ?_)
    rcases syncQueue_ok h2 with ⟨_, rfl⟩ | ⟨_, rfl⟩ | ⟨_, _, rfl⟩ | ⟨_, _, rfl⟩ <;> exact OpW.of_eq rfl (Nat.le_refl _)
  rcases h3 with rfl | ⟨s2, rfl, h3⟩
  · exact hq
  · refine OStep.trans (b := s2) hq ?_
    have hw : OStep s2 (unsum (syncWorker s2 q w)) := by
      refine OStep.of (syncWorker_tstep True s2 q w) (fun _ => ?_)
      rcases syncWorker_cases s2 q w with ⟨wk, _, _, e⟩ | ⟨wk, _, _, e⟩ | ⟨_, e⟩ <;> rw [e] <;> exact OpW.of_eq rfl (Nat.le_refl _)
    rcases h3 with h3 | ⟨s3, wk, h3, _, h4⟩
    · rw [h3] at hw; exact hw
    · rw [h3] at hw
      refine OStep.trans (b := s3) hw ?_
      rcases h4 with ⟨_, rfl⟩ | ⟨_, h4⟩ | ⟨d, _, _, rfl⟩ | ⟨d, _, _, h4⟩ | ⟨d, r, tid, s4, _, _, _, h4, h5⟩ | ⟨d, r, _, _, h4⟩
      · exact OStep.of_same (by simp) (by simp) (by simp) (by simp)
      · exact getCurrentOrNext_ostep h4
      · exact OStep.of_same (by simp) (by simp) (by simp) (by simp)
      · exact getCurrentOrNext_ostep h4
      · exact (complete_ostep h4).trans (getNextTask_ostep h5)
      · exact getCurrentOrNext_ostep h4

theorem syncWake_ostep {h : Hints} {s s' : State} {now : Nat} {q : ScqId} {w : WId} {reason : Nat}
    (hi : KWC noEx s) (hh : syncWake h s now q w reason = .ok s') : OStep s s' := by
  obtain ⟨s1, wk, h1, _, _, h2⟩ := syncWake_ok hh
  refine (enter_ostep hi h1).trans ?_
  rcases h2 with ⟨_, h2 | h2⟩ | ⟨_, rfl⟩ | ⟨_, _, h2 | h2⟩ | ⟨_, sq, g, _, _, _, h2⟩
  · obtain ⟨s3, _, h3, rfl⟩ := h2
    obtain ⟨tid, t, _, _, rfl⟩ := execResponse_ok h3
    exact OStep.of_same (by simp) (by simp) (by simp) (by simp)
  · obtain ⟨_, rfl⟩ := h2; exact OStep.of_same (by simp) (by simp) (by simp) (by simp)
  · exact OStep.of_same (by simp) (by simp) (by simp) (by simp)
  · obtain ⟨s3, _, h3, rfl⟩ := h2
    obtain ⟨tid, t, _, _, rfl⟩ := execResponse_ok h3
    exact OStep.of_same (by simp) (by simp) (by simp) (by simp)
  · exact (OStep.of_same (s := s1) (s' := s1.setWorker { wk with woken := false }) rfl rfl rfl rfl).trans (getNextTask_ostep h2.2)
  · exact (OStep.of_same (s := s1) (s' := s1.setWorker { wk with drainWait := none }) rfl rfl rfl rfl).trans (getNextTask_ostep h2)

/-! ### the stream / waiter invariant -/

/-- number of streams parked on operation `o` -/
def cnt (s : State) (o : Nat) : Nat := (s.streams.filter (fun st => st.op = o)).length
/-- waiter count of operation `o` (0 when it does not exist) -/
def wts (s : State) (o : Nat) : Nat := match s.op? o with | some op => op.waiters | none => 0

/-- every operation counts at least as many waiters as streams are parked on it -/
def SInv (s : State) : Prop := ∀ o, cnt s o ≤ wts s o

theorem sinv_of_ostep {s s' : State} (hk : KeysOK s) (hw : WakeInv s) (hs : SInv s) (hst : s'.streams = s.streams)
    (ho : OStep s s') : SInv s' := by
  obtain ⟨_, r⟩ := ho hk
  intro o
  have hc : cnt s' o = cnt s o := by unfold cnt; rw [hst]
  rw [hc]
  by_cases h0 : cnt s o = 0
  · omega
  · -- some stream is parked on `o`: the operation existed before, below the watermark
    have hex : ∃ st ∈ s.streams, st.op = o := by
      unfold cnt at h0
      have : (s.streams.filter (fun st => st.op = o)) ≠ [] := fun e => h0 (by rw [e]; rfl)
      obtain ⟨st, hm⟩ := List.exists_mem_of_ne_nil _ this
      exact ⟨st, (List.mem_filter.1 hm).1, by simpa using (List.mem_filter.1 hm).2⟩
    obtain ⟨st, hm, rfl⟩ := hex
    have hlt := (hw st hm).1
    have h1 := hs st.op
    unfold wts at h1 ⊢
    cases hop : s.op? st.op with
    | none => simp only [hop] at h1; omega
    | some op =>
      simp only [hop] at h1
      cases hop' : s'.op? st.op with
      | none => have := r.gone _ op hop hop'; omega
      | some op' =>
        simp only
        rcases r.keep _ op' hop' with ⟨op0, e0, w0⟩ | hf
        · rw [hop] at e0; injection e0 with e0; subst e0; omega
        · omega

end BbRe.Lemmas.SchedLive
