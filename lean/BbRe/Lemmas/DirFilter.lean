import BbRe.Lemmas.DirPosixBulk
/-!
Completeness of the `FilterChildren` traversal (`filterWalk`, the work-list form of
`filterChildrenRecursive`, in_memory_prepopulated_directory.go:622-669).

`walkDirs` is the sequence of directories the traversal enters, `dirItems` what one
directory contributes to the callbacks (all its leaves, hidden ones too, in list order;
or the directory itself when its contents are still pending).  `walkDone` says that the
work list is exhausted before the fuel is (the Go recursion returns); on a hierarchy
with a cycle below the start directory the Go recursion does not return and `walkDone`
is false for every fuel (`walkDone_no_cycle`).
-/
namespace BbRe.Lemmas.Dir
open BbRe.Dir

/-- What the callbacks get for directory `x`. -/
def dirItems (s : Store) (x : Nat) : List Report :=
  match (s.dir x).lazy with
  | some _ => [⟨x, 0, .dir x⟩]
  | none => ((s.dir x).entries.filter (fun e => !e.child.isDir)).map (fun e => ⟨x, e.name, e.child⟩)

/-- The directories `filterWalk` enters, in order. -/
def walkDirs : Nat → Store → List Nat → List Nat
  | 0, _, _ => []
  | _, _, [] => []
  | fuel + 1, s, d :: rest =>
    match (s.dir d).lazy with
    | some _ => d :: walkDirs fuel s rest
    | none => d :: walkDirs fuel s (dirChildren (s.dir d).entries ++ rest)

/-- The work list is exhausted within the fuel. -/
def walkDone : Nat → Store → List Nat → Bool
  | _, _, [] => true
  | 0, _, _ :: _ => false
  | fuel + 1, s, d :: rest =>
    match (s.dir d).lazy with
    | some _ => walkDone fuel s rest
    | none => walkDone fuel s (dirChildren (s.dir d).entries ++ rest)

theorem filterWalk_eq_flatMap (s : Store) : ∀ (fuel : Nat) (stack : List Nat),
    filterWalk fuel s stack = (walkDirs fuel s stack).flatMap (dirItems s)
  | 0, _ => by simp [filterWalk, walkDirs]
  | fuel + 1, [] => by simp [filterWalk, walkDirs]
  | fuel + 1, a :: rest => by
    unfold filterWalk walkDirs
    simp only []
    cases hl : (s.dir a).lazy with
    | some t =>
      simp only [List.flatMap_cons]
      rw [filterWalk_eq_flatMap s fuel rest]
      simp [dirItems, hl]
    | none =>
      simp only [List.flatMap_cons]
      rw [filterWalk_eq_flatMap s fuel _]
      simp [dirItems, hl]

theorem walkDirs_sound (s : Store) : ∀ (fuel : Nat) (stack : List Nat),
    ∀ o ∈ walkDirs fuel s stack, ∃ a ∈ stack, MReach s a o
  | 0, _, o, ho => by simp [walkDirs] at ho
  | fuel + 1, [], o, ho => by simp [walkDirs] at ho
  | fuel + 1, a :: rest, o, ho => by
    unfold walkDirs at ho
    cases hl : (s.dir a).lazy with
    | some t =>
      rw [hl] at ho
      simp only [] at ho
      rcases List.mem_cons.mp ho with h | h
      · exact ⟨a, by simp, by rw [h]; exact MReach.refl a⟩
      · obtain ⟨b, hb, hr⟩ := walkDirs_sound s fuel rest o h
        exact ⟨b, by simp [hb], hr⟩
    | none =>
      rw [hl] at ho
      simp only [] at ho
      rcases List.mem_cons.mp ho with h | h
      · exact ⟨a, by simp, by rw [h]; exact MReach.refl a⟩
      · obtain ⟨b, hb, hr⟩ := walkDirs_sound s fuel _ o h
        rcases List.mem_append.mp hb with h1 | h1
        · exact ⟨a, by simp, MReach.step (mem_dirChildren.mp h1) hr⟩
        · exact ⟨b, by simp [h1], hr⟩

/-- Every directory reachable from the work list is entered when the traversal finishes. -/
theorem walkDirs_complete (s : Store) (hlazy : ∀ a, (s.dir a).lazy ≠ none → (s.dir a).entries = []) :
    ∀ (fuel : Nat) (stack : List Nat), walkDone fuel s stack = true →
      ∀ a ∈ stack, ∀ o, MReach s a o → o ∈ walkDirs fuel s stack
  | _, [], _, a, ha, _, _ => by simp at ha
  | 0, _ :: _, hd, _, _, _, _ => by simp [walkDone] at hd
  | fuel + 1, x :: rest, hd, a, ha, o, hr => by
    unfold walkDone at hd
    unfold walkDirs
    cases hl : (s.dir x).lazy with
    | some t =>
      rw [hl] at hd
      simp only [] at hd
      have hnil : (s.dir x).entries = [] := hlazy x (by simp [hl])
      rcases List.mem_cons.mp ha with h | h
      · subst h
        cases hr with
        | refl => simp
        | step he _ => simp [MEdge, hnil] at he
      · exact List.mem_cons_of_mem _ (walkDirs_complete s hlazy fuel rest hd a h o hr)
    | none =>
      rw [hl] at hd
      simp only [] at hd
      rcases List.mem_cons.mp ha with h | h
      · subst h
        cases hr with
        | refl => simp
        | step he hr' =>
          exact List.mem_cons_of_mem _ (walkDirs_complete s hlazy fuel _ hd _
            (List.mem_append_left _ (mem_dirChildren.mpr he)) o hr')
      · exact List.mem_cons_of_mem _ (walkDirs_complete s hlazy fuel _ hd a
          (List.mem_append_right _ h) o hr)

/-- With a callback that never stops and a traversal that finishes, the callbacks are
exactly the items of the directories reachable from the work list. -/
theorem mem_filterWalk_iff (s : Store) (hlazy : ∀ a, (s.dir a).lazy ≠ none → (s.dir a).entries = [])
    (fuel : Nat) (d : Nat) (hd : walkDone fuel s [d] = true) (r : Report) :
    r ∈ filterWalk fuel s [d] ↔ ∃ o, MReach s d o ∧ r ∈ dirItems s o := by
  rw [filterWalk_eq_flatMap, List.mem_flatMap]
  constructor
  · rintro ⟨o, ho, hr⟩
    obtain ⟨a, ha, hreach⟩ := walkDirs_sound s fuel [d] o ho
    simp at ha
    subst ha
    exact ⟨o, hreach, hr⟩
  · rintro ⟨o, hreach, hr⟩
    exact ⟨o, walkDirs_complete s hlazy fuel [d] hd d (by simp) o hreach, hr⟩

/-- A traversal that finishes has no directory on a cycle in its work list: on a cyclic
hierarchy `filterChildrenRecursive` does not return. -/
theorem walkDone_no_cycle (s : Store) (hlazy : ∀ a, (s.dir a).lazy ≠ none → (s.dir a).entries = []) :
    ∀ (fuel : Nat) (stack : List Nat), walkDone fuel s stack = true →
      ∀ a ∈ stack, ∀ c, MEdge s a c → MReach s c a → False
  | _, [], _, a, ha, _, _, _ => by simp at ha
  | 0, _ :: _, hd, _, _, _, _, _ => by simp [walkDone] at hd
  | fuel + 1, x :: rest, hd, a, ha, c, he, hr => by
    unfold walkDone at hd
    cases hl : (s.dir x).lazy with
    | some t =>
      rw [hl] at hd
      simp only [] at hd
      rcases List.mem_cons.mp ha with h | h
      · subst h
        have hnil : (s.dir a).entries = [] := hlazy a (by simp [hl])
        simp [MEdge, hnil] at he
      · exact walkDone_no_cycle s hlazy fuel rest hd a h c he hr
    | none =>
      rw [hl] at hd
      simp only [] at hd
      rcases List.mem_cons.mp ha with h | h
      · subst h
        -- `c` is pushed and lies on the same cycle
        cases hr with
        | refl =>
          exact walkDone_no_cycle s hlazy fuel _ hd a
            (List.mem_append_left _ (mem_dirChildren.mpr he)) a he (MReach.refl a)
        | step he' hr' =>
          exact walkDone_no_cycle s hlazy fuel _ hd c
            (List.mem_append_left _ (mem_dirChildren.mpr he)) _ he' (hr'.snoc he)
      · exact walkDone_no_cycle s hlazy fuel _ hd a (List.mem_append_right _ h) c he hr

/-- More fuel than needed changes nothing. -/
theorem filterWalk_fuel_stable (s : Store) : ∀ (fuel : Nat) (stack : List Nat), walkDone fuel s stack = true →
    ∀ k, filterWalk (fuel + k) s stack = filterWalk fuel s stack
  | fuel, [], _, k => by
    cases fuel <;> cases k <;> simp [filterWalk]
  | 0, _ :: _, hd, _ => by simp [walkDone] at hd
  | fuel + 1, x :: rest, hd, k => by
    unfold walkDone at hd
    have e : fuel + 1 + k = (fuel + k) + 1 := by omega
    rw [e]
    unfold filterWalk
    simp only []
    cases hl : (s.dir x).lazy with
    | some t =>
      rw [hl] at hd
      simp only [] at hd
      rw [filterWalk_fuel_stable s fuel rest hd k]
    | none =>
      rw [hl] at hd
      simp only [] at hd
      rw [filterWalk_fuel_stable s fuel _ hd k]

/-! ### every directory is entered once; the fuel of the model suffices -/

theorem count_dirChildren (es : List Entry) (b : Nat) :
    (dirChildren es).count b = (es.map (fun e => e.child)).count (Child.dir b) := by
  induction es with
  | nil => simp [dirChildren]
  | cons e rest ih =>
    unfold dirChildren
    cases hc : e.child with
    | dir c => simp [hc, List.count_cons, ih]
    | leaf l => simp [hc, List.count_cons, ih]

theorem edge_lt {s : Store} {p c : Nat} (hp : MEdge s p c) : p < s.dirs.length := by
  by_cases hlt : p < s.dirs.length
  · exact hlt
  · simp [MEdge, dir_entries_of_ge s p (by omega)] at hp

/-- `contents_inv`'s one-parent clause, on edges. -/
theorem edge_parent_unique {P : Params} {s : Store} (h : Inv P s) {p a c : Nat}
    (hp : MEdge s p c) (ha : MEdge s a c) : p = a := by
  by_cases hpa : p = a
  · exact hpa
  · exfalso
    have hplt := edge_lt hp
    have halt := edge_lt ha
    obtain ⟨x0, hx0⟩ : ∃ x0 : Dir, x0.entries = [] := ⟨{}, rfl⟩
    have h1 := count_refs_setDir s p x0 (Child.dir c) hplt
    have h2 : (refs s).count (Child.dir c) ≤ 1 := by simpa using h.oneParent c
    have h3 : 0 < ((s.dir p).entries.map (fun e => e.child)).count (Child.dir c) := List.count_pos_iff.mpr hp
    have h4 : Child.dir c ∈ refs (s.setDir p x0) := by
      rw [mem_refs]
      refine ⟨(s.setDir p x0).dir a, dir_mem _ a (by simpa [Store.setDir] using halt), ?_⟩
      rw [dir_setDir_ne s p a _ hpa]
      simpa [MEdge] using ha
    have h5 := List.count_pos_iff.mpr h4
    simp [hx0] at h1
    omega

theorem dirChildren_nodup {P : Params} {s : Store} (h : Inv P s) (x : Nat) :
    (dirChildren (s.dir x).entries).Nodup := by
  rw [List.nodup_iff_count]
  intro b
  rw [count_dirChildren]
  by_cases hlt : x < s.dirs.length
  · have h1 := count_refs_setDir s x { s.dir x with entries := [] } (Child.dir b) hlt
    have h2 : (refs s).count (Child.dir b) ≤ 1 := by simpa using h.oneParent b
    simp at h1
    omega
  · simp [dir_entries_of_ge s x (by omega)]

theorem MReach.tail_cases {s : Store} {b c : Nat} (h : MReach s b c) :
    b = c ∨ ∃ p, MReach s b p ∧ MEdge s p c := by
  induction h with
  | refl a => exact Or.inl rfl
  | step he _ ih =>
    rcases ih with h1 | ⟨p, hp, hpe⟩
    · subst h1
      exact Or.inr ⟨_, MReach.refl _, he⟩
    · exact Or.inr ⟨p, MReach.step he hp, hpe⟩

/-- With unique parents the ancestors of a directory form a chain. -/
theorem mreach_chain {s : Store} (uniq : ∀ p a c, MEdge s p c → MEdge s a c → p = a) {a o : Nat}
    (ha : MReach s a o) : ∀ b, MReach s b o → MReach s a b ∨ MReach s b a := by
  induction ha with
  | refl a => intro b hb; exact Or.inr hb
  | step he _ ih =>
    intro b hb
    rcases ih b hb with h1 | h1
    · exact Or.inl (MReach.step he h1)
    · rcases h1.tail_cases with h2 | ⟨p, hp, hpe⟩
      · subst h2
        exact Or.inl (MReach.step he (MReach.refl _))
      · have hpa := uniq _ _ _ hpe he
        subst hpa
        exact Or.inr hp

/-- No directory at or below the work list lies on a cycle. -/
def NoCyc (s : Store) (stack : List Nat) : Prop :=
  ∀ b ∈ stack, ∀ a, MReach s b a → ∀ c, MEdge s a c → MReach s c a → False

/-- No directory is at or below two positions of the work list. -/
def Sep (s : Store) (stack : List Nat) : Prop :=
  stack.Pairwise (fun a b => ∀ o, MReach s a o → MReach s b o → False)

theorem walkDone_noCyc (s : Store) (hlazy : ∀ a, (s.dir a).lazy ≠ none → (s.dir a).entries = []) :
    ∀ (fuel : Nat) (stack : List Nat), walkDone fuel s stack = true → NoCyc s stack
  | _, [], _, b, hb, _, _, _, _, _ => by simp at hb
  | 0, _ :: _, hd, _, _, _, _, _, _, _ => by simp [walkDone] at hd
  | fuel + 1, x :: rest, hd, b, hb, a, hba, c, he, hr => by
    have hfull := hd
    unfold walkDone at hd
    cases hl : (s.dir x).lazy with
    | some t =>
      rw [hl] at hd
      simp only [] at hd
      rcases List.mem_cons.mp hb with h | h
      · subst h
        have hnil : (s.dir b).entries = [] := hlazy b (by simp [hl])
        cases hba with
        | refl => simp [MEdge, hnil] at he
        | step he' _ => simp [MEdge, hnil] at he'
      · exact walkDone_noCyc s hlazy fuel rest hd b h a hba c he hr
    | none =>
      rw [hl] at hd
      simp only [] at hd
      rcases List.mem_cons.mp hb with h | h
      · subst h
        cases hba with
        | refl => exact walkDone_no_cycle s hlazy (fuel + 1) (b :: rest) hfull b (by simp) c he hr
        | step he' hr' =>
          exact walkDone_noCyc s hlazy fuel _ hd _ (List.mem_append_left _ (mem_dirChildren.mpr he')) a hr' c he hr
      · exact walkDone_noCyc s hlazy fuel _ hd b (List.mem_append_right _ h) a hba c he hr

theorem walkDirs_nodup (s : Store) (uniq : ∀ p a c, MEdge s p c → MEdge s a c → p = a)
    (hchild : ∀ x, (dirChildren (s.dir x).entries).Nodup) :
    ∀ (fuel : Nat) (stack : List Nat), NoCyc s stack → Sep s stack → (walkDirs fuel s stack).Nodup
  | 0, _, _, _ => by simp [walkDirs]
  | fuel + 1, [], _, _ => by simp [walkDirs]
  | fuel + 1, x :: rest, hnc, hsep => by
    unfold walkDirs
    have hsep' := List.pairwise_cons.mp hsep
    have hx_rest : ∀ a ∈ rest, MReach s a x → False := fun a ha hr => hsep'.1 a ha x (MReach.refl x) hr
    cases hl : (s.dir x).lazy with
    | some t =>
      simp only []
      refine List.nodup_cons.mpr ⟨?_, walkDirs_nodup s uniq hchild fuel rest
        (fun b hb => hnc b (List.mem_cons_of_mem _ hb)) hsep'.2⟩
      intro hmem
      obtain ⟨a, ha, hr⟩ := walkDirs_sound s fuel rest x hmem
      exact hx_rest a ha hr
    | none =>
      simp only []
      have hnc' : NoCyc s (dirChildren (s.dir x).entries ++ rest) := by
        intro b hb a hba
        rcases List.mem_append.mp hb with h1 | h1
        · exact hnc x (by simp) a (MReach.step (mem_dirChildren.mp h1) hba)
        · exact hnc b (List.mem_cons_of_mem _ h1) a hba
      have hcyc : ∀ c, MEdge s x c → MReach s c x → False :=
        fun c he hr => hnc x (by simp) x (MReach.refl x) c he hr
      have hsepc : Sep s (dirChildren (s.dir x).entries ++ rest) := by
        unfold Sep
        rw [List.pairwise_append]
        refine ⟨?_, hsep'.2, ?_⟩
        · refine List.Pairwise.imp_of_mem ?_ (hchild x)
          intro c1 c2 h1 h2 hne o ho1 ho2
          have e1 := mem_dirChildren.mp h1
          have e2 := mem_dirChildren.mp h2
          rcases mreach_chain uniq ho1 c2 ho2 with h | h
          · rcases h.tail_cases with h3 | ⟨p, hp, hpe⟩
            · exact hne h3
            · have hpx := uniq _ _ _ hpe e2
              rw [hpx] at hp
              exact hcyc c1 e1 hp
          · rcases h.tail_cases with h3 | ⟨p, hp, hpe⟩
            · exact hne h3.symm
            · have hpx := uniq _ _ _ hpe e1
              rw [hpx] at hp
              exact hcyc c2 e2 hp
        · intro c hc b hb o ho1 ho2
          exact hsep'.1 b hb o (MReach.step (mem_dirChildren.mp hc) ho1) ho2
      refine List.nodup_cons.mpr ⟨?_, walkDirs_nodup s uniq hchild fuel _ hnc' hsepc⟩
      intro hmem
      obtain ⟨a, ha, hr⟩ := walkDirs_sound s fuel _ x hmem
      rcases List.mem_append.mp ha with h1 | h1
      · exact hcyc a (mem_dirChildren.mp h1) hr
      · exact hx_rest a h1 hr

theorem cookie_of_mem_dirItems {s : Store} {o : Nat} {r : Report} (h : r ∈ dirItems s o) : r.cookie = o := by
  unfold dirItems at h
  split at h
  · simp at h
    rw [h]
  · obtain ⟨e, _, he⟩ := List.mem_map.mp h
    rw [← he]

theorem dirItems_nodup {P : Params} {s : Store} {o : Nat} (hok : DirOK P (s.dir o)) : (dirItems s o).Nodup := by
  unfold dirItems
  split
  · simp
  · have hn : (s.dir o).entries.Pairwise (fun a b => a.name ≠ b.name) :=
      List.Pairwise.imp_of_mem (fun {a b} ha hb hab hname =>
        hab (by rw [hok.norm a ha, hok.norm b hb, hname])) hok.nodup
    exact (hn.filter _).map _ (fun a b hab h => hab (congrArg Report.name h))

theorem filterWalk_nodup {P : Params} (s : Store) (hok : ∀ a, DirOK P (s.dir a)) (fuel : Nat) (stack : List Nat)
    (hd : (walkDirs fuel s stack).Nodup) : (filterWalk fuel s stack).Nodup := by
  rw [filterWalk_eq_flatMap]
  refine List.pairwise_flatMap.mpr ⟨fun a _ => dirItems_nodup (hok a), ?_⟩
  refine List.Pairwise.imp ?_ hd
  intro a b hab x hx y hy hxy
  apply hab
  rw [← cookie_of_mem_dirItems hx, ← cookie_of_mem_dirItems hy, hxy]

theorem walkDirs_length_of_not_done (s : Store) : ∀ (fuel : Nat) (stack : List Nat),
    walkDone fuel s stack = false → (walkDirs fuel s stack).length = fuel
  | fuel, [], h => by cases fuel <;> simp [walkDone] at h
  | 0, _ :: _, _ => by simp [walkDirs]
  | fuel + 1, x :: rest, h => by
    unfold walkDone at h
    unfold walkDirs
    cases hl : (s.dir x).lazy with
    | some t =>
      rw [hl] at h
      simp only [] at h ⊢
      rw [List.length_cons, walkDirs_length_of_not_done s fuel rest h]
    | none =>
      rw [hl] at h
      simp only [] at h ⊢
      rw [List.length_cons, walkDirs_length_of_not_done s fuel _ h]

theorem mreach_lt {P : Params} {s : Store} (h : Inv P s) {d o : Nat} (hd : d < s.dirs.length)
    (hr : MReach s d o) : o < s.dirs.length := by
  rcases hr.tail_cases with h1 | ⟨p, _, hpe⟩
  · omega
  · apply h.dirRef o
    have hplt := edge_lt hpe
    have : Child.dir o ∈ refs s := by
      rw [mem_refs]
      exact ⟨s.dir p, dir_mem s p hplt, by simpa [MEdge] using hpe⟩
    simp [this]

/-- On a hierarchy without a cycle below `d` the model's fuel is enough. -/
theorem walkDone_of_noCyc {P : Params} {s : Store} (h : Inv P s) (d : Nat) (hd : d < s.dirs.length)
    (hnc : NoCyc s [d]) (k : Nat) : walkDone (s.dirs.length + k + 1) s [d] = true := by
  cases hdone : walkDone (s.dirs.length + k + 1) s [d] with
  | true => rfl
  | false =>
    exfalso
    have hlen := walkDirs_length_of_not_done s _ _ hdone
    have hnd := walkDirs_nodup s (fun p a c => edge_parent_unique h) (dirChildren_nodup h) (s.dirs.length + k + 1) [d] hnc
      (by simp [Sep])
    have hsub : walkDirs (s.dirs.length + k + 1) s [d] ⊆ List.range s.dirs.length := by
      intro o ho
      obtain ⟨a, ha, hr⟩ := walkDirs_sound s _ _ o ho
      simp at ha
      subst ha
      exact List.mem_range.mpr (mreach_lt h hd hr)
    have := hnd.length_le_of_subset hsub
    simp at this
    omega

end BbRe.Lemmas.Dir
