import BbRe.Lemmas.DirPosixBulk
/-!
Completeness of the `FilterChildren` traversal (`filterWalk`, the work-list form of
`filterChildrenRecursive`, in_memory_prepopulated_directory.go:622-669).

`walkDirs` is the sequence of directories the traversal enters, `dirItems` what one
directory contributes to the callbacks (all its leaves, hidden ones too, in list order;
or the directory itself when its contents are still pending).  `walkDone` says that the
work list is exhausted before the fuel is (the Go recursion returns); on a hierarchy
with a cycle below the start directory the Go recursion does not return and `walkDone`
is false for every fuel (`walkDone_no_cycle`).
-/
namespace BbRe.Lemmas.Dir
open BbRe.Dir

/-- What the callbacks get for directory `x`. -/
def dirItems (s : Store) (x : Nat) : List Report :=
  match (s.dir x).lazy with
  | some _ => [⟨x, 0, .dir x⟩]
  | none => ((s.dir x).entries.filter (fun e => !e.child.isDir)).map (fun e => ⟨x, e.name, e.child⟩)

/-- The directories `filterWalk` enters, in order. -/
def walkDirs : Nat → Store → List Nat → List Nat
  | 0, _, _ => []
  | _, _, [] => []
  | fuel + 1, s, d :: rest =>
    match (s.dir d).lazy with
    | some _ => d :: walkDirs fuel s rest
    | none => d :: walkDirs fuel s (dirChildren (s.dir d).entries ++ rest)

/-- The work list is exhausted within the fuel. -/
def walkDone : Nat → Store → List Nat → Bool
  | _, _, [] => true
  | 0, _, _ :: _ => false
  | fuel + 1, s, d :: rest =>
    match (s.dir d).lazy with
    | some _ => walkDone fuel s rest
    | none => walkDone fuel s (dirChildren (s.dir d).entries ++ rest)

theorem filterWalk_eq_flatMap (s : Store) : ∀ (fuel : Nat) (stack : List Nat),
    filterWalk fuel s stack = (walkDirs fuel s stack).flatMap (dirItems s)
  | 0, _ => by simp [filterWalk, walkDirs]
  | fuel + 1, [] => by simp [filterWalk, walkDirs]
  | fuel + 1, a :: rest => by
    unfold filterWalk walkDirs
    simp only []
    cases hl : (s.dir a).lazy with
    | some t =>
      simp only [List.flatMap_cons]
      rw [filterWalk_eq_flatMap s fuel rest]
      simp [dirItems, hl]
    | none =>
      simp only [List.flatMap_cons]
      rw [filterWalk_eq_flatMap s fuel _]
      simp [dirItems, hl]

theorem walkDirs_sound (s : Store) : ∀ (fuel : Nat) (stack : List Nat),
    ∀ o ∈ walkDirs fuel s stack, ∃ a ∈ stack, MReach s a o
  | 0, _, o, ho => by simp [walkDirs] at ho
  | fuel + 1, [], o, ho => by simp [walkDirs] at ho
  | fuel + 1, a :: rest, o, ho => by
    unfold walkDirs at ho
    cases hl : (s.dir a).lazy with
    | some t =>
      rw [hl] at ho
      simp only [] at ho
      rcases List.mem_cons.mp ho with h | h
      · exact ⟨a, by simp, by rw [h]; exact MReach.refl a⟩
      · obtain ⟨b, hb, hr⟩ := walkDirs_sound s fuel rest o h
        exact ⟨b, by simp [hb], hr⟩
    | none =>
      rw [hl] at ho
      simp only [] at ho
      rcases List.mem_cons.mp ho with h | h
      · exact ⟨a, by simp, by rw [h]; exact MReach.refl a⟩
      · obtain ⟨b, hb, hr⟩ := walkDirs_sound s fuel _ o h
        rcases List.mem_append.mp hb with h1 | h1
        · exact ⟨a, by simp, MReach.step (mem_dirChildren.mp h1) hr⟩
        · exact ⟨b, by simp [h1], hr⟩

/-- Every directory reachable from the work list is entered when the traversal finishes. -/
theorem walkDirs_complete (s : Store) (hlazy : ∀ a, (s.dir a).lazy ≠ none → (s.dir a).entries = []) :
    ∀ (fuel : Nat) (stack : List Nat), walkDone fuel s stack = true →
      ∀ a ∈ stack, ∀ o, MReach s a o → o ∈ walkDirs fuel s stack
  | _, [], _, a, ha, _, _ => by simp at ha
  | 0, _ :: _, hd, _, _, _, _ => by simp [walkDone] at hd
  | fuel + 1, x :: rest, hd, a, ha, o, hr => by
    unfold walkDone at hd
    unfold walkDirs
    cases hl : (s.dir x).lazy with
    | some t =>
      rw [hl] at hd
      simp only [] at hd
      have hnil : (s.dir x).entries = [] := hlazy x (by simp [hl])
      rcases List.mem_cons.mp ha with h | h
      · subst h
        cases hr with
        | refl => simp
        | step he _ => simp [MEdge, hnil] at he
      · exact List.mem_cons_of_mem _ (walkDirs_complete s hlazy fuel rest hd a h o hr)
    | none =>
      rw [hl] at hd
      simp only [] at hd
      rcases List.mem_cons.mp ha with h | h
      · subst h
        cases hr with
        | refl => simp
        | step he hr' =>
          exact List.mem_cons_of_mem _ (walkDirs_complete s hlazy fuel _ hd _
            (List.mem_append_left _ (mem_dirChildren.mpr he)) o hr')
      · exact List.mem_cons_of_mem _ (walkDirs_complete s hlazy fuel _ hd a
          (List.mem_append_right _ h) o hr)

/-- With a callback that never stops and a traversal that finishes, the callbacks are
exactly the items of the directories reachable from the work list. -/
theorem mem_filterWalk_iff (s : Store) (hlazy : ∀ a, (s.dir a).lazy ≠ none → (s.dir a).entries = [])
    (fuel : Nat) (d : Nat) (hd : walkDone fuel s [d] = true) (r : Report) :
    r ∈ filterWalk fuel s [d] ↔ ∃ o, MReach s d o ∧ r ∈ dirItems s o := by
  rw [filterWalk_eq_flatMap, List.mem_flatMap]
  constructor
  · rintro ⟨o, ho, hr⟩
    obtain ⟨a, ha, hreach⟩ := walkDirs_sound s fuel [d] o ho
    simp at ha
    subst ha
    exact ⟨o, hreach, hr⟩
  · rintro ⟨o, hreach, hr⟩
    exact ⟨o, walkDirs_complete s hlazy fuel [d] hd d (by simp) o hreach, hr⟩

/-- A traversal that finishes has no directory on a cycle in its work list: on a cyclic
hierarchy `filterChildrenRecursive` does not return. -/
theorem walkDone_no_cycle (s : Store) (hlazy : ∀ a, (s.dir a).lazy ≠ none → (s.dir a).entries = []) :
    ∀ (fuel : Nat) (stack : List Nat), walkDone fuel s stack = true →
      ∀ a ∈ stack, ∀ c, MEdge s a c → MReach s c a → False
  | _, [], _, a, ha, _, _, _ => by simp at ha
  | 0, _ :: _, hd, _, _, _, _, _ => by simp [walkDone] at hd
  | fuel + 1, x :: rest, hd, a, ha, c, he, hr => by
    unfold walkDone at hd
    cases hl : (s.dir x).lazy with
    | some t =>
      rw [hl] at hd
      simp only [] at hd
      rcases List.mem_cons.mp ha with h | h
      · subst h
        have hnil : (s.dir a).entries = [] := hlazy a (by simp [hl])
        simp [MEdge, hnil] at he
      · exact walkDone_no_cycle s hlazy fuel rest hd a h c he hr
    | none =>
      rw [hl] at hd
      simp only [] at hd
      rcases List.mem_cons.mp ha with h | h
      · subst h
        -- `c` is pushed and lies on the same cycle
        cases hr with
        | refl =>
          exact walkDone_no_cycle s hlazy fuel _ hd a
            (List.mem_append_left _ (mem_dirChildren.mpr he)) a he (MReach.refl a)
        | step he' hr' =>
          exact walkDone_no_cycle s hlazy fuel _ hd c
            (List.mem_append_left _ (mem_dirChildren.mpr he)) _ he' (hr'.snoc he)
      · exact walkDone_no_cycle s hlazy fuel _ hd a (List.mem_append_right _ h) c he hr

/-- More fuel than needed changes nothing. -/
theorem filterWalk_fuel_stable (s : Store) : ∀ (fuel : Nat) (stack : List Nat), walkDone fuel s stack = true →
    ∀ k, filterWalk (fuel + k) s stack = filterWalk fuel s stack
  | fuel, [], _, k => by
    cases fuel <;> cases k <;> simp [filterWalk]
  | 0, _ :: _, hd, _ => by simp [walkDone] at hd
  | fuel + 1, x :: rest, hd, k => by
    unfold walkDone at hd
    have e : fuel + 1 + k = (fuel + k) + 1 := by omega
    rw [e]
    unfold filterWalk
    simp only []
    cases hl : (s.dir x).lazy with
    | some t =>
      rw [hl] at hd
      simp only [] at hd
      rw [filterWalk_fuel_stable s fuel rest hd k]
    | none =>
      rw [hl] at hd
      simp only [] at hd
      rw [filterWalk_fuel_stable s fuel _ hd k]

end BbRe.Lemmas.Dir
