import BbRe.Lemmas.FilePoolRead
/-!
`Truncate` on `content`: normal form of the four paths, the effect of the
zeroing write and of dropping sectors.
-/
namespace BbRe.Lemmas.FilePool
open BbRe.FilePool

/-- the zeroing write of `Truncate` happens. -/
def zeroCond (c : Cfg) (f : File) (sz : Nat) : Prop :=
  sz % c.ss ≠ 0 ∧ sz < f.size ∧ sz / c.ss < f.sectors.length ∧ f.sectors.getD (sz / c.ss) 0 ≠ 0

instance (c : Cfg) (f : File) (sz : Nat) : Decidable (zeroCond c f sz) := by unfold zeroCond; infer_instance

/-- environment and result of the zeroing write. -/
def truncZr (c : Cfg) (f : File) (e : Env) (sz : Nat) : Env × Option Nat :=
  if zeroCond c f sz then
    e.devWrite ((f.sectors.getD (sz / c.ss) 0 - 1) * c.ss + sz % c.ss)
      (List.replicate (min (c.ss - sz % c.ss) (f.size - sz)) 0)
  else (e, none)

/-- number of sectors kept. -/
def truncK (c : Cfg) (sz : Nat) : Nat := if sz % c.ss = 0 then sz / c.ss else sz / c.ss + 1

/-- `Truncate` to a non-negative size, path by path. -/
theorem truncate_eq (c : Cfg) (f : File) (e : Env) (sz : Nat) :
    truncate c f e (sz : Int) =
      match (truncZr c f e sz).2 with
      | some _ => (f, (truncZr c f e sz).1, some .io)
      | none =>
        let fe := truncateSectors f (truncZr c f e sz).1 (truncK c sz)
        if sz < f.size then
          if fe.2.faults.ht then (fe.1, { fe.2 with faults := { fe.2.faults with ht := false } }, some .hole)
          else ({ fe.1 with size := sz, hole := f.hole.truncate sz }, fe.2, none)
        else ({ fe.1 with size := sz }, fe.2, none) := by
  unfold truncate truncZr truncK zeroCond
  rw [if_neg (by omega)]
  simp only [Int.toNat_natCast]
  rfl

theorem truncate_neg (c : Cfg) (f : File) (e : Env) (size : Int) (h : size < 0) :
    truncate c f e size = (f, e, some .invalid) := by
  unfold truncate; rw [if_pos h]

theorem getD_replicate_zero (k j : Nat) : (List.replicate k (0 : Byte)).getD j 0 = 0 := by
  simp only [List.getD_eq_getElem?_getD, List.getElem?_replicate]
  split <;> rfl

theorem getD_take_replicate_zero (k m j : Nat) : ((List.replicate k (0 : Byte)).take m).getD j 0 = 0 := by
  rw [List.take_replicate, getD_replicate_zero]

/-- effect of the zeroing write (complete or cut short by a device fault) on the contents. -/
theorem truncZr_content {O : Nat → Prop} {c : Cfg} {f : File} {e : Env} (sz : Nat) (hss : 0 < c.ss)
    (hP : Part c.nsec O e.allocd (nz f.sectors)) :
    ∃ m, m ≤ min (c.ss - sz % c.ss) (f.size - sz) ∧
      ((truncZr c f e sz).2 = none → zeroCond c f sz → m = min (c.ss - sz % c.ss) (f.size - sz)) ∧
      (∀ i, content c.ss (truncZr c f e sz).1.dev f i =
        if zeroCond c f sz ∧ sz ≤ i ∧ i < sz + m then 0 else content c.ss e.dev f i) ∧
      (∀ t k, k < c.ss → O (t + 1) → rd (truncZr c f e sz).1.dev (t * c.ss + k) = rd e.dev (t * c.ss + k)) ∧
      SameAlloc e (truncZr c f e sz).1 := by
  unfold truncZr
  split
  · rename_i hz
    obtain ⟨hz1, hz2, hz3, hz4⟩ := hz
    obtain ⟨m, hm, hdev, _, hnone⟩ := devWrite_dev e ((f.sectors.getD (sz / c.ss) 0 - 1) * c.ss + sz % c.ss)
      (List.replicate (min (c.ss - sz % c.ss) (f.size - sz)) 0)
    rw [List.length_replicate] at hm hnone
    obtain ⟨hc1, hc2, _, _, hc5⟩ := contig_spec f.sectors (sz / c.ss) (sz / c.ss + 1) hz3
    have hcs : c.ss ≤ (contig f.sectors (sz / c.ss) (sz / c.ss + 1)).2 * c.ss := Nat.le_mul_of_pos_left c.ss hc2
    have hmod := Nat.mod_lt sz hss
    have hov := fun i => overwrite_content (f := f) (e := e)
      (List.replicate (min (c.ss - sz % c.ss) (f.size - sz)) 0) (sz / c.ss) (sz / c.ss + 1) (sz % c.ss) m hss hmod hz3
      (by rw [hc1]; exact hz4) hP (by omega) (by rw [List.length_replicate]; exact hm) i
    rw [hc1, div_mul_mod] at hov
    refine ⟨m, hm, fun hn _ => hnone hn, fun i => ?_, fun t k hk ho => ?_, devWrite_same _ _ _⟩
    · rw [hdev, hov i]
      unfold overlay
      have hl : ((List.replicate (min (c.ss - sz % c.ss) (f.size - sz)) (0 : Byte)).take m).length = m := by
        rw [List.length_take, List.length_replicate]; omega
      rw [hl]
      by_cases hin : sz ≤ i ∧ i < sz + m
      · rw [if_pos hin, if_pos ⟨⟨hz1, hz2, hz3, hz4⟩, hin⟩, getD_take_replicate_zero]
      · rw [if_neg hin, if_neg (fun hc => hin hc.2)]
    · rw [hdev, rd_writeBytes_outside]
      rw [List.length_take, List.length_replicate]
      have hnot := (oth_frame hP ho).2
      obtain ⟨t0, ht0⟩ : ∃ t0, f.sectors.getD (sz / c.ss) 0 = t0 + 1 := ⟨f.sectors.getD (sz / c.ss) 0 - 1, by omega⟩
      have hne : t ≠ t0 := by
        intro heq; apply hnot
        rw [heq, ← ht0]
        exact (mem_iff_getD hz4).mpr ⟨_, rfl⟩
      rw [ht0, Nat.add_sub_cancel]
      have := pos_outside c.ss t t0 1 k hk (by omega)
      rw [Nat.add_mul, Nat.one_mul] at this
      omega
  · rename_i hz
    refine ⟨0, Nat.zero_le _, fun _ h => absurd h hz, fun i => ?_, fun _ _ _ _ => rfl, SameAlloc.refl e⟩
    rw [if_neg (fun hc => hz hc.1)]

/-- dropping sectors: entries below `k` stay, everything from `k` on is a hole. -/
theorem truncateSectors_getD (f : File) (e : Env) (k q : Nat) :
    (truncateSectors f e k).1.sectors.getD q 0 = if q < k then f.sectors.getD q 0 else 0 := by
  unfold truncateSectors
  split
  · dsimp only
    rw [trimZeros_getD]
    simp only [List.getD_eq_getElem?_getD, List.getElem?_take]
    split <;> rfl
  · rename_i hlen
    split
    · rfl
    · simp [List.getD_eq_getElem?_getD, List.getElem?_eq_none (show f.sectors.length ≤ q by omega)]

theorem hole_truncate_read (h : Hole) (sz i : Nat) :
    (h.truncate sz).read i = if i < sz then h.read i else 0 := by
  unfold Hole.read Hole.isData Hole.truncate
  dsimp only
  by_cases hi : i < sz
  · rw [if_pos hi]
    by_cases hl : i < h.limit
    · have : i < min h.limit sz := by omega
      simp [hl, this]
    · have : ¬ i < min h.limit sz := by omega
      simp [hl, this]
  · rw [if_neg hi]
    have : ¬ i < min h.limit sz := by omega
    simp [this]

end BbRe.Lemmas.FilePool
