import BbRe.Model.NaiveDir
import BbRe.Lemmas.InputRootHardLink
/-!
The eager walk through the hard-linking file fetcher (`mergeHL`): what one `GetFile` of the
walk does to the build directory and to the cache, under the cache invariant of
`Lemmas/InputRootHardLink.lean`.
-/
namespace BbRe.Lemmas.NaiveDir
open BbRe.InputRoot BbRe.NaiveDir BbRe.InputRoot.HardLink BbRe.Lemmas.InputRoot.HardLink

/-- The cache invariant: regular files in the cache directory have the contents of their
key, the bookkeeping is within its limits. -/
def CacheInv (s : HardLink.State) : Prop :=
  CacheClean s.disk ∧ Lim s.maxFiles s.maxSize s.entries

theorem cacheInv_tryLink (s : HardLink.State) (k : Nat) (h : CacheInv s) : CacheInv (tryLink s k).1 := by
  obtain ⟨h1, h2, h3, h4, _⟩ := tryLink_facts s k
  refine ⟨by rw [h1]; exact h.1, ?_⟩
  rw [h2, h3]; exact h4 h.2

theorem cacheInv_getFile (s : HardLink.State) (k size : Nat) (casHas : Bool) (h : CacheInv s) :
    CacheInv (HardLink.getFile s k size casHas).1 := by
  obtain ⟨h1, h2, h3, h4, _⟩ := getFile_inv s k size casHas h.1 h.2
  refine ⟨h1, ?_⟩
  rw [h3, h4]; exact h2

/-- One `GetFile` of the walk: the cache invariant is kept; and if it reports success the
name was free and exactly the requested file (digest, executable bit) is now there. -/
theorem getFileHL_spec (c : CAS) (O : Oracle) (K : HLParams) (hK : ∀ d x, K.unkey (K.key d x) = (d, x))
    (s : HardLink.State) (q : Path) (d : Dig) (exec : Bool) (name : Name) (ch : Children)
    (h : CacheInv s) :
    CacheInv (getFileHL c O K s q d exec name ch).1 ∧
    ∀ ch', (getFileHL c O K s q d exec name ch).2 = some ch' →
      hasName ch name = false ∧ ch' = ch ++ [(name, .file d exec none)] := by
  unfold getFileHL
  split
  · exact ⟨cacheInv_tryLink s _ h, fun ch' h' => by cases h'⟩
  · rename_i hn
    simp only
    generalize hcas : (!(O.fails .create q) && !(O.cas.contains d) && (assoc c.blobs d).isSome &&
      !(O.fails .chtimes q)) = casHas
    have hinv := cacheInv_getFile s (K.key d exec) d.size casHas h
    have hres := (getFile_inv s (K.key d exec) d.size casHas h.1 h.2).2.2.2.2 _ rfl
    generalize HardLink.getFile s (K.key d exec) d.size casHas = g at hinv hres
    obtain ⟨s', r⟩ := g
    rcases hres with hr | hr
    · simp only at hr; subst hr
      refine ⟨hinv, fun ch' h' => ?_⟩
      simp only [Option.some.injEq] at h'
      rw [hK] at h'
      exact ⟨by simpa using hn, h'.symm⟩
    · simp only at hr; subst hr
      exact ⟨hinv, fun ch' h' => by cases h'⟩

/-- The file loop step: invariant kept; a step that goes on without a failed download has
appended exactly the requested file under a valid, fresh name — the same conclusion
`fileStep_next` has for the plain fetcher. -/
theorem fileStepHL_next (c : CAS) (O : Oracle) (K : HLParams) (hK : ∀ d x, K.unkey (K.key d x) = (d, x))
    (p : Path) (e : FileNode) (s : HardLink.State) (ch : Children) (bad : Bool) (h : CacheInv s) :
    CacheInv (fileStepHL c O K p e s ch bad).1 ∧
    ∀ ch', (fileStepHL c O K p e s ch bad).2 = .next ch' false →
      bad = false ∧ validName e.name = true ∧ hasName ch e.name = false ∧
      ∃ d, parseDigest c.hashLen e.digest = some d ∧ ch' = ch ++ [(e.name, .file d e.exec none)] := by
  unfold fileStepHL
  split
  · exact ⟨h, fun ch' h' => by cases h'⟩
  · rename_i hv
    split
    · exact ⟨h, fun ch' h' => by cases h'⟩
    · rename_i d hd
      split
      · exact ⟨h, fun ch' h' => by cases h'⟩
      · have hs := getFileHL_spec c O K hK s (p ++ [e.name]) d e.exec e.name ch h
        generalize getFileHL c O K s (p ++ [e.name]) d e.exec e.name ch = g at hs
        obtain ⟨s', o⟩ := g
        cases o with
        | none => exact ⟨hs.1, fun ch' h' => by simp at h'⟩
        | some ch'' =>
          refine ⟨hs.1, fun ch' h' => ?_⟩
          simp only [StepR.next.injEq] at h'
          obtain ⟨rfl, rfl⟩ := h'
          obtain ⟨h1, h2⟩ := hs.2 _ rfl
          exact ⟨rfl, by simpa using hv, h1, d, hd, h2⟩

/-- Whatever happens to the cache directory behind the worker's back (entries deleted or
replaced by directories) before a `GetFile` of the walk: the invariant survives, and the call
re-downloads, links or fails — it never puts another file into the build directory. -/
theorem getFileHL_after_fault (c : CAS) (O : Oracle) (K : HLParams) (hK : ∀ d x, K.unkey (K.key d x) = (d, x))
    (s : HardLink.State) (fl : Fault) (q : Path) (d : Dig) (exec : Bool) (name : Name) (ch : Children)
    (h : CacheInv s) :
    CacheInv (getFileHL c O K (fault s fl) q d exec name ch).1 ∧
    ∀ ch', (getFileHL c O K (fault s fl) q d exec name ch).2 = some ch' →
      ch' = ch ++ [(name, .file d exec none)] := by
  obtain ⟨f1, f2, f3, f4⟩ := fault_inv s fl h.1
  have hi : CacheInv (fault s fl) := ⟨f1, by rw [f2, f3, f4]; exact h.2⟩
  obtain ⟨a, b⟩ := getFileHL_spec c O K hK (fault s fl) q d exec name ch hi
  exact ⟨a, fun ch' h' => (b ch' h').2⟩

end BbRe.Lemmas.NaiveDir
