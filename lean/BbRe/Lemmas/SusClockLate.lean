import BbRe.Lemmas.SusClock
/-!
Helper lemmas for C11, part 1b: what `getTotalUnsuspendedWithTime(T)` returns
when it is evaluated late, i.e. on a clock state that already contains
`Suspend`/`Resume` calls made after the stamp `T` (`charge_bracket`).
-/
namespace BbRe.Lemmas.SusClock
open BbRe.SusClock

/-! ### prefixes of a timeline -/

theorem sortedFrom_append_left {lo : Nat} : ∀ (p q : List Ev), sortedFrom lo (p ++ q) = true → sortedFrom lo p = true
  | [], _, _ => rfl
  | e :: p, q, h => by
    simp only [List.cons_append, sortedFrom, Bool.and_eq_true, decide_eq_true_eq] at h ⊢
    exact ⟨h.1, sortedFrom_append_left p q h.2⟩

theorem balancedFrom_append_left : ∀ (p q : List Ev) (n : Nat), balancedFrom n (p ++ q) = true → balancedFrom n p = true
  | [], _, _, _ => rfl
  | .suspend _ :: p, q, n, h => by
    simp only [List.cons_append, balancedFrom] at h ⊢
    exact balancedFrom_append_left p q _ h
  | .resume _ :: p, q, n, h => by
    simp only [List.cons_append, balancedFrom, Bool.and_eq_true, decide_eq_true_eq] at h ⊢
    exact ⟨h.1, balancedFrom_append_left p q _ h.2⟩

/-- time of the last call of `p` (`L0` if there is none). -/
def lastFrom (L0 : Nat) : List Ev → Nat
  | [] => L0
  | e :: p => lastFrom e.time p

theorem lastFrom_le {at_ : Nat} : ∀ (p : List Ev) (L0 : Nat), L0 ≤ at_ → (∀ e ∈ p, e.time ≤ at_) → lastFrom L0 p ≤ at_
  | [], _, h, _ => h
  | e :: p, _, _, h =>
    lastFrom_le p e.time (h e (List.mem_cons_self ..)) (fun e' he' => h e' (List.mem_cons_of_mem _ he'))

theorem le_lastFrom : ∀ (p : List Ev) (L0 : Nat), sortedFrom L0 p = true →
    L0 ≤ lastFrom L0 p ∧ ∀ e ∈ p, e.time ≤ lastFrom L0 p
  | [], _, _ => ⟨Nat.le_refl _, by simp⟩
  | e :: p, L0, h => by
    simp only [sortedFrom, Bool.and_eq_true, decide_eq_true_eq] at h
    have ih := le_lastFrom p e.time h.2
    refine ⟨Nat.le_trans h.1 ih.1, ?_⟩
    intro e' he'
    cases he' with
    | head => exact ih.1
    | tail _ hm => exact ih.2 e' hm

/-- While the count is 0, `unsuspensionStart` is the time of the last call. -/
theorem foldl_us : ∀ (p : List Ev) (c : Clk) (L0 : Nat), c.us ≤ L0 → (c.cnt = 0 → c.us = L0) →
    sortedFrom L0 p = true → balancedFrom c.cnt p = true →
    (p.foldl Clk.apply c).us ≤ lastFrom L0 p ∧ ((p.foldl Clk.apply c).cnt = 0 → (p.foldl Clk.apply c).us = lastFrom L0 p)
  | [], c, L0, h1, h2, _, _ => ⟨h1, h2⟩
  | e :: p, c, L0, h1, h2, hs, hb => by
    simp only [sortedFrom, Bool.and_eq_true, decide_eq_true_eq] at hs
    simp only [List.foldl_cons, lastFrom]
    cases e with
    | suspend t =>
      simp only [balancedFrom] at hb
      simp only [Ev.time] at hs
      exact foldl_us p (c.apply (.suspend t)) t (by simp [Clk.apply, Clk.suspend]; omega)
        (by simp [Clk.apply, Clk.suspend]) hs.2 (by simpa [Clk.apply, Clk.suspend] using hb)
    | resume t =>
      simp only [balancedFrom, Bool.and_eq_true, decide_eq_true_eq] at hb
      simp only [Ev.time] at hs
      have hc : c.cnt ≠ 0 := hb.1
      refine foldl_us p (c.apply (.resume t)) t ?_ ?_ hs.2 (by simpa [Clk.apply, Clk.resume, hc] using hb.2)
      · simp only [Clk.apply, Clk.resume, hc, if_false]
        split <;> omega
      · simp only [Clk.apply, Clk.resume, hc, if_false]
        intro h0
        simp [h0]

theorem runTo_all : ∀ (p : List Ev) (c : Clk) (x : Nat), (∀ e ∈ p, e.time ≤ x) → runTo c p x = p.foldl Clk.apply c
  | [], _, _, _ => rfl
  | e :: p, c, x, h => by
    have he := h e (List.mem_cons_self ..)
    simp only [runTo, he, if_true, List.foldl_cons]
    exact runTo_all p _ x (fun e' he' => h e' (List.mem_cons_of_mem _ he'))

theorem cnt_zero_of_all_ge {at_ τ : Nat} (hτ : τ < at_) (q : List Ev) (h : ∀ e ∈ q, at_ ≤ e.time) :
    cntS q τ = 0 ∧ cntR q τ = 0 := by
  unfold cntS cntR
  simp only [List.countP_eq_zero, Bool.and_eq_true, decide_eq_true_eq, not_and, Nat.not_le]
  exact ⟨fun e he _ => Nat.lt_of_lt_of_le hτ (h e he), fun e he _ => Nat.lt_of_lt_of_le hτ (h e he)⟩

/-- Calls at or after `at_` do not influence the unsuspended time up to `at_`. -/
theorem unsuspTo_append {at_ x : Nat} (p q : List Ev) (h : ∀ e ∈ q, at_ ≤ e.time) (hx : x ≤ at_) :
    unsuspTo (p ++ q) x = unsuspTo p x := by
  unfold unsuspTo
  apply countFree_congr
  intro τ _ hτ
  have hz := cnt_zero_of_all_ge (at_ := at_) (τ := τ) (by omega) q h
  simp only [depthAt, depthFrom, cntS, cntR, List.countP_append] at hz ⊢
  omega

/-- **What the guard `now.After(unsuspensionStart)` is for.** Let the expiry stamped `T`
be handled at `at_ ≥ T`, when exactly the first `pos` calls have happened. Then
`getTotalUnsuspendedWithTime(T)` never under-counts the stamp and never over-counts
the present: `unsuspTo T ≤ value ≤ unsuspTo at_`. It is exactly `unsuspTo T` when no
`Suspend` has intervened (count 0 and `unsuspensionStart < T`), and in particular
whenever `at_ = T`. -/
theorem charge_bracket {tl : List Ev} (hs : Sorted tl) (hb : Balanced tl) {pos at_ T : Nat}
    (hv : validPos tl pos at_ = true) (hT : T ≤ at_) :
    unsuspTo tl T ≤ (stateAt tl pos).totalWithTime T ∧ (stateAt tl pos).totalWithTime T ≤ unsuspTo tl at_ ∧
    ((stateAt tl pos).cnt = 0 → (stateAt tl pos).us < T → (stateAt tl pos).totalWithTime T = unsuspTo tl T) := by
  simp only [validPos, Bool.and_eq_true, List.all_eq_true, decide_eq_true_eq] at hv
  have hsplit : tl.take pos ++ tl.drop pos = tl := List.take_append_drop pos tl
  have hsp : sortedFrom 0 (tl.take pos) = true := sortedFrom_append_left _ (tl.drop pos) (by rw [hsplit]; exact hs)
  have hbp : balancedFrom 0 (tl.take pos) = true := balancedFrom_append_left _ (tl.drop pos) 0 (by rw [hsplit]; exact hb)
  have hus := foldl_us (tl.take pos) Clk.init 0 (Nat.le_refl 0) (fun _ => rfl) hsp hbp
  have hL := le_lastFrom (tl.take pos) 0 hsp
  have hLat : lastFrom 0 (tl.take pos) ≤ at_ := lastFrom_le _ 0 (Nat.zero_le _) hv.1
  -- the state's running total, read at any x between the last call and at_, is the specification
  have htot : ∀ x, lastFrom 0 (tl.take pos) ≤ x → x ≤ at_ → (stateAt tl pos).totalNow x = unsuspTo tl x := by
    intro x h1 h2
    have h3 := clockAt_total (tl := tl.take pos) hsp hbp x
    rw [clockAt, runTo_all _ _ x (fun e he => Nat.le_trans (hL.2 e he) h1)] at h3
    have hU : unsuspTo tl x = unsuspTo (tl.take pos) x := by
      have := unsuspTo_append (tl.take pos) (tl.drop pos) hv.2 h2
      rwa [hsplit] at this
    rw [hU]
    exact h3
  generalize hc : stateAt tl pos = c at *
  have hcdef : (tl.take pos).foldl Clk.apply Clk.init = c := hc
  rw [hcdef] at hus
  by_cases h0 : c.cnt = 0
  · by_cases h1 : c.us < T
    · have hval : c.totalWithTime T = c.totalNow T := by simp [Clk.totalWithTime, Clk.totalNow, h0, h1]
      have := htot T (by rw [← hus.2 h0]; omega) hT
      rw [hval, this]
      exact ⟨Nat.le_refl _, unsuspTo_mono tl hT, fun _ _ => rfl⟩
    · have hval : c.totalWithTime T = c.totalNow c.us := by simp [Clk.totalWithTime, Clk.totalNow, h0, h1]
      have hL' := hus.2 h0
      have := htot c.us (by omega) (by omega)
      rw [hval, this]
      exact ⟨unsuspTo_mono tl (by omega), unsuspTo_mono tl (by omega), fun _ h => absurd h h1⟩
  · have hval : c.totalWithTime T = c.totalNow at_ := by simp [Clk.totalWithTime, Clk.totalNow, h0]
    have := htot at_ hLat (Nat.le_refl _)
    rw [hval, this]
    exact ⟨unsuspTo_mono tl hT, Nat.le_refl _, fun h => absurd h h0⟩

end BbRe.Lemmas.SusClock
