import BbRe.Model.ISC
/-!
Helper lemmas for C07 (b): `Outcomes.IsFaster` stays strictly between 0 and 1.
-/
namespace BbRe.Lemmas.ISC
open BbRe.ISC

theorem takeEq_count (c : Int) (xs : List Int) :
    (takeEq c xs).1 + (takeEq c xs).2.length = xs.length := by
  induction xs with
  | nil => simp [takeEq]
  | cons x xs ih =>
    unfold takeEq; split
    · simp only [List.length_cons]; omega
    · simp

/-- The merge loop only ever adds non-negative amounts, and at most two points per
(element of A, remaining element of B) pair. -/
theorem mergeScore_bounds (A B : List Int) (score remB : Int) (h : (B.length : Int) ≤ remB) :
    score ≤ mergeScore A B score remB ∧
    mergeScore A B score remB ≤ score + 2 * (A.length : Int) * remB := by
  fun_induction mergeScore A B score remB with
  | case1 B score remB => simp
  | case2 score remB a A' =>
    have : (0 : Int) ≤ remB := by simp at h; exact h
    have h2 : (0 : Int) ≤ ((a :: A').length : Int) := by omega
    have := Int.mul_nonneg h2 this
    constructor <;> grind
  | case3 score remB a A' b B' hlt ih =>
    have ih := ih h
    simp only [List.length_cons] at ih h ⊢
    have hB : (0 : Int) ≤ remB := by omega
    constructor
    · omega
    · have : (2 : Int) * ((A'.length : Int) + 1) * remB = 2 * (A'.length : Int) * remB + 2 * remB := by grind
      push_cast
      omega
  | case4 score remB a A' b B' hlt hgt ih =>
    simp only [List.length_cons] at h
    have ih := ih (by omega)
    have hA : (0 : Int) ≤ ((a :: A').length : Int) := by omega
    constructor
    · omega
    · have : 2 * ((a :: A').length : Int) * (remB - 1) ≤ 2 * ((a :: A').length : Int) * remB := by grind
      omega
  | case5 score remB a A' b B' hlt hgt ea eb ih =>
    simp only [List.length_cons] at h
    have cA := takeEq_count a A'
    have cB := takeEq_count a B'
    have hea : (0 : Int) ≤ ea := by simp only [ea]; omega
    have heb : (0 : Int) ≤ eb := by simp only [eb]; omega
    have hebB : eb ≤ remB := by simp only [eb]; omega
    have ih := ih (by simp only [eb]; omega)
    have hA2 : (0 : Int) ≤ ((takeEq a A').2.length : Int) := by omega
    have hlenA : ((a :: A').length : Int) = ea + ((takeEq a A').2.length : Int) := by
      simp only [ea, List.length_cons]; omega
    have p1 := Int.mul_nonneg hea heb
    have p2 := Int.mul_nonneg hA2 heb
    have p3 : (0 : Int) ≤ ea * (2 * remB - eb) := Int.mul_nonneg hea (by omega)
    constructor
    · omega
    · rw [hlenA]
      grind

theorem isFasterScore_pos (a b : Outcomes) : 0 < isFasterScore a b := by
  unfold isFasterScore Outcomes.count
  have h := (mergeScore_bounds a.successes b.successes
    (1 + ((b.successes.length : Int) + (b.failures : Int))) ((b.successes.length : Int) + (b.failures : Int)) (by omega)).1
  have : (0 : Int) ≤ (a.failures : Int) * (b.failures : Int) := Int.mul_nonneg (by omega) (by omega)
  omega

theorem isFasterScore_lt_denom (a b : Outcomes) : isFasterScore a b < isFasterDenom a b := by
  unfold isFasterScore isFasterDenom Outcomes.count
  have h := (mergeScore_bounds a.successes b.successes
    (1 + ((b.successes.length : Int) + (b.failures : Int))) ((b.successes.length : Int) + (b.failures : Int)) (by omega)).2
  have hfa : (0 : Int) ≤ (a.failures : Int) := by omega
  have hfb : (0 : Int) ≤ (b.failures : Int) := by omega
  have hla : (0 : Int) ≤ (a.successes.length : Int) := by omega
  have hlb : (0 : Int) ≤ (b.successes.length : Int) := by omega
  have p1 := Int.mul_nonneg hfa hfb
  have p2 := Int.mul_nonneg hfa hlb
  have p3 := Int.mul_nonneg hla hlb
  have p4 := Int.mul_nonneg hla hfb
  grind

theorem isFasterDenom_pos (a b : Outcomes) : 0 < isFasterDenom a b := by
  have := isFasterScore_pos a b
  have := isFasterScore_lt_denom a b
  omega

theorem isFaster_pos (a b : Outcomes) : 0 < isFaster a b := by
  unfold isFaster
  have hs : (0 : Rat) < (isFasterScore a b : Rat) := by exact_mod_cast isFasterScore_pos a b
  have hd : (0 : Rat) < (isFasterDenom a b : Rat) := by exact_mod_cast isFasterDenom_pos a b
  rw [Rat.div_def]
  exact Rat.mul_pos hs (Rat.inv_pos.mpr hd)

theorem isFaster_lt_one (a b : Outcomes) : isFaster a b < 1 := by
  unfold isFaster
  have hd : (0 : Rat) < (isFasterDenom a b : Rat) := by exact_mod_cast isFasterDenom_pos a b
  have hlt : (isFasterScore a b : Rat) < (isFasterDenom a b : Rat) := by exact_mod_cast isFasterScore_lt_denom a b
  rw [Rat.div_lt_iff hd]
  simpa using hlt

end BbRe.Lemmas.ISC
