import BbRe.Lemmas.FilePoolWriteStep
/-!
`WriteAt` on `content`: the loop, then the size update.
-/
namespace BbRe.Lemmas.FilePool
open BbRe.FilePool

theorem overlay_compose (base : Nat → Byte) (pos : Nat) (p : List Byte) (n1 n2 : Nat) (h1 : n1 ≤ p.length)
    (i : Nat) :
    overlay (overlay base pos (p.take n1)) (pos + n1) ((p.drop n1).take n2) i =
      overlay base pos (p.take (n1 + n2)) i := by
  unfold overlay
  have hl1 : (p.take n1).length = n1 := by rw [List.length_take]; omega
  have hl2 : ((p.drop n1).take n2).length = min n2 (p.length - n1) := by
    rw [List.length_take, List.length_drop]
  have hl3 : (p.take (n1 + n2)).length = n1 + min n2 (p.length - n1) := by
    rw [List.length_take]; omega
  rw [hl1, hl2, hl3]
  by_cases ha : pos + n1 ≤ i ∧ i < pos + n1 + min n2 (p.length - n1)
  · rw [if_pos ha, if_pos (by omega), getD_take _ _ _ (by omega), getD_dropB, getD_take _ _ _ (by omega)]
    congr 1; omega
  · rw [if_neg ha]
    by_cases hb : pos ≤ i ∧ i < pos + n1
    · rw [if_pos hb, if_pos (by omega), getD_take _ _ _ (by omega), getD_take _ _ _ (by omega)]
    · rw [if_neg hb, if_neg (by omega)]

theorem oth_frame {n : Nat} {O : Nat → Prop} {A secs : List Nat} (hP : Part n O A (nz secs)) {t : Nat}
    (ho : O (t + 1)) : t + 1 ∈ A ∧ t + 1 ∉ secs := by
  refine ⟨(hP.mem _).mpr (Or.inr ho), fun hmem => ?_⟩
  exact hP.sep _ (mem_nz.mpr ⟨hmem, by omega⟩) ho

theorem writeLoop_content {O : Nat → Prop} {c : Cfg} (hss : 0 < c.ss) : ∀ (fuel : Nat) (f : File) (e : Env)
    (p : List Byte) (idx endIdx ow : Nat), ow < c.ss → 0 < p.length → p.length < fuel →
    Part c.nsec O e.allocd (nz f.sectors) → e.dfree = false →
    (∀ i, content c.ss (writeLoop c fuel f e p idx endIdx ow).2.1.dev (writeLoop c fuel f e p idx endIdx ow).1 i =
        overlay (content c.ss e.dev f) (idx * c.ss + ow) (p.take (writeLoop c fuel f e p idx endIdx ow).2.2.1) i) ∧
      (writeLoop c fuel f e p idx endIdx ow).2.2.1 ≤ p.length ∧
      ((writeLoop c fuel f e p idx endIdx ow).2.2.2 = none →
        (writeLoop c fuel f e p idx endIdx ow).2.2.1 = p.length) ∧
      (writeLoop c fuel f e p idx endIdx ow).2.2.2 ≠ some .panic ∧
      (∀ t k, k < c.ss → O (t + 1) →
        rd (writeLoop c fuel f e p idx endIdx ow).2.1.dev (t * c.ss + k) = rd e.dev (t * c.ss + k)) := by
  intro fuel
  induction fuel with
  | zero => intro f e p idx endIdx ow _ _ hfu; omega
  | succ fuel ih =>
    intro f e p idx endIdx ow how hp hfu hP hd
    have hpart := writeToSectors_part p idx endIdx ow how hP hd
    obtain ⟨hcont, hnle, hbd, hfr⟩ := writeToSectors_content (O := O) (f := f) (e := e) p idx endIdx ow hss how hp hP
    unfold writeLoop
    dsimp only
    generalize hr : writeToSectors c f e p idx endIdx ow = r at *
    split
    · rename_i hstop
      refine ⟨hcont, hnle, fun hnone => ?_, hpart.2.2.2.2, fun t k hk ho => ?_⟩
      · rcases hstop with hemp | hsome
        · have : (List.drop r.2.2.1 p).length = 0 := by
            rw [List.isEmpty_iff] at hemp; rw [hemp]; rfl
          rw [List.length_drop] at this; dsimp only; omega
        · rw [hnone] at hsome; simp at hsome
      · have := oth_frame hP ho
        exact hfr t k hk this.1 this.2
    · rename_i hcontn
      have hnone : r.2.2.2 = none := by
        cases hx : r.2.2.2 with
        | none => rfl
        | some x => exfalso; apply hcontn; right; rw [hx]; rfl
      have hne : ¬ (List.drop r.2.2.1 p).isEmpty = true := fun h => hcontn (Or.inl h)
      have hlt : r.2.2.1 < p.length := by
        rcases Nat.lt_or_ge r.2.2.1 p.length with h | h
        · exact h
        · exfalso; apply hne; rw [List.isEmpty_iff, List.drop_eq_nil_of_le h]
      have hb := hbd hnone
      have hb' : 0 < r.2.2.1 ∧ (ow + r.2.2.1) % c.ss = 0 := by
        rcases hb with hb | hb
        · omega
        · exact hb
      split
      · rename_i hpanic; exact absurd hb'.2 hpanic
      · have hpos : (idx + (ow + r.2.2.1) / c.ss) * c.ss + 0 = idx * c.ss + ow + r.2.2.1 := by
          have := div_mul_mod (ow + r.2.2.1) c.ss
          rw [hb'.2] at this
          rw [Nat.add_mul]; omega
        have hrest : 0 < (List.drop r.2.2.1 p).length := by rw [List.length_drop]; omega
        obtain ⟨ic, il, inn, ipn, ifr⟩ := ih r.1 r.2.1 (List.drop r.2.2.1 p) (idx + (ow + r.2.2.1) / c.ss) endIdx 0
          hss hrest (by rw [List.length_drop]; omega) hpart.1 hpart.2.1
        rw [List.length_drop] at il inn
        refine ⟨fun i => ?_, by dsimp only; omega, fun hn => ?_, ipn, fun t k hk ho => ?_⟩
        · dsimp only
          rw [ic i, hpos]
          have : ∀ x, content c.ss r.2.1.dev r.1 x =
              overlay (content c.ss e.dev f) (idx * c.ss + ow) (p.take r.2.2.1) x := hcont
          rw [show content c.ss r.2.1.dev r.1 = overlay (content c.ss e.dev f) (idx * c.ss + ow) (p.take r.2.2.1)
            from funext this]
          exact overlay_compose _ _ _ _ _ hnle i
        · have := inn hn; dsimp only; omega
        · dsimp only
          rw [ifr t k hk ho]
          have := oth_frame hP ho
          exact hfr t k hk this.1 this.2

end BbRe.Lemmas.FilePool
