import BbRe.Lemmas.PoolStack
/-!
Step- and history-level lemmas for `Properties/C15Stack.lean`: what one step of the composed model
can do to its three components.
-/
namespace BbRe.Lemmas.PoolStack
open BbRe BbRe.PoolStack BbRe.FilePool

/-- the quota component after a step: unchanged, or one `Quota.step` -/
def QMove (q q' : Quota.State) : Prop := q' = q ∨ ∃ qop qr, Quota.step q qop = some qr ∧ q' = qr.1

/-- A step leaves the state alone, or is one call into the base followed by a quota move, or raises
the flag. -/
theorem step_shape (st : PoolStack.State) (op : Op) (inp : Inputs) :
    (PoolStack.step st op inp).1 = st ∨
      (∃ q, (PoolStack.step st op inp).1 = { (base st op inp).1 with q := q } ∧ QMove st.q q) ∨
      (PoolStack.step st op inp).1 = { (base st op inp).1 with broken := true } := by
  have hb : ∀ (x : PoolStack.State), x = { x with q := x.q } := fun _ => rfl
  have hq : (base st op inp).1.q = st.q := rfl
  have keep : (base st op inp).1 = st ∨
      (∃ q, (base st op inp).1 = { (base st op inp).1 with q := q } ∧ QMove st.q q) ∨
      (base st op inp).1 = { (base st op inp).1 with broken := true } :=
    Or.inr (Or.inl ⟨st.q, by rw [← hq], Or.inl rfl⟩)
  have hsettle : ∀ qop, (settle (base st op inp) st.q qop).1 = st ∨
      (∃ q, (settle (base st op inp) st.q qop).1 = { (base st op inp).1 with q := q } ∧ QMove st.q q) ∨
      (settle (base st op inp) st.q qop).1 = { (base st op inp).1 with broken := true } := by
    intro qop
    unfold settle
    split
    · rename_i qr hqr
      exact Or.inr (Or.inl ⟨qr.1, rfl, Or.inr ⟨qop, qr, hqr, rfl⟩⟩)
    · exact Or.inr (Or.inr rfl)
  unfold PoolStack.step
  split
  · dsimp only
    split
    · exact Or.inr (Or.inl ⟨_, rfl, Or.inr ⟨.newFile _ true, _, rfl, rfl⟩⟩)
    · exact Or.inl rfl
  · split
    · exact keep
    · exact Or.inl rfl
  · split
    · exact keep
    · exact Or.inl rfl
  · split
    · exact keep
    · exact Or.inl rfl
  · split
    · split
      · dsimp only
        split
        · exact hsettle _
        · exact keep
      · exact Or.inl rfl
    · exact Or.inl rfl
  · split
    · dsimp only
      split
      · split
        · exact hsettle _
        · exact keep
      · exact Or.inl rfl
    · exact Or.inl rfl
  · split
    · dsimp only
      split
      · exact hsettle _
      · exact keep
    · exact Or.inl rfl

theorem base_fp (st : PoolStack.State) (op : Op) (inp : Inputs) :
    (base st op inp).1.fp = (FilePool.step st.fp op { answers := (answersFor st op inp).2, faults := inp.faults }).1 := rfl

theorem base_broken (st : PoolStack.State) (op : Op) (inp : Inputs) (h : st.broken = true) :
    (base st op inp).1.broken = true := by
  unfold base; dsimp only; rw [h]; rfl

theorem step_fpInv {st : PoolStack.State} (h : Lemmas.FilePool.Inv st.fp) (op : Op) (inp : Inputs) :
    Lemmas.FilePool.Inv (PoolStack.step st op inp).1.fp ∧ (PoolStack.step st op inp).1.fp.cfg = st.fp.cfg := by
  have hi := Lemmas.FilePool.inv_step h op { answers := (answersFor st op inp).2, faults := inp.faults }
  have hc := Lemmas.FilePool.step_cfg st.fp op { answers := (answersFor st op inp).2, faults := inp.faults }
  rcases step_shape st op inp with e | ⟨q, e, _⟩ | e <;> rw [e]
  · exact ⟨h, rfl⟩
  · exact ⟨hi, hc⟩
  · exact ⟨hi, hc⟩

theorem step_qmove (st : PoolStack.State) (op : Op) (inp : Inputs) : QMove st.q (PoolStack.step st op inp).1.q := by
  rcases step_shape st op inp with e | ⟨q, e, hq⟩ | e
  · exact Or.inl (by rw [e])
  · rw [e]; exact hq
  · exact Or.inl (by rw [e]; rfl)

theorem step_sticky (st : PoolStack.State) (op : Op) (inp : Inputs) (h : st.broken = true) :
    (PoolStack.step st op inp).1.broken = true := by
  rcases step_shape st op inp with e | ⟨q, e, _⟩ | e
  · rw [e]; exact h
  · rw [e]; exact base_broken st op inp h
  · rw [e]

theorem step_coupled {st : PoolStack.State} (h : Coupled st) (op : Op) (inp : Inputs)
    (hflag : (PoolStack.step st op inp).1.broken = false) : Coupled (PoolStack.step st op inp).1 := by
  rcases step_shape st op inp with e | ⟨q, e, _⟩ | e
  · rw [e]; exact h
  · rw [e] at hflag ⊢
    have := base_coupled h op inp hflag
    exact ⟨this.fpInv, this.bmInv, this.agree⟩
  · rw [e] at hflag; cases hflag

theorem run_sticky (ops : List (Op × Inputs)) : ∀ (st : PoolStack.State), st.broken = true →
    (PoolStack.run st ops).broken = true := by
  induction ops with
  | nil => intro st h; exact h
  | cons x xs ih => intro st h; exact ih _ (step_sticky st x.1 x.2 h)

theorem run_coupled (ops : List (Op × Inputs)) : ∀ (st : PoolStack.State), Coupled st →
    (PoolStack.run st ops).broken = false → Coupled (PoolStack.run st ops) := by
  induction ops with
  | nil => intro st h _; exact h
  | cons x xs ih =>
    intro st h hb
    apply ih _ _ hb
    apply step_coupled h
    cases hx : (PoolStack.step st x.1 x.2).1.broken
    · rfl
    · have := run_sticky xs _ hx
      unfold PoolStack.run at hb
      rw [this] at hb; cases hb

theorem run_fpInv (ops : List (Op × Inputs)) : ∀ (st : PoolStack.State), Lemmas.FilePool.Inv st.fp →
    Lemmas.FilePool.Inv (PoolStack.run st ops).fp ∧ (PoolStack.run st ops).fp.cfg = st.fp.cfg := by
  induction ops with
  | nil => intro st h; exact ⟨h, rfl⟩
  | cons x xs ih =>
    intro st h
    have s := step_fpInv h x.1 x.2
    have r := ih _ s.1
    exact ⟨r.1, r.2.trans s.2⟩

theorem run_quota (ops : List (Op × Inputs)) : ∀ (st : PoolStack.State), Lemmas.Quota.Conserved st.q →
    Lemmas.Quota.Conserved (PoolStack.run st ops).q ∧ (PoolStack.run st ops).q.maxFiles = st.q.maxFiles ∧
      (PoolStack.run st ops).q.maxBytes = st.q.maxBytes := by
  induction ops with
  | nil => intro st h; exact ⟨h, rfl, rfl⟩
  | cons x xs ih =>
    intro st h
    have hs : Lemmas.Quota.Conserved (PoolStack.step st x.1 x.2).1.q ∧
        (PoolStack.step st x.1 x.2).1.q.maxFiles = st.q.maxFiles ∧
        (PoolStack.step st x.1 x.2).1.q.maxBytes = st.q.maxBytes := by
      rcases step_qmove st x.1 x.2 with e | ⟨qop, qr, hq, e⟩
      · rw [e]; exact ⟨h, rfl, rfl⟩
      · rw [e]; exact Lemmas.Quota.step_conserved hq h
    have r := ih _ hs.1
    exact ⟨r.1, r.2.1.trans hs.2.1, r.2.2.trans hs.2.2⟩

end BbRe.Lemmas.PoolStack
