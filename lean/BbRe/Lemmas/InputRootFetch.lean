import BbRe.Model.InputRoot
/-!
Functional correctness of `fetch` (the three validation loops of
`fetchContentsUnwrapped`) against a declarative notion of a well-formed
Directory message, for C17.
-/
namespace BbRe.Lemmas.InputRoot
open BbRe.InputRoot

/-- All three loops are instances of this one. -/
def addGen {α : Type} (nameOf : α → Name) (mk : α → Option Node) :
    List α → Children → Nat → Except Err Children × Nat
  | [], ch, k => (.ok ch, k)
  | e :: rest, ch, k =>
    if !validName (nameOf e) then (.error .invalidArgument, k)
    else if hasName ch (nameOf e) then (.error .invalidArgument, k)
    else match mk e with
      | none => (.error .invalidArgument, k)
      | some v => addGen nameOf mk rest (ch ++ [(nameOf e, v)]) (k + 1)

def mkDir (hl : Nat) (e : DirNode) : Option Node := (parseDigest hl e.digest).map (.lazy · none)
def mkFile (hl : Nat) (e : FileNode) : Option Node := (parseDigest hl e.digest).map (.file · e.exec none)
def mkSym (e : SymNode) : Option Node := if targetOk e.target then some (.sym e.target) else none

theorem addDirs_eq (hl : Nat) : ∀ (es : List DirNode) (ch : Children) (k : Nat),
    addDirs hl es ch = (addGen DirNode.name (mkDir hl) es ch k).1 := by
  intro es
  induction es with
  | nil => intro ch k; rfl
  | cons e rest ih =>
    intro ch k
    simp only [addDirs, addGen, mkDir]
    split
    · rfl
    · split
      · rfl
      · cases h : parseDigest hl e.digest with
        | none => rfl
        | some d => simp only [Option.map]; exact ih _ _

theorem addFiles_eq (hl : Nat) : ∀ (es : List FileNode) (ch : Children) (k : Nat),
    addFiles hl es ch k = addGen FileNode.name (mkFile hl) es ch k := by
  intro es
  induction es with
  | nil => intro ch k; rfl
  | cons e rest ih =>
    intro ch k
    simp only [addFiles, addGen, mkFile]
    split
    · rfl
    · split
      · rfl
      · cases h : parseDigest hl e.digest with
        | none => rfl
        | some d => simp only [Option.map]; exact ih _ _

theorem addSyms_eq : ∀ (es : List SymNode) (ch : Children) (k : Nat),
    addSyms es ch k = addGen SymNode.name mkSym es ch k := by
  intro es
  induction es with
  | nil => intro ch k; rfl
  | cons e rest ih =>
    intro ch k
    simp only [addSyms, addGen, mkSym]
    split
    · rfl
    · split
      · rfl
      · by_cases h : targetOk e.target = true
        · simp only [h, Bool.not_true, Bool.false_eq_true, if_false, if_true]; exact ih _ _
        · simp [h]

/-- Converted entries. -/
def conv {α : Type} (nameOf : α → Name) (mk : α → Option Node) (es : List α) : Children :=
  es.filterMap fun e => (mk e).map fun v => (nameOf e, v)

/-- What one loop demands of its list, given the children collected so far. -/
def GoodList {α : Type} (nameOf : α → Name) (mk : α → Option Node) (es : List α) (ch : Children) : Prop :=
  (∀ e ∈ es, validName (nameOf e) = true ∧ (mk e).isSome = true) ∧
  (es.map nameOf).Nodup ∧ (∀ e ∈ es, hasName ch (nameOf e) = false)

theorem lookup_append (a b : Children) (x : Name) :
    lookup (a ++ b) x = (lookup a x).or (lookup b x) := by
  induction a with
  | nil => simp [lookup]
  | cons e es ih =>
    obtain ⟨n, v⟩ := e
    by_cases h : n = x <;> simp [lookup, h, ih]

theorem hasName_append (a b : Children) (x : Name) :
    hasName (a ++ b) x = (hasName a x || hasName b x) := by
  simp only [hasName, lookup_append]
  cases lookup a x <;> simp

theorem hasName_single (n : Name) (v : Node) (x : Name) : hasName [(n, v)] x = decide (n = x) := by
  by_cases h : n = x <;> simp [hasName, lookup, h]

theorem addGen_ok {α : Type} (nameOf : α → Name) (mk : α → Option Node) :
    ∀ (es : List α) (ch : Children) (k : Nat), GoodList nameOf mk es ch →
      addGen nameOf mk es ch k = (.ok (ch ++ conv nameOf mk es), k + es.length) := by
  intro es
  induction es with
  | nil => intro ch k _; simp [addGen, conv]
  | cons e rest ih =>
    intro ch k ⟨h1, h2, h3⟩
    have hv := (h1 e (List.mem_cons_self ..)).1
    have hm := (h1 e (List.mem_cons_self ..)).2
    have hn := h3 e (List.mem_cons_self ..)
    obtain ⟨v, hv'⟩ := Option.isSome_iff_exists.1 hm
    simp only [List.map_cons, List.nodup_cons] at h2
    have hgood : GoodList nameOf mk rest (ch ++ [(nameOf e, v)]) := by
      refine ⟨fun e' he' => h1 e' (List.mem_cons_of_mem _ he'), h2.2, fun e' he' => ?_⟩
      rw [hasName_append, h3 e' (List.mem_cons_of_mem _ he'), hasName_single]
      simp only [Bool.false_or, decide_eq_false_iff_not]
      intro heq
      exact h2.1 (heq ▸ List.mem_map_of_mem he')
    simp only [addGen, hv, hn, hv', Bool.not_true, Bool.false_eq_true, if_false]
    rw [ih _ _ hgood]
    simp [conv, hv', List.filterMap_cons, Nat.add_comm, Nat.add_left_comm]

theorem addGen_err {α : Type} (nameOf : α → Name) (mk : α → Option Node) :
    ∀ (es : List α) (ch : Children) (k : Nat), ¬ GoodList nameOf mk es ch →
      ∃ k', addGen nameOf mk es ch k = (.error .invalidArgument, k') := by
  intro es
  induction es with
  | nil => intro ch k h; exact absurd ⟨by simp, by simp, by simp⟩ h
  | cons e rest ih =>
    intro ch k h
    simp only [addGen]
    by_cases hv : validName (nameOf e) = true
    · by_cases hn : hasName ch (nameOf e) = true
      · exact ⟨k, by simp [hv, hn]⟩
      · cases hm : mk e with
        | none => exact ⟨k, by simp [hv, hn]⟩
        | some v =>
          simp only [hv, hn, Bool.not_true, Bool.false_eq_true, if_false]
          apply ih
          intro ⟨g1, g2, g3⟩
          apply h
          refine ⟨?_, ?_, ?_⟩
          · intro e' he'
            rcases List.mem_cons.1 he' with rfl | he'
            · exact ⟨hv, by simp [hm]⟩
            · exact g1 e' he'
          · simp only [List.map_cons, List.nodup_cons]
            refine ⟨?_, g2⟩
            intro hmem
            obtain ⟨e', he', heq⟩ := List.mem_map.1 hmem
            have := g3 e' he'
            rw [hasName_append, hasName_single, heq] at this
            simp at this
          · intro e' he'
            rcases List.mem_cons.1 he' with rfl | he'
            · simpa using hn
            · have := g3 e' he'
              rw [hasName_append] at this
              simp only [Bool.or_eq_false_iff] at this
              exact this.1
    · exact ⟨k, by simp [hv]⟩

/-! ### declarative well-formedness -/

def entryNames (m : DirMsg) : List Name :=
  m.dirs.map (·.name) ++ m.files.map (·.name) ++ m.syms.map (·.name)

/-- A Directory message the fetcher accepts: all names valid, no name twice (within
or across the three lists), every digest well-formed, every symlink target usable. -/
def WellFormed (hl : Nat) (m : DirMsg) : Prop :=
  (∀ n ∈ entryNames m, validName n = true) ∧ (entryNames m).Nodup ∧
  (∀ e ∈ m.dirs, (parseDigest hl e.digest).isSome = true) ∧
  (∀ e ∈ m.files, (parseDigest hl e.digest).isSome = true) ∧
  (∀ e ∈ m.syms, targetOk e.target = true)

/-- The children a well-formed message denotes (sub-directories lazy). -/
def specChildren (hl : Nat) (m : DirMsg) : Children :=
  conv DirNode.name (mkDir hl) m.dirs ++ conv FileNode.name (mkFile hl) m.files ++
    conv SymNode.name mkSym m.syms

theorem hasName_conv {α : Type} (nameOf : α → Name) (mk : α → Option Node) (es : List α)
    (hall : ∀ e ∈ es, (mk e).isSome = true) (x : Name) :
    hasName (conv nameOf mk es) x = true ↔ x ∈ es.map nameOf := by
  induction es with
  | nil => simp [conv, hasName, lookup]
  | cons e rest ih =>
    obtain ⟨v, hv⟩ := Option.isSome_iff_exists.1 (hall e (List.mem_cons_self ..))
    have ih' := ih (fun e' he' => hall e' (List.mem_cons_of_mem _ he'))
    have : conv nameOf mk (e :: rest) = (nameOf e, v) :: conv nameOf mk rest := by
      simp [conv, hv, List.filterMap_cons]
    rw [this]
    by_cases h : nameOf e = x
    · simp [hasName, lookup, h]
    · have h' : ¬ x = nameOf e := fun hh => h hh.symm
      simp only [hasName, lookup, h, if_false, List.map_cons, List.mem_cons, h', false_or]
      exact ih'

theorem mkSym_isSome (e : SymNode) : (mkSym e).isSome = true ↔ targetOk e.target = true := by
  by_cases h : targetOk e.target = true <;> simp [mkSym, h]

theorem mkDir_isSome (hl : Nat) (e : DirNode) :
    (mkDir hl e).isSome = (parseDigest hl e.digest).isSome := by simp [mkDir]

theorem mkFile_isSome (hl : Nat) (e : FileNode) :
    (mkFile hl e).isSome = (parseDigest hl e.digest).isSome := by simp [mkFile]

theorem hasName_false_iff (ch : Children) (x : Name) : hasName ch x = false ↔ ¬ hasName ch x = true := by
  cases hasName ch x <;> simp

/-- The three sequential loop conditions are exactly well-formedness. -/
theorem good_iff_wellFormed (hl : Nat) (m : DirMsg) :
    (GoodList DirNode.name (mkDir hl) m.dirs [] ∧
     GoodList FileNode.name (mkFile hl) m.files (conv DirNode.name (mkDir hl) m.dirs) ∧
     GoodList SymNode.name mkSym m.syms
       (conv DirNode.name (mkDir hl) m.dirs ++ conv FileNode.name (mkFile hl) m.files)) ↔
    WellFormed hl m := by
  constructor
  · intro ⟨⟨d1, d2, _⟩, ⟨f1, f2, f3⟩, ⟨s1, s2, s3⟩⟩
    have dall : ∀ e ∈ m.dirs, (mkDir hl e).isSome = true := fun e he => (d1 e he).2
    have fall : ∀ e ∈ m.files, (mkFile hl e).isSome = true := fun e he => (f1 e he).2
    refine ⟨?_, ?_, ?_, ?_, ?_⟩
    · intro n hn
      simp only [entryNames, List.mem_append, List.mem_map] at hn
      rcases hn with (⟨e, he, rfl⟩ | ⟨e, he, rfl⟩) | ⟨e, he, rfl⟩
      · exact (d1 e he).1
      · exact (f1 e he).1
      · exact (s1 e he).1
    · simp only [entryNames, List.nodup_append]
      refine ⟨⟨d2, f2, ?_⟩, s2, ?_⟩
      · intro a ha b hb hab
        obtain ⟨e, he, rfl⟩ := List.mem_map.1 hb
        have := f3 e he
        rw [hasName_false_iff, hasName_conv _ _ _ dall] at this
        exact this (hab ▸ ha)
      · intro a ha b hb hab
        obtain ⟨e, he, rfl⟩ := List.mem_map.1 hb
        have := s3 e he
        rw [hasName_append, Bool.or_eq_false_iff, hasName_false_iff, hasName_false_iff,
          hasName_conv _ _ _ dall, hasName_conv _ _ _ fall] at this
        rcases List.mem_append.1 ha with ha | ha
        · exact this.1 (hab ▸ ha)
        · exact this.2 (hab ▸ ha)
    · intro e he; rw [← mkDir_isSome]; exact dall e he
    · intro e he; rw [← mkFile_isSome]; exact fall e he
    · intro e he; exact (mkSym_isSome e).1 (s1 e he).2
  · intro ⟨w1, w2, w3, w4, w5⟩
    simp only [entryNames, List.nodup_append] at w2
    obtain ⟨⟨d2, f2, hdf⟩, s2, hdfs⟩ := w2
    have dall : ∀ e ∈ m.dirs, (mkDir hl e).isSome = true := fun e he => by
      rw [mkDir_isSome]; exact w3 e he
    have fall : ∀ e ∈ m.files, (mkFile hl e).isSome = true := fun e he => by
      rw [mkFile_isSome]; exact w4 e he
    have mem_d : ∀ e ∈ m.dirs, e.name ∈ entryNames m := fun e he => by
      simp only [entryNames, List.mem_append, List.mem_map]; exact Or.inl (Or.inl ⟨e, he, rfl⟩)
    have mem_f : ∀ e ∈ m.files, e.name ∈ entryNames m := fun e he => by
      simp only [entryNames, List.mem_append, List.mem_map]; exact Or.inl (Or.inr ⟨e, he, rfl⟩)
    have mem_s : ∀ e ∈ m.syms, e.name ∈ entryNames m := fun e he => by
      simp only [entryNames, List.mem_append, List.mem_map]; exact Or.inr ⟨e, he, rfl⟩
    refine ⟨⟨fun e he => ⟨w1 _ (mem_d e he), dall e he⟩, d2, fun e _ => by simp [hasName, lookup]⟩,
      ⟨fun e he => ⟨w1 _ (mem_f e he), fall e he⟩, f2, ?_⟩,
      ⟨fun e he => ⟨w1 _ (mem_s e he), (mkSym_isSome e).2 (w5 e he)⟩, s2, ?_⟩⟩
    · intro e he
      rw [hasName_false_iff, hasName_conv _ _ _ dall]
      intro hmem
      exact hdf _ hmem _ (List.mem_map_of_mem he) rfl
    · intro e he
      rw [hasName_append, Bool.or_eq_false_iff, hasName_false_iff, hasName_false_iff,
        hasName_conv _ _ _ dall, hasName_conv _ _ _ fall]
      constructor
      · intro hmem
        exact hdfs _ (List.mem_append.2 (Or.inl hmem)) _ (List.mem_map_of_mem he) rfl
      · intro hmem
        exact hdfs _ (List.mem_append.2 (Or.inr hmem)) _ (List.mem_map_of_mem he) rfl

theorem fetchBase_present (c : CAS) (F : List Dig) (d : Dig) (m : DirMsg) (hF : d ∉ F)
    (hm : assoc c.dirs d = some (some m)) :
    fetchBase c F d =
      match (addGen DirNode.name (mkDir c.hashLen) m.dirs [] 0).1 with
      | .error e => ⟨.error e, 0, 0⟩
      | .ok ch1 =>
        match addGen FileNode.name (mkFile c.hashLen) m.files ch1 0 with
        | (.error e, k) => ⟨.error e, k, k⟩
        | (.ok ch2, k) =>
          match addGen SymNode.name mkSym m.syms ch2 k with
          | (.error e, k') => ⟨.error e, k', k'⟩
          | (.ok ch3, k') => ⟨.ok ch3, k', 0⟩ := by
  simp only [fetchBase, hm, List.contains_eq_mem, hF, decide_false, Bool.false_eq_true, if_false]
  rw [addDirs_eq c.hashLen m.dirs [] 0]
  cases (addGen DirNode.name (mkDir c.hashLen) m.dirs [] 0).1 with
  | error e => rfl
  | ok ch1 =>
    simp only [addFiles_eq, addSyms_eq]
    rfl

/-- A well-formed message is attached completely, no leaf is unlinked. -/
theorem fetchBase_wellFormed (c : CAS) (F : List Dig) (d : Dig) (m : DirMsg) (hF : d ∉ F)
    (hm : assoc c.dirs d = some (some m)) (hw : WellFormed c.hashLen m) :
    fetchBase c F d = ⟨.ok (specChildren c.hashLen m), m.files.length + m.syms.length, 0⟩ := by
  obtain ⟨g1, g2, g3⟩ := (good_iff_wellFormed c.hashLen m).2 hw
  rw [fetchBase_present c F d m hF hm, addGen_ok _ _ _ _ _ g1]
  simp only [List.nil_append]
  rw [addGen_ok _ _ _ _ _ g2]
  simp only []
  rw [addGen_ok _ _ _ _ _ g3]
  simp [specChildren]

/-- A malformed message is rejected as a whole: `InvalidArgument`, and every leaf
that was created before the defect was noticed has been unlinked. -/
theorem fetchBase_malformed (c : CAS) (F : List Dig) (d : Dig) (m : DirMsg) (hF : d ∉ F)
    (hm : assoc c.dirs d = some (some m)) (hw : ¬ WellFormed c.hashLen m) :
    ∃ k, fetchBase c F d = ⟨.error .invalidArgument, k, k⟩ := by
  rw [fetchBase_present c F d m hF hm]
  by_cases g1 : GoodList DirNode.name (mkDir c.hashLen) m.dirs []
  · rw [addGen_ok _ _ _ _ _ g1]
    simp only [List.nil_append]
    by_cases g2 : GoodList FileNode.name (mkFile c.hashLen) m.files (conv DirNode.name (mkDir c.hashLen) m.dirs)
    · rw [addGen_ok _ _ _ _ _ g2]
      simp only []
      by_cases g3 : GoodList SymNode.name mkSym m.syms
          (conv DirNode.name (mkDir c.hashLen) m.dirs ++ conv FileNode.name (mkFile c.hashLen) m.files)
      · exact absurd ((good_iff_wellFormed c.hashLen m).1 ⟨g1, g2, g3⟩) hw
      · obtain ⟨k', hk'⟩ := addGen_err _ _ _ _ (0 + m.files.length) g3
        rw [hk']; exact ⟨k', rfl⟩
    · obtain ⟨k', hk'⟩ := addGen_err _ _ _ _ 0 g2
      rw [hk']; exact ⟨k', rfl⟩
  · obtain ⟨k', hk'⟩ := addGen_err _ _ _ _ 0 g1
    rw [hk']; exact ⟨0, rfl⟩

/-- In every case: what was created and not attached has been unlinked. -/
theorem fetchBase_balance (c : CAS) (F : List Dig) (d : Dig) :
    match (fetchBase c F d).result with
    | .ok _ => (fetchBase c F d).unlinked = 0
    | .error _ => (fetchBase c F d).unlinked = (fetchBase c F d).created := by
  by_cases hF : d ∈ F
  · simp [fetchBase, hF]
  · cases hm : assoc c.dirs d with
    | none => simp [fetchBase, hF, hm]
    | some o =>
      cases o with
      | none => simp [fetchBase, hF, hm]
      | some m =>
        simp only [fetchBase, hm, List.contains_eq_mem, hF, decide_false, Bool.false_eq_true, if_false]
        cases h1 : addDirs c.hashLen m.dirs [] with
        | error e => rfl
        | ok ch1 =>
          simp only []
          rcases h2 : addFiles c.hashLen m.files ch1 0 with ⟨r2, k2⟩
          cases r2 with
          | error e => rfl
          | ok ch2 =>
            simp only []
            rcases h3 : addSyms m.syms ch2 k2 with ⟨r3, k3⟩
            cases r3 with
            | error e => rfl
            | ok ch3 => rfl

/-! ### the same facts for a (possibly wrapped) fetcher -/

/-- A well-formed message is attached completely, no leaf is unlinked; the access
monitoring wrapper only annotates the children. -/
theorem fetch_wellFormed (c : CAS) (F : List Dig) (d : Dig) (mon : Option Path) (m : DirMsg)
    (hF : d ∉ F) (hm : assoc c.dirs d = some (some m)) (hw : WellFormed c.hashLen m) :
    fetch c F d mon =
      ⟨.ok ((specChildren c.hashLen m).map (annotate mon)), m.files.length + m.syms.length, 0⟩ := by
  simp only [fetch, fetchBase_wellFormed c F d m hF hm hw]

theorem fetch_malformed (c : CAS) (F : List Dig) (d : Dig) (mon : Option Path) (m : DirMsg)
    (hF : d ∉ F) (hm : assoc c.dirs d = some (some m)) (hw : ¬ WellFormed c.hashLen m) :
    ∃ k, fetch c F d mon = ⟨.error .invalidArgument, k, k⟩ := by
  obtain ⟨k, hk⟩ := fetchBase_malformed c F d m hF hm hw
  exact ⟨k, by simp only [fetch, hk]⟩

theorem fetch_balance (c : CAS) (F : List Dig) (d : Dig) (mon : Option Path) :
    match (fetch c F d mon).result with
    | .ok _ => (fetch c F d mon).unlinked = 0
    | .error _ => (fetch c F d mon).unlinked = (fetch c F d mon).created := by
  have h := fetchBase_balance c F d
  simp only [fetch]
  cases hr : (fetchBase c F d).result with
  | ok ch => rw [hr] at h; exact h
  | error e => rw [hr] at h; exact h

/-- The error of a fetch does not depend on the wrapper. -/
theorem fetch_error_mon (c : CAS) (F : List Dig) (d : Dig) (m m' : Option Path) (e : Err)
    (h : (fetch c F d m).result = .error e) : (fetch c F d m').result = .error e := by
  simp only [fetch] at h ⊢
  cases hr : (fetchBase c F d).result with
  | ok ch => rw [hr] at h; cases h
  | error e' => rw [hr] at h; exact h

end BbRe.Lemmas.InputRoot
