import BbRe.Lemmas.SchedLiveClean8
/-!
Cleanup accounting through `getNextTask`, `Synchronize`, the operator calls, and
for every reachable state.
-/
namespace BbRe.Lemmas.SchedLive
open BbRe.Sched

theorem assignNext_cframe {h : Hints} {s s1 : State} {wk : Worker} {got : Bool}
    (hh : assignNext h s wk = .ok (s1, got)) (hk : KeysOK s) (hw : WInv s) (hm : wk ∈ s.workers) : CFrame s s1 := by
  rcases assignNext_ok hh with ⟨_, rfl, _⟩ | ⟨_, t, t', hq, _, _, h3, rfl⟩
  · exact CFrame.refl _
  · obtain ⟨hl, _, _, _⟩ := queuedTasks_mem hk hq
    have ht' : t' = { t with worker := some (wk.scq, wk.id), retry := 0, queued := false } := by
      simp only [State.task?, assignS_tasks, alookup_aset, if_true] at h3
      injection h3 with h3; exact h3.symm
    subst ht'
    refine ⟨rfl, ?_, fun _ => rfl, rfl, ?_⟩
    · show ((assignS s wk t).setTask _).workers.map _ = _
      simp only [setTask_workers, assignS_workers]
      exact setWorker_proj hw.uniq hm rfl rfl
    · intro k
      simp only [State.task?, setTask_tasks, assignS_tasks, alookup_aset, bumpGen]
      by_cases hkk : t.id = k
      · subst hkk
        have : alookup t.id s.tasks = some t := hl
        simp [this]
      · simp [hkk]

/-- a worker-record update that keeps identity and `inSync` -/
theorem setWorker_cframe {s : State} {wk w' : Worker} (hw : WInv s) (hm : wk ∈ s.workers) (hk : wkey wk = wkey w')
    (hi : wk.inSync = w'.inSync) : CFrame s (s.setWorker w') :=
  ⟨rfl, setWorker_proj hw.uniq hm hk hi, fun _ => rfl, rfl, fun _ => rfl⟩

theorem inSync_of_frame {s s' : State} {q : ScqId} {w : WId} (f : CFrame s s') (hw : WInv s)
    (hin : ∀ wk, s.worker? q w = some wk → wk.inSync = true) :
    ∀ wk', s'.worker? q w = some wk' → wk'.inSync = true := by
  intro wk' hwk'
  obtain ⟨hm', hq, hw'⟩ := worker?_mem hwk'
  obtain ⟨wk, hm, e⟩ := mem_of_map_eq f.workers hm'
  simp only [Prod.mk.injEq] at e
  have := worker?_of_mem hw.uniq hm
  rw [e.1, e.2.1, hq, hw'] at this
  rw [← e.2.2]; exact hin wk this

theorem getNextTask_kwc {h : Hints} {s s' : State} {q : ScqId} {w : WId} {pi block : Bool}
    (hh : getNextTask h s q w pi block = .ok s')
    (hpre : SyncPre s q w) (hnt : ∀ wk, s.worker? q w = some wk → wk.task = none) (hi : KWC noEx s) : KWC noEx s' := by
  refine ⟨getNextTask_kw hh hpre hnt hi.1, ?_⟩
  obtain ⟨⟨hk, hw⟩, hc⟩ := hi
  have hin : ∀ wk, s.worker? q w = some wk → wk.inSync = true := fun wk e => (hpre wk e).1
  obtain ⟨wk, sq, hwk, hsq, h1 | h1 | h1⟩ := getNextTask_ok hh
  · obtain ⟨_, rfl⟩ := h1
    exact syncReturn_cinv (hc.frame (CFrame.of_same rfl rfl rfl rfl rfl)) hin
  · obtain ⟨_, hdr, s1, got, h2, h3⟩ := h1
    obtain ⟨hm, _, _⟩ := worker?_mem hwk
    have f1 := assignNext_cframe h2 hk hw hm
    have hc1 := hc.frame f1
    have hin1 := inSync_of_frame f1 hw hin
    rcases h3 with h3 | h3 | h3
    · obtain ⟨_, wk1, s2, _, h4, rfl⟩ := h3
      obtain ⟨tid, t, _, _, rfl⟩ := execResponse_ok h4
      exact syncReturn_cinv (hc1.frame (CFrame.of_same rfl rfl rfl rfl rfl)) hin1
    · obtain ⟨_, _, rfl⟩ := h3
      exact syncReturn_cinv (hc1.frame (CFrame.of_same rfl rfl rfl rfl rfl)) hin1
    · obtain ⟨_, _, wk1, hwk1, _, rfl⟩ := h3
      obtain ⟨pin, ppk, pwo, pdw⟩ := hpre wk hwk
      have hw1 : WInv s1 := assignNext_winv h2 hk hw hm ppk pdw
      exact hc1.frame (setWorker_cframe hw1 (worker?_mem hwk1).1 rfl rfl)
  · obtain ⟨_, _, h2 | h2⟩ := h1
    · obtain ⟨_, rfl⟩ := h2
      exact syncReturn_cinv (hc.frame (CFrame.of_same rfl rfl rfl rfl rfl)) hin
    · obtain ⟨_, rfl⟩ := h2
      exact hc.frame (setWorker_cframe hw (worker?_mem hwk).1 rfl rfl)

theorem getCurrentOrNext_kwc {h : Hints} {s s' : State} {q : ScqId} {w : WId} {pi block : Bool}
    (hh : getCurrentOrNext h s q w pi block = .ok s') (hpre : SyncPre s q w) (hi : KWC noEx s) : KWC noEx s' := by
  obtain ⟨wk, hwk, h1 | h1⟩ := getCurrentOrNext_ok hh
  · refine getNextTask_kwc h1.2 hpre ?_ hi
    intro wk' hwk'; rw [hwk] at hwk'; injection hwk' with e; subst e; exact h1.1
  · obtain ⟨tid, t, htk, h0, h2 | h2⟩ := h1
    · refine ⟨getCurrentOrNext_kw hh hpre hi.1, ?_⟩
      obtain ⟨_, rfl⟩ := h2
      have hid := (hi.1.1.tid tid t h0).1
      have f : CFrame s (emit (s.setTask { t with retry := t.retry + 1 })
          (.syncExecute q w t.digest (s.now + s.cfg.busyInterval))) := by
        refine CFrame.of_task (k0 := tid) (t2 := { t with retry := t.retry + 1 }) h0 rfl rfl rfl rfl rfl rfl ?_
        intro k; simp [State.task?, alookup_aset, hid]
      exact syncReturn_cinv (hi.2.frame f) (inSync_of_frame f hi.1.2 (fun wk e => (hpre wk e).1))
    · obtain ⟨_, s1, h3, h4⟩ := h2
      have hi1 : KWC noEx s1 := complete_kwc h3 hi
      obtain ⟨keep, clr⟩ := complete_keep (q := q) (w := w) h3 hi.1.2
      obtain ⟨pin, ppk, pwo, pdw⟩ := hpre wk hwk
      refine getNextTask_kwc h4 ?_ (fun wk1 hwk1 => clr wk hwk ppk htk wk1 hwk1) hi1
      intro wk1 hwk1
      obtain ⟨wk', e1, p1, a1, a2, a3, _⟩ := keep wk hwk ppk
      rw [e1] at hwk1; injection hwk1 with e; subst e
      exact ⟨a1 ▸ pin, p1, a2 ▸ pwo, a3 ▸ pdw⟩

theorem syncArrive_kwc {h : Hints} {s s' : State} {now : Nat} {q : ScqId} {comps : List Nat} {pf : Nat}
    {w : WId} {rep : Report} {pi : Bool} (hh : syncArrive h s now q comps pf w rep pi = .ok s')
    (hi : KWC noEx s) : KWC noEx s' := by
  refine ⟨syncArrive_kw hh hi.1, ?_⟩
  obtain ⟨s1, x, h1, h2, h3⟩ := syncArrive_ok hh
  have hi1 := enter_kwc hi h1
  rcases h3 with rfl | ⟨s2, rfl, h3⟩
  · -- the queue stage refused the worker: only an event was emitted
    rcases syncQueue_ok h2 with ⟨_, e⟩ | ⟨_, e⟩ | ⟨_, _, e⟩ | ⟨_, _, e⟩
    · cases e
    · injection e with e; subst e; exact hi1.2.frame (CFrame.of_same rfl rfl rfl rfl rfl)
    · cases e
    · cases e
  · have hkw2 : KW s2 := syncQueue_kw h2 hi1.1
    obtain ⟨kw, pre⟩ := syncWorker_kw s2 q w
    rcases h3 with h3 | ⟨s3, wk, h3, hwk, h4⟩
    · -- the worker is already inside a call: the queue exists (its worker does), so nothing but an event changed
      rcases syncWorker_cases s2 q w with ⟨wk, hwk, _, e⟩ | ⟨wk, _, _, e⟩ | ⟨_, e⟩
      · rw [e] at h3; injection h3 with h3; subst h3
        obtain ⟨hm, hq, _⟩ := worker?_mem hwk
        obtain ⟨qK, qU, qW, qO, qT, qQ1, qQ2⟩ := syncQueue_shape hi1.2 h2
        -- a worker exists in `q`, hence no queue entry existed and the queue stage changed nothing relevant
        have hm1 : wk ∈ s1.workers := qW ▸ hm
        have hnoS : ¬ hasK s1 (.scq q) := fun hh' => (hi1.2.eS q hh').2 wk hm1 hq
        obtain ⟨sq1, hsq1⟩ := hi1.2.wScq wk hm1
        rw [hq] at hsq1
        have f : CFrame s1 (emit s2 (.syncErr q w cResourceExhausted)) := by
          rcases syncQueue_ok h2 with ⟨_, e'⟩ | ⟨_, e'⟩ | ⟨hn, _, _⟩ | ⟨hn, _, _⟩
          · injection e' with e'; subst e'
            refine ⟨?_, rfl, fun _ => rfl, rfl, fun _ => rfl⟩
            show s1.cleanup.filter _ = s1.cleanup
            rw [List.filter_eq_self]
            intro e he; simp only [decide_eq_true_eq]
            intro hk'; exact hnoS ⟨e, he, hk'⟩
          · cases e'
          · rw [hn] at hsq1; cases hsq1
          · rw [hn] at hsq1; cases hsq1
        exact hi1.2.frame f
      · rw [e] at h3; cases h3
      · rw [e] at h3; cases h3
    · have hc3 : CInv noEx s3 := sync_front hi1.2 hi1.1.2 h2 h3
      rw [h3] at kw
      have hkw3 : KW s3 := kw hkw2
      have hpre : SyncPre s3 q w := pre s3 h3 hkw2.2
      have hin3 : ∀ wk', s3.worker? q w = some wk' → wk'.inSync = true := fun wk' e => (hpre wk' e).1
      obtain ⟨pin, ppk, pwo, pdw⟩ := hpre wk hwk
      rcases h4 with ⟨_, rfl⟩ | ⟨_, h4⟩ | ⟨d, _, _, rfl⟩ | ⟨d, _, _, h4⟩ | ⟨d, r, tid, s4, _, _, htk, h4, h5⟩ | ⟨d, r, _, _, h4⟩
      · exact syncReturn_cinv (hc3.frame (CFrame.of_same rfl rfl rfl rfl rfl)) hin3
      · exact (getCurrentOrNext_kwc h4 hpre ⟨hkw3, hc3⟩).2
      · exact syncReturn_cinv (hc3.frame (CFrame.of_same rfl rfl rfl rfl rfl)) hin3
      · exact (getCurrentOrNext_kwc h4 hpre ⟨hkw3, hc3⟩).2
      · have hi4 : KWC noEx s4 := complete_kwc h4 ⟨hkw3, hc3⟩
        obtain ⟨keep, clr⟩ := complete_keep (q := q) (w := w) h4 hkw3.2
        refine (getNextTask_kwc h5 ?_ (fun wk1 hwk1 => clr wk hwk ppk htk wk1 hwk1) hi4).2
        intro wk1 hwk1
        obtain ⟨wk', e1, p1, a1, a2, a3, _⟩ := keep wk hwk ppk
        rw [e1] at hwk1; injection hwk1 with e; subst e
        exact ⟨a1 ▸ pin, p1, a2 ▸ pwo, a3 ▸ pdw⟩
      · exact (getCurrentOrNext_kwc h4 hpre ⟨hkw3, hc3⟩).2

end BbRe.Lemmas.SchedLive
