import BbRe.Lemmas.PoolStack3
/-!
Counting form of sector conservation: free sectors of the bitmap + non-zero sector entries of all
files = sectorCount.
-/
namespace BbRe.Lemmas.PoolStack
open BbRe BbRe.PoolStack BbRe.FilePool BbRe.Lemmas.FilePool BbRe.AllocSpec

theorem freeCount_congr {a b : Abs} : ∀ (n : Nat), (∀ s, 1 ≤ s → s ≤ n → a s = b s) → freeCount a n = freeCount b n := by
  intro n
  induction n with
  | zero => intro _; rfl
  | succ k ih =>
    intro h
    unfold freeCount
    rw [ih (fun s h1 h2 => h s h1 (by omega)), h (k + 1) (by omega) (by omega)]

/-- a duplicate-free list of sectors within `1 … n` leaves `n - length` sectors free -/
theorem freeCount_contains : ∀ (n : Nat) (A : List Nat), A.Nodup → (∀ s ∈ A, 1 ≤ s ∧ s ≤ n) →
    freeCount (fun s => A.contains s) n + A.length = n := by
  intro n
  induction n with
  | zero =>
    intro A _ hr
    cases A with
    | nil => rfl
    | cons x xs => have := hr x List.mem_cons_self; omega
  | succ k ih =>
    intro A hnd hr
    unfold freeCount
    by_cases hm : k + 1 ∈ A
    · have hnd' : (A.erase (k + 1)).Nodup := hnd.erase _
      have hr' : ∀ s ∈ A.erase (k + 1), 1 ≤ s ∧ s ≤ k := by
        intro s hs
        have h1 := (List.Nodup.mem_erase_iff hnd).1 hs
        have h2 := hr s h1.2
        omega
      have hlen : (A.erase (k + 1)).length + 1 = A.length := by
        rw [List.length_erase_of_mem hm]
        have : 0 < A.length := List.length_pos_of_mem hm
        omega
      have hc : freeCount (fun s => A.contains s) k = freeCount (fun s => (A.erase (k + 1)).contains s) k := by
        apply freeCount_congr
        intro s _ h2
        rw [Bool.eq_iff_iff]
        simp only [List.contains_iff_mem]
        rw [List.Nodup.mem_erase_iff hnd]
        constructor
        · intro h; exact ⟨by omega, h⟩
        · intro h; exact h.2
      have := ih _ hnd' hr'
      rw [hc]
      simp only [List.contains_iff_mem, hm, ↓reduceIte]
      omega
    · have hr' : ∀ s ∈ A, 1 ≤ s ∧ s ≤ k := by
        intro s hs
        have := hr s hs
        have : s ≠ k + 1 := fun e => hm (e ▸ hs)
        omega
      have := ih A hnd hr'
      have hf : (A.contains (k + 1)) = false := by
        cases hx : A.contains (k + 1)
        · rfl
        · exact absurd (List.contains_iff_mem.1 hx) hm
      simp only [hf, Bool.false_eq_true, ↓reduceIte]
      omega

/-- all non-zero sector entries of all files -/
def owned (files : List File) : List Nat := (files.map fun f => nz f.sectors).flatten

theorem mem_owned {files : List File} {s : Nat} :
    s ∈ owned files ↔ ∃ (i : Nat) (f : File), files[i]? = some f ∧ s ∈ f.sectors ∧ s ≠ 0 := by
  unfold owned
  simp only [List.mem_flatten, List.mem_map]
  constructor
  · rintro ⟨l, ⟨f, hf, rfl⟩, hs⟩
    obtain ⟨i, hi, e⟩ := List.getElem_of_mem hf
    exact ⟨i, f, by rw [List.getElem?_eq_getElem hi, e], (mem_nz.1 hs).1, (mem_nz.1 hs).2⟩
  · rintro ⟨i, f, hf, hs, h0⟩
    exact ⟨nz f.sectors, ⟨f, List.mem_of_getElem? hf, rfl⟩, mem_nz.2 ⟨hs, h0⟩⟩

theorem owned_nodup {st : FilePool.State} (h : Inv st) : (owned st.files).Nodup := by
  unfold owned List.Nodup
  rw [List.pairwise_flatten]
  constructor
  · intro l hl
    obtain ⟨f, hf, rfl⟩ := List.mem_map.1 hl
    obtain ⟨i, hi, e⟩ := List.getElem_of_mem hf
    exact h.nodup i f (by rw [List.getElem?_eq_getElem hi, e])
  · rw [List.pairwise_map, List.pairwise_iff_getElem]
    intro i j hi hj hij x hx y hy hxy
    subst hxy
    have h1 := mem_nz.1 hx
    have h2 := mem_nz.1 hy
    exact h.disjoint i j _ _ (by omega) (List.getElem?_eq_getElem hi) (List.getElem?_eq_getElem hj) x h1.2 h1.1 h2.1

theorem allocd_length {st : FilePool.State} (h : Inv st) :
    st.allocd.length = (st.files.map fun f => (f.sectors.filter (· ≠ 0)).length).sum := by
  have hp : st.allocd.Perm (owned st.files) := by
    rw [List.perm_ext_iff_of_nodup h.allocNodup (owned_nodup h)]
    intro s
    rw [mem_owned]
    constructor
    · intro hs
      obtain ⟨i, f, hf, hsf⟩ := h.noLeak s hs
      exact ⟨i, f, hf, hsf, by have := h.allocRange s hs; omega⟩
    · rintro ⟨i, f, hf, hsf, hs0⟩
      exact h.owned i f hf s hsf hs0
  rw [hp.length_eq]
  unfold owned
  rw [List.length_flatten, List.map_map]
  rfl

end BbRe.Lemmas.PoolStack
