import BbRe.Lemmas.NaiveDirLazy
import BbRe.Lemmas.InputRootState
/-!
The eager merge: every Directory referenced below the root was fetched and is well-formed
when the merge ends clean; `merge … = (ch, ok)` is a clean walk; updating the build
directory leaves the rest of the file system alone.
-/
namespace BbRe.Lemmas.NaiveDir
open BbRe.InputRoot BbRe.NaiveDir BbRe.Lemmas.InputRoot

/-- `d'` is the root `d` or is referenced, directly or indirectly, by a Directory message below it. -/
inductive Reach (c : CAS) : Dig → Dig → Prop
  | refl (d : Dig) : Reach c d d
  | step {d d1 d' : Dig} {m : DirMsg} {e : DirNode} : assoc c.dirs d = some (some m) → e ∈ m.dirs →
      parseDigest c.hashLen e.digest = some d1 → Reach c d1 d' → Reach c d d'

theorem getDirectory_ok_nofault (c : CAS) (F : List Dig) (d : Dig) (m : DirMsg)
    (h : getDirectory c F d = .ok m) : F.contains d = false := by
  unfold getDirectory at h
  split at h
  · cases h
  · rename_i hc; simpa using hc

theorem merge_ok_clean (c : CAS) (O : Oracle) (fuel : Nat) (d : Dig) (ch0 ch : Children)
    (h : NaiveDir.merge c O fuel d ch0 = (ch, .ok)) : mergeDirIn c O fuel d [] ch0 false = ⟨ch, false, none⟩ := by
  simp only [NaiveDir.merge, Prod.mk.injEq] at h
  obtain ⟨h1, h2⟩ := h
  generalize mergeDirIn c O fuel d [] ch0 false = r at h1 h2
  obtain ⟨rch, rf, re⟩ := r
  simp only at h1
  subst h1
  unfold outcomeOf at h2
  cases rf with
  | true => simp at h2
  | false =>
    cases re with
    | none => rfl
    | some e =>
      cases e with
      | exist b => cases b <;> simp at h2
      | _ => simp at h2

theorem fetch_of_clean (c : CAS) (O : Oracle) (f : Nat) (d : Dig) (p : Path) (ch : Children)
    (h : mergeDirIn c O (f + 1) d p [] false = ⟨ch, false, none⟩) :
    ∃ m, assoc c.dirs d = some (some m) ∧ WellFormed c.hashLen m ∧ O.cas.contains d = false ∧
      (fetch c [] d none).result = .ok (specChildren c.hashLen m) := by
  obtain ⟨m, hg, g1, g2, g3, _, -⟩ := level_ok c O f d p ch h
  have hm := getDirectory_ok c O.cas d m hg
  have hw := wellFormed_of_level c.hashLen m (mkDirN c O f p) (mkDirN_isSome c O f p) g1 g2 g3
  have hfetch := fetch_wellFormed c [] d none m (by simp) hm hw
  rw [annotate_none_spec] at hfetch
  exact ⟨m, hm, hw, getDirectory_ok_nofault c O.cas d m hg, by rw [hfetch]⟩

/-- A clean merge has fetched every Directory referenced below the root; each of them is present,
a Directory message, well-formed, and its `GetDirectory` did not fail. -/
theorem clean_reach (c : CAS) (O : Oracle) : ∀ (f : Nat) (d : Dig) (p : Path) (ch : Children),
    mergeDirIn c O f d p [] false = ⟨ch, false, none⟩ → ∀ d', Reach c d d' →
      ∃ m, assoc c.dirs d' = some (some m) ∧ WellFormed c.hashLen m ∧ O.cas.contains d' = false := by
  intro f
  induction f with
  | zero => intro d p ch h; simp [mergeDirIn] at h
  | succ f ih =>
    intro d p ch h d' hr
    obtain ⟨m, hm, hw, hnf, _⟩ := fetch_of_clean c O f d p ch h
    obtain ⟨m2, hg, _, g2, _, _, -⟩ := level_ok c O f d p ch h
    have hm2 := getDirectory_ok c O.cas d m2 hg
    cases hr with
    | refl => exact ⟨m, hm, hw, hnf⟩
    | @step _ d1 _ m0 e hm' he hp hr' =>
      rw [hm2] at hm'
      simp only [Option.some.injEq] at hm'
      subst hm'
      have hs := (g2.1 _ he).2
      unfold mkDirN at hs
      simp only [hp, Option.bind] at hs
      split at hs
      · rename_i hc
        simp only [Bool.and_eq_true, Bool.not_eq_true', Option.isNone_iff_eq_none] at hc
        refine ih d1 (p ++ [e.name]) (mergeDirIn c O f d1 (p ++ [e.name]) [] false).ch ?_ d' hr'
        generalize mergeDirIn c O f d1 (p ++ [e.name]) [] false = r at hc
        cases r; simp_all
      · cases hs

/-! ### the rest of the file system -/

/-- The two paths part ways: neither is a prefix of the other. -/
inductive Diverge : Path → Path → Prop
  | head {x y : Name} (a b : Path) : x ≠ y → Diverge (x :: a) (y :: b)
  | tail (x : Name) {a b : Path} : Diverge a b → Diverge (x :: a) (x :: b)

theorem lookup_replaceFirst_ne (ch : Children) (x y : Name) (w : Node) (h : x ≠ y) :
    lookup (replaceFirst ch x w) y = lookup ch y := by
  induction ch with
  | nil => rfl
  | cons e es ih =>
    obtain ⟨n, v⟩ := e
    by_cases hn : n = x
    · subst hn; simp [replaceFirst, lookup, h]
    · by_cases hy : n = y
      · subst hy; simp [replaceFirst, lookup, hn]
      · simp [replaceFirst, lookup, hn, hy, ih]

theorem updAt_frame (g : Children → Children) : ∀ (tp q : Path), Diverge tp q → ∀ n : Node,
    rawAt (updAt g tp n) q = rawAt n q := by
  intro tp q hd
  induction hd with
  | head a b hxy =>
    intro n
    cases n with
    | dir ch =>
      simp only [updAt]
      cases hl : lookup ch _ with
      | none => rfl
      | some v => simp only [rawAt, lookup_replaceFirst_ne _ _ _ _ hxy]
    | _ => rfl
  | tail x hab ih =>
    intro n
    cases n with
    | dir ch =>
      simp only [updAt]
      cases hl : lookup ch x with
      | none => rfl
      | some v =>
        simp only [rawAt, lookup_replaceFirst_self ch x _ v hl, hl]
        exact ih v
    | _ => rfl

end BbRe.Lemmas.NaiveDir
