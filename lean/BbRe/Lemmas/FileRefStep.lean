import BbRe.Lemmas.FileRefInv
/-!
Every enabled step of `Model/FileRef.lean` that respects the caller contract
(`legal`) preserves the C16 invariant; the initial state satisfies it.
-/
namespace BbRe.Lemmas.FileRef
open BbRe.FileRef

theorem baseLinks_pos_of_link {s : State} (hl : 0 < s.linkCount) : 0 < baseLinks s := by
  unfold baseLinks
  split
  · simp
  · exact hl

theorem Inv.refs_pos_of_desc {s : State} (h : Inv s) (hd : 0 < s.rd + s.wr) : 0 < s.refs := by
  have := h.refsEq; omega

theorem Inv.refs_pos_of_link {s : State} (h : Inv s) (hl : 0 < s.linkCount) : 0 < s.refs := by
  have := h.refsEq; have := baseLinks_pos_of_link hl; omega

theorem inv_init (checked layered exec : Bool) (size : Nat) (m : Mask) :
    Inv (init checked layered exec size m) := by
  refine ⟨rfl, ?_, ?_, ?_, rfl, PcInv.init _ _, ?_, ?_⟩
  rotate_left 3
  · intro d hd; cases hd
  · intro e he; cases he
  · show 1 + m.count = (if layered then (if 1 > 0 then 1 else 0) else 1) + (0 + b2n m.r) + (0 + b2n m.w) + 0 + 0
    unfold Mask.count
    cases layered <;> simp <;> omega
  · show 0 + b2n m.w = 0 + b2n m.w
    rfl
  · show false = true ↔ 1 + m.count = 0
    simp

/-- States that differ only in fields the invariant does not mention. -/
theorem Inv.light {s : State} (h : Inv s) (exec : Bool) (chg wf : Nat) (tf rf : Bool) (fired : Nat → Bool) :
    Inv { s with exec := exec, changeID := chg, wfault := wf, tfault := tf, rfault := rf, fired := fired } :=
  ⟨h.noPanic, h.refsEq, h.writersEq, h.closedIff, h.closesEq, h.pcs, h.cachedOk, h.casOk⟩

/-- The contents change while nobody holds the file frozen (`cachedDigest` is reset). -/
theorem Inv.bytesChange {s : State} (h : Inv s) (hf : s.frozen = 0) (b' : Bytes) (c : Nat) :
    Inv { s with bytes := b', cached := none, changeID := c } := by
  refine ⟨h.noPanic, h.refsEq, h.writersEq, h.closedIff, h.closesEq, ?_, ?_, h.casOk⟩
  · have := h.pcs
    rw [hf] at this
    show PcInv s.pc s.frozen s.writers b'
    rw [hf]
    exact this.bytes_change _
  · intro d hd; cases hd

/-- What a mutating call needs when it performs its change: nothing in the current code,
the caller contract in the code before fix 17054c0. -/
def MutOk (s : State) (op : MutOp) : Prop :=
  s.checked = true ∨
    ((op.needsDescriptor = true → 0 < s.rd + s.wr) ∧
     (∀ n x, op = .setattr n x → 0 < s.rd + s.wr ∨ 0 < s.linkCount))

/-- Body of a mutating call. -/
theorem Inv.after_perform {s : State} (h : Inv s) (op : MutOp) (hf : s.frozen = 0) (hok : MutOk s op) :
    Inv (perform s op).1 ∧ (perform s op).1.pc = s.pc ∧ (perform s op).1.frozen = s.frozen := by
  -- either the call returns STALE without touching anything, or the pool file is still open
  have key : ∀ (hne : op ≠ .openTrunc ⟨false, false⟩ → True),
      (s.checked = true ∧ s.refs = 0) ∨ (¬ (s.checked = true ∧ s.refs = 0) ∧
        ((∀ m, op ≠ .openTrunc m) → s.closed = false)) := by
    intro _
    by_cases hc : s.checked = true ∧ s.refs = 0
    · exact Or.inl hc
    · refine Or.inr ⟨hc, fun hm => ?_⟩
      rcases hok with hck | ⟨hd, hsz⟩
      · have : s.refs ≠ 0 := fun h0 => hc ⟨hck, h0⟩
        exact h.notClosed_of_refs (Nat.pos_of_ne_zero this)
      · cases op with
        | write off data => exact h.notClosed_of_refs (h.refs_pos_of_desc (hd rfl))
        | alloc off len => exact h.notClosed_of_refs (h.refs_pos_of_desc (hd rfl))
        | setattr n x =>
          rcases hsz n x rfl with h1 | h1
          · exact h.notClosed_of_refs (h.refs_pos_of_desc h1)
          · exact h.notClosed_of_refs (h.refs_pos_of_link h1)
        | openTrunc m => exact absurd rfl (hm m)
  cases op with
  | write off data =>
    rcases key (fun _ => trivial) with hst | ⟨hns, hnc⟩
    · have e : perform s (.write off data) = (s, .wrote 0 .stale) := by simp only [perform, if_pos hst]
      rw [e]; exact ⟨h, rfl, rfl⟩
    · have hnc' : ¬ s.closed = true := by simp [hnc (fun m e => by cases e)]
      simp only [perform, if_neg hns, if_neg hnc']
      split
      · exact ⟨h.bytesChange hf _ _, rfl, rfl⟩
      · exact ⟨h, rfl, rfl⟩
  | alloc off len =>
    rcases key (fun _ => trivial) with hst | ⟨hns, hnc⟩
    · have e : perform s (.alloc off len) = (s, .st .stale) := by simp only [perform, if_pos hst]
      rw [e]; exact ⟨h, rfl, rfl⟩
    · simp only [perform, if_neg hns]
      split
      · have hf' := truncate_frame s (off + len)
        exact ⟨h.after_truncate _ hf (hnc (fun m e => by cases e)), hf'.1, hf'.2.1⟩
      · exact ⟨h, rfl, rfl⟩
  | setattr n x =>
    rcases key (fun _ => trivial) with hst | ⟨hns, hnc⟩
    · have e : perform s (.setattr n x) = (s, .st .stale) := by simp only [perform, if_pos hst]
      rw [e]; exact ⟨h, rfl, rfl⟩
    · have ht := h.after_truncate n hf (hnc (fun m e => by cases e))
      have hfr := truncate_frame s n
      have hnp : ¬ (truncate s n).1.panicked = true := by simp [ht.noPanic]
      simp only [perform, if_neg hns, if_neg hnp]
      split
      · cases x with
        | none => exact ⟨ht, hfr.1, hfr.2.1⟩
        | some b => exact ⟨ht.light b _ _ _ _ _, hfr.1, hfr.2.1⟩
      · exact ⟨ht, hfr.1, hfr.2.1⟩
  | openTrunc m =>
    simp only [perform]
    split
    · exact ⟨h, rfl, rfl⟩
    · rename_i hr
      have hpos : 0 < s.refs := Nat.pos_of_ne_zero hr
      have hnc := h.notClosed_of_refs hpos
      have ht := h.after_truncate 0 hf hnc
      have hfr := truncate_frame s 0
      have hnp : ¬ (truncate s 0).1.panicked = true := by simp [ht.noPanic]
      simp only [if_neg hnp]
      split
      · exact ⟨ht.after_acquire m (by rw [hfr.2.2.1]; exact hpos), hfr.1, hfr.2.1⟩
      · exact ⟨ht, hfr.1, hfr.2.1⟩

/-- `lockMutatingData` + body, by a thread that holds no frozen reader. -/
theorem Inv.after_mutBody {s : State} (h : Inv s) (t : Nat) (op : MutOp)
    (hold : (s.pc t).isFrozen = false) (hok : MutOk s op) :
    Inv (mutBody s t op).1 := by
  unfold mutBody
  split
  · rename_i hf
    exact h.setPc_plain t _ hold rfl (fun _ _ => hf) (fun _ _ _ e => by cases e)
  · rename_i hf
    have hf0 : s.frozen = 0 := by omega
    have hp := h.after_perform op hf0 hok
    apply hp.1.setPc_plain t .idle _ rfl (fun _ e => by cases e) (fun _ _ _ e => by cases e)
    rw [hp.2.1]; exact hold

theorem legal_mut {s : State} {op : MutOp} (hl : (s.checked || mutContract s op) = true) : MutOk s op := by
  cases hc : s.checked
  · right
    simp only [hc, Bool.false_or] at hl
    unfold mutContract at hl
    cases op <;> simp_all [MutOp.needsDescriptor]
  · exact Or.inl hc

theorem step_unfold {s : State} (h : s.panicked = false) : ¬ (s.panicked = true) := by simp [h]

end BbRe.Lemmas.FileRef

namespace BbRe.Lemmas.FileRef
open BbRe.FileRef

theorem inv_step_link {s s' : State} {o : Out} (h : Inv s) (hs : step s .link = some (s', o)) : Inv s' := by
  unfold step at hs
  rw [if_neg (step_unfold h.noPanic)] at hs
  simp only at hs
  split at hs
  · rename_i hlay
    split at hs
    · cases hs; exact h
    · rename_i hl
      cases hs
      refine ⟨h.noPanic, ?_, h.writersEq, h.closedIff, h.closesEq, h.pcs, h.cachedOk, h.casOk⟩
      have := h.refsEq
      have hl' : 0 < s.linkCount := Nat.pos_of_ne_zero hl
      simp only [baseLinks, hlay, if_true, hl', gt_iff_lt] at this ⊢
      have hl2 : 0 < s.linkCount + 1 := by omega
      simp only [hl2, if_true]
      exact this
  · rename_i hlay
    split at hs
    · cases hs; exact h
    · rename_i hr
      cases hs
      have hnc := h.notClosed_of_refs (Nat.pos_of_ne_zero hr)
      refine ⟨h.noPanic, ?_, h.writersEq, ?_, h.closesEq, h.pcs, h.cachedOk, h.casOk⟩
      · have := h.refsEq
        simp only [baseLinks, hlay] at this ⊢
        simp only [Bool.false_eq_true, if_false] at this ⊢
        omega
      · show s.closed = true ↔ s.refs + 1 = 0
        simp only [hnc, Bool.false_eq_true, false_iff]
        omega

end BbRe.Lemmas.FileRef

namespace BbRe.Lemmas.FileRef
open BbRe.FileRef

theorem inv_step_unlink {s s' : State} {o : Out} (h : Inv s) (hl : 0 < s.linkCount)
    (hs : step s .unlink = some (s', o)) : Inv s' := by
  unfold step at hs
  rw [if_neg (step_unfold h.noPanic)] at hs
  simp only at hs
  have hr := h.refsEq
  split at hs
  · rename_i hlay
    rw [if_neg (by omega)] at hs
    split at hs
    · rename_i h1
      cases hs
      apply Inv'.after_release _ (Nat.le_refl 1)
      refine ⟨h.noPanic, ?_, h.writersEq, h.closedIff, h.closesEq, h.pcs, h.cachedOk, h.casOk⟩
      simp only [baseLinks, hlay, if_true, hl, gt_iff_lt] at hr ⊢
      simp only [Nat.lt_irrefl, if_false]
      omega
    · rename_i h1
      cases hs
      refine ⟨h.noPanic, ?_, h.writersEq, h.closedIff, h.closesEq, h.pcs, h.cachedOk, h.casOk⟩
      have h2 : 0 < s.linkCount - 1 := by omega
      simp only [baseLinks, hlay, if_true, hl, h2] at hr ⊢
      exact hr
  · rename_i hlay
    simp only [Option.some.injEq, Prod.mk.injEq] at hs
    rw [← hs.1]
    apply Inv'.after_release _ (Nat.le_refl 1)
    refine ⟨h.noPanic, ?_, h.writersEq, h.closedIff, h.closesEq, h.pcs, h.cachedOk, h.casOk⟩
    simp only [baseLinks, hlay] at hr ⊢
    simp only [Bool.false_eq_true, if_false] at hr ⊢
    omega

theorem inv_step_open {s s' : State} {o : Out} (h : Inv s) (m : Mask)
    (hs : step s (.open_ m) = some (s', o)) : Inv s' := by
  unfold step at hs
  rw [if_neg (step_unfold h.noPanic)] at hs
  simp only at hs
  split at hs
  · cases hs; exact h
  · rename_i hr
    cases hs
    exact h.after_acquire m (Nat.pos_of_ne_zero hr)

theorem inv_step_close {s s' : State} {o : Out} (h : Inv s) (m : Mask)
    (hc : 1 ≤ m.count) (hrd : b2n m.r ≤ s.rd) (hwr : b2n m.w ≤ s.wr)
    (hs : step s (.close m) = some (s', o)) : Inv s' := by
  unfold step at hs
  rw [if_neg (step_unfold h.noPanic)] at hs
  simp only at hs
  have hr := h.refsEq
  have hw := h.writersEq
  have hnw : ¬ (m.w = true ∧ s.writers = 0) := by
    intro ⟨h1, h2⟩
    simp only [h1, b2n, if_true] at hwr
    omega
  rw [if_neg hnw] at hs
  simp only [Option.some.injEq, Prod.mk.injEq] at hs
  rw [← hs.1]
  apply Inv'.after_release _ hc
  have hcnt : m.count = b2n m.r + b2n m.w := rfl
  cases hmw : m.w
  · have e : b2n m.w = 0 := by simp [b2n, hmw]
    simp only [Bool.false_eq_true, if_false]
    refine ⟨h.noPanic, ?_, ?_, h.closedIff, h.closesEq, h.pcs, h.cachedOk, h.casOk⟩
    · show s.refs = baseLinks s + (s.rd - b2n m.r) + (s.wr - b2n false) + s.frozen + m.count
      rw [← hmw]
      omega
    · show s.writers = s.wr - b2n false
      rw [← hmw]
      omega
  · have e : b2n m.w = 1 := by simp [b2n, hmw]
    simp only [if_true]
    refine ⟨h.noPanic, ?_, ?_, h.closedIff, h.closesEq, ?_, h.cachedOk, h.casOk⟩
    · show s.refs = baseLinks s + (s.rd - b2n m.r) + (s.wr - b2n true) + s.frozen + m.count
      rw [← hmw]
      omega
    · show s.writers - 1 = s.wr - b2n true
      rw [← hmw]
      omega
    · exact h.pcs.writers_dec

theorem inv_step_read {s s' : State} {o : Out} (h : Inv s) (off len : Nat) (hd : 0 < s.rd + s.wr)
    (hs : step s (.read off len) = some (s', o)) : Inv s' := by
  have hnc := h.notClosed_of_refs (h.refs_pos_of_desc hd)
  unfold step at hs
  rw [if_neg (step_unfold h.noPanic)] at hs
  simp only at hs
  split at hs
  · cases hs; exact h
  · split at hs
    · cases hs; exact h
    · rw [if_neg (by simp [hnc])] at hs
      split at hs <;> (cases hs; exact h)

theorem inv_step_seek {s s' : State} {o : Out} (h : Inv s) (off : Nat) (hd : 0 < s.rd + s.wr)
    (hs : step s (.seek off) = some (s', o)) : Inv s' := by
  have hnc := h.notClosed_of_refs (h.refs_pos_of_desc hd)
  unfold step at hs
  rw [if_neg (step_unfold h.noPanic)] at hs
  simp only at hs
  split at hs
  · cases hs; exact h
  · rw [if_neg (by simp [hnc])] at hs
    cases hs; exact h

theorem inv_step_simple {s s' : State} {o : Out} (h : Inv s) (op : Op)
    (hop : op = .getattr ∨ op = .chown ∨ op = .persist ∨ (∃ x, op = .setperm x) ∨ (∃ k, op = .fire k) ∨
      (∃ k v, op = .fault k v))
    (hs : step s op = some (s', o)) : Inv s' := by
  unfold step at hs
  rw [if_neg (step_unfold h.noPanic)] at hs
  rcases hop with rfl | rfl | rfl | ⟨x, rfl⟩ | ⟨k, rfl⟩ | ⟨k, v, rfl⟩
  · cases hs; exact h
  · cases hs; exact h
  · cases hs; exact h
  · cases hs; exact h.light _ _ _ _ _ _
  · cases hs; exact h.light _ _ _ _ _ _
  · simp only at hs
    split at hs
    · cases hs; exact h.light _ _ _ _ _ _
    · split at hs <;> (cases hs; exact h.light _ _ _ _ _ _)

end BbRe.Lemmas.FileRef

namespace BbRe.Lemmas.FileRef
open BbRe.FileRef

theorem some_pair_eq {α β : Type} {p : α × β} {a : α} {b : β} (h : some p = some (a, b)) : p.1 = a := by
  cases h; rfl

theorem inv_step_mbegin {s s' : State} {o : Out} (h : Inv s) (t : Nat) (op : MutOp) (hok : MutOk s op)
    (hs : step s (.mbegin t op) = some (s', o)) : Inv s' := by
  unfold step at hs
  rw [if_neg (step_unfold h.noPanic)] at hs
  simp only at hs
  split at hs
  · rename_i hpc
    rw [← some_pair_eq hs]
    exact h.after_mutBody t op (by rw [hpc]; rfl) hok
  · cases hs

theorem inv_step_mwake {s s' : State} {o : Out} (h : Inv s) (t : Nat)
    (hleg : ∀ op w, s.pc t = .mutWait op w → MutOk s op)
    (hs : step s (.mwake t) = some (s', o)) : Inv s' := by
  unfold step at hs
  rw [if_neg (step_unfold h.noPanic)] at hs
  simp only at hs
  split at hs
  · rename_i op hpc
    rw [← some_pair_eq hs]
    exact h.after_mutBody t op (by rw [hpc]; rfl) (hleg op true hpc)
  · cases hs

theorem frozenPcFor_frozen (u : Bool) (fn : Nat) :
    (frozenPcFor u fn).isFrozen = true ∧ ∀ d, frozenPcFor u fn ≠ .upPut d := by
  unfold frozenPcFor
  cases u <;> simp [PC.isFrozen]

theorem inv_step_ubegin {s s' : State} {o : Out} (h : Inv s) (t : Nat) (u : Bool) (k : Option Nat) (fn : Nat)
    (hs : step s (.ubegin t u k fn) = some (s', o)) : Inv s' := by
  unfold step at hs
  rw [if_neg (step_unfold h.noPanic)] at hs
  simp only at hs
  split at hs
  · rename_i hpc
    have hold : (s.pc t).isFrozen = false := by rw [hpc]; rfl
    split at hs
    · rename_i hw
      cases hs
      exact h.setPc_plain t _ hold rfl (fun _ e => by cases e) (fun _ _ _ _ => hw)
    · rw [← some_pair_eq hs]
      exact h.after_openFrozenFor t _ hold (frozenPcFor_frozen u fn).1 (frozenPcFor_frozen u fn).2
  · cases hs

theorem inv_step_uwake {s s' : State} {o : Out} (h : Inv s) (t : Nat) (v : Bool)
    (hs : step s (.uwake t v) = some (s', o)) : Inv s' := by
  unfold step at hs
  rw [if_neg (step_unfold h.noPanic)] at hs
  simp only at hs
  split at hs
  · rename_i u k fn woken hpc
    have hold : (s.pc t).isFrozen = false := by rw [hpc]; rfl
    have hopen := h.after_openFrozenFor t _ hold (frozenPcFor_frozen u fn).1 (frozenPcFor_frozen u fn).2
    split at hs
    · split at hs
      · split at hs
        · rw [← some_pair_eq hs]; exact hopen
        · cases hs
      · cases hs
    · split at hs
      · split at hs
        · rename_i hw
          cases hs
          exact h.setPc_plain t _ hold rfl (fun _ e => by cases e) (fun _ _ _ _ => hw)
        · rw [← some_pair_eq hs]; exact hopen
      · cases hs
  · cases hs

theorem Inv.setPc_keep {s : State} (h : Inv s) (t : Nat) (v : PC)
    (hold : (s.pc t).isFrozen = true) (hv : v.isFrozen = true) (hd : ∀ d, v = .upPut d → d.2 = s.bytes) :
    Inv (s.setPc t v) :=
  ⟨h.noPanic, h.refsEq, h.writersEq, h.closedIff, h.closesEq,
    h.pcs.upd_keep t v hold hv hd, h.cachedOk, h.casOk⟩

theorem inv_step_udigest {s s' : State} {o : Out} (h : Inv s) (t : Nat)
    (hs : step s (.udigest t) = some (s', o)) : Inv s' := by
  unfold step at hs
  rw [if_neg (step_unfold h.noPanic)] at hs
  simp only at hs
  split at hs
  · rename_i fn hpc
    have hd := h.after_digestStep fn
    have hfr := digestStep_frame s fn
    have hold : ((digestStep s fn).1.pc t).isFrozen = true := by rw [hfr.1, hpc]; rfl
    split at hs
    · rename_i d hdig
      cases hs
      apply hd.setPc_keep t _ hold rfl
      intro d' e
      cases e
      rw [hfr.2.1]
      exact (digestStep_valid h fn d hdig).1
    · cases hs
      exact hd.after_frozenClose t hold
  · cases hs

theorem Inv.casPush {s : State} (h : Inv s) (d : Digest) (got : Bytes) (hg : d.2 = got) :
    Inv { s with cas := (d, got) :: s.cas } :=
  ⟨h.noPanic, h.refsEq, h.writersEq, h.closedIff, h.closesEq, h.pcs, h.cachedOk,
    fun e he => by
      rcases List.mem_cons.mp he with rfl | he
      · exact hg
      · exact h.casOk e he⟩

theorem inv_step_putDone {s s' : State} {o : Out} (h : Inv s) (t : Nat) (ok : Bool)
    (hs : step s (.putDone t ok) = some (s', o)) : Inv s' := by
  unfold step at hs
  rw [if_neg (step_unfold h.noPanic)] at hs
  simp only at hs
  split at hs
  · rename_i d hpc
    have hold : (s.pc t).isFrozen = true := by rw [hpc]; rfl
    have hdb := h.pcs.putOk t d hpc
    split at hs
    · split at hs
      · cases hs; exact h.after_frozenClose t hold
      · cases hs
        have hg : d.2 = s.bytes.take d.2.length := by
          rw [hdb]; simp
        exact (h.casPush d _ hg).after_frozenClose t hold
    · cases hs; exact h.after_frozenClose t hold
  · cases hs

theorem inv_step_fread {s s' : State} {o : Out} (h : Inv s) (t off len : Nat)
    (hs : step s (.fread t off len) = some (s', o)) : Inv s' := by
  unfold step at hs
  rw [if_neg (step_unfold h.noPanic)] at hs
  simp only at hs
  split at hs
  · rename_i hpc
    have hold : (s.pc t).isFrozen = true := by rw [hpc]; rfl
    have hpos := h.pcs.fcount.pos hold
    have hnc := h.notClosed_of_refs (by have := h.refsEq; omega)
    rw [if_neg (by simp [hnc])] at hs
    split at hs <;> (cases hs; exact h)
  · cases hs

theorem inv_step_fclose {s s' : State} {o : Out} (h : Inv s) (t : Nat)
    (hs : step s (.fclose t) = some (s', o)) : Inv s' := by
  unfold step at hs
  rw [if_neg (step_unfold h.noPanic)] at hs
  simp only at hs
  split at hs
  · rename_i hpc
    cases hs
    exact h.after_frozenClose t (by rw [hpc]; rfl)
  · cases hs

theorem inv_step_statOpen {s s' : State} {o : Out} (h : Inv s) (t fn : Nat)
    (hs : step s (.statOpen t fn) = some (s', o)) : Inv s' := by
  unfold step at hs
  rw [if_neg (step_unfold h.noPanic)] at hs
  simp only at hs
  split at hs
  · rename_i hpc
    split at hs
    · rw [← some_pair_eq hs]
      exact h.after_openFrozenFor t _ (by rw [hpc]; rfl) rfl (fun d e => by cases e)
    · cases hs; exact h
  · cases hs

theorem inv_step_statFinish {s s' : State} {o : Out} (h : Inv s) (t : Nat)
    (hs : step s (.statFinish t) = some (s', o)) : Inv s' := by
  unfold step at hs
  rw [if_neg (step_unfold h.noPanic)] at hs
  simp only at hs
  split at hs
  · rename_i fn hpc
    cases hs
    have hfr := digestStep_frame s fn
    exact (h.after_digestStep fn).after_frozenClose t (by rw [hfr.1, hpc]; rfl)
  · cases hs

/-- Every enabled step that respects the caller contract preserves the invariant. -/
theorem inv_step {s s' : State} {o : Out} (op : Op) (h : Inv s) (hl : legal s op = true)
    (hs : step s op = some (s', o)) : Inv s' := by
  cases op with
  | link => exact inv_step_link h hs
  | unlink => exact inv_step_unlink h (by simpa [legal] using hl) hs
  | open_ m => exact inv_step_open h m hs
  | close m =>
    have : 1 ≤ m.count ∧ b2n m.r ≤ s.rd ∧ b2n m.w ≤ s.wr := by simpa [legal] using hl
    exact inv_step_close h m this.1 this.2.1 this.2.2 hs
  | read off len => exact inv_step_read h off len (by simpa [legal] using hl) hs
  | seek off => exact inv_step_seek h off (by simpa [legal] using hl) hs
  | getattr => exact inv_step_simple h _ (Or.inl rfl) hs
  | setperm x => exact inv_step_simple h _ (Or.inr (Or.inr (Or.inr (Or.inl ⟨x, rfl⟩)))) hs
  | chown => exact inv_step_simple h _ (Or.inr (Or.inl rfl)) hs
  | persist => exact inv_step_simple h _ (Or.inr (Or.inr (Or.inl rfl))) hs
  | mbegin t op =>
    exact inv_step_mbegin h t op (legal_mut hl) hs
  | mwake t =>
    refine inv_step_mwake h t ?_ hs
    intro op w hpc
    apply legal_mut
    simp only [legal, hpc] at hl
    exact hl
  | ubegin t u k fn => exact inv_step_ubegin h t u k fn hs
  | uwake t v => exact inv_step_uwake h t v hs
  | udigest t => exact inv_step_udigest h t hs
  | putDone t ok => exact inv_step_putDone h t ok hs
  | fread t off len => exact inv_step_fread h t off len hs
  | fclose t => exact inv_step_fclose h t hs
  | statOpen t fn => exact inv_step_statOpen h t fn hs
  | statFinish t => exact inv_step_statFinish h t hs
  | fire k => exact inv_step_simple h _ (Or.inr (Or.inr (Or.inr (Or.inr (Or.inl ⟨k, rfl⟩))))) hs
  | fault k v => exact inv_step_simple h _ (Or.inr (Or.inr (Or.inr (Or.inr (Or.inr ⟨k, v, rfl⟩))))) hs

theorem inv_reachable {s : State} (h : Reachable s) : Inv s := by
  induction h with
  | init c l x n m => exact inv_init c l x n m
  | step op _ hl hs ih => exact inv_step op ih hl hs

end BbRe.Lemmas.FileRef
