import BbRe.Model.NfsState
/-!
# State ID scope (C18.stateid_scope): lemmas about the state-ID resolution of
`Model/NfsState.lean` (`cmpSeq`, `nextSeq`, `findOpen`, `findLock`, `ioTarget`).
-/
namespace BbRe.Lemmas.NfsScope
open BbRe.NfsState BbRe.NfsShare

theorem st_consts : St.ok = 0 ∧ St.badStateid = 10025 ∧ St.oldStateid = 10024 ∧ St.openmode = 10038 ∧
    St.nofilehandle = 10020 := ⟨rfl, rfl, rfl, rfl, rfl⟩

/-- The comparison accepts exactly the current seqid (4.1: or 0, "the most recent one"). -/
theorem cmpSeq_ok_iff (ver c srv : Nat) :
    cmpSeq ver c srv = St.ok ↔ (c = srv ∨ (ver = 41 ∧ c = 0)) := by
  unfold cmpSeq
  simp only [St.ok, St.badStateid, St.oldStateid]
  by_cases h1 : (ver == 41 && c == 0) = true
  · simp only [h1, if_true, true_iff]
    simp only [Bool.and_eq_true, beq_iff_eq] at h1
    exact Or.inr h1
  · simp only [h1, Bool.false_eq_true, if_false]
    by_cases h2 : (c == srv) = true
    · simp only [h2, if_true, true_iff]
      exact Or.inl (by simpa using h2)
    · simp only [h2, Bool.false_eq_true, if_false]
      have h2' : c ≠ srv := by simpa using h2
      have h1' : ¬ (ver = 41 ∧ c = 0) := by simpa using h1
      split <;> simp [h2', h1']

/-- Otherwise NFS4ERR_BAD_STATEID iff the client's value is 1 … 2^31-1 ahead of the server's modulo
2^32 (`int32(client - server) > 0`), else NFS4ERR_OLD_STATEID. -/
theorem cmpSeq_not_ok (ver c srv : Nat) (h : ¬ (c = srv ∨ (ver = 41 ∧ c = 0))) :
    (cmpSeq ver c srv = St.badStateid ↔ (c + 4294967296 - srv) % 4294967296 < 2147483648) ∧
    (cmpSeq ver c srv = St.oldStateid ↔ ¬ (c + 4294967296 - srv) % 4294967296 < 2147483648) := by
  unfold cmpSeq
  simp only [St.ok, St.badStateid, St.oldStateid]
  have h1 : (ver == 41 && c == 0) = false := by
    cases hx : (ver == 41 && c == 0)
    · rfl
    · simp only [Bool.and_eq_true, beq_iff_eq] at hx
      exact absurd (Or.inr hx) h
  have h2 : (c == srv) = false := by
    cases hx : (c == srv)
    · rfl
    · exact absurd (Or.inl (by simpa using hx)) h
  simp only [h1, h2, Bool.false_eq_true, if_false]
  split <;> simp_all

/-- Seqids wrap from `2^32-1` to 1, never to 0, and stay `uint32`. -/
theorem nextSeq_spec (n : Nat) (hn : n < 4294967296) :
    nextSeq n ≠ 0 ∧ nextSeq n < 4294967296 ∧ (n = 4294967295 → nextSeq n = 1) ∧
    (n ≠ 4294967295 → nextSeq n = n + 1) := by
  unfold nextSeq
  by_cases h : n = 4294967295
  · simp [h]
  · have : (n == 4294967295) = false := by simpa using h
    simp only [this, Bool.false_eq_true, if_false]
    exact ⟨by omega, by omega, fun e => absurd e h, fun _ => trivial⟩

/-- A seqid one step in the future is refused as BAD, the previous one as OLD — across the
wrap-around too. -/
theorem cmpSeq_next (x : Nat) (h1 : 1 ≤ x) (hx : x < 4294967296) :
    cmpSeq 40 (nextSeq x) x = St.badStateid ∧ cmpSeq 40 x (nextSeq x) = St.oldStateid ∧
    cmpSeq 41 (nextSeq x) x = St.badStateid ∧ cmpSeq 41 x (nextSeq x) = St.oldStateid := by
  have hs := nextSeq_spec x hx
  by_cases hw : x = 4294967295
  · subst hw
    decide
  · have hn : nextSeq x = x + 1 := hs.2.2.2 hw
    rw [hn]
    have hne : ¬ (x + 1 = x ∨ ((40:Nat) = 41 ∧ x + 1 = 0)) := by omega
    have hne' : ¬ (x = x + 1 ∨ ((40:Nat) = 41 ∧ x = 0)) := by omega
    have hne1 : ¬ (x + 1 = x ∨ ((41:Nat) = 41 ∧ x + 1 = 0)) := by omega
    have hne1' : ¬ (x = x + 1 ∨ ((41:Nat) = 41 ∧ x = 0)) := by omega
    refine ⟨(cmpSeq_not_ok 40 (x+1) x hne).1.2 (by omega), (cmpSeq_not_ok 40 x (x+1) hne').2.2 (by omega),
      (cmpSeq_not_ok 41 (x+1) x hne1).1.2 (by omega), (cmpSeq_not_ok 41 x (x+1) hne1').2.2 (by omega)⟩

/-! ## Resolution of open and lock state IDs -/

/-- What it means for a request (enclosing SEQUENCE `q`, current file handle `fh`, state ID
`(sid, sseq)`) to be within the scope of the open-owner file `f`. -/
structure OpenScope (s : State) (q sid sseq fh : Nat) (allowUnconfirmed : Bool) (f : OFile) : Prop where
  mem : f ∈ s.files
  live : f.live = true
  sidEq : f.sid = sid
  /-- 4.1: the state belongs to the incarnation of the session the request came through -/
  client : (s.ver == 40) = false → reqClient s q = some f.cl
  /-- the current file handle is the handle of the state's file -/
  handle : fhIsFile fh = true ∧ fhIndex fh = f.file
  /-- the seqid comparison passed -/
  seq : cmpSeq (if s.ver == 40 then 40 else 41) sseq (seqOf s sid) = St.ok
  /-- 4.0: not half-closed, and the open-owner is confirmed (unless OPEN_CONFIRM itself) -/
  v40 : (s.ver == 40) = true → f.share.isNone = false ∧
    (allowUnconfirmed = true ∨ ((s.getOO f.cl f.owner).map (·.confirmed)).getD false = true)

theorem find_some {α : Type} {p : α → Bool} {l : List α} {a : α} (h : l.find? p = some a) :
    a ∈ l ∧ p a = true := ⟨List.mem_of_find?_eq_some h, List.find?_some h⟩

/-- `getOpenOwnerFileByStateID` honours a state ID only within its scope. -/
theorem findOpen_ok' (s : State) (q sid sseq fh : Nat) (au : Bool) (r : Found)
    (hr : findOpen s q sid sseq fh au = r) (hok : r.st = St.ok) :
    ∃ f, r.f = some f ∧ OpenScope s q sid sseq fh au f := by
  unfold findOpen at hr
  by_cases hv : (s.ver == 40) = true
  · simp only [hv, if_true] at hr
    split at hr
    · subst hr; exact absurd hok (by decide)
    · rename_i f hf
      obtain ⟨hm, hp⟩ := find_some hf
      simp only [Bool.and_eq_true, beq_iff_eq] at hp
      by_cases c0 : fh = 0
      · simp only [c0, beq_self_eq_true, if_true] at hr
        subst hr; exact absurd hok (by decide)
      · have c0' : (fh == 0) = false := by simpa using c0
        simp only [c0', Bool.false_eq_true, if_false] at hr
        by_cases c1 : f.share.isNone = true
        · simp only [c1, if_true] at hr
          subst hr; exact absurd hok (by decide)
        · simp only [c1] at hr
          by_cases c2 : (fhIsFile fh && fhIndex fh == f.file) = true
          · simp only [c2, Bool.not_true, Bool.false_eq_true, if_false] at hr
            by_cases c3 : (!au && !((s.getOO f.cl f.owner).map (·.confirmed)).getD false) = true
            · simp only [c3, if_true] at hr
              subst hr; exact absurd hok (by decide)
            · simp only [c3] at hr
              subst hr
              refine ⟨f, rfl, hm, hp.1, hp.2, fun e => by simp [hv] at e, ?_, by simpa [hv] using hok, fun _ => ?_⟩
              · simpa using c2
              · refine ⟨by simpa using c1, ?_⟩
                cases au
                · right
                  simpa using c3
                · left; rfl
          · simp only [c2, Bool.not_false, if_true] at hr
            subst hr; exact absurd hok (by decide)
  · have hv' : (s.ver == 40) = false := by simpa using hv
    simp only [hv', Bool.false_eq_true, if_false] at hr
    by_cases c0 : fh = 0
    · simp only [c0, beq_self_eq_true, if_true] at hr
      subst hr; exact absurd hok (by decide)
    · have c0' : (fh == 0) = false := by simpa using c0
      simp only [c0', Bool.false_eq_true, if_false] at hr
      by_cases c1 : (sid == sidAnon || sid == sidBypass) = true
      · simp only [c1, if_true] at hr
        subst hr; exact absurd hok (by decide)
      · simp only [c1] at hr
        cases hf : s.files.find? (fun f => f.live && f.sid == sid && visible s q f) with
        | none => simp only [hf] at hr; subst hr; exact absurd hok (by decide)
        | some f =>
          simp only [hf] at hr
          obtain ⟨hm, hp⟩ := find_some hf
          simp only [Bool.and_eq_true, beq_iff_eq, visible, hv', Bool.false_or] at hp
          by_cases c2 : (fhIsFile fh && fhIndex fh == f.file) = true
          · simp only [c2, Bool.not_true, Bool.false_eq_true, if_false] at hr
            subst hr
            exact ⟨f, rfl, hm, hp.1.1, hp.1.2, fun _ => by simpa using hp.2, by simpa using c2,
              by simpa [hv'] using hok, fun e => by simp [hv'] at e⟩
          · simp only [c2, Bool.not_false, if_true] at hr
            subst hr; exact absurd hok (by decide)

theorem findOpen_ok (s : State) (q sid sseq fh : Nat) (au : Bool)
    (hok : (findOpen s q sid sseq fh au).st = St.ok) :
    ∃ f, (findOpen s q sid sseq fh au).f = some f ∧ OpenScope s q sid sseq fh au f :=
  findOpen_ok' s q sid sseq fh au _ rfl hok

/-- Scope of a lock state ID: the lock-owner file `l` of the open-owner file `f`. -/
structure LockScope (s : State) (q lsid lsseq fh : Nat) (f : OFile) (l : LOFile) : Prop where
  mem : f ∈ s.files
  live : f.live = true
  lmem : l ∈ f.lofs
  sidEq : l.sid = lsid
  client : (s.ver == 40) = false → reqClient s q = some f.cl
  handle : fhIsFile fh = true ∧ fhIndex fh = f.file
  seq : cmpSeq s.ver lsseq (seqOf s lsid) = St.ok

/-- `getLockOwnerFileByStateID` honours a lock state ID only within its scope. -/
theorem findLock_ok' (s : State) (q lsid lsseq fh : Nat) (r : Found)
    (hr : findLock s q lsid lsseq fh = r) (hok : r.st = St.ok) :
    ∃ f l, r.f = some f ∧ r.l = some l ∧ LockScope s q lsid lsseq fh f l := by
  unfold findLock at hr
  by_cases c0 : (s.ver == 41 && fh == 0) = true
  · simp only [c0, if_true] at hr
    subst hr; exact absurd hok (by decide)
  · simp only [c0] at hr
    by_cases c1 : (s.ver == 41 && (lsid == sidAnon || lsid == sidBypass)) = true
    · simp only [c1, if_true] at hr
      subst hr; exact absurd hok (by decide)
    · simp only [c1] at hr
      cases hf : s.files.find? (fun f => f.live && visible s q f && f.lofs.any (fun l => l.sid == lsid)) with
      | none => simp only [hf] at hr; subst hr; exact absurd hok (by decide)
      | some f =>
        simp only [hf] at hr
        obtain ⟨hm, hp⟩ := find_some hf
        simp only [Bool.and_eq_true] at hp
        cases hl : f.lofs.find? (fun l => l.sid == lsid) with
        | none => simp only [hl] at hr; subst hr; exact absurd hok (by decide)
        | some l =>
          simp only [hl] at hr
          obtain ⟨hlm, hlp⟩ := find_some hl
          by_cases c2 : fh = 0
          · simp only [c2, beq_self_eq_true, if_true] at hr
            subst hr; exact absurd hok (by decide)
          · have c2' : (fh == 0) = false := by simpa using c2
            simp only [c2', Bool.false_eq_true, if_false] at hr
            by_cases c3 : (fhIsFile fh && fhIndex fh == f.file) = true
            · simp only [c3, Bool.not_true, Bool.false_eq_true, if_false] at hr
              subst hr
              refine ⟨f, l, rfl, rfl, hm, hp.1.1, hlm, by simpa using hlp, fun e => ?_, by simpa using c3, hok⟩
              have := hp.1.2
              simp only [visible, e, Bool.false_or] at this
              simpa using this
            · simp only [c3, Bool.not_false, if_true] at hr
              subst hr; exact absurd hok (by decide)

theorem findLock_ok (s : State) (q lsid lsseq fh : Nat)
    (hok : (findLock s q lsid lsseq fh).st = St.ok) :
    ∃ f l, (findLock s q lsid lsseq fh).f = some f ∧ (findLock s q lsid lsseq fh).l = some l ∧
      LockScope s q lsid lsseq fh f l :=
  findLock_ok' s q lsid lsseq fh _ rfl hok

/-! ## READ / WRITE / SETATTR -/

/-- `getOpenedLeafWithRegularStateID`: I/O is admitted only with an open state ID in scope whose
current `shareAccess` has the wanted bits, or — the ID not being an open state ID — with a lock state
ID in scope whose mask captured at creation has them; the share reservation is cloned from the file
the state belongs to. -/
theorem ioTarget_ok (s : State) (q sid sseq fh : Nat) (want : Mask) (f : OFile)
    (h : ioTarget s q sid sseq fh want = (St.ok, some f)) :
    (OpenScope s q sid sseq fh false f ∧ want.subset f.share = true) ∨
    (∃ l, LockScope s q sid sseq fh f l ∧ want.subset l.share = true) := by
  unfold ioTarget at h
  simp only at h
  split at h
  · rename_i hst
    have hst' : (findOpen s q sid sseq fh false).st = St.ok := by simpa using hst
    obtain ⟨g, hg, hsc⟩ := findOpen_ok s q sid sseq fh false hst'
    rw [hg] at h
    simp only at h
    split at h
    · simp [St.openmode, St.ok] at h
    · rename_i hsub
      simp only [Prod.mk.injEq, Option.some.injEq, true_and] at h
      subst h
      exact Or.inl ⟨hsc, by simpa using hsub⟩
  · split at h
    · split at h
      · rename_i hne
        have : (findLock s q sid sseq fh).st ≠ St.ok := by simpa using hne
        exact absurd (congrArg Prod.fst h) (by simpa using this)
      · rename_i hne
        have hl : (findLock s q sid sseq fh).st = St.ok := by simpa using hne
        obtain ⟨g, l, hg, hl', hsc⟩ := findLock_ok s q sid sseq fh hl
        rw [hg, hl'] at h
        simp only at h
        split at h
        · simp [St.openmode, St.ok] at h
        · rename_i hsub
          simp only [Prod.mk.injEq, Option.some.injEq, true_and] at h
          subst h
          exact Or.inr ⟨l, hsc, by simpa using hsub⟩
    · exact absurd (congrArg Prod.snd h) (by simp)

/-- A state ID in scope that lacks the wanted bits yields NFS4ERR_OPENMODE (open state ID: judged by
the open's current `shareAccess`). -/
theorem ioTarget_openmode_open (s : State) (q sid sseq fh : Nat) (want : Mask) (f : OFile)
    (hst : (findOpen s q sid sseq fh false).st = St.ok) (hf : (findOpen s q sid sseq fh false).f = some f)
    (hw : want.subset f.share = false) : ioTarget s q sid sseq fh want = (St.openmode, none) := by
  unfold ioTarget
  simp [hst, hf, hw]

/-- … lock state ID: judged by the mask captured when the lock-owner file was created, whatever the
open's `shareAccess` has become since (OPEN_DOWNGRADE / upgrade). -/
theorem ioTarget_openmode_lock (s : State) (q sid sseq fh : Nat) (want : Mask) (f : OFile) (l : LOFile)
    (hst : (findOpen s q sid sseq fh false).st = St.badStateid)
    (hl : (findLock s q sid sseq fh).st = St.ok) (hf : (findLock s q sid sseq fh).f = some f)
    (hl' : (findLock s q sid sseq fh).l = some l) :
    ioTarget s q sid sseq fh want =
      if want.subset l.share then (St.ok, some f) else (St.openmode, none) := by
  unfold ioTarget
  have h1 : ((findOpen s q sid sseq fh false).st == St.ok) = false := by rw [hst]; decide
  have h2 : ((findOpen s q sid sseq fh false).st == St.badStateid) = true := by rw [hst]; decide
  have h3 : ((findLock s q sid sseq fh).st != St.ok) = false := by rw [hl]; decide
  simp only [h1, h2, h3, hf, hl', Bool.false_eq_true, if_false, if_true]
  cases want.subset l.share <;> simp

end BbRe.Lemmas.NfsScope
