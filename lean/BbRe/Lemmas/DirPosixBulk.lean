import BbRe.Lemmas.DirPosix
import BbRe.Lemmas.DirFuel
/-!
`refines_posix` for the bulk calls: the work-list removal `removeTree` tombstones
exactly the directories that are reachable from the work list (`destroy` of
`Spec/Posix.lean`), hence `RemoveAll`, `RemoveAllChildren`, `CreateChildren`
(with overwrite) and `CreateAndEnterPrepopulatedDirectory` commute with `abs`;
`FilterChildren` only hands out what the reference hierarchy allows.
-/
namespace BbRe.Lemmas.Dir
open BbRe.Dir
open BbRe.Spec.Posix (SDir FS tombstone emptied)

/-! ### reachability in the store -/

def MEdge (s : Store) (a b : Nat) : Prop := Child.dir b ∈ (s.dir a).entries.map (fun e => e.child)

inductive MReach (s : Store) : Nat → Nat → Prop
  | refl (a : Nat) : MReach s a a
  | step {a b c : Nat} : MEdge s a b → MReach s b c → MReach s a c

theorem mem_dirChildren {es : List Entry} {b : Nat} :
    b ∈ dirChildren es ↔ Child.dir b ∈ es.map (fun e => e.child) := by
  induction es with
  | nil => simp [dirChildren]
  | cons e rest ih =>
    unfold dirChildren
    cases hc : e.child with
    | dir c => simp [hc, ih]
    | leaf l => simp [hc, ih]

theorem dir_entries_of_ge (s : Store) (d : Nat) (h : s.dirs.length ≤ d) : (s.dir d).entries = [] := by
  rw [dir_default s d h]; rfl

theorem medge_clearDir (s : Store) (d : Nat) (del : Bool) (a b : Nat) :
    MEdge (clearDir s d del) a b ↔ a ≠ d ∧ MEdge s a b := by
  unfold MEdge
  by_cases had : a = d
  · subst had
    have : ((clearDir s a del).dir a).entries = [] := by
      by_cases hd : a < s.dirs.length
      · rw [dir_clearDir_self s a del hd]; rfl
      · exact dir_entries_of_ge _ a (by rw [clearDir_dirs_length]; omega)
    simp [this]
  · rw [clearDir_dir_ne s d a del (fun e => had e.symm)]
    simp [had]

theorem MReach.mono {s s' : Store} (h : ∀ a b, MEdge s' a b → MEdge s a b) {a c : Nat} (hr : MReach s' a c) :
    MReach s a c := by
  induction hr with
  | refl a => exact MReach.refl a
  | step he _ ih => exact MReach.step (h _ _ he) ih

theorem mreach_split (s : Store) (d : Nat) (del : Bool) {a i : Nat} (hr : MReach s a i) (hi : i ≠ d) :
    MReach (clearDir s d del) a i ∨ ∃ k, MEdge s d k ∧ MReach (clearDir s d del) k i := by
  induction hr with
  | refl a => exact Or.inl (MReach.refl a)
  | @step a b c hab _ ih =>
    rcases ih hi with h | h
    · by_cases had : a = d
      · subst had; exact Or.inr ⟨b, hab, h⟩
      · exact Or.inl (MReach.step ((medge_clearDir s d del a b).mpr ⟨had, hab⟩) h)
    · exact Or.inr h

theorem mreach_cleared (s : Store) (d : Nat) (del : Bool) {i : Nat} (hr : MReach (clearDir s d del) d i) : i = d := by
  cases hr with
  | refl => rfl
  | step he _ => exact absurd rfl ((medge_clearDir s d del d _).mp he).1

/-- The directories reachable from the work list, before and after one step of `removeTree`. -/
theorem reach_step (s : Store) (d : Nat) (rest : List Nat) (i : Nat) (hi : i ≠ d) :
    (∃ r ∈ dirChildren (s.dir d).entries ++ rest, MReach (clearDir s d true) r i) ↔
      (∃ r ∈ d :: rest, MReach s r i) := by
  have hmono : ∀ a b, MEdge (clearDir s d true) a b → MEdge s a b := fun a b h => ((medge_clearDir s d true a b).mp h).2
  constructor
  · rintro ⟨r, hr, hri⟩
    rcases List.mem_append.mp hr with h | h
    · exact ⟨d, by simp, MReach.step (mem_dirChildren.mp h) (hri.mono hmono)⟩
    · exact ⟨r, by simp [h], hri.mono hmono⟩
  · rintro ⟨r, hr, hri⟩
    rcases mreach_split s d true hri hi with h | ⟨k, hk, hki⟩
    · rcases List.mem_cons.mp hr with hrd | hrr
      · subst hrd; exact absurd (mreach_cleared s r true h) hi
      · exact ⟨r, List.mem_append.mpr (Or.inr hrr), h⟩
    · exact ⟨k, List.mem_append.mpr (Or.inl (mem_dirChildren.mpr hk)), hki⟩

/-! ### what `removeTree` does to each directory -/

theorem tombstone_idem (x : SDir) : tombstone (tombstone x) = tombstone x := rfl

theorem absDir_cleared (x : Dir) (del : Bool) : absDir (clearedDir x del) = emptied del (absDir x) := rfl

theorem absDir_cleared_true (x : Dir) : absDir (clearedDir x true) = tombstone (absDir x) := by
  simp [absDir, clearedDir, tombstone, Dir.find?]

open Classical in
theorem removeTree_absDir : ∀ (fuel : Nat) (s : Store) (stack : List Nat), totalEntries s + stack.length ≤ fuel →
    ∀ i, absDir ((removeTree fuel s stack).dir i) =
      if i < s.dirs.length ∧ ∃ r ∈ stack, MReach s r i then tombstone (absDir (s.dir i)) else absDir (s.dir i)
  | fuel, s, [], _, i => by
    have : removeTree fuel s [] = s := by cases fuel <;> rfl
    simp [this]
  | 0, s, d :: rest, h, i => by simp at h
  | fuel + 1, s, d :: rest, h, i => by
    simp only [removeTree]
    have hm : totalEntries (clearDir s d true) + (dirChildren (s.dir d).entries ++ rest).length ≤ fuel := by
      have e1 := totalEntries_clearDir s d true
      have e2 := length_dirChildren_le (s.dir d).entries
      simp only [List.length_append, List.length_cons] at h ⊢
      omega
    have ih := removeTree_absDir fuel (clearDir s d true) (dirChildren (s.dir d).entries ++ rest) hm i
    rw [ih, clearDir_dirs_length]
    by_cases hlt : i < s.dirs.length
    · by_cases hid : i = d
      · subst hid
        rw [dir_clearDir_self s i true hlt, absDir_cleared_true]
        have hc : i < s.dirs.length ∧ ∃ r ∈ i :: rest, MReach s r i := ⟨hlt, i, by simp, MReach.refl i⟩
        rw [if_pos hc]
        split <;> rfl
      · rw [clearDir_dir_ne s d i true (fun e => hid e.symm)]
        have := reach_step s d rest i hid
        by_cases hc : ∃ r ∈ d :: rest, MReach s r i
        · rw [if_pos ⟨hlt, this.mpr hc⟩, if_pos ⟨hlt, hc⟩]
        · rw [if_neg (fun hh => hc (this.mp hh.2)), if_neg (fun hh => hc hh.2)]
    · have e1 : (clearDir s d true).dir i = s.dir i := by
        rw [dir_default _ i (by rw [clearDir_dirs_length]; omega), dir_default s i (by omega)]
      rw [if_neg (fun hh => hlt hh.1), if_neg (fun hh => hlt hh.1), e1]

/-! ### lifting to the reference hierarchy -/

theorem edge_iff {P : Params} {s : Store} (hok : ∀ a, DirOK P (s.dir a)) (a b : Nat) :
    BbRe.Spec.Posix.edge (abs s) a b ↔ MEdge s a b := by
  unfold BbRe.Spec.Posix.edge MEdge
  constructor
  · rintro ⟨n, name, he⟩
    rw [abs_dir, absDir_entries] at he
    cases hf : (s.dir a).find? n with
    | none => rw [hf] at he; cases he
    | some e =>
      rw [hf] at he; simp at he
      exact List.mem_map.mpr ⟨e, (find?_some hf).1, he.2⟩
  · intro h
    obtain ⟨e, he, hc⟩ := List.mem_map.mp h
    refine ⟨e.norm, e.name, ?_⟩
    rw [abs_dir, absDir_entries, find?_of_mem_nodup (hok a).nodup he]
    simp [hc]

theorem reach_iff {P : Params} {s : Store} (hok : ∀ a, DirOK P (s.dir a)) (a c : Nat) :
    BbRe.Spec.Posix.Reach (abs s) a c ↔ MReach s a c := by
  constructor
  · intro h
    induction h with
    | refl a => exact MReach.refl a
    | step he _ ih => exact MReach.step ((edge_iff hok _ _).mp he) ih
  · intro h
    induction h with
    | refl a => exact BbRe.Spec.Posix.Reach.refl a
    | step he _ ih => exact BbRe.Spec.Posix.Reach.step ((edge_iff hok _ _).mpr he) ih

/-- Everything of the abstraction except the directories. -/
def SameRest (f g : FS) : Prop :=
  f.kinds = g.kinds ∧ f.tmpls = g.tmpls ∧ f.fetchFail = g.fetchFail ∧ f.allocFail = g.allocFail ∧ f.dirs.length = g.dirs.length

theorem abs_clearDir_gen (s : Store) (c : Nat) (del : Bool) : abs (clearDir s c del) = (abs s).modDir c (emptied del) := by
  rw [clearDir_eq]
  have hd : (unlinkLeaves s (s.dir c).entries).dir c = s.dir c := dir_eq_of_dirs (unlinkLeaves_dirs s _) c
  rw [abs_setDir _ c _ (emptied del) (by rw [hd]; rfl), abs_unlinkLeaves]

theorem sameRest_removeTree : ∀ (fuel : Nat) (s : Store) (stack : List Nat), SameRest (abs (removeTree fuel s stack)) (abs s)
  | 0, s, _ => ⟨rfl, rfl, rfl, rfl, rfl⟩
  | fuel + 1, s, [] => ⟨rfl, rfl, rfl, rfl, rfl⟩
  | fuel + 1, s, d :: rest => by
    simp only [removeTree]
    have ih := sameRest_removeTree fuel (clearDir s d true) (dirChildren (s.dir d).entries ++ rest)
    have e : SameRest (abs (clearDir s d true)) (abs s) := by
      rw [abs_clearDir_gen]
      exact ⟨rfl, rfl, rfl, rfl, by simp [FS.modDir]⟩
    exact ⟨ih.1.trans e.1, ih.2.1.trans e.2.1, ih.2.2.1.trans e.2.2.1, ih.2.2.2.1.trans e.2.2.2.1, ih.2.2.2.2.trans e.2.2.2.2⟩

theorem FS.ext' {f g : FS} (hd : f.dirs = g.dirs) (hr : SameRest f g) : f = g := by
  cases f; cases g
  obtain ⟨h1, h2, h3, h4, _⟩ := hr
  simp at hd h1 h2 h3 h4
  subst hd h1 h2 h3 h4
  rfl

open Classical in
/-- `removeTree` with enough fuel is the declarative `destroy`. -/
theorem abs_removeTree {P : Params} (s : Store) (hok : ∀ a, DirOK P (s.dir a)) (stack : List Nat) (fuel : Nat)
    (hf : totalEntries s + stack.length ≤ fuel) :
    abs (removeTree fuel s stack) = BbRe.Spec.Posix.destroy (abs s) (fun r => r ∈ stack) := by
  have hr := sameRest_removeTree fuel s stack
  apply FS.ext'
  · apply List.ext_getElem?
    intro i
    unfold BbRe.Spec.Posix.destroy
    simp only [List.getElem?_mapIdx]
    have hl : (abs (removeTree fuel s stack)).dirs.length = s.dirs.length := by rw [hr.2.2.2.2, abs_dirs_length]
    by_cases hi : i < s.dirs.length
    · have e1 : (abs (removeTree fuel s stack)).dirs[i]? = some ((abs (removeTree fuel s stack)).dir i) := by
        unfold FS.dir; rw [List.getElem?_eq_getElem (by omega)]; rfl
      have e2 : (abs s).dirs[i]? = some ((abs s).dir i) := by
        unfold FS.dir; rw [List.getElem?_eq_getElem (by rw [abs_dirs_length]; exact hi)]; rfl
      rw [e1, e2, abs_dir, abs_dir, removeTree_absDir fuel s stack hf i]
      simp only [Option.map_some]
      congr 1
      by_cases hc : ∃ r ∈ stack, MReach s r i
      · have hc' : ∃ r, r ∈ stack ∧ BbRe.Spec.Posix.Reach (abs s) r i := by
          obtain ⟨r, h1, h2⟩ := hc; exact ⟨r, h1, (reach_iff hok r i).mpr h2⟩
        rw [if_pos ⟨hi, hc⟩, if_pos hc']
      · have hc' : ¬ ∃ r, r ∈ stack ∧ BbRe.Spec.Posix.Reach (abs s) r i := by
          rintro ⟨r, h1, h2⟩; exact hc ⟨r, h1, (reach_iff hok r i).mp h2⟩
        rw [if_neg (fun hh => hc hh.2), if_neg hc']
    · rw [List.getElem?_eq_none_iff.mpr (by omega), List.getElem?_eq_none_iff.mpr (by rw [abs_dirs_length]; omega)]
      rfl
  · unfold BbRe.Spec.Posix.destroy
    exact ⟨hr.1, hr.2.1, hr.2.2.1, hr.2.2.2.1, by simp [hr.2.2.2.2]⟩

theorem destroy_congr (f : FS) (R R' : Nat → Prop) (h : ∀ r, R r ↔ R' r) :
    BbRe.Spec.Posix.destroy f R = BbRe.Spec.Posix.destroy f R' := by
  have : R = R' := funext (fun r => propext (h r))
  rw [this]

theorem removeTree_nil (fuel : Nat) (s : Store) : removeTree fuel s [] = s := by cases fuel <;> rfl

/-! ### CreateAndEnterPrepopulatedDirectory -/

theorem createAndEnter_refines (P : Params) (s : Store) (d name : Nat) (hd : d < s.dirs.length) :
    BbRe.Spec.Posix.createAndEnter P.normalize (abs s) d name =
      (abs (createAndEnter P s d name).1, (createAndEnter P s d name).2.status, (createAndEnter P s d name).2.child) := by
  unfold BbRe.Spec.Posix.createAndEnter createAndEnter
  rw [abs_materialize P s d hd]
  cases hm : materialize P s d with
  | error e => rfl
  | ok s1 =>
    have hd1 : d < s1.dirs.length := by have := materialize_len hm; omega
    simp only [Except.map]
    rw [abs_dir, absDir_entries]
    have hfs : (absDir (s1.dir d)).fs = (s1.dir d).fs := rfl
    have hrm : (absDir (s1.dir d)).removed = (s1.dir d).deleted := rfl
    cases hf : (s1.dir d).find? (P.normalize name) with
    | some e =>
      simp only [Option.map]
      cases hc : e.child with
      | dir c => rfl
      | leaf l =>
        simp only []
        rw [hfs, abs_dirs_length]
        have hlen : ((s1.modDir d (fun x => x.detach (P.normalize name))).unlink l).dirs.length = s1.dirs.length := by simp
        have hdir : ((((s1.modDir d (fun x => x.detach (P.normalize name))).unlink l).pushDir (newDirOf (s1.dir d))).dir d) =
            (s1.dir d).detach (P.normalize name) := by
          rw [dir_pushDir_lt _ _ d (by rw [hlen]; exact hd1)]
          simp [dir_modDir_self s1 d _ hd1]
        rw [abs_modDir _ d _ (fun x => x.put (P.normalize name) name (Child.dir s1.dirs.length))
          (by rw [hdir]; exact absDir_attach _ _ _ _ (find?_detach_self _ _)), abs_pushDir, abs_unlink,
          abs_modDir _ d _ (fun x => x.del (P.normalize name)) (absDir_detach _ _)]
        rfl
    | none =>
      simp only [Option.map]
      rw [hrm]
      by_cases hdel : (s1.dir d).deleted = true
      · rw [if_pos hdel, if_pos hdel]; rfl
      · rw [if_neg hdel, if_neg hdel]
        simp only []
        rw [hfs, abs_dirs_length]
        have hdir : (s1.pushDir (newDirOf (s1.dir d))).dir d = s1.dir d := dir_pushDir_lt s1 _ d hd1
        rw [abs_modDir _ d _ (fun x => x.put (P.normalize name) name (Child.dir s1.dirs.length))
          (by rw [hdir]; exact absDir_attach _ _ _ _ hf), abs_pushDir]
        rfl

/-! ### RemoveAll -/

theorem removeAll_refines (P : Params) (s : Store) (d name : Nat) (h : Inv P s) (hd : d < s.dirs.length) :
    BbRe.Spec.Posix.removeAll P.normalize (abs s) d name =
      (abs (removeAll P s d name).1, (removeAll P s d name).2.status, (removeAll P s d name).2.child) := by
  unfold BbRe.Spec.Posix.removeAll removeAll
  rw [abs_materialize P s d hd]
  cases hm : materialize P s d with
  | error e => rfl
  | ok s1 =>
    have r := materialize_ok h hd hm
    have hd1 : d < s1.dirs.length := r.hd hd
    simp only [Except.map]
    rw [abs_dir, absDir_entries]
    cases hf : (s1.dir d).find? (P.normalize name) with
    | none => rfl
    | some e =>
      simp only [Option.map]
      have h4 := r.inv.detach d hd1 _ e hf
      have habs : abs (s1.modDir d (fun x => x.detach (P.normalize name))) =
          (abs s1).modDir d (fun x => x.del (P.normalize name)) := abs_modDir _ d _ _ (absDir_detach _ _)
      cases hc : e.child with
      | leaf l =>
        simp only [postRemove, unlinkLeaves, dirChildren, hc, removeTree_nil]
        rw [abs_unlink, habs]; rfl
      | dir c =>
        simp only [postRemove, unlinkLeaves, dirChildren, hc]
        rw [abs_removeTree (P := P) _ (fun a => h4.dirOK a) [c] _ (by unfold removeFuel; omega), habs]
        rw [destroy_congr _ (fun r => r ∈ [c]) (fun r => r = c) (by intro r; simp)]
        rfl

/-! ### RemoveAllChildren -/

theorem removeAllChildren_refines (P : Params) (s : Store) (d : Nat) (b : Bool) (h : Inv P s) :
    BbRe.Spec.Posix.removeAllChildren (abs s) d b =
      (abs (removeAllChildren s d b).1, (removeAllChildren s d b).2.status, (removeAllChildren s d b).2.child) := by
  unfold BbRe.Spec.Posix.removeAllChildren removeAllChildren
  have h1 := h.clearDir d b
  simp only []
  rw [abs_removeTree (P := P) _ (fun a => h1.dirOK a) _ _ (by unfold removeFuel; omega), abs_clearDir_gen]
  rw [destroy_congr _ (fun r => r ∈ dirChildren (s.dir d).entries) (fun c => BbRe.Spec.Posix.edge (abs s) d c) (by
    intro r
    rw [edge_iff (fun a => h.dirOK a), mem_dirChildren]
    rfl)]
  rfl

/-! ### CreateChildren -/

theorem find?_filter_not (es : List Entry) (norms : List Nat) (n : Nat) :
    (es.filter (fun e => !norms.contains e.norm)).find? (fun e => e.norm == n) =
      if norms.contains n then none else es.find? (fun e => e.norm == n) := by
  induction es with
  | nil => simp
  | cons e rest ih =>
    by_cases hc : e.norm ∈ norms
    · by_cases hn : e.norm = n
      · subst hn
        simp [List.filter_cons, hc] at ih ⊢
        exact ih
      · simp [List.filter_cons, hc, List.find?_cons, hn] at ih ⊢
        exact ih
    · by_cases hn : e.norm = n
      · subst hn
        simp [List.filter_cons, hc, List.find?_cons]
      · simp [List.filter_cons, hc, List.find?_cons, hn] at ih ⊢
        exact ih

theorem absDir_overwrite (x : Dir) (norms : List Nat) (k : Nat) :
    absDir { x with entries := x.entries.filter (fun e => !norms.contains e.norm), changeID := x.changeID + k } =
      { absDir x with entries := fun n => if norms.contains n then none else (absDir x).entries n } := by
  unfold absDir
  simp only []
  congr 1
  funext n
  unfold Dir.find?
  simp only []
  rw [find?_filter_not]
  by_cases hc : n ∈ norms <;> simp [hc]

theorem any_exists_iff {P : Params} (x : Dir) (norms : List Nat) :
    (x.entries.any (fun e => norms.contains e.norm) = true) ↔
      ∃ n, norms.contains n = true ∧ ((absDir x).entries n).isSome = true := by
  rw [List.any_eq_true]
  constructor
  · rintro ⟨e, he, hc⟩
    refine ⟨e.norm, hc, ?_⟩
    rw [absDir_entries]
    cases hf : x.find? e.norm with
    | some e' => rfl
    | none => exact absurd rfl ((find?_eq_none.mp hf) e he)
  · rintro ⟨n, hc, hs⟩
    rw [absDir_entries] at hs
    cases hf : x.find? n with
    | none => rw [hf] at hs; cases hs
    | some e =>
      have := find?_some hf
      exact ⟨e, this.1, by rw [this.2]; exact hc⟩

theorem victims_iff {P : Params} {x : Dir} (hx : DirOK P x) (norms : List Nat) (c : Nat) :
    c ∈ dirChildren (x.entries.filter (fun e => norms.contains e.norm)) ↔
      ∃ n name, norms.contains n = true ∧ (absDir x).entries n = some (name, Child.dir c) := by
  rw [mem_dirChildren]
  constructor
  · intro h
    obtain ⟨e, he, hc⟩ := List.mem_map.mp h
    have hm := List.mem_filter.mp he
    refine ⟨e.norm, e.name, hm.2, ?_⟩
    rw [absDir_entries, find?_of_mem_nodup hx.nodup hm.1]
    simp [hc]
  · rintro ⟨n, name, hc, he⟩
    rw [absDir_entries] at he
    cases hf : x.find? n with
    | none => rw [hf] at he; cases he
    | some e =>
      rw [hf] at he; simp at he
      have := find?_some hf
      exact List.mem_map.mpr ⟨e, List.mem_filter.mpr ⟨this.1, by rw [this.2]; exact hc⟩, he.2⟩

theorem createChildren_refines (P : Params) (s : Store) (d : Nat) (ow : Bool) (cs : List (Nat × TChild)) (h : Inv P s)
    (hd : d < s.dirs.length) (hcs : ∀ c ∈ cs, ∀ l, c.2 = TChild.leaf l → l < s.leaves.length) :
    BbRe.Spec.Posix.createChildren P.normalize (abs s) d ow cs =
      (abs (createChildren P s d ow cs).1, (createChildren P s d ow cs).2.status, (createChildren P s d ow cs).2.child) := by
  unfold BbRe.Spec.Posix.createChildren createChildren
  rw [abs_materialize P s d hd]
  cases hm : materialize P s d with
  | error e => rfl
  | ok s1 =>
    have r := materialize_ok h hd hm
    have hd1 : d < s1.dirs.length := r.hd hd
    have hcs1 : ∀ c ∈ sortChildren cs, ∀ l, c.2 = TChild.leaf l → l < s1.leaves.length := by
      intro c hc l hl
      rw [r.leaves]; exact hcs c (mem_sortChildren hc) l hl
    simp only [Except.map]
    rw [abs_dir]
    have hrm : (absDir (s1.dir d)).removed = (s1.dir d).deleted := rfl
    rw [hrm]
    by_cases hdel : (s1.dir d).deleted = true
    · rw [if_pos hdel, if_pos hdel]; rfl
    · rw [if_neg hdel, if_neg hdel]
      cases ow with
      | true =>
        simp only [if_true]
        -- the entries in the way are detached ...
        have hq : (fun e : Entry => !(fun e : Entry => !(cs.map (fun c => P.normalize c.1)).contains e.norm) e) =
            (fun e => (cs.map (fun c => P.normalize c.1)).contains e.norm) := by funext e; simp
        have h2 := r.inv.detachMany d hd1 (fun e => !(cs.map (fun c => P.normalize c.1)).contains e.norm)
          ((s1.dir d).entries.filter (fun e => (cs.map (fun c => P.normalize c.1)).contains e.norm)).length
        rw [hq] at h2
        have habs2 := abs_setDir s1 d _
          (fun x : SDir => { x with entries := fun n => if (cs.map (fun c => P.normalize c.1)).contains n then none else x.entries n })
          (absDir_overwrite (s1.dir d) (cs.map (fun c => P.normalize c.1))
          ((s1.dir d).entries.filter (fun e => (cs.map (fun c => P.normalize c.1)).contains e.norm)).length)
        rw [← habs2, abs_attachInitial P d _ _ (by simpa using hd1)]
        cases ha : attachInitial P d (sortChildren cs) _ with
        | none => rfl
        | some s3 =>
          simp only [Option.map]
          have r3 := attachInitial_ok (sortChildren cs) _ s3 h2 (by simpa using hd1)
            (by rw [dir_setDir_self s1 d _ hd1]; exact r.lazy) (by simpa using hcs1) ha
          have h3 := InvF.unlinkFloating _ r3.inv
          unfold postRemove
          rw [abs_removeTree (P := P) _ (fun a => h3.dirOK a) _ _ (by unfold removeFuel; omega), abs_unlinkLeaves]
          rw [destroy_congr _ _ _ (fun c => victims_iff (r.inv.dirOK d) (cs.map (fun c => P.normalize c.1)) c)]
          rfl
      | false =>
        simp only [Bool.false_eq_true, if_false]
        have hany := any_exists_iff (P := P) (s1.dir d) (cs.map (fun c => P.normalize c.1))
        by_cases hex : ((s1.dir d).entries.any (fun e => (cs.map (fun c => P.normalize c.1)).contains e.norm)) = true
        · rw [if_pos (hany.mp hex), if_pos hex]; rfl
        · rw [if_neg (fun hh => hex (hany.mpr hh)), if_neg hex]
          rw [abs_attachInitial P d _ _ hd1]
          cases ha : attachInitial P d (sortChildren cs) s1 <;> rfl

/-! ### FilterChildren -/

theorem MReach.snoc {s : Store} {a b c : Nat} (h1 : MReach s a b) (h2 : MEdge s b c) : MReach s a c := by
  induction h1 with
  | refl a => exact MReach.step h2 (MReach.refl c)
  | step he _ ih => exact MReach.step he (ih h2)

/-- What a callback of the traversal gets: a leaf entry of a materialised directory
that is reachable from `d`, or a not yet materialised directory reachable from `d`. -/
def walkItem (s : Store) (d : Nat) (r : Report) : Prop :=
  MReach s d r.cookie ∧
    ((∃ e ∈ (s.dir r.cookie).entries, e.child.isDir = false ∧ r.name = e.name ∧ r.child = e.child) ∨
     (r.child = Child.dir r.cookie ∧ (s.dir r.cookie).lazy ≠ none))

theorem filterWalk_sound (s : Store) (d : Nat) : ∀ (fuel : Nat) (stack : List Nat), (∀ a ∈ stack, MReach s d a) →
    ∀ r ∈ filterWalk fuel s stack, walkItem s d r
  | 0, _, _, r, hr => by simp [filterWalk] at hr
  | fuel + 1, [], _, r, hr => by simp [filterWalk] at hr
  | fuel + 1, a :: rest, hst, r, hr => by
    unfold filterWalk at hr
    simp only [] at hr
    have ha : MReach s d a := hst a (by simp)
    cases hl : (s.dir a).lazy with
    | some t =>
      rw [hl] at hr
      simp only [] at hr
      rcases List.mem_cons.mp hr with h | h
      · subst h
        exact ⟨ha, Or.inr ⟨rfl, by simp [hl]⟩⟩
      · exact filterWalk_sound s d fuel rest (fun x hx => hst x (by simp [hx])) r h
    | none =>
      rw [hl] at hr
      simp only [] at hr
      rcases List.mem_append.mp hr with h | h
      · obtain ⟨e, he, rfl⟩ := List.mem_map.mp h
        have hm := List.mem_filter.mp he
        exact ⟨ha, Or.inl ⟨e, hm.1, by simpa using hm.2, rfl, rfl⟩⟩
      · refine filterWalk_sound s d fuel _ ?_ r h
        intro x hx
        rcases List.mem_append.mp hx with h1 | h1
        · exact ha.snoc (mem_dirChildren.mp h1)
        · exact hst x (by simp [h1])

/-- `FilterChildren` changes nothing, makes at most `limit` callbacks, and every callback
gets something the reference hierarchy has at or below `d`. -/
theorem filter_refines (P : Params) (s : Store) (d limit : Nat) (h : Inv P s) :
    (filterChildren s d limit).1 = s ∧ (filterChildren s d limit).2.status = .ok ∧
    (filterChildren s d limit).2.reports.length ≤ limit ∧
    ∀ r ∈ (filterChildren s d limit).2.reports, BbRe.Spec.Posix.filterItem (abs s) d r.cookie r.name r.child := by
  refine ⟨rfl, rfl, by simp [filterChildren, List.length_take]; omega, ?_⟩
  intro r hr
  have hmem : r ∈ filterWalk (s.dirs.length + totalEntries s + 1) s [d] := List.mem_of_mem_take hr
  have hw := filterWalk_sound s d _ [d] (by intro a ha; simp at ha; subst ha; exact MReach.refl a) r hmem
  refine ⟨(reach_iff (fun a => h.dirOK a) d r.cookie).mpr hw.1, ?_⟩
  rcases hw.2 with ⟨e, he, hdir, hn, hc⟩ | ⟨hc, hl⟩
  · left
    cases hch : e.child with
    | dir c => rw [hch] at hdir; simp [Child.isDir] at hdir
    | leaf l =>
      refine ⟨e.norm, l, by rw [hc, hch], ?_⟩
      rw [abs_dir, absDir_entries, find?_of_mem_nodup (h.dirOK r.cookie).nodup he]
      simp [hn, hch]
  · right
    refine ⟨hc, ?_⟩
    rw [abs_dir]
    exact hl

/-! ### every operation -/

/-- Every operation of the model as an operation of the reference hierarchy. -/
def absOpAll : Op → BbRe.Spec.Posix.Op
  | .mkdir d n => .mkdir d n
  | .mknod d n k => .mknod d n k
  | .openc d n c e => .openc d n c e
  | .link d n l => .link d n l
  | .lookup d n => .lookup d n
  | .vremove d n a b => .remove d n a b
  | .remove d n => .remove d n true true
  | .rename d1 n1 d2 n2 => .rename d1 n1 d2 n2
  | .lookupChild d n => .lookup d n
  | .createAndEnter d n => .createAndEnter d n
  | .removeAll d n => .removeAll d n
  | .removeAllChildren d b => .removeAllChildren d b
  | .createChildren d ow cs => .createChildren d ow cs
  | .readdir d _ _ => .access d
  | .lookupAll d => .access d
  | .readDirB d => .access d
  | .getattr _ => .nop
  | .filter _ _ => .nop
  | .installHooks _ => .nop
  | .newRoot fs => .newRoot fs
  | .newLeaf k => .newLeaf k
  | .defTmpl cs => .defTmpl cs
  | .setFetchFail b => .setFetchFail b
  | .setAllocFail b => .setAllocFail b

theorem access_refines (P : Params) (s : Store) (d : Nat) (hd : d < s.dirs.length) (f : Store → List Report) :
    BbRe.Spec.Posix.access P.normalize (abs s) d =
      (abs (match materialize P s d with | .error _ => s | .ok s1 => s1),
       (match materialize P s d with | .error e => e | .ok _ => Status.ok), none) := by
  unfold BbRe.Spec.Posix.access
  rw [abs_materialize P s d hd]
  cases materialize P s d <;> rfl

theorem refines_step_all (P : Params) (s : Store) (op : Op) (h : Inv P s) (hv : validOp s op = true) :
    BbRe.Spec.Posix.step P.normalize P.hidden (abs s) (absOpAll op) =
      (abs (step P s op).1, (step P s op).2.status, (step P s op).2.child) := by
  by_cases hcov : ∃ sop, absOp op = some sop
  · obtain ⟨sop, hs⟩ := hcov
    have := refines_step P s op sop h hv hs
    have e : absOpAll op = sop := by
      cases op <;> simp [absOp] at hs <;> subst hs <;> rfl
    rw [e]; exact this
  · unfold step
    rw [if_pos hv]
    cases op <;> simp [absOp] at hcov
    case createAndEnter d n => exact createAndEnter_refines P s d n (by simpa [validOp] using hv)
    case removeAll d n => exact removeAll_refines P s d n h (by simpa [validOp] using hv)
    case removeAllChildren d b => exact removeAllChildren_refines P s d b h
    case createChildren d ow cs =>
      have hv' : d < s.dirs.length ∧ cs.all (tchildOK s) = true := by simpa [validOp] using hv
      exact createChildren_refines P s d ow cs h hv'.1 (tchildOK_leaf hv'.2)
    case readdir d c k =>
      have hd : d < s.dirs.length := by simpa [validOp] using hv
      simp only [absOpAll, BbRe.Spec.Posix.step, exec, vreaddir]
      rw [access_refines P s d hd (fun _ => [])]
      cases materialize P s d <;> rfl
    case lookupAll d =>
      have hd : d < s.dirs.length := by simpa [validOp] using hv
      simp only [absOpAll, BbRe.Spec.Posix.step, exec, lookupAll]
      rw [access_refines P s d hd (fun _ => [])]
      cases materialize P s d <;> rfl
    case readDirB d =>
      have hd : d < s.dirs.length := by simpa [validOp] using hv
      simp only [absOpAll, BbRe.Spec.Posix.step, exec, readDirB]
      rw [access_refines P s d hd (fun _ => [])]
      cases materialize P s d <;> rfl
    case getattr d => rfl
    case filter d k => rfl
    case installHooks d => rfl
    case newRoot fs =>
      simp only [absOpAll, BbRe.Spec.Posix.step, exec]
      rw [abs_pushDir, abs_dirs_length]; rfl
    case newLeaf k =>
      simp only [absOpAll, BbRe.Spec.Posix.step, exec]
      rw [abs_pushLeaf, abs_kinds_length]
    case defTmpl cs => rfl
    case setFetchFail b => rfl
    case setAllocFail b => rfl

/-- What the listing calls show, in terms of the reference hierarchy: `LookupAllChildren`
and `ReadDir` report exactly the entries of the abstract directory that are not hidden
leaves; a `VirtualReadDir` page only reports such entries. -/
theorem listing_entries_abs {P : Params} {x : Dir} (hx : DirOK P x) (name : Nat) (c : Child) :
    (∃ e ∈ x.entries, e.name = name ∧ e.child = c) ↔ ∃ n, (absDir x).entries n = some (name, c) := by
  constructor
  · rintro ⟨e, he, rfl, rfl⟩
    exact ⟨e.norm, by rw [absDir_entries, find?_of_mem_nodup hx.nodup he]; rfl⟩
  · rintro ⟨n, hn⟩
    rw [absDir_entries] at hn
    cases hf : x.find? n with
    | none => rw [hf] at hn; cases hn
    | some e =>
      rw [hf] at hn; simp at hn
      exact ⟨e, (find?_some hf).1, hn.1, hn.2⟩

end BbRe.Lemmas.Dir
