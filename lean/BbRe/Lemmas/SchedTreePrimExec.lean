import BbRe.Lemmas.SchedTreePrimStruct
/-!
`incrementExecutingWorkersCount` / `decrementExecutingWorkersCount` preserve the tree invariant for the
addition / removal of one executing operation.
-/
namespace BbRe.Lemmas.SchedTree
open BbRe.Sched BbRe.SchedTree

variable {X : List (ScqId × List Nat)} {ns : List Node} {E : List EC} {I : List IC} {Q : List QC} {P : List PC}

theorem mem_offPath {X : List (ScqId × List Nat)} {q : ScqId} {p : List Nat} {x : ScqId × List Nat} :
    x ∈ offPath X q p ↔ x ∈ X ∧ ¬ (x.1 = q ∧ x.2 <+: p) := by
  unfold offPath onPathOf
  rw [List.mem_filter]
  simp only [Bool.not_eq_eq_eq_not, Bool.not_true, Bool.and_eq_false_iff, decide_eq_false_iff_not]
  constructor
  · rintro ⟨hx, hc⟩; refine ⟨hx, ?_⟩
    rintro ⟨h1, h2⟩
    rcases hc with hc | hc
    · exact hc h1
    · rw [List.isPrefixOf_iff_prefix.mpr h2] at hc; cases hc
  · rintro ⟨hx, hc⟩; refine ⟨hx, ?_⟩
    by_cases h1 : x.1 = q
    · right
      cases hp : x.2.isPrefixOf p with
      | false => rfl
      | true => exact absurd ⟨h1, List.isPrefixOf_iff_prefix.mp hp⟩ hc
    · left; exact h1

theorem pruneKeep_false {n : Node} {q : ScqId} {p : List Nat}
    (h : (!(n.onPath q p && !n.path.isEmpty && n.isEmptyInv)) = false) :
    n.onPath q p = true ∧ n.path ≠ [] ∧ n.isEmptyInv = true := by
  cases h1 : n.onPath q p <;> cases h2 : n.isEmptyInv <;> cases h3 : n.path <;> simp_all

theorem pruneKeep_true {n : Node} {q : ScqId} {p : List Nat}
    (h : (!(n.onPath q p && !n.path.isEmpty && n.isEmptyInv)) = true) (h1 : n.onPath q p = true) (h2 : n.path ≠ []) :
    n.isEmptyInv = false := by
  cases h3 : n.isEmptyInv <;> cases h4 : n.path <;> simp_all

/-- `incrementExecutingWorkersCount(i, w)`: one more executing operation at `(q, p)` on worker `k` -/
theorem incExec_ok (h : TreeOK X ns E I Q P) (q : ScqId) (p : List Nat) (k : WKey) (now : Nat)
    (hn : (node? ns q p).isSome = true) :
    TreeOK (offPath X q p) (incExec ns q p k now) ((q, p, k) :: E) I Q P := by
  let f : Node → Node := fun n => { n with exec := minc k n.exec, started := now }
  let g : Node → Node := fun n => if n.onPath q p then f n else n
  have hg : KeepsKey g := keepsKey_ite (f := f) (fun n => ⟨rfl, rfl⟩)
  have hon : ∀ n, n.onPath q p = true → g n = f n := fun n h => by simp [g, h]
  have hoff : ∀ n, n.onPath q p = false → g n = n := fun n h => by simp [g, h]
  have hfld : ∀ n, (g n).idle = n.idle ∧ (g n).qops = n.qops ∧ (g n).qkids = n.qkids ∧
      (g n).parked = n.parked ∧ (g n).ikids = n.ikids := by
    intro n; cases hc : n.onPath q p
    · rw [hoff n hc]; exact ⟨rfl, rfl, rfl, rfl, rfl⟩
    · rw [hon n hc]; exact ⟨rfl, rfl, rfl, rfl, rfl⟩
  show TreeOK _ (ns.map g) _ I Q P
  apply h.of_map g hg
  · intro n hn' k'
    rw [cntE_cons]
    cases hc : n.onPath q p
    · have : ¬ (q = n.scq ∧ n.path <+: p ∧ k = k') := by
        intro hc'; have := (onPath_iff n q p).mpr ⟨hc'.1.symm, hc'.2.1⟩; rw [hc] at this; cases this
      rw [hoff n hc, h.ex n hn' k']; simp [this]
    · have ho := (onPath_iff n q p).mp hc
      rw [hon n hc]
      show mget k' (minc k n.exec) = _
      rw [mget_minc, h.ex n hn' k']
      by_cases hk : k = k' <;> simp [hk, ho.1, ho.2]
  · intro n hn'
    cases hc : n.onPath q p
    · rw [hoff n hc]; exact h.exnd n hn'
    · rw [hon n hc]
      exact ⟨(keys_minc k n.exec (h.exnd n hn').1).1, pos_minc k n.exec (h.exnd n hn').2⟩
  · intro n hn'; rw [(hfld n).1]; exact h.id n hn'
  · intro n hn'; rw [(hfld n).2.1]; exact h.qo n hn'
  · intro n hn'; rw [(hfld n).2.2.1]; exact h.qk n hn'
  · intro n hn'; rw [(hfld n).2.2.2.1]; exact h.pk n hn'
  · intro n hn'; rw [(hfld n).2.2.2.2]; exact h.ik n hn'
  · intro n hn' hp hx
    cases hc : n.onPath q p
    · rw [hoff n hc]
      apply h.ne n hn' hp
      intro hX; apply hx
      exact mem_offPath.mpr ⟨hX, fun hc' => by have := (onPath_iff n q p).mpr hc'; rw [hc] at this; cases this⟩
    · rw [hon n hc]
      have : (minc k n.exec).isEmpty = false := by cases n.exec <;> simp [minc] <;> split <;> simp
      simp [f, Node.isEmptyInv, Node.isActive, this]
  · intro c hc
    rcases List.mem_cons.mp hc with e | e
    · subst e; exact hn
    · exact h.rfE c e
  · exact h.rfI
  · exact h.rfQ
  · exact h.rfP
  · exact h.pi

/-- `decrementExecutingWorkersCount(i, w)`: one executing operation at `(q, p)` on worker `k` less;
invocations on the path that became empty are removed.  Exemptions are allowed on that path only. -/
theorem decExec_ok (h : TreeOK X ns E I Q P) (q : ScqId) (p : List Nat) (k : WKey) (now : Nat)
    (hc : (q, p, k) ∈ E) (hX : ∀ x ∈ X, x.1 = q ∧ x.2 <+: p) :
    TreeOK [] (decExec ns q p k now) (E.erase (q, p, k)) I Q P := by
  let f : Node → Node := fun n => { n with exec := mdec k n.exec, completed := now }
  let g : Node → Node := fun n => if n.onPath q p then f n else n
  have hg : KeepsKey g := keepsKey_ite (f := f) (fun n => ⟨rfl, rfl⟩)
  have hon : ∀ n, n.onPath q p = true → g n = f n := fun n h => by simp [g, h]
  have hoff : ∀ n, n.onPath q p = false → g n = n := fun n h => by simp [g, h]
  have hfld : ∀ n, (g n).idle = n.idle ∧ (g n).qops = n.qops ∧ (g n).qkids = n.qkids ∧
      (g n).parked = n.parked ∧ (g n).ikids = n.ikids := by
    intro n; cases hc : n.onPath q p
    · rw [hoff n hc]; exact ⟨rfl, rfl, rfl, rfl, rfl⟩
    · rw [hon n hc]; exact ⟨rfl, rfl, rfl, rfl, rfl⟩
  -- step 1: the counters; every non-root invocation on the path is exempt
  let X1 : List (ScqId × List Nat) := (prefixes p).map (fun pi => (q, pi))
  have hmemX1 : ∀ x, x ∈ X1 ↔ x.1 = q ∧ x.2 <+: p ∧ x.2 ≠ [] := by
    intro x; simp only [X1, List.mem_map, mem_prefixes]
    constructor
    · rintro ⟨pi, ⟨h1, h2⟩, rfl⟩; exact ⟨rfl, h1, h2⟩
    · rintro ⟨h1, h2, h3⟩; exact ⟨x.2, ⟨h2, h3⟩, by rw [← h1]⟩
  have h1 : TreeOK X1 (ns.map g) (E.erase (q, p, k)) I Q P := by
    apply h.of_map g hg
    · intro n hn' k'
      rw [cntE_erase _ _ _ _ _ hc]
      cases hcn : n.onPath q p
      · have : ¬ (q = n.scq ∧ n.path <+: p ∧ k = k') := by
          intro hc'; have := (onPath_iff n q p).mpr ⟨hc'.1.symm, hc'.2.1⟩; rw [hcn] at this; cases this
        rw [hoff n hcn, h.ex n hn' k']; simp [this]
      · have ho := (onPath_iff n q p).mp hcn
        rw [hon n hcn]
        show mget k' (mdec k n.exec) = _
        rw [mget_mdec k k' n.exec (h.exnd n hn').1 (h.exnd n hn').2, h.ex n hn' k']
        by_cases hk : k = k' <;> simp [hk, ho.1, ho.2]
    · intro n hn'
      cases hcn : n.onPath q p
      · rw [hoff n hcn]; exact h.exnd n hn'
      · rw [hon n hcn]
        exact ⟨(keys_mdec k n.exec (h.exnd n hn').1).1, pos_mdec k n.exec (h.exnd n hn').2⟩
    · intro n hn'; rw [(hfld n).1]; exact h.id n hn'
    · intro n hn'; rw [(hfld n).2.1]; exact h.qo n hn'
    · intro n hn'; rw [(hfld n).2.2.1]; exact h.qk n hn'
    · intro n hn'; rw [(hfld n).2.2.2.1]; exact h.pk n hn'
    · intro n hn'; rw [(hfld n).2.2.2.2]; exact h.ik n hn'
    · intro n hn' hp hx
      cases hcn : n.onPath q p
      · rw [hoff n hcn]
        apply h.ne n hn' hp
        intro hXn
        have := hX _ hXn
        have := (onPath_iff n q p).mpr this
        rw [hcn] at this; cases this
      · exfalso; apply hx
        have ho := (onPath_iff n q p).mp hcn
        exact (hmemX1 _).mpr ⟨ho.1, ho.2, hp⟩
    · intro c hc'; exact h.rfE c (List.mem_of_mem_erase hc')
    · exact h.rfI
    · exact h.rfQ
    · exact h.rfP
    · exact h.pi
  -- step 2: `removeIfEmpty` along the path
  show TreeOK [] ((ns.map g).filter _) _ I Q P
  apply h1.of_filter
  · intro n _ hk
    exact (pruneKeep_false hk).2
  · intro n _ hx hk
    have hx' := (hmemX1 _).mp hx
    exact pruneKeep_true hk ((onPath_iff n q p).mpr ⟨hx'.1, hx'.2.1⟩) hx'.2.2

end BbRe.Lemmas.SchedTree
