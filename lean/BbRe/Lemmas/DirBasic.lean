import BbRe.Model.Dir
/-!
Basic facts about the store of `Model/Dir.lean`: reading a directory / leaf
after an update, the list of all child references (`refs`) and how the
primitive updates change it.
-/
namespace BbRe.Lemmas.Dir
open BbRe.Dir

/-! ### lists -/

theorem count_flatMap_set {α β : Type} [DecidableEq β] (f : α → List β) (c : β) :
    ∀ (l : List α) (i : Nat) (x : α) (h : i < l.length),
      (List.count c ((l.set i x).flatMap f)) + List.count c (f l[i]) =
        List.count c (l.flatMap f) + List.count c (f x)
  | [], i, x, h => by simp at h
  | a :: l, 0, x, _ => by simp [List.count_append]; omega
  | a :: l, i + 1, x, h => by
    have ih := count_flatMap_set f c l i x (by simpa using h)
    simp [List.count_append] at ih ⊢
    omega

theorem mem_flatMap_set {α β : Type} (f : α → List β) (c : β) (l : List α) (i : Nat) (x : α)
    (h : c ∈ (l.set i x).flatMap f) : c ∈ l.flatMap f ∨ c ∈ f x := by
  rw [List.mem_flatMap] at h
  obtain ⟨y, hy, hc⟩ := h
  rcases List.mem_or_eq_of_mem_set hy with h1 | h1
  · exact Or.inl (List.mem_flatMap.mpr ⟨y, h1, hc⟩)
  · subst h1; exact Or.inr hc

/-! ### reading after writing -/

@[simp] theorem dirs_setDir (s : Store) (d : Nat) (x : Dir) : (s.setDir d x).dirs = s.dirs.set d x := rfl
@[simp] theorem leaves_setDir (s : Store) (d : Nat) (x : Dir) : (s.setDir d x).leaves = s.leaves := rfl
@[simp] theorem tmpls_setDir (s : Store) (d : Nat) (x : Dir) : (s.setDir d x).tmpls = s.tmpls := rfl
@[simp] theorem fetchFail_setDir (s : Store) (d : Nat) (x : Dir) : (s.setDir d x).fetchFail = s.fetchFail := rfl
@[simp] theorem allocFail_setDir (s : Store) (d : Nat) (x : Dir) : (s.setDir d x).allocFail = s.allocFail := rfl
@[simp] theorem dirs_modDir (s : Store) (d : Nat) (f : Dir → Dir) :
    (s.modDir d f).dirs = s.dirs.set d (f (s.dir d)) := rfl
@[simp] theorem leaves_modDir (s : Store) (d : Nat) (f : Dir → Dir) : (s.modDir d f).leaves = s.leaves := rfl
@[simp] theorem tmpls_modDir (s : Store) (d : Nat) (f : Dir → Dir) : (s.modDir d f).tmpls = s.tmpls := rfl
@[simp] theorem fetchFail_modDir (s : Store) (d : Nat) (f : Dir → Dir) : (s.modDir d f).fetchFail = s.fetchFail := rfl
@[simp] theorem allocFail_modDir (s : Store) (d : Nat) (f : Dir → Dir) : (s.modDir d f).allocFail = s.allocFail := rfl
@[simp] theorem dirs_pushDir (s : Store) (x : Dir) : (s.pushDir x).dirs = s.dirs ++ [x] := rfl
@[simp] theorem leaves_pushDir (s : Store) (x : Dir) : (s.pushDir x).leaves = s.leaves := rfl
@[simp] theorem tmpls_pushDir (s : Store) (x : Dir) : (s.pushDir x).tmpls = s.tmpls := rfl
@[simp] theorem fetchFail_pushDir (s : Store) (x : Dir) : (s.pushDir x).fetchFail = s.fetchFail := rfl
@[simp] theorem allocFail_pushDir (s : Store) (x : Dir) : (s.pushDir x).allocFail = s.allocFail := rfl
@[simp] theorem dirs_setLeaf (s : Store) (l : Nat) (x : Leaf) : (s.setLeaf l x).dirs = s.dirs := rfl
@[simp] theorem leaves_setLeaf (s : Store) (l : Nat) (x : Leaf) : (s.setLeaf l x).leaves = s.leaves.set l x := rfl
@[simp] theorem tmpls_setLeaf (s : Store) (l : Nat) (x : Leaf) : (s.setLeaf l x).tmpls = s.tmpls := rfl
@[simp] theorem fetchFail_setLeaf (s : Store) (l : Nat) (x : Leaf) : (s.setLeaf l x).fetchFail = s.fetchFail := rfl
@[simp] theorem allocFail_setLeaf (s : Store) (l : Nat) (x : Leaf) : (s.setLeaf l x).allocFail = s.allocFail := rfl
@[simp] theorem dirs_pushLeaf (s : Store) (x : Leaf) : (s.pushLeaf x).dirs = s.dirs := rfl
@[simp] theorem leaves_pushLeaf (s : Store) (x : Leaf) : (s.pushLeaf x).leaves = s.leaves ++ [x] := rfl
@[simp] theorem tmpls_pushLeaf (s : Store) (x : Leaf) : (s.pushLeaf x).tmpls = s.tmpls := rfl
@[simp] theorem fetchFail_pushLeaf (s : Store) (x : Leaf) : (s.pushLeaf x).fetchFail = s.fetchFail := rfl
@[simp] theorem allocFail_pushLeaf (s : Store) (x : Leaf) : (s.pushLeaf x).allocFail = s.allocFail := rfl
@[simp] theorem dirs_link (s : Store) (l : Nat) : (s.link l).dirs = s.dirs := rfl
@[simp] theorem dirs_unlink (s : Store) (l : Nat) : (s.unlink l).dirs = s.dirs := rfl
@[simp] theorem tmpls_link (s : Store) (l : Nat) : (s.link l).tmpls = s.tmpls := rfl
@[simp] theorem tmpls_unlink (s : Store) (l : Nat) : (s.unlink l).tmpls = s.tmpls := rfl
@[simp] theorem fetchFail_link (s : Store) (l : Nat) : (s.link l).fetchFail = s.fetchFail := rfl
@[simp] theorem fetchFail_unlink (s : Store) (l : Nat) : (s.unlink l).fetchFail = s.fetchFail := rfl
@[simp] theorem allocFail_link (s : Store) (l : Nat) : (s.link l).allocFail = s.allocFail := rfl
@[simp] theorem allocFail_unlink (s : Store) (l : Nat) : (s.unlink l).allocFail = s.allocFail := rfl
@[simp] theorem leaves_length_link (s : Store) (l : Nat) : (s.link l).leaves.length = s.leaves.length := by
  simp [Store.link]
@[simp] theorem leaves_length_unlink (s : Store) (l : Nat) : (s.unlink l).leaves.length = s.leaves.length := by
  simp [Store.unlink]

theorem dir_eq_of_dirs {s t : Store} (h : s.dirs = t.dirs) (d : Nat) : s.dir d = t.dir d := by
  simp [Store.dir, h]

@[simp] theorem dir_setLeaf (s : Store) (l : Nat) (x : Leaf) (d : Nat) : (s.setLeaf l x).dir d = s.dir d := rfl
@[simp] theorem dir_pushLeaf (s : Store) (x : Leaf) (d : Nat) : (s.pushLeaf x).dir d = s.dir d := rfl
@[simp] theorem dir_link (s : Store) (l : Nat) (d : Nat) : (s.link l).dir d = s.dir d := rfl
@[simp] theorem dir_unlink (s : Store) (l : Nat) (d : Nat) : (s.unlink l).dir d = s.dir d := rfl

theorem dir_setDir (s : Store) (d d' : Nat) (x : Dir) :
    (s.setDir d x).dir d' = if d = d' ∧ d < s.dirs.length then x else s.dir d' := by
  unfold Store.dir
  simp only [dirs_setDir, List.getElem?_set]
  by_cases h : d = d'
  · subst h
    by_cases h2 : d < s.dirs.length
    · simp [h2]
    · simp [h2]
  · simp [h]

theorem dir_setDir_self (s : Store) (d : Nat) (x : Dir) (h : d < s.dirs.length) :
    (s.setDir d x).dir d = x := by simp [dir_setDir, h]

theorem dir_setDir_ne (s : Store) (d d' : Nat) (x : Dir) (h : d ≠ d') :
    (s.setDir d x).dir d' = s.dir d' := by simp [dir_setDir, h]

theorem dir_modDir (s : Store) (d d' : Nat) (f : Dir → Dir) :
    (s.modDir d f).dir d' = if d = d' ∧ d < s.dirs.length then f (s.dir d) else s.dir d' :=
  dir_setDir s d d' _

theorem dir_modDir_self (s : Store) (d : Nat) (f : Dir → Dir) (h : d < s.dirs.length) :
    (s.modDir d f).dir d = f (s.dir d) := by simp [dir_modDir, h]

theorem dir_modDir_ne (s : Store) (d d' : Nat) (f : Dir → Dir) (h : d ≠ d') :
    (s.modDir d f).dir d' = s.dir d' := by simp [dir_modDir, h]

theorem dir_pushDir (s : Store) (x : Dir) (d : Nat) :
    (s.pushDir x).dir d = if d = s.dirs.length then x else s.dir d := by
  unfold Store.dir
  simp only [dirs_pushDir]
  by_cases h : d < s.dirs.length
  · have : d ≠ s.dirs.length := by omega
    simp [List.getElem?_append_left h, this]
  · by_cases h2 : d = s.dirs.length
    · subst h2; simp
    · have h3 : s.dirs.length < d := by omega
      simp [h2, List.getElem?_eq_none_iff.mpr (by simp; omega : (s.dirs ++ [x]).length ≤ d),
        List.getElem?_eq_none_iff.mpr (by omega : s.dirs.length ≤ d)]

theorem dir_pushDir_lt (s : Store) (x : Dir) (d : Nat) (h : d < s.dirs.length) :
    (s.pushDir x).dir d = s.dir d := by
  have : d ≠ s.dirs.length := by omega
  simp [dir_pushDir, this]

theorem dir_pushDir_new (s : Store) (x : Dir) : (s.pushDir x).dir s.dirs.length = x := by
  simp [dir_pushDir]

theorem dir_mem (s : Store) (d : Nat) (h : d < s.dirs.length) : s.dir d ∈ s.dirs := by
  unfold Store.dir
  simp [List.getElem?_eq_getElem h]

theorem dir_default (s : Store) (d : Nat) (h : s.dirs.length ≤ d) : s.dir d = default := by
  unfold Store.dir
  simp [List.getElem?_eq_none_iff.mpr h]

theorem leaf_setLeaf (s : Store) (l l' : Nat) (x : Leaf) :
    (s.setLeaf l x).leaf l' = if l = l' ∧ l < s.leaves.length then x else s.leaf l' := by
  unfold Store.leaf
  simp only [leaves_setLeaf, List.getElem?_set]
  by_cases h : l = l'
  · subst h
    by_cases h2 : l < s.leaves.length
    · simp [h2]
    · simp [h2]
  · simp [h]

@[simp] theorem leaf_setDir (s : Store) (d : Nat) (x : Dir) (l : Nat) : (s.setDir d x).leaf l = s.leaf l := rfl
@[simp] theorem leaf_modDir (s : Store) (d : Nat) (f : Dir → Dir) (l : Nat) : (s.modDir d f).leaf l = s.leaf l := rfl
@[simp] theorem leaf_pushDir (s : Store) (x : Dir) (l : Nat) : (s.pushDir x).leaf l = s.leaf l := rfl

theorem leaf_pushLeaf (s : Store) (x : Leaf) (l : Nat) :
    (s.pushLeaf x).leaf l = if l = s.leaves.length then x else s.leaf l := by
  unfold Store.leaf
  simp only [leaves_pushLeaf]
  by_cases h : l < s.leaves.length
  · have : l ≠ s.leaves.length := by omega
    simp [List.getElem?_append_left h, this]
  · by_cases h2 : l = s.leaves.length
    · subst h2; simp
    · simp [h2, List.getElem?_eq_none_iff.mpr (by simp; omega : (s.leaves ++ [x]).length ≤ l),
        List.getElem?_eq_none_iff.mpr (by omega : s.leaves.length ≤ l)]

theorem leaf_default (s : Store) (l : Nat) (h : s.leaves.length ≤ l) : s.leaf l = default := by
  unfold Store.leaf
  simp [List.getElem?_eq_none_iff.mpr h]

theorem links_link (s : Store) (l l' : Nat) :
    ((s.link l).leaf l').links = if l = l' ∧ l < s.leaves.length then (s.leaf l').links + 1 else (s.leaf l').links := by
  unfold Store.link
  rw [leaf_setLeaf]
  by_cases h : l = l' ∧ l < s.leaves.length
  · obtain ⟨rfl, h2⟩ := h; simp [h2]
  · simp [h]

theorem links_unlink (s : Store) (l l' : Nat) :
    ((s.unlink l).leaf l').links = if l = l' ∧ l < s.leaves.length then (s.leaf l').links - 1 else (s.leaf l').links := by
  unfold Store.unlink
  rw [leaf_setLeaf]
  by_cases h : l = l' ∧ l < s.leaves.length
  · obtain ⟨rfl, h2⟩ := h; simp [h2]
  · simp [h]

/-! ### all child references -/

/-- Every child reference held by some directory entry of the store. -/
def refs (s : Store) : List Child := s.dirs.flatMap (fun x => x.entries.map (fun e => e.child))

theorem mem_refs {s : Store} {c : Child} :
    c ∈ refs s ↔ ∃ x ∈ s.dirs, ∃ e ∈ x.entries, e.child = c := by
  simp [refs, List.mem_flatMap, List.mem_map]

theorem refs_of_dirs {s t : Store} (h : s.dirs = t.dirs) : refs s = refs t := by simp [refs, h]

@[simp] theorem refs_setLeaf (s : Store) (l : Nat) (x : Leaf) : refs (s.setLeaf l x) = refs s := rfl
@[simp] theorem refs_pushLeaf (s : Store) (x : Leaf) : refs (s.pushLeaf x) = refs s := rfl
@[simp] theorem refs_link (s : Store) (l : Nat) : refs (s.link l) = refs s := rfl
@[simp] theorem refs_unlink (s : Store) (l : Nat) : refs (s.unlink l) = refs s := rfl

theorem refs_pushDir (s : Store) (x : Dir) : refs (s.pushDir x) = refs s ++ x.entries.map (fun e => e.child) := by
  simp [refs]

theorem count_refs_setDir (s : Store) (d : Nat) (x : Dir) (c : Child) (h : d < s.dirs.length) :
    (refs (s.setDir d x)).count c + ((s.dir d).entries.map (fun e => e.child)).count c =
      (refs s).count c + (x.entries.map (fun e => e.child)).count c := by
  have := count_flatMap_set (fun x : Dir => x.entries.map (fun e => e.child)) c s.dirs d x h
  simpa [refs, Store.dir, List.getElem?_eq_getElem h] using this

theorem refs_setDir_ge (s : Store) (d : Nat) (x : Dir) (h : s.dirs.length ≤ d) : refs (s.setDir d x) = refs s := by
  simp [refs, List.set_eq_of_length_le h]

theorem mem_refs_setDir (s : Store) (d : Nat) (x : Dir) (c : Child) (h : c ∈ refs (s.setDir d x)) :
    c ∈ refs s ∨ c ∈ x.entries.map (fun e => e.child) :=
  mem_flatMap_set _ c s.dirs d x h

/-! ### entries of one directory -/

theorem find?_eq_none {x : Dir} {n : Nat} : x.find? n = none ↔ ∀ e ∈ x.entries, e.norm ≠ n := by
  simp [Dir.find?, List.find?_eq_none]

theorem find?_some {x : Dir} {n : Nat} {e : Entry} (h : x.find? n = some e) : e ∈ x.entries ∧ e.norm = n := by
  unfold Dir.find? at h
  have h1 := List.mem_of_find?_eq_some h
  have h2 := List.find?_some h
  exact ⟨h1, by simpa using h2⟩

@[simp] theorem attach_entries (x : Dir) (name norm : Nat) (c : Child) :
    (x.attach name norm c).entries = x.entries ++ [⟨name, norm, x.changeID, c⟩] := rfl
@[simp] theorem attach_changeID (x : Dir) (name norm : Nat) (c : Child) :
    (x.attach name norm c).changeID = x.changeID + 1 := rfl
@[simp] theorem attach_deleted (x : Dir) (name norm : Nat) (c : Child) : (x.attach name norm c).deleted = x.deleted := rfl
@[simp] theorem attach_lazy (x : Dir) (name norm : Nat) (c : Child) : (x.attach name norm c).lazy = x.lazy := rfl
@[simp] theorem attach_fs (x : Dir) (name norm : Nat) (c : Child) : (x.attach name norm c).fs = x.fs := rfl
@[simp] theorem detach_entries (x : Dir) (n : Nat) :
    (x.detach n).entries = x.entries.filter (fun e => e.norm != n) := rfl
@[simp] theorem detach_changeID (x : Dir) (n : Nat) : (x.detach n).changeID = x.changeID + 1 := rfl
@[simp] theorem detach_deleted (x : Dir) (n : Nat) : (x.detach n).deleted = x.deleted := rfl
@[simp] theorem detach_lazy (x : Dir) (n : Nat) : (x.detach n).lazy = x.lazy := rfl
@[simp] theorem detach_fs (x : Dir) (n : Nat) : (x.detach n).fs = x.fs := rfl

theorem find?_detach_self (x : Dir) (n : Nat) : (x.detach n).find? n = none := by
  rw [find?_eq_none]
  intro e he
  simp [List.mem_filter] at he
  exact he.2

theorem find?_detach_ne (x : Dir) (n m : Nat) (h : n ≠ m) : (x.detach n).find? m = x.find? m := by
  unfold Dir.find?
  simp only [detach_entries]
  induction x.entries with
  | nil => rfl
  | cons e rest ih =>
    by_cases h1 : e.norm = n
    · simp [List.filter_cons, List.find?_cons, h1, h, ih]
    · by_cases h2 : e.norm = m
      · have h5 : ¬ m = n := fun h' => h1 (h2.trans h')
        simp [List.filter_cons, List.find?_cons, h2, h5]
      · simp [List.filter_cons, List.find?_cons, h1, h2, ih]

/-- With unique normalised names, detaching removes exactly the entry found. -/
theorem count_detach (x : Dir) (n : Nat) (c : Child)
    (hnd : x.entries.Pairwise (fun a b => a.norm ≠ b.norm)) :
    ((x.detach n).entries.map (fun e => e.child)).count c +
        (match x.find? n with | some e => if e.child = c then 1 else 0 | none => 0) =
      (x.entries.map (fun e => e.child)).count c := by
  unfold Dir.find?
  simp only [detach_entries]
  generalize x.entries = es at hnd
  induction es with
  | nil => simp
  | cons e rest ih =>
    have hnd' := (List.pairwise_cons.mp hnd)
    by_cases h1 : e.norm = n
    · -- e is found; nothing else has this norm
      have hrest : rest.filter (fun e => e.norm != n) = rest := by
        apply List.filter_eq_self.mpr
        intro a ha
        have := hnd'.1 a ha
        simp; intro h2; exact this (h1.trans h2.symm)
      simp [List.filter_cons, h1, List.find?_cons, hrest, List.count_cons]
    · have := ih hnd'.2
      simp [List.filter_cons, h1, List.find?_cons, List.count_cons] at this ⊢
      omega

end BbRe.Lemmas.Dir
