import BbRe.Lemmas.SchedLiveWorker7
/-!
Eligibility of every assignment (C05): each entry a segment appends to the
ghost log `State.assigned` names a worker that, at the moment of the
assignment, existed in the task's size-class queue, held no task, was not
terminating and matched no drain of that queue.
-/
namespace BbRe.Lemmas.SchedLive
open BbRe.Sched

/-- worker `(a.1, a.2.1)` is eligible for task `a.2.2` in state `sm` -/
def EligAt (sm : State) (a : ScqId × WId × Nat) : Prop :=
  ∃ wk t, sm.worker? a.1 a.2.1 = some wk ∧ sm.task? a.2.2 = some t ∧ t.scq = a.1 ∧ t.response = none ∧
    wk.task = none ∧ wk.inSync = true ∧ wk.terminating = false ∧
    (∀ sq, sm.scq? a.1 = some sq → ∀ p ∈ sq.drains, p.matches a.2.1 = false)

/-- … in some state passed through during the segment in which all worker invariants held -/
def Elig (a : ScqId × WId × Nat) : Prop := ∃ sm, WInv sm ∧ EligAt sm a

/-- the entries appended to the assignment log all satisfy `P` -/
def ALog (P : ScqId × WId × Nat → Prop) (s s' : State) : Prop :=
  ∃ new, s'.assigned = new ++ s.assigned ∧ ∀ a ∈ new, P a

theorem ALog.refl (P : ScqId × WId × Nat → Prop) (s : State) : ALog P s s := ⟨[], rfl, by simp⟩

theorem ALog.trans {P : ScqId × WId × Nat → Prop} {a b c : State} (h1 : ALog P a b) (h2 : ALog P b c) : ALog P a c := by
  obtain ⟨n1, e1, p1⟩ := h1
  obtain ⟨n2, e2, p2⟩ := h2
  refine ⟨n2 ++ n1, by rw [e2, e1, List.append_assoc], ?_⟩
  intro x hx; rcases List.mem_append.1 hx with h | h
  · exact p2 x h
  · exact p1 x h

theorem ALog.of_eq {P : ScqId × WId × Nat → Prop} {s s' : State} (h : s'.assigned = s.assigned) : ALog P s s' :=
  ⟨[], by simpa using h, by simp⟩

/-- preserves `KW` and appends only eligible assignments -/
def AStep (s s' : State) : Prop := KW s → KW s' ∧ ALog Elig s s'

theorem AStep.refl (s : State) : AStep s s := fun h => ⟨h, ALog.refl _ _⟩
theorem AStep.trans {a b c : State} (h1 : AStep a b) (h2 : AStep b c) : AStep a c := by
  intro h
  obtain ⟨kb, l1⟩ := h1 h
  obtain ⟨kc, l2⟩ := h2 kb
  exact ⟨kc, l1.trans l2⟩

theorem AStep.of (s s' : State) (hk : KWStep s s') (ha : KW s → ALog Elig s s') : AStep s s' :=
  fun h => ⟨hk h, ha h⟩

theorem AStep.of_eq {s s' : State} (hk : KWStep s s') (h : s'.assigned = s.assigned) : AStep s s' :=
  AStep.of s s' hk (fun _ => ALog.of_eq h)

/-- the hinted worker belongs to the task's size-class queue -/
theorem hintedWorker_scq {h : Hints} {s : State} {t : Task} {w : Worker} (hh : hintedWorker h s t = some w) :
    w.scq = t.scq := by
  unfold hintedWorker at hh
  split at hh
  · rename_i a ha
    have := List.find?_some ha
    simp only [decide_eq_true_eq] at this
    rw [(worker?_mem hh).2.1]; exact this.2
  · cases hh

theorem schedule_alog {h : Hints} {s s' : State} {tid : Nat} (hh : schedule h s tid = .ok s') (hw : WInv s)
    (ht : ∀ t, s.task? tid = some t → t.id = tid ∧ t.response = none) : ALog Elig s s' := by
  obtain ⟨t, h0, ⟨_, rfl⟩ | ⟨_, w, w1, hhw, hpk, hw1, hw1t, htw, rfl⟩⟩ := schedule_ok hh
  · exact ALog.of_eq rfl
  · obtain ⟨hid, hresp⟩ := ht t h0
    have hm := hintedWorker_mem hhw
    obtain ⟨p1, p2, p3, p4, p5, p6⟩ := (hw.ok w hm).parked hpk
    have hlk : s.worker? w.scq w.id = some w := worker?_of_mem hw.uniq hm
    have e1 : w1 = { w with parked := false, woken := true } := by
      simp only [wakeWorker, worker?_setWorker, and_self, if_true, hlk, Option.map_some, Option.some.injEq] at hw1
      exact hw1.symm
    subst e1
    refine ⟨[(w.scq, w.id, t.id)], rfl, ?_⟩
    intro a ha; simp only [List.mem_singleton] at ha; subst ha
    refine ⟨s, hw, w, t, hlk, by rw [hid]; exact h0, (hintedWorker_scq hhw).symm, hresp, p3, p1, p4, p6⟩

theorem complete_astep {h : Hints} {s s' : State} {tid : Nat} {r : Resp} {bw : Bool}
    (hh : complete h s tid r bw = .ok s') : AStep s s' := by
  refine AStep.of s s' (complete_kw hh) (fun ⟨hk, hw⟩ => ?_)
  obtain ⟨t, h0, ⟨_, rfl⟩ | ⟨hr, l, _, h1 | h1 | h1⟩⟩ := complete_ok hh
  · exact ALog.refl _ _
  all_goals obtain ⟨hid, hlt⟩ := hk.tid tid t h0
  all_goals obtain ⟨hd, hnp⟩ := detachW_winv hw h0
  · have fin : ∀ ev, WInv (succS (detachW s t) (detachT t) ev r) := fun ev =>
      hd.of_frame (by simp) (WFrame.of_aset (k0 := t.id) (by simp) (by simp) (by other_keys)) (by rw [hid]; exact hnp)
    obtain ⟨ev, _, rfl | ⟨ev', _, rfl⟩ | ⟨bq, pq, h2, _⟩⟩ := completeSucc_ok h1.2
    · exact ALog.of_eq (by simp)
    · exact ALog.of_eq (by simp)
    · have hb : WInv (bgState (bumpLearner (succS (detachW s t) (detachT t) ev r)) { detachT t with learner := none } bq
          (succS (detachW s t) (detachT t) ev r).nextLearner pq) := by
        refine (fin ev).of_frame (X := noX) rfl ⟨by simp, ?_, ?_⟩ (NoPtr.noX _)
        · intro q sq' hq p hp; exact ⟨sq', hq, hp⟩
        · intro tid' t' hlt' _ ht'
          simp only [State.task?, bgState_tasks, alookup_aset, bumpLearner_nextTask] at ht' hlt'
          split at ht'
          · omega
          · exact ⟨t', ht', rfl, rfl⟩
      refine (ALog.of_eq (s' := bgState (bumpLearner (succS (detachW s t) (detachT t) ev r)) { detachT t with learner := none } bq
          (succS (detachW s t) (detachT t) ev r).nextLearner pq) (by simp)).trans (schedule_alog h2 hb ?_)
      intro tb htb
      simp only [State.task?, bgState_tasks, alookup_aset, bumpLearner_nextTask, if_true, Option.some.injEq] at htb
      subst htb
      exact ⟨rfl, rfl⟩
  · obtain ⟨_, _, _, h5⟩ := h1
    obtain ⟨s2, t2, h2, h3, rfl⟩ := completeRetry_ok h5
    have hm : WInv ((retryS (detachW s t) l r).setTask (retryT (detachW s t) (detachT t) l r)) :=
      hd.of_frame (by simp) (WFrame.of_aset (k0 := t.id) (by simp) (by simp) (by other_keys)) (by rw [hid]; exact hnp)
    refine ((ALog.of_eq (s' := (retryS (detachW s t) l r).setTask (retryT (detachW s t) (detachT t) l r)) (by simp)).trans
      (schedule_alog h2 hm ?_)).trans (ALog.of_eq rfl)
    intro tb htb
    simp only [State.task?, setTask_tasks, detachT_id, alookup_aset] at htb
    have : (retryT (detachW s t) (detachT t) l r).id = t.id := by simp [retryT]
    simp only [this, if_true, Option.some.injEq] at htb
    subst htb
    exact ⟨by simp [retryT], by simp [retryT, hr]⟩
  · obtain ⟨_, _, ev, _, rfl⟩ := h1
    exact ALog.of_eq (by simp)

theorem removeOp_astep {h : Hints} {s s' : State} {o : Nat} (hh : removeOp h s o = .ok s') : AStep s s' := by
  have hkw := removeOp_kw hh
  rcases removeOp_ok hh with ⟨_, rfl⟩ | ⟨op, t, s1, t1, _, _, h1, h2, rfl⟩
  · exact AStep.refl _
  · have : AStep s s1 := by
      rcases h1 with ⟨_, h1⟩ | ⟨_, rfl⟩
      · exact (AStep.of_eq (s' := eraseOp s o)
          (KWStep.of (eraseOp_tstep True s o) (fun _ hw => winv_same hw rfl rfl rfl rfl)) rfl).trans (complete_astep h1)
      · exact AStep.of_eq (KWStep.of (eraseOp_tstep True s o) (fun _ hw => winv_same hw rfl rfl rfl rfl)) rfl
    exact this.trans (AStep.of_eq (KWStep.of (dropOpT_tstep True o h2) (fun hk hw => dropOpT_winv o hk hw h2)) (by simp))

theorem cancelAllQueued_astep {h : Hints} {s s' : State} {q : ScqId} {r : Resp}
    (hh : cancelAllQueued h s q r = .ok s') : AStep s s' :=
  cancelAllQueued_rel AStep AStep.refl (fun _ _ _ => AStep.trans) (fun _ _ _ => complete_astep) hh

theorem removeScq_astep {h : Hints} {s s' : State} {q : ScqId} (hh : removeScq h s q = .ok s') : AStep s s' := by
  obtain ⟨s1, h1, rfl⟩ := removeScq_ok hh
  exact (cancelAllQueued_astep h1).trans (AStep.of_eq
    (KWStep.of (TStep.of_same (allow := True) (by simp) (by simp) (by simp) (by simp)) (fun _ hw => dropScq_winv q hw)) (by simp))

theorem removeStaleWorker_astep {h : Hints} {s s' : State} {q : ScqId} {w : WId} {rt : Nat}
    (hh : removeStaleWorker h s q w rt = .ok s') : AStep s s' := by
  rcases removeStaleWorker_ok hh with ⟨_, rfl⟩ | ⟨wk, s1, _, h1, rfl⟩
  · exact AStep.refl _
  · have : AStep s s1 := by
      rcases h1 with ⟨t, _, h1⟩ | ⟨_, rfl⟩
      · exact complete_astep h1
      · exact AStep.refl _
    exact this.trans (AStep.of_eq (KWStep.of (TStep.of_same (allow := True) (by simp) (by simp) (by simp) (by simp))
      (fun _ hw => dropWorker_winv q w rt hw)) (by simp))

theorem callback_astep {h : Hints} {s s' : State} {e : CleanupEntry} (hh : callback h s e = .ok s') : AStep s s' := by
  unfold callback at hh
  split at hh
  · exact removeStaleWorker_astep hh
  · exact removeOp_astep hh
  · exact removeScq_astep hh

theorem runCleanup_astep {h : Hints} {f : Nat} {s s' : State} (hh : runCleanup h f s = .ok s') : AStep s s' :=
  runCleanup_rel AStep AStep.refl (fun _ _ _ => AStep.trans)
    (fun _ _ _ _ => AStep.of_eq (KWStep.of_same rfl rfl rfl rfl rfl rfl) rfl) (fun _ _ _ => callback_astep) f s s' hh

theorem enter_astep {h : Hints} {s s' : State} {t : Nat} (hh : enter h s t = .ok s') : AStep s s' := by
  rcases enter_ok hh with ⟨_, rfl⟩ | ⟨_, h1⟩
  · exact AStep.refl _
  · exact (AStep.of_eq (s := s) (s' := setNow s t) (KWStep.of_same rfl rfl rfl rfl rfl rfl) rfl).trans (runCleanup_astep h1)

/-! ### RPC segments -/

theorem streamAttach_astep {s s' : State} {c o : Nat} (hh : streamAttach s c o = .ok s') : AStep s s' := by
  refine AStep.of_eq (streamAttach_kw hh) ?_
  obtain ⟨op, _, h1⟩ := streamAttach_ok hh
  obtain ⟨op', t, _, _, ⟨r, _, _, rfl⟩ | ⟨_, rfl⟩⟩ := streamSend_ok h1 <;> simp [attachS]

theorem streamSend_astep {s s' : State} {c o : Nat} (hh : streamSend s c o = .ok s') : AStep s s' := by
  refine AStep.of_eq (streamSend_kw hh) ?_
  obtain ⟨op', t, _, _, ⟨r, _, _, rfl⟩ | ⟨_, rfl⟩⟩ := streamSend_ok hh <;> simp

theorem streamLeave_astep {s s' : State} {c code : Nat} (hh : streamLeave s c code = .ok s') : AStep s s' := by
  refine AStep.of_eq (streamLeave_kw hh) ?_
  obtain ⟨st, op, _, _, _, rfl⟩ := streamLeave_ok hh; simp

theorem streamWake_astep {h : Hints} {s s' : State} {now c reason : Nat}
    (hh : streamWake h s now c reason = .ok s') : AStep s s' := by
  obtain ⟨s1, st, h1, _, ⟨_, h3⟩ | ⟨_, _, h3⟩⟩ := streamWake_ok hh
  · exact (enter_astep h1).trans (streamLeave_astep h3)
  · exact (enter_astep h1).trans (streamSend_astep h3)

theorem waitArrive_astep {h : Hints} {s s' : State} {now c name : Nat}
    (hh : waitArrive h s now c name = .ok s') : AStep s s' := by
  obtain ⟨s1, h1, ⟨_, rfl⟩ | ⟨op, _, h2⟩⟩ := waitArrive_ok hh
  · exact (enter_astep h1).trans (AStep.of_eq (KWStep.of_same rfl rfl rfl rfl rfl rfl) rfl)
  · exact (enter_astep h1).trans (streamAttach_astep h2)

theorem execArrive_astep {h : Hints} {s s' : State} {now c digest dkey : Nat} {dnc : Bool}
    {comps : List Nat} {platform : Nat} {inv : List Nat} {prio : Int}
    (hh : execArrive h s now c digest dkey dnc comps platform inv prio = .ok s') : AStep s s' := by
  obtain ⟨s1, h1, h2 | h2 | h2⟩ := execArrive_ok hh
  · obtain ⟨tid, t, _, h0, ⟨o, _, h3⟩ | ⟨_, h3⟩⟩ := h2
    · exact ((enter_astep h1).trans (AStep.of_eq (s' := emit s1 .selAbandoned) (KWStep.of_same rfl rfl rfl rfl rfl rfl) rfl)).trans
        (streamAttach_astep h3)
    · refine (((enter_astep h1).trans (AStep.of_eq (s' := emit s1 .selAbandoned) (KWStep.of_same rfl rfl rfl rfl rfl rfl) rfl)).trans
        ?_).trans (streamAttach_astep h3)
      refine AStep.of_eq (KWStep.of (addOpS_tstep True inv prio (s := emit s1 .selAbandoned) h0) (fun hk hw => ?_)) rfl
      have hid := (hk.tid tid t h0).1
      exact hw.of_frame rfl (WFrame.of_aset_same (t0 := t) (t2 := { t with ops := t.ops ++ [s1.nextOp] }) (k0 := t.id)
        (by rw [hid]; exact h0) rfl rfl rfl rfl rfl) (NoPtr.noX _)
  · obtain ⟨_, _, rfl⟩ := h2
    exact (enter_astep h1).trans (AStep.of_eq (KWStep.of_same rfl rfl rfl rfl rfl rfl) rfl)
  · obtain ⟨_, pq, sc, s3, _, _, h3, h4⟩ := h2
    refine ((enter_astep h1).trans ?_).trans (streamAttach_astep h4)
    intro hkw1
    have hb : WInv (newTaskS s1 digest dkey dnc ⟨pq.id, sc⟩ inv prio) := by
      refine hkw1.2.of_frame (X := noX) (by simp) ⟨by simp, ?_, ?_⟩ (NoPtr.noX _)
      · intro q sq' hq p hp; simp only [State.scq?, newTaskS_scqs] at hq; exact ⟨sq', hq, hp⟩
      · intro tid' t' hlt' _ ht'
        simp only [State.task?, newTaskS_tasks, alookup_aset] at ht'
        split at ht'
        · omega
        · exact ⟨t', ht', rfl, rfl⟩
    have hkw3 : KW s3 := by
      refine ⟨((tstep_new_then_schedule (allow := True) (s := s1) (tn := newTask s1 digest dkey dnc ⟨pq.id, sc⟩)
        (on := newOp s1 inv prio) rfl rfl rfl (by simp) (by simp) (by simp) (by simp) h3) hkw1.1).1, ?_⟩
      refine schedule_winv h3 hb ?_
      intro tb htb
      simp only [State.task?, newTaskS_tasks, alookup_aset, if_true, Option.some.injEq] at htb
      subst htb
      exact ⟨rfl, by simp, rfl⟩
    refine ⟨hkw3, (ALog.of_eq (s' := newTaskS s1 digest dkey dnc ⟨pq.id, sc⟩ inv prio) (by simp)).trans (schedule_alog h3 hb ?_)⟩
    intro tb htb
    simp only [State.task?, newTaskS_tasks, alookup_aset, if_true, Option.some.injEq] at htb
    subst htb
    exact ⟨rfl, rfl⟩

theorem getNextTask_astep {h : Hints} {s s' : State} {q : ScqId} {w : WId} {pi block : Bool}
    (hh : getNextTask h s q w pi block = .ok s')
    (hpre : SyncPre s q w) (hnt : ∀ wk, s.worker? q w = some wk → wk.task = none) : AStep s s' := by
  refine AStep.of s s' (getNextTask_kw hh hpre hnt) (fun ⟨hk, hw⟩ => ?_)
  obtain ⟨wk, sq, hwk, hsq, h1 | h1 | h1⟩ := getNextTask_ok hh
  · obtain ⟨_, rfl⟩ := h1; exact ALog.of_eq (by simp)
  · obtain ⟨_, hdr, s1, got, h2, h3⟩ := h1
    obtain ⟨hm, hq', hw'⟩ := worker?_mem hwk
    obtain ⟨pin, ppk, pwo, pdw⟩ := hpre wk hwk
    have ha : ALog Elig s s1 := by
      rcases assignNext_ok h2 with ⟨_, rfl, _⟩ | ⟨_, t, t', hq, hwt, htw, h3', rfl⟩
      · exact ALog.refl _ _
      · obtain ⟨hl, hscq, _, hresp⟩ := queuedTasks_mem hk hq
        refine ⟨[(wk.scq, wk.id, t.id)], rfl, ?_⟩
        intro a ha; simp only [List.mem_singleton] at ha; subst ha
        unfold isDrained at hdr
        simp only [Bool.or_eq_false_iff, List.any_eq_false] at hdr
        refine ⟨s, hw, wk, t, by rw [hq', hw']; exact hwk, hl, hscq, hresp, hwt, pin, hdr.1, ?_⟩
        intro sq' hsq' p hp
        simp only at hsq'
        rw [hq', hsq] at hsq'; injection hsq' with e; subst e
        have := hdr.2 p hp
        simpa using this
    refine ha.trans ?_
    rcases h3 with h3 | h3 | h3
    · obtain ⟨_, wk1, s2, _, h4, rfl⟩ := h3
      obtain ⟨tid, t, _, _, rfl⟩ := execResponse_ok h4
      exact ALog.of_eq (by simp)
    · obtain ⟨_, _, rfl⟩ := h3; exact ALog.of_eq (by simp)
    · obtain ⟨_, _, wk1, _, _, rfl⟩ := h3; exact ALog.of_eq rfl
  · obtain ⟨_, _, h2 | h2⟩ := h1
    · obtain ⟨_, rfl⟩ := h2; exact ALog.of_eq (by simp)
    · obtain ⟨_, rfl⟩ := h2; exact ALog.of_eq rfl

theorem getCurrentOrNext_astep {h : Hints} {s s' : State} {q : ScqId} {w : WId} {pi block : Bool}
    (hh : getCurrentOrNext h s q w pi block = .ok s') (hpre : SyncPre s q w) : AStep s s' := by
  obtain ⟨wk, hwk, h1 | h1⟩ := getCurrentOrNext_ok hh
  · refine getNextTask_astep h1.2 hpre ?_
    intro wk' hwk'; rw [hwk] at hwk'; injection hwk' with e; subst e; exact h1.1
  · obtain ⟨tid, t, htk, h0, h2 | h2⟩ := h1
    · refine AStep.of_eq (getCurrentOrNext_kw hh hpre) ?_
      obtain ⟨_, rfl⟩ := h2; simp
    · obtain ⟨_, s1, h3, h4⟩ := h2
      intro hkw
      obtain ⟨hkw1, l1⟩ := complete_astep h3 hkw
      obtain ⟨keep, clr⟩ := complete_keep (q := q) (w := w) h3 hkw.2
      obtain ⟨pin, ppk, pwo, pdw⟩ := hpre wk hwk
      obtain ⟨hkw2, l2⟩ := getNextTask_astep h4 (by
        intro wk1 hwk1
        obtain ⟨wk', e1, p1, a1, a2, a3, _⟩ := keep wk hwk ppk
        rw [e1] at hwk1; injection hwk1 with e; subst e
        exact ⟨a1 ▸ pin, p1, a2 ▸ pwo, a3 ▸ pdw⟩) (fun wk1 hwk1 => clr wk hwk ppk htk wk1 hwk1) hkw1
      exact ⟨hkw2, l1.trans l2⟩

theorem syncArrive_astep {h : Hints} {s s' : State} {now : Nat} {q : ScqId} {comps : List Nat} {pf : Nat}
    {w : WId} {rep : Report} {pi : Bool} (hh : syncArrive h s now q comps pf w rep pi = .ok s') : AStep s s' := by
  obtain ⟨s1, x, h1, h2, h3⟩ := syncArrive_ok hh
  refine (enter_astep h1).trans ?_
  have hq : AStep s1 (unsum x) := by
    refine AStep.of_eq (syncQueue_kw h2) ?_
    rcases syncQueue_ok h2 with ⟨_, rfl⟩ | ⟨_, rfl⟩ | ⟨_, _, rfl⟩ | ⟨_, _, rfl⟩ <;> rfl
  rcases h3 with rfl | ⟨s2, rfl, h3⟩
  · exact hq
  · refine AStep.trans (b := s2) hq ?_
    obtain ⟨kw, pre⟩ := syncWorker_kw s2 q w
    have hwk' : AStep s2 (unsum (syncWorker s2 q w)) := by
      refine AStep.of_eq kw ?_
      rcases syncWorker_cases s2 q w with ⟨wk, _, _, e⟩ | ⟨wk, _, _, e⟩ | ⟨_, e⟩ <;> rw [e] <;> rfl
    rcases h3 with h3 | ⟨s3, wk, h3, hwk, h4⟩
    · rw [h3] at hwk'; exact hwk'
    · rw [h3] at hwk' kw
      intro hkw2
      obtain ⟨hkw3, l3⟩ := hwk' hkw2
      have hpre : SyncPre s3 q w := pre s3 h3 hkw2.2
      obtain ⟨pin, ppk, pwo, pdw⟩ := hpre wk hwk
      have fin : ∀ {s4 : State}, AStep s3 s4 → KW s4 ∧ ALog Elig s2 s4 := by
        intro s4 h; obtain ⟨k4, l4⟩ := h hkw3; exact ⟨k4, l3.trans l4⟩
      rcases h4 with ⟨_, rfl⟩ | ⟨_, h4⟩ | ⟨d, _, _, rfl⟩ | ⟨d, _, _, h4⟩ | ⟨d, r, tid, s4, _, _, htk, h4, h5⟩ | ⟨d, r, _, _, h4⟩
      · refine fin (AStep.of_eq (fun hk3 => ⟨(TStep.of_same (allow := True) (by simp) (by simp) (by simp) (by simp) hk3.1).1,
          syncReturn_winv q w (winv_same hk3.2 rfl rfl rfl rfl)⟩) (by simp))
      · exact fin (getCurrentOrNext_astep h4 hpre)
      · refine fin (AStep.of_eq (fun hk3 => ⟨(TStep.of_same (allow := True) (by simp) (by simp) (by simp) (by simp) hk3.1).1,
          syncReturn_winv q w (winv_same hk3.2 rfl rfl rfl rfl)⟩) (by simp))
      · exact fin (getCurrentOrNext_astep h4 hpre)
      · refine fin ?_
        intro hk3
        obtain ⟨hkw4, l4⟩ := complete_astep h4 hk3
        obtain ⟨keep, clr⟩ := complete_keep (q := q) (w := w) h4 hk3.2
        obtain ⟨hkw5, l5⟩ := getNextTask_astep h5 (by
          intro wk1 hwk1
          obtain ⟨wk', e1, p1, a1, a2, a3, _⟩ := keep wk hwk ppk
          rw [e1] at hwk1; injection hwk1 with e; subst e
          exact ⟨a1 ▸ pin, p1, a2 ▸ pwo, a3 ▸ pdw⟩) (fun wk1 hwk1 => clr wk hwk ppk htk wk1 hwk1) hkw4
        exact ⟨hkw5, l4.trans l5⟩
      · exact fin (getCurrentOrNext_astep h4 hpre)

theorem syncWake_astep {h : Hints} {s s' : State} {now : Nat} {q : ScqId} {w : WId} {reason : Nat}
    (hh : syncWake h s now q w reason = .ok s') : AStep s s' := by
  have hkwstep := syncWake_kw hh
  obtain ⟨s1, wk, h1, hwk, hin, h2⟩ := syncWake_ok hh
  intro hkw
  obtain ⟨hkw1, l1⟩ := enter_astep h1 hkw
  refine ⟨hkwstep hkw, l1.trans ?_⟩
  obtain ⟨hk, hw⟩ := hkw1
  obtain ⟨hm, hq, hw'⟩ := worker?_mem hwk
  have hok := hw.ok wk hm
  have reset : ∀ (wk2 : Worker), wk2.scq = wk.scq → wk2.id = wk.id → wk2.task = wk.task → wk2.inSync = true →
      wk2.parked = false → wk2.woken = false → wk2.drainWait = none →
      KW (s1.setWorker wk2) ∧ SyncPre (s1.setWorker wk2) q w ∧
        (∀ wk', (s1.setWorker wk2).worker? q w = some wk' → wk'.task = wk.task) := by
    intro wk2 e1 e2 e3 e4 e5 e6 e7
    refine ⟨⟨(TStep.of_same (allow := True) (s := s1) (s' := s1.setWorker wk2) rfl rfl rfl rfl hk).1, ?_⟩, ?_, ?_⟩
    · refine hw.setWorker (X := noX) rfl (WFrame.of_eq rfl rfl rfl) (NoPtr.noX _) ?_
      refine ⟨by simp [e5], by simp [e6], by simp [e7], ?_⟩
      intro tid ht; rw [e3] at ht; rw [e1, e2]; exact hok.ptr tid ht
    · intro wk' hwk'
      rw [worker?_setWorker] at hwk'
      simp only [e1, e2, hq, hw', and_self, if_true, hwk, Option.map_some, Option.some.injEq] at hwk'
      subst hwk'; exact ⟨e4, e5, e6, e7⟩
    · intro wk' hwk'
      rw [worker?_setWorker] at hwk'
      simp only [e1, e2, hq, hw', and_self, if_true, hwk, Option.map_some, Option.some.injEq] at hwk'
      subst hwk'; exact e3
  rcases h2 with ⟨_, h2 | h2⟩ | ⟨_, rfl⟩ | ⟨_, hwo, h2 | h2⟩ | ⟨_, sq, g, _, hdw, _, h2⟩
  · obtain ⟨s3, _, h3, rfl⟩ := h2
    obtain ⟨tid, t, _, _, rfl⟩ := execResponse_ok h3
    exact ALog.of_eq (by simp)
  · obtain ⟨_, rfl⟩ := h2; exact ALog.of_eq (by simp)
  · exact ALog.of_eq (by simp)
  · obtain ⟨s3, _, h3, rfl⟩ := h2
    obtain ⟨tid, t, _, _, rfl⟩ := execResponse_ok h3
    exact ALog.of_eq (by simp)
  · obtain ⟨htn, h3⟩ := h2
    obtain ⟨_, ppk, pdw⟩ := hok.woken hwo
    obtain ⟨r1, r2, r3⟩ := reset { wk with woken := false } rfl rfl rfl hin ppk rfl pdw
    refine (ALog.of_eq (s' := s1.setWorker { wk with woken := false }) rfl).trans ((getNextTask_astep h3 r2 ?_ r1).2)
    intro wk' hwk'; rw [r3 wk' hwk']
    cases hwt : wk.task with
    | none => rfl
    | some x => rw [hwt] at htn; cases htn
  · have hds : wk.drainWait.isSome = true := by simp [hdw]
    obtain ⟨_, htn⟩ := hok.dwait hds
    have ppk : wk.parked = false := by
      cases hp : wk.parked with
      | false => rfl
      | true => have := (hok.parked hp).2.2.2.2.1; rw [hdw] at this; cases this
    have pwo : wk.woken = false := by
      cases hp : wk.woken with
      | false => rfl
      | true => have := (hok.woken hp).2.2; rw [hdw] at this; cases this
    obtain ⟨r1, r2, r3⟩ := reset { wk with drainWait := none } rfl rfl rfl hin ppk pwo rfl
    refine (ALog.of_eq (s' := s1.setWorker { wk with drainWait := none }) rfl).trans ((getNextTask_astep h2 r2 ?_ r1).2)
    intro wk' hwk'; rw [r3 wk' hwk']; exact htn

theorem foldl_assigned {α} (f : State → α → State) (hf : ∀ s a, (f s a).assigned = s.assigned) (l : List α) (s : State) :
    (l.foldl f s).assigned = s.assigned := by
  induction l generalizing s with
  | nil => rfl
  | cons a r ih => simp only [List.foldl_cons]; rw [ih, hf]

/-- **Every segment** appends only eligible assignments to the log. -/
theorem step_astep {s s' : State} {g : Seg} (hstep : step s g = .ok s') : AStep s s' := by
  cases g with
  | register id comps pf sizes bm bp =>
    simp only [step, pure_ok] at hstep; subst hstep
    exact AStep.of_eq (registerPQ_kw s id comps pf sizes bm bp) rfl
  | exec h now c0 d dk dnc comps pf inv prio => exact execArrive_astep hstep
  | wait h now c0 name => exact waitArrive_astep hstep
  | streamWake h now c0 reason => exact streamWake_astep hstep
  | sync h now q comps pf w rep pi => exact syncArrive_astep hstep
  | syncWake h now q w reason => exact syncWake_astep hstep
  | killOp h now name code =>
    obtain ⟨s1, h1, ⟨_, rfl⟩ | ⟨op, s2, _, h2, rfl⟩⟩ := killOp_ok hstep
    · exact (enter_astep h1).trans (AStep.of_eq (KWStep.of_same rfl rfl rfl rfl rfl rfl) rfl)
    · exact ((enter_astep h1).trans (complete_astep h2)).trans (AStep.of_eq (KWStep.of_same rfl rfl rfl rfl rfl rfl) rfl)
  | killQueue h now q code =>
    obtain ⟨s1, h1, ⟨ev, _, rfl⟩ | ⟨s2, h2, rfl⟩⟩ := killQueue_ok hstep
    · exact (enter_astep h1).trans (AStep.of_eq (KWStep.of_same rfl rfl rfl rfl rfl rfl) rfl)
    · exact ((enter_astep h1).trans (cancelAllQueued_astep h2)).trans (AStep.of_eq (KWStep.of_same rfl rfl rfl rfl rfl rfl) rfl)
  | addDrain h now q p =>
    have hkws := addDrain_kw hstep
    obtain ⟨s1, h1, ⟨_, rfl⟩ | ⟨sq, hsq, rfl⟩⟩ := addDrain_ok hstep
    · exact (enter_astep h1).trans (AStep.of_eq (KWStep.of_same rfl rfl rfl rfl rfl rfl) rfl)
    · intro hkw
      obtain ⟨_, l1⟩ := enter_astep h1 hkw
      refine ⟨hkws hkw, l1.trans (ALog.of_eq ?_)⟩
      simp only [emit_assigned]
      rw [foldl_assigned (drainWake q p) (by intro a b; unfold drainWake; split <;> rfl)]; rfl
  | removeDrain h now q p =>
    have hkws := removeDrain_kw hstep
    obtain ⟨s1, h1, ⟨_, rfl⟩ | ⟨sq, hsq, rfl⟩⟩ := removeDrain_ok hstep
    · exact (enter_astep h1).trans (AStep.of_eq (KWStep.of_same rfl rfl rfl rfl rfl rfl) rfl)
    · intro hkw
      obtain ⟨_, l1⟩ := enter_astep h1 hkw
      exact ⟨hkws hkw, l1.trans (ALog.of_eq rfl)⟩
  | terminate h now id p =>
    have hkws := terminate_kw hstep
    obtain ⟨s1, h1, h2⟩ := terminate_ok hstep
    simp only at h2
    intro hkw
    obtain ⟨_, l1⟩ := enter_astep h1 hkw
    have e := foldl_assigned termMark (by intro a b; unfold termMark; (repeat' split) <;> rfl)
      (s1.workers.filter (fun w => p.matches w.id)) s1
    refine ⟨hkws hkw, l1.trans (ALog.of_eq ?_)⟩
    rcases h2 with ⟨_, rfl⟩ | ⟨_, rfl⟩ <;> exact e
  | termWake id reason =>
    refine AStep.of_eq (termWake_kw hstep) ?_
    obtain ⟨tc, _, ⟨_, rfl⟩ | ⟨_, _, rfl⟩⟩ := termWake_ok hstep <;> rfl
  | touch h now => exact enter_astep hstep

end BbRe.Lemmas.SchedLive
