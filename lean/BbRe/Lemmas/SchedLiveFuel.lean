import BbRe.Lemmas.SchedLiveTimeout
/-!
Termination measure of the cleanup loop (C06 `quiescence`, key lemma): every
callback removes the object of its entry (a worker, an operation or a
size-class queue) and creates none, so `workers + operations + queues` strictly
decreases; `cleanupFuel` exceeds it, hence `enter` leaves no due entry behind.
-/
namespace BbRe.Lemmas.SchedLive
open BbRe.Sched

/-- number of objects a cleanup callback can still remove -/
def objCount (s : State) : Nat := s.workers.length + s.ops.length + s.scqs.length

/-- the clock, the object counts: unchanged -/
structure Same (s s' : State) : Prop where
  now : s'.now = s.now
  w : s'.workers.length = s.workers.length
  o : s'.ops.length = s.ops.length
  q : s'.scqs.length = s.scqs.length

theorem Same.refl (s : State) : Same s s := ⟨rfl, rfl, rfl, rfl⟩
theorem Same.trans {a b c : State} (h1 : Same a b) (h2 : Same b c) : Same a c :=
  ⟨h2.now.trans h1.now, h2.w.trans h1.w, h2.o.trans h1.o, h2.q.trans h1.q⟩

theorem length_setWorker (s : State) (w : Worker) : (s.setWorker w).workers.length = s.workers.length := by
  rw [setWorker_workers, List.length_map]

theorem detachW_same (s : State) (t : Task) : Same s (detachW s t) := by
  unfold detachW
  (repeat' split) <;> first | exact Same.refl _ | exact ⟨rfl, length_setWorker _ _, rfl, rfl⟩

theorem length_of_akeys {α} {l l' : List (Nat × α)} (h : akeys l' = akeys l) : l'.length = l.length := by
  have := congrArg List.length h
  simpa [akeys] using this

/-- a scheduler-made (non-success, not by the worker) completion creates and removes no object -/
theorem complete_same {h : Hints} {s s' : State} {tid : Nat} {r : Resp} (hk : KeysOK s) (hns : ¬ isSucc r)
    (hh : complete h s tid r false = .ok s') : Same s s' := by
  obtain ⟨t, h0, ⟨_, rfl⟩ | ⟨_, l, _, h1 | h1 | h1⟩⟩ := complete_ok hh
  · exact Same.refl _
  · exact absurd h1.1 hns
  · cases h1.2.1
  · obtain ⟨_, _, ev, _, rfl⟩ := h1
    refine (detachW_same s t).trans ?_
    let M : State := (dropDedup (emit (detachW s t) ev) { detachT t with learner := none }).setTask
        (bumpGen { detachT t with learner := none, response := some r })
    have eM : succS (detachW s t) (detachT t) ev r = complete.finishOps M (detachT t).ops := rfl
    have hMo : M.ops = (detachW s t).ops := by simp [M]
    have hn : ∀ k op, M.op? k = some op → op.name = k := by
      intro k op e
      have : s.op? k = some op := by simpa [State.op?, hMo] using e
      exact (hk.oname k op this).1
    have hs := finishOps_opsSame (detachT t).ops M hn
    refine ⟨by simp, by simp, ?_, by simp⟩
    rw [eM, length_of_akeys hs.keys, hMo]

theorem cancelAllQueued_same {h : Hints} {s s' : State} {q : ScqId} {r : Resp} (hns : ¬ isSucc r)
    (hk : KeysOK s) (hh : cancelAllQueued h s q r = .ok s') : KeysOK s' ∧ Same s s' := by
  have := cancelAllQueued_rel (fun a b => KeysOK a → KeysOK b ∧ Same a b) (fun a ha => ⟨ha, Same.refl a⟩)
    (fun a b c h1 h2 ha => by
      obtain ⟨hb, s1⟩ := h1 ha; obtain ⟨hc, s2⟩ := h2 hb; exact ⟨hc, s1.trans s2⟩)
    (h := h) (r := r) (fun a t b hc ha => ⟨(complete_tstep hc ha).1, complete_same ha hns hc⟩) hh
  exact this hk

/-- **Each callback removes its object.** -/
theorem callback_decreases {h : Hints} {s s' : State} {e : CleanupEntry} {rest : List CleanupEntry}
    (hi : KWC noEx s) (hp : popDue s.now s.cleanup = some (e, rest))
    (hh : callback h (setCleanup s rest) e = .ok s') : objCount s' < objCount s ∧ s'.now = s.now := by
  obtain ⟨hmem, _, _, rfl⟩ := popDue_some hp
  have hkP : KeysOK (setCleanup s (s.cleanup.filter (fun x => x ≠ e))) :=
    (TStep.of_same (allow := True) (s := s) (s' := setCleanup s (s.cleanup.filter (fun x => x ≠ e))) rfl rfl rfl rfl hi.1.1).1
  have hek : hasK s e.kind := ⟨e, hmem, rfl⟩
  unfold callback at hh
  cases hkind : e.kind with
  | worker q w =>
    simp only [hkind] at hh
    obtain ⟨wk, hm, hq, hw⟩ := hi.2.eW q w (hkind ▸ hek)
    have hlk : (setCleanup s (s.cleanup.filter (fun x => x ≠ e))).worker? q w = some wk := by
      have := worker?_of_mem hi.1.2.uniq hm; rw [hq, hw] at this; exact this
    have hin : wk.inSync = false := by
      cases hin : wk.inSync with
      | false => rfl
      | true => exact absurd (by rw [hq, hw, ← hkind]; exact hek) (hi.2.wIn wk hm hin)
    have hpk : wk.parked = false := (flags_of_not_inSync (hi.1.2.ok wk hm) hin).1
    rcases removeStaleWorker_ok hh with ⟨hn, _⟩ | ⟨wk', s1, hwk', h1, rfl⟩
    · rw [hlk] at hn; cases hn
    · have hs1 : Same (setCleanup s (s.cleanup.filter (fun x => x ≠ e))) s1 ∧ ∃ x ∈ s1.workers, x.scq = q ∧ x.id = w := by
        rcases h1 with ⟨t, _, h1⟩ | ⟨_, rfl⟩
        · refine ⟨complete_same hkP (by simp [isSucc, cUnavailable, cOK]) h1, ?_⟩
          have hwP : WInv (setCleanup s (s.cleanup.filter (fun x => x ≠ e))) := winv_same hi.1.2 rfl rfl rfl rfl
          obtain ⟨keep, _⟩ := complete_keep (q := q) (w := w) h1 hwP
          obtain ⟨wk2, e1, _⟩ := keep wk hlk hpk
          obtain ⟨a, b, c⟩ := worker?_mem e1
          exact ⟨wk2, a, b, c⟩
        · exact ⟨Same.refl _, wk, hm, hq, hw⟩
      obtain ⟨sm, x, hx, hxq, hxw⟩ := hs1
      have hwl : (dropWorker s1 q w e.deadline).workers.length < s1.workers.length := by
        have : (dropWorker s1 q w e.deadline).workers = s1.workers.filter (fun y => ¬ (y.scq = q ∧ y.id = w)) := by
          unfold dropWorker; (repeat' split) <;> rfl
        rw [this]
        exact List.length_filter_lt_length_iff_exists.2 ⟨x, hx, by simp [hxq, hxw]⟩
      have hrest : (dropWorker s1 q w e.deadline).ops = s1.ops ∧ (dropWorker s1 q w e.deadline).scqs = s1.scqs ∧
          (dropWorker s1 q w e.deadline).now = s1.now := ⟨by simp, by simp, by simp⟩
      refine ⟨?_, by rw [hrest.2.2, sm.now]; rfl⟩
      unfold objCount
      rw [hrest.1, hrest.2.1]
      have e1 := sm.w; have e2 := sm.o; have e3 := sm.q
      simp only [setCleanup_workers, setCleanup_ops, setCleanup_scqs] at e1 e2 e3
      omega
  | op o =>
    simp only [hkind] at hh
    obtain ⟨op, hop, _, _⟩ := hi.2.eO o (hkind ▸ hek)
    rcases removeOp_ok hh with ⟨hn, _⟩ | ⟨op', t, s1, t1, hop', _, h1, h2, rfl⟩
    · have : (setCleanup s (s.cleanup.filter (fun x => x ≠ e))).op? o = some op := hop
      rw [this] at hn; cases hn
    · have hlt : (eraseOp (setCleanup s (s.cleanup.filter (fun x => x ≠ e))) o).ops.length < s.ops.length :=
        length_aerase_lt o s.ops op hop
      have hkE : KeysOK (eraseOp (setCleanup s (s.cleanup.filter (fun x => x ≠ e))) o) := (eraseOp_tstep True _ o hkP).1
      have hs1 : s1.now = s.now ∧ s1.workers.length = s.workers.length ∧ s1.ops.length < s.ops.length ∧
          s1.scqs.length = s.scqs.length := by
        rcases h1 with ⟨_, h1⟩ | ⟨_, rfl⟩
        · have sm := complete_same hkE (by simp [isSucc, cCanceled, cOK]) h1
          exact ⟨sm.now, sm.w, by rw [sm.o]; exact hlt, sm.q⟩
        · exact ⟨rfl, rfl, hlt, rfl⟩
      refine ⟨?_, by simp [hs1.1]⟩
      unfold objCount
      simp only [dropOpT_workers, dropOpT_ops, dropOpT_scqs]
      omega
  | scq q =>
    simp only [hkind] at hh
    obtain ⟨⟨sq, hsq, _⟩, _⟩ := hi.2.eS q (hkind ▸ hek)
    obtain ⟨s1, h1, rfl⟩ := removeScq_ok hh
    obtain ⟨hk1, sm⟩ := cancelAllQueued_same (by simp [isSucc, cUnavailable, cOK]) hkP h1
    -- the queue is still there before `dropScq` removes it
    have hsq1 : ∃ x ∈ s1.scqs, x.id = q := by
      have hc1 := (cancelAllQueued_kwc h1 ⟨KWStep.of_same (s := s) rfl rfl rfl rfl rfl rfl hi.1,
        pop_cinv hi.2 hmem⟩).2
      -- `pop_cinv` exempts the queue; it still exists because `cancelAllQueued` keeps queue lookups
      have : (s1.scq? q).map (·.mayBeRemoved) = (s.scq? q).map (·.mayBeRemoved) := by
        have hfr := cancelAllQueued_rel (fun a b => a.scqs = b.scqs) (fun _ => rfl) (fun _ _ _ h1 h2 => h1.trans h2)
          (h := h) (r := ⟨cUnavailable, 0, 0, .queueRemoved⟩)
          (fun a t b hc => by
            have := (complete_frame hc); 
            obtain ⟨t0, _, ⟨_, rfl⟩ | ⟨_, l, _, c1 | c1 | c1⟩⟩ := complete_ok hc
            · rfl
            · exact absurd c1.1 (by simp [isSucc, cUnavailable, cOK])
            · cases c1.2.1
            · obtain ⟨_, _, ev, _, rfl⟩ := c1; simp) h1
        simp [State.scq?, ← hfr]
      rw [hsq] at this
      cases hs1 : s1.scq? q with
      | none => rw [hs1] at this; cases this
      | some x =>
        have hx := List.mem_of_find?_eq_some (show s1.scqs.find? (fun y => y.id = q) = some x from hs1)
        have hid := List.find?_some (show s1.scqs.find? (fun y => y.id = q) = some x from hs1)
        exact ⟨x, hx, by simpa using hid⟩
    obtain ⟨x, hx, hxq⟩ := hsq1
    have hql : (dropScq s1 q).scqs.length < s1.scqs.length := by
      have : (dropScq s1 q).scqs = s1.scqs.filter (fun y => y.id ≠ q) := by unfold dropScq; split <;> rfl
      rw [this]
      exact List.length_filter_lt_length_iff_exists.2 ⟨x, hx, by simp [hxq]⟩
    refine ⟨?_, by simp [sm.now]⟩
    unfold objCount
    simp only [dropScq_workers, dropScq_ops]
    have e1 := sm.w; have e2 := sm.o; have e3 := sm.q
    simp only [setCleanup_workers, setCleanup_ops, setCleanup_scqs] at e1 e2 e3
    omega

/-- **The cleanup loop is exhaustive**: with fuel above the number of removable objects it stops only
when no entry is due. -/
theorem runCleanup_exhaustive {h : Hints} (f : Nat) (s s' : State) (hi : KWC noEx s) (hf : objCount s < f)
    (hh : runCleanup h f s = .ok s') : s'.now = s.now ∧ popDue s'.now s'.cleanup = none := by
  induction f generalizing s with
  | zero => omega
  | succ f ih =>
    rw [runCleanup_succ] at hh
    cases hp : popDue s.now s.cleanup with
    | none => simp only [hp, pure_ok] at hh; subst hh; exact ⟨rfl, hp⟩
    | some p =>
      obtain ⟨e, rest⟩ := p
      simp only [hp, bind_ok] at hh
      obtain ⟨s1, h1, h2⟩ := hh
      have hi1 := callback_kwc hi hp h1
      obtain ⟨hd, hn⟩ := callback_decreases hi hp h1
      obtain ⟨a, b⟩ := ih s1 hi1 (by omega) h2
      exact ⟨a.trans hn, b⟩

/-- **`enter` leaves no due entry**: after `enter(now)` every remaining cleanup entry has a deadline
in the future — every timed failure that was due has happened. -/
theorem enter_exhaustive {h : Hints} {s s' : State} {now : Nat} (hi : KWC noEx s) (hnow : s.now < now)
    (hh : enter h s now = .ok s') : s'.now = now ∧ ∀ e ∈ s'.cleanup, now < e.deadline := by
  rcases enter_ok hh with ⟨hle, _⟩ | ⟨_, h1⟩
  · omega
  · have hi0 : KWC noEx (setNow s now) :=
      ⟨KWStep.of_same (s := s) rfl rfl rfl rfl rfl rfl hi.1, hi.2.frame (CFrame.of_same rfl rfl rfl rfl rfl)⟩
    obtain ⟨a, b⟩ := runCleanup_exhaustive (cleanupFuel s) (setNow s now) s' hi0
      (by unfold objCount cleanupFuel; simp only [setNow_workers, setNow_ops, setNow_scqs]; omega) h1
    have hn : s'.now = now := a
    refine ⟨hn, ?_⟩
    rw [hn] at b
    exact popDue_none.1 b

end BbRe.Lemmas.SchedLive
