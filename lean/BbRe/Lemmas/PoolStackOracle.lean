import BbRe.Lemmas.PoolStack3
import BbRe.Lemmas.FilePoolAllocSpec
/-!
Towards "the composed model never takes the file model's `.oracle` branch".

Proved here (`alloc_accepts_bitmap`): at any point where the file layer's allocated list and the
bitmap agree, the answer `Bitmap.alloc` gives to a request with `maximum = m ≥ 1` is accepted by the
file model's contract check `Env.alloc` *for that same `m`*.

Still missing for `stack_never_asks_oracle` (not proved, nothing assumed):
1. replay determinism: `writeAt` run with answers `as ++ bs` reaches the state in which the run with
   `as` stopped for want of an answer, with `bs` left (induction over `writeLoop` /
   `writeToSectors` / `writeToNewSectors`);
2. at that state the `maximum` passed to `Env.alloc` is `nextMax` computed from the stopped run's
   result (position `o + nTotal`, file sectors after the inserts so far), and the allocated list is
   `ansSectors as ++ before` (the agreement hypothesis below, `AnsOk.abs`).
-/
namespace BbRe.Lemmas.PoolStack
open BbRe BbRe.PoolStack BbRe.FilePool BbRe.Lemmas.FilePool

theorem alloc_accepts_bitmap {c : Cfg} {e : Env} {bm : Bitmap.State} {m first count : Nat}
    (rest : List AllocAns) (hinv : Bitmap.Inv c.nsec bm)
    (hag : ∀ s, Bitmap.abs c.nsec bm s = e.allocd.contains s) (hm : 1 ≤ m)
    (h : (Bitmap.alloc bm m).2 = some (first, count)) (ha : e.answers = .range first count :: rest) :
    (e.alloc c m).2 = .ok first count := by
  have hok := Lemmas.Bitmap.alloc_ok_spec c.nsec bm m first count hinv hm h
  apply alloc_accepts_spec rest ha
  unfold AllocSpec.allocAnswerOk
  simp only [Bool.and_eq_true, decide_eq_true_eq, List.all_eq_true, List.mem_range]
  refine ⟨⟨⟨⟨hok.count_pos, hok.count_le⟩, hok.first_pos⟩, hok.in_range⟩, fun i hi => ?_⟩
  have := hok.were_free (first + i) (by omega) (by omega)
  rw [hag] at this
  simp only [absAlloc, this]
  rfl

end BbRe.Lemmas.PoolStack
