import BbRe.Lemmas.FileRefCount
/-!
The part of the C16 invariant that talks about the parked / frozen threads, with one
lemma per way in which a step of `Model/FileRef.lean` changes a program counter.
-/
namespace BbRe.Lemmas.FileRef
open BbRe.FileRef

/-- `pc` with thread `t` moved to `v`. -/
def upd (pc : Nat → PC) (t : Nat) (v : PC) : Nat → PC := fun x => if x = t then v else pc x

theorem setPc_pc (s : State) (t : Nat) (v : PC) : (s.setPc t v).pc = upd s.pc t v := rfl

structure PcInv (pc : Nat → PC) (frozen writers : Nat) (bytes : Bytes) : Prop where
  fcount : FrozenCount pc frozen
  /-- no lost wake-up: a call parked in `lockMutatingData` whose channel was not closed. -/
  mutWake : ∀ t op, pc t = .mutWait op false → 0 < frozen
  /-- no lost wake-up: an upload parked on `noMoreWritersWakeup`. -/
  upWake : ∀ t u k fn, pc t = .upWait u k fn false → 0 < writers
  /-- the digest an upload is putting is the digest of the current contents. -/
  putOk : ∀ t d, pc t = .upPut d → d.2 = bytes

theorem wakeMut_isFrozen (pc : Nat → PC) (t : Nat) : (wakeMut pc t).isFrozen = (pc t).isFrozen := by
  unfold wakeMut; cases pc t <;> rfl

theorem wakeUp_isFrozen (pc : Nat → PC) (t : Nat) : (wakeUp pc t).isFrozen = (pc t).isFrozen := by
  unfold wakeUp; cases pc t <;> rfl

theorem wakeMut_not_unwoken (pc : Nat → PC) (t : Nat) (op : MutOp) : wakeMut pc t ≠ .mutWait op false := by
  unfold wakeMut; cases pc t <;> simp

theorem wakeUp_not_unwoken (pc : Nat → PC) (t : Nat) (u : Bool) (k : Option Nat) (fn : Nat) :
    wakeUp pc t ≠ .upWait u k fn false := by
  unfold wakeUp; cases pc t <;> simp

theorem wakeMut_upWait {pc : Nat → PC} {t : Nat} {u k fn w} (h : wakeMut pc t = .upWait u k fn w) :
    pc t = .upWait u k fn w := by
  unfold wakeMut at h; cases hp : pc t <;> simp_all

theorem wakeMut_upPut {pc : Nat → PC} {t : Nat} {d} (h : wakeMut pc t = .upPut d) : pc t = .upPut d := by
  unfold wakeMut at h; cases hp : pc t <;> simp_all

theorem wakeUp_mutWait {pc : Nat → PC} {t : Nat} {op w} (h : wakeUp pc t = .mutWait op w) :
    pc t = .mutWait op w := by
  unfold wakeUp at h; cases hp : pc t <;> simp_all

theorem wakeUp_upPut {pc : Nat → PC} {t : Nat} {d} (h : wakeUp pc t = .upPut d) : pc t = .upPut d := by
  unfold wakeUp at h; cases hp : pc t <;> simp_all

theorem PcInv.init (w : Nat) (b : Bytes) : PcInv (fun _ => PC.idle) 0 w b := by
  refine ⟨FrozenCount.init, ?_, ?_, ?_⟩ <;> intros <;> contradiction

theorem FrozenCount.upd {pc : Nat → PC} {n : Nat} (t : Nat) (v : PC) (h : FrozenCount pc n) :
    FrozenCount (upd pc t v) (n - b2n (pc t).isFrozen + b2n v.isFrozen) := h.set t v

/-- A thread that holds no frozen reader moves to another such place. -/
theorem PcInv.upd_plain {pc f w b} (h : PcInv pc f w b) (t : Nat) (v : PC)
    (hold : (pc t).isFrozen = false) (hv : v.isFrozen = false)
    (hm : ∀ op, v = .mutWait op false → 0 < f) (hu : ∀ u k fn, v = .upWait u k fn false → 0 < w) :
    PcInv (upd pc t v) f w b := by
  refine ⟨?_, ?_, ?_, ?_⟩
  · have := h.fcount.upd t v
    simpa [hold, hv, b2n] using this
  · intro x op hx
    unfold upd at hx
    split at hx
    · exact hm op hx
    · exact h.mutWake x op hx
  · intro x u k fn hx
    unfold upd at hx
    split at hx
    · exact hu u k fn hx
    · exact h.upWake x u k fn hx
  · intro x d hx
    unfold upd at hx
    split at hx
    · subst hx; cases hv
    · exact h.putOk x d hx

/-- A thread obtains a frozen reader (`openReadFrozen`). -/
theorem PcInv.upd_freeze {pc f w b} (h : PcInv pc f w b) (t : Nat) (v : PC)
    (hold : (pc t).isFrozen = false) (hv : v.isFrozen = true) (hd : ∀ d, v = .upPut d → d.2 = b) :
    PcInv (upd pc t v) (f + 1) w b := by
  refine ⟨?_, ?_, ?_, ?_⟩
  · have := h.fcount.upd t v
    simpa [hold, hv, b2n] using this
  · intro x op hx
    omega
  · intro x u k fn hx
    unfold upd at hx
    split at hx
    · subst hx; cases hv
    · exact h.upWake x u k fn hx
  · intro x d hx
    unfold upd at hx
    split at hx
    · exact hd d hx
    · exact h.putOk x d hx

/-- A thread that holds a frozen reader moves on and keeps it. -/
theorem PcInv.upd_keep {pc f w b} (h : PcInv pc f w b) (t : Nat) (v : PC)
    (hold : (pc t).isFrozen = true) (hv : v.isFrozen = true) (hd : ∀ d, v = .upPut d → d.2 = b) :
    PcInv (upd pc t v) f w b := by
  have hpos := h.fcount.pos hold
  refine ⟨?_, ?_, ?_, ?_⟩
  · have := h.fcount.upd t v
    have e : f - 1 + 1 = f := by omega
    simpa [hold, hv, b2n, e] using this
  · intro x op hx
    exact hpos
  · intro x u k fn hx
    unfold upd at hx
    split at hx
    · subst hx; cases hv
    · exact h.upWake x u k fn hx
  · intro x d hx
    unfold upd at hx
    split at hx
    · exact hd d hx
    · exact h.putOk x d hx

/-- `frozenFileBackedFile.Close` by thread `t`, which then returns. -/
theorem PcInv.unfreeze {pc f w b} (h : PcInv pc f w b) (t : Nat)
    (hold : (pc t).isFrozen = true) :
    PcInv (if f - 1 = 0 then wakeMut (upd pc t .idle) else upd pc t .idle) (f - 1) w b := by
  have hpos := h.fcount.pos hold
  have hc : FrozenCount (upd pc t .idle) (f - 1) := by
    have := h.fcount.upd t .idle
    rw [hold] at this
    simpa [b2n, PC.isFrozen] using this
  have hup : ∀ x u k fn, upd pc t .idle x = .upWait u k fn false → 0 < w := by
    intro x u k fn hx
    unfold upd at hx
    split at hx
    · cases hx
    · exact h.upWake x u k fn hx
  have hput : ∀ x d, upd pc t .idle x = .upPut d → d.2 = b := by
    intro x d hx
    unfold upd at hx
    split at hx
    · cases hx
    · exact h.putOk x d hx
  split
  · refine ⟨hc.congr (wakeMut_isFrozen _), ?_, ?_, ?_⟩
    · intro x op hx
      exact absurd hx (wakeMut_not_unwoken _ _ _)
    · intro x u k fn hx
      exact hup x u k fn (wakeMut_upWait hx)
    · intro x d hx
      exact hput x d (wakeMut_upPut hx)
  · refine ⟨hc, ?_, hup, hput⟩
    intro x op hx
    omega

/-- `VirtualClose` of a writable descriptor. -/
theorem PcInv.writers_dec {pc f w b} (h : PcInv pc f w b) :
    PcInv (if w - 1 = 0 then wakeUp pc else pc) f (w - 1) b := by
  split
  · refine ⟨h.fcount.congr (wakeUp_isFrozen _), ?_, ?_, ?_⟩
    · intro x op hx
      exact h.mutWake x op (wakeUp_mutWait hx)
    · intro x u k fn hx
      exact absurd hx (wakeUp_not_unwoken _ _ _ _ _)
    · intro x d hx
      exact h.putOk x d (wakeUp_upPut hx)
  · refine ⟨h.fcount, h.mutWake, ?_, h.putOk⟩
    intro x u k fn hx
    have := h.upWake x u k fn hx
    omega

theorem PcInv.writers_inc {pc f w b} (h : PcInv pc f w b) (k : Nat) : PcInv pc f (w + k) b :=
  ⟨h.fcount, h.mutWake, fun x u k' fn hx => by have := h.upWake x u k' fn hx; omega, h.putOk⟩

/-- The contents change: only possible while nobody has the file frozen. -/
theorem PcInv.bytes_change {pc w b} (h : PcInv pc 0 w b) (b' : Bytes) : PcInv pc 0 w b' :=
  ⟨h.fcount, h.mutWake, h.upWake, fun x d hx => by
    have := h.fcount.zero_all x
    rw [hx] at this
    cases this⟩

end BbRe.Lemmas.FileRef
