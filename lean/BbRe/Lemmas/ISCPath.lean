import BbRe.Model.ISC
/-!
Helper lemmas for C07 (b): the learner state machine of `Model/ISC.lean` along a path
(handle release protocol, number of terminal calls).
-/
namespace BbRe.Lemmas.ISC
open BbRe.ISC

/-- The learner types that were created after the message had already been mutated
(`smallerBackgroundLearner` embeds `baseLearner`, all others embed `cleanLearner`). -/
def dirtyHeld : Learner → Bool
  | .smallerBg _ _ => true
  | _ => false

/-- How many terminal calls a learner and its successors can still receive. -/
def remaining : Learner → Nat
  | .smallerFg .. => 2
  | .largestBg .. => 2
  | .fbSmaller _ => 2
  | _ => 1

/-- One terminal call on a handle-holding learner: either a successor that still holds
the handle and no `Release`, or no successor and exactly one `Release` whose dirty flag
says whether the message was mutated since `Select`. -/
theorem step_release (env : Env) (l : Learner) (stats : Stats) (ev : Ev) (o : StepOut)
    (hl : l.holdsHandle = true) (h : l.step env stats ev = some o) :
    (∀ l', o.next = some l' →
        l'.holdsHandle = true ∧ o.release = none ∧ (dirtyHeld l || o.mutated) = dirtyHeld l') ∧
    (o.next = none → o.release = some (dirtyHeld l || o.mutated)) := by
  cases l <;> cases ev <;>
    simp only [Learner.step, Learner.succeeded, Learner.failed, Learner.abandoned, Learner.holdsHandle,
      Option.some.injEq, Bool.false_eq_true] at h hl <;>
    (try (subst h; simp [dirtyHeld, Learner.holdsHandle]))
  -- largestBg.succeeded: nested matches
  all_goals
    split at h
    · split at h
      · simp at h
      · simp only [Option.some.injEq] at h; subst h; simp [dirtyHeld, Learner.holdsHandle]
    · simp only [Option.some.injEq] at h; subst h; simp [dirtyHeld]

/-- A successor has strictly fewer calls left. -/
theorem step_remaining (env : Env) (l : Learner) (stats : Stats) (ev : Ev) (o : StepOut) (l' : Learner)
    (h : l.step env stats ev = some o) (hn : o.next = some l') : remaining l' < remaining l := by
  cases l <;> cases ev <;>
    simp only [Learner.step, Learner.succeeded, Learner.failed, Learner.abandoned,
      Option.some.injEq] at h <;>
    (try (subst h; simp at hn ⊢; try (subst hn; simp [remaining])))
  all_goals
    split at h
    · split at h
      · simp at h
      · simp only [Option.some.injEq] at h; subst h; simp at hn; subst hn; simp [remaining]
    · simp only [Option.some.injEq] at h; subst h; simp at hn

/-- A learner of the fallback analyzer never touches a handle and yields only fallback learners. -/
theorem step_fallback (env : Env) (l : Learner) (stats : Stats) (ev : Ev) (o : StepOut)
    (hl : l.holdsHandle = false) (h : l.step env stats ev = some o) :
    o.release = none ∧ o.mutated = false ∧ o.stats = stats ∧ ∀ l', o.next = some l' → l'.holdsHandle = false := by
  cases l <;> simp [Learner.holdsHandle] at hl <;> cases ev <;>
    simp only [Learner.step, Learner.succeeded, Learner.failed, Learner.abandoned, Option.some.injEq] at h <;>
    subst h <;> simp [Learner.holdsHandle]

/-- A call that reports no mutation leaves the message exactly as it was. -/
theorem step_unmutated (env : Env) (l : Learner) (stats : Stats) (ev : Ev) (o : StepOut)
    (h : l.step env stats ev = some o) (hm : o.mutated = false) : o.stats = stats := by
  cases l <;> cases ev <;>
    simp only [Learner.step, Learner.succeeded, Learner.failed, Learner.abandoned,
      Option.some.injEq] at h <;>
    (try (subst h; simp at hm ⊢))
  all_goals
    split at h
    · split at h
      · simp at h
      · simp only [Option.some.injEq] at h; subst h; simp at hm
    · simp only [Option.some.injEq] at h; subst h; simp at hm

/-- Without interference, a path that reports no mutation ends with the message it started with. -/
theorem runPath_unmutated (env : Env) (evs : List Ev) :
    ∀ (t : Trace) (stats : Stats), (runPath env (fun _ s => s) t stats evs).1.mutated = false →
      (runPath env (fun _ s => s) t stats evs).1.panicked = false →
      t.mutated = false ∧ (runPath env (fun _ s => s) t stats evs).2 = stats := by
  induction evs with
  | nil => intro t stats hm _; simpa [runPath] using hm
  | cons ev evs ih =>
    intro t stats hm hp
    unfold runPath at hm hp ⊢
    cases hc : t.cur with
    | none => simpa [hc] using hm
    | some l =>
      simp only [hc] at hm hp ⊢
      cases hs : l.step env stats ev with
      | none => simp [hs] at hp
      | some o =>
        simp only [hs] at hm hp ⊢
        have := ih _ o.stats hm hp
        simp only [Bool.or_eq_false_iff] at this
        refine ⟨this.1.1, ?_⟩
        rw [this.2]
        exact step_unmutated env l stats ev o hs this.1.2

/-- Invariant of a trace of a feedback-driven request. -/
def Good (t : Trace) : Prop :=
  match t.cur with
  | some l => l.holdsHandle = true ∧ t.releases = [] ∧ t.mutated = dirtyHeld l
  | none => t.panicked = true ∨ t.releases = [t.mutated]

theorem runPath_good (env : Env) (interfere : Nat → Stats → Stats) (evs : List Ev) :
    ∀ (t : Trace) (stats : Stats), Good t → Good (runPath env interfere t stats evs).1 := by
  induction evs with
  | nil => intro t stats h; simpa [runPath] using h
  | cons ev evs ih =>
    intro t stats h
    unfold runPath
    cases hc : t.cur with
    | none => simpa using h
    | some l =>
      simp only
      have hg : l.holdsHandle = true ∧ t.releases = [] ∧ t.mutated = dirtyHeld l := by
        simpa [Good, hc] using h
      cases hs : l.step env (interfere t.calls stats) ev with
      | none => simp [Good]
      | some o =>
        simp only
        apply ih
        have hr := step_release env l _ ev o hg.1 hs
        cases hn : o.next with
        | none =>
          have := hr.2 hn
          simp [Good, hg.2.1, hg.2.2, this]
        | some l' =>
          have := hr.1 l' hn
          simp [Good, hg.2.1, hg.2.2, this.1, this.2.1, this.2.2]

/-- Invariant bounding the number of terminal calls of a request. -/
def Bounded (t : Trace) : Prop :=
  match t.cur with
  | some l => t.calls + remaining l ≤ 2
  | none => t.calls ≤ 2

theorem runPath_bounded (env : Env) (interfere : Nat → Stats → Stats) (evs : List Ev) :
    ∀ (t : Trace) (stats : Stats), Bounded t → Bounded (runPath env interfere t stats evs).1 := by
  induction evs with
  | nil => intro t stats h; simpa [runPath] using h
  | cons ev evs ih =>
    intro t stats h
    unfold runPath
    cases hc : t.cur with
    | none => simpa using h
    | some l =>
      simp only
      have hb : t.calls + remaining l ≤ 2 := by simpa [Bounded, hc] using h
      have hpos : 1 ≤ remaining l := by cases l <;> simp [remaining]
      cases hs : l.step env (interfere t.calls stats) ev with
      | none => simp [Bounded]; omega
      | some o =>
        simp only
        apply ih
        cases hn : o.next with
        | none => simp [Bounded]; omega
        | some l' =>
          have := step_remaining env l _ ev o l' hs hn
          simp [Bounded]; omega

/-- Invariant of a trace of a fallback request: no handle is ever touched. -/
def NoHandle (t : Trace) : Prop :=
  t.releases = [] ∧ t.mutated = false ∧ ∀ l, t.cur = some l → l.holdsHandle = false

theorem runPath_noHandle (env : Env) (interfere : Nat → Stats → Stats) (evs : List Ev) :
    ∀ (t : Trace) (stats : Stats), NoHandle t → NoHandle (runPath env interfere t stats evs).1 := by
  induction evs with
  | nil => intro t stats h; simpa [runPath] using h
  | cons ev evs ih =>
    intro t stats h
    unfold runPath
    cases hc : t.cur with
    | none => simpa using h
    | some l =>
      simp only
      have hl := h.2.2 l hc
      cases hs : l.step env (interfere t.calls stats) ev with
      | none => exact ⟨h.1, h.2.1, by simp⟩
      | some o =>
        simp only
        apply ih
        have hf := step_fallback env l _ ev o hl hs
        refine ⟨by simp [h.1, hf.1], by simp [h.2.1, hf.2.1], ?_⟩
        intro l' hl'
        exact hf.2.2.2 l' hl'

/-- The learner handed out by `Select` is a first-stage learner that holds the handle and
has not mutated anything. -/
theorem chooseFD_next (stats1 : Stats) (strategies : List Strategy) (origTO : Int) (classes : List Nat)
    (largest : Nat) (r : Rat) (o : StepOut) (h : chooseFD stats1 strategies origTO classes largest r = some o) :
    o.release = none ∧ o.mutated = false ∧ o.stats = stats1 ∧
    ∃ l, o.next = some l ∧ l.holdsHandle = true ∧ dirtyHeld l = false ∧ remaining l ≤ 2 := by
  unfold chooseFD at h
  split at h
  · split at h
    · simp at h
    · split at h <;> (simp only [Option.some.injEq] at h; subst h; simp [Learner.holdsHandle, dirtyHeld, remaining])
  · simp only [Option.some.injEq] at h; subst h; simp [Learner.holdsHandle, dirtyHeld, remaining]

theorem selectFD_eq (env : Env) (stats : Stats) (origTO : Int) (classes : List Nat) (now : Int) (r : Rat)
    (so : SelectOut) (h : selectFD env stats origTO classes now r = some so) :
    ∃ largest, classes.getLast? = some largest ∧
      so.strategies = (strategiesFD env stats origTO classes now).2.1 ∧
      chooseFD { stats with classes := (strategiesFD env stats origTO classes now).1 }
        (strategiesFD env stats origTO classes now).2.1 origTO classes largest r = some so.out := by
  unfold selectFD at h
  split at h
  · simp at h
  · rename_i largest hl
    refine ⟨largest, hl, ?_⟩
    simp only at h
    split at h
    · simp at h
    · rename_i o ho
      simp only [Option.some.injEq] at h
      subst h
      exact ⟨rfl, ho⟩

theorem selectFD_next (env : Env) (stats : Stats) (origTO : Int) (classes : List Nat) (now : Int) (r : Rat)
    (so : SelectOut) (h : selectFD env stats origTO classes now r = some so) :
    so.out.release = none ∧ so.out.mutated = false ∧
    ∃ l, so.out.next = some l ∧ l.holdsHandle = true ∧ dirtyHeld l = false ∧ remaining l ≤ 2 := by
  obtain ⟨largest, _, _, hc⟩ := selectFD_eq env stats origTO classes now r so h
  have := chooseFD_next _ _ _ _ _ _ _ hc
  exact ⟨this.1, this.2.1, this.2.2.2⟩

end BbRe.Lemmas.ISC
