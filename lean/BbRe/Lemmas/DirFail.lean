import BbRe.Lemmas.DirOps
/-!
Operations that fail, and operations that only read, change nothing except
that lazily defined directories they had to look into are now materialised:
`OnlyMat s s'` says every already materialised directory of `s` is literally
unchanged in `s'`.
-/
namespace BbRe.Lemmas.Dir
open BbRe.Dir

def OnlyMat (s s' : Store) : Prop :=
  s.dirs.length ≤ s'.dirs.length ∧ ∀ d, d < s.dirs.length → (s.dir d).lazy = none → s'.dir d = s.dir d

theorem OnlyMat.refl (s : Store) : OnlyMat s s := ⟨Nat.le_refl _, fun _ _ _ => rfl⟩

theorem OnlyMat.trans {a b c : Store} (h1 : OnlyMat a b) (h2 : OnlyMat b c) : OnlyMat a c := by
  refine ⟨Nat.le_trans h1.1 h2.1, ?_⟩
  intro d hd hl
  have e1 := h1.2 d hd hl
  rw [h2.2 d (by have := h1.1; omega) (by rw [e1]; exact hl), e1]

theorem attachInitial_frame (P : Params) (d : Nat) :
    ∀ (cs : List (Nat × TChild)) (s s' : Store), attachInitial P d cs s = some s' →
      s.dirs.length ≤ s'.dirs.length ∧ ∀ d', d' ≠ d → d' < s.dirs.length → s'.dir d' = s.dir d'
  | [], s, s', he => by
    simp [attachInitial] at he; subst he
    exact ⟨Nat.le_refl _, fun _ _ _ => rfl⟩
  | (name, tc) :: rest, s, s', he => by
    unfold attachInitial at he
    simp only [] at he
    split at he
    · cases he
    · cases tc with
      | leaf l =>
        simp only [] at he
        have r := attachInitial_frame P d rest _ s' he
        refine ⟨by have := r.1; simpa using this, ?_⟩
        intro d' hne hlt
        rw [r.2 d' hne (by simpa using hlt)]
        simp [dir_modDir_ne s d d' _ (fun e => hne e.symm)]
      | dir t =>
        simp only [] at he
        have r := attachInitial_frame P d rest _ s' he
        refine ⟨by have := r.1; simp at this; omega, ?_⟩
        intro d' hne hlt
        rw [r.2 d' hne (by simp; omega)]
        rw [dir_modDir_ne _ d d' _ (fun e => hne e.symm), dir_pushDir_lt s _ d' hlt]

theorem materialize_onlyMat {P : Params} {s s1 : Store} {d : Nat} (he : materialize P s d = .ok s1) : OnlyMat s s1 := by
  unfold materialize at he
  split at he
  · cases he; exact OnlyMat.refl s
  · rename_i t hl
    split at he
    · cases he
    · split at he
      · rename_i s' hs'
        cases he
        have r := attachInitial_frame P d _ _ _ hs'
        refine ⟨by have := r.1; simpa using this, ?_⟩
        intro d' hd' hl'
        have hne : d' ≠ d := by intro e; subst e; rw [hl] at hl'; cases hl'
        rw [r.2 d' hne (by simpa using hd'), dir_modDir_ne s d d' _ (fun e => hne e.symm)]
      · cases he

/-- Closes `OnlyMat a b` from `materialize … = .ok …` hypotheses in the context. -/
macro "om_solve" : tactic =>
  `(tactic| first
    | exact OnlyMat.refl _
    | exact materialize_onlyMat (by assumption)
    | exact OnlyMat.trans (materialize_onlyMat (by assumption)) (materialize_onlyMat (by assumption))
    | exact OnlyMat.trans (materialize_onlyMat (by assumption))
        (OnlyMat.trans (materialize_onlyMat (by assumption)) (materialize_onlyMat (by assumption))))

macro "om_leaf" : tactic => `(tactic| first | (left; rfl) | (right; om_solve))

theorem vmkdir_fail (P : Params) (s : Store) (d n : Nat) :
    (vmkdir P s d n).2.status = .ok ∨ OnlyMat s (vmkdir P s d n).1 := by
  unfold vmkdir; repeat' (first | split | dsimp only)
  all_goals om_leaf

theorem vmknod_fail (P : Params) (s : Store) (d n k : Nat) :
    (vmknod P s d n k).2.status = .ok ∨ OnlyMat s (vmknod P s d n k).1 := by
  unfold vmknod; repeat' (first | split | dsimp only)
  all_goals om_leaf

theorem vopen_fail (P : Params) (s : Store) (d n : Nat) (c e : Bool) :
    (vopen P s d n c e).2.status = .ok ∨ OnlyMat s (vopen P s d n c e).1 := by
  unfold vopen; repeat' (first | split | dsimp only)
  all_goals om_leaf

theorem vlink_fail (P : Params) (s : Store) (d n l : Nat) :
    (vlink P s d n l).2.status = .ok ∨ OnlyMat s (vlink P s d n l).1 := by
  unfold vlink; repeat' (first | split | dsimp only)
  all_goals om_leaf

theorem vremove_fail (P : Params) (s : Store) (d n : Nat) (a b : Bool) :
    (vremove P s d n a b).2.status = .ok ∨ OnlyMat s (vremove P s d n a b).1 := by
  unfold vremove; repeat' (first | split | dsimp only)
  all_goals om_leaf

theorem vrename_fail (P : Params) (s : Store) (d1 n1 d2 n2 : Nat) :
    (vrename P s d1 n1 d2 n2).2.status = .ok ∨ OnlyMat s (vrename P s d1 n1 d2 n2).1 := by
  unfold vrename; repeat' (first | split | dsimp only)
  all_goals om_leaf

theorem removeAll_fail (P : Params) (s : Store) (d n : Nat) :
    (removeAll P s d n).2.status = .ok ∨ OnlyMat s (removeAll P s d n).1 := by
  unfold removeAll; repeat' (first | split | dsimp only)
  all_goals om_leaf

theorem createChildren_fail (P : Params) (s : Store) (d : Nat) (ow : Bool) (cs : List (Nat × TChild)) :
    (createChildren P s d ow cs).2.status = .ok ∨ OnlyMat s (createChildren P s d ow cs).1 := by
  unfold createChildren; repeat' (first | split | dsimp only)
  all_goals om_leaf

theorem createAndEnter_fail (P : Params) (s : Store) (d n : Nat) :
    (createAndEnter P s d n).2.status = .ok ∨ OnlyMat s (createAndEnter P s d n).1 := by
  unfold createAndEnter; repeat' (first | split | dsimp only)
  all_goals om_leaf

/-- Read-only operations. -/
def readOnly : Op → Bool
  | .lookup _ _ | .readdir _ _ _ | .getattr _ | .lookupChild _ _ | .lookupAll _ | .readDirB _
  | .filter _ _ | .installHooks _ => true
  | _ => false

theorem exec_readOnly (P : Params) (s : Store) (op : Op) (h : readOnly op = true) : OnlyMat s (exec P s op).1 := by
  cases op <;> simp [readOnly] at h
  case lookup d n => simp only [exec]; unfold vlookup; repeat' (first | split | dsimp only)
                     all_goals om_solve
  case readdir d c k => simp only [exec]; unfold vreaddir; repeat' (first | split | dsimp only)
                        all_goals om_solve
  case getattr d => exact OnlyMat.refl s
  case lookupChild d n => simp only [exec]; unfold lookupChild; repeat' (first | split | dsimp only)
                          all_goals om_solve
  case lookupAll d => simp only [exec]; unfold lookupAll; repeat' (first | split | dsimp only)
                      all_goals om_solve
  case readDirB d => simp only [exec]; unfold readDirB; repeat' (first | split | dsimp only)
                     all_goals om_solve
  case filter d k => exact OnlyMat.refl s
  case installHooks d => exact OnlyMat.refl s

theorem exec_fail (P : Params) (s : Store) (op : Op) :
    (exec P s op).2.status = .ok ∨ OnlyMat s (exec P s op).1 := by
  cases op with
  | mkdir d n => exact vmkdir_fail P s d n
  | mknod d n k => exact vmknod_fail P s d n k
  | openc d n c e => exact vopen_fail P s d n c e
  | link d n l => exact vlink_fail P s d n l
  | rename d1 n1 d2 n2 => exact vrename_fail P s d1 n1 d2 n2
  | vremove d n a b => exact vremove_fail P s d n a b
  | remove d n => exact vremove_fail P s d n true true
  | removeAll d n => exact removeAll_fail P s d n
  | removeAllChildren d b => exact Or.inl rfl
  | createChildren d ow cs => exact createChildren_fail P s d ow cs
  | createAndEnter d n => exact createAndEnter_fail P s d n
  | lookup d n => exact Or.inr (exec_readOnly P s _ rfl)
  | readdir d c k => exact Or.inr (exec_readOnly P s _ rfl)
  | getattr d => exact Or.inr (exec_readOnly P s _ rfl)
  | lookupChild d n => exact Or.inr (exec_readOnly P s _ rfl)
  | lookupAll d => exact Or.inr (exec_readOnly P s _ rfl)
  | readDirB d => exact Or.inr (exec_readOnly P s _ rfl)
  | filter d k => exact Or.inr (exec_readOnly P s _ rfl)
  | installHooks d => exact Or.inr (exec_readOnly P s _ rfl)
  | newRoot fs => exact Or.inl rfl
  | newLeaf k => exact Or.inl rfl
  | defTmpl cs => exact Or.inl rfl
  | setFetchFail b => exact Or.inl rfl
  | setAllocFail b => exact Or.inl rfl

theorem step_fail (P : Params) (s : Store) (op : Op) :
    (step P s op).2.status = .ok ∨ OnlyMat s (step P s op).1 := by
  unfold step
  split
  · exact exec_fail P s op
  · exact Or.inr (OnlyMat.refl s)

end BbRe.Lemmas.Dir
