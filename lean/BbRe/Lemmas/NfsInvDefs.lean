import BbRe.Model.NfsState
/-!
# Invariants of the core of `Model/NfsState.lean` (definitions)

The invariant is split into groups by the state components they talk about;
each group is proved preserved by every core action in its own file
(`NfsInvS.lean`, `NfsInvK.lean`, `NfsInvG.lean`, `NfsInvC.lean`, `NfsInvPLR.lean`).
Core Lean only.
-/
namespace BbRe.Lemmas.NfsInv
open BbRe.NfsState BbRe.NfsShare

/-! ## Counting functions -/

/-- Number of holders of access bit `bit` (`false` = read, `true` = write) on the
open-owner file `f`: the open itself, its lock-owner files, the in-flight I/O
requests that cloned a share reservation from it. -/
def holders (s : State) (f : OFile) (bit : Bool) : Nat :=
  (if f.share.get bit then 1 else 0) +
  f.lofs.countP (fun l => l.share.get bit) +
  s.ios.countP (fun io => io.sid == f.sid && io.share.get bit)

def evOpens (leaf : Nat) (bit : Bool) : Ev → Bool
  | .openEv l m _ _ => l == leaf && m.get bit
  | .closeEv _ _ => false

def evCloses (leaf : Nat) (bit : Bool) : Ev → Bool
  | .openEv _ _ _ _ => false
  | .closeEv l m => l == leaf && m.get bit

/-- `VirtualOpen…` calls for `bit` on `leaf` so far. -/
def opens (s : State) (leaf : Nat) (bit : Bool) : Nat := s.log.countP (evOpens leaf bit)
/-- `VirtualClose` calls for `bit` on `leaf` so far. -/
def closes (s : State) (leaf : Nat) (bit : Bool) : Nat := s.log.countP (evCloses leaf bit)

/-- open-owner file records (live, half-closed, or only referenced by I/O) that keep `bit` open on `leaf` -/
def heldFiles (s : State) (leaf : Nat) (bit : Bool) : Nat :=
  s.files.countP (fun f => f.file == leaf && decide (0 < f.count.get bit))
/-- pending `leavesToClose` entries -/
def heldPend (s : State) (leaf : Nat) (bit : Bool) : Nat :=
  s.pend.countP (fun p => p.2.1 == leaf && p.2.2.get bit)
/-- temporary opens (special-state-ID I/O, OPENs before their bookkeeping) -/
def heldTemps (s : State) (leaf : Nat) (bit : Bool) : Nat :=
  s.temps.countP (fun t => t.leaf == leaf && t.share.get bit)

/-- what the right-hand side of the ledger counts -/
def held (s : State) (leaf : Nat) (bit : Bool) : Nat :=
  heldFiles s leaf bit + heldPend s leaf bit + heldTemps s leaf bit

/-! ## Group S: structure of the file records, I/O clones and temporary opens -/

structure InvS (s : State) : Prop where
  sidNodup : (s.files.map (·.sid)).Nodup
  sidLt : ∀ f ∈ s.files, f.sid < s.nextId
  ioLt : ∀ io ∈ s.ios, io.sid < s.nextId
  ioTagNodup : (s.ios.map (·.tag)).Nodup
  tempTagNodup : (s.temps.map (·.tag)).Nodup
  lofsSidNodup : ∀ f ∈ s.files, (f.lofs.map (·.sid)).Nodup
  lofsSidLt : ∀ f ∈ s.files, ∀ l ∈ f.lofs, l.sid < s.nextId
  /-- a record that left the maps has no share reservation of its own and no lock-owner files -/
  deadClean : ∀ f ∈ s.files, f.live = false → f.share = Mask.none ∧ f.lofs = []
  /-- garbage is collected: a record that is not live is kept only while I/O refers to it -/
  deadUsed : ∀ f ∈ s.files, f.live = false → ∃ io ∈ s.ios, io.sid = f.sid

/-! ## Group K: `shareCount` = number of holders -/

structure InvK (s : State) : Prop where
  counts : ∀ f ∈ s.files, ∀ bit, f.count.get bit = holders s f bit

/-! ## Group G: the ledger -/

structure InvG (s : State) : Prop where
  /-- opens − closes = files holding the bit + pending closes + temporary opens -/
  ledger : ∀ leaf bit, opens s leaf bit = closes s leaf bit + held s leaf bit

/-! ## Group C: client records, hold counts, the idle list -/

/-- in-flight holders of client record `cl`: SEQUENCE compounds / 4.0 OPEN transactions, and 4.0 I/O -/
def holdsOf (s : State) (cl : Nat) : Nat :=
  s.holders.countP (fun h => h.cl == cl) + s.ios.countP (fun io => io.holds && io.cl == cl)

structure InvC (s : State) : Prop where
  clNodup : (s.clients.map (·.id)).Nodup
  clLt : ∀ c ∈ s.clients, c.id < s.nextId
  holderTagNodup : (s.holders.map (·.tag)).Nodup
  ioTagNodupC : (s.ios.map (·.tag)).Nodup
  /-- `holdCount` = number of requests in flight that hold the record -/
  holdCount : ∀ c ∈ s.clients, c.hold = holdsOf s c.id
  /-- every in-flight holder refers to an existing record -/
  holderCl : ∀ h ∈ s.holders, ∃ c ∈ s.clients, c.id = h.cl
  ioCl : ∀ io ∈ s.ios, io.holds = true → ∃ c ∈ s.clients, c.id = io.cl
  idleNodup : s.idle.Nodup
  /-- the idle list holds exactly the records with `holdCount = 0` -/
  idleIff : ∀ id, id ∈ s.idle ↔ ∃ c ∈ s.clients, c.id = id ∧ c.hold = 0

/-! ## Group P: the opened-files pool -/

def liveOn (s : State) (file : Nat) : Nat := s.files.countP (fun f => f.live && f.file == file)

structure InvP (s : State) : Prop where
  poolNodup : (s.pool.map (·.file)).Nodup
  /-- `useCount` = number of open-owner files (incl. half-closed 4.0 ones) on the handle, and positive -/
  poolCount : ∀ e ∈ s.pool, e.useCount = liveOn s e.file ∧ 0 < e.useCount
  /-- every live open-owner file has a pool entry: PUTFH resolves -/
  poolHas : ∀ f ∈ s.files, f.live = true → ∃ e ∈ s.pool, e.file = f.file

/-! ## Group L: lock-owner objects -/

structure InvL (s : State) : Prop where
  /-- at most one lock-owner object per (client record, owner) -/
  loKeyNodup : (s.lowners.map (fun l => (l.cl, l.key))).Nodup
  loIdNodup : (s.lowners.map (·.id)).Nodup
  loIdLt : ∀ l ∈ s.lowners, l.id < s.nextId
  /-- every lock-owner file belongs to a registered object of the file's client -/
  lofsRef : ∀ f ∈ s.files, ∀ l ∈ f.lofs, ∃ lo ∈ s.lowners, lo.id = l.lo ∧ lo.cl = f.cl
  /-- one lock-owner file per (open-owner file, lock-owner) -/
  lofsLoNodup : ∀ f ∈ s.files, (f.lofs.map (·.lo)).Nodup

/-! ## Group R: records refer to existing client records -/

structure InvR (s : State) : Prop where
  fileCl : ∀ f ∈ s.files, f.live = true → ∃ c ∈ s.clients, c.id = f.cl
  ooCl : ∀ o ∈ s.oowners, ∃ c ∈ s.clients, c.id = o.cl
  loCl : ∀ l ∈ s.lowners, ∃ c ∈ s.clients, c.id = l.cl

/-- The whole invariant. -/
structure Inv (st : State) : Prop where
  s : InvS st
  k : InvK st
  g : InvG st
  c : InvC st
  p : InvP st
  l : InvL st
  r : InvR st

end BbRe.Lemmas.NfsInv
