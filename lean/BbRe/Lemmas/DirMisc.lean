import BbRe.Lemmas.DirFail
/-!
`deleted_rejects` and the `ChangeInfo` values of the creating calls.
-/
namespace BbRe.Lemmas.Dir
open BbRe.Dir

/-- Operations that try to put a new entry into directory `d` (for rename: `d` is
the target directory and the source directory is already materialised, so that
no fetcher failure can pre-empt the answer). -/
def creatingIn (s : Store) (d : Nat) : Op → Bool
  | .mkdir d' _ => d' == d
  | .mknod d' _ _ => d' == d
  | .openc d' _ create _ => d' == d && create
  | .link d' _ _ => d' == d
  | .rename dOld _ d' _ => d' == d && (s.dir dOld).lazy.isNone
  | .createChildren d' _ _ => d' == d
  | .createAndEnter d' _ => d' == d
  | _ => false

theorem mayAttach_deleted {x : Dir} (h : x.deleted = true) (n : Nat) : x.mayAttach n = some .noent := by
  unfold Dir.mayAttach; simp [h]

theorem find?_nil {x : Dir} (h : x.entries = []) (n : Nat) : x.find? n = none := by
  unfold Dir.find?; simp [h]

theorem deleted_rejects_step (P : Params) (s : Store) (d : Nat) (op : Op) (h : Inv P s) (hd : d < s.dirs.length)
    (hdel : (s.dir d).deleted = true) (hop : creatingIn s d op = true) (hv : validOp s op = true) :
    (step P s op).2.status = .noent ∧ (step P s op).1.dir d = s.dir d := by
  have hdo := (h.dirOK d).del hdel
  have hmat := materialize_nonlazy P s d hdo.2
  have hma := fun n => mayAttach_deleted hdel n
  have hfn := fun n => find?_nil hdo.1 n
  unfold step
  rw [if_pos hv]
  cases op <;> simp [creatingIn] at hop
  case mkdir d' n => subst hop; simp [exec, vmkdir, hmat, hma, Out.fail]
  case mknod d' n k => subst hop; simp [exec, vmknod, hmat, hma, Out.fail]
  case openc d' n c e =>
    obtain ⟨rfl, rfl⟩ := hop
    simp [exec, vopen, hmat, hfn, hdel, Out.fail]
  case link d' n l => subst hop; simp [exec, vlink, hmat, hma, Out.fail]
  case createChildren d' ow cs => subst hop; simp [exec, createChildren, hmat, hdel, Out.fail]
  case createAndEnter d' n => subst hop; simp [exec, createAndEnter, hmat, hfn, hdel, Out.fail]
  case rename dOld n1 d' n2 =>
    obtain ⟨rfl, hlz⟩ := hop
    have hmatO := materialize_nonlazy P s dOld (by cases hx : (s.dir dOld).lazy <;> simp_all)
    simp [exec, vrename, hmat, hmatO, hfn, hdel, Out.fail]

theorem mayAttach_ne_ok {x : Dir} {n : Nat} {e : Status} (h : x.mayAttach n = some e) : e ≠ .ok := by
  unfold Dir.mayAttach at h
  split at h
  · cases h; intro hx; cases hx
  · split at h
    · cases h; intro hx; cases hx
    · cases h

theorem ci_create (P : Params) (s : Store) (op : Op) (d : Nat)
    (hop : (∃ n, op = .mkdir d n) ∨ (∃ n k, op = .mknod d n k) ∨ (∃ n, op = .openc d n true false) ∨ (∃ n l, op = .link d n l))
    (hmat : (s.dir d).lazy = none) (hok : (step P s op).2.status = .ok) :
    (step P s op).2.ci = [((s.dir d).changeID, ((step P s op).1.dir d).changeID)] ∧
    ((step P s op).1.dir d).changeID = (s.dir d).changeID + 1 := by
  have hm := materialize_nonlazy P s d hmat
  unfold step at hok ⊢
  by_cases hv : validOp s op = true
  · rw [if_pos hv] at hok ⊢
    rcases hop with ⟨n, rfl⟩ | ⟨n, k, rfl⟩ | ⟨n, rfl⟩ | ⟨n, l, rfl⟩
    · have hd : d < s.dirs.length := by simpa [validOp] using hv
      simp only [exec, vmkdir, hm] at hok ⊢
      cases hma : (s.dir d).mayAttach (P.normalize n) with
      | some e => simp [hma, Out.fail] at hok; exact absurd hok (mayAttach_ne_ok hma)
      | none =>
        simp only [hma]
        have hd' : d < (s.pushDir (newDirOf (s.dir d))).dirs.length := by simp; omega
        simp [dir_modDir_self _ d _ hd', dir_pushDir_lt s _ d hd]
    · have hd : d < s.dirs.length := by simpa [validOp] using hv
      simp only [exec, vmknod, hm] at hok ⊢
      cases hma : (s.dir d).mayAttach (P.normalize n) with
      | some e => simp [hma, Out.fail] at hok; exact absurd hok (mayAttach_ne_ok hma)
      | none =>
        simp only [hma] at hok ⊢
        by_cases hk : k = 1 ∨ k = 2 ∨ k = 3
        · rw [if_pos hk] at hok ⊢
          by_cases ha : k = 3 ∧ s.allocFail = true
          · rw [if_pos ha] at hok; simp [Out.fail] at hok
          · rw [if_neg ha]
            have hd' : d < (s.pushLeaf { kind := k, links := 1 }).dirs.length := by simpa using hd
            simp [dir_modDir_self _ d _ hd']
        · rw [if_neg hk] at hok; simp [Out.fail] at hok
    · have hd : d < s.dirs.length := by simpa [validOp] using hv
      simp only [exec, vopen, hm] at hok ⊢
      cases hf : (s.dir d).find? (P.normalize n) with
      | some e => simp [hf, Out.fail] at hok
      | none =>
        simp only [hf] at hok ⊢
        by_cases hdc : ((s.dir d).deleted || !true) = true
        · rw [if_pos hdc] at hok; simp [Out.fail] at hok
        · rw [if_neg hdc] at hok ⊢
          by_cases ha : s.allocFail = true
          · rw [if_pos ha] at hok; simp [Out.fail] at hok
          · rw [if_neg ha]
            have hd' : d < (s.pushLeaf { kind := 0, links := 1 }).dirs.length := by simpa using hd
            simp [dir_modDir_self _ d _ hd']
    · have hd : d < s.dirs.length := by
        have : d < s.dirs.length ∧ l < s.leaves.length := by simpa [validOp] using hv
        exact this.1
      simp only [exec, vlink, hm] at hok ⊢
      cases hma : (s.dir d).mayAttach (P.normalize n) with
      | some e => simp [hma, Out.fail] at hok; exact absurd hok (mayAttach_ne_ok hma)
      | none =>
        simp only [hma] at hok ⊢
        by_cases hl : (s.leaf l).links = 0
        · rw [if_pos hl] at hok; simp [Out.fail] at hok
        · rw [if_neg hl]
          have hd' : d < (s.link l).dirs.length := by simpa using hd
          simp [dir_modDir_self _ d _ hd']
  · rw [if_neg hv] at hok
    simp [Out.fail] at hok

/-! ### LookupAllChildren / ReadDir -/

theorem mem_insertReport {r x : Report} {l : List Report} : x ∈ insertReport r l ↔ x = r ∨ x ∈ l := by
  induction l with
  | nil => simp [insertReport]
  | cons y rest ih =>
    unfold insertReport
    split
    · simp
    · simp [ih]
      constructor
      · rintro (h | h | h) <;> simp [h]
      · rintro (h | h | h) <;> simp [h]

theorem mem_sortReports {x : Report} {l : List Report} : x ∈ sortReports l ↔ x ∈ l := by
  induction l with
  | nil => simp [sortReports]
  | cons y rest ih =>
    unfold sortReports
    rw [mem_insertReport, ih]
    simp

theorem length_insertReport (r : Report) (l : List Report) : (insertReport r l).length = l.length + 1 := by
  induction l with
  | nil => simp [insertReport]
  | cons y rest ih =>
    unfold insertReport
    split
    · simp
    · simp [ih]

theorem length_sortReports (l : List Report) : (sortReports l).length = l.length := by
  induction l with
  | nil => rfl
  | cons y rest ih => unfold sortReports; rw [length_insertReport, ih]; simp

/-- `LookupAllChildren` and `ReadDir` report exactly the entries that are not hidden
leaves, each once (name and child of the entry; cookie field 0). -/
theorem listing_calls_exact (P : Params) (s : Store) (d : Nat) (op : Op)
    (hop : op = .lookupAll d ∨ op = .readDirB d) (hok : (exec P s op).2.status = .ok) :
    (∀ r, r ∈ (exec P s op).2.reports ↔
        ∃ e ∈ ((exec P s op).1.dir d).entries, visible P e = true ∧ r = ⟨0, e.name, e.child⟩) ∧
    (exec P s op).2.reports.length = (((exec P s op).1.dir d).entries.filter (visible P)).length := by
  rcases hop with rfl | rfl
  · simp only [exec, lookupAll] at hok ⊢
    cases hm : materialize P s d with
    | error e => simp [hm, Out.fail] at hok; exact absurd hok (by
        have := hm; intro h'; subst h'
        unfold materialize at this
        split at this
        · cases this
        · split at this
          · cases this
          · split at this <;> cases this)
    | ok s1 =>
      simp only []
      refine ⟨?_, ?_⟩
      · intro r
        simp only [List.mem_append, mem_sortReports, List.mem_map, List.mem_filter, entryReport]
        constructor
        · rintro (⟨e, ⟨he, hv⟩, rfl⟩ | ⟨e, ⟨he, hv⟩, rfl⟩)
          · exact ⟨e, he, by simp [visible, hv], rfl⟩
          · refine ⟨e, he, ?_, rfl⟩
            simp at hv; simp [visible, hv.2]
        · rintro ⟨e, he, hv, rfl⟩
          cases hdir : e.child.isDir with
          | true => exact Or.inl ⟨e, ⟨he, hdir⟩, rfl⟩
          | false =>
            refine Or.inr ⟨e, ⟨he, ?_⟩, rfl⟩
            simp [visible, hdir] at hv
            simp [hdir, hv]
      · simp only [List.length_append, length_sortReports, List.length_map]
        generalize (s1.dir d).entries = es
        induction es with
        | nil => rfl
        | cons e rest ih =>
          simp only [List.filter_cons]
          cases hdir : e.child.isDir <;> cases hh : P.hidden e.name <;> simp [visible, hdir, hh] at ih ⊢ <;> omega
  · simp only [exec, readDirB] at hok ⊢
    cases hm : materialize P s d with
    | error e => simp [hm, Out.fail] at hok; exact absurd hok (by
        have := hm; intro h'; subst h'
        unfold materialize at this
        split at this
        · cases this
        · split at this
          · cases this
          · split at this <;> cases this)
    | ok s1 =>
      simp only []
      refine ⟨?_, by simp [length_sortReports]⟩
      intro r
      simp only [mem_sortReports, List.mem_map, List.mem_filter, entryReport]
      constructor
      · rintro ⟨e, ⟨he, hv⟩, rfl⟩; exact ⟨e, he, hv, rfl⟩
      · rintro ⟨e, he, hv, rfl⟩; exact ⟨e, ⟨he, hv⟩, rfl⟩

end BbRe.Lemmas.Dir
