/-
`DemultiplexingActionRouter` (Model/Trie.lean `Router`).
-/
import BbRe.Lemmas.TrieIndex
import BbRe.Lemmas.TrieKey
namespace BbRe.Lemmas.TrieRouter
open BbRe.Model.Trie BbRe.Lemmas.TrieTop BbRe.Lemmas.TrieLongest BbRe.Lemmas.TrieIndex
open BbRe.Spec.PrefixMap (Comp Plat Key)

/-- `regs` = the successful registrations (key, router id) in order. -/
structure RInv (r : Router) (dflt : Nat) (regs : List (Key × Nat)) : Prop where
  entries : r.entries = dflt :: regs.map Prod.snd
  inv : Inv ⟨regs.map Prod.fst, r.trie⟩

theorem rinv_new (dflt : Nat) : RInv (Router.new dflt) dflt [] :=
  ⟨rfl, inv_empty⟩

/-- one `RegisterActionRouter` call on the list of successful registrations. -/
def regStep (regs : List (Key × Nat)) (c : List Comp × List (Nat × Nat) × Nat) : List (Key × Nat) :=
  match newKey c.1 c.2.1 with
  | none => regs
  | some key => if key ∈ regs.map Prod.fst then regs else regs ++ [(key, c.2.2)]

/-- the status `RegisterActionRouter` must return. -/
def regStatus (regs : List (Key × Nat)) (c : List Comp × List (Nat × Nat) × Nat) : Status :=
  match newKey c.1 c.2.1 with
  | none => .invalidArgument
  | some key => if key ∈ regs.map Prod.fst then .alreadyExists else .ok

theorem rinv_register {r : Router} {dflt : Nat} {regs : List (Key × Nat)} (h : RInv r dflt regs)
    (c : List Comp × List (Nat × Nat) × Nat) :
    RInv (r.register c.1 c.2.1 c.2.2).1 dflt (regStep regs c) ∧
      (r.register c.1 c.2.1 c.2.2).2 = regStatus regs c := by
  unfold Router.register regStep regStatus
  cases newKey c.1 c.2.1 with
  | none => exact ⟨h, rfl⟩
  | some key =>
    simp only
    have hmem : key ∈ regs.map Prod.fst ↔ r.trie.containsExact key = true := by
      rw [containsExact_iff h.inv.wf]
      exact h.inv.mem_iff key
    by_cases hc : r.trie.containsExact key = true
    · rw [if_pos hc, if_pos (hmem.2 hc), if_pos (hmem.2 hc)]
      exact ⟨h, rfl⟩
    · have hnm : ¬ key ∈ regs.map Prod.fst := fun hh => hc (hmem.1 hh)
      rw [if_neg hc, if_neg hnm, if_neg hnm]
      refine ⟨⟨?_, ?_⟩, rfl⟩
      · simp only [h.entries, List.map_append, List.map_cons, List.map_nil, List.cons_append]
      · have hlt : tval r.trie key < 0 := by
          have : ¬ 0 ≤ tval r.trie key := fun hh => hc ((containsExact_iff h.inv.wf key).2 hh)
          omega
        have := inv_add h.inv key hlt
        simp only [PQIndex.addPlatformQueue] at this
        have hlen : ((r.entries.length : Int) - 1) = ((regs.map Prod.fst).length : Int) := by
          rw [h.entries]; simp
        rw [hlen]
        simpa using this

def runRegs (r : Router) (calls : List (List Comp × List (Nat × Nat) × Nat)) : Router :=
  calls.foldl (fun r c => (r.register c.1 c.2.1 c.2.2).1) r

def regsOf (regs : List (Key × Nat)) (calls : List (List Comp × List (Nat × Nat) × Nat)) :
    List (Key × Nat) := calls.foldl regStep regs

theorem rinv_run {r : Router} {dflt : Nat} {regs : List (Key × Nat)} (h : RInv r dflt regs)
    (calls : List (List Comp × List (Nat × Nat) × Nat)) :
    RInv (runRegs r calls) dflt (regsOf regs calls) := by
  induction calls generalizing r regs with
  | nil => exact h
  | cons c cs ih => exact ih (rinv_register h c).1

/-- `RouteAction`: the default router when no registered prefix matches. -/
theorem route_default {r : Router} {dflt : Nat} {regs : List (Key × Nat)} (h : RInv r dflt regs)
    {inst : List Comp} {props : List (Nat × Nat)} {key : Key} (hk : newKey inst props = some key)
    (hnone : ∀ e, e ∈ regs → ¬ (e.1.plat = key.plat ∧ e.1.inst <+: key.inst)) :
    r.route inst props = .to dflt inst := by
  unfold Router.route
  simp only [hk]
  have hneg : r.trie.getLongestPrefix key < 0 := by
    rw [glp_neg_iff]
    intro q hq
    by_cases hv : 0 ≤ tval r.trie ⟨q, key.plat⟩
    · exfalso
      have hm := h.inv.dom _ hv
      simp only [List.mem_map] at hm
      obtain ⟨e, he, hek⟩ := hm
      exact hnone e he (by rw [hek]; exact ⟨rfl, hq⟩)
    · omega
  have hge : -1 ≤ r.trie.getLongestPrefix key := glp_ge h.inv.wf key
  have : r.trie.getLongestPrefix key + 1 = 0 := by omega
  simp [this, h.entries]

/-- `RouteAction`: the router registered under the longest matching prefix. -/
theorem route_longest {r : Router} {dflt : Nat} {regs : List (Key × Nat)} (h : RInv r dflt regs)
    {inst : List Comp} {props : List (Nat × Nat)} {key : Key} (hk : newKey inst props = some key)
    {e : Key × Nat} (he : e ∈ regs) (hp : e.1.plat = key.plat) (hpre : e.1.inst <+: key.inst)
    (hmax : ∀ e', e' ∈ regs → e'.1.plat = key.plat → e'.1.inst <+: key.inst →
      e'.1.inst.length ≤ e.1.inst.length) :
    r.route inst props = .to e.2 inst := by
  obtain ⟨j, hj⟩ := List.mem_iff_getElem?.1 he
  have hjk : (regs.map Prod.fst)[j]? = some e.1 := by simp [hj]
  have hjv := h.inv.idx j e.1 hjk
  have hek : (⟨e.1.inst, key.plat⟩ : Key) = e.1 := by rw [← hp]
  have hglp : r.trie.getLongestPrefix key = (j : Int) := by
    rw [glp_nonneg_iff _ _ _ (by omega)]
    refine ⟨e.1.inst, hpre, by rw [hek]; exact hjv, ?_⟩
    intro q' hq' hl
    by_cases hv : 0 ≤ tval r.trie ⟨q', key.plat⟩
    · exfalso
      have hm := h.inv.dom _ hv
      simp only [List.mem_map] at hm
      obtain ⟨e', he', hek'⟩ := hm
      have := hmax e' he' (by rw [hek']) (by rw [hek']; exact hq')
      rw [hek'] at this
      simp only at this
      omega
    · omega
  unfold Router.route
  simp only [hk, hglp]
  have hnn : ¬ ((j : Int) + 1 < 0) := by omega
  have htn : ((j : Int) + 1).toNat = j + 1 := by omega
  simp only [hnn, if_false, htn, h.entries, List.getElem?_cons_succ, List.getElem?_map, hj, Option.map_some]

/-- the extraction error of the key extractor is passed on. -/
theorem route_extract_failed (r : Router) {inst : List Comp} {props : List (Nat × Nat)}
    (hk : newKey inst props = none) : r.route inst props = .extractFailed := by
  unfold Router.route; simp only [hk]

end BbRe.Lemmas.TrieRouter
