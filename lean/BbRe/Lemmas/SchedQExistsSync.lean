import BbRe.Lemmas.SchedQExistsStreams
/-!
`QExists` across the worker-side segments (`Synchronize` and its wake-ups), `register`, and hence
every `step`; `QExists` holds in every reachable state.
-/
namespace BbRe.Lemmas.SchedQ
open BbRe.Sched BbRe.Lemmas.SchedInv

variable {ne : Prop}

/-! ## `assignNextQueuedTask`, `getNextTask`, `getCurrentOrNextTask` -/

theorem mem_queuedTasks {s : State} {q : ScqId} {t : Task} (h : t ∈ queuedTasks s q) :
    (∃ p ∈ s.tasks, p.2 = t) ∧ t.scq = q := by
  unfold queuedTasks at h
  obtain ⟨p, hp, he⟩ := List.mem_map.mp h
  obtain ⟨hp1, hp2⟩ := List.mem_filter.mp hp
  simp only [decide_eq_true_eq] at hp2
  exact ⟨⟨p, hp1, he⟩, by rw [← he]; exact hp2.1⟩

theorem assignNext_q {h : Hints} {s : State} {wk : Worker} (hq : QExists ne s) (hwk : wk ∈ s.workers) :
    wpR ne (assignNext h s wk) (fun r => QP ne s r.1) := by
  unfold assignNext
  split
  · split
    · rename_i t hfind
      obtain ⟨⟨p, hp, hpe⟩, hscq⟩ := mem_queuedTasks (List.mem_of_find?_eq_some hfind)
      have hok : TaskOK s t := by rw [← hpe]; exact hq.tq p hp
      rw [assignTo_eq]
      split
      · noterr
      · split
        · noterr
        · simp only [ok_bind']
          have h1 := assignSt_q hq (w := wk) (t := t) ⟨wk, hwk, rfl⟩ hok hscq.symm
          simp only [task?_def]
          cases ht : alookup t.id (assignSt s wk t).tasks with
          | none => noterr
          | some t2 =>
            simp only [wpR_pure]
            have hok2 := taskOK_of_lookup h1.1 ht
            exact h1.trans (h1.1.setTask (bumpGen t2) (fun hr => hok2 hr))
    · noterr
  · split
    · simp only [wpR_pure]; exact ⟨hq, QFr.refl s⟩
    · noterr

theorem execResponse_q {s : State} {w : Worker} (hq : QExists ne s) : wpR ne (execResponse s w) (QP ne s) := by
  unfold execResponse
  cases hw : w.task with
  | none => noterr
  | some tid =>
    simp only [task?_def]
    cases ht : alookup tid s.tasks with
    | none => noterr
    | some t => simp only [wpR_pure]; exact hq.emit _

theorem syncReturn_q {s : State} (hq : QExists ne s) (q : ScqId) (w : WId) : QP ne s (syncReturn s q w) := by
  unfold syncReturn
  simp only [worker?_def]
  split
  · rename_i wk hwk
    have h1 := hq.setWorker { wk with inSync := false, parked := false, woken := false, drainWait := none, timer := none }
      ⟨wk, wfind_mem hwk, rfl⟩
    exact h1.trans (h1.1.addCleanup _ _ (by intro q'; simp))
  · exact ⟨hq, QFr.refl s⟩

theorem syncReturn_emit_q {s : State} (hq : QExists ne s) (e : Event) (q : ScqId) (w : WId) :
    QP ne s (syncReturn (emit s e) q w) :=
  (hq.emit e).trans (syncReturn_q (hq.emit e).1 q w)

theorem getNextTask_q {h : Hints} {s : State} {q : ScqId} {w : WId} {pi block : Bool} (hq : QExists ne s) :
    wpR ne (getNextTask h s q w pi block) (QP ne s) := by
  unfold getNextTask
  simp only [worker?_def]
  cases hw : wfind s.workers q w with
  | none => noterr
  | some wk =>
    have hs : HasScq s q := by
      have := hq.wq wk (wfind_mem hw); rw [(wfind_key hw).1] at this; exact this
    obtain ⟨sq, hsq⟩ := (hasScq_iff s q).mp hs
    simp only [hsq]
    split
    · simp only [wpR_pure]; exact syncReturn_emit_q hq _ q w
    · split
      · apply wpR_bind
        refine wpR_mono (assignNext_q hq (wfind_mem hw)) ?_
        rintro ⟨s2, got⟩ h2
        simp only at h2
        dsimp only
        split
        · cases hw2 : wfind s2.workers q w with
          | none => simp only [hw2]; noterr
          | some wk2 =>
            simp only [hw2]
            apply wpR_bind
            refine wpR_mono (execResponse_q h2.1) ?_
            intro s3 h3
            simp only [wpR_pure]
            exact (h2.trans h3).trans (syncReturn_q h3.1 q w)
        · split
          · simp only [wpR_pure]; exact h2.trans (syncReturn_emit_q h2.1 _ q w)
          · cases hw2 : wfind s2.workers q w with
            | none => simp only [hw2]; noterr
            | some wk2 =>
              simp only [hw2]
              split
              · noterr
              · simp only [wpR_pure]
                exact h2.trans (h2.1.setWorker _ ⟨wk2, wfind_mem hw2, rfl⟩)
      · split
        · simp only [wpR_pure]; exact syncReturn_emit_q hq _ q w
        · simp only [wpR_pure]
          exact hq.setWorker _ ⟨wk, wfind_mem hw, rfl⟩

theorem getCurrentOrNext_q {h : Hints} {s : State} {q : ScqId} {w : WId} {pi block : Bool} (hq : QExists ne s) :
    wpR ne (getCurrentOrNext h s q w pi block) (QP ne s) := by
  unfold getCurrentOrNext
  simp only [worker?_def]
  cases hw : wfind s.workers q w with
  | none => noterr
  | some wk =>
    simp only []
    split
    · rename_i tid _
      simp only [task?_def]
      cases ht : alookup tid s.tasks with
      | none => noterr
      | some t =>
        simp only []
        split
        · simp only [wpR_pure]
          have hok := taskOK_of_lookup hq ht
          have h1 := hq.setTask { t with retry := t.retry + 1 } (fun hr => hok hr)
          exact h1.trans (syncReturn_emit_q h1.1 _ q w)
        · apply wpR_bind
          refine wpR_mono (complete_q hq) ?_
          intro s2 h2
          exact wpR_mono (getNextTask_q h2.1) (fun s' hp => h2.trans hp)
    · exact getNextTask_q hq

/-! ## the registry: `register`, `Synchronize`'s find-or-create -/

theorem QExists.grow {s s' : State} (hq : QExists ne s) (h1 : s'.tasks = s.tasks) (h2 : s'.workers = s.workers)
    (h5 : s'.cleanup = s.cleanup) (hsub : ∀ x ∈ scqIds s, x ∈ scqIds s') (hqp : ∀ x ∈ scqIds s', HasPq s' x.pq)
    (hpn : ne → ∀ p ∈ pqIds s', ∃ x ∈ scqIds s', x.pq = p) : QExists ne s' := by
  refine ⟨?_, ?_, hqp, ?_, ?_, hpn⟩
  · intro p hp hr
    rw [h1] at hp
    obtain ⟨a, b⟩ := hq.tq p hp hr
    exact ⟨hsub _ a, b⟩
  · intro wk hwk; rw [h2] at hwk; exact hsub _ (hq.wq wk hwk)
  · intro e he q hk
    rw [h5] at he
    obtain ⟨a, b⟩ := hq.cq e he q hk
    exact ⟨hsub _ a, by rw [h2]; exact b⟩
  · rw [h5]; exact hq.cu

theorem registerPQ_q {s : State} (hq : QExists ne s) (id : Nat) (comps : List Nat) (platform : Nat) (sizes : List Nat)
    (bgMax : Nat) (bgPrio : Int) (hsz : ne → sizes ≠ []) :
    QExists ne (registerPQ s id comps platform sizes bgMax bgPrio) := by
  have hS : ∀ x, x ∈ scqIds (registerPQ s id comps platform sizes bgMax bgPrio) ↔
      x ∈ scqIds s ∨ ∃ sc ∈ sizes, x = ⟨id, sc⟩ := by
    intro x
    simp only [scqIds, registerPQ, List.map_append, List.mem_append, List.map_map, List.mem_map, Function.comp]
    constructor
    · rintro (a | ⟨sc, b, c⟩)
      · exact Or.inl a
      · exact Or.inr ⟨sc, b, c.symm⟩
    · rintro (a | ⟨sc, b, c⟩)
      · exact Or.inl a
      · exact Or.inr ⟨sc, b, c.symm⟩
  have hP : ∀ p, p ∈ pqIds (registerPQ s id comps platform sizes bgMax bgPrio) ↔ p ∈ pqIds s ∨ p = id := by
    intro p
    simp only [pqIds, registerPQ, List.map_append, List.mem_append, List.map_cons, List.map_nil, List.mem_singleton]
  refine hq.grow rfl rfl rfl (fun x hx => (hS x).mpr (Or.inl hx)) ?_ ?_
  · intro x hx
    rcases (hS x).mp hx with a | ⟨sc, _, c⟩
    · exact (hP _).mpr (Or.inl (hq.qp x a))
    · exact (hP _).mpr (Or.inr (by rw [c]))
  · intro hne p hp
    rcases (hP p).mp hp with a | a
    · obtain ⟨x, hx, hxe⟩ := hq.pn hne p a
      exact ⟨x, (hS x).mpr (Or.inl hx), hxe⟩
    · obtain ⟨sc, r, hsz'⟩ := List.exists_cons_of_ne_nil (hsz hne)
      exact ⟨⟨id, sc⟩, (hS _).mpr (Or.inr ⟨sc, by rw [hsz']; exact List.mem_cons_self, rfl⟩), a.symm⟩

theorem scqIds_snoc (s s' : State) {nq : Scq} (e : s'.scqs = s.scqs ++ [nq]) {q : ScqId} (hq : nq.id = q) :
    ∀ x, x ∈ scqIds s' ↔ x ∈ scqIds s ∨ x = q := by
  intro x; simp [scqIds, e, hq]

theorem pqIds_snoc (s s' : State) {np : PQ} (e : s'.pqs = s.pqs ++ [np]) {p : Nat} (hp : np.id = p) :
    ∀ x, x ∈ pqIds s' ↔ x ∈ pqIds s ∨ x = p := by
  intro x; simp [pqIds, e, hp]

theorem addScq_q {s : State} (hq : QExists ne s) (s' : State) (e1 : s'.tasks = s.tasks) (e2 : s'.workers = s.workers)
    (e5 : s'.cleanup = s.cleanup) {nq : Scq} (e3 : s'.scqs = s.scqs ++ [nq]) {q : ScqId} (hid : nq.id = q)
    (e4 : (s'.pqs = s.pqs ∧ HasPq s q.pq) ∨ ∃ np : PQ, s'.pqs = s.pqs ++ [np] ∧ np.id = q.pq) :
    QExists ne s' ∧ HasScq s' q := by
  have hS := scqIds_snoc s s' e3 hid
  have hP : ∀ p, p ∈ pqIds s → p ∈ pqIds s' := by
    intro p hp
    rcases e4 with ⟨a, _⟩ | ⟨np, a, b⟩
    · unfold pqIds; rw [a]; exact hp
    · exact (pqIds_snoc s s' a b p).mpr (Or.inl hp)
  have hPq : q.pq ∈ pqIds s' := by
    rcases e4 with ⟨a, b⟩ | ⟨np, a, b⟩
    · unfold pqIds; rw [a]; exact b
    · exact (pqIds_snoc s s' a b _).mpr (Or.inr rfl)
  refine ⟨hq.grow e1 e2 e5 (fun x hx => (hS x).mpr (Or.inl hx)) ?_ ?_, (hS q).mpr (Or.inr rfl)⟩
  · intro x hx
    rcases (hS x).mp hx with a | a
    · exact hP _ (hq.qp x a)
    · rw [a]; exact hPq
  · intro hne p hp
    have hp' : p ∈ pqIds s ∨ p = q.pq := by
      rcases e4 with ⟨a, _⟩ | ⟨np, a, b⟩
      · left; unfold pqIds at hp ⊢; rw [a] at hp; exact hp
      · exact (pqIds_snoc s s' a b p).mp hp
    rcases hp' with a | a
    · obtain ⟨x, hx, hxe⟩ := hq.pn hne p a
      exact ⟨x, (hS x).mpr (Or.inl hx), hxe⟩
    · exact ⟨q, (hS q).mpr (Or.inr rfl), a.symm⟩

/-- post-condition of `syncQueue`: after `inr` the queue exists and no removal of it is pending -/
def SQPost (ne : Prop) (q : ScqId) : State ⊕ State → Prop
  | .inl s' => QExists ne s'
  | .inr s' => QExists ne s' ∧ HasScq s' q ∧ ∀ e ∈ s'.cleanup, e.kind ≠ .scq q

theorem syncQueue_q {s : State} {q : ScqId} {comps : List Nat} {platform : Nat} {w : WId} (hq : QExists ne s) :
    wpR ne (syncQueue s q comps platform w) (SQPost ne q) := by
  unfold syncQueue
  cases hsq : s.scq? q with
  | some sq =>
    simp only [wpR_pure, SQPost]
    have h1 := hq.removeCleanup (.scq q)
    refine ⟨h1.1, (h1.2.hasScq q).mpr ((hasScq_iff s q).mpr ⟨sq, hsq⟩), ?_⟩
    intro e he hk
    have := (List.mem_filter.mp he).2
    simp [hk] at this
  | none =>
    have hnq : ¬ HasScq s q := by
      intro hh; obtain ⟨sq, h'⟩ := (hasScq_iff s q).mp hh; rw [hsq] at h'; cases h'
    have hnc : ∀ e ∈ s.cleanup, e.kind ≠ .scq q := fun e he hk => hnq (hq.cq e he q hk).1
    simp only []
    cases hpq : s.pq? q.pq with
    | some pq =>
      simp only []
      have hpm : HasPq s q.pq := (hasPq_iff s q.pq).mpr ⟨pq, hpq⟩
      cases hgl : (s.sizes q.pq).getLast? with
      | none =>
        simp only []
        simp only [wpR_throw, BadErr, routingErrors, sizelessError]
        rintro (hbad | ⟨hne, _⟩)
        · simp at hbad
        · obtain ⟨x, hx, hxe⟩ := hq.pn hne q.pq hpm
          have : x.sc ∈ s.sizes q.pq := by rw [← hxe]; exact (mem_sizes s x.pq x.sc).mpr hx
          rw [List.getLast?_eq_none_iff] at hgl
          rw [hgl] at this; cases this
      | some maxSc =>
        simp only []
        have hmax : HasScq s ⟨q.pq, maxSc⟩ := (mem_sizes s q.pq maxSc).mp (List.mem_of_getLast? hgl)
        obtain ⟨maxQ, hmq⟩ := (hasScq_iff s _).mp hmax
        simp only [hmq]
        split
        · simp only [wpR_pure, SQPost]; exact (hq.emit _).1
        · split
          · simp only [wpR_pure, SQPost]; exact (hq.emit _).1
          · split
            · simp only [wpR_pure, SQPost]; exact (hq.emit _).1
            · simp only [wpR_pure, SQPost]
              exact And.imp_right (fun hh => ⟨hh, hnc⟩)
                (addScq_q hq _ (by rfl) (by rfl) (by rfl) (by rfl) (by rfl) (Or.inl ⟨by rfl, hpm⟩))
    | none =>
      simp only [wpR_pure, SQPost]
      exact And.imp_right (fun hh => ⟨hh, hnc⟩)
        (addScq_q hq _ (by rfl) (by rfl) (by rfl) (by rfl) (by rfl) (Or.inr ⟨_, by rfl, by rfl⟩))

theorem syncWorker_q {s : State} {q : ScqId} {w : WId} (hq : QExists ne s) (hs : HasScq s q)
    (hnc : ∀ e ∈ s.cleanup, e.kind ≠ .scq q) (s' : State)
    (h : syncWorker s q w = .inl s' ∨ syncWorker s q w = .inr s') : QExists ne s' := by
  unfold syncWorker at h
  simp only [worker?_def] at h
  cases hw : wfind s.workers q w with
  | some wk =>
    rw [hw] at h
    simp only [] at h
    split at h
    · rcases h with e | e
      · cases e; exact (hq.emit _).1
      · cases e
    · rcases h with e | e
      · cases e
      · cases e
        have h1 := hq.removeCleanup (.worker q w)
        exact (h1.1.setWorker { wk with inSync := true } ⟨wk, wfind_mem hw, rfl⟩).1
  | none =>
    rw [hw] at h
    simp only [] at h
    rcases h with e | e
    · cases e
    · cases e
      refine ⟨hq.tq, ?_, hq.qp, ?_, hq.cu, hq.pn⟩
      · intro wk hwk
        rcases List.mem_append.mp hwk with a | a
        · exact hq.wq wk a
        · simp only [List.mem_singleton] at a; rw [a]; exact hs
      · intro e he q' hk
        refine ⟨(hq.cq e he q' hk).1, ?_⟩
        intro wk hwk
        rcases List.mem_append.mp hwk with a | a
        · exact (hq.cq e he q' hk).2 wk a
        · simp only [List.mem_singleton] at a
          rw [a]
          intro e'; simp only at e'; subst e'; exact hnc e he hk

/-! ## `Synchronize` and its wake-ups -/

theorem syncArrive_q {h : Hints} {s : State} {now : Nat} {q : ScqId} {comps : List Nat} {platform : Nat}
    {w : WId} {rep : Report} {pi : Bool} (hq : QExists ne s) (hI : Inv s) :
    wpR ne (syncArrive h s now q comps platform w rep pi) (QExists ne) := by
  unfold syncArrive
  apply wpR_bind
  refine wpR_mono (enter_q hq hI) ?_
  intro s1 ⟨h1, _⟩
  apply wpR_bind
  refine wpR_mono (syncQueue_q h1) ?_
  intro r hr
  cases r with
  | inl s2 => simp only [wpR_pure]; exact hr
  | inr s2 =>
    obtain ⟨h2, hs2, hnc2⟩ := hr
    have hsw := syncWorker_q (w := w) h2 hs2 hnc2
    simp only []
    cases hsw' : syncWorker s2 q w with
    | inl s3 => simp only [wpR_pure]; exact hsw s3 (Or.inl hsw')
    | inr s3 =>
      have h3 := hsw s3 (Or.inr hsw')
      simp only [worker?_def]
      cases hw : wfind s3.workers q w with
      | none => noterr
      | some wk =>
        simp only []
        repeat' split
        all_goals first
          | noterr
          | (simp only [wpR_pure]; exact (syncReturn_emit_q h3 _ q w).1)
          | exact wpR_mono (getCurrentOrNext_q h3) (fun s' hp => hp.1)
          | (apply wpR_bind
             refine wpR_mono (complete_q h3) ?_
             intro s4 h4
             exact wpR_mono (getNextTask_q h4.1) (fun s' hp => hp.1))

theorem syncWake_q {h : Hints} {s : State} {now : Nat} {q : ScqId} {w : WId} {reason : Nat}
    (hq : QExists ne s) (hI : Inv s) : wpR ne (syncWake h s now q w reason) (QExists ne) := by
  unfold syncWake
  apply wpR_bind
  refine wpR_mono (enter_q hq hI) ?_
  intro s1 ⟨h1, _⟩
  simp only [worker?_def]
  cases hw : wfind s1.workers q w with
  | none => noterr
  | some wk =>
    simp only []
    have hwm := wfind_mem hw
    have hs : HasScq s1 q := by
      have := h1.wq wk hwm; rw [(wfind_key hw).1] at this; exact this
    split
    · noterr
    · split
      · -- timeout
        have h2 := h1.setWorker { wk with parked := false, woken := false, drainWait := none } ⟨wk, hwm, rfl⟩
        split
        · apply wpR_bind
          refine wpR_mono (execResponse_q h2.1) ?_
          intro s3 h3
          simp only [wpR_pure]; exact (syncReturn_q h3.1 q w).1
        · simp only [wpR_pure]; exact (syncReturn_emit_q h2.1 _ q w).1
      · have h2 := h1.setWorker { wk with parked := false, woken := false, drainWait := none } ⟨wk, hwm, rfl⟩
        simp only [wpR_pure]; exact (syncReturn_emit_q h2.1 _ q w).1
      · split
        · noterr
        · have h2 := h1.setWorker { wk with woken := false } ⟨wk, hwm, rfl⟩
          split
          · apply wpR_bind
            refine wpR_mono (execResponse_q h2.1) ?_
            intro s3 h3
            simp only [wpR_pure]; exact (syncReturn_q h3.1 q w).1
          · exact wpR_mono (getNextTask_q h2.1) (fun s' hp => hp.1)
      · obtain ⟨sq, hsq⟩ := (hasScq_iff s1 q).mp hs
        simp only [hsq]
        split
        · split
          · noterr
          · have h2 := h1.setWorker { wk with drainWait := none } ⟨wk, hwm, rfl⟩
            exact wpR_mono (getNextTask_q h2.1) (fun s' hp => hp.1)
        · noterr
      · noterr

/-! ## every segment -/

/-- the `register` segments the Go code accepts as far as this invariant is concerned:
`RegisterPredeclaredPlatformQueue` rejects an empty list of size classes -/
def SegValid : Seg → Prop
  | .register _ _ _ sizes _ _ => sizes ≠ []
  | _ => True

theorem step_q {s : State} (g : Seg) (hq : QExists ne s) (hI : Inv s) (hv : ne → SegValid g) :
    wpR ne (step s g) (QExists ne) := by
  cases g with
  | register id comps platform sizes bgMax bgPrio =>
    exact registerPQ_q hq id comps platform sizes bgMax bgPrio hv
  | exec => exact execArrive_q hq hI
  | wait => exact waitArrive_q hq hI
  | streamWake => exact streamWake_q hq hI
  | sync => exact syncArrive_q hq hI
  | syncWake => exact syncWake_q hq hI
  | killOp => exact killOp_q hq hI
  | killQueue => exact killQueue_q hq hI
  | addDrain => exact addDrain_q hq hI
  | removeDrain => exact removeDrain_q hq hI
  | terminate => exact terminate_q hq hI
  | termWake => exact termWake_q hq
  | touch => exact wpR_mono (enter_q hq hI) (fun s' hp => hp.1)

theorem qexists_init (ne : Prop) (cfg : Cfg) : QExists ne (State.init cfg) := by
  refine ⟨?_, ?_, ?_, ?_, ?_, ?_⟩ <;> simp [State.init, scqIds, pqIds]

/-- `QExists False` (all clauses but "every platform queue has a size class") in every reachable state -/
theorem qexists_reachable {s : State} (hr : Reachable s) : QExists False s := by
  induction hr with
  | init cfg => exact qexists_init False cfg
  | step g hr hs ih => exact wpR_of_ok (step_q g ih (inv_reachable hr) (fun hf => hf.elim)) hs

/-- reachable through segments whose `register` inputs the Go code accepts -/
inductive ReachableV : State → Prop
  | init (cfg : Cfg) : ReachableV (State.init cfg)
  | step {s s' : State} (g : Seg) : ReachableV s → SegValid g → step s g = .ok s' → ReachableV s'

theorem ReachableV.reachable {s : State} (h : ReachableV s) : Reachable s := by
  induction h with
  | init cfg => exact Reachable.init cfg
  | step g _ _ hs ih => exact Reachable.step g ih hs

theorem qexists_reachableV {s : State} (hr : ReachableV s) : QExists True s := by
  induction hr with
  | init cfg => exact qexists_init True cfg
  | step g hr hv hs ih => exact wpR_of_ok (step_q g ih (inv_reachable hr.reachable) (fun _ => hv)) hs

theorem reachableV_run {s : State} (hs : ReachableV s) (gs : List Seg) (hv : ∀ g ∈ gs, SegValid g) :
    ReachableV (run s gs) := by
  induction gs generalizing s with
  | nil => exact hs
  | cons g rest ih =>
    unfold run
    split
    · rename_i s' h
      exact ih (ReachableV.step g hs (hv g List.mem_cons_self) h) (fun g' hg' => hv g' (List.mem_cons_of_mem _ hg'))
    · exact ih hs (fun g' hg' => hv g' (List.mem_cons_of_mem _ hg'))

/-- only segments that can fail matter for the error theorems, and `register` never fails -/
theorem segValid_of_error {s : State} {g : Seg} {e : String} (h : step s g = .error e) : SegValid g := by
  cases g with
  | register => cases h
  | _ => trivial

end BbRe.Lemmas.SchedQ
