/-
What `GetLongestPrefix` returns, stated on the abstraction `tval` alone.
-/
import BbRe.Lemmas.TrieTop
namespace BbRe.Lemmas.TrieLongest
open BbRe.Model.Trie BbRe.Lemmas.TrieNode BbRe.Lemmas.TrieTop
open BbRe.Spec.PrefixMap (Comp Plat Key)

theorem prefix_cons_iff {c : Comp} {cs q : List Comp} :
    q <+: c :: cs ↔ q = [] ∨ ∃ q', q = c :: q' ∧ q' <+: cs := by
  cases q with
  | nil => simp
  | cons d ds =>
    simp only [List.cons_prefix_cons, reduceCtorEq, List.cons.injEq, false_or]
    constructor
    · rintro ⟨rfl, h⟩; exact ⟨ds, ⟨rfl, rfl⟩, h⟩
    · rintro ⟨q', ⟨rfl, rfl⟩, h⟩; exact ⟨rfl, h⟩

theorem lpV_neg_iff (f : List Comp → Int) (pre rest : List Comp) :
    lpV f pre rest < 0 ↔ ∀ q, q <+: rest → f (pre ++ q) < 0 := by
  induction rest generalizing pre with
  | nil =>
    rw [lpV_nil]
    constructor
    · intro h q hq; rw [List.prefix_nil.1 hq]; simpa using h
    · intro h; simpa using h [] (List.prefix_refl _)
  | cons c cs ih =>
    rw [lpV_cons]
    constructor
    · intro h q hq
      by_cases hr : lpV f (pre ++ [c]) cs ≥ 0
      · rw [if_pos hr] at h; omega
      · rw [if_neg hr] at h
        rcases prefix_cons_iff.1 hq with rfl | ⟨q', rfl, hq'⟩
        · simpa using h
        · have := (ih (pre ++ [c])).1 (by omega) q' hq'
          simpa [List.append_assoc] using this
    · intro h
      have hr : lpV f (pre ++ [c]) cs < 0 := by
        rw [ih]; intro q hq
        have := h (c :: q) (List.cons_prefix_cons.2 ⟨rfl, hq⟩)
        simpa [List.append_assoc] using this
      rw [if_neg (by omega)]
      simpa using h [] List.nil_prefix

theorem lpV_nonneg_iff (f : List Comp → Int) (pre rest : List Comp) (v : Int) (hv : 0 ≤ v) :
    lpV f pre rest = v ↔
      ∃ q, q <+: rest ∧ f (pre ++ q) = v ∧
        ∀ q', q' <+: rest → q.length < q'.length → f (pre ++ q') < 0 := by
  induction rest generalizing pre with
  | nil =>
    rw [lpV_nil]
    constructor
    · intro h
      refine ⟨[], List.prefix_refl _, by simpa using h, ?_⟩
      intro q' hq' hl; rw [List.prefix_nil.1 hq'] at hl; simp at hl
    · rintro ⟨q, hq, hf, _⟩
      rw [List.prefix_nil.1 hq] at hf; simpa using hf
  | cons c cs ih =>
    rw [lpV_cons]
    by_cases hr : lpV f (pre ++ [c]) cs ≥ 0
    · rw [if_pos hr]
      have hex : ¬ ∀ q, q <+: cs → f (pre ++ [c] ++ q) < 0 := by
        rw [← lpV_neg_iff]; omega
      constructor
      · intro h
        obtain ⟨q, hq, hf, hmax⟩ := (ih (pre ++ [c])).1 h
        refine ⟨c :: q, List.cons_prefix_cons.2 ⟨rfl, hq⟩, by simpa [List.append_assoc] using hf, ?_⟩
        intro q' hq' hl
        rcases prefix_cons_iff.1 hq' with rfl | ⟨q'', rfl, hq''⟩
        · simp at hl
        · have := hmax q'' hq'' (by simpa using hl)
          simpa [List.append_assoc] using this
      · rintro ⟨q, hq, hf, hmax⟩
        rcases prefix_cons_iff.1 hq with rfl | ⟨q', rfl, hq'⟩
        · exfalso
          apply hex
          intro q'' hq''
          have := hmax (c :: q'') (List.cons_prefix_cons.2 ⟨rfl, hq''⟩) (by simp)
          simpa [List.append_assoc] using this
        · rw [ih]
          refine ⟨q', hq', by simpa [List.append_assoc] using hf, ?_⟩
          intro q'' hq'' hl
          have := hmax (c :: q'') (List.cons_prefix_cons.2 ⟨rfl, hq''⟩) (by simpa using hl)
          simpa [List.append_assoc] using this
    · rw [if_neg hr]
      have hall := (lpV_neg_iff f (pre ++ [c]) cs).1 (by omega)
      constructor
      · intro h
        refine ⟨[], List.nil_prefix, by simpa using h, ?_⟩
        intro q' hq' hl
        rcases prefix_cons_iff.1 hq' with rfl | ⟨q'', rfl, hq''⟩
        · simp at hl
        · have := hall q'' hq''
          simpa [List.append_assoc] using this
      · rintro ⟨q, hq, hf, _⟩
        rcases prefix_cons_iff.1 hq with rfl | ⟨q', rfl, hq'⟩
        · simpa using hf
        · have := hall q' hq'
          simp only [List.append_assoc, List.cons_append, List.nil_append] at this
          omega

/-- `GetLongestPrefix` finds nothing iff no prefix of the instance name is registered for the
platform. -/
theorem glp_neg_iff (t : Trie) (k : Key) :
    t.getLongestPrefix k < 0 ↔ ∀ q, q <+: k.inst → tval t ⟨q, k.plat⟩ < 0 := by
  rw [TrieTop.getLongestPrefix_eq, lpV_neg_iff]
  simp

/-- `GetLongestPrefix` returns `v ≥ 0` iff `v` is the value of the longest registered prefix. -/
theorem glp_nonneg_iff (t : Trie) (k : Key) (v : Int) (hv : 0 ≤ v) :
    t.getLongestPrefix k = v ↔
      ∃ q, q <+: k.inst ∧ tval t ⟨q, k.plat⟩ = v ∧
        ∀ q', q' <+: k.inst → q.length < q'.length → tval t ⟨q', k.plat⟩ < 0 := by
  rw [TrieTop.getLongestPrefix_eq, lpV_nonneg_iff _ _ _ _ hv]
  simp

theorem glp_ge {t : Trie} (h : WF t) (k : Key) : -1 ≤ t.getLongestPrefix k := by
  by_cases hn : t.getLongestPrefix k < 0
  · -- the empty prefix has value ≥ −1 and the result is one of the values or the root's
    rw [TrieTop.getLongestPrefix_eq] at hn ⊢
    generalize hpre : ([] : List Comp) = pre
    rw [hpre] at hn
    clear hpre
    generalize k.inst = rest at hn ⊢
    induction rest generalizing pre with
    | nil => rw [lpV_nil]; exact tval_ge h _
    | cons c cs ih =>
      rw [lpV_cons] at hn ⊢
      by_cases hr : lpV (fun q => tval t ⟨q, k.plat⟩) (pre ++ [c]) cs ≥ 0
      · rw [if_pos hr]; omega
      · rw [if_neg hr]; exact tval_ge h _
  · omega

end BbRe.Lemmas.TrieLongest
