import BbRe.Lemmas.NfsInvDefs
import BbRe.Lemmas.NfsShare
/-!
# Group G of the invariant of `Model/NfsState.lean`: the ledger

`InvG`: for every leaf and access bit, the number of `VirtualOpen…` calls equals
the number of `VirtualClose` calls plus what is still accounted for (file
records with a positive counter, pending `leavesToClose` entries, temporary
opens).  Preserved by every core action, given the groups `InvS` (structure)
and `InvK` (`shareCount` = number of holders).  Core Lean only.
-/
namespace BbRe.Lemmas.NfsInvG
open BbRe.NfsState BbRe.NfsShare BbRe.Lemmas.NfsInv BbRe.Lemmas.NfsShare

/-! ## Generic list lemmas -/

/-- `1` for `true`, `0` for `false` (kept opaque for `omega`) -/
def b2n (b : Bool) : Nat := if b then 1 else 0

@[simp] theorem b2n_true : b2n true = 1 := rfl
@[simp] theorem b2n_false : b2n false = 0 := rfl

theorem countP_cons' {α : Type} (p : α → Bool) (a : α) (l : List α) :
    (a :: l).countP p = l.countP p + b2n (p a) := by
  rw [List.countP_cons]; cases p a <;> rfl

theorem countP_snoc' {α : Type} (p : α → Bool) (a : α) (l : List α) :
    (l ++ [a]).countP p = l.countP p + b2n (p a) := by
  rw [List.countP_append, List.countP_singleton]; cases p a <;> rfl

/-- removing the unique element with a given key removes exactly its contribution -/
theorem countP_filter_key {α : Type} (key : α → Nat) (p : α → Bool) :
    ∀ (l : List α), (l.map key).Nodup → ∀ x ∈ l, ∀ k, key x = k →
      l.countP p = (l.filter (fun y => key y != k)).countP p + b2n (p x)
  | [], _, x, hx, _, _ => by cases hx
  | a :: l, hn, x, hx, k, hk => by
    rw [List.map_cons, List.nodup_cons] at hn
    rw [List.filter_cons, countP_cons']
    rcases List.mem_cons.1 hx with rfl | hx'
    · -- the head is the element: nothing else has the key
      have hfil : l.filter (fun y => key y != k) = l := by
        apply List.filter_eq_self.2
        intro y hy
        have : key y ≠ k := by
          intro h; apply hn.1; rw [← hk] at h; rw [← h]; exact List.mem_map_of_mem hy
        simpa using this
      simp [hk, hfil]
    · have hne : key a ≠ k := by
        intro h; apply hn.1; rw [h, ← hk]; exact List.mem_map_of_mem hx'
      have ih := countP_filter_key key p l hn.2 x hx' k hk
      have : (key a != k) = true := by simpa using hne
      rw [if_pos this, countP_cons', ih]
      omega

/-- modifying the unique element with a given key exchanges its contribution -/
theorem countP_map_key {α : Type} (key : α → Nat) (p : α → Bool) (g : α → α) :
    ∀ (l : List α), (l.map key).Nodup → ∀ x ∈ l, ∀ k, key x = k →
      (l.map (fun y => if key y == k then g y else y)).countP p + b2n (p x)
        = l.countP p + b2n (p (g x))
  | [], _, x, hx, _, _ => by cases hx
  | a :: l, hn, x, hx, k, hk => by
    rw [List.map_cons, List.nodup_cons] at hn
    rw [List.map_cons, countP_cons', countP_cons']
    rcases List.mem_cons.1 hx with rfl | hx'
    · have hmap : l.map (fun y => if key y == k then g y else y) = l := by
        conv => rhs; rw [← List.map_id l]
        apply List.map_congr_left
        intro y hy
        have : key y ≠ k := by
          intro h; apply hn.1; rw [← hk] at h; rw [← h]; exact List.mem_map_of_mem hy
        simp [this]
      simp only [hmap, hk, beq_self_eq_true, if_true]
      omega
    · have hne : key a ≠ k := by
        intro h; apply hn.1; rw [h, ← hk]; exact List.mem_map_of_mem hx'
      have ih := countP_map_key key p g l hn.2 x hx' k hk
      have : (key a == k) = false := by simpa using hne
      simp only [this, Bool.false_eq_true, if_false]
      omega

/-- a modification that does not change the predicate does not change the count -/
theorem countP_map_same {α : Type} (p : α → Bool) (h : α → α) (hp : ∀ y, p (h y) = p y)
    (l : List α) : (l.map h).countP p = l.countP p := by
  rw [List.countP_map]
  congr 1
  funext y
  exact hp y

/-! ## Look-ups -/

theorem getFile_some {s : State} {sid : Nat} {f : OFile} (h : s.getFile sid = some f) :
    f ∈ s.files ∧ f.sid = sid := by
  unfold State.getFile at h
  exact ⟨List.mem_of_find?_eq_some h, by simpa using List.find?_some h⟩

theorem getTemp_some {s : State} {tag : Nat} {t : Temp} (h : s.getTemp tag = some t) :
    t ∈ s.temps ∧ t.tag = tag := by
  unfold State.getTemp at h
  exact ⟨List.mem_of_find?_eq_some h, by simpa using List.find?_some h⟩

/-! ## The ledger as a statement about the four components it mentions -/

def pF (leaf : Nat) (bit : Bool) : OFile → Bool :=
  fun f => f.file == leaf && decide (0 < f.count.get bit)
def pP (leaf : Nat) (bit : Bool) : Nat × Nat × Mask → Bool :=
  fun p => p.2.1 == leaf && p.2.2.get bit
def pT (leaf : Nat) (bit : Bool) : Temp → Bool :=
  fun t => t.leaf == leaf && t.share.get bit

theorem pF_eq (leaf : Nat) (bit : Bool) (f : OFile) :
    pF leaf bit f = (f.file == leaf && decide (0 < f.count.get bit)) := rfl
theorem pP_eq (leaf : Nat) (bit : Bool) (c l : Nat) (m : Mask) :
    pP leaf bit (c, l, m) = (l == leaf && m.get bit) := rfl
theorem pT_eq (leaf : Nat) (bit : Bool) (t : Temp) :
    pT leaf bit t = (t.leaf == leaf && t.share.get bit) := rfl

def Led (log : List Ev) (files : List OFile) (pend : List (Nat × Nat × Mask)) (temps : List Temp)
    (leaf : Nat) (bit : Bool) : Prop :=
  log.countP (evOpens leaf bit) = log.countP (evCloses leaf bit) +
    (files.countP (pF leaf bit) + pend.countP (pP leaf bit) + temps.countP (pT leaf bit))

theorem invG_iff (s : State) : InvG s ↔ ∀ leaf bit, Led s.log s.files s.pend s.temps leaf bit :=
  ⟨fun h => h.ledger, fun h => ⟨h⟩⟩

/-- only `log`, `files`, `pend`, `temps` matter -/
theorem invG_congr {s s' : State} (hl : s'.log = s.log) (hf : s'.files = s.files)
    (hp : s'.pend = s.pend) (ht : s'.temps = s.temps) (h : InvG s) : InvG s' := by
  rw [invG_iff] at h ⊢
  rw [hl, hf, hp, ht]; exact h

theorem invG_fail (s : State) (m : String) (h : InvG s) : InvG (s.fail m) :=
  invG_congr (s := s) rfl rfl rfl rfl h

theorem opens_snoc (log : List Ev) (l : Nat) (m : Mask) (c t : Bool) (leaf : Nat) (bit : Bool) :
    (log ++ [Ev.openEv l m c t]).countP (evOpens leaf bit)
      = log.countP (evOpens leaf bit) + b2n (l == leaf && m.get bit) := countP_snoc' _ _ _
theorem closes_snoc_open (log : List Ev) (l : Nat) (m : Mask) (c t : Bool) (leaf : Nat)
    (bit : Bool) :
    (log ++ [Ev.openEv l m c t]).countP (evCloses leaf bit) = log.countP (evCloses leaf bit) :=
  countP_snoc' _ _ _
theorem closes_snoc (log : List Ev) (l : Nat) (m : Mask) (leaf : Nat) (bit : Bool) :
    (log ++ [Ev.closeEv l m]).countP (evCloses leaf bit)
      = log.countP (evCloses leaf bit) + b2n (l == leaf && m.get bit) := countP_snoc' _ _ _
theorem opens_snoc_close (log : List Ev) (l : Nat) (m : Mask) (leaf : Nat) (bit : Bool) :
    (log ++ [Ev.closeEv l m]).countP (evOpens leaf bit) = log.countP (evOpens leaf bit) :=
  countP_snoc' _ _ _

/-- `pushPend` on the list -/
def pushL (cur : Nat) (pend : List (Nat × Nat × Mask)) (leaf : Nat) (m : Mask) :
    List (Nat × Nat × Mask) :=
  if m.isNone then pend else pend ++ [(cur, leaf, m)]

theorem pushPend_eq (s : State) (leaf : Nat) (m : Mask) :
    s.pushPend leaf m = { s with pend := pushL s.cur s.pend leaf m } := by
  unfold State.pushPend pushL
  split <;> rfl

theorem isNone_get {m : Mask} (h : m.isNone = true) (bit : Bool) : m.get bit = false := by
  obtain ⟨r, w⟩ := m
  cases bit <;> cases r <;> cases w <;> simp_all [Mask.isNone, Mask.get]

theorem countP_pushL (cur : Nat) (pend : List (Nat × Nat × Mask)) (leaf : Nat) (m : Mask)
    (leaf' : Nat) (bit : Bool) :
    (pushL cur pend leaf m).countP (pP leaf' bit)
      = pend.countP (pP leaf' bit) + b2n (leaf == leaf' && m.get bit) := by
  unfold pushL
  split
  · rename_i h
    simp [isNone_get h bit]
  · rw [countP_snoc', pP_eq]

/-! ## Per-bit facts about the share-count algebra -/

theorem b2n_pos (n : Nat) : b2n (decide (0 < n)) = if 0 < n then 1 else 0 := by
  by_cases h : 0 < n <;> simp [h]

theorem downBit_pos {n : Nat} {a b : Bool} {n' : Nat} {z : Bool}
    (h : downBit n a b = some (n', z)) :
    b2n (decide (0 < n')) + b2n z = b2n (decide (0 < n)) := by
  unfold downBit at h
  split at h
  · split at h
    · cases h
    · simp only [Option.some.injEq, Prod.mk.injEq] at h
      obtain ⟨rfl, rfl⟩ := h
      by_cases h0 : n - 1 = 0
      · have h1 : 0 < n := by omega
        simp [h0, h1]
      · have h1 : 0 < n := by omega
        have h2 : 0 < n - 1 := by omega
        simp [h0, h1, h2]
  · simp only [Option.some.injEq, Prod.mk.injEq] at h
    obtain ⟨rfl, rfl⟩ := h
    simp

theorem downgrade_pos {sc : ShareCount} {cur new : Mask} {c : ShareCount} {z : Mask}
    (h : downgrade sc cur new = some (c, z)) (bit : Bool) :
    b2n (decide (0 < c.get bit)) + b2n (z.get bit) = b2n (decide (0 < sc.get bit)) :=
  downBit_pos (downgrade_some_get h bit)

theorem clone_pos {sc : ShareCount} {m : Mask} {c : ShareCount}
    (h : clone sc m = some c) (bit : Bool) : decide (0 < c.get bit) = decide (0 < sc.get bit) := by
  have := clone_some_get h bit
  unfold cloneBit at this
  apply decide_eq_decide.2
  split at this
  · split at this
    · cases this
    · simp only [Option.some.injEq] at this; omega
  · simp only [Option.some.injEq] at this; omega

/-- `upgrade` on a counter that is at least the holder's own contribution -/
theorem upgrade_pos (sc : ShareCount) (cur new : Mask) (bit : Bool)
    (hk : cur.get bit = true → 0 < sc.get bit) :
    b2n (decide (0 < (upgrade sc cur new).1.get bit)) + b2n ((upgrade sc cur new).2.2.get bit)
      = b2n (decide (0 < sc.get bit)) + b2n (new.get bit) := by
  rw [upgrade_fst_get, upgrade_overlap_get]
  unfold upBit
  cases hn : new.get bit <;> cases hc : cur.get bit
  · simp
  · simp
  · by_cases h0 : 0 < sc.get bit <;> simp [h0]
  · have := hk hc; simp [this]

/-! ## Temporary opens -/

theorem invG_vopen (s : State) (tag leaf : Nat) (m : Mask) (create trunc : Bool) (hg : InvG s) :
    InvG (Do.vopen s tag leaf m create trunc) := by
  unfold Do.vopen
  split
  · exact hg
  · rw [invG_iff] at hg ⊢
    intro leaf' bit
    have h := hg leaf' bit
    simp only [Led, opens_snoc, closes_snoc_open] at h ⊢
    simp only [countP_snoc', pT_eq]
    omega

theorem invG_tempClose (s : State) (tag : Nat) (hs : InvS s) (hg : InvG s) :
    InvG (Do.tempClose s tag) := by
  unfold Do.tempClose
  split
  · exact hg
  · rename_i t ht
    obtain ⟨hm, htag⟩ := getTemp_some ht
    rw [invG_iff] at hg ⊢
    intro leaf bit
    have h := hg leaf bit
    have h1 := countP_filter_key (fun t : Temp => t.tag) (pT leaf bit) s.temps hs.tempTagNodup
      t hm tag htag
    simp only [Led, closes_snoc, opens_snoc_close, pT_eq] at h h1 ⊢
    omega

theorem invG_tempToPend (s : State) (tag : Nat) (hs : InvS s) (hg : InvG s) :
    InvG (Do.tempToPend s tag) := by
  unfold Do.tempToPend
  split
  · exact hg
  · rename_i t ht
    obtain ⟨hm, htag⟩ := getTemp_some ht
    rw [pushPend_eq, invG_iff] at *
    intro leaf bit
    have h := hg leaf bit
    have h1 := countP_filter_key (fun t : Temp => t.tag) (pT leaf bit) s.temps hs.tempTagNodup
      t hm tag htag
    simp only [Led, countP_pushL, pT_eq] at h h1 ⊢
    omega

/-! ## Ledger steps on the file list -/

theorem sid_unique {files : List OFile} (hn : (files.map (fun f : OFile => f.sid)).Nodup) :
    ∀ {x y : OFile}, x ∈ files → y ∈ files → x.sid = y.sid → x = y := by
  induction files with
  | nil => intro x y hx; cases hx
  | cons a l ih =>
    rw [List.map_cons, List.nodup_cons] at hn
    intro x y hx hy hxy
    rcases List.mem_cons.1 hx with rfl | hx' <;> rcases List.mem_cons.1 hy with rfl | hy'
    · rfl
    · exact absurd (hxy ▸ List.mem_map_of_mem (f := fun f : OFile => f.sid) hy') hn.1
    · exact absurd (hxy ▸ List.mem_map_of_mem (f := fun f : OFile => f.sid) hx') hn.1
    · exact ih hn.2 hx' hy' hxy

/-- one record changes; `pend` and `temps` change; the contributions balance -/
theorem led_modFile {log : List Ev} {files : List OFile} {pend pend' : List (Nat × Nat × Mask)}
    {temps temps' : List Temp} {leaf : Nat} {bit : Bool} (sid : Nat) (f : OFile) (g : OFile → OFile)
    (hn : (files.map (fun f : OFile => f.sid)).Nodup) (hf : f ∈ files) (hsid : f.sid = sid)
    (hd : b2n (pF leaf bit (g f)) + pend'.countP (pP leaf bit) + temps'.countP (pT leaf bit)
        = b2n (pF leaf bit f) + pend.countP (pP leaf bit) + temps.countP (pT leaf bit))
    (h : Led log files pend temps leaf bit) :
    Led log (files.map (fun y => if y.sid == sid then g y else y)) pend' temps' leaf bit := by
  unfold Led at h ⊢
  have h2 : (files.map (fun y => if y.sid == sid then g y else y)).countP (pF leaf bit)
      + b2n (pF leaf bit f) = files.countP (pF leaf bit) + b2n (pF leaf bit (g f)) :=
    countP_map_key (fun f : OFile => f.sid) (pF leaf bit) g files hn f hf sid hsid
  omega

/-- every record keeps its leaf and its counters -/
theorem led_mapSame {log : List Ev} {files : List OFile} {pend : List (Nat × Nat × Mask)}
    {temps : List Temp} {leaf : Nat} {bit : Bool} (g : OFile → OFile)
    (hg : ∀ y, (g y).file = y.file ∧ (g y).count = y.count)
    (h : Led log files pend temps leaf bit) : Led log (files.map g) pend temps leaf bit := by
  unfold Led at h ⊢
  rw [countP_map_same (pF leaf bit) g (fun y => by rw [pF_eq, pF_eq, (hg y).1, (hg y).2])]
  exact h

/-- records whose counters are zero can go -/
theorem led_filter {log : List Ev} {files : List OFile} {pend : List (Nat × Nat × Mask)}
    {temps : List Temp} {leaf : Nat} {bit : Bool} (q : OFile → Bool)
    (hq : ∀ f ∈ files, q f = false → f.count.get bit = 0)
    (h : Led log files pend temps leaf bit) : Led log (files.filter q) pend temps leaf bit := by
  unfold Led at h ⊢
  rw [List.countP_filter]
  have : files.countP (fun a => pF leaf bit a && q a) = files.countP (pF leaf bit) := by
    apply List.countP_congr
    intro x hx
    cases hqx : q x
    · have := hq x hx hqx
      simp [pF_eq, this]
    · simp
  rw [this]; exact h

theorem countP_eraseP_find {α : Type} (p q : α → Bool) (x : α) :
    ∀ (l : List α), l.find? q = some x → l.countP p = (l.eraseP q).countP p + b2n (p x)
  | [], h => by cases h
  | a :: l, h => by
    by_cases hqa : q a = true
    · rw [List.find?_cons_of_pos hqa] at h
      cases h
      rw [List.eraseP_cons_of_pos hqa, countP_cons']
    · rw [List.find?_cons_of_neg hqa] at h
      rw [List.eraseP_cons_of_neg hqa, countP_cons', countP_cons',
        countP_eraseP_find p q x l h]
      omega

/-! ## Actions that do not touch `log`, `files`, `pend`, `temps`, `ios` -/

def Core (s s' : State) : Prop :=
  s'.log = s.log ∧ s'.files = s.files ∧ s'.pend = s.pend ∧ s'.temps = s.temps ∧ s'.ios = s.ios

theorem Core.rfl' (s : State) : Core s s := ⟨rfl, rfl, rfl, rfl, rfl⟩
theorem Core.trans {a b c : State} (h1 : Core a b) (h2 : Core b c) : Core a c :=
  ⟨h2.1.trans h1.1, h2.2.1.trans h1.2.1, h2.2.2.1.trans h1.2.2.1, h2.2.2.2.1.trans h1.2.2.2.1,
    h2.2.2.2.2.trans h1.2.2.2.2⟩

theorem invG_core {s s' : State} (hc : Core s s') (h : InvG s) : InvG s' :=
  invG_congr hc.1 hc.2.1 hc.2.2.1 hc.2.2.2.1 h

theorem core_fail (s : State) (m : String) : Core s (s.fail m) := ⟨rfl, rfl, rfl, rfl, rfl⟩

theorem core_modClient (s : State) (cl : Nat) (g : Client → Client) : Core s (s.modClient cl g) :=
  ⟨rfl, rfl, rfl, rfl, rfl⟩

theorem core_holdClient (s : State) (cl : Nat) : Core s (s.holdClient cl) := by
  unfold State.holdClient
  split
  · exact Core.rfl' s
  · rename_i c _
    by_cases h : c.hold = 0
    · simp only [h, if_true]; exact ⟨rfl, rfl, rfl, rfl, rfl⟩
    · simp only [h, if_false]; exact ⟨rfl, rfl, rfl, rfl, rfl⟩

theorem core_releaseClient (s : State) (cl : Nat) : Core s (s.releaseClient cl) := by
  unfold State.releaseClient
  split
  · exact Core.rfl' s
  · split
    · exact core_fail _ _
    · split <;> exact ⟨rfl, rfl, rfl, rfl, rfl⟩

theorem core_tick (s : State) (d : Nat) : Core s (Do.tick s d) := ⟨rfl, rfl, rfl, rfl, rfl⟩
theorem core_setNow (s : State) : Core s (Do.setNow s) := ⟨rfl, rfl, rfl, rfl, rfl⟩
theorem core_newClient (s : State) (long ver : Nat) : Core s (Do.newClient s long ver) := by
  unfold Do.newClient; split <;> exact ⟨rfl, rfl, rfl, rfl, rfl⟩
theorem core_touch (s : State) (cl : Nat) : Core s (Do.touch s cl) :=
  (core_holdClient s cl).trans (core_releaseClient _ cl)
theorem core_confirmClient (s : State) (cl : Nat) : Core s (Do.confirmClient s cl) := by
  unfold Do.confirmClient
  split
  · exact Core.rfl' s
  · split <;> exact ⟨rfl, rfl, rfl, rfl, rfl⟩
theorem core_dropClient (s : State) (cl : Nat) : Core s (Do.dropClient s cl) := by
  unfold Do.dropClient
  split
  · exact Core.rfl' s
  · repeat' split
    all_goals exact ⟨rfl, rfl, rfl, rfl, rfl⟩
theorem core_addSession (s : State) (cl k : Nat) : Core s (Do.addSession s cl k) :=
  ⟨rfl, rfl, rfl, rfl, rfl⟩
theorem core_delSession (s : State) (cl k : Nat) : Core s (Do.delSession s cl k) :=
  ⟨rfl, rfl, rfl, rfl, rfl⟩
theorem core_holdBegin (s : State) (tag cl : Nat) : Core s (Do.holdBegin s tag cl) := by
  unfold Do.holdBegin
  split
  · exact Core.rfl' s
  · exact Core.trans (b := { s with holders := s.holders ++ [{ tag := tag, cl := cl }] })
      ⟨rfl, rfl, rfl, rfl, rfl⟩ (core_holdClient _ cl)
theorem core_holdEnd (s : State) (tag : Nat) : Core s (Do.holdEnd s tag) := by
  unfold Do.holdEnd
  split
  · exact Core.rfl' s
  · rename_i h _
    exact Core.trans (b := { s with holders := s.holders.filter (fun h => h.tag != tag) })
      ⟨rfl, rfl, rfl, rfl, rfl⟩ (core_releaseClient _ h.cl)
theorem core_ooSet (s : State) (oo : OOwner) : Core s (Do.ooSet s oo) := by
  unfold Do.ooSet
  split
  · exact Core.rfl' s
  · repeat' split
    all_goals exact ⟨rfl, rfl, rfl, rfl, rfl⟩
theorem core_ooDel (s : State) (cl key : Nat) : Core s (Do.ooDel s cl key) := by
  unfold Do.ooDel; split <;> exact ⟨rfl, rfl, rfl, rfl, rfl⟩
theorem core_loRegister (s : State) (cl key : Nat) : Core s (Do.loRegister s cl key) := by
  unfold Do.loRegister; split <;> exact ⟨rfl, rfl, rfl, rfl, rfl⟩
theorem core_loPrune (s : State) (id : Nat) : Core s (Do.loPrune s id) := by
  unfold Do.loPrune; split <;> exact ⟨rfl, rfl, rfl, rfl, rfl⟩
theorem core_loSet (s : State) (id lastSeq : Nat) (resp : Option (Nat × String × Nat × Nat)) :
    Core s (Do.loSet s id lastSeq resp) := ⟨rfl, rfl, rfl, rfl, rfl⟩
theorem core_setCur (s : State) (tag : Nat) : Core s (Do.setCur s tag) := ⟨rfl, rfl, rfl, rfl, rfl⟩
theorem core_setProto (s : State) (p : Proto) : Core s (Do.setProto s p) :=
  ⟨rfl, rfl, rfl, rfl, rfl⟩

/-! ## OPEN -/

theorem upgrade_zero_pos (m : Mask) (bit : Bool) :
    decide (0 < (upgrade ShareCount.zero Mask.none m).1.get bit) = m.get bit := by
  rw [upgrade_fst_get, none_get]
  have : ShareCount.zero.get bit = 0 := by cases bit <;> rfl
  rw [this]
  unfold upBit
  cases m.get bit <;> simp

theorem invG_openNew (s : State) (tag cl owner : Nat) (hs : InvS s) (hg : InvG s) :
    InvG (Do.openNew s tag cl owner) := by
  unfold Do.openNew
  split
  · exact hg
  · rename_i t ht
    split
    · exact hg
    · obtain ⟨hm, htag⟩ := getTemp_some ht
      rw [invG_iff] at hg ⊢
      intro leaf bit
      have h := hg leaf bit
      have h1 := countP_filter_key (fun t : Temp => t.tag) (pT leaf bit) s.temps hs.tempTagNodup
        t hm tag htag
      simp only [Led, countP_snoc', pF_eq, pT_eq, upgrade_zero_pos] at h h1 ⊢
      omega

theorem share_le_count {s : State} (hk : InvK s) {f : OFile} (hf : f ∈ s.files) (bit : Bool)
    (hb : f.share.get bit = true) : 0 < f.count.get bit := by
  rw [hk.counts f hf bit, holders, hb]
  simp only [if_true]
  omega

theorem invG_openUpgrade (s : State) (tag sid : Nat) (hs : InvS s) (hk : InvK s) (hg : InvG s) :
    InvG (Do.openUpgrade s tag sid) := by
  unfold Do.openUpgrade
  split
  · rename_i t f ht hf
    split
    · exact hg
    · rename_i hcond
      have hfile : f.file = t.leaf := by
        simp only [Bool.or_eq_true, Bool.not_eq_true', bne_iff_ne, ne_eq, not_or,
          Bool.not_eq_false, Decidable.not_not] at hcond
        exact hcond.2
      obtain ⟨hm, htag⟩ := getTemp_some ht
      obtain ⟨hfm, hsid⟩ := getFile_some hf
      rw [pushPend_eq, invG_iff] at *
      intro leaf bit
      have h1 := countP_filter_key (fun t : Temp => t.tag) (pT leaf bit) s.temps hs.tempTagNodup
        t hm tag htag
      have h3 := upgrade_pos f.count f.share t.share bit (share_le_count hk hfm bit)
      refine led_modFile sid f _ hs.sidNodup hfm hsid ?_ (hg leaf bit)
      simp only [State.modFile, countP_pushL, pF_eq, pT_eq, hfile] at h1 ⊢
      cases hl : (t.leaf == leaf) <;> simp only [hl, Bool.true_and, Bool.false_and, b2n_false] at h1 ⊢
        <;> omega
  · exact hg

/-! ## `downgrade` and `clone` on one record -/

/-- the record `sid` gives up a holder: the bits whose counter drops to zero move to `pend` -/
theorem invG_down (s : State) (hn : (s.files.map (fun f : OFile => f.sid)).Nodup) (hg : InvG s)
    (sid : Nat) (f : OFile) (hf : s.getFile sid = some f) (g : OFile → OFile) (cur new : Mask)
    (c : ShareCount) (z : Mask) (hd : downgrade f.count cur new = some (c, z))
    (hgf : (g f).file = f.file) (hgc : (g f).count = c) :
    InvG ((s.modFile sid g).pushPend f.file z) := by
  obtain ⟨hfm, hsid⟩ := getFile_some hf
  rw [pushPend_eq, invG_iff] at *
  intro leaf bit
  have h3 := downgrade_pos hd bit
  refine led_modFile sid f g hn hfm hsid ?_ (hg leaf bit)
  simp only [State.modFile, countP_pushL, pF_eq, hgf, hgc]
  cases hl : (f.file == leaf) <;> simp only [Bool.true_and, Bool.false_and, b2n_false] <;> omega

/-- the record `sid` gets one more holder of bits that are already held -/
theorem invG_clone (s : State) (hn : (s.files.map (fun f : OFile => f.sid)).Nodup) (hg : InvG s)
    (sid : Nat) (f : OFile) (hf : s.getFile sid = some f) (g : OFile → OFile) (m : Mask)
    (c : ShareCount) (hc : clone f.count m = some c)
    (hgf : (g f).file = f.file) (hgc : (g f).count = c) :
    InvG (s.modFile sid g) := by
  obtain ⟨hfm, hsid⟩ := getFile_some hf
  rw [invG_iff] at *
  intro leaf bit
  refine led_modFile sid f g hn hfm hsid ?_ (hg leaf bit)
  simp only [State.modFile, pF_eq, hgf, hgc, clone_pos hc bit]

/-- every record keeps its leaf and its counters -/
theorem invG_modFile_same (s : State) (hg : InvG s) (sid : Nat) (g : OFile → OFile)
    (h : ∀ y, (g y).file = y.file ∧ (g y).count = y.count) : InvG (s.modFile sid g) := by
  rw [invG_iff] at *
  intro leaf bit
  refine led_mapSame _ ?_ (hg leaf bit)
  intro y
  split
  · exact h y
  · exact ⟨rfl, rfl⟩

theorem invG_downgradeOpen (s : State) (sid : Nat) (new : Mask) (hs : InvS s) (hg : InvG s) :
    InvG (Do.downgradeOpen s sid new) := by
  unfold Do.downgradeOpen
  split
  · exact hg
  · rename_i f hf
    split
    · exact hg
    · split
      · exact invG_fail _ _ hg
      · rename_i c z hd
        exact invG_down s hs.sidNodup hg sid f hf _ _ _ c z hd rfl rfl

theorem invG_addLofs (s : State) (sid lo : Nat) (hs : InvS s) (hg : InvG s) :
    InvG (Do.addLofs s sid lo) := by
  unfold Do.addLofs
  split
  · exact hg
  · rename_i f hf
    split
    · exact hg
    · split
      · exact invG_fail _ _ hg
      · rename_i c hc
        dsimp only
        have h := invG_clone s hs.sidNodup hg sid f hf
          (fun f' => { f' with count := c, lofs := f'.lofs ++ [(⟨s.nextId, lo, f.share, 0⟩ : LOFile)] })
          _ c hc rfl rfl
        refine invG_congr ?_ ?_ ?_ ?_ h <;> rfl

theorem invG_removeLofs (s : State) (sid lsid : Nat) (hs : InvS s) (hg : InvG s) :
    InvG (Do.removeLofs s sid lsid) := by
  unfold Do.removeLofs
  split
  · exact hg
  · rename_i f hf
    split
    · exact hg
    · split
      · exact invG_fail _ _ hg
      · split
        · exact invG_fail _ _ hg
        · rename_i c z hd
          exact invG_down s hs.sidNodup hg sid f hf _ _ _ c z hd rfl rfl

theorem invG_unlockAllLofs (s : State) (sid lsid : Nat) (hg : InvG s) :
    InvG (Do.unlockAllLofs s sid lsid) := by
  unfold Do.unlockAllLofs
  split
  · exact hg
  · split
    · split
      · exact hg
      · dsimp only
        refine invG_modFile_same _ ?_ _ _ (fun _ => ⟨rfl, rfl⟩)
        exact invG_congr (s := s) rfl rfl rfl rfl hg
    · exact hg

theorem invG_lockSet (s : State) (sid lsid : Nat) (lk : BRL.Lock) (hg : InvG s) :
    InvG (Do.lockSet s sid lsid lk) := by
  unfold Do.lockSet
  split
  · exact hg
  · split
    · dsimp only
      split
      · exact invG_fail _ _ hg
      · refine invG_modFile_same _ ?_ _ _ (fun _ => ⟨rfl, rfl⟩)
        exact invG_congr (s := s) rfl rfl rfl rfl hg
    · exact hg

theorem invG_flush (s : State) (hg : InvG s) : InvG (Do.flush s) := by
  unfold Do.flush
  split
  · exact hg
  · rename_i c leaf m hfind
    rw [invG_iff] at *
    intro leaf' bit
    have h := hg leaf' bit
    have h1 := countP_eraseP_find (pP leaf' bit) (fun p => p.1 == s.cur) _ s.pend hfind
    simp only [Led, closes_snoc, opens_snoc_close, pP_eq] at h h1 ⊢
    omega

/-! ## Garbage collection -/

/-- a record without a share reservation of its own and without lock-owner files counts the
I/O clones only -/
theorem count_eq_ios {s : State} (hk : InvK s) {f : OFile} (hf : f ∈ s.files)
    (hshare : f.share = Mask.none) (hlofs : f.lofs = []) (bit : Bool) :
    f.count.get bit = s.ios.countP (fun io => io.sid == f.sid && io.share.get bit) := by
  rw [hk.counts f hf bit, holders, hshare, hlofs, none_get]
  simp

theorem count_zero_of_unused {s : State} (hk : InvK s) {y : OFile} (hy : y ∈ s.files)
    (hshare : y.share = Mask.none) (hlofs : y.lofs = [])
    (hio : s.ios.any (fun io => io.sid == y.sid) = false) (bit : Bool) : y.count.get bit = 0 := by
  rw [count_eq_ios hk hy hshare hlofs, List.countP_eq_zero]
  intro io hio'
  have := List.any_eq_false.1 hio io hio'
  simp only [Bool.and_eq_true, not_and]
  intro h; exact absurd h this

theorem invG_gc (X : State) (hX : InvG X)
    (hq : ∀ f ∈ X.files, (f.live || X.ios.any (fun io => io.sid == f.sid)) = false →
      ∀ bit, f.count.get bit = 0) : InvG (State.gc X) := by
  rw [invG_iff] at *
  intro leaf bit
  exact led_filter _ (fun f hf hqf => hq f hf hqf bit) (hX leaf bit)

theorem invG_gc_tail (s1 : State) (b : Bool) (cl : Nat) (h1 : InvG s1)
    (hq : ∀ f ∈ s1.files, (f.live || s1.ios.any (fun io => io.sid == f.sid)) = false →
      ∀ bit, f.count.get bit = 0) :
    InvG (State.gc (if b = true then State.releaseClient s1 cl else s1)) := by
  have hc : Core s1 (if b = true then State.releaseClient s1 cl else s1) := by
    split
    · exact core_releaseClient s1 cl
    · exact Core.rfl' s1
  apply invG_gc _ (invG_core hc h1)
  rw [hc.2.1, hc.2.2.2.2]
  exact hq

theorem isNone_eq {m : Mask} (h : m.isNone = true) : m = Mask.none := by
  obtain ⟨r, w⟩ := m
  cases r <;> cases w <;> simp_all [Mask.isNone, Mask.none]

theorem invG_finalize (s : State) (sid : Nat) (hs : InvS s) (hk : InvK s) (hg : InvG s) :
    InvG (Do.finalize s sid) := by
  unfold Do.finalize
  split
  · exact hg
  · rename_i f hf
    split
    · exact hg
    · rename_i hcond
      split
      · exact invG_fail _ _ hg
      · split
        · exact invG_fail _ _ hg
        · dsimp only
          obtain ⟨hfm, hsid⟩ := getFile_some hf
          simp only [Bool.or_eq_true, Bool.not_eq_true', not_or, Bool.not_eq_false] at hcond
          obtain ⟨⟨hlive, hnone⟩, hempty⟩ := hcond
          apply invG_gc
          · refine invG_modFile_same _ ?_ _ _ (fun _ => ⟨rfl, rfl⟩)
            exact invG_congr (s := s) rfl rfl rfl rfl hg
          · intro f' hf' hq bit
            simp only [State.modFile] at hf' hq
            obtain ⟨y, hy, rfl⟩ := List.mem_map.1 hf'
            simp only [Bool.or_eq_false_iff] at hq
            by_cases hys : y.sid = sid
            · have : y = f := sid_unique hs.sidNodup hy hfm (hys.trans hsid.symm)
              subst this
              simp only [hys, beq_self_eq_true, if_true] at hq ⊢
              exact count_zero_of_unused hk hy (isNone_eq hnone)
                (List.isEmpty_iff.1 hempty) (by rw [hys]; exact hq.2) bit
            · have hne : (y.sid == sid) = false := by simpa using hys
              simp only [hne, Bool.false_eq_true, if_false] at hq ⊢
              obtain ⟨hsh, hlo⟩ := hs.deadClean y hy hq.1
              exact count_zero_of_unused hk hy hsh hlo hq.2 bit

/-! ## READ / WRITE / SETATTR with a regular state ID -/

theorem invG_ioBegin (s : State) (tag sid : Nat) (m : Mask) (holds : Bool) (hs : InvS s)
    (hg : InvG s) : InvG (Do.ioBegin s tag sid m holds) := by
  unfold Do.ioBegin
  split
  · exact hg
  · rename_i f hf
    split
    · exact hg
    · split
      · exact invG_fail _ _ hg
      · rename_i c hc
        dsimp only
        have h := invG_clone s hs.sidNodup hg sid f hf (fun f' => { f' with count := c }) _ c hc
          rfl rfl
        split
        · refine invG_core (core_holdClient _ _) ?_
          refine invG_congr ?_ ?_ ?_ ?_ h <;> rfl
        · refine invG_congr ?_ ?_ ?_ ?_ h <;> rfl

theorem downBit_last {n' : Nat} {b z : Bool} (h : downBit (b2n b) b false = some (n', z)) :
    n' = 0 := by
  cases b <;> simp [downBit] at h <;> omega

theorem invG_ioEnd (s : State) (tag : Nat) (hs : InvS s) (hk : InvK s) (hg : InvG s) :
    InvG (Do.ioEnd s tag) := by
  unfold Do.ioEnd
  split
  · exact hg
  · rename_i io hio
    split
    · exact hg
    · rename_i f hf
      split
      · exact invG_fail _ _ hg
      · rename_i c z hd
        dsimp only
        obtain ⟨hfm, hsid⟩ := getFile_some hf
        have hiom : io ∈ s.ios := List.mem_of_find?_eq_some hio
        have hiotag : io.tag = tag := by simpa using List.find?_some hio
        apply invG_gc_tail
        · exact invG_down { s with ios := s.ios.filter (fun io => io.tag != tag) } hs.sidNodup
            (invG_congr (s := s) rfl rfl rfl rfl hg) io.sid f hf _ _ _ c z hd rfl rfl
        · rw [pushPend_eq]
          simp only [State.modFile]
          intro f' hf' hq bit
          obtain ⟨y, hy, rfl⟩ := List.mem_map.1 hf'
          simp only [Bool.or_eq_false_iff] at hq
          -- a dead record nobody else refers to counts the finishing request only
          have key : y.live = false →
              (s.ios.filter (fun io => io.tag != tag)).any (fun io' => io'.sid == y.sid) = false →
              y.count.get bit = b2n (io.sid == y.sid && io.share.get bit) := by
            intro hl hno
            obtain ⟨hsh, hlo⟩ := hs.deadClean y hy hl
            rw [count_eq_ios hk hy hsh hlo bit,
              countP_filter_key (fun io : IOrec => io.tag) _ s.ios hs.ioTagNodup io hiom tag hiotag]
            have h0 : (s.ios.filter (fun y => y.tag != tag)).countP
                (fun io => io.sid == y.sid && io.share.get bit) = 0 := by
              rw [List.countP_eq_zero]
              intro io' hio'
              have := List.any_eq_false.1 hno io' hio'
              simp only [Bool.and_eq_true, not_and]
              intro h; exact absurd h this
            rw [h0]; omega
          by_cases hys : y.sid = io.sid
          · have : y = f := sid_unique hs.sidNodup hy hfm (hys.trans hsid.symm)
            subst this
            simp only [hys, beq_self_eq_true, if_true] at hq ⊢
            have hk' := key hq.1 (by rw [hys]; exact hq.2)
            have hdb := downgrade_some_get hd bit
            rw [hk', none_get, hys] at hdb
            simp only [beq_self_eq_true, Bool.true_and] at hdb
            exact downBit_last hdb
          · have hne : (y.sid == io.sid) = false := by simpa using hys
            simp only [hne, Bool.false_eq_true, if_false] at hq ⊢
            have hne' : (io.sid == y.sid) = false := by simpa using (fun h => hys h.symm)
            rw [key hq.1 hq.2, hne']
            rfl

/-! ## All actions -/

theorem invG_init (ver n : Nat) : InvG (BbRe.NfsState.init ver n) := by
  rw [invG_iff]
  intro leaf bit
  simp [Led, BbRe.NfsState.init]

theorem invG_apply (s : State) (a : Act) (hs : InvS s) (hk : InvK s) (hg : InvG s) :
    InvG (apply s a) := by
  unfold apply
  split
  · exact hg
  · cases a with
    | tick d => exact invG_core (core_tick s d) hg
    | setNow => exact invG_core (core_setNow s) hg
    | newClient long ver => exact invG_core (core_newClient s long ver) hg
    | touch cl => exact invG_core (core_touch s cl) hg
    | confirmClient cl => exact invG_core (core_confirmClient s cl) hg
    | dropClient cl => exact invG_core (core_dropClient s cl) hg
    | addSession cl k => exact invG_core (core_addSession s cl k) hg
    | delSession cl k => exact invG_core (core_delSession s cl k) hg
    | holdBegin tag cl => exact invG_core (core_holdBegin s tag cl) hg
    | holdEnd tag => exact invG_core (core_holdEnd s tag) hg
    | ooSet oo => exact invG_core (core_ooSet s oo) hg
    | ooDel cl key => exact invG_core (core_ooDel s cl key) hg
    | loRegister cl key => exact invG_core (core_loRegister s cl key) hg
    | loPrune id => exact invG_core (core_loPrune s id) hg
    | loSet id lastSeq resp => exact invG_core (core_loSet s id lastSeq resp) hg
    | vopen tag leaf m create trunc => exact invG_vopen s tag leaf m create trunc hg
    | tempClose tag => exact invG_tempClose s tag hs hg
    | tempToPend tag => exact invG_tempToPend s tag hs hg
    | openNew tag cl owner => exact invG_openNew s tag cl owner hs hg
    | openUpgrade tag sid => exact invG_openUpgrade s tag sid hs hk hg
    | downgradeOpen sid new => exact invG_downgradeOpen s sid new hs hg
    | addLofs sid lo => exact invG_addLofs s sid lo hs hg
    | removeLofs sid lsid => exact invG_removeLofs s sid lsid hs hg
    | unlockAllLofs sid lsid => exact invG_unlockAllLofs s sid lsid hg
    | lockSet sid lsid lk => exact invG_lockSet s sid lsid lk hg
    | finalize sid => exact invG_finalize s sid hs hk hg
    | ioBegin tag sid m holds => exact invG_ioBegin s tag sid m holds hs hg
    | ioEnd tag => exact invG_ioEnd s tag hs hk hg
    | flush => exact invG_flush s hg
    | setCur tag => exact invG_core (core_setCur s tag) hg
    | proto p => exact invG_core (core_setProto s p) hg

end BbRe.Lemmas.NfsInvG
