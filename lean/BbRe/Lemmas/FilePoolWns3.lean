import BbRe.Lemmas.FilePoolWns2
/-!
`writeToNewSectors`: device contents of the allocated run after success; and on
every path only bytes of sectors that were *not allocated* before the call change.
-/
namespace BbRe.Lemmas.FilePool
open BbRe.FilePool

theorem W_eq_got (ss ow P got n : Nat) (hss : 0 < ss) (how : ow < ss) (hg1 : 1 ≤ got)
    (hg2 : got ≤ (ow + P + ss - 1) / ss) (hn : n = min (got * ss - ow) P) :
    (ow + n + ss - 1) / ss = got := by
  obtain ⟨hC1, hC2⟩ := ceil_bounds (ow + P) ss hss
  obtain ⟨hW1, hW2⟩ := ceil_bounds (ow + n) ss hss
  have hgs : ss ≤ got * ss := Nat.le_mul_of_pos_left ss hg1
  have hgC : got * ss ≤ (ow + P + ss - 1) / ss * ss := Nat.mul_le_mul_right ss hg2
  generalize (ow + P + ss - 1) / ss = C at *
  generalize (ow + n + ss - 1) / ss = W at *
  have h1 : ow + n ≤ got * ss := by omega
  have h2 : got * ss < ow + n + ss := by
    by_cases hc : got * ss - ow ≤ P
    · omega
    · omega
  have h3 : W * ss < (got + 1) * ss := by rw [Nat.add_mul, Nat.one_mul]; omega
  have h4 : got * ss < (W + 1) * ss := by rw [Nat.add_mul, Nat.one_mul]; omega
  have := lt_of_mul_lt h3
  have := lt_of_mul_lt h4
  omega

theorem take_min_length (l : List Byte) (a : Nat) : l.take (min a l.length) = l.take a := by
  by_cases h : a ≤ l.length
  · rw [Nat.min_eq_left h]
  · rw [Nat.min_eq_right (by omega), List.take_length, List.take_of_length_le (by omega)]

/-- **A new run is fully written before it becomes part of the file.**  After a
successful `writeToNewSectors` every byte of the `got` allocated sectors holds
either the written data or the hole source's contents for that file offset —
nothing of what the sectors held before — and nothing outside the run changed. -/
theorem wns_ok_dev {c : Cfg} {h : Hole} {e e' : Env} {p : List Byte} {idx ow n first got : Nat}
    (hss : 0 < c.ss) (how : ow < c.ss) (hp : 0 < p.length)
    (hr : writeToNewSectors c h e p idx ow = (e', .ok (n, first, got))) :
    (∀ j, j < got * c.ss → rd e'.dev ((first - 1) * c.ss + j) = tgt c.ss h (p.take n) idx ow j) ∧
      (∀ q, (q < (first - 1) * c.ss ∨ (first - 1 + got) * c.ss ≤ q) → rd e'.dev q = rd e.dev q) := by
  have hw := wns_ok hr
  unfold writeToNewSectors at hr
  split at hr
  · simp at hr
  · simp at hr
  · rename_i e1 first' got' heq
    have ha := alloc_ok heq
    dsimp only at hr
    split at hr
    · simp at hr
    · rename_i e2 heq2
      simp only [Prod.mk.injEq, Except.ok.injEq] at hr
      obtain ⟨rfl, rfl, rfl, rfl⟩ := hr
      obtain ⟨t0, rfl⟩ : ∃ t0, first' = t0 + 1 := ⟨first' - 1, by omega⟩
      simp only [Nat.add_sub_cancel]
      have hok : (wnsPhases c h e1 (List.take (got' * c.ss - ow) p) (t0 + 1) idx ow).2 = none := by rw [heq2]
      have hres := wnsPhases_ok hss how hok
      rw [heq2] at hres
      dsimp only at hres
      have hWg := W_eq_got c.ss ow p.length got' (List.take (got' * c.ss - ow) p).length hss how
        hw.2.2.1 hw.2.2.2.1 (by rw [List.length_take])
      rw [hWg] at hres
      have htake : List.take (List.take (got' * c.ss - ow) p).length p = List.take (got' * c.ss - ow) p := by
        rw [List.length_take, take_min_length]
      rw [htake, ← ha.2.2.1]
      exact hres

/-- **Frame on every path**: whatever `writeToNewSectors` does — succeed, or
fail at the allocation, a hole-source read or a device write — the bytes of all
sectors that were allocated before the call are unchanged. -/
theorem wns_conf {c : Cfg} {h : Hole} {e : Env} {p : List Byte} {idx ow : Nat}
    (hss : 0 < c.ss) (how : ow < c.ss) (hp : 0 < p.length) (t k : Nat) (hk : k < c.ss)
    (hta : t + 1 ∈ e.allocd) :
    rd (writeToNewSectors c h e p idx ow).1.dev (t * c.ss + k) = rd e.dev (t * c.ss + k) := by
  unfold writeToNewSectors
  split
  · rename_i e1 heq
    have := alloc_notok heq (by intro f n; simp)
    dsimp only; rw [this.2.2.1]
  · rename_i e1 heq
    have := alloc_notok heq (by intro f n; simp)
    dsimp only; rw [this.2.2.1]
  · rename_i e1 first got heq
    have ha := alloc_ok heq
    obtain ⟨t0, rfl⟩ : ∃ t0, first = t0 + 1 := ⟨first - 1, by omega⟩
    dsimp only
    have hp' : 0 < (List.take (got * c.ss - ow) p).length := by
      rw [List.length_take]
      have : c.ss ≤ got * c.ss := Nat.le_mul_of_pos_left c.ss ha.2.2.2.2.1
      omega
    have hWle : (ow + (List.take (got * c.ss - ow) p).length + c.ss - 1) / c.ss ≤ got :=
      want_le_cnt ow c.ss got _ how ha.2.2.2.2.1 (by rw [List.length_take]; omega)
    have hnot : ¬ (t0 + 1 ≤ t + 1 ∧ t + 1 < t0 + 1 + got) := by
      intro hc; exact ha.2.2.2.2.2.2.2.2 (t + 1) hc.1 hc.2 hta
    have hpos : t * c.ss + k < t0 * c.ss ∨
        (t0 + (ow + (List.take (got * c.ss - ow) p).length + c.ss - 1) / c.ss) * c.ss ≤ t * c.ss + k := by
      by_cases hlt : t < t0
      · left
        have := Nat.mul_le_mul_right c.ss (show t + 1 ≤ t0 by omega)
        rw [Nat.add_mul, Nat.one_mul] at this; omega
      · right
        have h1 : t0 + (ow + (List.take (got * c.ss - ow) p).length + c.ss - 1) / c.ss ≤ t := by omega
        have := Nat.mul_le_mul_right c.ss h1
        omega
    have hf := wnsPhases_frame (c := c) (h := h) (e := e1) (idx := idx) hss how hp' (t * c.ss + k) hpos
    split
    · rename_i e2 x heq2
      rw [heq2] at hf
      have hfd : (e2.freeContiguous (t0 + 1) got).dev = e2.dev := rfl
      rw [hfd]
      dsimp only at hf
      rw [hf, ha.2.2.1]
    · rename_i e2 heq2
      rw [heq2] at hf
      dsimp only at hf ⊢
      rw [hf, ha.2.2.1]

end BbRe.Lemmas.FilePool
