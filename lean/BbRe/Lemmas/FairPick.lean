import BbRe.Lemmas.FairOrder
/-!
`assignNextQueuedTask` (the walk over heap roots, `pickAux`) returns an element of the documented
admissible set (`specAux`, full scan) on every well-formed snapshot.
-/
namespace BbRe.Lemmas.Fair
open BbRe.Fair BbRe.GoHeap

/-! ### unfolding the recursive definitions -/

theorem anyQueued_eq (cs : List Inv) : anyQueued cs = cs.any Inv.hasQueued := by
  induction cs with
  | nil => rfl
  | cons c cs ih => rw [anyQueued, ih, List.any_cons]

theorem hasQueued_eq (i : Inv) : i.hasQueued = (!i.ops.isEmpty || i.kids.any Inv.hasQueued) := by
  cases i with
  | mk k ops q p e s pk pkk c kids => rw [Inv.hasQueued, anyQueued_eq]; rfl

theorem wfL_iff (cs : List Inv) : wfL cs = true ↔ ∀ c ∈ cs, c.wf = true := by
  induction cs with
  | nil => simp [wfL]
  | cons c cs ih => rw [wfL]; simp [ih]

/-- What `Inv.wf` says about one invocation. -/
structure WF (i : Inv) : Prop where
  keys : (i.kids.map Inv.key).Nodup
  qnodup : i.queued.Nodup
  qsub : ∀ k ∈ i.queued, ∃ c ∈ i.kids, c.key = k ∧ c.hasQueued = true
  qsup : ∀ c ∈ i.kids, c.hasQueued = true → c.key ∈ i.queued
  opsRoot : rootMin opLess i.ops = true
  kidsRoot : rootMin childLess (i.queued.filterMap fun k => i.kids.find? fun c => c.key == k) = true
  kidsWf : ∀ c ∈ i.kids, c.wf = true

theorem wf_iff (i : Inv) : i.wf = true ↔ WF i := by
  cases i with
  | mk k ops q p e s pk pkk c kids =>
    rw [Inv.wf]
    simp only [Bool.and_eq_true, decide_eq_true_eq, wfL_iff,
      List.all_eq_true, List.any_eq_true, Bool.or_eq_true, Bool.not_eq_true', beq_iff_eq, List.contains_iff_mem]
    constructor
    · rintro ⟨⟨⟨⟨⟨⟨h1, h2⟩, h3⟩, h4⟩, h5⟩, h6⟩, h7⟩
      refine ⟨h1, h2, ?_, ?_, h5, h6, h7⟩
      · intro k hk; obtain ⟨c, hc, hck, hcq⟩ := h3 k hk; exact ⟨c, hc, hck, hcq⟩
      · intro c hc hq; rcases h4 c hc with h | h
        · rw [h] at hq; cases hq
        · exact h
    · rintro ⟨h1, h2, h3, h4, h5, h6, h7⟩
      refine ⟨⟨⟨⟨⟨⟨h1, h2⟩, ?_⟩, ?_⟩, h5⟩, h6⟩, h7⟩
      · intro k hk; obtain ⟨c, hc, hck, hcq⟩ := h3 k hk; exact ⟨c, hc, hck, hcq⟩
      · intro c hc
        cases hq : c.hasQueued
        · exact Or.inl rfl
        · exact Or.inr (h4 c hc hq)

/-! ### lookups by key -/

theorem find?_key {α : Type} (f : α → Nat) : ∀ (l : List α), (l.map f).Nodup → ∀ c ∈ l,
    l.find? (fun x => f x == f c) = some c
  | [], _, c, h => by cases h
  | a :: l, hn, c, h => by
    rw [List.map_cons, List.nodup_cons] at hn
    rw [List.find?_cons]
    by_cases hac : f a = f c
    · rcases List.mem_cons.mp h with heq | hcl
      · subst heq; simp
      · exact absurd (List.mem_map.mpr ⟨c, hcl, hac.symm⟩) hn.1
    · have : (f a == f c) = false := by simpa using hac
      rw [this]
      rcases List.mem_cons.mp h with heq | hcl
      · subst heq; exact absurd rfl hac
      · exact find?_key f l hn.2 c hcl

theorem child_of_mem (i : Inv) (hn : (i.kids.map Inv.key).Nodup) (c : Inv) (hc : c ∈ i.kids) :
    i.child c.key = some c := find?_key Inv.key i.kids hn c hc

theorem mem_of_child (i : Inv) (k : Nat) (c : Inv) (h : i.child k = some c) : c ∈ i.kids ∧ c.key = k := by
  unfold Inv.child at h
  refine ⟨List.mem_of_find?_eq_some h, ?_⟩
  have := List.find?_some h
  simpa using this

/-! ### consequences of well-formedness -/

theorem rootMin_cons {α : Type} (less : α → α → Bool) (r : α) (rest : List α)
    (h : rootMin less (r :: rest) = true) : ∀ x ∈ r :: rest, less x r = false := by
  intro x hx
  unfold rootMin at h
  have := List.all_eq_true.mp h x hx
  simpa using this

theorem isQueued_eq_hasQueued (i : Inv) (hw : WF i) : i.isQueued = i.hasQueued := by
  rw [hasQueued_eq]
  unfold Inv.isQueued
  congr 1
  cases hq : i.queued with
  | nil =>
    simp only [List.isEmpty_nil, Bool.not_true]
    symm
    rw [List.any_eq_false]
    intro c hc hcq
    have := hw.qsup c hc (by simpa using hcq)
    rw [hq] at this
    cases this
  | cons b qs =>
    simp only [List.isEmpty_cons, Bool.not_false]
    symm
    rw [List.any_eq_true]
    obtain ⟨c, hc, _, hcq⟩ := hw.qsub b (by rw [hq]; exact List.mem_cons_self)
    exact ⟨c, hc, hcq⟩

theorem mem_cands (i c : Inv) : c ∈ cands i ↔ c ∈ i.kids ∧ c.hasQueued = true := by
  unfold cands; exact List.mem_filter

/-- The root of `queuedChildren` is a candidate that no candidate precedes in the heap order. -/
theorem root_le_cands (i : Inv) (hw : WF i) (b : Nat) (qs : List Nat) (hq : i.queued = b :: qs) :
    ∃ bb, i.child b = some bb ∧ bb ∈ cands i ∧ ∀ c ∈ cands i, childLess c bb = false := by
  obtain ⟨bb, hbb, hkey, hbq⟩ := hw.qsub b (by rw [hq]; exact List.mem_cons_self)
  have hchild : i.child b = some bb := by rw [← hkey]; exact child_of_mem i hw.keys bb hbb
  refine ⟨bb, hchild, (mem_cands i bb).mpr ⟨hbb, hbq⟩, ?_⟩
  intro c hc
  obtain ⟨hck, hcq⟩ := (mem_cands i c).mp hc
  have hroot := hw.kidsRoot
  rw [hq, List.filterMap_cons] at hroot
  have hfind : (i.kids.find? fun c => c.key == b) = some bb := hchild
  rw [hfind] at hroot
  apply rootMin_cons childLess bb _ hroot c
  have hmem : c ∈ (i.queued.filterMap fun k => i.kids.find? fun c => c.key == k) := by
    rw [List.mem_filterMap]
    exact ⟨c.key, hw.qsup c hck hcq, child_of_mem i hw.keys c hck⟩
  rw [hq, List.filterMap_cons, hfind] at hmem
  exact hmem

theorem childLess_false_score (c bb : Inv) (h : childLess c bb = false) : c.scoreLt bb = false := by
  unfold childLess isPreferred at h
  simp only [Bool.or_eq_false_iff] at h
  exact h.1

theorem mem_minScore (cs : List Inv) (c : Inv) :
    c ∈ minScore cs ↔ c ∈ cs ∧ ∀ c' ∈ cs, c'.scoreLt c = false := by
  unfold minScore
  rw [List.mem_filter, List.all_eq_true]
  simp only [Bool.not_eq_true']

theorem mem_lru (cs : List Inv) (c : Inv) :
    c ∈ lru cs ↔ c ∈ cs ∧ ∀ c' ∈ cs, ¬ c'.started < c.started := by
  unfold lru
  rw [List.mem_filter, List.all_eq_true]
  simp only [Bool.not_eq_true', decide_eq_false_iff_not]

theorem root_mem_minScore (i bb : Inv) (hbb : bb ∈ cands i) (hle : ∀ c ∈ cands i, childLess c bb = false) :
    bb ∈ minScore (cands i) :=
  (mem_minScore _ _).mpr ⟨hbb, fun c hc => childLess_false_score c bb (hle c hc)⟩

theorem root_mem_lru (i bb : Inv) (hbb : bb ∈ cands i) (hle : ∀ c ∈ cands i, childLess c bb = false) :
    bb ∈ lru (minScore (cands i)) := by
  rw [mem_lru]
  refine ⟨root_mem_minScore i bb hbb hle, ?_⟩
  intro c hc
  obtain ⟨hcc, hcmin⟩ := (mem_minScore _ _).mp hc
  have h1 := hle c hcc
  have h2 : bb.scoreLt c = false := hcmin bb hbb
  unfold childLess isPreferred at h1
  have h2' : scoreLt bb.exec bb.prio c.exec c.prio = false := h2
  rw [h2'] at h1
  have h3 : (!false && decide (c.started < bb.started)) = false := by
    simp only [Bool.or_eq_false_iff] at h1; exact h1.2
  simpa using h3

/-- Looking up a key in a sublist of the children finds the child with that key. -/
theorem find?_in_sub (i : Inv) (hn : (i.kids.map Inv.key).Nodup) (m : List Inv) (hsub : ∀ c ∈ m, c ∈ i.kids)
    (k : Nat) : (∀ s, s ∈ m → s.key = k → m.find? (fun c => c.key == k) = some s) ∧
      (∀ s, m.find? (fun c => c.key == k) = some s → s ∈ m ∧ s.key = k) := by
  constructor
  · intro s hs hk
    cases hf : m.find? (fun c => c.key == k) with
    | none =>
      have := List.find?_eq_none.mp hf s hs
      simp [hk] at this
    | some s' =>
      have hs' := List.mem_of_find?_eq_some hf
      have hk' : s'.key = k := by simpa using List.find?_some hf
      have e1 := child_of_mem i hn s (hsub s hs)
      have e2 := child_of_mem i hn s' (hsub s' hs')
      rw [hk] at e1; rw [hk'] at e2
      rw [e1] at e2
      exact congrArg some (Option.some.inj e2).symm
  · intro s hf
    exact ⟨List.mem_of_find?_eq_some hf, by simpa using List.find?_some hf⟩

/-! ### one step of the walk -/

/-- The child chosen by the code at an invocation without directly queued operations is one of
the documented admissible children, with the same stickiness state. -/
theorem chooseChild_mem_specChildren (win : Nat → Bool) (nlim : Nat) (i : Inv) (hw : WF i)
    (keys : List Nat) (lvl : Nat) (ck : Nat) (keys' : List Nat) (lvl' : Nat)
    (h : chooseChild win nlim i keys lvl = some (ck, keys', lvl')) :
    ∃ c, i.child ck = some c ∧ (c, keys', lvl') ∈ specChildren win nlim i keys lvl := by
  unfold chooseChild at h
  cases hq : i.queued with
  | nil => rw [hq] at h; cases h
  | cons b qs =>
    rw [hq] at h
    simp only [] at h
    obtain ⟨bb, hchild, hbc, hle⟩ := root_le_cands i hw b qs hq
    have hbm := root_mem_minScore i bb hbc hle
    have hbl := root_mem_lru i bb hbc hle
    have hbkey : bb.key = b := (mem_of_child i b bb hchild).2
    have hmsub : ∀ c ∈ minScore (cands i), c ∈ i.kids := fun c hc =>
      ((mem_cands i c).mp ((mem_minScore _ _).mp hc).1).1
    cases keys with
    | nil =>
      simp only [Option.some.injEq, Prod.mk.injEq] at h
      obtain ⟨rfl, rfl, rfl⟩ := h
      refine ⟨bb, hchild, ?_⟩
      unfold specChildren
      simp only []
      exact List.mem_map.mpr ⟨bb, hbl, rfl⟩
    | cons k ks =>
      simp only [] at h
      by_cases hlvl : lvl < nlim
      · rw [if_pos hlvl] at h
        unfold specChildren
        simp only [if_pos hlvl]
        unfold stickyWins at h
        cases hsk : i.child k with
        | none => rw [hsk] at h; cases h
        | some s =>
          rw [hsk, hchild] at h
          simp only [] at h
          obtain ⟨hsmem, hskey⟩ := mem_of_child i k s hsk
          have hswf : WF s := (wf_iff s).mp (hw.kidsWf s hsmem)
          have hsq : s.isQueued = s.hasQueued := isQueued_eq_hasQueued s hswf
          have hfs := find?_in_sub i hw.keys (minScore (cands i)) hmsub k
          cases hwin : (s.isQueued && isPreferred s.exec s.prio bb.exec bb.prio (win lvl)) with
          | true =>
            rw [hwin] at h
            simp only [if_true, Option.some.injEq, Prod.mk.injEq] at h
            obtain ⟨rfl, rfl, rfl⟩ := h
            simp only [Bool.and_eq_true] at hwin
            obtain ⟨hsQ, hpref⟩ := hwin
            have hsc : s ∈ cands i := (mem_cands i s).mpr ⟨hsmem, by rw [← hsq]; exact hsQ⟩
            have h1 : scoreLt s.exec s.prio bb.exec bb.prio = false := childLess_false_score s bb (hle s hsc)
            unfold isPreferred at hpref
            rw [h1] at hpref
            simp only [Bool.false_or, Bool.and_eq_true, Bool.not_eq_true'] at hpref
            obtain ⟨hbs, hw1⟩ := hpref
            have hsm : s ∈ minScore (cands i) := by
              rw [mem_minScore]
              refine ⟨hsc, fun c' hc' => ?_⟩
              exact invScoreLt_strictWeak.negTrans c' bb s (childLess_false_score c' bb (hle c' hc')) hbs
            rw [hfs.1 s hsm hskey]
            simp only [hw1, if_true]
            exact ⟨s, hsk, List.mem_singleton.mpr rfl⟩
          | false =>
            rw [hwin] at h
            simp only [Bool.false_eq_true, if_false] at h
            by_cases hbk : b = k
            · rw [if_pos hbk] at h
              simp only [Option.some.injEq, Prod.mk.injEq] at h
              obtain ⟨rfl, rfl, rfl⟩ := h
              have hbk' : bb.key = k := by rw [hbkey, hbk]
              refine ⟨bb, by rw [← hbk]; exact hchild, ?_⟩
              rw [hfs.1 bb hbm hbk']
              simp only []
              split
              · exact List.mem_singleton.mpr rfl
              · refine List.mem_map.mpr ⟨bb, hbl, ?_⟩
                rw [if_pos hbk']
            · rw [if_neg hbk] at h
              simp only [Option.some.injEq, Prod.mk.injEq] at h
              obtain ⟨rfl, rfl, rfl⟩ := h
              refine ⟨bb, hchild, ?_⟩
              cases hf : (minScore (cands i)).find? (fun c => c.key == k) with
              | none =>
                simp only []
                exact List.mem_map.mpr ⟨bb, hbl, rfl⟩
              | some s' =>
                simp only []
                obtain ⟨hs'm, hs'k⟩ := hfs.2 s' hf
                -- s' = s
                have e1 := child_of_mem i hw.keys s' (hmsub s' hs'm)
                rw [hs'k, hsk] at e1
                have hss : s = s' := Option.some.inj e1
                subst hss
                have hsc : s ∈ cands i := ((mem_minScore _ _).mp hs'm).1
                have hsQ : s.isQueued = true := by rw [hsq]; exact ((mem_cands i s).mp hsc).2
                have hbs : scoreLt bb.exec bb.prio s.exec s.prio = false := ((mem_minScore _ _).mp hs'm).2 bb hbc
                cases hw1 : win lvl with
                | true =>
                  -- then the sticky child would have won
                  exfalso
                  rw [hsQ, hw1] at hwin
                  unfold isPreferred at hwin
                  rw [hbs] at hwin
                  simp at hwin
                | false =>
                  simp only [Bool.false_eq_true, if_false]
                  refine List.mem_map.mpr ⟨bb, hbl, ?_⟩
                  have : ¬ bb.key = k := by rw [hbkey]; exact hbk
                  rw [if_neg this]
      · rw [if_neg hlvl] at h
        simp only [Option.some.injEq, Prod.mk.injEq] at h
        obtain ⟨rfl, rfl, rfl⟩ := h
        refine ⟨bb, hchild, ?_⟩
        unfold specChildren
        simp only [if_neg hlvl]
        exact List.mem_map.mpr ⟨bb, hbl, rfl⟩

/-! ### the whole walk -/

theorem mem_firstOps (ops : List Op) (o : Op) :
    o ∈ firstOps ops ↔ o ∈ ops ∧ ∀ o' ∈ ops, opLess o' o = false := by
  unfold firstOps
  rw [List.mem_filter, List.all_eq_true]
  simp only [Bool.not_eq_true']

theorem pickAux_mem_specAux (win : Nat → Bool) (nlim : Nat) :
    ∀ (fuel : Nat) (i : Inv) (keys : List Nat) (lvl : Nat) (r : Op × Nat), i.wf = true →
      pickAux win nlim fuel i keys lvl = some r → r ∈ specAux win nlim fuel i keys lvl := by
  intro fuel
  induction fuel with
  | zero => intro i keys lvl r _ h; cases h
  | succ f ih =>
    intro i keys lvl r hwf h
    have hw := (wf_iff i).mp hwf
    unfold pickAux at h
    unfold specAux
    cases hops : i.ops with
    | cons o rest =>
      rw [hops] at h
      simp only [Option.some.injEq] at h
      subst h
      simp only [List.isEmpty_cons, Bool.false_eq_true, if_false]
      refine List.mem_map.mpr ⟨o, ?_, rfl⟩
      rw [mem_firstOps]
      refine ⟨List.mem_cons_self, ?_⟩
      have := hw.opsRoot
      rw [hops] at this
      exact rootMin_cons opLess o rest this
    | nil =>
      rw [hops] at h
      simp only [List.isEmpty_nil, if_true]
      cases hc : chooseChild win nlim i keys lvl with
      | none => rw [hc] at h; cases h
      | some x =>
        obtain ⟨ck, keys', lvl'⟩ := x
        rw [hc] at h
        simp only [] at h
        obtain ⟨c, hchild, hmem⟩ := chooseChild_mem_specChildren win nlim i hw keys lvl ck keys' lvl' hc
        rw [hchild] at h
        simp only [] at h
        have hcw : c.wf = true := hw.kidsWf c (mem_of_child i ck c hchild).1
        have := ih c keys' lvl' r hcw h
        exact List.mem_flatMap.mpr ⟨(c, keys', lvl'), hmem, this⟩

end BbRe.Lemmas.Fair
